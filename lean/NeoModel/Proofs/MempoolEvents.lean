/-
C08 helper: the subscription events. While subscriptions are on, every call appends to `events` exactly the
changes it makes to the set of pooled transactions: one TransactionRemoved (with the item's data) per transaction
that leaves, one TransactionAdded per successful `Add`, in an order that can be replayed strictly (a removed event
always names a transaction that is pooled at that point of the stream, an added event one that is not).
-/
import NeoModel.Proofs.MempoolRun
namespace NeoModel.Mempool

/-- the pool content as a subscriber can know it: pooled hash ↦ the data it was added with -/
def content (mp : Pool) : Nat → Option Nat := fun h => (mp.vmap h).map (fun _ => mp.data h)

/-- strict replay of one event on a content map (`none` = the event does not fit) -/
def replay1 (m : Nat → Option Nat) (e : Event) : Option (Nat → Option Nat) :=
  if e.added then (if m e.id = none then some (upd m e.id (some e.data)) else none)
  else (if m e.id = some e.data then some (upd m e.id none) else none)

def replay : (Nat → Option Nat) → List Event → Option (Nat → Option Nat)
  | m, [] => some m
  | m, e :: es =>
    match replay1 m e with
    | some m' => replay m' es
    | none => none

theorem replay_append (a b : List Event) : ∀ (m : Nat → Option Nat),
    replay m (a ++ b) = (replay m a).bind (fun m' => replay m' b) := by
  induction a with
  | nil => intro m; rfl
  | cons e a ih =>
    intro m
    simp only [List.cons_append, replay]
    cases replay1 m e with
    | none => rfl
    | some m' => exact ih m'

/-- one call (or one part of a call): the events it sends are exactly its changes of the content -/
structure EvStep (mp mp' : Pool) (evs : List Event) : Prop where
  subs : mp'.subsOn = mp.subsOn
  events : mp'.events = if mp.subsOn then mp.events ++ evs else mp.events
  replay : replay (content mp) evs = some (content mp')

theorem EvStep.trans {a b c : Pool} {e1 e2 : List Event} (h1 : EvStep a b e1) (h2 : EvStep b c e2) :
    EvStep a c (e1 ++ e2) := by
  refine ⟨h2.subs.trans h1.subs, ?_, ?_⟩
  · rw [h2.events, h1.subs, h1.events]
    by_cases h : a.subsOn = true
    · simp [h]
    · rw [if_neg h, if_neg h, if_neg h]
  · rw [replay_append, h1.replay]; exact h2.replay

theorem EvStep.of_same {mp mp' : Pool} (h1 : mp'.subsOn = mp.subsOn) (h2 : mp'.events = mp.events)
    (h3 : mp'.vmap = mp.vmap) (h4 : mp'.data = mp.data) : EvStep mp mp' [] := by
  refine ⟨h1, ?_, ?_⟩
  · rw [h2]; split
    · exact (List.append_nil _).symm
    · rfl
  · show some (content mp) = some (content mp')
    unfold content; rw [h3, h4]

theorem EvStep.refl (mp : Pool) : EvStep mp mp [] := EvStep.of_same rfl rfl rfl rfl

/-- `removeFromMapWithFeesAndAttrs` of a pooled item -/
theorem evStep_removeFromMap (mp : Pool) (itm x : Tx) (hv : mp.vmap itm.id = some x) :
    EvStep mp (removeFromMap mp itm) [{ added := false, id := itm.id, data := mp.data itm.id }] := by
  refine ⟨rfl, ?_, ?_⟩
  · show emit mp _ = _
    unfold emit; rfl
  · have hc : content mp itm.id = some (mp.data itm.id) := by simp [content, hv]
    simp only [replay, replay1, Bool.false_eq_true, if_false, hc, if_true]
    congr 1
    funext h
    by_cases e : h = itm.id
    · subst e; simp [content, removeFromMap, upd]
    · simp [content, removeFromMap, upd, e]

theorem evStep_removeInternal {U : Tx → Prop} {mp : Pool} (hi : Inv U mp) (h : Nat) :
    ∃ evs, EvStep mp (removeInternal mp h) evs := by
  unfold removeInternal
  cases hv : mp.vmap h with
  | none => exact ⟨[], EvStep.refl mp⟩
  | some e =>
    obtain ⟨he1, he2⟩ := (hi.vmap h e).mp hv
    obtain ⟨e', h1, h2, h3, _⟩ := findNum_spec mp.txs h e he1 he2 hi.list.nodup
    simp only [h1]
    have hv' : mp.vmap e'.id = some e := by rw [h3]; exact hv
    have := evStep_removeFromMap { mp with txs := mp.txs.eraseIdx (findNum mp.txs h) } e' e hv'
    exact ⟨_, ⟨this.subs, this.events, this.replay⟩⟩

theorem evStep_removeAll {U : Tx → Prop} (hw : WF U) : ∀ (l : List Tx) {mp : Pool}, Inv U mp →
    ∃ evs, EvStep mp (removeAll mp l) evs := by
  intro l
  induction l with
  | nil => intro mp _; exact ⟨[], EvStep.refl mp⟩
  | cons c cs ih =>
    intro mp hi
    obtain ⟨e1, h1⟩ := evStep_removeInternal hi c.id
    obtain ⟨e2, h2⟩ := ih (inv_removeInternal hw hi c.id).1
    exact ⟨e1 ++ e2, h1.trans h2⟩

theorem evStep_checkTxConflicts (mp : Pool) (t : Tx) (feer : Feer) : EvStep mp (checkTxConflicts mp t feer).1 [] := by
  unfold checkTxConflicts
  simp only
  repeat' split
  all_goals exact EvStep.of_same rfl rfl rfl rfl

theorem evStep_oracleStage {U : Tx → Prop} {mp : Pool} (hi : Inv U mp) (t : Tx) :
    ∃ evs, EvStep mp (oracleStage mp t).1 evs := by
  unfold oracleStage
  repeat' split
  all_goals first | exact ⟨[], EvStep.of_same rfl rfl rfl rfl⟩ | exact evStep_removeInternal hi _

theorem tryAdd_ev (mp : Pool) (t : Tx) (feer : Feer) (b : Bool) :
    (tryAddSendersFee mp t feer b).1.subsOn = mp.subsOn ∧ (tryAddSendersFee mp t feer b).1.events = mp.events ∧
    (tryAddSendersFee mp t feer b).1.vmap = mp.vmap ∧ (tryAddSendersFee mp t feer b).1.data = mp.data := by
  unfold tryAddSendersFee
  simp only
  repeat' split
  all_goals exact ⟨rfl, rfl, rfl, rfl⟩

/-- the insertion stage of `Add` for a transaction whose hash is not pooled -/
theorem evStep_insertStage {U : Tx → Prop} {mp : Pool} (hi : Inv U mp) (t : Tx) (feer : Feer) (d : Nat)
    (hfresh : mp.vmap t.id = none) :
    ∃ evs, EvStep mp (insertStage mp t feer d).1 evs ∧
      ((insertStage mp t feer d).2 = none → ∃ E, evs = E ++ [{ added := true, id := t.id, data := d }]) := by
  unfold insertStage
  simp only
  split
  · exact ⟨[], EvStep.refl mp, fun h => by cases h⟩
  · -- eviction (or not), then registration and the added event
    have hpl : ∃ evs, EvStep mp (placeLast mp t) evs ∧ (placeLast mp t).vmap t.id = none := by
      unfold placeLast
      split
      · cases hl : mp.txs.getLast? with
        | none => exact ⟨[], EvStep.of_same rfl rfl rfl rfl, hfresh⟩
        | some u =>
          have hu : u ∈ mp.txs := List.mem_of_getLast? hl
          have hv : mp.vmap u.id = some u := (hi.vmap u.id u).mpr ⟨hu, rfl⟩
          have := evStep_removeFromMap { mp with txs := mp.txs.dropLast ++ [t] } u u hv
          simp only
          refine ⟨_, ⟨this.subs, this.events, this.replay⟩, ?_⟩
          show upd mp.vmap u.id none t.id = none
          unfold upd; split
          · rfl
          · exact hfresh
      · exact ⟨[], EvStep.of_same rfl rfl rfl rfl, hfresh⟩
    obtain ⟨e1, h1, hf1⟩ := hpl
    generalize placeLast mp t = mp1 at h1 hf1
    obtain ⟨a1, a2, a3, a4⟩ := tryAdd_ev (register { mp1 with txs := shiftInsert mp1.txs (insertIdx mp.txs t) t } t feer.height d) t feer false
    refine ⟨e1 ++ [{ added := true, id := t.id, data := d }], h1.trans ⟨?_, ?_, ?_⟩, fun _ => ⟨e1, rfl⟩⟩
    · exact a1
    · show emit _ _ = _
      unfold emit
      rw [a1, a2]; rfl
    · have hc : content mp1 t.id = none := by simp [content, hf1]
      simp only [replay, replay1, if_true, hc]
      congr 1
      funext h
      show _ = ((tryAddSendersFee _ t feer false).1.vmap h).map (fun _ => (tryAddSendersFee _ t feer false).1.data h)
      rw [a3, a4]
      by_cases e : h = t.id
      · subst e; simp [register, upd]
      · simp [content, register, upd, e]

/-- `Add` as a whole -/
theorem evStep_add {U : Tx → Prop} (hw : WF U) {mp : Pool} (hi : Inv U mp) {t : Tx} (ht : U t) (feer : Feer)
    (hF : FeerOk feer) (d : Nat) : ∃ evs, EvStep mp (add mp t feer d).1 evs ∧
      ((add mp t feer d).2 = none → ∃ E, evs = E ++ [{ added := true, id := t.id, data := d }]) := by
  unfold add
  by_cases hdup : (mp.vmap t.id).isSome = true
  · rw [if_pos hdup]; exact ⟨[], EvStep.refl mp, fun h => by cases h⟩
  · rw [if_neg hdup]
    have hfresh : mp.vmap t.id = none := by
      cases h : mp.vmap t.id with
      | none => rfl
      | some x => rw [h] at hdup; exact absurd rfl hdup
    have hc := evStep_checkTxConflicts mp t feer
    cases hck : checkTxConflicts mp t feer with
    | mk mp1 r =>
      rw [hck] at hc
      cases r with
      | error e0 => exact ⟨[], hc, fun h => by cases h⟩
      | ok rm =>
        simp only
        obtain ⟨actual, hmp1, hent, _⟩ := checkTxConflicts_ok hw hi ht feer hF hck
        have hi1 : Inv U mp1 := by rw [hmp1]; exact inv_fees_upd hi _ _ hent
        have hv1 : mp1.vmap = mp.vmap := by rw [hmp1]
        obtain ⟨eo, ho⟩ := evStep_oracleStage hi1 t
        obtain ⟨o1, o2, o3⟩ := oracleStage_spec hw hi1 t
        split
        · exact ⟨_, hc.trans ho, fun h => by cases h⟩
        · by_cases hflag : (oracleStage mp1 t).2 = true
          · rw [if_neg (by rw [hflag]; simp)]
            obtain ⟨p1, _, _, p4, _⟩ := o3 hflag
            obtain ⟨q1, q2, _⟩ := inv_removeAll hw rm p1
            obtain ⟨er, hr⟩ := evStep_removeAll hw rm p1
            have hf3 : (removeAll (oracleStage mp1 t).1 rm).vmap t.id = none := by
              cases h : (removeAll (oracleStage mp1 t).1 rm).vmap t.id with
              | none => rfl
              | some x =>
                exfalso
                obtain ⟨hx1, hx2⟩ := (q1.vmap t.id x).mp h
                rw [q2] at hx1
                have hx3 : x ∈ mp.txs := by
                  have := p4.subset (List.mem_filter.mp hx1).1
                  rw [hmp1] at this; exact this
                have := (hi.vmap t.id x).mpr ⟨hx3, hx2⟩
                rw [hfresh] at this; cases this
            obtain ⟨ei, hins, hlast⟩ := evStep_insertStage q1 t feer d hf3
            refine ⟨_, ((hc.trans ho).trans hr).trans hins, fun hs => ?_⟩
            obtain ⟨E, hE⟩ := hlast hs
            exact ⟨[] ++ eo ++ er ++ E, by rw [hE]; simp⟩
          · have hf : (oracleStage mp1 t).2 = false := by
              cases h' : (oracleStage mp1 t).2 with
              | true => exact absurd h' hflag
              | false => rfl
            rw [if_pos (by rw [hf]; rfl)]
            exact ⟨_, hc.trans ho, fun h => by cases h⟩

/-! ### RemoveStale -/

theorem evStep_dropEntry (mp : Pool) (itm x : Tx) (hv : mp.vmap itm.id = some x) :
    EvStep mp (dropEntry mp itm) [{ added := false, id := itm.id, data := mp.data itm.id }] := by
  refine ⟨rfl, ?_, ?_⟩
  · show emit mp _ = _
    unfold emit; rfl
  · have hc : content mp itm.id = some (mp.data itm.id) := by simp [content, hv]
    simp only [replay, replay1, Bool.false_eq_true, if_false, hc, if_true]
    congr 1
    funext h
    by_cases e : h = itm.id
    · subst e; simp [content, dropEntry, upd]
    · simp [content, dropEntry, upd, e]

theorem evStep_staleLoop (isOK : Tx → Bool) (feer : Feer) (pc : Bool) :
    ∀ (rest : List Tx) (mp : Pool) (acc : List Tx), VmapOk (acc ++ rest) mp.vmap → ((acc ++ rest).map (·.id)).Nodup →
      ∃ evs, EvStep mp (staleLoop isOK feer pc rest mp acc).1 evs := by
  intro rest
  induction rest with
  | nil => intro mp acc _ _; exact ⟨[], EvStep.refl mp⟩
  | cons itm rest ih =>
    intro mp acc hv hnd
    have hm : itm ∈ acc ++ itm :: rest := by simp
    have hvi : mp.vmap itm.id = some itm := (hv itm.id itm).mpr ⟨hm, rfl⟩
    have hfl := filter_middle_ne acc rest itm hnd
    have hnd' : ((acc ++ rest).map (·.id)).Nodup :=
      hnd.sublist ((List.Sublist.append (List.Sublist.refl _) (List.sublist_cons_self _ _)).map _)
    have hdropv : ∀ (mp' : Pool), mp'.vmap = mp.vmap → VmapOk (acc ++ rest) (dropEntry mp' itm).vmap := by
      intro mp' e
      have := vmapOk_remove hv itm.id
      rw [hfl] at this
      show VmapOk _ (upd mp'.vmap itm.id none)
      rw [e]; exact this
    simp only [staleLoop]
    by_cases hk : (isOK itm && checkPolicy mp itm pc) = true
    · rw [if_pos hk]
      obtain ⟨a1, a2, a3, a4⟩ := tryAdd_ev mp itm feer true
      cases hres : tryAddSendersFee mp itm feer true with
      | mk mp' b =>
        rw [hres] at a1 a2 a3 a4
        have h0 : EvStep mp mp' [] := EvStep.of_same a1 a2 a3 a4
        cases b with
        | true =>
          simp only
          have heq : acc ++ [itm] ++ rest = acc ++ itm :: rest := by simp
          obtain ⟨e2, h2⟩ := ih
            { mp' with conflicts := addConflictEntries mp'.conflicts itm.id itm.conflicts
                       resent := if dueForResend mp'.resendThreshold feer.height (mp'.stamp itm.id)
                         then mp'.resent ++ [(itm.id, mp'.data itm.id)] else mp'.resent } (acc ++ [itm])
            (by rw [heq]; show VmapOk _ mp'.vmap; rw [a3]; exact hv) (by rw [heq]; exact hnd)
          exact ⟨_, h0.trans ⟨h2.subs, h2.events, h2.replay⟩⟩
        | false =>
          simp only
          obtain ⟨e2, h2⟩ := ih (dropEntry mp' itm) acc (hdropv mp' a3) hnd'
          have hvi' : mp'.vmap itm.id = some itm := by rw [a3]; exact hvi
          exact ⟨_, (h0.trans (evStep_dropEntry mp' itm itm hvi')).trans h2⟩
    · rw [if_neg hk]
      obtain ⟨e2, h2⟩ := ih (dropEntry mp itm) acc (hdropv mp rfl) hnd'
      exact ⟨_, (evStep_dropEntry mp itm itm hvi).trans h2⟩

theorem evStep_removeStale {U : Tx → Prop} {mp : Pool} (hi : Inv U mp) (isOK : Tx → Bool) (feer : Feer) :
    ∃ evs, EvStep mp (removeStale mp isOK feer) evs := by
  unfold removeStale
  simp only
  have hlp : (loadPolicy mp feer).1.txs = mp.txs ∧ (loadPolicy mp feer).1.vmap = mp.vmap ∧
      (loadPolicy mp feer).1.subsOn = mp.subsOn ∧ (loadPolicy mp feer).1.events = mp.events ∧
      (loadPolicy mp feer).1.data = mp.data := by
    unfold loadPolicy; split <;> exact ⟨rfl, rfl, rfl, rfl, rfl⟩
  obtain ⟨l1, l2, l3, l4, l5⟩ := hlp
  obtain ⟨evs, h⟩ := evStep_staleLoop isOK feer (loadPolicy mp feer).2 (loadPolicy mp feer).1.txs
    { (loadPolicy mp feer).1 with fees := fun _ => none, conflicts := fun _ => none, resent := [] } []
    (by rw [l1]; show VmapOk ([] ++ mp.txs) (loadPolicy mp feer).1.vmap; rw [l2]; simpa using hi.vmap)
    (by rw [l1]; simpa using hi.list.nodup)
  have h0 : EvStep mp { (loadPolicy mp feer).1 with fees := fun _ => none, conflicts := fun _ => none, resent := [] } [] :=
    EvStep.of_same l3 l4 l2 l5
  have h1 := h0.trans h
  exact ⟨_, ⟨h1.subs, h1.events, h1.replay⟩⟩

/-! ### sequences -/

theorem evStep_applyOp {U : Tx → Prop} (hw : WF U) {mp : Pool} (hi : Inv U mp) (op : Op) (hop : OpOk U op)
    (hns : ∀ on, op ≠ .setSubs on) : ∃ evs, EvStep mp (applyOp mp op) evs := by
  cases op with
  | add t feer d => obtain ⟨evs, h, _⟩ := evStep_add hw hi hop.1 feer hop.2 d; exact ⟨evs, h⟩
  | remove h => exact evStep_removeInternal hi h
  | removeStale isOK feer => exact evStep_removeStale hi isOK feer
  | verify t feer =>
    have := evStep_checkTxConflicts mp t feer
    show ∃ evs, EvStep mp (verify mp t feer).1 evs
    unfold verify
    split <;> (rename_i h; rw [h] at this; exact ⟨[], this⟩)
  | setResendThreshold h => exact ⟨[], EvStep.of_same rfl rfl rfl rfl⟩
  | setSubs on => exact absurd rfl (hns on)

/-- no operation of the list switches the subscriptions -/
def NoSubsOp (ops : List Op) : Prop := ∀ on, Op.setSubs on ∉ ops

theorem evStep_foldl {U : Tx → Prop} (hw : WF U) : ∀ (ops : List Op) (mp : Pool), Inv U mp → OpsIn U ops → NoSubsOp ops →
    ∃ evs, EvStep mp (ops.foldl applyOp mp) evs := by
  intro ops
  induction ops with
  | nil => intro mp _ _ _; exact ⟨[], EvStep.refl mp⟩
  | cons op ops ih =>
    intro mp hi ho hn
    rw [List.foldl_cons]
    have hop := ho op List.mem_cons_self
    obtain ⟨e1, h1⟩ := evStep_applyOp hw hi op hop (fun on e => hn on (by rw [e]; exact List.mem_cons_self))
    obtain ⟨e2, h2⟩ := ih _ (inv_applyOp hw hi op hop) (fun o h => ho o (List.mem_cons_of_mem _ h))
      (fun on h => hn on (List.mem_cons_of_mem _ h))
    exact ⟨_, h1.trans h2⟩

end NeoModel.Mempool

namespace NeoModel.Mempool

/-- number of added (`true`) / removed (`false`) events for hash `id` -/
def countEv (added : Bool) (id : Nat) (evs : List Event) : Nat :=
  (evs.filter (fun e => e.added == added && e.id == id)).length

theorem countEv_cons (added : Bool) (id : Nat) (e : Event) (evs : List Event) :
    countEv added id (e :: evs) = (if e.added = added ∧ e.id = id then 1 else 0) + countEv added id evs := by
  unfold countEv
  rw [List.filter_cons]
  by_cases h : e.added = added ∧ e.id = id
  · simp [h]; omega
  · have : (e.added == added && e.id == id) = false := by
      cases hb : (e.added == added && e.id == id) with
      | false => rfl
      | true => simp at hb; exact absurd hb h
    simp [this, h]

/-- a stream that replays strictly balances: per hash, added events + (pooled before) = removed events + (pooled after) -/
theorem replay_counts : ∀ (evs : List Event) (m m' : Nat → Option Nat), replay m evs = some m' →
    ∀ id, countEv true id evs + (if (m id).isSome then 1 else 0) = countEv false id evs + (if (m' id).isSome then 1 else 0) := by
  intro evs
  induction evs with
  | nil =>
    intro m m' h id
    simp only [replay, Option.some.injEq] at h
    subst h; rfl
  | cons e evs ih =>
    intro m m' h id
    simp only [replay] at h
    cases h1 : replay1 m e with
    | none => rw [h1] at h; cases h
    | some m1 =>
      rw [h1] at h
      have := ih m1 m' h id
      rw [countEv_cons, countEv_cons]
      unfold replay1 at h1
      cases hadd : e.added with
      | true =>
        rw [hadd] at h1
        simp only [if_true] at h1
        split at h1
        · rename_i hnone
          simp only [Option.some.injEq] at h1
          subst h1
          by_cases hid : e.id = id
          · subst hid
            simp only [upd_same, Option.isSome_some, if_true] at this
            simp [hnone]; omega
          · have hne : id ≠ e.id := fun h => hid h.symm
            rw [upd_other _ _ hne] at this
            simp [hid]; omega
        · cases h1
      | false =>
        rw [hadd] at h1
        simp only [Bool.false_eq_true, if_false] at h1
        split at h1
        · rename_i hsome
          simp only [Option.some.injEq] at h1
          subst h1
          by_cases hid : e.id = id
          · subst hid
            simp only [upd_same, Option.isSome_none, Bool.false_eq_true, if_false] at this
            simp [hsome]; omega
          · have hne : id ≠ e.id := fun h => hid h.symm
            rw [upd_other _ _ hne] at this
            simp [hid]; omega
        · cases h1

end NeoModel.Mempool
