/-
CompileLoop — the iterations of a `for` loop and the `for` statement (labeled or not) of the full simulation.
-/
import NeoModel.Proofs.CompileFull
set_option linter.unusedSimpArgs false
namespace NeoModel.CompileProofs
open NeoModel.MiniVm NeoModel.MiniVm.Asm NeoModel.MiniGo NeoModel.Compile

theorem iterOK_zero (P : Prog) (C : Code) (cx : Ctx) : IterOK P C cx 0 := by
  intro init cond post body lp ls st env σ pc0 out _ _ _ _ _ _ _ hit
  simp [iter] at hit

set_option maxHeartbeats 1000000 in
theorem iterOK_succ (P : Prog) (C : Code) (cx : Ctx) (fuel : Nat)
    (hn : (labelsOf C).Nodup)
    (ihE : ∀ sc env, ExprFOK P C cx sc env fuel) (ih : StmtFOK P C cx fuel) (ihI : IterOK P C cx fuel) :
    IterOK P C cx (fuel + 1) := by
  intro init cond post body lp ls st env σ pc0 out halb hnd hls hstk hfew hdeep hnl1 hit hp hpc hrel hwf hcnt hdep
  have hdep' : σ.frames.length + fuel < 1024 := by omega
  have hp' := hp
  have hcnt' := hcnt
  rw [compS_loop] at hp' hcnt'
  simp only at hp' hcnt'
  -- abbreviations
  generalize hci : (compS cx lp init (forSt0 st)).1 = ci at hp' hpc
  generalize hcc : (forCond cx lp init cond st).1 = cc at hp'
  generalize hcb : (compS cx (forEnt st :: lp) body (forStB cx lp init cond st)).1 = cb at hp'
  generalize hcp : (compS cx lp post (forSt3 cx lp init cond body st)).1 = cp at hp'
  have hlenT : (compS cx lp (.loop init cond post body) st).1.length = ci.length + 1 + cc.length + cb.length + 1 + cp.length + 2 := by
    rw [compS_loop]; simp [hci, hcc, hcb, hcp]; omega
  -- placements
  have hP0 : Placed C (pc0 + ci.length) [Item.lbl st.nl] := hp'.left.left.left.left.left.right
  have hPc : Placed C (pc0 + ci.length + 1) cc := hp'.left.left.left.left.right.cast (by simp [Nat.add_assoc] <;> omega)
  have hPb : Placed C (pc0 + ci.length + 1 + cc.length) cb := hp'.left.left.left.right.cast (by simp [Nat.add_assoc] <;> omega)
  have hPp : Placed C (pc0 + ci.length + 1 + cc.length + cb.length) [Item.lbl (st.nl + 2)] :=
    hp'.left.left.right.cast (by simp [Nat.add_assoc] <;> omega)
  have hPq : Placed C (pc0 + ci.length + 1 + cc.length + cb.length + 1) cp := hp'.left.right.cast (by simp [Nat.add_assoc] <;> omega)
  have hPj : Placed C (pc0 + ci.length + 1 + cc.length + cb.length + 1 + cp.length) [Item.ins (.jmp st.nl), Item.lbl (st.nl + 1)] :=
    hp'.right.cast (by simp [Nat.add_assoc] <;> omega)
  have hLstart : findLabel C st.nl = some (pc0 + ci.length) := hP0.label hn
  have hLpost : findLabel C (st.nl + 2) = some (pc0 + ci.length + 1 + cc.length + cb.length) := hPp.label hn
  have hLend : findLabel C (st.nl + 1) = some (pc0 + ci.length + 1 + cc.length + cb.length + 1 + cp.length + 1) := hPj.tail.label hn
  -- compile-time states
  have hwf1 : Wf (forSt1 cx lp init st) :=
    compS_wf cx init lp _ (wf_push (wf_mono (st' := { st with nl := st.nl + 3, nextLabel := none }) hwf rfl (Nat.le_refl _)))
  have hne1 : (forSt1 cx lp init st).scopes ≠ [] := hwf1.nonempty
  have hc1 : (forSt1 cx lp init st).cnt ≤ (forSt3 cx lp init cond body st).cnt := by
    have := (compS_mono cx body (forEnt st :: lp) (forStB cx lp init cond st) (by simp)).1
    simpa [forSt3] using this
  have hc3 : (forSt3 cx lp init cond body st).cnt ≤ σ.locals.length := by
    have := (compS_mono cx post lp (forSt3 cx lp init cond body st) (by rw [forSt3_scopes]; exact hne1)).1
    simp only [pop_cnt] at hcnt'
    omega
  have hwf3 : Wf (forSt3 cx lp init cond body st) := by
    have := compS_wf cx (.block body) (forEnt st :: lp) { forSt1 cx lp init st with nl := (forCond cx lp init cond st).2 } (wf_nl hwf1 _)
    rwa [compS_block] at this
  -- leaving the loop through the end mark
  have hexit : ∀ τ : State, τ.pc = pc0 + ci.length + 1 + cc.length + cb.length + 1 + cp.length + 1 →
      Reach C τ { τ with pc := pc0 + (compS cx lp (.loop init cond post body) st).1.length } := by
    intro τ hτ
    have := skip_lbl (σ := τ) (hτ ▸ hPj.tail)
    refine this.trans ?_
    have : τ.pc + 1 = pc0 + (compS cx lp (.loop init cond post body) st).1.length := by rw [hτ, hlenT]; omega
    rw [this]; exact Reach.refl _ _
  -- the body and what follows it, from the state where the body starts
  have hl1 : (forSt1 cx lp init st).scopes.length = st.scopes.length + 1 := by
    have := (compS_mono cx init lp (forSt0 st) (by simp)).2
    simpa [forSt1] using this
  have hsigB : sigOf (forEnt st :: lp) = (st.nextLabel, true) :: ls := by simp [sigOf, forEnt, ← hls]
  have hszB : totalSz (forEnt st :: lp) = totalSz lp := by simp [totalSz, forEnt, LEntry.sz]
  have hdeepB : Deepish (forEnt st :: lp) (forSt1 cx lp init st).scopes.length := by
    intro e he
    rcases List.mem_cons.mp he with rfl | he
    · rw [hl1]; exact Nat.le_refl _
    · rw [hl1]; exact Nat.le_succ_of_le (hdeep e he)
  have hgo : ∀ τ : State, τ.pc = pc0 + ci.length + 1 + cc.length → Same σ τ → VarsRel cx (forSt1 cx lp init st).scopes env τ.locals τ.args →
      (match exec fuel P env (.block body) with
        | .ok (.norm e1) => (match exec fuel P e1 post with
          | .ok (.norm e2) => iter fuel P e2 st.nextLabel cond post body
          | .ok _ => .stuck
          | r => r)
        | .ok (.cont l e1) => if mine l st.nextLabel then (match exec fuel P e1 post with
            | .ok (.norm e2) => iter fuel P e2 st.nextLabel cond post body
            | .ok _ => .stuck
            | r => r) else .ok (.cont l e1)
        | .ok (.brk l e1) => if mine l st.nextLabel then .ok (.norm e1) else .ok (.brk l e1)
        | r => r) = .ok out →
      IterPost cx C τ (pc0 + (compS cx lp (.loop init cond post body) st).1.length) (forSt1 cx lp init st).scopes lp out := by
    intro τ hτ hsτ hrelτ hgoeq
    have hdτ : τ.frames.length + fuel < 1024 := by rw [hsτ.frames]; exact hdep'
    cases hb : exec fuel P env (.block body) with
    | ok ob =>
      rw [hb] at hgoeq
      have hpostB := ih (.block body) (forEnt st :: lp) ((st.nextLabel, true) :: ls)
        { forSt1 cx lp init st with nl := (forCond cx lp init cond st).2 } env τ ob
        (by simpa [Allowed] using halb)
        ⟨hsigB, hnl1, by rw [hszB, hsτ.stack]; exact hstk, by rw [hszB]; exact hfew⟩
        (Or.inr ⟨⟨body, rfl⟩, hdeepB⟩) hb
        (by rw [compS_block, hτ]; show Placed C _ (compS cx (forEnt st :: lp) body (forStB cx lp init cond st)).1
            rw [hcb]; exact hPb)
        hrelτ (wf_nl hwf1 _)
        (by rw [compS_block, hsτ.len]; exact hc3) hdτ
      rw [compS_block] at hpostB
      have hbl : (compS cx (forEnt st :: lp) body ({ forSt1 cx lp init st with nl := (forCond cx lp init cond st).2 } : St).push).1 = cb := hcb
      -- after the body (normal completion or continue): the post statement, the jump back, the remaining iterations
      have hafter : ∀ (e1 : Env) (σ2 : State), Reach C τ σ2 → σ2.pc = pc0 + ci.length + 1 + cc.length + cb.length → Same τ σ2 →
          VarsRel cx (forSt1 cx lp init st).scopes e1 σ2.locals σ2.args →
          (match exec fuel P e1 post with
            | .ok (.norm e2) => iter fuel P e2 st.nextLabel cond post body
            | .ok _ => .stuck
            | r => r) = .ok out →
          IterPost cx C τ (pc0 + (compS cx lp (.loop init cond post body) st).1.length) (forSt1 cx lp init st).scopes lp out := by
        intro e1 σ2 hr2 hpc2 hs2 hrel2 heq
        have hl := skip_lbl (σ := σ2) (hpc2 ▸ hPp)
        cases hpo : exec fuel P e1 post with
        | ok op =>
          rw [hpo] at heq
          have hrel2' : VarsRel cx (forSt3 cx lp init cond body st).scopes e1 σ2.locals σ2.args := by
            rw [forSt3_scopes]; exact hrel2
          have hnl3 : (forSt3 cx lp init cond body st).nextLabel = none :=
            compS_noLabel cx body (forEnt st :: lp) (forStB cx lp init cond st) (allowed_labelsOK body _ halb) (Or.inl hnl1)
          have hpostP := ih post lp ls (forSt3 cx lp init cond body st) e1 { σ2 with pc := σ2.pc + 1 } op
            (noDecl_allowed hnd ls) ⟨hls, hnl3, by show totalSz lp ≤ σ2.stack.length; rw [hs2.stack, hsτ.stack]; exact hstk, hfew⟩
            (Or.inl (by rw [forSt3_scopes, hl1]; exact Deepish.succ hdeep)) hpo
            (by rw [hcp]; exact hPq.cast (by simp [hpc2])) hrel2' hwf3
            (by
              have := (noDecl_state (cx := cx) (lp := lp) hnd (forSt3 cx lp init cond body st)).2
              rw [this]; show _ ≤ σ2.locals.length; rw [hs2.len, hsτ.len]; exact hc3)
            (by show σ2.frames.length + fuel < 1024; rw [hs2.frames]; exact hdτ)
          cases op with
          | norm e2 =>
            simp only at heq
            obtain ⟨σ3, hr3, hpc3, hs3, hrel3⟩ := hpostP
            rw [(noDecl_state hnd _).1, forSt3_scopes] at hrel3
            have hpc3' : σ3.pc = pc0 + ci.length + 1 + cc.length + cb.length + 1 + cp.length := by
              rw [hpc3, hcp]; simp [hpc2]
            have hj := step_jmp (s := σ3) (hpc3' ▸ hPj.head) hLstart
            have hs23 : Same σ2 σ3 := ⟨hs3.stack, hs3.frames, hs3.inited, hs3.len⟩
            have hsσ4 : Same σ { σ3 with pc := pc0 + ci.length } :=
              ⟨by show σ3.stack = σ.stack; rw [hs23.stack, hs2.stack, hsτ.stack],
               by show σ3.frames = σ.frames; rw [hs23.frames, hs2.frames, hsτ.frames],
               by show σ3.inited = σ.inited; rw [hs23.inited, hs2.inited, hsτ.inited],
               by show σ3.locals.length = σ.locals.length; rw [hs23.len, hs2.len, hsτ.len]⟩
            have hrest := ihI init cond post body lp ls st e2 { σ3 with pc := pc0 + ci.length } pc0 out halb hnd hls
              (by show totalSz lp ≤ σ3.stack.length; rw [hsσ4.stack]; exact hstk) hfew hdeep hnl1 heq hp
              (by simp [hci]) hrel3 hwf (by show _ ≤ σ3.locals.length; rw [hsσ4.len]; exact hcnt)
              (by show σ3.frames.length + fuel < 1024; rw [hsσ4.frames]; exact hdep')
            have hpre : Reach C τ { σ3 with pc := pc0 + ci.length } := hr2.trans (hl.trans (hr3.trans (Reach.step hj)))
            have hsτ4 : Same τ { σ3 with pc := pc0 + ci.length } :=
              ⟨by show σ3.stack = τ.stack; rw [hs23.stack, hs2.stack],
               by show σ3.frames = τ.frames; rw [hs23.frames, hs2.frames],
               by show σ3.inited = τ.inited; rw [hs23.inited, hs2.inited],
               by show σ3.locals.length = τ.locals.length; rw [hs23.len, hs2.len]⟩
            exact post_prefix hpre hsτ4 hrest
          | ret v => simp at heq
          | brk l e => simp at heq
          | cont l e => simp at heq
        | panic => rw [hpo] at heq; simp at heq
        | overflow => rw [hpo] at heq; simp at heq
        | stuck => rw [hpo] at heq; simp at heq
        | timeout => rw [hpo] at heq; simp at heq
      cases ob with
      | norm e1 =>
        simp only at hgoeq
        obtain ⟨σ2, hr2, hpc2, hs2, hrel2⟩ := hpostB
        rw [hbl] at hpc2
        change VarsRel cx (forSt3 cx lp init cond body st).scopes e1 _ _ at hrel2
        rw [forSt3_scopes] at hrel2
        exact hafter e1 σ2 hr2 (by rw [hpc2, hτ]) hs2 hrel2 hgoeq
      | cont l e1 =>
        simp only at hgoeq
        obtain ⟨dr, en, hfc, hfor, hh⟩ := hpostB
        rw [findCont_cons l (forEnt st) lp 0 rfl] at hfc
        have hname : (forEnt st).name = st.nextLabel := rfl
        rw [hname] at hfc
        by_cases hm : mine l st.nextLabel = true
        · rw [if_pos hm] at hgoeq hfc
          cases hfc
          obtain ⟨σ2, hr2, hpc2, hs2, hrel2⟩ := hh _ hLpost
          have hrel2' : VarsRel cx (forSt1 cx lp init st).scopes e1 σ2.locals σ2.args := by
            have : (forSt1 cx lp init st).scopes.length - (forEnt st).scLen = 0 := by rw [hl1]; simp [forEnt]
            simpa [this, dropEnv] using hrel2
          exact hafter e1 σ2 hr2 hpc2 ⟨by simpa using hs2.stack, hs2.frames, hs2.inited, hs2.len⟩ hrel2' hgoeq
        · rw [if_neg hm] at hgoeq hfc
          cases hgoeq
          have hsz0 : (forEnt st).sz = 0 := rfl
          rw [hsz0] at hfc
          exact ⟨dr, en, hfc, hfor, hh⟩
      | brk l e1 =>
        simp only at hgoeq
        obtain ⟨dr, en, hfc, hh⟩ := hpostB
        rw [findBrk_cons l (forEnt st) lp 0] at hfc
        have hname : (forEnt st).name = st.nextLabel := rfl
        rw [hname] at hfc
        by_cases hm : mine l st.nextLabel = true
        · rw [if_pos hm] at hgoeq hfc
          cases hfc
          cases hgoeq
          obtain ⟨σ2, hr2, hpc2, hs2, hrel2⟩ := hh _ hLend
          have hrel2' : VarsRel cx (forSt1 cx lp init st).scopes e1 σ2.locals σ2.args := by
            have : (forSt1 cx lp init st).scopes.length - (forEnt st).scLen = 0 := by rw [hl1]; simp [forEnt]
            simpa [this, dropEnv] using hrel2
          exact ⟨_, hr2.trans (hexit σ2 hpc2), rfl, ⟨by simpa using hs2.stack, hs2.frames, hs2.inited, hs2.len⟩, hrel2'⟩
        · rw [if_neg hm] at hgoeq hfc
          cases hgoeq
          have hsz0 : (forEnt st).sz = 0 := rfl
          rw [hsz0] at hfc
          exact ⟨dr, en, hfc, hh⟩
      | ret v =>
        simp only at hgoeq
        cases hgoeq
        obtain ⟨σ', h1, h2, h3, h4⟩ := hpostB
        exact ⟨σ', h1, h2, by rw [h3, hszB], h4⟩
    | panic => rw [hb] at hgoeq; simp at hgoeq
    | overflow => rw [hb] at hgoeq; simp at hgoeq
    | stuck => rw [hb] at hgoeq; simp at hgoeq
    | timeout => rw [hb] at hgoeq; simp at hgoeq
  -- the loop head mark, then the condition
  have h0 := skip_lbl (σ := σ) (hpc ▸ hP0)
  have hpost_pre : ∀ {τ : State} {o : SOut}, Reach C σ τ → Same σ τ →
      IterPost cx C τ (pc0 + (compS cx lp (.loop init cond post body) st).1.length) (forSt1 cx lp init st).scopes lp o →
      IterPost cx C σ (pc0 + (compS cx lp (.loop init cond post body) st).1.length) (forSt1 cx lp init st).scopes lp o :=
    fun hr hs h => post_prefix hr hs h
  simp only [iter] at hit
  cases cond with
  | none =>
    simp only at hit
    have hccn : cc = [] := by rw [← hcc]; rfl
    subst hccn
    have hτ : ({ σ with pc := σ.pc + 1 } : State).pc = pc0 + ci.length + 1 + ([] : Code).length := by simp [hpc]
    exact hpost_pre h0 ⟨rfl, rfl, rfl, rfl⟩ (hgo { σ with pc := σ.pc + 1 } hτ ⟨rfl, rfl, rfl, rfl⟩ hrel hit)
  | some c =>
    simp only at hit
    have hccs : cc = (compE cx (forSt1 cx lp init st).scopes c .val (forSt1 cx lp init st).nl).1 ++ [Item.ins (.jmpIfNot (st.nl + 1))] := by
      rw [← hcc]; rfl
    cases hcv : evalE fuel P env c with
    | ok cv =>
      rw [hcv] at hit
      have hPc' : Placed C (pc0 + ci.length + 1) ((compE cx (forSt1 cx lp init st).scopes c .val (forSt1 cx lp init st).nl).1 ++ [Item.ins (.jmpIfNot (st.nl + 1))]) := by
        rw [← hccs]; exact hPc
      have hre := (ihE (forSt1 cx lp init st).scopes env) c .val (forSt1 cx lp init st).nl { σ with pc := σ.pc + 1 } cv hcv
        (by show Placed C (σ.pc + 1) _; rw [hpc]; exact hPc'.left) hrel hdep'
      simp only [Post] at hre
      have hjf : C[σ.pc + 1 + (compE cx (forSt1 cx lp init st).scopes c .val (forSt1 cx lp init st).nl).1.length]? =
          some (Item.ins (.jmpIfNot (st.nl + 1))) := by
        rw [hpc]; exact hPc'.right.head
      generalize hlc : (compE cx (forSt1 cx lp init st).scopes c .val (forSt1 cx lp init st).nl).1.length = lc at hre hjf
      have hj := step_jmpIfNot (s := { σ with pc := σ.pc + 1 + lc, stack := cv :: σ.stack }) (v := cv) (r := σ.stack) hjf hLend rfl
      cases cv with
      | bool b =>
        cases b with
        | true =>
          simp only at hit
          simp only [Val.toBool, if_true] at hj
          have hτ : ({ σ with pc := σ.pc + 1 + lc + 1 } : State).pc
              = pc0 + ci.length + 1 + cc.length := by rw [hccs]; simp [hpc, hlc, Nat.add_assoc]
          refine hpost_pre (h0.trans (hre.trans (Reach.step hj))) ⟨rfl, rfl, rfl, rfl⟩ ?_
          exact hgo _ hτ ⟨rfl, rfl, rfl, rfl⟩ hrel hit
        | false =>
          simp only at hit
          cases hit
          simp only [Val.toBool, Bool.false_eq_true, if_false] at hj
          have hx := hexit { σ with pc := pc0 + ci.length + 1 + cc.length + cb.length + 1 + cp.length + 1 } rfl
          exact ⟨_, h0.trans (hre.trans ((Reach.step hj).trans hx)), rfl, ⟨rfl, rfl, rfl, rfl⟩, hrel⟩
      | int n => simp at hit
      | null => simp at hit
    | panic => rw [hcv] at hit; simp at hit
    | overflow => rw [hcv] at hit; simp at hit
    | stuck => rw [hcv] at hit; simp at hit
    | timeout => rw [hcv] at hit; simp at hit

theorem loopOK_zero (P : Prog) (C : Code) (cx : Ctx) : LoopOK P C cx 0 := by
  intro init cond post body lp ls st env σ out _ _ _ _ _ _ _ hex
  simp [execLoop] at hex

/-- the `for` statement: own scope, init statement, then the iterations; what leaves the loop towards an enclosing
    statement (`break L` / `continue L`, `return`) is handed on, seen from the scopes outside the loop. -/
theorem loopOK_succ (P : Prog) (C : Code) (cx : Ctx) (fuel : Nat)
    (ih : StmtFOK P C cx fuel) (ihI : IterOK P C cx fuel) : LoopOK P C cx (fuel + 1) := by
  intro init cond post body lp ls st env σ out hali hnd halb hls hstk hfew hdeep hex hp hrel hwf hcnt hdep
  have hdep' : σ.frames.length + fuel < 1024 := by omega
  simp only [execLoop] at hex
  have hp' := hp
  have hcnt' := hcnt
  rw [compS_loop] at hp' hcnt' ⊢
  simp only at hp' hcnt' ⊢
  have hwf0 : Wf (forSt0 st) := wf_push (wf_mono (st' := { st with nl := st.nl + 3, nextLabel := none }) hwf rfl (Nat.le_refl _))
  -- counters along the loop
  have hl1 : (forSt1 cx lp init st).scopes.length = st.scopes.length + 1 := by
    have := (compS_mono cx init lp (forSt0 st) (by simp)).2
    simpa [forSt1] using this
  have hne1 : (forSt1 cx lp init st).scopes ≠ [] := by
    intro e; rw [e] at hl1; simp at hl1
  have hc1 : (forSt1 cx lp init st).cnt ≤ (forSt3 cx lp init cond body st).cnt := by
    have := (compS_mono cx body (forEnt st :: lp) (forStB cx lp init cond st) (by simp)).1
    simpa [forSt3] using this
  have hc3 : (forSt3 cx lp init cond body st).cnt ≤ (compS cx lp post (forSt3 cx lp init cond body st)).2.cnt :=
    (compS_mono cx post lp _ (by rw [forSt3_scopes]; exact hne1)).1
  have hfin : (compS cx lp post (forSt3 cx lp init cond body st)).2.pop.scopes = st.scopes := by
    simp only [pop_scopes, (noDecl_state hnd _).1, forSt3_scopes, forSt1_tail]
  have hnl1 : (forSt1 cx lp init st).nextLabel = none :=
    compS_noLabel cx init lp (forSt0 st) (allowed_labelsOK init ls hali) (Or.inl rfl)
  have hpi : Placed C σ.pc (compS cx lp init (forSt0 st)).1 := hp'.left.left.left.left.left.left
  cases hi : exec fuel P env.push init with
  | ok oi =>
    rw [hi] at hex
    have hposti := ih init lp ls (forSt0 st) env.push σ oi hali ⟨hls, rfl, hstk, hfew⟩ (Or.inl hdeep.succ) hi hpi
      (varsRel_push hrel) hwf0 (by
        have : (compS cx lp init (forSt0 st)).2.cnt = (forSt1 cx lp init st).cnt := rfl
        simp only [pop_cnt] at hcnt'
        omega) hdep'
    cases oi with
    | norm env1 =>
      simp only at hex
      obtain ⟨σ1, hr1, hpc1, hs1, hrel1⟩ := hposti
      cases hit : iter fuel P env1 st.nextLabel cond post body with
      | ok oo =>
        rw [hit] at hex
        have hpostI := ihI init cond post body lp ls st env1 σ1 σ.pc oo halb hnd hls (by rw [hs1.stack]; exact hstk) hfew hdeep hnl1
          hit hp hpc1 hrel1 hwf (by rw [hs1.len]; exact hcnt) (by rw [hs1.frames]; exact hdep')
        have hpostI' := post_prefix hr1 hs1 hpostI
        cases oo with
        | norm e' =>
          simp only at hex
          cases hex
          obtain ⟨σ2, hr2, hpc2, hs2, hrel2⟩ := hpostI'
          refine ⟨σ2, hr2, ?_, hs2, ?_⟩
          · rw [hpc2, compS_loop]
          · rw [hfin]
            have := varsRel_pop hrel2
            rwa [forSt1_tail] at this
        | ret v =>
          simp only at hex
          cases hex
          exact hpostI'
        | brk l e =>
          simp only at hex
          cases hex
          exact (post_pop' hdeep (forSt1_tail cx lp init st) hl1).1 hpostI'
        | cont l e =>
          simp only at hex
          cases hex
          exact (post_pop' hdeep (forSt1_tail cx lp init st) hl1).2 hpostI'
      | panic => rw [hit] at hex; simp at hex
      | overflow => rw [hit] at hex; simp at hex
      | stuck => rw [hit] at hex; simp at hex
      | timeout => rw [hit] at hex; simp at hex
    | ret v => simp at hex
    | brk l e => simp at hex
    | cont l e => simp at hex
  | panic => rw [hi] at hex; simp at hex
  | overflow => rw [hi] at hex; simp at hex
  | stuck => rw [hi] at hex; simp at hex
  | timeout => rw [hi] at hex; simp at hex

end NeoModel.CompileProofs
