/- C07 helper lemmas: the pool's filter as `RemoveStale` drives it (scratch pool of the accepted block). -/
import NeoModel.Proofs.FeesRelevant
namespace NeoModel.Pack
open NeoModel NeoModel.Fees NeoModel.Admission
open NeoModel.Generated.FeeConsts

/-- a block that neither contains `t` nor names it leaves the records under `t`'s hash alone. -/
theorem storeBlock_untouched (index : Nat) (t : Tx) : ∀ (blk : List Tx) (lookup : Nat → Rec),
    blk.any (·.hash == t.hash) = false → blk.any (fun y => (conflictHashes y).contains t.hash) = false →
    storeBlock lookup index blk t.hash = lookup t.hash := by
  intro blk
  induction blk with
  | nil => intro _ _ _; rfl
  | cons y ys ih =>
    intro lookup h1 h2
    simp only [List.any_cons, Bool.or_eq_false_iff, beq_eq_false_iff_ne, ne_eq] at h1 h2
    simp only [storeBlock]
    rw [ih _ h1.2 h2.2]
    have a : ¬ t.hash = y.hash := fun e => h1.1 e.symm
    have b : ¬ t.hash ∈ conflictHashes y := by simpa using h2.1
    simp [storeTx, a, b]

/-- all indices of a record are at most `h` (records are written with the index of a block already accepted). -/
def recOk (h : Nat) : Rec → Prop
  | .stub idx recs => idx ≤ h ∧ ∀ q ∈ recs, q.2 ≤ h
  | _ => True

/-- a record that does not block a transaction at height `h` does not block it one block later. -/
theorem hasTransaction_next (r : Rec) (signers : List Nat) (h mtb : Nat) (hok : recOk h r)
    (hn : hasTransaction r signers h mtb = none) : hasTransaction r signers (h + 1) mtb = none := by
  cases r with
  | none => rfl
  | block => rfl
  | tx => simp [hasTransaction] at hn
  | stub idx recs =>
    obtain ⟨hi, hr⟩ := hok
    simp only [hasTransaction] at hn ⊢
    split at hn; · simp at hn
    rename_i he
    simp only [he, Bool.false_eq_true, if_false]
    by_cases ht : isTraceable idx h mtb = true
    · simp only [ht, Bool.not_true, Bool.false_eq_true, if_false] at hn
      split at hn; · simp at hn
      rename_i hany
      have hany' : (signers.any fun a => recs.any fun x => x.1 == a && isTraceable x.2 (h + 1) mtb) = false := by
        simp only [Bool.not_eq_true, List.any_eq_false, Bool.and_eq_true, beq_iff_eq, not_and] at hany
        simp only [List.any_eq_false, Bool.and_eq_true, beq_iff_eq, not_and, Bool.not_eq_true]
        intro a ha q hq hqa
        have h1 := hany a ha q hq hqa
        have h2 := hr q hq
        simp only [isTraceable, Bool.and_eq_false_iff, decide_eq_false_iff_not, Nat.not_le, Nat.not_lt] at h1 ⊢
        omega
      simp [hany']
    · have : isTraceable idx (h + 1) mtb = false := by
        simp only [isTraceable, Bool.and_eq_true, decide_eq_true_eq, not_and, Nat.not_lt, Bool.and_eq_false_iff,
          decide_eq_false_iff_not] at ht ⊢
        have := ht hi
        right; omega
      simp [this]

/-- apart from the conflict test the two forms of the filter are the same function. -/
theorem stillRelevant_of_after (c : Chain) (blk : List Tx) (t : Tx)
    (hl : hasTransaction (c.lookup t.hash) (t.signers.map (·.account)) c.height c.mtb = none)
    (h : stillRelevantAfter c blk t = true) : stillRelevant c t = true := by
  unfold stillRelevantAfter at h
  unfold stillRelevant
  split at h; · simp at h
  split at h; · simp at h
  split at h; · simp at h
  rename_i a1 a2 a3
  simp only [a1, a2, if_false, hl, Option.isSome_none, Bool.false_eq_true]
  exact h

end NeoModel.Pack
