/-
Candidate records: a record exists iff the key is registered or somebody votes for it; the two primitives that
delete records delete exactly the unregistered ones with zero votes.
-/
import NeoModel.Proofs.TokensDelta
namespace NeoModel.Tokens

theorem candidate_record_iff' {nt : Nat} (l : Ledger) (c : Nat) (h : Inv nt l) :
    get l.cands c ≠ none ↔ ((∃ cd, get l.cands c = some cd ∧ cd.reg = true) ∨ 0 < sumBy (voteW c) l.neo) := by
  have hnn : 0 ≤ sumBy (voteW c) l.neo :=
    sumBy_nonneg _ _ (fun p hp => by have := h.votes.neoPos p hp; simp only [voteW]; split <;> omega)
  have hv := h.votes.votes c
  constructor
  · intro hne
    cases hg : get l.cands c with
    | none => exact absurd hg hne
    | some cd =>
      rcases h.votes.nozombie _ (get_mem _ _ _ hg) with hr | hz
      · exact Or.inl ⟨cd, rfl, hr⟩
      · right
        simp [at0, hg] at hv
        simp at hz
        omega
  · rintro (⟨cd, hg, _⟩ | hpos)
    · rw [hg]; simp
    · intro hnone
      simp [at0, hnone] at hv
      omega

/-- ModifyAccountVotes on a balance change / vote withdrawal removes the record of the voted candidate iff it is
unregistered and its votes drop to zero; no other record changes. -/
theorem modVotes_removed_iff (l l1 : Ledger) (acc : NeoAcc) (v : Int) (c : Nat) (cd : Cand)
    (hn : (keys l.cands).Nodup) (hc : acc.vote = some c) (hg : get l.cands c = some cd)
    (h : modVotes l acc v false = (l1, true)) :
    (get l1.cands c = none ↔ (cd.reg = false ∧ cd.votes + v = 0)) ∧ ∀ c', c' ≠ c → get l1.cands c' = get l.cands c' := by
  unfold modVotes at h
  simp only [hc, hg] at h
  simp only [Bool.false_eq_true, if_false] at h
  unfold dropIfZero at h
  simp only [] at h
  by_cases hk : cd.reg = true ∨ cd.votes + v ≠ 0
  · rw [if_pos hk] at h
    injection h with h1 _; subst h1
    refine ⟨?_, fun c' hc' => get_put_ne _ _ _ _ hc'⟩
    simp only [get_put_eq]
    constructor
    · intro hh; cases hh
    · rintro ⟨h1, h2⟩
      rcases hk with hk | hk
      · rw [h1] at hk; cases hk
      · exact absurd h2 hk
  · rw [if_neg hk] at h
    injection h with h1 _; subst h1
    refine ⟨?_, fun c' hc' => get_del_ne _ _ _ hc'⟩
    simp only [get_del_eq _ _ hn, true_iff]
    constructor
    · cases hr : cd.reg with
      | false => rfl
      | true => exact absurd (Or.inl hr) hk
    · apply Decidable.byContradiction; intro hne; exact hk (Or.inr hne)

/-- unregisterCandidate removes the record iff it has no votes; no other record changes. -/
theorem unregister_removed_iff (l : Ledger) (pub : Nat) (cd : Cand)
    (hn : (keys l.cands).Nodup) (hg : get l.cands pub = some cd) :
    (get (unregister l pub true).1.cands pub = none ↔ cd.votes = 0) ∧
    ∀ c', c' ≠ pub → get (unregister l pub true).1.cands c' = get l.cands c' := by
  unfold unregister
  simp only [Bool.not_true, Bool.false_eq_true, if_false, hg]
  unfold dropIfZero
  simp only [Bool.false_eq_true, false_or]
  by_cases hz : cd.votes = 0
  · rw [if_neg (by simp [hz])]
    refine ⟨?_, fun c' hc' => get_del_ne _ _ _ hc'⟩
    simp [get_del_eq _ _ hn, hz]
  · rw [if_pos (by simpa using hz)]
    refine ⟨?_, fun c' hc' => get_put_ne _ _ _ _ hc'⟩
    simp [get_put_eq, hz]

end NeoModel.Tokens

namespace NeoModel.Tokens

theorem block_dinv (s : St) (idx : Nat) : DInv (step s (.block idx)) := by
  have : step s (.block idx) = exec s (.block idx) := step_eq_exec _ _ rfl
  rw [this]
  simp only [exec]
  have he : (neoOnPersist { s.env with index := idx } { s.cur with events := [] }).events = [] := by
    rw [neoOnPersist_events]
  exact ⟨Delta.start _ he, Delta.start _ he⟩

end NeoModel.Tokens
