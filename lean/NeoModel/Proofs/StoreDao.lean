/-
C09 helper lemmas: the DAO's key construction (prefix byte ‖ little-endian contract id ‖ key) is injective,
order- and prefix-preserving per contract; a scan through dao.Seek / dao.SeekAsync / System.Storage.Find
is the scan of the contract's own ordered map.
-/
import NeoModel.Proofs.StoreSeekSpec
import NeoModel.Model.Store.Dao
set_option linter.unusedSimpArgs false
namespace NeoModel.Store

def IsInt32 (id : Int) : Prop := -2147483648 ≤ id ∧ id < 2147483648

instance (id : Int) : Decidable (IsInt32 id) := inferInstanceAs (Decidable (_ ∧ _))

theorem u32OfInt_lt (id : Int) : u32OfInt id < 4294967296 := by
  unfold u32OfInt; omega

theorem u32OfInt_inj {a b : Int} (ha : IsInt32 a) (hb : IsInt32 b) (h : u32OfInt a = u32OfInt b) : a = b := by
  unfold u32OfInt IsInt32 at *; omega

theorem u8_ofNat_inj {a b : Nat} (ha : a < 256) (hb : b < 256) (h : UInt8.ofNat a = UInt8.ofNat b) : a = b := by
  have := congrArg UInt8.toNat h
  simp only [UInt8.toNat_ofNat'] at this
  omega

theorem le32_inj {n m : Nat} (hn : n < 4294967296) (hm : m < 4294967296) (h : le32 n = le32 m) : n = m := by
  unfold le32 at h
  simp only [List.cons.injEq, and_true] at h
  obtain ⟨h0, h1, h2, h3⟩ := h
  have e0 := u8_ofNat_inj (by omega) (by omega) h0
  have e1 := u8_ofNat_inj (by omega) (by omega) h1
  have e2 := u8_ofNat_inj (by omega) (by omega) h2
  have e3 := u8_ofNat_inj (by omega) (by omega) h3
  omega

theorem le32_length (n : Nat) : (le32 n).length = 4 := rfl
theorem contractPrefix_length (sp : UInt8) (id : Int) : (contractPrefix sp id).length = 5 := rfl


theorem contractPrefix_inj {sp sp' : UInt8} {id id' : Int} (hi : IsInt32 id) (hi' : IsInt32 id')
    (h : contractPrefix sp id = contractPrefix sp' id') : sp = sp' ∧ id = id' := by
  unfold contractPrefix at h
  simp only [List.cons.injEq] at h
  exact ⟨h.1, u32OfInt_inj hi hi' (le32_inj (u32OfInt_lt _) (u32OfInt_lt _) h.2)⟩

/-- the key construction is injective: different (prefix byte, contract, key) never collide. -/
theorem makeStorageItemKey_inj {sp sp' : UInt8} {id id' : Int} {k k' : Bytes} (hi : IsInt32 id) (hi' : IsInt32 id')
    (h : makeStorageItemKey sp id k = makeStorageItemKey sp' id' k') : sp = sp' ∧ id = id' ∧ k = k' := by
  unfold makeStorageItemKey at h
  have := List.append_inj h (by rw [contractPrefix_length, contractPrefix_length])
  obtain ⟨a, b⟩ := contractPrefix_inj hi hi' this.1
  exact ⟨a, b, this.2⟩

/-- no bleed: a key of contract `id'` has a store-level seek prefix of contract `id` as its prefix only
if it is the same contract under the same storage prefix byte (and then the contract-level key has the
contract-level prefix). -/
theorem prefix_no_bleed {sp sp' : UInt8} {id id' : Int} {p k : Bytes} (hi : IsInt32 id) (hi' : IsInt32 id')
    (h : makeStorageItemKey sp id p <+: makeStorageItemKey sp' id' k) : sp = sp' ∧ id = id' ∧ p <+: k := by
  obtain ⟨t, ht⟩ := h
  unfold makeStorageItemKey at ht
  rw [List.append_assoc] at ht
  have := List.append_inj ht (by rw [contractPrefix_length, contractPrefix_length])
  obtain ⟨a, b⟩ := contractPrefix_inj hi hi' this.1
  exact ⟨a, b, ⟨t, this.2⟩⟩

/-- the construction preserves the byte order of the keys of one contract … -/
theorem makeStorageItemKey_lt (sp : UInt8) (id : Int) (a b : Bytes) :
    lexLt (makeStorageItemKey sp id a) (makeStorageItemKey sp id b) = lexLt a b := lexLt_append_left _ a b

/-- … and the prefix relation. -/
theorem makeStorageItemKey_prefix (sp : UInt8) (id : Int) (p k : Bytes) :
    makeStorageItemKey sp id p <+: makeStorageItemKey sp id k ↔ p <+: k := List.prefix_append_right_inj _

/-- storage items always live in the `stor` map, under either storage prefix. -/
theorem isStor_makeStorageItemKey (sp : UInt8) (h : sp = 0x70 ∨ sp = 0x71) (id : Int) (k : Bytes) :
    isStor (makeStorageItemKey sp id k) = true := by
  rcases h with rfl | rfl <;> rfl

/-- the contract's own ordered map inside the one big map. -/
def contractMap (f : SpecMap) (sp : UInt8) (id : Int) : SpecMap := fun key => f (makeStorageItemKey sp id key)

/-- stripping a common leading part `P` of every key: an answer for the range with prefix `P ‖ pfx` over `f`
is, with `P` dropped, the answer for the range with prefix `pfx` over `k ↦ f (P ‖ k)`. -/
theorem isSpecSeek_strip (P : Bytes) (f : SpecMap) (rng : SeekRange) (r : List KV)
    (h : IsSpecSeek f { rng with pfx := P ++ rng.pfx } r) :
    IsSpecSeek (fun k => f (P ++ k)) rng (r.map (fun e => (e.1.drop P.length, e.2))) := by
  have hkey : ∀ e ∈ r, ∃ t, e.1 = P ++ t := by
    intro e he
    obtain ⟨t, ht⟩ := ((h.2 e.1 e.2).mp he).2.1
    exact ⟨rng.pfx ++ t, by rw [← ht, List.append_assoc]⟩
  constructor
  · rw [List.pairwise_map]
    refine List.Pairwise.imp_of_mem ?_ h.1
    intro a b ha hb hab
    obtain ⟨ta, hta⟩ := hkey a ha
    obtain ⟨tb, htb⟩ := hkey b hb
    simp only [hta, htb, List.drop_left] at hab ⊢
    cases hbw : rng.bw <;> simp only [ltDir, hbw, if_true, if_false, Bool.false_eq_true] at hab ⊢
    · rwa [lexLt_append_left] at hab
    · rwa [lexLt_append_left] at hab
  · intro k v
    have hm : (k, v) ∈ r.map (fun e => (e.1.drop P.length, e.2)) ↔ (P ++ k, v) ∈ r := by
      rw [List.mem_map]
      constructor
      · rintro ⟨e, he, heq⟩
        obtain ⟨t, ht⟩ := hkey e he
        obtain ⟨ek, ev⟩ := e
        simp only at ht
        simp only [ht, List.drop_left, Prod.mk.injEq] at heq
        rw [← heq.1, ← heq.2, ← ht]; exact he
      · intro he
        exact ⟨(P ++ k, v), he, by simp only [List.drop_left]⟩
    rw [hm, h.2]
    have hr : inRange { rng with pfx := P ++ rng.pfx } (P ++ k) ↔ inRange rng k := by
      unfold inRange
      simp only [List.append_assoc, List.prefix_append_right_inj, lexLe_append_left]
    rw [hr]


theorem temporaryPrefix_invol (p q : UInt8) (h : temporaryPrefix p = some q) : temporaryPrefix q = some p := by
  unfold temporaryPrefix at h ⊢
  by_cases h1 : (p == 0x70) = true
  · rw [if_pos h1] at h; cases h; rw [eq_of_beq h1]; rfl
  · rw [if_neg h1] at h
    by_cases h2 : (p == 0x71) = true
    · rw [if_pos h2] at h; cases h; rw [eq_of_beq h2]; rfl
    · rw [if_neg h2] at h; cases h

theorem temporaryPrefix_stor (p q : UInt8) (h : temporaryPrefix p = some q) :
    (p = 0x70 ∨ p = 0x71) ∧ (q = 0x70 ∨ q = 0x71) ∧ p ≠ q := by
  unfold temporaryPrefix at h
  by_cases h1 : (p == 0x70) = true
  · rw [if_pos h1] at h; cases h; rw [eq_of_beq h1]; decide
  · rw [if_neg h1] at h
    by_cases h2 : (p == 0x71) = true
    · rw [if_pos h2] at h; cases h; rw [eq_of_beq h2]; decide
    · rw [if_neg h2] at h; cases h

theorem specObs_map_drop (r : List KV) (lP lim : Nat) :
    (specObs r lP false lim).map (fun e => (e.1.drop lP, e.2)) = specObs r lP true lim := by
  unfold specObs
  simp only [cutKey, Bool.false_eq_true, if_false, if_true]
  have : r.map (fun e => (e.1, e.2)) = r := by simp
  rw [this]
  split
  · rfl
  · rw [← List.map_take]

/-- `dao.Seek` (the DAO cuts the prefix itself) and `dao.SeekAsync` (the store cuts it) hand the same
items to their consumers. -/
theorem daoSeek_eq_async (L : Layer) (ps : Store) (sp : UInt8) (id : Int) (rng : SeekRange) (lim : Nat) :
    daoSeek (.cached L ps) sp id rng lim = daoSeekAsync (.cached L ps) sp id rng lim := by
  unfold daoSeek daoSeekAsync
  simp only []
  rw [seekObs_eq, seekObs_eq]
  exact specObs_map_drop _ _ _

theorem specObs_cut_split (r : List KV) (a b lim : Nat) :
    specObs r (a + b) true lim = specObs (r.map (fun e => (e.1.drop a, e.2))) b true lim := by
  unfold specObs
  simp only [cutKey, if_true, List.map_map, Function.comp_def, List.drop_drop]

/-- C09 (DAO): a scan of contract `id` through the DAO over ANY well-formed stack is the scan of the
contract's OWN ordered map `key ↦ map (prefix byte ‖ le32 id ‖ key)`: there is a list `rc` that is THE
answer of that map to the contract-level range (`IsSpecSeek`: exactly its pairs in range, in order,
no duplicates — so no key of another contract, of the other storage prefix or of a non-storage
prefix can appear, whatever their bytes), and the consumer gets `rc` with the contract-level prefix
cut, stopped at its `lim`-th item. -/
theorem daoSeekAsync_spec (L : Layer) (ps : Store) (hw : (Store.cached L ps).WF) (sp : UInt8) (id : Int)
    (rng : SeekRange) (lim : Nat) :
    ∃ rc, IsSpecSeek (contractMap ((Store.cached L ps).flattenD rng.depth) sp id) rng rc ∧
      daoSeekAsync (.cached L ps) sp id rng lim = specObs rc rng.pfx.length true lim := by
  let R := daoRange sp id rng
  have hp : R.pfx ≠ [] := by simp [R, daoRange, makeStorageItemKey, contractPrefix]
  have hs := seek_spec_all (.cached L ps) hw R hp
  refine ⟨((Store.cached L ps).seek R).map (fun e => (e.1.drop (contractPrefix sp id).length, e.2)), ?_, ?_⟩
  · exact isSpecSeek_strip (contractPrefix sp id) _ rng _ hs
  · unfold daoSeekAsync
    rw [seekObs_eq]
    show specObs _ (contractPrefix sp id ++ rng.pfx).length true lim = _
    rw [List.length_append]
    exact specObs_cut_split _ _ _ _


/-- writes to another contract (or under the other storage prefix byte) never change a contract's map … -/
theorem contractMap_set_other (f : SpecMap) {sp sp' : UInt8} {id id' : Int} (hi : IsInt32 id) (hi' : IsInt32 id')
    (hne : ¬ (sp = sp' ∧ id = id')) (k' : Bytes) (v : Option Val) :
    contractMap (f.set (makeStorageItemKey sp' id' k') v) sp id = contractMap f sp id := by
  funext k
  unfold contractMap SpecMap.set
  split
  · rename_i h
    obtain ⟨a, b, _⟩ := makeStorageItemKey_inj hi hi' h
    exact absurd ⟨a, b⟩ hne
  · rfl

/-- … and a write of the contract's key `k` is that write on the contract's own map. -/
theorem contractMap_set_same (f : SpecMap) (sp : UInt8) (id : Int) (k : Bytes) (v : Option Val) :
    contractMap (f.set (makeStorageItemKey sp id k) v) sp id = (contractMap f sp id).set k v := by
  funext q
  unfold contractMap SpecMap.set
  by_cases h : q = k
  · subst h; simp
  · have : makeStorageItemKey sp id q ≠ makeStorageItemKey sp id k := by
      intro e; unfold makeStorageItemKey at e; exact h (List.append_cancel_left e)
    simp [h, this]

/-- what the consumer of a Find iterator sees of one pair of the contract's map. -/
def findView (opts : Nat) (lP : Nat) (e : KV) : FindItem :=
  let key := if hasOpt opts findRemovePrefix then e.1.drop lP else e.1
  if hasOpt opts findKeysOnly then { key := some key, val := none }
  else if hasOpt opts findValuesOnly then { key := none, val := some e.2 }
  else { key := some key, val := some e.2 }

theorem mem_capped {lim : Nat} {l : List KV} {e : KV} (h : e ∈ capped lim l) : e ∈ l := by
  unfold capped at h
  split at h
  · exact h
  · exact List.mem_of_mem_take h

/-- C09 (System.Storage.Find): with accepted options, the iterator yields — in order, stopped where the
consumer stops — the pairs of the contract's own ordered map that carry the search prefix, each shown
as the options say: the whole contract-level key (the search prefix is put back exactly) or, with
`FindRemovePrefix`, the key without it; key only / value only / both. -/
theorem find_spec (L : Layer) (ps : Store) (hw : (Store.cached L ps).WF) (sp : UInt8) (id : Int)
    (pfx : Bytes) (opts lim : Nat) (hok : findOptsOK opts = true) :
    ∃ rc, IsSpecSeek (contractMap (Store.cached L ps).flatten sp id)
        { pfx := pfx, start := [], bw := hasOpt opts findBackwards, depth := 0 } rc ∧
      find (.cached L ps) sp id pfx opts lim = some ((capped lim rc).map (findView opts pfx.length)) := by
  obtain ⟨rc, hrc, hobs⟩ := daoSeekAsync_spec L ps hw sp id
    { pfx := pfx, start := [], bw := hasOpt opts findBackwards, depth := 0 } lim
  refine ⟨rc, hrc, ?_⟩
  unfold find
  simp only [hok, Bool.not_true, Bool.false_eq_true, if_false, Option.some.injEq]
  rw [hobs]
  have hcap : specObs rc pfx.length true lim = (capped lim rc).map (fun e => (e.1.drop pfx.length, e.2)) := by
    unfold specObs capped
    simp only [cutKey, if_true]
    split
    · rfl
    · rw [List.map_take]
  rw [hcap, List.map_map]
  apply List.map_congr_left
  intro e he
  obtain ⟨t, ht⟩ := ((hrc.2 e.1 e.2).mp (mem_capped he)).2.1
  simp only at ht
  simp only [Function.comp, findValue, findView]
  have hk : pfx ++ List.drop pfx.length e.1 = e.1 := by rw [← ht, List.drop_left]
  cases hasOpt opts findRemovePrefix <;> simp [hk]

end NeoModel.Store
