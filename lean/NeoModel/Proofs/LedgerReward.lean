/-
C01 — the reward records and their consumers (Model/Ledger/Reward.lean): the stored reward-per-vote records AND the reward
fields (BalanceHeight, LastGasPerVote) of the NEO account records after a block do not depend on which coherent
gasPerVoteCache the node holds — a running node's partial cache or the empty cache of a restarted node.
-/
import NeoModel.Model.Ledger.Reward
import NeoModel.Proofs.LedgerComp
namespace NeoModel.Ledger.Reward
open NeoModel.Ledger.Natives NeoModel.Ledger.Components

/-- two reward states that differ in the cache only, both caches coherent -/
structure RSim (s₁ s₂ : RState) : Prop where
  acc : s₁.acc = s₂.acc
  store : s₁.gpv.store = s₂.gpv.store
  c1 : GpvCoherent s₁.gpv
  c2 : GpvCoherent s₂.gpv

theorem lookup_same {s₁ s₂ : RState} (h : RSim s₁ s₂) (k : Nat) : gpvLookup s₁.gpv k = gpvLookup s₂.gpv k := by
  rw [gpvLookup_stored _ h.c1, gpvLookup_stored _ h.c2, h.store]

theorem dist_sim (hh : Nat) (vt : Option Key) (a : Acct) {s₁ s₂ : RState} (h : RSim s₁ s₂) :
    RSim (dist hh vt s₁ a) (dist hh vt s₂ a) := by
  unfold dist
  rw [h.acc]
  cases alGet s₂.acc a with
  | none => exact h
  | some p =>
    obtain ⟨bh, last⟩ := p
    simp only
    split
    · exact h
    · refine ⟨?_, h.store, h.c1, h.c2⟩
      cases vt with
      | none => simp
      | some k => simp [lookup_same h k]

theorem drops_sim (ops : List GpvOp) {s₁ s₂ : RState} (h : RSim s₁ s₂) : RSim (applyDrops ops s₁) (applyDrops ops s₂) :=
  ⟨h.acc, gpvRun_store_same ops _ _ h.c1 h.c2 h.store, gpvRun_coherent ops _ h.c1, gpvRun_coherent ops _ h.c2⟩

theorem setLast_sim (a : Acct) (to : Option Key) {s₁ s₂ : RState} (h : RSim s₁ s₂) : RSim (setLast a to s₁) (setLast a to s₂) := by
  unfold setLast
  rw [h.acc]
  cases alGet s₂.acc a with
  | none => exact h
  | some p =>
    obtain ⟨bh, last⟩ := p
    refine ⟨?_, h.store, h.c1, h.c2⟩
    cases to with
    | none => simp
    | some k => simp [lookup_same h k]

theorem voteEv_sim (hh : Nat) (vt : Option Key) (ops : List GpvOp) (a : Acct) (to : Option Key) {s₁ s₂ : RState}
    (h : RSim s₁ s₂) : RSim (voteEv hh vt ops a to s₁) (voteEv hh vt ops a to s₂) :=
  setLast_sim a to (drops_sim ops (dist_sim hh vt a h))

theorem transferEv_sim (hh : Nat) (vs vd : Option Key) (hs hd : Bool) (ops : List GpvOp) (src dst : Acct) (amt : Int)
    {s₁ s₂ : RState} (h : RSim s₁ s₂) :
    RSim (transferEv hh vs vd hs hd ops src dst amt s₁) (transferEv hh vs vd hs hd ops src dst amt s₂) := by
  unfold transferEv
  have hd1 := drops_sim ops (dist_sim hh vs src h)
  split
  · split
    · exact dist_sim hh vs src h
    · exact h
  · simp only
    split
    · exact dist_sim hh vd dst hd1
    · exact ⟨by simp [hd1.acc], hd1.store, hd1.c1, hd1.c2⟩

theorem filter_sim (p : Acct × (Nat × Int) → Bool) {s₁ s₂ : RState} (h : RSim s₁ s₂) :
    RSim { s₁ with acc := s₁.acc.filter p } { s₂ with acc := s₂.acc.filter p } :=
  ⟨by simp [h.acc], h.store, h.c1, h.c2⟩

theorem txRewards_sim (hh : Nat) (w w1 : World) (tx : Tx) (r : Res) {s₁ s₂ : RState} (h : RSim s₁ s₂) :
    RSim (txRewards hh w w1 tx r s₁) (txRewards hh w w1 tx r s₂) := by
  unfold txRewards
  apply filter_sim
  split
  · exact h
  · exact h
  · exact transferEv_sim _ _ _ _ _ _ _ _ _ h
  · exact voteEv_sim _ _ _ _ _ h
  · split
    · exact voteEv_sim _ _ _ _ _ h
    · exact drops_sim _ h
  · split
    · exact voteEv_sim _ _ _ _ _ h
    · exact drops_sim _ h
  · exact transferEv_sim _ _ _ _ _ _ _ _ _ h
  · exact drops_sim _ h

theorem txsRewards_sim (hh : Nat) (txs : List Tx) : ∀ (w : World) {s₁ s₂ : RState}, RSim s₁ s₂ →
    (txsRewards hh w s₁ txs).1 = (txsRewards hh w s₂ txs).1 ∧ RSim (txsRewards hh w s₁ txs).2 (txsRewards hh w s₂ txs).2 := by
  induction txs with
  | nil => intro w s₁ s₂ h; exact ⟨rfl, h⟩
  | cons tx rest ih =>
    intro w s₁ s₂ h
    simp only [txsRewards]
    exact ih _ (txRewards_sim hh w _ tx _ h)

/-- a whole block -/
theorem rewardsOfBlock_sim (cfg : Cfg) (st : Storage) (c : Caches) (hh : Nat) (txs : List Tx) (gas : Int)
    {s₁ s₂ : RState} (h : RSim s₁ s₂) :
    RSim (rewardsOfBlock cfg st c hh txs gas s₁) (rewardsOfBlock cfg st c hh txs gas s₂) := by
  have ht := txsRewards_sim hh txs (onPersist cfg { st := st, c := c } hh) h
  show RSim (applyDrops _ (txsRewards hh (onPersist cfg { st := st, c := c } hh) s₁ txs).2)
    (applyDrops _ (txsRewards hh (onPersist cfg { st := st, c := c } hh) s₂ txs).2)
  rw [ht.1]
  exact drops_sim _ ht.2

/-- a restart (InitializeCache: empty gasPerVoteCache) keeps the relation -/
theorem restart_sim {s₁ s₂ : RState} (h : RSim s₁ s₂) : RSim s₁ { s₂ with gpv := gpvStep s₂.gpv .restart } :=
  ⟨h.acc, by simpa [gpvStep] using h.store, h.c1, gpvStep_coherent _ _ h.c2⟩

theorem restart_sim_left {s₁ s₂ : RState} (h : RSim s₁ s₂) : RSim { s₁ with gpv := gpvStep s₁.gpv .restart } s₂ :=
  ⟨h.acc, by simpa [gpvStep] using h.store, gpvStep_coherent _ _ h.c1, h.c2⟩

/-- one block as the reward state machine sees it: configuration, natives storage and caches before it, index,
    transactions, GetGASPerBlock -/
abbrev Blk := Cfg × Storage × Caches × Nat × List Tx × Int

/-- a replica's history: blocks, each optionally preceded by a restart of the node (InitializeCache: empty cache) -/
def rrun (s : RState) : List (Bool × Blk) → RState
  | [] => s
  | (restartFirst, (cfg, st, c, h, txs, gas)) :: rest =>
    let s := if restartFirst then { s with gpv := gpvStep s.gpv .restart } else s
    rrun (rewardsOfBlock cfg st c h txs gas s) rest

theorem rrun_sim : ∀ (l₁ l₂ : List (Bool × Blk)) {s₁ s₂ : RState}, l₁.map (·.2) = l₂.map (·.2) → RSim s₁ s₂ →
    RSim (rrun s₁ l₁) (rrun s₂ l₂) := by
  intro l₁
  induction l₁ with
  | nil =>
    intro l₂ s₁ s₂ hm h
    cases l₂ with
    | nil => exact h
    | cons _ _ => simp at hm
  | cons x xs ih =>
    intro l₂ s₁ s₂ hm h
    cases l₂ with
    | nil => simp at hm
    | cons y ys =>
      obtain ⟨f1, b1⟩ := x
      obtain ⟨f2, b2⟩ := y
      simp only [List.map_cons, List.cons.injEq] at hm
      obtain ⟨hb, hrest⟩ := hm
      subst hb
      obtain ⟨cfg, st, c, hh, txs, gas⟩ := b1
      simp only [rrun]
      apply ih ys hrest
      apply rewardsOfBlock_sim
      cases f1 <;> cases f2
      · exact h
      · exact restart_sim h
      · exact restart_sim_left h
      · exact restart_sim (restart_sim_left h)

/-- the state right after genesis: no reward record, the given account records; the relation holds trivially -/
theorem genesis_sim (acc : List (Acct × (Nat × Int))) :
    RSim { gpv := { store := [], cache := [] }, acc := acc } { gpv := { store := [], cache := [] }, acc := acc } :=
  ⟨rfl, rfl, by intro k v h; simp [aget] at h, by intro k v h; simp [aget] at h⟩

end NeoModel.Ledger.Reward
