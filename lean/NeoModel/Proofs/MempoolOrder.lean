/-
C08 helper: the order of the checks of `Pool.Add`.
(1) `Expected.*`: the step tables of mem_pool.go (as harness/cmd/extract/mempooladd.go reads them with go/ast) that
    the model in Model/Mempool.lean was written against; `tables_pinned` compares them with the tables regenerated
    from the current source on every check run. A reordered check, a changed guard, a dropped or added state change
    in Add, checkTxConflicts, checkBalance, removeInternal, removeFromMapWithFeesAndAttrs, removeConflictsOf,
    RemoveStale, tryAddSendersFee, loadPolicy, checkPolicy, Compare, getPayer or TryGetData breaks that theorem.
(2) `add_error_order`: the error the model's `add` returns is the FIRST failing check in the order of the
    return statements of the source (`Generated.MempoolAdd.errOrder`), where each check is a condition on the pool
    and the transaction that does not depend on the order of evaluation (except ErrOOM, which is decided on the
    pool left by the removals of the earlier stages).
-/
import NeoModel.Generated.MempoolAdd
import NeoModel.Proofs.MempoolRun
namespace NeoModel.Mempool

namespace Expected
/-- removeInternal of pkg/core/mempool/mem_pool.go: (kind, detail) in source order -/
def removeInternalSteps : List (String × String) := [
  ("let", "_, ok := mp.verifiedMap[hash]"),
  ("if", "!ok"),
  ("return", ""),
  ("loop", "mp.verifiedTxes"),
  ("if", "hash.Equals(mp.verifiedTxes[num].txn.Hash())"),
  ("branch", "break"),
  ("let", "itm := mp.verifiedTxes[num]"),
  ("if", "num < len(mp.verifiedTxes)-1"),
  ("set", "verifiedTxes"),
  ("if", "num == len(mp.verifiedTxes)-1"),
  ("set", "verifiedTxes"),
  ("mut", "removeFromMapWithFeesAndAttrs(itm)")
]
/-- removeFromMapWithFeesAndAttrs of pkg/core/mempool/mem_pool.go: (kind, detail) in source order -/
def removeFromMapSteps : List (String × String) := [
  ("set", "delete verifiedMap"),
  ("let", "p, _ := getPayer(itm.txn)"),
  ("let", "payerFee := mp.fees[p]"),
  ("calc", "payerFee.feeSum.SubUint64(&payerFee.feeSum, uint64(itm.txn.SystemFee+itm.txn.NetworkFee))"),
  ("set", "fees"),
  ("mut", "removeConflictsOf(itm.txn)"),
  ("init", "attrs := itm.txn.GetAttributes(transaction.OracleResponseT)"),
  ("let", "attrs := itm.txn.GetAttributes(transaction.OracleResponseT)"),
  ("if", "len(attrs) != 0"),
  ("set", "delete oracleResp"),
  ("if", "mp.subscriptionsOn.Load()"),
  ("send", "events Type: mempoolevent.TransactionRemoved")
]
/-- removeConflictsOf of pkg/core/mempool/mem_pool.go: (kind, detail) in source order -/
def removeConflictsOfSteps : List (String × String) := [
  ("loop", "tx.GetAttributes(transaction.ConflictsT)"),
  ("let", "conflictsHash := attr.Value.(*transaction.Conflicts).Hash"),
  ("if", "len(mp.conflicts[conflictsHash]) == 1"),
  ("set", "delete conflicts"),
  ("branch", "continue"),
  ("loop", "mp.conflicts[conflictsHash]"),
  ("if", "existingHash == tx.Hash()"),
  ("set", "conflicts"),
  ("branch", "break")
]
/-- RemoveStale of pkg/core/mempool/mem_pool.go: (kind, detail) in source order -/
def removeStaleSteps : List (String × String) := [
  ("lock", ""),
  ("mut", "loadPolicy(feer)"),
  ("let", "policyChanged := mp.loadPolicy(feer)"),
  ("let", "newVerifiedTxes := mp.verifiedTxes[:0]"),
  ("set", "clear fees"),
  ("set", "clear conflicts"),
  ("let", "height := feer.BlockHeight()"),
  ("loop", "mp.verifiedTxes"),
  ("mut", "isOK(itm.txn)"),
  ("mut", "checkPolicy(itm.txn, policyChanged)"),
  ("mut", "tryAddSendersFee(itm.txn, feer, true)"),
  ("if", "isOK(itm.txn) && mp.checkPolicy(itm.txn, policyChanged) && mp.tryAddSendersFee(itm.txn, feer, true)"),
  ("let", "newVerifiedTxes = append(newVerifiedTxes, itm)"),
  ("loop", "itm.txn.GetAttributes(transaction.ConflictsT)"),
  ("let", "hash := attr.Value.(*transaction.Conflicts).Hash"),
  ("set", "conflicts"),
  ("if", "mp.resendThreshold != 0"),
  ("let", "diff := (height - itm.blockStamp)"),
  ("if", "diff%mp.resendThreshold == 0 && bits.OnesCount32(diff/mp.resendThreshold) == 1"),
  ("let", "staleItems = append(staleItems, itm)"),
  ("set", "delete verifiedMap"),
  ("init", "attrs := itm.txn.GetAttributes(transaction.OracleResponseT)"),
  ("let", "attrs := itm.txn.GetAttributes(transaction.OracleResponseT)"),
  ("if", "len(attrs) != 0"),
  ("set", "delete oracleResp"),
  ("if", "mp.subscriptionsOn.Load()"),
  ("send", "events Type: mempoolevent.TransactionRemoved"),
  ("if", "len(staleItems) != 0"),
  ("go", "mp.resendStaleItems(staleItems)"),
  ("set", "verifiedTxes"),
  ("unlock", "")
]
/-- tryAddSendersFee of pkg/core/mempool/mem_pool.go: (kind, detail) in source order -/
def tryAddSendersFeeSteps : List (String × String) := [
  ("let", "p, _ := getPayer(tx)"),
  ("let", "payerFee, ok := getPayerFee(p, mp.fees, feer)"),
  ("if", "!ok"),
  ("set", "fees"),
  ("if", "needCheck"),
  ("call", "checkBalance"),
  ("calc", "txFee.SetUint64(uint64(tx.SystemFee + tx.NetworkFee))"),
  ("if", "balance.balance.Cmp(&txFee) < 0"),
  ("ret", "ErrInsufficientFunds | balance.balance.Cmp(&txFee) < 0"),
  ("calc", "txFee.Add(&txFee, &balance.feeSum)"),
  ("if", "balance.balance.Cmp(&txFee) < 0"),
  ("ret", "ErrConflict | balance.balance.Cmp(&txFee) < 0"),
  ("return", "txFee, nil"),
  ("end", "checkBalance"),
  ("let", "newFeeSum, err := checkBalance(tx, payerFee)"),
  ("if", "err != nil"),
  ("return", "false"),
  ("let", "payerFee.feeSum = newFeeSum"),
  ("calc", "payerFee.feeSum.AddUint64(&payerFee.feeSum, uint64(tx.SystemFee+tx.NetworkFee))"),
  ("set", "fees"),
  ("return", "true")
]
/-- loadPolicy of pkg/core/mempool/mem_pool.go: (kind, detail) in source order -/
def loadPolicySteps : List (String × String) := [
  ("let", "newFeePerByte := feer.FeePerByte()"),
  ("if", "newFeePerByte > mp.feePerByte"),
  ("set", "feePerByte"),
  ("return", "true"),
  ("return", "false")
]
/-- checkPolicy of pkg/core/mempool/mem_pool.go: (kind, detail) in source order -/
def checkPolicySteps : List (String × String) := [
  ("if", "!policyChanged || tx.FeePerByte() >= mp.feePerByte"),
  ("return", "true"),
  ("return", "false")
]
/-- Compare of pkg/core/mempool/mem_pool.go: (kind, detail) in source order -/
def compareSteps : List (String × String) := [
  ("let", "pHigh := p.txn.HasAttribute(transaction.HighPriority)"),
  ("let", "otherHigh := otherP.txn.HasAttribute(transaction.HighPriority)"),
  ("if", "pHigh && !otherHigh"),
  ("return", "1"),
  ("if", "!pHigh && otherHigh"),
  ("return", "-1"),
  ("init", "ret := int(p.txn.FeePerByte() - otherP.txn.FeePerByte())"),
  ("let", "ret := int(p.txn.FeePerByte() - otherP.txn.FeePerByte())"),
  ("if", "ret != 0"),
  ("return", "ret"),
  ("return", "int(p.txn.NetworkFee - otherP.txn.NetworkFee)")
]
/-- getPayer of pkg/core/mempool/mem_pool.go: (kind, detail) in source order -/
def getPayerSteps : List (String × String) := [
  ("if", "tx.Sender().Equals(nativehashes.Notary)"),
  ("return", "payer{primary: tx.Sender(), secondary: tx.Signers[1].Account}, true"),
  ("return", "payer{primary: tx.Sender()}, false")
]
/-- TryGetData of pkg/core/mempool/mem_pool.go: (kind, detail) in source order -/
def tryGetDataSteps : List (String × String) := [
  ("init", "tx, ok := mp.verifiedMap[hash]"),
  ("let", "tx, ok := mp.verifiedMap[hash]"),
  ("if", "ok"),
  ("let", "itm := item{txn: tx}"),
  ("search", "len(mp.verifiedTxes) | { return itm.Compare(mp.verifiedTxes[n]) >= 0 }"),
  ("let", "n := sort.Search(len(mp.verifiedTxes), func(n int) bool { return itm.Compare(mp.verifiedTxes[n]) >= 0 })"),
  ("if", "n < len(mp.verifiedTxes)"),
  ("if", "mp.verifiedTxes[i].txn.Hash() == hash"),
  ("return", "mp.verifiedTxes[i].data, ok"),
  ("if", "itm.Compare(mp.verifiedTxes[i]) != 0"),
  ("branch", "break"),
  ("return", "nil, false")
]
/-- Add of pkg/core/mempool/mem_pool.go: (kind, detail) in source order, checkTxConflicts and checkBalance inlined -/
def steps : List (String × String) := [
  ("if", "data != nil"),
  ("let", "pItem.data = data[0]"),
  ("lock", ""),
  ("if", "mp.containsKey(t.Hash())"),
  ("unlock", ""),
  ("ret", "ErrDup | mp.containsKey(t.Hash())"),
  ("call", "checkTxConflicts"),
  ("let", "p, isSponsored := getPayer(tx)"),
  ("let", "author := p.primary"),
  ("if", "isSponsored"),
  ("let", "author = p.secondary"),
  ("let", "actualPayerFee, ok := getPayerFee(p, mp.fees, feer)"),
  ("init", "conflictingHashes, ok := mp.conflicts[tx.Hash()]"),
  ("let", "conflictingHashes, ok := mp.conflicts[tx.Hash()]"),
  ("if", "ok"),
  ("loop", "conflictingHashes"),
  ("let", "existingTx := mp.verifiedMap[hash]"),
  ("if", "existingTx.HasSigner(author)"),
  ("let", "conflictingFee += existingTx.NetworkFee"),
  ("let", "conflictsToBeRemoved = append(conflictsToBeRemoved, existingTx)"),
  ("let", "conflictsAttrs := tx.GetAttributes(transaction.ConflictsT)"),
  ("if", "len(conflictsAttrs) != 0"),
  ("let", "txSigners := make(map[util.Uint160]struct{}, len(tx.Signers))"),
  ("loop", "tx.Signers"),
  ("let", "txSigners[s.Account] = struct{}{}"),
  ("loop", "conflictsAttrs"),
  ("let", "hash := attr.Value.(*transaction.Conflicts).Hash"),
  ("let", "existingTx, ok := mp.verifiedMap[hash]"),
  ("if", "!ok"),
  ("branch", "continue"),
  ("loop", "existingTx.Signers"),
  ("init", "_, ok := txSigners[s.Account]"),
  ("let", "_, ok := txSigners[s.Account]"),
  ("if", "ok"),
  ("let", "signerOK = true"),
  ("branch", "break"),
  ("if", "!signerOK"),
  ("ret", "ErrConflictsAttribute | !signerOK"),
  ("let", "conflictingFee += existingTx.NetworkFee"),
  ("let", "conflictsToBeRemoved = append(conflictsToBeRemoved, existingTx)"),
  ("if", "conflictingFee != 0 && tx.NetworkFee <= conflictingFee"),
  ("ret", "ErrConflictsAttribute | conflictingFee != 0 && tx.NetworkFee <= conflictingFee"),
  ("let", "expectedPayerFee = actualPayerFee"),
  ("loop", "conflictsToBeRemoved"),
  ("let", "conflictingPayer, _ := getPayer(conflictingTx)"),
  ("if", "conflictingPayer.primary.Equals(p.primary) && conflictingPayer.secondary.Equals(p.secondary)"),
  ("calc", "expectedPayerFee.feeSum.SubUint64(&expectedPayerFee.feeSum, uint64(conflictingTx.SystemFee+conflictingTx.NetworkFee))"),
  ("call", "checkBalance"),
  ("calc", "txFee.SetUint64(uint64(tx.SystemFee + tx.NetworkFee))"),
  ("if", "balance.balance.Cmp(&txFee) < 0"),
  ("ret", "ErrInsufficientFunds | balance.balance.Cmp(&txFee) < 0"),
  ("calc", "txFee.Add(&txFee, &balance.feeSum)"),
  ("if", "balance.balance.Cmp(&txFee) < 0"),
  ("ret", "ErrConflict | balance.balance.Cmp(&txFee) < 0"),
  ("return", "txFee, nil"),
  ("end", "checkBalance"),
  ("let", "_, err := checkBalance(tx, expectedPayerFee)"),
  ("if", "!ok && err == nil"),
  ("set", "fees"),
  ("retvar", "err | "),
  ("end", "checkTxConflicts"),
  ("let", "conflictsToBeRemoved, err := mp.checkTxConflicts(t, fee)"),
  ("if", "err != nil"),
  ("unlock", ""),
  ("retvar", "err | err != nil"),
  ("init", "attrs := t.GetAttributes(transaction.OracleResponseT)"),
  ("let", "attrs := t.GetAttributes(transaction.OracleResponseT)"),
  ("if", "len(attrs) != 0"),
  ("let", "id := attrs[0].Value.(*transaction.OracleResponse).ID"),
  ("let", "h, ok := mp.oracleResp[id]"),
  ("if", "ok"),
  ("if", "mp.verifiedMap[h].NetworkFee >= t.NetworkFee"),
  ("unlock", ""),
  ("ret", "ErrOracleResponse | len(attrs) != 0 && ok && mp.verifiedMap[h].NetworkFee >= t.NetworkFee"),
  ("mut", "removeInternal(h)"),
  ("loop", "conflictsToBeRemoved"),
  ("mut", "removeInternal(conflictingTx.Hash())"),
  ("if", "len(mp.verifiedTxes) > 0"),
  ("if", "pItem.Compare(mp.verifiedTxes[len(mp.verifiedTxes)-1]) == 0"),
  ("let", "n = len(mp.verifiedTxes)"),
  ("search", "len(mp.verifiedTxes) | { return pItem.Compare(mp.verifiedTxes[n]) > 0 }"),
  ("let", "n = sort.Search(len(mp.verifiedTxes), func(n int) bool { return pItem.Compare(mp.verifiedTxes[n]) > 0 })"),
  ("if", "len(mp.verifiedTxes) == mp.capacity"),
  ("if", "n == len(mp.verifiedTxes)"),
  ("unlock", ""),
  ("ret", "ErrOOM | len(mp.verifiedTxes) == mp.capacity && n == len(mp.verifiedTxes)"),
  ("let", "unlucky := mp.verifiedTxes[len(mp.verifiedTxes)-1]"),
  ("set", "verifiedTxes"),
  ("mut", "removeFromMapWithFeesAndAttrs(unlucky)"),
  ("set", "verifiedTxes"),
  ("if", "n != len(mp.verifiedTxes)-1"),
  ("set", "copy verifiedTxes"),
  ("set", "verifiedTxes"),
  ("set", "verifiedMap"),
  ("init", "attrs := t.GetAttributes(transaction.OracleResponseT)"),
  ("let", "attrs := t.GetAttributes(transaction.OracleResponseT)"),
  ("if", "len(attrs) != 0"),
  ("set", "oracleResp"),
  ("loop", "t.GetAttributes(transaction.ConflictsT)"),
  ("let", "hash := attr.Value.(*transaction.Conflicts).Hash"),
  ("set", "conflicts"),
  ("mut", "tryAddSendersFee(pItem.txn, fee, false)"),
  ("if", "mp.updateMetricsCb != nil"),
  ("metrics", "len(mp.verifiedTxes)"),
  ("unlock", ""),
  ("let", "sub := mp.transactionAddedCh.Swap(chan struct{}(nil))"),
  ("if", "sub != nil && sub != chan struct{}(nil)"),
  ("if", "mp.subscriptionsOn.Load()"),
  ("send", "events Type: mempoolevent.TransactionAdded"),
  ("return", "nil")
]
/-- the sentinel errors Add can return, in the order of the return statements -/
def errOrder : List String := ["ErrDup", "ErrConflictsAttribute", "ErrConflictsAttribute", "ErrInsufficientFunds", "ErrConflict", "ErrOracleResponse", "ErrOOM"]
/-- verifyTxAttributes of pkg/core/blockchain.go, case transaction.ConflictsT: (kind, detail) in source order -/
def conflictsAttrSteps : List (String × String) := [
  ("let", "conflicts := tx.Attributes[i].Value.(*transaction.Conflicts)"),
  ("if", "conflictsAttrs == nil"),
  ("let", "conflictsAttrs = tx.GetAttributes(transaction.ConflictsT)"),
  ("loop", "conflictsAttrs"),
  ("if", "c.Value.(*transaction.Conflicts).Hash.Equals(conflicts.Hash)"),
  ("if", "dup"),
  ("ret", "ErrInvalidAttribute | c.Value.(*transaction.Conflicts).Hash.Equals(conflicts.Hash) && dup"),
  ("let", "dup = true"),
  ("init", "err := bc.dao.HasTransaction(conflicts.Hash, nil, 0, 0)"),
  ("let", "err := bc.dao.HasTransaction(conflicts.Hash, nil, 0, 0)"),
  ("if", "errors.Is(err, dao.ErrAlreadyExists)"),
  ("ret", "ErrInvalidAttribute | errors.Is(err, dao.ErrAlreadyExists)")
]
end Expected

/-- the tables read from the current source are the ones the model was written against -/
theorem tables_pinned :
    Generated.MempoolAdd.steps = Expected.steps ∧
    Generated.MempoolAdd.errOrder = Expected.errOrder ∧
    Generated.MempoolAdd.removeInternalSteps = Expected.removeInternalSteps ∧
    Generated.MempoolAdd.removeFromMapSteps = Expected.removeFromMapSteps ∧
    Generated.MempoolAdd.removeConflictsOfSteps = Expected.removeConflictsOfSteps ∧
    Generated.MempoolAdd.removeStaleSteps = Expected.removeStaleSteps ∧
    Generated.MempoolAdd.tryAddSendersFeeSteps = Expected.tryAddSendersFeeSteps ∧
    Generated.MempoolAdd.loadPolicySteps = Expected.loadPolicySteps ∧
    Generated.MempoolAdd.checkPolicySteps = Expected.checkPolicySteps ∧
    Generated.MempoolAdd.compareSteps = Expected.compareSteps ∧
    Generated.MempoolAdd.getPayerSteps = Expected.getPayerSteps ∧
    Generated.MempoolAdd.tryGetDataSteps = Expected.tryGetDataSteps ∧
    Generated.MempoolAdd.conflictsAttrSteps = Expected.conflictsAttrSteps :=
  ⟨rfl, rfl, rfl, rfl, rfl, rfl, rfl, rfl, rfl, rfl, rfl, rfl, rfl⟩

/-! ### the checks of `Add`, each as a condition of its own -/

def errOfName : String → Option Err
  | "ErrDup" => some .dup
  | "ErrConflictsAttribute" => some .cattr
  | "ErrInsufficientFunds" => some .funds
  | "ErrConflict" => some .conflict
  | "ErrOracleResponse" => some .oracle
  | "ErrOOM" => some .oom
  | _ => none

/-- mem_pool.go:587-591 the account whose signature makes a conflicting fee count -/
def author (t : Tx) : Acct := if (getPayer t).2 then (payerOf t).2 else (payerOf t).1

/-- steps 1 and 2 of `checkTxConflicts` (`none`: a named pooled transaction shares no signer) -/
def scanned (mp : Pool) (t : Tx) : Option Scan := scanStep2 mp.vmap t t.conflicts (scan1 mp t (author t))

/-- l.242 ErrDup -/
def cDup (mp : Pool) (t : Tx) : Bool := (mp.vmap t.id).isSome
/-- l.630 ErrConflictsAttribute: not signed by a signer of a conflicting pooled transaction -/
def cSigner (mp : Pool) (t : Tx) : Bool := (scanned mp t).isNone
/-- l.637 ErrConflictsAttribute: the conflicting transactions pay at least as much -/
def cFee (mp : Pool) (t : Tx) : Bool :=
  match scanned mp t with
  | some s => decide (s.fee ≠ 0 ∧ t.netFee ≤ s.fee)
  | none => false

def actualFee (mp : Pool) (t : Tx) (feer : Feer) : Fee := (getPayerFee (payerOf t) mp.fees feer).1

/-- l.642-648 the payer's fee sum without its conflicting transactions -/
def expectedFee (mp : Pool) (t : Tx) (feer : Feer) : Fee :=
  match scanned mp t with
  | some s => { actualFee mp t feer with feeSum := expectedFeeSum (payerOf t) s.rm (actualFee mp t feer).feeSum }
  | none => actualFee mp t feer

/-- l.222 ErrInsufficientFunds -/
def cFunds (mp : Pool) (t : Tx) (feer : Feer) : Bool := decide ((actualFee mp t feer).balance < t.fee)
/-- l.226 ErrConflict -/
def cConflict (mp : Pool) (t : Tx) (feer : Feer) : Bool :=
  decide ((expectedFee mp t feer).balance < addW t.fee (expectedFee mp t feer).feeSum)
/-- l.255 ErrOracleResponse: a pooled response to the same request pays at least as much (a dangling index
entry is the model's panic and reported under this error) -/
def cOracle (mp : Pool) (t : Tx) : Bool :=
  match t.oracle with
  | none => false
  | some id =>
    match mp.oracleResp id with
    | none => false
    | some h =>
      match mp.vmap h with
      | none => true
      | some e => decide (e.netFee ≥ t.netFee)
/-- l.311-315 ErrOOM, on the pool left by the removals of the oracle stage and of the conflicting transactions -/
def cOom (mp : Pool) (t : Tx) (feer : Feer) (d : Nat) : Bool :=
  match checkTxConflicts mp t feer with
  | (mp1, .ok rm) => decide ((insertStage (removeAll (oracleStage mp1 t).1 rm) t feer d).2 = some .oom)
  | _ => false

/-- the checks in the order of the model's `add` -/
def addChecks (mp : Pool) (t : Tx) (feer : Feer) (d : Nat) : List (Err × Bool) :=
  [(.dup, cDup mp t), (.cattr, cSigner mp t), (.cattr, cFee mp t), (.funds, cFunds mp t feer),
   (.conflict, cConflict mp t feer), (.oracle, cOracle mp t), (.oom, cOom mp t feer d)]

def firstFail : List (Err × Bool) → Option Err
  | [] => none
  | (e, b) :: l => if b then some e else firstFail l

/-- the order of the model's checks is the order of the error returns in the source -/
theorem addChecks_order (mp : Pool) (t : Tx) (feer : Feer) (d : Nat) :
    (addChecks mp t feer d).map (fun c => some c.1) = Generated.MempoolAdd.errOrder.map errOfName := rfl

theorem checkBalance_class (t : Tx) (b : Fee) :
    (checkBalance t b).2 =
      if b.balance < t.fee then some .funds else if b.balance < addW t.fee b.feeSum then some .conflict else none := by
  unfold checkBalance
  simp only
  split
  · rfl
  · split <;> rfl

/-- what `checkTxConflicts` returns, by the four conditions, and which fields it leaves alone -/
theorem checkTxConflicts_class (mp : Pool) (t : Tx) (feer : Feer) (hnp : (scan1 mp t (author t)).panicked = false) :
    (match (checkTxConflicts mp t feer).2 with
      | .error e => firstFail [(.cattr, cSigner mp t), (.cattr, cFee mp t), (.funds, cFunds mp t feer),
                               (.conflict, cConflict mp t feer)] = some e
      | .ok _ => firstFail [(.cattr, cSigner mp t), (.cattr, cFee mp t), (.funds, cFunds mp t feer),
                             (.conflict, cConflict mp t feer)] = none) ∧
    (checkTxConflicts mp t feer).1.vmap = mp.vmap ∧ (checkTxConflicts mp t feer).1.oracleResp = mp.oracleResp ∧
    (checkTxConflicts mp t feer).1.panicked = mp.panicked := by
  unfold checkTxConflicts
  simp only
  have hnp' : (scan1 mp t (if (getPayer t).2 then (payerOf t).2 else (payerOf t).1)).panicked = false := hnp
  rw [hnp']
  simp only [Bool.false_eq_true, if_false]
  have hsc : scanned mp t = scanStep2 mp.vmap t t.conflicts (scan1 mp t (if (getPayer t).2 then (payerOf t).2 else (payerOf t).1)) := rfl
  cases hs : scanStep2 mp.vmap t t.conflicts (scan1 mp t (if (getPayer t).2 then (payerOf t).2 else (payerOf t).1)) with
  | none =>
    rw [hs] at hsc
    simp only [firstFail, cSigner, hsc, Option.isNone_none, if_true]
    (refine ⟨?_, ?_, ?_, ?_⟩ <;> first | trivial | rfl)
  | some s =>
    rw [hs] at hsc
    simp only
    by_cases hfee : s.fee ≠ 0 ∧ t.netFee ≤ s.fee
    · rw [if_pos hfee]
      simp only [firstFail, cSigner, cFee, hsc, Option.isNone_some, Bool.false_eq_true, if_false, decide_eq_true hfee, if_true]
      (refine ⟨?_, ?_, ?_, ?_⟩ <;> first | trivial | rfl)
    · rw [if_neg hfee]
      have hexp : expectedFee mp t feer =
          { balance := (getPayerFee (payerOf t) mp.fees feer).1.balance,
            feeSum := expectedFeeSum (payerOf t) s.rm (getPayerFee (payerOf t) mp.fees feer).1.feeSum } := by
        unfold expectedFee actualFee; rw [hsc]
      rw [checkBalance_class]
      simp only [firstFail, cSigner, cFee, cFunds, cConflict, hsc, Option.isNone_some, Bool.false_eq_true, if_false,
        decide_eq_false hfee, hexp, actualFee]
      by_cases h1 : (getPayerFee (payerOf t) mp.fees feer).1.balance < t.fee
      · simp only [h1, if_true, decide_true]
        (refine ⟨?_, ?_, ?_, ?_⟩ <;> first | trivial | rfl)
      · simp only [h1, if_false, decide_false, Bool.false_eq_true]
        by_cases h2 : (getPayerFee (payerOf t) mp.fees feer).1.balance <
            addW t.fee (expectedFeeSum (payerOf t) s.rm (getPayerFee (payerOf t) mp.fees feer).1.feeSum)
        · simp only [h2, if_true, decide_true]
          (refine ⟨?_, ?_, ?_, ?_⟩ <;> first | trivial | rfl)
        · simp only [h2, if_false, decide_false, Bool.false_eq_true]
          refine ⟨trivial, ?_, ?_, ?_⟩ <;> (split <;> rfl)

/-- the oracle stage is decided by `cOracle` on the original pool -/
theorem oracleStage_flag (mp mp1 : Pool) (t : Tx) (hv : mp1.vmap = mp.vmap) (ho : mp1.oracleResp = mp.oracleResp) :
    (oracleStage mp1 t).2 = !cOracle mp t := by
  unfold oracleStage cOracle
  rw [hv, ho]
  cases t.oracle with
  | none => rfl
  | some id =>
    simp only
    cases mp.oracleResp id with
    | none => rfl
    | some h =>
      simp only
      cases mp.vmap h with
      | none => rfl
      | some e =>
        simp only
        by_cases hge : e.netFee ≥ t.netFee
        · simp [hge]
        · simp [hge]

theorem firstFail_append (a b : List (Err × Bool)) :
    firstFail (a ++ b) = match firstFail a with | some e => some e | none => firstFail b := by
  induction a with
  | nil => rfl
  | cons x a ih =>
    obtain ⟨e, c⟩ := x
    simp only [List.cons_append, firstFail]
    cases c
    · simp only [Bool.false_eq_true, if_false]; exact ih
    · simp only [if_true]

theorem insertStage_err (mp : Pool) (t : Tx) (feer : Feer) (d : Nat) :
    (insertStage mp t feer d).2 = none ∨ (insertStage mp t feer d).2 = some .oom := by
  unfold insertStage
  simp only
  split
  · exact Or.inr rfl
  · exact Or.inl rfl

/-- The error `Add` returns is the first failing check, in the order of the error returns of the source. -/
theorem add_error_order {U : Tx → Prop} (hw : WF U) {mp : Pool} (hi : Inv U mp) {t : Tx} (ht : U t) (feer : Feer)
    (hF : FeerOk feer) (d : Nat) : (add mp t feer d).2 = firstFail (addChecks mp t feer d) := by
  have hnp := (scan1_spec hw hi t (author t)).1
  obtain ⟨hcls, hv, ho, _⟩ := checkTxConflicts_class mp t feer hnp
  have hsplit : addChecks mp t feer d =
      [(.dup, cDup mp t)] ++ ([(.cattr, cSigner mp t), (.cattr, cFee mp t), (.funds, cFunds mp t feer),
        (.conflict, cConflict mp t feer)] ++ [(.oracle, cOracle mp t), (.oom, cOom mp t feer d)]) := rfl
  rw [hsplit, firstFail_append, firstFail_append]
  unfold add
  by_cases hd : (mp.vmap t.id).isSome = true
  · rw [if_pos hd]
    simp only [firstFail, cDup, hd, if_true]
  · rw [if_neg hd]
    have hd' : cDup mp t = false := by unfold cDup; simpa using hd
    simp only [firstFail, hd', Bool.false_eq_true, if_false]
    have hoom : cOom mp t feer d = (match checkTxConflicts mp t feer with
      | (mp1, .ok rm) => decide ((insertStage (removeAll (oracleStage mp1 t).1 rm) t feer d).2 = some .oom)
      | _ => false) := rfl
    cases hck : checkTxConflicts mp t feer with
    | mk mp1 r =>
      rw [hck] at hcls hv ho hoom
      cases r with
      | error e =>
        simp only at hcls ⊢
        simp only [firstFail] at hcls
        rw [hcls]
      | ok rm =>
        simp only at hcls hoom ⊢
        simp only [firstFail] at hcls
        rw [hcls]
        obtain ⟨actual, hmp1, hent, _⟩ := checkTxConflicts_ok hw hi ht feer hF hck
        have hi1 : Inv U mp1 := by rw [hmp1]; exact inv_fees_upd hi _ _ hent
        obtain ⟨o1, _, _⟩ := oracleStage_spec hw hi1 t
        have hfl := oracleStage_flag mp mp1 t hv ho
        rw [if_neg (by rw [o1]; simp)]
        cases hco : cOracle mp t with
        | true =>
          rw [hco] at hfl
          simp only [Bool.not_true] at hfl
          rw [hfl]
          simp
        | false =>
          rw [hco] at hfl
          simp only [Bool.not_false] at hfl
          rw [hfl]
          simp only [Bool.not_true, Bool.false_eq_true, if_false, hoom]
          rcases insertStage_err (removeAll (oracleStage mp1 t).1 rm) t feer d with h | h
          · rw [h]; simp
          · rw [h]; simp

end NeoModel.Mempool
