/-
C12, item sizes in the specification machine, part 4: the invariant over the whole machine
(`exec`, exception unwinding, `step`, `run`): in every state of every run — whatever the program,
the price getter and the gas limit — every byte string and every buffer on any evaluation stack, in
any slot, inside any compound, in the result stack or pending as exception has at most MaxSize
bytes (integers: 256 bits by the type `Int256`).
-/
import NeoModel.Proofs.VmAcctSpecSizeOps
namespace NeoModel.Vm

def SlotOk (o : Option (List Item)) : Prop := StackOk (slotItems o)
def CallOk (c : CallCtx) : Prop := SlotOk c.locals ∧ SlotOk c.args
def CallsSz (cs : List CallCtx) : Prop := ∀ c ∈ cs, CallOk c
def FrameOk (f : Frame) : Prop := StackOk f.estack ∧ SlotOk f.static ∧ CallsSz f.calls
def FramesSz (fs : List Frame) : Prop := ∀ f ∈ fs, FrameOk f

/-- the size invariant of a machine state -/
structure VmOk (v : Vm) : Prop where
  heap : HeapOk v.heap
  frames : FramesSz v.frames
  result : StackOk v.result
  exc : ∀ x, v.uncaught = some x → ItemOk x

theorem slotOk_none : SlotOk none := stackOk_nil
theorem slotOk_some {xs : List Item} : SlotOk (some xs) ↔ StackOk xs := Iff.rfl
theorem callsSz_nil : CallsSz [] := by intro c hc; cases hc
theorem callsSz_cons {c : CallCtx} {cs : List CallCtx} : CallsSz (c :: cs) ↔ CallOk c ∧ CallsSz cs := by
  simp [CallsSz]
theorem framesSz_nil : FramesSz [] := by intro c hc; cases hc
theorem framesSz_cons {f : Frame} {fs : List Frame} : FramesSz (f :: fs) ↔ FrameOk f ∧ FramesSz fs := by
  simp [FramesSz]
theorem callOk_fresh (ip : Nat) : CallOk { ip := ip } := ⟨slotOk_none, slotOk_none⟩

theorem unwindCalls_size : ∀ (cs cs' : List CallCtx) (d : Bool) (t : Nat), unwindCalls cs = some (cs', d, t) → CallsSz cs → CallsSz cs' := by
  intro cs
  induction cs with
  | nil => intro cs' d t h; simp [unwindCalls] at h
  | cons c t ih =>
    intro cs' d tt h hok
    obtain ⟨hc, ht⟩ := callsSz_cons.1 hok
    simp only [unwindCalls] at h
    split at h
    · exact ih cs' d tt h ht
    · split at h <;> (simp only [Option.some.injEq, Prod.mk.injEq] at h; rw [← h.1]; exact callsSz_cons.2 ⟨hc, ht⟩)

theorem unwindFrames_size (ex : Item) (hx : ItemOk ex) : ∀ (fs fs' : List Frame) (d : Bool), unwindFrames ex fs = .ok (fs', d) →
    FramesSz fs → FramesSz fs' := by
  intro fs
  induction fs with
  | nil => intro fs' d h; simp [unwindFrames] at h
  | cons f t ih =>
    intro fs' d h hok
    obtain ⟨hf, ht⟩ := framesSz_cons.1 hok
    simp only [unwindFrames] at h
    split at h
    · exact ih fs' d h ht
    · rename_i calls deliver target hu
      split at h
      · cases h
      · simp only [Except.ok.injEq, Prod.mk.injEq] at h
        rw [← h.1]
        refine framesSz_cons.2 ⟨⟨?_, hf.2.1, unwindCalls_size _ _ _ _ hu hf.2.2⟩, ht⟩
        show StackOk (if deliver = true then ex :: f.estack else f.estack)
        split
        · exact StackOk.cons hx hf.1
        · exact hf.1

theorem raise_size (v v' : Vm) (ex : Item) (h : v.raise ex = .ok v') (ok : VmOk v) (hx : ItemOk ex) : VmOk v' := by
  simp only [Vm.raise, bind, Except.bind, pure, Except.pure] at h
  split at h
  · cases h
  · rename_i p hu
    obtain ⟨fs', d⟩ := p
    simp only [Except.ok.injEq] at h
    subst h
    refine ⟨ok.heap, unwindFrames_size ex hx v.frames fs' d hu ok.frames, ok.result, ?_⟩
    intro x hxx
    dsimp only at hxx
    split at hxx
    · cases hxx
    · simp only [Option.some.injEq] at hxx; rw [← hxx]; exact hx

theorem wp_raise {v : Vm} {ex : Item} (ok : VmOk v) (hx : ItemOk ex) : WP (v.raise ex) VmOk :=
  ⟨fun v' h => raise_size v v' ex h ok hx⟩

theorem wp_jumpTarget {size ip : Nat} {rel : Bytes} {Q : Nat → Prop} (k : ∀ t, Q t) : WP (jumpTarget size ip rel) Q := by
  unfold jumpTarget
  dsimp only
  split
  · exact wp_error
  · exact wp_ok (k _)

theorem wp_checkJump {size t : Nat} {Q : Nat → Prop} (k : ∀ t, Q t) : WP (checkJump size t) Q := by
  unfold checkJump
  split
  · exact wp_error
  · exact wp_ok (k _)

theorem wp_jmpTaken {c : JmpCond} {st : List Item} {Q : Bool × List Item → Prop} (hs : StackOk st)
    (k : ∀ b st', StackOk st' → Q (b, st')) : WP (jmpTaken c st) Q := by
  unfold jmpTaken
  split
  · exact wp_ok (k _ _ hs)
  · apply wp_bind; apply wp_popBool hs; intro b st' hs'; exact wp_pure (k _ _ hs')
  · apply wp_bind; apply wp_popBool hs; intro b st' hs'; exact wp_pure (k _ _ hs')
  · apply wp_bind; apply wp_popInt hs; intro b st1 hs1
    apply wp_bind; apply wp_popInt hs1; intro a st2 hs2
    exact wp_pure (k _ _ hs2)

theorem wp_slotGet {s : Option (List Item)} {i : Nat} {Q : Item → Prop} (ho : SlotOk s) (k : ∀ x, ItemOk x → Q x) :
    WP (slotGet s i) Q := by
  unfold slotGet
  split
  · rename_i xs
    apply wp_optE; intro x hx
    exact k x (StackOk.get (slotOk_some.1 ho) hx)
  · exact wp_error

theorem wp_slotSet {s : Option (List Item)} {i : Nat} {x : Item} {Q : Option (List Item) → Prop} (ho : SlotOk s) (hx : ItemOk x)
    (k : ∀ s', SlotOk s' → Q s') : WP (slotSet s i x) Q := by
  unfold slotSet
  split
  · rename_i xs
    split
    · exact wp_ok (k _ (slotOk_some.2 ((slotOk_some.1 ho).set i hx)))
    · exact wp_error
  · exact wp_error

/-- the machine with the current frame replaced -/
theorem vmOk_frames {v : Vm} {fr : Frame} {fs : List Frame} (ok : VmOk v) (hfs : FramesSz fs) (hf : FrameOk fr) :
    VmOk { v with frames := fr :: fs } :=
  ⟨ok.heap, framesSz_cons.2 ⟨hf, hfs⟩, ok.result, ok.exc⟩

/-- **one instruction keeps the size invariant** (the operand is within MaxSize: `decode_param_size`) -/
theorem exec_size (v : Vm) (ins : Instr) (hp : ins.param.length ≤ maxItemSize) (ok : VmOk v) : WP (exec v ins) VmOk := by
  unfold exec
  split
  · exact wp_error
  · rename_i f fs hf
    split
    · exact wp_error
    · rename_i c cs hc
      have hfr := ok.frames
      rw [hf] at hfr
      obtain ⟨⟨hE, hS, hCalls⟩, hFs⟩ := framesSz_cons.1 hfr
      rw [hc] at hCalls
      obtain ⟨hC, hCs⟩ := callsSz_cons.1 hCalls
      have hH := ok.heap
      dsimp only
      split
      · -- PUSHA
        apply wp_bind; apply wp_jumpTarget; intro t
        exact wp_pure (vmOk_frames ok hFs ⟨(StackOk.cons trivial hE), hS, callsSz_cons.2 ⟨hC, hCs⟩⟩)
      · -- JMP*
        apply wp_bind; apply wp_jumpTarget; intro t
        apply wp_bind; apply wp_jmpTaken hE; intro taken st hst
        dsimp only
        split
        · apply wp_bind; apply wp_checkJump; intro t'
          exact wp_pure (vmOk_frames ok hFs ⟨hst, hS, callsSz_cons.2 ⟨hC, hCs⟩⟩)
        · exact wp_pure (vmOk_frames ok hFs ⟨hst, hS, callsSz_cons.2 ⟨hC, hCs⟩⟩)
      · -- CALL
        apply wp_bind; apply wp_jumpTarget; intro t
        split
        · apply wp_bind; exact wp_throw
        · apply wp_bind; apply wp_checkJump; intro t'
          exact wp_pure ⟨ok.heap, framesSz_cons.2 ⟨⟨hE, hS, callsSz_cons.2 ⟨callOk_fresh _, callsSz_cons.2 ⟨hC, hCs⟩⟩⟩, hFs⟩, ok.result, ok.exc⟩
      · -- CALLA
        apply wp_bind; apply wp_popE hE; intro x st hx hst
        dsimp only
        split
        · split
          · apply wp_bind; exact wp_throw
          · split
            · apply wp_bind; exact wp_throw
            · apply wp_bind; apply wp_checkJump; intro t'
              exact wp_pure ⟨ok.heap, framesSz_cons.2 ⟨⟨hst, hS, callsSz_cons.2 ⟨callOk_fresh _, callsSz_cons.2 ⟨hC, hCs⟩⟩⟩, hFs⟩, ok.result, ok.exc⟩
        · exact wp_error
      · exact wp_error
      · exact wp_error
      · -- RET
        split
        · rename_i c2 cs2
          exact wp_pure ⟨ok.heap, framesSz_cons.2 ⟨⟨hE, hS, hCs⟩, hFs⟩, ok.result, ok.exc⟩
        · split
          · exact wp_pure ⟨ok.heap, framesSz_nil, hE, ok.exc⟩
          · rename_i p ps
            obtain ⟨⟨pE, pS, pC⟩, hPs⟩ := framesSz_cons.1 hFs
            have merged : VmOk { v with frames := { p with estack := f.estack ++ p.estack } :: ps } :=
              ⟨ok.heap, framesSz_cons.2 ⟨⟨hE.append pE, pS, pC⟩, hPs⟩, ok.result, ok.exc⟩
            split
            · split
              · exact wp_error
              · exact wp_pure merged
            · exact wp_pure merged
      · -- TRY
        split
        · apply wp_bind; exact wp_throw
        · apply wp_bind; apply wp_jumpTarget; intro co
          apply wp_bind; apply wp_jumpTarget; intro fo
          split
          · apply wp_bind; exact wp_throw
          · exact wp_pure (vmOk_frames ok hFs ⟨hE, hS, callsSz_cons.2 ⟨hC, hCs⟩⟩)
      · -- ENDTRY
        split
        · exact wp_error
        · split
          · apply wp_bind; exact wp_throw
          · apply wp_bind; apply wp_jumpTarget; intro eo
            split
            · apply wp_bind; apply wp_checkJump; intro t
              exact wp_pure (vmOk_frames ok hFs ⟨hE, hS, callsSz_cons.2 ⟨hC, hCs⟩⟩)
            · apply wp_bind; apply wp_checkJump; intro t
              exact wp_pure (vmOk_frames ok hFs ⟨hE, hS, callsSz_cons.2 ⟨hC, hCs⟩⟩)
      · -- ENDFINALLY
        split
        · rename_i ex hex
          exact wp_raise ok (ok.exc ex hex)
        · split
          · exact wp_error
          · apply wp_bind; apply wp_optE; intro eo _
            apply wp_bind; apply wp_checkJump; intro t
            exact wp_pure (vmOk_frames ok hFs ⟨hE, hS, callsSz_cons.2 ⟨hC, hCs⟩⟩)
      · -- INITSSLOT
        split
        · apply wp_bind; exact wp_throw
        · split
          · apply wp_bind; exact wp_throw
          · exact wp_pure (vmOk_frames ok hFs ⟨hE, (slotOk_some.2 (stackOk_replicate (x := Item.null) trivial _)), callsSz_cons.2 ⟨hC, hCs⟩⟩)
      · -- INITSLOT
        split
        · apply wp_bind; exact wp_throw
        · split
          · apply wp_bind; exact wp_throw
          · split
            · apply wp_bind; exact wp_throw
            · refine wp_pure (vmOk_frames ok hFs ⟨(hE.drop _), hS, callsSz_cons.2 ⟨⟨?_, ?_⟩, hCs⟩⟩)
              · dsimp only
                split
                · exact slotOk_some.2 (stackOk_replicate (x := Item.null) trivial _)
                · exact slotOk_none
              · dsimp only
                split
                · exact slotOk_some.2 (hE.take _)
                · exact slotOk_none
      · -- LD*
        rename_i _ k i _
        cases k <;> dsimp only
        · apply wp_bind; apply wp_slotGet hS; intro x hx
          exact wp_pure (vmOk_frames ok hFs ⟨StackOk.cons hx hE, hS, callsSz_cons.2 ⟨hC, hCs⟩⟩)
        · apply wp_bind; apply wp_slotGet hC.1; intro x hx
          exact wp_pure (vmOk_frames ok hFs ⟨StackOk.cons hx hE, hS, callsSz_cons.2 ⟨hC, hCs⟩⟩)
        · apply wp_bind; apply wp_slotGet hC.2; intro x hx
          exact wp_pure (vmOk_frames ok hFs ⟨StackOk.cons hx hE, hS, callsSz_cons.2 ⟨hC, hCs⟩⟩)
      · -- ST*
        rename_i _ k i _
        cases k <;> dsimp only
        · apply wp_bind; apply wp_slotSet hS (x := .null) trivial; intro _ _
          apply wp_bind; apply wp_popE hE; intro x st hx hst
          dsimp only
          apply wp_bind; apply wp_slotSet hS hx; intro s' hs'
          exact wp_pure (vmOk_frames ok hFs ⟨hst, hs', callsSz_cons.2 ⟨hC, hCs⟩⟩)
        · apply wp_bind; apply wp_slotSet hC.1 (x := .null) trivial; intro _ _
          apply wp_bind; apply wp_popE hE; intro x st hx hst
          dsimp only
          apply wp_bind; apply wp_slotSet hC.1 hx; intro s' hs'
          exact wp_pure (vmOk_frames ok hFs ⟨hst, hS, callsSz_cons.2 ⟨⟨hs', hC.2⟩, hCs⟩⟩)
        · apply wp_bind; apply wp_slotSet hC.2 (x := .null) trivial; intro _ _
          apply wp_bind; apply wp_popE hE; intro x st hx hst
          dsimp only
          apply wp_bind; apply wp_slotSet hC.2 hx; intro s' hs'
          exact wp_pure (vmOk_frames ok hFs ⟨hst, hS, callsSz_cons.2 ⟨⟨hC.1, hs'⟩, hCs⟩⟩)
      · -- everything else: execPure
        apply wp_bind
        refine ⟨fun out hout => ?_⟩
        have hout' := execPure_ok ins.op ins.param f.estack v.heap hp hE hH out hout
        cases out with
        | next st h' =>
          exact wp_pure ⟨hout'.2, framesSz_cons.2 ⟨⟨hout'.1, hS, by rw [hc]; exact callsSz_cons.2 ⟨hC, hCs⟩⟩, hFs⟩, ok.result, ok.exc⟩
        | throw ex st h' =>
          exact wp_raise ⟨hout'.2.2, framesSz_cons.2 ⟨⟨hout'.2.1, hS, by rw [hc]; exact callsSz_cons.2 ⟨hC, hCs⟩⟩, hFs⟩, ok.result, ok.exc⟩ hout'.1

theorem vmOk_fault {v : Vm} (ok : VmOk v) (msg : String) : VmOk (v.fault msg) := ⟨ok.heap, ok.frames, ok.result, ok.exc⟩

theorem vmOk_setIp {v : Vm} (ok : VmOk v) (ip : Nat) : VmOk (v.setIp ip) := by
  unfold Vm.setIp
  split
  · rename_i f fs hf
    split
    · rename_i c cs hc
      have hfr := ok.frames
      rw [hf] at hfr
      obtain ⟨⟨hE, hS, hCalls⟩, hFs⟩ := framesSz_cons.1 hfr
      rw [hc] at hCalls
      obtain ⟨hC, hCs⟩ := callsSz_cons.1 hCalls
      exact ⟨ok.heap, framesSz_cons.2 ⟨⟨hE, hS, callsSz_cons.2 ⟨hC, hCs⟩⟩, hFs⟩, ok.result, ok.exc⟩
    · exact ok
  · exact ok

theorem tail_size (v2 : Vm) (ins : Instr) (over : Bool) (hp : ins.param.length ≤ maxItemSize) (ok2 : VmOk v2) :
    VmOk (if over = true then v2.fault "GAS limit exceeded" else
      match exec v2 ins with
      | .error e => v2.fault e
      | .ok v' => if reach v' > maxStackSize then v'.fault "stack is too big" else v') := by
  cases over with
  | true => exact vmOk_fault ok2 _
  | false =>
    simp only [Bool.false_eq_true, if_false]
    cases he : exec v2 ins with
    | error e => exact vmOk_fault ok2 _
    | ok v' =>
      have ok3 := (exec_size v2 ins hp ok2).out v' he
      simp only
      split
      · exact vmOk_fault ok3 _
      · exact ok3

/-- **one step of `Run` keeps the size invariant** (for every price getter and gas limit; also when
the step ends in FAULT) -/
theorem step_size (cfg : Cfg) (v : Vm) (ok : VmOk v) : VmOk (step cfg v) := by
  unfold step
  split
  · exact ok
  · split
    · exact vmOk_fault ok _
    · split
      · exact vmOk_fault ok _
      · split
        · exact vmOk_fault ok _
        · rename_i _ f fs hf _ c cs hc _ ins hdec
          have hp := decode_param_size _ _ _ hdec
          have ok1 := vmOk_setIp ok ins.next
          refine tail_size _ ins _ hp ?_
          split
          · split
            · exact ⟨ok1.heap, ok1.frames, ok1.result, ok1.exc⟩
            · exact ok1
          · exact ok1

theorem run_size (cfg : Cfg) : ∀ (n : Nat) (v : Vm), VmOk v → VmOk (run cfg n v) := by
  intro n
  induction n with
  | zero => intro v h; exact h
  | succ n ih =>
    intro v h
    simp only [run]
    split
    · exact h
    · exact ih _ (step_size cfg v h)

theorem load_size (prog : Array UInt8) (args : List Item) (gasLimit : Option Nat) (heap : Heap) (ha : StackOk args) (hh : HeapOk heap) :
    VmOk (Vm.load prog args gasLimit heap) := by
  refine ⟨hh, ?_, stackOk_nil, by intro x hx; cases hx⟩
  intro f hf
  simp only [Vm.load, List.mem_singleton] at hf
  subst hf
  exact ⟨ha, slotOk_none, by intro c hc; simp only [List.mem_singleton] at hc; subst hc; exact callOk_fresh 0⟩

end NeoModel.Vm
