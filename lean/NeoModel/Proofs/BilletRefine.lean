/-
C20 (b): the state-sync module over the real billet (Model/Billet.lean) refines the pool-level model
(Model/StateSync.lean): on every reachable state `RestoreHashNode` succeeds for every pair the pool hands
it, and the store / temporary storage / pool evolve exactly as the contract of the pool-level model says.
-/
import NeoModel.Proofs.BilletStep
import NeoModel.Proofs.StateSyncRebuild
namespace NeoModel.StateSync

variable (db : Hash → Option SNode) (root : Hash)

/-- Invariant of the module over the billet: the pool-level invariant and the billet represents `done`. -/
structure BInv (s : BS) : Prop where
  inv : Inv db root s.ms
  rep : Rep db s.ms.done s.billet root []

theorem dok_of_inv (ms : MS) (hi : Inv db root ms) : DOK db root ms.done :=
  ⟨hi.donePos, hi.doneParent⟩

theorem pending_of_pool (ms : MS) (hi : Inv db root ms) (x : Hash × Path) (hx : x ∈ ms.pool) :
    Pending db root ms.done x :=
  ⟨hi.poolPos _ hx, hi.disj _ hx, hi.poolParent _ hx⟩

theorem binv_init : BInv db root (BS.init root) := by
  refine ⟨inv_init db root, ?_⟩
  simp [BS.init, MS.init, Rep]

/-- RestoreHashNode at a pending position with its node. -/
theorem restoreHashNode_ok (wf : WF db root) (rk : Hash → Nat) (hrk : Ranked db rk) (sh : Shaped db)
    (s : BS) (hd : DOK db root s.ms.done) (hrep : Rep db s.ms.done s.billet root []) (h : Hash) (q : Path)
    (n : SNode) (hp : Pending db root s.ms.done (h, q)) (hn : db h = some n) :
    ∃ b, restoreHashNode s q h n = .ok { billet := b, ms := restoreAll s.ms h n [q] } ∧
      Rep db (s.ms.done ++ [(h, q)]) b root [] := by
  have hreach := reach_of_pending db root wf hd hp
  obtain ⟨t', hput, hrep'⟩ := put_pending db root wf rk hrk sh s.ms.done hd s.ms.refs hreach s.billet
    Pos.root hrep hp.fresh n hn
  refine ⟨t', ?_, hrep'⟩
  simp only at hput
  simp only [restoreHashNode, hput, restoreAll, BRes.ok.injEq]
  have e1 : bump s.ms.refs h = fun x => if x = h then s.ms.refs h + [q].length else s.ms.refs x := by
    funext x; simp [bump]
  rw [e1]
  cases hv : n.val <;> simp

theorem restoreAll_cons (ms : MS) (h : Hash) (n : SNode) (q : Path) (r : List Path) :
    restoreAll (restoreAll ms h n [q]) h n r = restoreAll ms h n (q :: r) := by
  simp only [restoreAll, List.length_cons, List.length_nil, List.map_cons, List.map_nil]
  congr 1
  · funext x
    by_cases e : x = h
    · simp [e]; omega
    · simp [e]
  · cases n.val <;> simp
  · simp

theorem restoreAll_nil (ms : MS) (h : Hash) (n : SNode) : restoreAll ms h n [] = ms := by
  cases ms
  simp only [restoreAll, List.length_nil, List.map_nil, List.append_nil, Nat.add_zero]
  congr 1
  · funext x; by_cases e : x = h <;> simp [e]
  · cases n.val <;> rfl

/-- The loop over the pool's paths of a hash. -/
theorem restorePaths_ok (wf : WF db root) (rk : Hash → Nat) (hrk : Ranked db rk) (sh : Shaped db)
    (h : Hash) (n : SNode) (hn : db h = some n) :
    ∀ (paths : List Path) (s : BS), DOK db root s.ms.done → Rep db s.ms.done s.billet root [] → paths.Nodup →
      (∀ q ∈ paths, Pending db root s.ms.done (h, q)) →
      ∃ b, restorePaths s h n paths = ({ billet := b, ms := restoreAll s.ms h n paths }, .ok ()) ∧
        Rep db (s.ms.done ++ paths.map (fun p => (h, p))) b root [] := by
  intro paths
  induction paths with
  | nil =>
    intro s _ hrep _ _
    refine ⟨s.billet, ?_, by simpa using hrep⟩
    simp [restorePaths, restoreAll_nil]
  | cons q r ih =>
    intro s hd hrep hnd hp
    obtain ⟨b1, h1, hrep1⟩ := restoreHashNode_ok db root wf rk hrk sh s hd hrep h q n (hp q (by simp)) hn
    have hnd' := List.nodup_cons.1 hnd
    have hdone1 : (restoreAll s.ms h n [q]).done = s.ms.done ++ [(h, q)] := by simp [restoreAll]
    have hd1 : DOK db root (restoreAll s.ms h n [q]).done := by
      rw [hdone1]; exact dok_snoc db root hd (hp q (by simp))
    obtain ⟨b2, h2, hrep2⟩ := ih { billet := b1, ms := restoreAll s.ms h n [q] } hd1 (by rw [hdone1]; exact hrep1) hnd'.2
      (by
        intro q' hq'
        have hq := hp q' (by simp [hq'])
        refine ⟨hq.pos, ?_, ?_⟩
        · rw [hdone1]
          intro hin
          rcases List.mem_append.1 hin with h3 | h3
          · exact hq.fresh h3
          · simp only [List.mem_singleton, Prod.mk.injEq, true_and] at h3
            exact hnd'.1 (h3 ▸ hq')
        · rcases hq.par with h3 | ⟨y, hy, hk⟩
          · exact .inl h3
          · exact .inr ⟨y, by rw [hdone1]; exact List.mem_append.2 (.inl hy), hk⟩)
    refine ⟨b2, ?_, ?_⟩
    · simp only [restorePaths, h1]
      rw [h2, restoreAll_cons]
    · simp only [hdone1] at hrep2
      simpa [List.append_assoc] using hrep2

theorem restoreNodeB_succ (fuel : Nat) (s : BS) (h : Hash) (n : SNode) :
    restoreNodeB db (fuel + 1) s h n =
      if (pathsOf s.ms.pool h).isEmpty then (s, .ok ())
      else match restorePaths s h n (pathsOf s.ms.pool h) with
        | (s1, .ok ()) =>
          restoreKidsB db (restoreNodeB db fuel)
            { s1 with ms := { s1.ms with pool := (addAll (removeHash s1.ms.pool h)
                ((pathsOf s.ms.pool h).flatMap (fun p => childrenPaths p n))) } }
            ((pathsOf s.ms.pool h).flatMap (fun p => childrenPaths p n))
        | other => other := rfl

/-- (*Module).restoreNode over the real billet never fails on a reachable state and does what the
pool-level model does. -/
theorem restoreNodeB_refines (wf : WF db root) (rk : Hash → Nat) (hrk : Ranked db rk) (sh : Shaped db)
    (fuel : Nat) : ∀ (s : BS) (h : Hash) (n : SNode), BInv db root s → (∀ m, db h = some m → n = m) →
      ∃ b, restoreNodeB db fuel s h n = ({ billet := b, ms := restoreNode db fuel s.ms h n }, .ok ()) ∧
        BInv db root { billet := b, ms := restoreNode db fuel s.ms h n } := by
  induction fuel with
  | zero => intro s h n hb _; exact ⟨s.billet, rfl, hb⟩
  | succ f ih =>
    intro s h n hb hc
    rw [restoreNodeB_succ, restoreNode_succ]
    split
    · exact ⟨s.billet, rfl, hb⟩
    · rename_i hne
      have hn : db h = some n := by
        cases hp : pathsOf s.ms.pool h with
        | nil => simp [hp] at hne
        | cons q r =>
          have hq : (h, q) ∈ s.ms.pool := (mem_pathsOf _ _ _).1 (by rw [hp]; simp)
          obtain ⟨m, hm⟩ := wf.closed h q (hb.inv.poolPos _ hq)
          rw [hc m hm]; exact hm
      obtain ⟨b1, h1, hrep1⟩ := restorePaths_ok db root wf rk hrk sh h n hn (pathsOf s.ms.pool h) s
        (dok_of_inv db root _ hb.inv) hb.rep (nodup_pathsOf _ _ hb.inv.poolNodup)
        (fun q hq => pending_of_pool db root _ hb.inv _ ((mem_pathsOf _ _ _).1 hq))
      rw [h1]
      simp only
      have hstep := inv_restoreStep db root wf s.ms h n hb.inv hn
      -- the state after the pool update is `restoreStep`
      have hs2 : ({ billet := b1, ms := { restoreAll s.ms h n (pathsOf s.ms.pool h) with
            pool := (addAll (removeHash (restoreAll s.ms h n (pathsOf s.ms.pool h)).pool h)
              ((pathsOf s.ms.pool h).flatMap (fun p => childrenPaths p n))) } } : BS) =
          { billet := b1, ms := restoreStep s.ms h n } := rfl
      rw [hs2]
      have hb2 : BInv db root { billet := b1, ms := restoreStep s.ms h n } :=
        ⟨hstep, by simpa [restoreStep, restoreAll] using hrep1⟩
      generalize restoreStep s.ms h n = ms2 at hb2
      generalize (pathsOf s.ms.pool h).flatMap (fun p => childrenPaths p n) = kids
      clear h1 hs2 hstep hrep1
      induction kids generalizing b1 ms2 with
      | nil => exact ⟨b1, rfl, hb2⟩
      | cons k r ihk =>
        simp only [List.foldl_cons, restoreKidsB, restoreStored]
        split
        · rename_i hpos
          cases hdb : db k.1 with
          | none =>
            simp only
            exact ihk b1 ms2 hb2
          | some cn =>
            simp only
            obtain ⟨b3, h3, hb3⟩ := ih { billet := b1, ms := ms2 } k.1 cn hb2
              (fun m hm => by rw [hdb] at hm; cases hm; rfl)
            rw [h3]
            exact ihk b3 _ hb3
        · exact ihk b1 ms2 hb2

/-- pool-level reading of what peers send -/
def BItem.toItem : BItem → Item
  | .node h n => .node h n
  | _ => .garbage

def BItemOk : BItem → Prop
  | .node h n => ∀ m, db h = some m → n = m
  | _ => True

/-- AddMPTNodes over the real billet: whatever the peers send (nodes of the trie in any order and number,
foreign nodes, HashNodes, EmptyNodes, nodes with children serialised in place, undecodable bytes), the module
stays in a state that satisfies the invariant, it never panics, and the result is an error only if the batch
contains something that is not a Leaf/Branch/Extension node in canonical form. -/
theorem deliverB_inv (wf : WF db root) (rk : Hash → Nat) (hrk : Ranked db rk) (sh : Shaped db) (fuel : Nat)
    (hf : ∀ h m, db h = some m → rk h < fuel) :
    ∀ (items : List BItem) (s : BS), BInv db root s → Clean s.ms → (∀ it ∈ items, BItemOk db it) →
      BInv db root (deliverB db fuel s items).1 ∧ Clean (deliverB db fuel s items).1.ms ∧
      (deliverB db fuel s items).2 ≠ .panic ∧
      (∀ e, (deliverB db fuel s items).2 = .err e → ∃ it ∈ items, ∀ h n, it ≠ BItem.node h n) := by
  intro items
  induction items with
  | nil => intro s hb hcl _; exact ⟨hb, hcl, by simp [deliverB], by simp [deliverB]⟩
  | cons it r ih =>
    intro s hb hcl hok
    have hok' : ∀ it ∈ r, BItemOk db it := fun it h => hok it (by simp [h])
    cases it with
    | garbage => exact ⟨hb, hcl, by simp [deliverB], fun _ _ => ⟨.garbage, by simp, by simp⟩⟩
    | empty => exact ⟨hb, hcl, by simp [deliverB], fun _ _ => ⟨.empty, by simp, by simp⟩⟩
    | nonCanonical => exact ⟨hb, hcl, by simp [deliverB], fun _ _ => ⟨.nonCanonical, by simp, by simp⟩⟩
    | hashNode h => exact ⟨hb, hcl, by simp [deliverB], fun _ _ => ⟨.hashNode h, by simp, by simp⟩⟩
    | node h n =>
      have hk : ∀ m, db h = some m → n = m := hok (.node h n) (by simp)
      obtain ⟨b, h1, hb1⟩ := restoreNodeB_refines db root wf rk hrk sh fuel s h n hb hk
      have hcl1 := clean_restoreNode db root wf rk hrk fuel s.ms h n hb.inv hk hf hcl
      simp only [deliverB, h1]
      obtain ⟨g1, g2, g3, g4⟩ := ih _ hb1 hcl1 hok'
      refine ⟨g1, g2, g3, fun e he => ?_⟩
      obtain ⟨it, hit, hn⟩ := g4 e he
      exact ⟨it, by simp [hit], hn⟩

/-- On decodable Leaf/Branch/Extension nodes and undecodable bytes the module over the billet is the
pool-level model. -/
theorem deliverB_refines (wf : WF db root) (rk : Hash → Nat) (hrk : Ranked db rk) (sh : Shaped db) (fuel : Nat) :
    ∀ (items : List Item) (s : BS), BInv db root s → (∀ it ∈ items, ItemOk db it) →
      (deliverB db fuel s (items.map (fun it => match it with | .node h n => BItem.node h n | .garbage => .garbage))).1.ms
        = (deliver db fuel s.ms items).1 := by
  intro items
  induction items with
  | nil => intro s _ _; rfl
  | cons it r ih =>
    intro s hb hok
    cases it with
    | garbage => rfl
    | node h n =>
      have hk : ∀ m, db h = some m → n = m := hok (.node h n) (by simp)
      obtain ⟨b, h1, hb1⟩ := restoreNodeB_refines db root wf rk hrk sh fuel s h n hb hk
      simp only [List.map_cons, deliverB, h1, deliver]
      exact ih _ hb1 (fun it h => hok it (by simp [h]))

end NeoModel.StateSync
