/-
Helper lemmas for C18 / fixed-point decimals (pkg/encoding/fixedn): decimal digit strings.
-/
import NeoModel.Model.Codec.Fixed
import NeoModel.Proofs.CodecBase58
namespace NeoModel.Codec

/-- numeric value of a string of ASCII digits. -/
def decVal (s : Bytes) : Nat := ofDigitsBE 10 (s.map fun c => c.toNat - 48)

theorem decVal_nil : decVal [] = 0 := rfl

theorem decVal_snoc (s : Bytes) (c : UInt8) : decVal (s ++ [c]) = decVal s * 10 + (c.toNat - 48) := by
  simp [decVal, ofDigitsBE_snoc]

theorem decVal_zeros_append (z : Nat) (s : Bytes) : decVal (List.replicate z chZero ++ s) = decVal s := by
  simp only [decVal, List.map_append, List.map_replicate]
  exact ofDigitsBE_replicate_zero 10 z _

theorem decVal_append_zeros (s : Bytes) (t : Nat) : decVal (s ++ List.replicate t chZero) = decVal s * 10 ^ t := by
  induction t with
  | zero => simp
  | succ t ih =>
    rw [List.replicate_succ', ← List.append_assoc, decVal_snoc, ih, Nat.pow_succ]
    simp [chZero, Nat.mul_assoc]

theorem digitChar_toNat (d : Nat) (hd : d < 10) : (UInt8.ofNat (48 + d)).toNat = 48 + d := by
  simp [UInt8.toNat_ofNat']; omega

theorem natDec_pos (n : Nat) (hn : n ≠ 0) :
    natDec n = (toDigitsBE 10 n).map fun d => UInt8.ofNat (48 + d) := by
  simp [natDec, hn]

theorem natDec_all_digits (n : Nat) : ∀ c ∈ natDec n, isDigit c = true := by
  unfold natDec
  split
  · intro c hc; simp at hc; subst hc; decide
  · intro c hc
    obtain ⟨d, hd, rfl⟩ := List.mem_map.mp hc
    have := toDigits_lt 10 (by decide) n d hd
    simp only [isDigit, digitChar_toNat d this]
    simp; omega

theorem natDec_ne_nil (n : Nat) : natDec n ≠ [] := by
  unfold natDec
  split
  · simp
  · rename_i hn
    intro h
    have h2 : toDigitsBE 10 n = [] := by simpa using h
    have := ofDigits_toDigits 10 (by decide) n
    rw [h2] at this
    exact hn this.symm

theorem decVal_natDec (n : Nat) : decVal (natDec n) = n := by
  unfold natDec
  split
  · rename_i h; subst h; rfl
  · simp only [decVal, List.map_map]
    have : List.map ((fun c : UInt8 => c.toNat - 48) ∘ fun d => UInt8.ofNat (48 + d)) (toDigitsBE 10 n)
        = List.map id (toDigitsBE 10 n) := by
      apply List.map_congr_left
      intro d hd
      have := toDigits_lt 10 (by decide) n d hd
      simp only [Function.comp, digitChar_toNat d this, id]; omega
    rw [this, List.map_id, ofDigits_toDigits 10 (by decide)]

theorem parseNat10_digits (s : Bytes) (hne : s ≠ []) (hd : ∀ c ∈ s, isDigit c = true) :
    parseNat10 s = some (decVal s) := by
  unfold parseNat10
  have h1 : s.isEmpty = false := by cases s <;> simp_all
  have h2 : s.all isDigit = true := List.all_eq_true.mpr hd
  simp [h1, h2, decVal]

theorem toDigits_length_le (b : Nat) (hb : 2 ≤ b) (k : Nat) : ∀ n, n < b ^ k → (toDigitsBE b n).length ≤ k := by
  induction k with
  | zero => intro n hn; simp at hn; subst hn; simp [toDigitsBE_zero]
  | succ k ih =>
    intro n hn
    by_cases h0 : n = 0
    · subst h0; simp [toDigitsBE_zero]
    · rw [toDigitsBE_pos b n hb (Nat.pos_of_ne_zero h0)]
      have : n / b < b ^ k := by
        rw [Nat.div_lt_iff_lt_mul (by omega)]; rw [Nat.pow_succ] at hn; exact hn
      have := ih _ this
      simp; omega

theorem natDec_length_le (n k : Nat) (hk : 1 ≤ k) (hn : n < 10 ^ k) : (natDec n).length ≤ k := by
  unfold natDec
  split
  · simp; omega
  · simp only [List.length_map]; exact toDigits_length_le 10 (by decide) k n hn


/-! ### trimming, splitting, parsing -/

theorem trimRight0_decomp (s : Bytes) : ∃ t, s = trimRight0 s ++ List.replicate t chZero := by
  obtain ⟨h, _⟩ := lead_decomp chZero s.reverse
  refine ⟨leadCount chZero s.reverse, ?_⟩
  have := congrArg List.reverse h
  simp only [List.reverse_reverse, List.reverse_append, List.reverse_replicate] at this
  exact this

theorem isDigit_not_sign (c : UInt8) (h : isDigit c = true) : (c == chMinus) = false ∧ (c == chPlus) = false ∧ (c == chDot) = false := by
  simp only [isDigit, Bool.and_eq_true, decide_eq_true_eq] at h
  refine ⟨?_, ?_, ?_⟩ <;> (apply beq_false_of_ne; intro hc; subst hc; simp [chMinus, chPlus, chDot] at h)

theorem parseInt10_digits (s : Bytes) (hne : s ≠ []) (hd : ∀ c ∈ s, isDigit c = true) :
    parseInt10 s = some ((decVal s : Nat) : Int) := by
  cases s with
  | nil => exact absurd rfl hne
  | cons c r =>
    obtain ⟨h1, h2, _⟩ := isDigit_not_sign c (hd c (by simp))
    simp only [parseInt10, h1, h2, Bool.false_eq_true, if_false]
    rw [parseNat10_digits _ hne hd]; rfl

theorem parseInt10_neg (s : Bytes) (hne : s ≠ []) (hd : ∀ c ∈ s, isDigit c = true) :
    parseInt10 (chMinus :: s) = some (-((decVal s : Nat) : Int)) := by
  simp only [parseInt10, beq_self_eq_true, if_true]
  rw [parseNat10_digits _ hne hd]; rfl

theorem splitDot_nodot (s : Bytes) (h : ∀ c ∈ s, (c == chDot) = false) : splitDot s = (s, none) := by
  induction s with
  | nil => rfl
  | cons c r ih =>
    simp only [splitDot, h c (by simp), Bool.false_eq_true, if_false]
    rw [ih (fun x hx => h x (by simp [hx]))]

theorem splitDot_dot (s r : Bytes) (h : ∀ c ∈ s, (c == chDot) = false) :
    splitDot (s ++ chDot :: r) = (s, some r) := by
  induction s with
  | nil => simp [splitDot]
  | cons c s ih =>
    simp only [List.cons_append, splitDot, h c (by simp), Bool.false_eq_true, if_false]
    rw [ih (fun x hx => h x (by simp [hx]))]

/-- the fraction text: `p1` followed by the trimmed zeros is the full-width fraction `X`. -/
theorem frac_parse (p1 X : Bytes) (t precision : Nat) (hX : X = p1 ++ List.replicate t chZero)
    (hlen : X.length = precision) (hd : ∀ c ∈ X, isDigit c = true) (hv : decVal X ≠ 0) :
    p1.length ≤ precision ∧ parseInt10 p1 = some ((decVal p1 : Nat) : Int) ∧
      decVal p1 * 10 ^ (precision - p1.length) = decVal X := by
  have hl : p1.length + t = precision := by rw [← hlen, hX]; simp
  have hne : p1 ≠ [] := by
    intro h
    apply hv
    rw [hX, h, List.nil_append]
    have := decVal_zeros_append t []
    simpa [decVal_nil] using this
  have hd1 : ∀ c ∈ p1, isDigit c = true := fun c hc => hd c (by rw [hX]; simp [hc])
  refine ⟨by omega, parseInt10_digits p1 hne hd1, ?_⟩
  have : precision - p1.length = t := by omega
  rw [this, hX, decVal_append_zeros]

theorem wrapInt64_id (v : Int) (h : -(2:Int)^63 ≤ v ∧ v < (2:Int)^63) : wrapInt64 v = v := by
  unfold wrapInt64
  simp only []
  have h64 : (2:Nat)^64 = 18446744073709551616 := by decide
  have h63 : (2:Nat)^63 = 9223372036854775808 := by decide
  have hi63 : (2:Int)^63 = 9223372036854775808 := by decide
  have hi64 : (2:Int)^64 = 18446744073709551616 := by decide
  rw [hi63] at h
  rw [h64, h63, hi63, hi64]
  have hmod : v.natAbs % 18446744073709551616 = v.natAbs := Nat.mod_eq_of_lt (by omega)
  rw [hmod]
  simp only [Int.ofNat_eq_natCast]
  split <;> split <;> (try split) <;> omega


/-! ### the parser on the two shapes the printers produce -/

theorem decFromString_int (P0 : Bytes) (p : Nat) (z : Int) (hnd : ∀ c ∈ P0, (c == chDot) = false)
    (hz : parseInt10 P0 = some z) : decFromString P0 p = some (z * (10:Int) ^ p) := by
  unfold decFromString
  rw [splitDot_nodot P0 hnd]
  simp only [hz]

theorem decFromString_frac (P0 p1 : Bytes) (p : Nat) (z f : Int) (hnd : ∀ c ∈ P0, (c == chDot) = false)
    (hz : parseInt10 P0 = some z) (hl : p1.length ≤ p) (hf : parseInt10 p1 = some f) :
    decFromString (P0 ++ chDot :: p1) p =
      some (if P0.head? == some chMinus then z * (10:Int) ^ p - f * (10:Int) ^ (p - p1.length)
            else z * (10:Int) ^ p + f * (10:Int) ^ (p - p1.length)) := by
  unfold decFromString
  rw [splitDot_dot P0 p1 hnd]
  have : ¬ (p < p1.length) := by omega
  simp only [hz, this, if_false, hf]
  split <;> rfl

theorem digits_no_dot (s : Bytes) (hd : ∀ c ∈ s, isDigit c = true) : ∀ c ∈ s, (c == chDot) = false :=
  fun c hc => (isDigit_not_sign c (hd c hc)).2.2

theorem replicate_zero_digits (z : Nat) : ∀ c ∈ List.replicate z chZero, isDigit c = true := by
  intro c hc
  have := List.eq_of_mem_replicate hc
  subst this; decide

/-- the padded, trimmed fraction of both printers parses to the fraction value, scaled. -/
theorem frac_text (fr precision : Nat) (hfr : fr ≠ 0) (hlt : fr < 10 ^ precision) (hp : 1 ≤ precision)
    (p1 : Bytes)
    (h : ∃ t, List.replicate (precision - (natDec fr).length) chZero ++ natDec fr = p1 ++ List.replicate t chZero) :
    p1.length ≤ precision ∧ parseInt10 p1 = some ((decVal p1 : Nat) : Int) ∧
      decVal p1 * 10 ^ (precision - p1.length) = fr := by
  obtain ⟨t, ht⟩ := h
  have hlen := natDec_length_le fr precision hp hlt
  have hX : (List.replicate (precision - (natDec fr).length) chZero ++ natDec fr).length = precision := by
    simp; omega
  have hd : ∀ c ∈ List.replicate (precision - (natDec fr).length) chZero ++ natDec fr, isDigit c = true := by
    intro c hc
    rcases List.mem_append.mp hc with h | h
    · exact replicate_zero_digits _ c h
    · exact natDec_all_digits fr c h
  have hv : decVal (List.replicate (precision - (natDec fr).length) chZero ++ natDec fr) = fr := by
    rw [decVal_zeros_append, decVal_natDec]
  obtain ⟨a, b, c⟩ := frac_parse p1 _ t precision ht hX hd (by rw [hv]; exact hfr)
  exact ⟨a, b, by rw [c, hv]⟩


/-! ### Fixed8 -/

theorem fixed8_parse_print (v : Int) (hr : -(2:Int)^63 ≤ v ∧ v < (2:Int)^63) :
    fixed8FromString (fixed8String v) = some v := by
  have hpow : (100000000 : Nat) = 10 ^ 8 := by decide
  have hipow : (10:Int) ^ 8 = 100000000 := by decide
  -- the integer part text
  have hipd := natDec_all_digits (v.natAbs / 100000000)
  have hipne := natDec_ne_nil (v.natAbs / 100000000)
  have hipv := decVal_natDec (v.natAbs / 100000000)
  generalize hP : natDec (v.natAbs / 100000000) = ipS at hipd hipne hipv
  -- sign ++ integer part: no dot, parses to ± integer part, starts with '-' iff v < 0
  have hP0 : ∀ c ∈ (if v < 0 then [chMinus] else []) ++ ipS, (c == chDot) = false := by
    intro c hc
    rcases List.mem_append.mp hc with h | h
    · split at h
      · simp at h; subst h; decide
      · simp at h
    · exact digits_no_dot ipS hipd c h
  have hz : parseInt10 ((if v < 0 then [chMinus] else []) ++ ipS)
      = some (if v < 0 then -((v.natAbs / 100000000 : Nat) : Int) else ((v.natAbs / 100000000 : Nat) : Int)) := by
    split
    · simp only [List.singleton_append]; rw [parseInt10_neg ipS hipne hipd, hipv]
    · simp only [List.nil_append]; rw [parseInt10_digits ipS hipne hipd, hipv]
  have hhead : (((if v < 0 then [chMinus] else []) ++ ipS).head? == some chMinus) = decide (v < 0) := by
    split
    · rename_i h; simp [h]
    · rename_i h
      cases ipS with
      | nil => exact absurd rfl hipne
      | cons c r =>
        simp only [List.nil_append, List.head?_cons, h, decide_false]
        have := (isDigit_not_sign c (hipd c (by simp))).1
        simpa using this
  unfold fixed8FromString fixed8String
  simp only [hP]
  by_cases hfr : 0 < v.natAbs % 100000000
  · simp only [hfr, if_true]
    obtain ⟨t, ht⟩ := trimRight0_decomp (natDec (v.natAbs % 100000000))
    have hft := frac_text (v.natAbs % 100000000) 8 (by omega) (by rw [← hpow]; exact Nat.mod_lt _ (by decide)) (by decide)
      (List.replicate (8 - (natDec (v.natAbs % 100000000)).length) chZero ++ trimRight0 (natDec (v.natAbs % 100000000)))
      ⟨t, by rw [List.append_assoc, ← ht]⟩
    obtain ⟨hl, hpf, hval⟩ := hft
    have hassoc : (if v < 0 then [chMinus] else []) ++ ipS ++ [chDot] ++
        List.replicate (8 - (natDec (v.natAbs % 100000000)).length) chZero ++ trimRight0 (natDec (v.natAbs % 100000000))
        = ((if v < 0 then [chMinus] else []) ++ ipS) ++ chDot ::
          (List.replicate (8 - (natDec (v.natAbs % 100000000)).length) chZero ++ trimRight0 (natDec (v.natAbs % 100000000))) := by
      simp [List.append_assoc]
    rw [hassoc]
    generalize (List.replicate (8 - (natDec (v.natAbs % 100000000)).length) chZero ++
      trimRight0 (natDec (v.natAbs % 100000000))) = p1 at hl hpf hval
    rw [decFromString_frac _ _ 8 _ _ hP0 hz hl hpf, hhead]
    simp only [Option.map_some]
    congr 1
    have hval' : ((decVal p1 : Nat) : Int) * (10:Int) ^ (8 - p1.length) = ((v.natAbs % 100000000 : Nat) : Int) := by
      exact_mod_cast hval
    rw [hval', hipow]
    have hsplit : v.natAbs = v.natAbs / 100000000 * 100000000 + v.natAbs % 100000000 := (Nat.div_add_mod' _ _).symm
    generalize v.natAbs / 100000000 = q at hsplit ⊢
    generalize v.natAbs % 100000000 = r at hsplit ⊢
    by_cases hneg : v < 0
    · simp only [hneg, decide_true, if_true]
      rw [show ((-(q : Int)) * 100000000 - (r : Int)) = v by omega]
      exact wrapInt64_id v hr
    · simp only [hneg, decide_false, if_false, Bool.false_eq_true]
      rw [show ((q : Int) * 100000000 + (r : Int)) = v by omega]
      exact wrapInt64_id v hr
  · simp only [hfr, if_false]
    rw [decFromString_int _ 8 _ hP0 hz]
    simp only [Option.map_some]
    congr 1
    rw [hipow]
    have hsplit : v.natAbs = v.natAbs / 100000000 * 100000000 + v.natAbs % 100000000 := (Nat.div_add_mod' _ _).symm
    have hr0 : v.natAbs % 100000000 = 0 := by omega
    rw [hr0] at hsplit
    generalize v.natAbs / 100000000 = q at hsplit ⊢
    by_cases hneg : v < 0
    · simp only [hneg, if_true]
      rw [show ((-(q : Int)) * 100000000) = v by omega]
      exact wrapInt64_id v hr
    · simp only [hneg, if_false]
      rw [show ((q : Int) * 100000000) = v by omega]
      exact wrapInt64_id v hr


/-! ### decimals with any precision -/

theorem tdiv_tmod_facts (bi : Int) (M : Nat) (hM : 0 < M) :
    (M : Int) * bi.tdiv M + bi.tmod M = bi ∧ (bi.tmod M).natAbs < M ∧
    (0 ≤ bi → 0 ≤ bi.tdiv M ∧ 0 ≤ bi.tmod M) ∧ (bi < 0 → bi.tdiv M ≤ 0 ∧ bi.tmod M ≤ 0) := by
  refine ⟨Int.mul_tdiv_add_tmod bi M, ?_, ?_, ?_⟩
  · rw [Int.natAbs_tmod]; simp only [Int.natAbs_natCast]; exact Nat.mod_lt _ hM
  · intro h; exact ⟨Int.tdiv_nonneg h (by omega), Int.tmod_nonneg _ h⟩
  · intro h
    have h1 : 0 ≤ (-bi).tdiv M := Int.tdiv_nonneg (by omega) (by omega)
    have h2 : 0 ≤ (-bi).tmod M := Int.tmod_nonneg _ (by omega)
    rw [Int.neg_tdiv] at h1; rw [Int.neg_tmod] at h2
    constructor <;> omega

theorem intDec_nonneg (n : Int) (h : 0 ≤ n) : intDec n = natDec n.natAbs := by
  unfold intDec; simp [show ¬ n < 0 by omega]

theorem intDec_neg (n : Int) (h : n < 0) : intDec n = chMinus :: natDec n.natAbs := by
  unfold intDec; simp [h]

theorem dec_parse_print (bi : Int) (p : Nat) : decFromString (decToString bi p) p = some bi := by
  have hM : 0 < 10 ^ p := Nat.pow_pos (by decide)
  have hcast : ((10 ^ p : Nat) : Int) = (10:Int) ^ p := by simp
  obtain ⟨hsum, hlt, hpos, hneg⟩ := tdiv_tmod_facts bi (10 ^ p) hM
  rw [hcast] at hsum hlt hpos hneg
  unfold decToString
  simp only []
  generalize bi.tdiv ((10:Int) ^ p) = dp at hsum hpos hneg
  generalize bi.tmod ((10:Int) ^ p) = fp at hsum hlt hpos hneg
  generalize hm : (10:Int) ^ p = m at hsum
  -- the integer part text, without a possible extra sign
  have hdig := natDec_all_digits dp.natAbs
  have hne := natDec_ne_nil dp.natAbs
  have hval := decVal_natDec dp.natAbs
  by_cases hfp : fp = 0
  · -- no fraction
    simp only [hfp, if_true]
    by_cases hd : dp < 0
    · rw [intDec_neg dp hd, decFromString_int (chMinus :: natDec dp.natAbs) p (-(dp.natAbs : Int))]
      · congr 1; rw [hm]; subst hfp
        have : -(dp.natAbs : Int) = dp := by omega
        rw [this, ← hsum, Int.mul_comm]; omega
      · intro c hc
        rcases List.mem_cons.mp hc with h | h
        · subst h; decide
        · exact digits_no_dot _ hdig c h
      · rw [parseInt10_neg _ hne hdig, hval]
    · rw [intDec_nonneg dp (by omega), decFromString_int (natDec dp.natAbs) p (dp.natAbs : Int)]
      · congr 1; rw [hm]; subst hfp
        have : (dp.natAbs : Int) = dp := by omega
        rw [this, ← hsum, Int.mul_comm]; omega
      · exact digits_no_dot _ hdig
      · rw [parseInt10_digits _ hne hdig, hval]
  · -- with a fraction
    simp only [hfp, if_false]
    have hp1 : 1 ≤ p := by
      cases p with
      | zero => simp at hlt; omega
      | succ _ => omega
    have hfr : fp.natAbs ≠ 0 := by omega
    obtain ⟨t, ht⟩ := trimRight0_decomp (List.replicate (p - (natDec fp.natAbs).length) chZero ++ natDec fp.natAbs)
    obtain ⟨hl, hpf, hvalf⟩ := frac_text fp.natAbs p hfr hlt hp1 _ ⟨t, ht⟩
    generalize trimRight0 (List.replicate (p - (natDec fp.natAbs).length) chZero ++ natDec fp.natAbs) = p1
      at hl hpf hvalf
    have hvalf' : ((decVal p1 : Nat) : Int) * (10:Int) ^ (p - p1.length) = (fp.natAbs : Int) := by
      exact_mod_cast hvalf
    -- the text before the dot
    have hP0 : (if fp < 0 ∧ dp = 0 then chMinus :: intDec dp else intDec dp)
        = (if dp < 0 ∨ (fp < 0 ∧ dp = 0) then [chMinus] else []) ++ natDec dp.natAbs := by
      by_cases hd : dp < 0
      · have : ¬ (fp < 0 ∧ dp = 0) := by omega
        simp [hd, this, intDec_neg dp hd]
      · by_cases h2 : fp < 0 ∧ dp = 0
        · have h0 : dp = 0 := h2.2
          subst h0
          simp [h2.1]; rfl
        · simp [hd, h2, intDec_nonneg dp (by omega)]
    rw [hP0]
    have hnd : ∀ c ∈ (if dp < 0 ∨ (fp < 0 ∧ dp = 0) then [chMinus] else []) ++ natDec dp.natAbs, (c == chDot) = false := by
      intro c hc
      rcases List.mem_append.mp hc with h | h
      · split at h
        · simp at h; subst h; decide
        · simp at h
      · exact digits_no_dot _ hdig c h
    have hz : parseInt10 ((if dp < 0 ∨ (fp < 0 ∧ dp = 0) then [chMinus] else []) ++ natDec dp.natAbs)
        = some (if dp < 0 ∨ (fp < 0 ∧ dp = 0) then -(dp.natAbs : Int) else (dp.natAbs : Int)) := by
      split
      · simp only [List.singleton_append]; rw [parseInt10_neg _ hne hdig, hval]
      · simp only [List.nil_append]; rw [parseInt10_digits _ hne hdig, hval]
    have hhead : (((if dp < 0 ∨ (fp < 0 ∧ dp = 0) then [chMinus] else []) ++ natDec dp.natAbs).head? == some chMinus)
        = decide (dp < 0 ∨ (fp < 0 ∧ dp = 0)) := by
      split
      · rename_i h; simp [h]
      · rename_i h
        cases hnat : natDec dp.natAbs with
        | nil => exact absurd hnat hne
        | cons c r =>
          simp only [List.nil_append, List.head?_cons, h, decide_false]
          have := (isDigit_not_sign c (hdig c (by rw [hnat]; simp))).1
          simpa using this
    have hassoc : ∀ (A B : Bytes), A ++ [chDot] ++ B = A ++ chDot :: B := by intro A B; simp
    rw [hassoc, decFromString_frac _ _ p _ _ hnd hz hl hpf, hhead, hvalf', hm]
    congr 1
    by_cases hb : 0 ≤ bi
    · obtain ⟨h1, h2⟩ := hpos hb
      have hns : ¬ (dp < 0 ∨ (fp < 0 ∧ dp = 0)) := by omega
      simp only [hns, decide_false, Bool.false_eq_true, if_false]
      have e1 : (dp.natAbs : Int) = dp := by omega
      have e2 : (fp.natAbs : Int) = fp := by omega
      rw [e1, e2, ← hsum, Int.mul_comm]
    · obtain ⟨h1, h2⟩ := hneg (by omega)
      have hns : dp < 0 ∨ (fp < 0 ∧ dp = 0) := by omega
      simp only [hns, decide_true, if_true]
      have e1 : -(dp.natAbs : Int) = dp := by omega
      have e2 : (fp.natAbs : Int) = -fp := by omega
      rw [e1, e2, ← hsum, Int.mul_comm]; omega


theorem decFromString_too_long (P0 p1 : Bytes) (p : Nat) (z : Int) (hnd : ∀ c ∈ P0, (c == chDot) = false)
    (hz : parseInt10 P0 = some z) (hl : p < p1.length) : decFromString (P0 ++ chDot :: p1) p = none := by
  unfold decFromString
  rw [splitDot_dot P0 p1 hnd]
  simp only [hz, hl, if_true]

end NeoModel.Codec
