/-
Helper lemmas for C10: PutBatch — contents (`lookup_putBatch`) and invariants (`wf_putBatch`).
-/
import NeoModel.Proofs.MptBatchList
set_option linter.unusedSimpArgs false
namespace NeoModel.Mpt

theorem lookup_mergeExt (pre : Path) (n : Node) (q : Path) :
    lookup (mergeExt pre n) q = (stripPre pre q).bind (lookup n) := by
  cases n with
  | empty => simp only [mergeExt, lookup]; cases stripPre pre q <;> simp [lookup]
  | leaf v => simp only [mergeExt]; exact lookup_newSub _ _ _
  | branch cs v => simp only [mergeExt]; exact lookup_newSub _ _ _
  | ext k m =>
    simp only [mergeExt]
    rw [lookup_ext_append]

theorem lookup_stripBranch (cs : Nib → Node) (v : Option Val) (q : Path) :
    lookup (stripBranch cs v) q = lookup (.branch cs v) q := by
  cases hkc : kids cs with
  | nil =>
    cases v with
    | none =>
      simp only [stripBranch, hkc]
      cases q with
      | nil => simp [lookup]
      | cons j q => simp [lookup, kids_nil hkc j]
    | some w =>
      simp only [stripBranch, hkc]
      cases q with
      | nil => simp [lookup]
      | cons j q => simp [lookup, kids_nil hkc j]
  | cons a l =>
    cases l with
    | nil =>
      cases v with
      | none =>
        simp only [stripBranch, hkc, lookup_mergeExt]
        cases q with
        | nil => simp [stripPre, lookup]
        | cons j q =>
          by_cases hj : j = a
          · subst hj; simp [stripPre, lookup]
          · have : ¬ a = j := fun e => hj e.symm
            simp [stripPre, lookup, this, kids_single hkc j hj]
      | some w => simp [stripBranch, hkc]
    | cons b l => cases v <;> simp [stripBranch, hkc]

/-- contents of a fresh node that holds `value` at the empty path. -/
def base (value : Option Val) : Path → Option Val := fun p => if p = [] then value else none

theorem base_none : base none = fun _ => none := by funext p; simp [base]

theorem applyBatch_stripN {L : Path} {kv : Batch} (h : AllPre L kv) (q : Path) :
    (stripPre L q).bind (applyBatch (fun _ => none) (stripN L.length kv)) = applyBatch (fun _ => none) kv q := by
  cases hs : stripPre L q with
  | none => simp [applyBatch, lookup_not_pre h q hs]
  | some r =>
    have := stripPre_eq_some.mp hs
    subst this
    simp [applyBatch, lookup_stripN h]

/-- batch.go:241-269: the subtrie built from a batch holds exactly the batch (over `value` at the root). -/
theorem lookup_many (pre : Path) (kv : Batch) (value : Option Val) :
    kv ≠ [] → DistinctKeys kv → ∀ q, lookup (many pre kv value) q = (stripPre pre q).bind (applyBatch (base value) kv) := by
  fun_induction many pre kv value with
  | case1 pre value => intro h; exact absurd rfl h
  | case2 pre value =>
    intro _ _ q
    cases hs : stripPre pre q with
    | none => simp [lookup]
    | some r =>
      cases r with
      | nil => simp [lookup, applyBatch, List.lookup]
      | cons a r => simp [lookup, applyBatch, List.lookup, base]
  | case3 pre value e rest ih =>
    intro _ hd q
    rw [ih (by simp) (distinct_tail hd) q]
    cases hs : stripPre pre q with
    | none => simp
    | some r =>
      cases r with
      | nil =>
        have := lookup_nil_of_distinct hd
        simp [applyBatch, List.lookup, base] at this ⊢
        simp [this]
      | cons a r =>
        have : (a :: r == ([] : Path)) = false := by simp
        simp [applyBatch, List.lookup, base, this]
  | case4 pre value w =>
    intro _ _ q
    rw [lookup_newSub]
    cases hs : stripPre pre q with
    | none => simp
    | some r =>
      cases r with
      | nil => simp [lookup, applyBatch, List.lookup]
      | cons a r => simp [lookup, applyBatch, List.lookup, base]
  | case5 pre value e rest h1 h2 h3 kv value' ih =>
    intro _ hd q
    rw [lookup_mergeExt]
    cases hs : stripPre pre q with
    | none => simp
    | some r =>
      simp only [Option.bind_some, lookup_stripBranch]
      cases r with
      | nil =>
        simp only [lookup, slot, applyBatch, base, if_true]
        cases hl : List.lookup [] kv with
        | some ov => rfl
        | none =>
          simp only
          -- the first entry's key is not empty, so value' = value
          obtain ⟨k, x⟩ := e
          cases k with
          | nil => simp [kv, List.lookup] at hl
          | cons a t => rfl
      | cons c r' =>
        simp only [lookup]
        have hsub := lookup_sub c kv r'
        by_cases hg : sub c kv = []
        · simp only [hg, dite_true, lookup]
          rw [hg] at hsub
          simp only [List.lookup] at hsub
          have hsub' : List.lookup (c :: r') (e :: rest) = none := hsub.symm
          simp [applyBatch, hsub', base]
        · simp only [hg, dite_false]
          have hpre := lcpMany_allPre (sub c kv)
          rw [ih c hg (stripN_ne_nil hg) (distinct_stripN hpre (distinct_sub c hd)) r', base_none,
            applyBatch_stripN hpre]
          have hsub' : List.lookup (c :: r') (e :: rest) = List.lookup r' (sub c kv) := hsub.symm
          simp [applyBatch, hsub', base]


theorem applyBatch_stripN' {L : Path} {kv : Batch} (h : AllPre L kv) (f : Path → Option Val) (q : Path) :
    (stripPre L q).bind (applyBatch f (stripN L.length kv)) =
      applyBatch (fun q => (stripPre L q).bind f) kv q := by
  cases hs : stripPre L q with
  | none => simp [applyBatch, lookup_not_pre h q hs, hs]
  | some r =>
    have := stripPre_eq_some.mp hs
    subst this
    simp [applyBatch, lookup_stripN h, stripPre_append]

theorem lookup_intoEmpty (kv : Batch) (hne : kv ≠ []) (hd : DistinctKeys kv) (q : Path) :
    lookup (intoEmpty kv) q = applyBatch (fun _ => none) kv q := by
  have hpre := lcpMany_allPre kv
  unfold intoEmpty
  rw [lookup_many _ _ _ (stripN_ne_nil hne) (distinct_stripN hpre hd), base_none, applyBatch_stripN hpre]

theorem prefix_eq_of_length {a b : Path} (h : a <+: b) (hl : a.length = b.length) : a = b := by
  obtain ⟨t, ht⟩ := h
  have := congrArg List.length ht
  simp at this
  have : t = [] := by cases t with
    | nil => rfl
    | cons x t => simp at this; omega
  subst this; simpa using ht

theorem prefix_drop {a b : Path} (h : a <+: b) : b = a ++ b.drop a.length := by
  obtain ⟨t, ht⟩ := h
  subst ht; simp

/-- batch.go:106-140. -/
theorem lookup_extBatch (next : Node) (rnext : Batch → Node)
    (hr : ∀ kv, kv ≠ [] → DistinctKeys kv → ∀ q, lookup (rnext kv) q = applyBatch (lookup next) kv q)
    (k : Path) (kv : Batch) :
    kv ≠ [] → DistinctKeys kv → ∀ q, lookup (extBatch next rnext k kv) q = applyBatch (lookup (newSub k next)) kv q := by
  fun_induction extBatch next rnext k kv with
  | case1 kv => intro hne hd q; simpa [newSub] using hr kv hne hd q
  | case2 kv kh kt pref hlen =>
    intro hne hd q
    have hpk : pref = kh :: kt := prefix_eq_of_length (lcp_prefix_right _ _) hlen
    have hall : AllPre pref kv := allPre_of_prefix (lcpMany_allPre kv) (lcp_prefix_left _ _)
    rw [lookup_mergeExt]
    have hrn : lookup (rnext (stripN (kh :: kt).length kv)) = applyBatch (lookup next) (stripN (kh :: kt).length kv) := by
      funext r
      rw [← hpk]
      exact hr _ (stripN_ne_nil hne) (distinct_stripN hall hd) r
    rw [hrn, ← hpk, applyBatch_stripN' hall]
    congr 1
    funext q'
    rw [lookup_newSub]
  | case3 kv kh kt pref hlen hdrop =>
    intro _ _ _
    exfalso
    have := prefix_drop (lcp_prefix_right (lcpMany kv) (kh :: kt))
    have hl := congrArg List.length this
    rw [hdrop] at hl
    simp at hl
    exact hlen (by simpa using hl.symm)
  | case4 kv kh kt pref hlen kv' c0 rest hdrop ih =>
    intro hne hd q
    have hall : AllPre pref kv := allPre_of_prefix (lcpMany_allPre kv) (lcp_prefix_left _ _)
    have hk : kh :: kt = pref ++ c0 :: rest := by
      have := prefix_drop (lcp_prefix_right (lcpMany kv) (kh :: kt))
      rw [hdrop] at this; exact this
    have hd' : DistinctKeys kv' := distinct_stripN hall hd
    rw [lookup_mergeExt]
    have hgoal : applyBatch (lookup (newSub (kh :: kt) next)) kv q =
        (stripPre pref q).bind (applyBatch (lookup (.ext (c0 :: rest) next)) kv') := by
      rw [applyBatch_stripN' hall]
      congr 1
      funext q'
      rw [hk]
      show lookup (newSub (pref ++ c0 :: rest) next) q' = _
      rw [lookup_newSub, ← lookup_ext, lookup_ext_append]
    rw [hgoal]
    congr 1
    funext r
    rw [lookup_stripBranch]
    cases r with
    | nil =>
      simp only [lookup, slot, applyBatch, lookup_ext_nil]
      cases List.lookup [] kv' <;> rfl
    | cons c r' =>
      have hsub := lookup_sub c kv' r'
      simp only [applyBatch, lookup_ext_cons]
      simp only [lookup]
      by_cases hc : c = c0
      · subst hc
        simp only [if_true]
        by_cases hg : sub c kv' = []
        · rw [hg] at hsub
          simp only [List.lookup] at hsub
          simp [hg, ← hsub]
        · simp only [hg, if_false]
          rw [ih c hg (distinct_sub c hd') r']
          simp [applyBatch, hsub]
      · simp only [hc, if_false]
        by_cases hg : sub c kv' = []
        · rw [hg] at hsub
          simp only [List.lookup] at hsub
          simp [hg, ← hsub, lookup]
        · simp only [hg, if_false]
          rw [lookup_intoEmpty _ hg (distinct_sub c hd')]
          simp [applyBatch, hsub]

theorem lookup_leaf_base (w : Val) : lookup (.leaf w) = base (some w) := by
  funext p; cases p <;> simp [lookup, base]

/-- batch.go:54-69 on a non-empty batch with distinct keys. -/
theorem lookup_putBatchNode (t : Node) : ∀ (kv : Batch), kv ≠ [] → DistinctKeys kv →
    ∀ q, lookup (putBatchNode t kv) q = applyBatch (lookup t) kv q := by
  induction t with
  | empty =>
    intro kv hne hd q
    simp only [putBatchNode, lookup_intoEmpty kv hne hd]
    simp [applyBatch, lookup]
  | leaf w =>
    intro kv hne hd q
    simp only [putBatchNode]
    rw [lookup_many _ _ _ hne hd, lookup_leaf_base]
    simp [stripPre]
  | branch cs v ih =>
    intro kv hne hd q
    simp only [putBatchNode, lookup_stripBranch]
    cases q with
    | nil =>
      simp only [lookup, slot, applyBatch]
    | cons c r' =>
      simp only [lookup]
      have hsub := lookup_sub c kv r'
      by_cases hg : sub c kv = []
      · rw [hg] at hsub
        simp only [List.lookup] at hsub
        simp [hg, applyBatch, ← hsub, lookup]
      · simp only [hg, if_false]
        rw [ih c _ hg (distinct_sub c hd)]
        simp [applyBatch, hsub, lookup]
  | ext k n ih =>
    intro kv hne hd q
    simp only [putBatchNode]
    rw [lookup_extBatch n _ (fun kv' h1 h2 q' => ih kv' h1 h2 q') k kv hne hd q]
    congr 1
    funext q'
    rw [lookup_newSub, lookup_ext]

/-- C10.1c: a batch with distinct keys changes exactly its keys. -/
theorem lookup_putBatch (t : Node) (kv : Batch) (hd : DistinctKeys kv) (q : Path) :
    lookup (putBatch t kv) q = applyBatch (lookup t) kv q := by
  cases kv with
  | nil => simp [putBatch, applyBatch]
  | cons e kv => exact lookup_putBatchNode t (e :: kv) (by simp) hd q


theorem wf_mergeExt (pre : Path) (n : Node) (h : WF n) : WF (mergeExt pre n) := by
  cases n with
  | empty => simp [mergeExt, WF]
  | leaf v => simp only [mergeExt]; exact wf_newSub _ _ h rfl rfl
  | branch cs v => simp only [mergeExt]; exact wf_newSub _ _ h rfl rfl
  | ext k m =>
    simp only [mergeExt, WF] at h ⊢
    exact ⟨by simp [h.1], h.2.1, h.2.2.1, h.2.2.2⟩

theorem wf_stripBranch (cs : Nib → Node) (v : Option Val) (hk : ∀ i, WF (cs i)) : WF (stripBranch cs v) := by
  cases hkc : kids cs with
  | nil => cases v <;> simp [stripBranch, hkc, WF]
  | cons a l =>
    cases l with
    | nil =>
      cases v with
      | none => simp only [stripBranch, hkc]; exact wf_mergeExt _ _ (hk a)
      | some w => simp [stripBranch, hkc, WF, count, hk]
    | cons b l => cases v <;> simp [stripBranch, hkc, WF, count, hk]

theorem wf_many (pre : Path) (kv : Batch) (value : Option Val) : WF (many pre kv value) := by
  fun_induction many pre kv value with
  | case1 => simp [WF]
  | case2 => simp [WF]
  | case3 pre value e rest ih => exact ih
  | case4 pre value w => exact wf_newSub _ _ (by simp [WF]) rfl rfl
  | case5 pre value e rest h1 h2 h3 kv value' ih =>
    apply wf_mergeExt
    apply wf_stripBranch
    intro c
    by_cases hg : sub c kv = []
    · simp [hg, WF]
    · simp only [hg, dite_false]; exact ih c hg

theorem wf_intoEmpty (kv : Batch) : WF (intoEmpty kv) := wf_many _ _ _

theorem wf_extBatch (next : Node) (rnext : Batch → Node) (hn : WF next) (hne : next.isEmpty = false)
    (hnx : next.isExt = false) (hr : ∀ kv, WF (rnext kv)) (k : Path) (kv : Batch) :
    WF (extBatch next rnext k kv) := by
  fun_induction extBatch next rnext k kv with
  | case1 kv => exact hr kv
  | case2 kv kh kt pref hlen => exact wf_mergeExt _ _ (hr _)
  | case3 => simp [WF]
  | case4 kv kh kt pref hlen kv' c0 rest hdrop ih =>
    apply wf_mergeExt
    apply wf_stripBranch
    intro c
    by_cases hc : c = c0
    · subst hc
      simp only [if_true]
      by_cases hg : sub c kv' = []
      · simp only [hg, if_true]; exact wf_newSub _ _ hn hne hnx
      · simp only [hg, if_false]; exact ih c
    · simp only [hc, if_false]
      by_cases hg : sub c kv' = []
      · simp [hg, WF]
      · simp only [hg, if_false]; exact wf_intoEmpty _

theorem wf_putBatchNode (t : Node) (h : WF t) : ∀ kv, WF (putBatchNode t kv) := by
  induction t with
  | empty => intro kv; exact wf_intoEmpty kv
  | leaf w => intro kv; exact wf_many _ _ _
  | branch cs v ih =>
    intro kv
    simp only [putBatchNode]
    apply wf_stripBranch
    intro c
    by_cases hg : sub c kv = []
    · simp only [hg, if_true]; exact h.1 c
    · simp only [hg, if_false]; exact ih c (h.1 c) _
  | ext k n ih =>
    intro kv
    simp only [putBatchNode]
    exact wf_extBatch n _ h.2.2.2 h.2.1 h.2.2.1 (fun kv' => ih h.2.2.2 kv') k kv

/-- C10.2: a batch preserves the structural invariants. -/
theorem wf_putBatch (t : Node) (kv : Batch) (h : WF t) : WF (putBatch t kv) := by
  cases kv with
  | nil => exact h
  | cons e kv => exact wf_putBatchNode t h _


theorem insertKV_perm (e : KV) (l : Batch) : (insertKV e l).Perm (e :: l) := by
  induction l with
  | nil => simp [insertKV]
  | cons x xs ih =>
    simp only [insertKV]
    split
    · exact (List.Perm.cons x ih).trans (List.Perm.swap e x xs)
    · exact List.Perm.refl _

theorem mapToBatch_perm (m : List KV) : (mapToBatch m).Perm m := by
  induction m with
  | nil => simp [mapToBatch]
  | cons e m ih =>
    simp only [mapToBatch, List.foldr_cons]
    exact (insertKV_perm e _).trans (List.Perm.cons e ih)

theorem distinct_perm {a b : Batch} (h : a.Perm b) (hd : DistinctKeys b) : DistinctKeys a := by
  unfold DistinctKeys at *
  exact (List.Perm.nodup_iff (h.map _)).mpr hd

theorem lookup_none_of_not_mem {p : Path} {l : Batch} (h : p ∉ l.map (·.1)) : l.lookup p = none := by
  induction l with
  | nil => simp
  | cons x xs ih =>
    simp only [List.map_cons, List.mem_cons, not_or] at h
    have : (p == x.1) = false := by simpa using h.1
    simp [List.lookup, this, ih h.2]

theorem lookup_perm {a b : Batch} (h : a.Perm b) (hd : DistinctKeys b) (p : Path) : a.lookup p = b.lookup p := by
  induction h with
  | nil => rfl
  | cons x _ ih =>
    simp only [List.lookup]
    rw [ih (distinct_tail hd)]
  | swap x y l =>
    unfold DistinctKeys at hd
    simp only [List.map_cons, List.nodup_cons, List.mem_cons, not_or] at hd
    simp only [List.lookup]
    by_cases h1 : p = y.1
    · have : ¬ p = x.1 := by intro e; exact hd.1.1 (e.symm.trans h1)
      have h2 : (p == x.1) = false := by simpa using this
      simp [h1, h2]
      have h3 : (y.1 == x.1) = false := by simpa using (fun e => hd.1.1 e.symm)
      simp [h3]
    · have h2 : (p == y.1) = false := by simpa using h1
      simp [h2]
  | trans h1 h2 ih1 ih2 =>
    rw [ih1 (distinct_perm h2 hd), ih2 hd]

theorem distinct_mapToBatch {m : List KV} (h : DistinctKeys m) : DistinctKeys (mapToBatch m) :=
  distinct_perm (mapToBatch_perm m) h

/-- C10.1c for what `MapToMPTBatch` + `PutBatch` do to a Go map `m` (an association list with
distinct keys). -/
theorem lookup_putBatch_map (t : Node) (m : List KV) (hd : DistinctKeys m) (q : Path) :
    lookup (putBatch t (mapToBatch m)) q = applyBatch (lookup t) m q := by
  rw [lookup_putBatch t _ (distinct_mapToBatch hd)]
  simp only [applyBatch, lookup_perm (mapToBatch_perm m) hd]

end NeoModel.Mpt
