/-
Helper lemmas for C02 (NeoModel/Model/Persist.lean): change-set algebra, the node invariant `Inv`
and its preservation by every step, `recover` on a consistent database, batch-prefix lemmas.
Core Lean only.
-/
import NeoModel.Model.Persist
namespace NeoModel.Persist

/-! ### change sets -/

@[simp] theorem Db.set_same (db : Db) (k : Key) (v : Option Val) : db.set k v k = v := by simp [Db.set]
theorem Db.set_other (db : Db) {k k' : Key} (v : Option Val) (h : k' ≠ k) : db.set k v k' = db k' := by simp [Db.set, h]

theorem applyWrites_append (a b : Writes) (db : Db) : applyWrites (a ++ b) db = applyWrites b (applyWrites a db) := by
  induction a generalizing db with
  | nil => rfl
  | cons p r ih => obtain ⟨k, v⟩ := p; simp [applyWrites, ih]

theorem applyWrites_notin (w : Writes) (db : Db) (k : Key) (h : ∀ p ∈ w, p.1 ≠ k) : applyWrites w db k = db k := by
  induction w generalizing db with
  | nil => rfl
  | cons p r ih =>
    obtain ⟨k', v⟩ := p
    simp only [applyWrites]
    rw [ih]
    · apply Db.set_other; intro e; exact h (k', v) (by simp) e.symm
    · intro p hp; exact h p (by simp [hp])

/-- every write to `k` in the list carries the value `v`, and there is one: the result is `v`. -/
theorem applyWrites_const (w : Writes) (db : Db) (k : Key) (v : Option Val)
    (hall : ∀ p ∈ w, p.1 = k → p.2 = v) (hex : ∃ p ∈ w, p.1 = k) : applyWrites w db k = v := by
  induction w generalizing db with
  | nil => obtain ⟨p, hp, _⟩ := hex; simp at hp
  | cons p r ih =>
    obtain ⟨k', v'⟩ := p
    simp only [applyWrites]
    by_cases hr : ∃ q ∈ r, q.1 = k
    · exact ih _ (fun q hq => hall q (by simp [hq])) hr
    · have hk : k' = k := by
        obtain ⟨q, hq, hqk⟩ := hex
        simp at hq
        rcases hq with rfl | hq
        · exact hqk
        · exact absurd ⟨q, hq, hqk⟩ hr
      rw [applyWrites_notin]
      · subst hk; simp; exact (hall (k', v') (by simp) rfl).symm ▸ rfl
      · intro q hq e; exact hr ⟨q, hq, e⟩

/-- a write list only ever changes a key to one of the values it carries for it. -/
theorem applyWrites_cases (w : Writes) (db : Db) (k : Key) :
    applyWrites w db k = db k ∨ ∃ p ∈ w, p.1 = k ∧ applyWrites w db k = p.2 := by
  induction w generalizing db with
  | nil => left; rfl
  | cons p r ih =>
    obtain ⟨k', v⟩ := p
    simp only [applyWrites]
    rcases ih (db.set k' v) with h | ⟨q, hq, hk, hv⟩
    · by_cases e : k = k'
      · right; exact ⟨(k', v), by simp, e.symm, by rw [h, e]; simp⟩
      · left; rw [h]; exact Db.set_other _ _ e
    · right; exact ⟨q, by simp [hq], hk, hv⟩

theorem applyBatch_append (a b : Batch) (db : Db) : applyBatch (a ++ b) db = applyBatch b (applyBatch a db) := by
  induction a generalizing db with
  | nil => rfl
  | cons w r ih => simp [applyBatch, ih]

theorem applyBatch_ofWrites (w : Writes) (db : Db) : applyBatch (ofWrites w) db = applyWrites w db := by
  induction w generalizing db with
  | nil => rfl
  | cons p r ih => obtain ⟨k, v⟩ := p; simp [ofWrites, applyBatch, applyWrites, W.apply] at *; exact ih _

theorem foldBatches_append (a b : List Batch) (db : Db) : foldBatches (a ++ b) db = foldBatches b (foldBatches a db) := by
  induction a generalizing db with
  | nil => rfl
  | cons x r ih => simp [foldBatches, ih]

/-- coalescing two adjacent batches into one (the persist goroutine lagging behind) gives the same database. -/
theorem foldBatches_coalesce (a : List Batch) (x y : Batch) (b : List Batch) (db : Db) :
    foldBatches (a ++ (x ++ y) :: b) db = foldBatches (a ++ x :: y :: b) db := by
  simp [foldBatches_append, foldBatches, applyBatch_append]


/-- a property of the value under `k` survives a write list all of whose writes to `k` satisfy it. -/
theorem applyWrites_pres (P : Option Val → Prop) (w : Writes) (db : Db) (k : Key)
    (h0 : P (db k)) (hw : ∀ p ∈ w, p.1 = k → P p.2) : P (applyWrites w db k) := by
  rcases applyWrites_cases w db k with h | ⟨p, hp, hk, hv⟩
  · rw [h]; exact h0
  · rw [hv]; exact hw p hp hk

theorem mem_xferWrites {view : Db} {h : Nat} {l : List Nat} {p : Key × Option Val} (hp : p ∈ xferWrites view h l) :
    (∃ a, p.1 = Key.xlog a) ∨ (∃ a, p.1 = Key.xinfo a) := by
  induction l with
  | nil => simp [xferWrites] at hp
  | cons a r ih =>
    simp only [xferWrites, List.mem_cons] at hp
    rcases hp with rfl | rfl | hp
    · left; exact ⟨a, rfl⟩
    · right; exact ⟨a, rfl⟩
    · exact ih hp

/-- key classes a block writes. -/
inductive BlockKey (pfx : Bool) (h : Nat) : Key × Option Val → Prop where
  | exec : BlockKey pfx h (Key.exec h, some (Val.blk h))
  | tx (i) : BlockKey pfx h (Key.tx h i, some (Val.txv h))
  | stub (c) : BlockKey pfx h (Key.stub c, some (Val.stubv h))
  | stubSig (c s) : BlockKey pfx h (Key.stubSig c s, some (Val.stubv h))
  | stor (k v) : BlockKey pfx h (Key.stor pfx k, v)
  | xlog (a v) : BlockKey pfx h (Key.xlog a, v)
  | xinfo (a v) : BlockKey pfx h (Key.xinfo a, v)
  | trie (v) : BlockKey pfx h (Key.trie h, some v)
  | root (v) : BlockKey pfx h (Key.root h, some v)
  | local_ : BlockKey pfx h (Key.mptLocal, some (Val.ptr h))
  | cur : BlockKey pfx h (Key.curBlock, some (Val.ptr h))

theorem mem_blockWrites {H : Hist} {pfx : Bool} {view : Db} {it : List (Nat × Nat)} {h : Nat} {p : Key × Option Val}
    (hp : p ∈ blockWrites H pfx view it h) : BlockKey pfx h p := by
  simp only [blockWrites, List.mem_append, List.mem_map, List.mem_flatMap, List.mem_cons, List.not_mem_nil, or_false] at hp
  rcases hp with ((((rfl | ⟨i, _, rfl⟩) | ⟨q, _, rfl | rfl⟩) | ⟨q, _, rfl⟩) | hx) | rfl | rfl | rfl | rfl
  · exact .exec
  · exact .tx i
  · exact .stub _
  · exact .stubSig _ _
  · exact .stor _ _
  · obtain ⟨k, v⟩ := p
    rcases mem_xferWrites hx with ⟨a, e⟩ | ⟨a, e⟩ <;> simp at e <;> subst e
    · exact .xlog a v
    · exact .xinfo a v
  · exact .trie _
  · exact .root _
  · exact .local_
  · exact .cur

/-- header writes: records and pages. -/
inductive HdrKey (B lo hi : Nat) : Key × Option Val → Prop where
  | exec (i) (h1 : lo < i) (h2 : i ≤ hi) : HdrKey B lo hi (Key.exec i, some (Val.hdr i))
  | page (i) (h1 : lo < i) (h2 : i ≤ hi) (h3 : (i + 1) % B = 0) : HdrKey B lo hi (Key.page (i + 1 - B), some Val.pagev)

theorem HdrKey.mono {B lo hi hi' : Nat} {p} (h : HdrKey B lo hi p) (hle : hi ≤ hi') : HdrKey B lo hi' p := by
  cases h with
  | exec i h1 h2 => exact .exec i h1 (by omega)
  | page i h1 h2 h3 => exact .page i h1 (by omega) h3

theorem mem_headerWrites {B i lo : Nat} {p} (hlo : lo < i) (hp : p ∈ headerWrites B i) : HdrKey B lo i p := by
  simp only [headerWrites, List.mem_cons] at hp
  rcases hp with rfl | hp
  · exact .exec i hlo (Nat.le_refl _)
  · split at hp
    · simp at hp; subst hp; exact .page i hlo (Nat.le_refl _) (by assumption)
    · simp at hp

theorem mem_headersRange {B lo n : Nat} {p} (hp : p ∈ headersRange B lo n) : HdrKey B lo (lo + n) p := by
  induction n with
  | zero => simp [headersRange] at hp
  | succ n ih =>
    simp only [headersRange, List.mem_append] at hp
    rcases hp with hp | hp
    · exact (ih hp).mono (by omega)
    · exact mem_headerWrites (by omega) hp


/-! ### the node invariant -/

structure Inv (H : Hist) (B : Nat) (n : Node) : Prop where
  ver : n.view Key.version = some (Val.ver n.pfx)
  cb : n.view Key.curBlock = some (Val.ptr n.height)
  ch : n.view Key.curHeader = some (Val.ptr n.hdrHeight)
  le : n.height ≤ n.hdrHeight
  ex : ∀ i, i ≤ n.hdrHeight → (n.view (Key.exec i)).isSome
  st : n.view Key.stage = none
  rt : ∀ i, i ≤ n.height → n.view (Key.root i) = some (Val.rootv (H.hashOf (itemsAt H i)))
  tr : n.view (Key.trie n.height) = some (Val.snap n.items)
  it : n.items = itemsAt H n.height
  pg : ∀ q, q % B = 0 → q + B ≤ n.hdrHeight + 1 → n.view (Key.page q) = some Val.pagev
  rdy : n.mptReady = true
  ph : ∀ p, n.db Key.curBlock = some (Val.ptr p) → p ≤ n.height

theorem view_append (n : Node) (w : Writes) : Node.view { n with cache := n.cache ++ w } = applyWrites w n.view := by
  simp [Node.view, applyWrites_append]

/-- effect of a run of header writes `lo+1 … hi` on the view, for the fields of the invariant. -/
theorem hdr_effect {B : Nat} (hB : 0 < B) {lo hi : Nat} (w : Writes) (hw : ∀ p ∈ w, HdrKey B lo hi p)
    (hcov : ∀ i, lo < i → i ≤ hi → (Key.exec i, some (Val.hdr i)) ∈ w)
    (hpg : ∀ i, lo < i → i ≤ hi → (i + 1) % B = 0 → (Key.page (i + 1 - B), some Val.pagev) ∈ w)
    (v : Db) :
    (∀ k, (∀ i, k ≠ Key.exec i) → (∀ q, k ≠ Key.page q) → applyWrites w v k = v k) ∧
    (∀ i, i ≤ lo → applyWrites w v (Key.exec i) = v (Key.exec i)) ∧
    (∀ i, ((v (Key.exec i)).isSome ∨ (lo < i ∧ i ≤ hi)) → (applyWrites w v (Key.exec i)).isSome) ∧
    (∀ q, (v (Key.page q) = some Val.pagev ∨ (q % B = 0 ∧ lo + 1 < q + B ∧ q + B ≤ hi + 1)) → applyWrites w v (Key.page q) = some Val.pagev) := by
  refine ⟨?_, ?_, ?_, ?_⟩
  · intro k h1 h2
    apply applyWrites_notin
    intro p hp e
    cases hw p hp with
    | exec i _ _ => exact h1 i e.symm
    | page i _ _ _ => exact h2 _ e.symm
  · intro i hi'
    apply applyWrites_notin
    intro p hp e
    cases hw p hp with
    | exec j h1 h2 => simp at e; omega
    | page j _ _ _ => simp at e
  · intro i h
    rcases h with h | ⟨h1, h2⟩
    · apply applyWrites_pres (fun o => o.isSome = true) _ _ _ h
      intro p hp e
      cases hw p hp with
      | exec j _ _ => rfl
      | page j _ _ _ => rfl
    · rw [applyWrites_const w v (Key.exec i) (some (Val.hdr i))]
      · rfl
      · intro p hp e
        cases hw p hp with
        | exec j _ _ => simp at e; subst e; rfl
        | page j _ _ _ => simp at e
      · exact ⟨_, hcov i h1 h2, rfl⟩
  · intro q h
    rcases h with h | ⟨h0, h1, h2⟩
    · apply applyWrites_pres (fun o => o = some Val.pagev) _ _ _ h
      intro p hp e
      cases hw p hp with
      | exec j _ _ => simp at e
      | page j _ _ _ => rfl
    · apply applyWrites_const
      · intro p hp e
        cases hw p hp with
        | exec j _ _ => simp at e
        | page j _ _ _ => rfl
      · have hm : (q + B - 1 + 1) % B = 0 := by
          have : q + B - 1 + 1 = q + B := by omega
          rw [this, Nat.add_mod_right]; exact h0
        refine ⟨_, hpg (q + B - 1) (by omega) (by omega) hm, ?_⟩
        have : q + B - 1 + 1 - B = q := by omega
        simp [this]


theorem headerWrites_exec (B i : Nat) : (Key.exec i, some (Val.hdr i)) ∈ headerWrites B i := by simp [headerWrites]
theorem headerWrites_page (B i : Nat) (h : (i + 1) % B = 0) : (Key.page (i + 1 - B), some Val.pagev) ∈ headerWrites B i := by
  simp [headerWrites, h]

theorem headersRange_exec (B lo n i : Nat) (h1 : lo < i) (h2 : i ≤ lo + n) : (Key.exec i, some (Val.hdr i)) ∈ headersRange B lo n := by
  induction n with
  | zero => omega
  | succ n ih =>
    simp only [headersRange, List.mem_append]
    by_cases e : i = lo + n + 1
    · right; subst e; exact headerWrites_exec _ _
    · left; exact ih (by omega)

theorem headersRange_page (B lo n i : Nat) (h1 : lo < i) (h2 : i ≤ lo + n) (h3 : (i + 1) % B = 0) :
    (Key.page (i + 1 - B), some Val.pagev) ∈ headersRange B lo n := by
  induction n with
  | zero => omega
  | succ n ih =>
    simp only [headersRange, List.mem_append]
    by_cases e : i = lo + n + 1
    · right; subst e; exact headerWrites_page _ _ h3
    · left; exact ih (by omega)

theorem inv_flush {H B n} (h : Inv H B n) : Inv H B { n with db := applyWrites n.cache n.db, cache := [] } := by
  have hv : Node.view { n with db := applyWrites n.cache n.db, cache := [] } = n.view := by simp [Node.view, applyWrites]
  refine ⟨by rw [hv]; exact h.ver, by rw [hv]; exact h.cb, by rw [hv]; exact h.ch, h.le, by rw [hv]; exact h.ex, by rw [hv]; exact h.st,
    by rw [hv]; exact h.rt, by rw [hv]; exact h.tr, h.it, by rw [hv]; exact h.pg, h.rdy, ?_⟩
  intro p hp
  have : n.view Key.curBlock = some (Val.ptr p) := hp
  rw [h.cb] at this
  simp at this
  exact Nat.le_of_eq this.symm

theorem inv_headers {H B n} (hB : 0 < B) (h : Inv H B n) (upTo : Nat) (hgt : n.hdrHeight < upTo) :
    Inv H B { n with cache := n.cache ++ (headersRange B n.hdrHeight (upTo - n.hdrHeight) ++ [(Key.curHeader, some (Val.ptr upTo))]), hdrHeight := upTo } := by
  have hup : n.hdrHeight + (upTo - n.hdrHeight) = upTo := by omega
  have hv : Node.view { n with cache := n.cache ++ (headersRange B n.hdrHeight (upTo - n.hdrHeight) ++ [(Key.curHeader, some (Val.ptr upTo))]), hdrHeight := upTo }
      = (applyWrites (headersRange B n.hdrHeight (upTo - n.hdrHeight)) n.view).set Key.curHeader (some (Val.ptr upTo)) := by
    simp [Node.view, applyWrites_append, applyWrites]
  obtain ⟨e1, e2, e3, e4⟩ := hdr_effect hB (lo := n.hdrHeight) (hi := upTo) (headersRange B n.hdrHeight (upTo - n.hdrHeight))
    (fun p hp => by have := mem_headersRange hp; rwa [hup] at this)
    (fun i h1 h2 => headersRange_exec _ _ _ _ h1 (by omega))
    (fun i h1 h2 h3 => headersRange_page _ _ _ _ h1 (by omega) h3) n.view
  refine ⟨?_, ?_, ?_, ?_, ?_, ?_, ?_, ?_, ?_, ?_, ?_, ?_⟩
  · rw [hv, Db.set_other _ _ (by simp), e1 _ (by simp) (by simp)]; exact h.ver
  · rw [hv, Db.set_other _ _ (by simp), e1 _ (by simp) (by simp)]; exact h.cb
  · rw [hv]; simp
  · show n.height ≤ upTo; have := h.le; omega
  · intro i hi
    rw [hv, Db.set_other _ _ (by simp)]
    apply e3
    by_cases c : i ≤ n.hdrHeight
    · left; exact h.ex i c
    · right; exact ⟨by omega, hi⟩
  · rw [hv, Db.set_other _ _ (by simp), e1 _ (by simp) (by simp)]; exact h.st
  · intro i hi; rw [hv, Db.set_other _ _ (by simp), e1 _ (by simp) (by simp)]; exact h.rt i hi
  · rw [hv, Db.set_other _ _ (by simp), e1 _ (by simp) (by simp)]; exact h.tr
  · exact h.it
  · intro q hq hle
    rw [hv, Db.set_other _ _ (by simp)]
    apply e4
    by_cases c : q + B ≤ n.hdrHeight + 1
    · left; exact h.pg q hq c
    · right; exact ⟨hq, by omega, hle⟩
  · exact h.rdy
  · exact h.ph

theorem block_effect (H : Hist) (pfx : Bool) (view : Db) (it : List (Nat × Nat)) (h : Nat) (v : Db) :
    let v' := applyWrites (blockWrites H pfx view it h) v
    v' Key.curBlock = some (Val.ptr h) ∧ v' (Key.root h) = some (Val.rootv (H.hashOf it)) ∧ v' (Key.trie h) = some (Val.snap it) ∧
    v' Key.version = v Key.version ∧ v' Key.curHeader = v Key.curHeader ∧ v' Key.stage = v Key.stage ∧
    (∀ q, v' (Key.page q) = v (Key.page q)) ∧ (∀ i, i ≠ h → v' (Key.root i) = v (Key.root i)) ∧
    (∀ i, (v (Key.exec i)).isSome → (v' (Key.exec i)).isSome) := by
  intro v'
  have hk : ∀ p ∈ blockWrites H pfx view it h, BlockKey pfx h p := fun p hp => mem_blockWrites hp
  have notin : ∀ k, (∀ p, BlockKey pfx h p → p.1 ≠ k) → v' k = v k := fun k hk' => applyWrites_notin _ _ _ (fun p hp => hk' p (hk p hp))
  obtain ⟨front, hf⟩ : ∃ front, blockWrites H pfx view it h = front ++ [(Key.trie h, some (Val.snap it)), (Key.root h, some (Val.rootv (H.hashOf it))),
      (Key.mptLocal, some (Val.ptr h)), (Key.curBlock, some (Val.ptr h))] := ⟨_, rfl⟩
  refine ⟨?_, ?_, ?_, ?_, ?_, ?_, ?_, ?_, ?_⟩
  · show applyWrites _ v _ = _; rw [hf, applyWrites_append]; simp [applyWrites, Db.set]
  · show applyWrites _ v _ = _; rw [hf, applyWrites_append]; simp [applyWrites, Db.set]
  · show applyWrites _ v _ = _; rw [hf, applyWrites_append]; simp [applyWrites, Db.set]
  · apply notin; intro p hp; cases hp <;> simp
  · apply notin; intro p hp; cases hp <;> simp
  · apply notin; intro p hp; cases hp <;> simp
  · intro q; apply notin; intro p hp; cases hp <;> simp
  · intro i hi; apply notin; intro p hp; cases hp <;> simp; exact fun e => hi e.symm
  · intro i hi
    apply applyWrites_pres (fun o => o.isSome = true) _ _ _ hi
    intro p hp e
    cases hk p hp <;> simp at e ⊢

theorem itemsAt_succ (H : Hist) (h : Nat) : itemsAt H (h + 1) = applyEff (H.eff (h + 1)) (itemsAt H h) := rfl

theorem view_ext (n n' : Node) (w : Writes) (hdb : n'.db = n.db) (hc : n'.cache = n.cache ++ w) : n'.view = applyWrites w n.view := by
  simp [Node.view, hdb, hc, applyWrites_append]

theorem inv_block {H B n} (hB : 0 < B) (h : Inv H B n) :
    Inv H B (step H B n .block).1 := by
  generalize hhw : (if n.height + 1 = n.hdrHeight + 1 then headerWrites B (n.height + 1) ++ [(Key.curHeader, some (Val.ptr (n.height + 1)))] else ([] : Writes)) = hw
  have hv : (step H B n .block).1.view
      = applyWrites (blockWrites H n.pfx (applyWrites hw n.view) (applyEff (H.eff (n.height + 1)) n.items) (n.height + 1)) (applyWrites hw n.view) := by
    rw [view_ext n (step H B n .block).1 (hw ++ blockWrites H n.pfx (applyWrites hw n.view) (applyEff (H.eff (n.height + 1)) n.items) (n.height + 1)) rfl (by subst hhw; rfl)]
    rw [applyWrites_append]
  have hh : (step H B n .block).1.height = n.height + 1 := rfl
  have hhd : (step H B n .block).1.hdrHeight = max n.hdrHeight (n.height + 1) := rfl
  have hit : (step H B n .block).1.items = applyEff (H.eff (n.height + 1)) n.items := rfl
  have hpf : (step H B n .block).1.pfx = n.pfx := rfl
  have hrd : (step H B n .block).1.mptReady = n.mptReady := rfl
  -- the view after the optional header part
  have hv1 : (applyWrites hw n.view) Key.version = n.view Key.version ∧ (applyWrites hw n.view) Key.stage = n.view Key.stage ∧
      (applyWrites hw n.view) Key.curHeader = some (Val.ptr (max n.hdrHeight (n.height + 1))) ∧
      (∀ i, i ≤ max n.hdrHeight (n.height + 1) → ((applyWrites hw n.view) (Key.exec i)).isSome) ∧
      (∀ i, (applyWrites hw n.view) (Key.root i) = n.view (Key.root i)) ∧
      (∀ q, q % B = 0 → q + B ≤ max n.hdrHeight (n.height + 1) + 1 → (applyWrites hw n.view) (Key.page q) = some Val.pagev) := by
    by_cases c : n.height + 1 = n.hdrHeight + 1
    · have hc : n.height = n.hdrHeight := by omega
      rw [if_pos c] at hhw
      subst hhw
      have hmax : max n.hdrHeight (n.height + 1) = n.hdrHeight + 1 := by omega
      rw [hmax, hc]
      obtain ⟨e1, e2, e3, e4⟩ := hdr_effect hB (lo := n.hdrHeight) (hi := n.hdrHeight + 1) (headerWrites B (n.hdrHeight + 1))
        (fun p hp => mem_headerWrites (by omega) hp)
        (fun i h1 h2 => by have : i = n.hdrHeight + 1 := by omega
                           subst this; exact headerWrites_exec _ _)
        (fun i h1 h2 h3 => by have : i = n.hdrHeight + 1 := by omega
                              subst this; exact headerWrites_page _ _ h3) n.view
      simp only [applyWrites_append, applyWrites]
      refine ⟨?_, ?_, ?_, ?_, ?_, ?_⟩
      · rw [Db.set_other _ _ (by simp), e1 _ (by simp) (by simp)]
      · rw [Db.set_other _ _ (by simp), e1 _ (by simp) (by simp)]
      · simp
      · intro i hi
        rw [Db.set_other _ _ (by simp)]
        apply e3
        by_cases c' : i ≤ n.hdrHeight
        · left; exact h.ex i c'
        · right; omega
      · intro i; rw [Db.set_other _ _ (by simp), e1 _ (by simp) (by simp)]
      · intro q hq hle
        rw [Db.set_other _ _ (by simp)]
        apply e4
        by_cases c' : q + B ≤ n.hdrHeight + 1
        · left; exact h.pg q hq c'
        · right; exact ⟨hq, by omega, hle⟩
    · rw [if_neg c] at hhw
      subst hhw
      have hle := h.le
      have hmax : max n.hdrHeight (n.height + 1) = n.hdrHeight := by omega
      rw [hmax]
      simp only [applyWrites]
      exact ⟨trivial, trivial, h.ch, h.ex, fun _ => trivial, h.pg⟩
  obtain ⟨a1, a2, a3, a4, a5, a6⟩ := hv1
  obtain ⟨b1, b2, b3, b4, b5, b6, b7, b8, b9⟩ := block_effect H n.pfx (applyWrites hw n.view) (applyEff (H.eff (n.height + 1)) n.items) (n.height + 1) (applyWrites hw n.view)
  refine ⟨?_, ?_, ?_, ?_, ?_, ?_, ?_, ?_, ?_, ?_, ?_, ?_⟩
  · rw [hv, b4, a1, hpf]; exact h.ver
  · rw [hv, hh]; exact b1
  · rw [hv, b5, hhd]; exact a3
  · rw [hh, hhd]; omega
  · intro i hi; rw [hv]; rw [hhd] at hi; exact b9 i (a4 i hi)
  · rw [hv, b6, a2]; exact h.st
  · intro i hi
    rw [hv]
    rw [hh] at hi
    by_cases c : i = n.height + 1
    · subst c; rw [b2, itemsAt_succ, h.it]
    · rw [b8 i c, a5]; exact h.rt i (by omega)
  · rw [hv, hh, hit]; exact b3
  · rw [hit, hh, itemsAt_succ, h.it]
  · intro q hq hle; rw [hv, b7]; rw [hhd] at hle; exact a6 q hq hle
  · rw [hrd]; exact h.rdy
  · intro p hp; rw [hh]; exact Nat.le_succ_of_le (h.ph p hp)


theorem firstMissing_none (db : Db) (lo n : Nat) (h : ∀ i, lo ≤ i → i < lo + n → (db (Key.exec i)).isSome) : firstMissing db lo n = none := by
  induction n with
  | zero => rfl
  | succ n ih =>
    simp only [firstMissing]
    rw [ih (fun i h1 h2 => h i h1 (by omega))]
    simp [h (lo + n) (by omega) (by omega)]

theorem initHeaders_of_inv {B : Nat} (db : Db) (hh : Nat)
    (ch : db Key.curHeader = some (Val.ptr hh))
    (ex : ∀ i, i ≤ hh → (db (Key.exec i)).isSome)
    (pg : ∀ q, q % B = 0 → q + B ≤ hh + 1 → db (Key.page q) = some Val.pagev) :
    initHeaders B db = .ok hh := by
  simp only [initHeaders, ch]
  have hle : (hh + 1) / B * B ≤ hh + 1 := Nat.div_mul_le_self _ _
  have hpage : ¬ ((hh + 1) / B * B ≥ B ∧ (db (Key.page ((hh + 1) / B * B - B))).isNone = true) := by
    intro ⟨h1, h2⟩
    have hm : ((hh + 1) / B * B - B) % B = 0 := by
      have : (hh + 1) / B * B - B = ((hh + 1) / B - 1) * B := by rw [Nat.sub_mul]; simp
      rw [this]; exact Nat.mul_mod_left _ _
    have := pg _ hm (by omega)
    simp [this] at h2
  rw [if_neg hpage]
  rw [firstMissing_none db _ _ (fun i h1 h2 => ex i (by omega))]

theorem recover_of_inv {H : Hist} {B S : Nat} {n : Node} (h : Inv H B n) (hc : n.cache = []) :
    recover H B S n.db = .ok n := by
  have hv : n.view = n.db := by simp [Node.view, hc, applyWrites]
  have hver := h.ver; have hcb := h.cb; have hch := h.ch; have hst := h.st
  have hrt := h.rt n.height (Nat.le_refl _); have htr := h.tr
  rw [hv] at hver hcb hch hst hrt htr
  have hex := h.ex; have hpg := h.pg
  rw [hv] at hex hpg
  simp only [recover, hver, initHeaders_of_inv n.db n.hdrHeight hch hex hpg, hst, hcb, hrt, htr]
  obtain ⟨db, cache, height, hdrHeight, items, pfx, mptReady⟩ := n
  simp at hc
  have := h.rdy
  simp at this
  simp [hc, this]


theorem block_exec (H : Hist) (pfx : Bool) (view : Db) (it : List (Nat × Nat)) (h : Nat) (v : Db) :
    applyWrites (blockWrites H pfx view it h) v (Key.exec h) = some (Val.blk h) := by
  apply applyWrites_const
  · intro p hp e
    cases mem_blockWrites hp <;> simp at e ⊢
  · exact ⟨(Key.exec h, some (Val.blk h)), by simp [blockWrites], rfl⟩

theorem inv_fresh (H : Hist) {B : Nat} (hB : 1 < B) : Inv H B (fresh H) := by
  have hv : (fresh H).view = applyWrites (blockWrites H false (applyWrites [(Key.version, some (Val.ver false)), (Key.curHeader, some (Val.ptr 0))] Db.empty) (itemsAt H 0) 0)
      (applyWrites [(Key.version, some (Val.ver false)), (Key.curHeader, some (Val.ptr 0))] Db.empty) := by
    show applyWrites ([(Key.version, some (Val.ver false)), (Key.curHeader, some (Val.ptr 0))] ++ _) Db.empty = _
    rw [applyWrites_append]
  obtain ⟨b1, b2, b3, b4, b5, b6, b7, b8, b9⟩ := block_effect H false (applyWrites [(Key.version, some (Val.ver false)), (Key.curHeader, some (Val.ptr 0))] Db.empty) (itemsAt H 0) 0
    (applyWrites [(Key.version, some (Val.ver false)), (Key.curHeader, some (Val.ptr 0))] Db.empty)
  refine ⟨?_, ?_, ?_, ?_, ?_, ?_, ?_, ?_, ?_, ?_, ?_, ?_⟩
  · rw [hv, b4]; simp [applyWrites, Db.set, fresh]
  · rw [hv]; exact b1
  · rw [hv, b5]; simp [applyWrites, Db.set, fresh]
  · exact Nat.le_refl _
  · intro i hi
    have : i = 0 := by simp [fresh] at hi; exact hi
    subst this
    rw [hv, block_exec]; rfl
  · rw [hv, b6]; simp [applyWrites, Db.set, Db.empty]
  · intro i hi
    have : i = 0 := by simp [fresh] at hi; exact hi
    subst this
    rw [hv]; exact b2
  · rw [hv]; exact b3
  · rfl
  · intro q _ hle
    simp [fresh] at hle
    omega
  · rfl
  · intro p hp; simp [fresh, Db.empty] at hp

theorem applyWrites_congr (w : Writes) (db db' : Db) (k : Key) (h : db k = db' k) : applyWrites w db k = applyWrites w db' k := by
  induction w generalizing db db' with
  | nil => exact h
  | cons p r ih =>
    obtain ⟨k', v⟩ := p
    simp only [applyWrites]
    apply ih
    simp only [Db.set]
    split <;> simp [h]

/-- a GC commit below the write cache leaves every fact of the invariant alone. -/
theorem inv_gc {H B n} (h : Inv H B n) (tgt : Nat) (g : Nat → Option Val → Option Val) (hlt : tgt < n.height) :
    Inv H B { n with db := gcSel tgt g n.db } := by
  have hv : ∀ k, (∀ i, k = Key.trie i → tgt < i) → (∀ a, k ≠ Key.xlog a) →
      Node.view { n with db := gcSel tgt g n.db } k = n.view k := by
    intro k h1 h2
    apply applyWrites_congr
    cases k <;> simp [gcSel] at h1 h2 ⊢
    · intro hle; have := h1; omega
  refine ⟨?_, ?_, ?_, h.le, ?_, ?_, ?_, ?_, h.it, ?_, h.rdy, ?_⟩
  · rw [hv _ (by simp) (by simp)]; exact h.ver
  · rw [hv _ (by simp) (by simp)]; exact h.cb
  · rw [hv _ (by simp) (by simp)]; exact h.ch
  · intro i hi; rw [hv _ (by simp) (by simp)]; exact h.ex i hi
  · rw [hv _ (by simp) (by simp)]; exact h.st
  · intro i hi; rw [hv _ (by simp) (by simp)]; exact h.rt i hi
  · rw [hv _ (by intro i e; simp at e; omega) (by simp)]; exact h.tr
  · intro q hq hle; rw [hv _ (by simp) (by simp)]; exact h.pg q hq hle
  · intro p hp; exact h.ph p (by simpa [gcSel] using hp)

theorem inv_step {H : Hist} {B : Nat} (hB : 1 < B) {n : Node} (h : Inv H B n) (o : Op) : Inv H B (step H B n o).1 := by
  cases o with
  | headers upTo =>
    simp only [step]
    split
    · exact h
    · exact inv_headers (by omega) h upTo (by omega)
  | block => exact inv_block (by omega) h
  | flush =>
    simp only [step]
    split
    · exact h
    · exact inv_flush h
  | gc tgt g =>
    simp only [step]
    split
    · rename_i ph hph
      split
      · exact inv_gc h tgt g (by have := h.ph ph hph; omega)
      · exact h
    · exact h

theorem inv_runFrom {H : Hist} {B : Nat} (hB : 1 < B) {n : Node} (h : Inv H B n) (ops : List Op) : Inv H B (runFrom H B n ops).1 := by
  induction ops generalizing n with
  | nil => exact h
  | cons o r ih => simp only [runFrom]; exact ih (inv_step hB h o)

theorem runFrom_append (H : Hist) (B : Nat) (n : Node) (a b : List Op) :
    runFrom H B n (a ++ b) = ((runFrom H B (runFrom H B n a).1 b).1, (runFrom H B n a).2 ++ (runFrom H B (runFrom H B n a).1 b).2) := by
  induction a generalizing n with
  | nil => simp [runFrom]
  | cons o r ih => simp [runFrom, ih, List.append_assoc]

/-- the backend is exactly the fold of the batches issued. -/
theorem db_fold (H : Hist) (B : Nat) (n : Node) (ops : List Op) :
    (runFrom H B n ops).1.db = foldBatches (runFrom H B n ops).2 n.db := by
  induction ops generalizing n with
  | nil => rfl
  | cons o r ih =>
    simp only [runFrom]
    rw [ih]
    cases o with
    | headers upTo => simp only [step]; split <;> rfl
    | block => rfl
    | flush =>
      simp only [step]
      split
      · rfl
      · simp [foldBatches, applyBatch_ofWrites]
    | gc tgt g =>
      simp only [step]
      split
      · split
        · simp [foldBatches, applyBatch, W.apply]
        · rfl
      · rfl

/-- heights only grow. -/
theorem height_mono (H : Hist) (B : Nat) (n : Node) (ops : List Op) : n.height ≤ (runFrom H B n ops).1.height := by
  induction ops generalizing n with
  | nil => exact Nat.le_refl _
  | cons o r ih =>
    simp only [runFrom]
    refine Nat.le_trans ?_ (ih _)
    cases o with
    | headers upTo => simp only [step]; split <;> exact Nat.le_refl _
    | block => exact Nat.le_succ _
    | flush => simp only [step]; split <;> exact Nat.le_refl _
    | gc tgt g => simp only [step]; split <;> (try split) <;> exact Nat.le_refl _

/-- every prefix of the batch list is the backend of the node right after one of its flushes
(or its initial backend). -/
theorem prefix_is_flush_point (H : Hist) (B : Nat) (n : Node) (ops : List Op) (k : Nat) (hk : k ≤ (runFrom H B n ops).2.length) :
    (k = 0 ∧ foldBatches ((runFrom H B n ops).2.take k) n.db = n.db) ∨
    ∃ ops₁ ops₂, ops = ops₁ ++ ops₂ ∧
      foldBatches ((runFrom H B n ops).2.take k) n.db = (runFrom H B n ops₁).1.db := by
  induction ops generalizing n k with
  | nil =>
    left
    simp [runFrom] at hk
    subst hk
    exact ⟨rfl, rfl⟩
  | cons o r ih =>
    by_cases hk0 : k = 0
    · left; subst hk0; exact ⟨rfl, rfl⟩
    · right
      have hemit : (step H B n o).2 = none ∧ (step H B n o).1.db = n.db ∨
          ∃ b, (step H B n o).2 = some b ∧ (step H B n o).1.db = applyBatch b n.db := by
        cases o with
        | headers upTo => left; simp only [step]; split <;> exact ⟨rfl, rfl⟩
        | block => left; exact ⟨rfl, rfl⟩
        | flush =>
          simp only [step]
          split
          · left; exact ⟨rfl, rfl⟩
          · right; exact ⟨_, rfl, (applyBatch_ofWrites _ _).symm⟩
        | gc tgt g =>
          simp only [step]
          split
          · split
            · right; exact ⟨_, rfl, rfl⟩
            · left; exact ⟨rfl, rfl⟩
          · left; exact ⟨rfl, rfl⟩
      simp only [runFrom] at hk ⊢
      rcases hemit with ⟨he, hdb⟩ | ⟨b, he, hdb⟩
      · rw [he] at hk ⊢
        simp only [Option.toList, List.nil_append] at hk ⊢
        rcases ih (step H B n o).1 k hk with ⟨h0, _⟩ | ⟨o1, o2, e, hf⟩
        · exact absurd h0 hk0
        · refine ⟨o :: o1, o2, by simp [e], ?_⟩
          rw [hdb] at hf; simpa [runFrom] using hf
      · rw [he] at hk ⊢
        simp only [Option.toList, List.singleton_append, List.length_cons] at hk ⊢
        obtain ⟨k', rfl⟩ : ∃ k', k = k' + 1 := ⟨k - 1, by omega⟩
        simp only [List.take_succ_cons, foldBatches]
        rcases ih (step H B n o).1 k' (by omega) with ⟨h0, hf⟩ | ⟨o1, o2, e, hf⟩
        · subst h0
          refine ⟨[o], r, rfl, ?_⟩
          simp [runFrom, foldBatches, hdb]
        · refine ⟨o :: o1, o2, by simp [e], ?_⟩
          rw [hdb] at hf; simpa [runFrom] using hf


/-- what is on disk alone is a consistent node (or nothing at all). -/
def PInv (H : Hist) (B : Nat) (n : Node) : Prop :=
  n.db = Db.empty ∨ ∃ m : Node, m.db = n.db ∧ m.cache = [] ∧ Inv H B m ∧ m.height ≤ n.height

theorem pinv_step {H : Hist} {B : Nat} {n : Node} (hi : Inv H B n) (hp : PInv H B n) (o : Op) : PInv H B (step H B n o).1 := by
  cases o with
  | headers upTo =>
    simp only [step]; split
    · exact hp
    · rcases hp with hp | ⟨m, h1, h2, h3, h4⟩
      · left; exact hp
      · right; exact ⟨m, h1, h2, h3, h4⟩
  | block =>
    rcases hp with hp | ⟨m, h1, h2, h3, h4⟩
    · left; exact hp
    · right; exact ⟨m, h1, h2, h3, Nat.le_succ_of_le h4⟩
  | flush =>
    simp only [step]; split
    · exact hp
    · right; exact ⟨_, rfl, rfl, inv_flush hi, Nat.le_refl _⟩
  | gc tgt g =>
    simp only [step]
    split
    · rename_i ph hph
      split
      · rename_i hlt
        rcases hp with hp | ⟨m, h1, h2, h3, h4⟩
        · rw [hp] at hph; simp [Db.empty] at hph
        · right
          have hmv : m.view = m.db := by simp [Node.view, h2, applyWrites]
          have hmh : m.height = ph := by
            have := h3.cb; rw [hmv, h1, hph] at this; simp at this; exact this.symm
          refine ⟨{ m with db := gcSel tgt g m.db }, by simp [h1], h2, inv_gc h3 tgt g (by omega), h4⟩
      · exact hp
    · exact hp

theorem pinv_runFrom {H : Hist} {B : Nat} (hB : 1 < B) {n : Node} (hi : Inv H B n) (hp : PInv H B n) (ops : List Op) :
    PInv H B (runFrom H B n ops).1 := by
  induction ops generalizing n with
  | nil => exact hp
  | cons o r ih => simp only [runFrom]; exact ih (inv_step hB hi o) (pinv_step hi hp o)

theorem recover_empty (H : Hist) (B S : Nat) : recover H B S Db.empty = .ok (fresh H) := by simp [recover, Db.empty]


def Op.isGc : Op → Bool
  | .gc _ _ => true
  | _ => false

/-- without GC steps every batch is a flush: each prefix of the batch list is the backend of the node
right after one of its flushes, when its write cache is empty. -/
theorem prefix_is_flush_point_nogc (H : Hist) (B : Nat) (n : Node) (ops : List Op) (hno : ∀ o ∈ ops, o.isGc = false)
    (k : Nat) (hk : k ≤ (runFrom H B n ops).2.length) (hk0 : 0 < k) :
    ∃ ops₁ ops₂, ops = ops₁ ++ ops₂ ∧ (runFrom H B n ops₁).1.cache = [] ∧
      foldBatches ((runFrom H B n ops).2.take k) n.db = (runFrom H B n ops₁).1.db := by
  induction ops generalizing n k with
  | nil => simp [runFrom] at hk; omega
  | cons o r ih =>
    have hemit : (step H B n o).2 = none ∧ (step H B n o).1.db = n.db ∨
        ∃ b, (step H B n o).2 = some b ∧ (step H B n o).1.cache = [] ∧ (step H B n o).1.db = applyBatch b n.db := by
      cases o with
      | headers upTo => left; simp only [step]; split <;> exact ⟨rfl, rfl⟩
      | block => left; exact ⟨rfl, rfl⟩
      | flush =>
        simp only [step]
        split
        · left; exact ⟨rfl, rfl⟩
        · right; exact ⟨_, rfl, rfl, (applyBatch_ofWrites _ _).symm⟩
      | gc tgt g => have := hno (.gc tgt g) (by simp); simp [Op.isGc] at this
    have hno' : ∀ o ∈ r, o.isGc = false := fun o ho => hno o (by simp [ho])
    simp only [runFrom] at hk ⊢
    rcases hemit with ⟨he, hdb⟩ | ⟨b, he, hc, hdb⟩
    · rw [he] at hk ⊢
      simp only [Option.toList, List.nil_append] at hk ⊢
      obtain ⟨o1, o2, e, hc, hf⟩ := ih (step H B n o).1 hno' k hk hk0
      refine ⟨o :: o1, o2, by simp [e], ?_, ?_⟩
      · simpa [runFrom] using hc
      · rw [hdb] at hf; simpa [runFrom] using hf
    · rw [he] at hk ⊢
      simp only [Option.toList, List.singleton_append, List.length_cons] at hk ⊢
      obtain ⟨k', rfl⟩ : ∃ k', k = k' + 1 := ⟨k - 1, by omega⟩
      simp only [List.take_succ_cons, foldBatches]
      by_cases hk' : k' = 0
      · subst hk'
        refine ⟨[o], r, rfl, ?_, ?_⟩
        · simpa [runFrom] using hc
        · simp [runFrom, foldBatches, hdb]
      · obtain ⟨o1, o2, e, hc', hf⟩ := ih (step H B n o).1 hno' k' (by omega) (by omega)
        refine ⟨o :: o1, o2, by simp [e], ?_, ?_⟩
        · simpa [runFrom] using hc'
        · rw [hdb] at hf; simpa [runFrom] using hf

/-- **crash_prefix_exact**: without GC steps, the node recovered from the first k ≥ 1 batches IS the
uninterrupted node as it was right after the flush that issued batch k — every key of its database
(blocks, transactions, conflict records, transfer logs, …) and every in-memory field. -/
theorem crash_prefix_exact_aux (H : Hist) {B : Nat} (S : Nat) (hB : 1 < B) (ops : List Op) (hno : ∀ o ∈ ops, o.isGc = false)
    (k : Nat) (hk : k ≤ (run H B ops).2.length) (hk0 : 0 < k) :
    ∃ ops₁ ops₂, ops = ops₁ ++ ops₂ ∧
      recover H B S (foldBatches ((run H B ops).2.take k) Db.empty) = .ok (run H B ops₁).1 := by
  have hrun : run H B ops = runFrom H B (fresh H) ops := rfl
  obtain ⟨o1, o2, e, hc, hf⟩ := prefix_is_flush_point_nogc H B (fresh H) ops hno k hk hk0
  refine ⟨o1, o2, e, ?_⟩
  have hdb0 : (fresh H).db = Db.empty := rfl
  rw [hdb0] at hf
  rw [hrun, hf]
  exact recover_of_inv (inv_runFrom hB (inv_fresh H hB) o1) hc


end NeoModel.Persist
