/-
Helper lemmas for C18 / `ParseMultiSigContract`: exact characterisation of the accepted scripts.
-/
import NeoModel.Proofs.CodecMsDecode
namespace NeoModel.Codec

theorem getNum_ret (param : Bytes) : getNumOfThings opRET param = none := by
  unfold getNumOfThings getInt64FromInstr
  have h15 : opPUSHM1.toNat = 15 := rfl
  have h32 : opPUSH16.toNat = 32 := rfl
  have hr : opRET.toNat = 64 := rfl
  simp [h15, h32, hr]

theorem drop_drop' (s : Bytes) (a b : Nat) : (s.drop a).drop b = s.drop (a + b) := by
  simp [List.drop_drop]

theorem count_next_inv (s : Bytes) (ip : Nat) (op : UInt8) (param : Bytes) (ip' next v : Nat)
    (hn : nextInstr s ip = .ins op param ip' next) (hg : getNumOfThings op param = some v) :
    1 ≤ v ∧ v ≤ 1024 ∧ (op == opPUSHDATA1) = false ∧ ∃ a ∈ countEncodings v, s.drop ip = a ++ s.drop next := by
  rw [nextInstr_eq_decode1] at hn
  cases hd : decode1 (s.drop ip) with
  | eof => rw [hd] at hn; simp only [Dec.shift] at hn; injection hn with e1 e2 e3 e4; subst e1; rw [getNum_ret] at hg; cases hg
  | err => rw [hd] at hn; simp [Dec.shift] at hn
  | other => rw [hd] at hn; simp [Dec.shift] at hn
  | ins o p len =>
    rw [hd] at hn; simp only [Dec.shift] at hn
    injection hn with e1 e2 e3 e4; subst e1 e2 e3 e4
    obtain ⟨h1, h2, h3, a, ha, hr, _⟩ := count_dec_inv _ _ _ _ _ hd hg
    refine ⟨h1, h2, h3, a, ha, ?_⟩
    rw [drop_drop'] at hr; exact hr

theorem pd1_next_inv (s : Bytes) (ip : Nat) (param : Bytes) (ip' next : Nat)
    (hn : nextInstr s ip = .ins opPUSHDATA1 param ip' next) :
    s.drop ip = pd1 param ++ s.drop next ∧ param.length ≤ 255 := by
  rw [nextInstr_eq_decode1] at hn
  cases hd : decode1 (s.drop ip) with
  | eof => rw [hd] at hn; simp only [Dec.shift] at hn; injection hn with e1 e2 e3 e4; exact absurd e1 (by decide)
  | err => rw [hd] at hn; simp [Dec.shift] at hn
  | other => rw [hd] at hn; simp [Dec.shift] at hn
  | ins o p len =>
    rw [hd] at hn; simp only [Dec.shift] at hn
    injection hn with e1 e2 e3 e4; subst e1 e2 e3 e4
    obtain ⟨hr, _, hl⟩ := pd1_dec_inv _ _ _ hd
    rw [drop_drop'] at hr
    exact ⟨hr, hl⟩

theorem syscall_next_inv (s : Bytes) (ip : Nat) (param : Bytes) (ip' next : Nat)
    (hn : nextInstr s ip = .ins opSYSCALL param ip' next) :
    s.drop ip = opSYSCALL :: param ++ s.drop next := by
  rw [nextInstr_eq_decode1] at hn
  cases hd : decode1 (s.drop ip) with
  | eof => rw [hd] at hn; simp only [Dec.shift] at hn; injection hn with e1 e2 e3 e4; exact absurd e1 (by decide)
  | err => rw [hd] at hn; simp [Dec.shift] at hn
  | other => rw [hd] at hn; simp [Dec.shift] at hn
  | ins o p len =>
    rw [hd] at hn; simp only [Dec.shift] at hn
    injection hn with e1 e2 e3 e4; subst e1 e2 e3 e4
    obtain ⟨hr, _, _⟩ := syscall_dec_inv _ _ _ hd
    rw [drop_drop'] at hr
    exact hr

theorem decode1_eof (r : Bytes) (h : decode1 r = .eof) : r = [] := by
  cases r with
  | nil => rfl
  | cons o rest =>
    simp only [decode1] at h
    (repeat' (split at h)) <;> cases h

theorem end_next_inv (s : Bytes) (ip : Nat) (op : UInt8) (param : Bytes) (next : Nat)
    (hn : nextInstr s ip = .ins op param s.length next) : s.drop ip = [] := by
  rw [nextInstr_eq_decode1] at hn
  cases hd : decode1 (s.drop ip) with
  | eof => exact decode1_eof _ hd
  | err => rw [hd] at hn; simp [Dec.shift] at hn
  | other => rw [hd] at hn; simp [Dec.shift] at hn
  | ins o p len =>
    rw [hd] at hn; simp only [Dec.shift] at hn
    injection hn with e1 e2 e3 e4
    rw [e3, List.drop_length] at hd
    simp [decode1] at hd

theorem next_at (pre rest : Bytes) : nextInstr (pre ++ rest) pre.length = (decode1 rest).shift pre.length := by
  rw [nextInstr_eq_decode1, List.drop_left]

def keysCode (ks : List Bytes) : Bytes := (ks.map pd1).flatten

theorem keysCode_length_ge (ks : List Bytes) : ks.length ≤ (keysCode ks).length := by
  induction ks with
  | nil => simp [keysCode]
  | cons k t ih =>
    simp only [keysCode, List.map_cons, List.flatten_cons, List.length_append, List.length_cons, pd1] at *
    omega

theorem keyLoop_inv (s : Bytes) : ∀ (fuel ip : Nat) (pubs0 pubs : List Bytes) (op2 : UInt8) (param2 : Bytes) (next2 : Nat),
    keyLoop s fuel ip pubs0 = some (pubs, op2, param2, next2) →
    ∃ ks ip2 ip', pubs = pubs0 ++ ks ∧ (∀ k ∈ ks, 33 ≤ k.length ∧ k.length ≤ 255) ∧ (pubs0.length ≤ 1024 → pubs.length ≤ 1024) ∧
      s.drop ip = keysCode ks ++ s.drop ip2 ∧ nextInstr s ip2 = .ins op2 param2 ip' next2 := by
  intro fuel
  induction fuel with
  | zero => intro ip pubs0 pubs op2 param2 next2 h; simp [keyLoop] at h
  | succ fuel ih =>
    intro ip pubs0 pubs op2 param2 next2 h
    unfold keyLoop at h
    cases hn : nextInstr s ip with
    | err => rw [hn] at h; simp at h
    | other => rw [hn] at h; simp at h
    | ins op param ip' next =>
      rw [hn] at h
      simp only at h
      by_cases c1 : (op != opPUSHDATA1) = true
      · simp only [c1, if_true, Option.some.injEq, Prod.mk.injEq] at h
        obtain ⟨rfl, rfl, rfl, rfl⟩ := h
        exact ⟨[], ip, ip', by simp, by simp, fun h => h, by simp [keysCode], hn⟩
      · simp only [c1] at h
        have hop : op = opPUSHDATA1 := by simpa using c1
        subst hop
        by_cases c2 : param.length < 33
        · simp [c2] at h
        · simp only [c2, if_false] at h
          by_cases c3 : 1024 < pubs0.length + 1
          · simp [c3] at h
          · simp only [c3, if_false] at h
            obtain ⟨ks, ip2, ip'', hp, hk, hcap, hdrop, hnext⟩ := ih next (pubs0 ++ [param]) pubs op2 param2 next2 h
            obtain ⟨hd1, hl⟩ := pd1_next_inv s ip param ip' next hn
            refine ⟨param :: ks, ip2, ip'', by rw [hp]; simp, ?_, ?_, ?_, hnext⟩
            · intro k hk'
              rcases List.mem_cons.mp hk' with rfl | hk'
              · exact ⟨by omega, hl⟩
              · exact hk k hk'
            · intro _; apply hcap; simp; omega
            · rw [hd1, hdrop]; simp [keysCode, List.append_assoc]

theorem keyLoop_fwd (s : Bytes) (op2 : UInt8) (param2 : Bytes) (len2 : Nat) (hop2 : (op2 == opPUSHDATA1) = false) :
    ∀ (ks : List Bytes) (pre : Bytes) (pubs0 : List Bytes) (fuel : Nat) (tail : Bytes),
      (∀ k ∈ ks, 33 ≤ k.length ∧ k.length ≤ 255) → ks.length < fuel → pubs0.length + ks.length ≤ 1024 →
      s = pre ++ keysCode ks ++ tail → decode1 tail = .ins op2 param2 len2 →
      keyLoop s fuel pre.length pubs0 = some (pubs0 ++ ks, op2, param2, pre.length + (keysCode ks).length + len2) := by
  intro ks
  induction ks with
  | nil =>
    intro pre pubs0 fuel tail _ hf _ hs hd
    cases fuel with
    | zero => simp at hf
    | succ fuel =>
      have hn : nextInstr s pre.length = .ins op2 param2 pre.length (pre.length + len2) := by
        rw [hs]; simp only [keysCode, List.map_nil, List.flatten_nil, List.append_nil]
        rw [next_at, hd]; rfl
      have : (op2 != opPUSHDATA1) = true := by simp [bne, hop2]
      simp [keyLoop, hn, this, keysCode]
  | cons k ks ih =>
    intro pre pubs0 fuel tail hk hf hcap hs hd
    cases fuel with
    | zero => simp at hf
    | succ fuel =>
      obtain ⟨hk33, hk255⟩ := hk k (by simp)
      have hs' : s = pre ++ (pd1 k ++ (keysCode ks ++ tail)) := by
        rw [hs]; simp [keysCode, List.append_assoc]
      have hn : nextInstr s pre.length = .ins opPUSHDATA1 k pre.length (pre.length + (1 + 1 + k.length)) := by
        rw [hs', next_at, pd1_dec k _ hk255]; rfl
      have c1 : (opPUSHDATA1 != opPUSHDATA1) = false := by decide
      have c2 : ¬ (k.length < 33) := by omega
      have c3 : ¬ (1024 < pubs0.length + 1) := by simp at hcap; omega
      simp only [keyLoop, hn, c1, Bool.false_eq_true, if_false, c2, c3]
      have hpre : (pre ++ pd1 k).length = pre.length + (1 + 1 + k.length) := by simp [pd1]; omega
      have := ih (pre ++ pd1 k) (pubs0 ++ [k]) fuel tail (fun x hx => hk x (by simp [hx]))
        (by simp at hf; omega) (by simp at hcap ⊢; omega)
        (by rw [hs']; simp [List.append_assoc]) hd
      rw [hpre] at this
      rw [this]
      simp only [List.append_assoc, List.singleton_append, keysCode, List.map_cons, List.flatten_cons, List.length_append]
      have : (pd1 k).length = 1 + 1 + k.length := by simp [pd1]; omega
      rw [this, Nat.add_assoc (List.length pre)]

theorem countEnc_length_pos (v : Nat) (a : Bytes) (ha : a ∈ countEncodings v) : 1 ≤ a.length := by
  simp only [countEncodings, List.mem_append, List.mem_cons, List.not_mem_nil, or_false] at ha
  rcases ha with (ha | ha) | ha
  · split at ha
    · simp at ha; subst ha; simp
    · simp at ha
  · split at ha
    · simp at ha; subst ha; simp [countEnc]
    · simp at ha
  · rcases ha with rfl | rfl | rfl | rfl | rfl <;> simp [countEnc]

theorem parseMultiSig_shape (s : Bytes) (m : Nat) (pubs : List Bytes) (h : parseMultiSig s = some (m, pubs)) :
    1 ≤ m ∧ m ≤ pubs.length ∧ pubs.length ≤ 1024 ∧ (∀ k ∈ pubs, 33 ≤ k.length ∧ k.length ≤ 255) ∧
      ∃ a ∈ countEncodings m, ∃ c ∈ countEncodings pubs.length,
        s = a ++ keysCode pubs ++ c ++ opSYSCALL :: multisigID := by
  unfold parseMultiSig at h
  by_cases c42 : s.length < 42
  · simp [c42] at h
  simp only [c42, if_false] at h
  cases hn1 : nextInstr s 0 with
  | err => rw [hn1] at h; simp at h
  | other => rw [hn1] at h; simp at h
  | ins op param ip1 next =>
  rw [hn1] at h; simp only at h
  cases hg1 : getNumOfThings op param with
  | none => rw [hg1] at h; simp at h
  | some nsigs =>
  rw [hg1] at h; simp only at h
  cases hk : keyLoop s (s.length + 1) next [] with
  | none => rw [hk] at h; simp at h
  | some res =>
  obtain ⟨pubs', op2, param2, next2⟩ := res
  rw [hk] at h; simp only at h
  by_cases c5 : pubs'.length < nsigs
  · simp [c5] at h
  simp only [c5, if_false] at h
  cases hg2 : getNumOfThings op2 param2 with
  | none => rw [hg2] at h; simp at h
  | some nkeys2 =>
  rw [hg2] at h; simp only at h
  by_cases c6 : (nkeys2 != pubs'.length) = true
  · simp [c6] at h
  simp only [c6, Bool.false_eq_true, if_false] at h
  have hnk : nkeys2 = pubs'.length := by simpa using c6
  cases hn3 : nextInstr s next2 with
  | err => rw [hn3] at h; simp at h
  | other => rw [hn3] at h; simp at h
  | ins op3 param3 ip3 next3 =>
  rw [hn3] at h; simp only at h
  by_cases c7 : (op3 != opSYSCALL || param3 != multisigID) = true
  · simp [c7] at h
  simp only [c7, Bool.false_eq_true, if_false] at h
  have hop3 : op3 = opSYSCALL ∧ param3 = multisigID := by simpa using c7
  obtain ⟨rfl, rfl⟩ := hop3
  cases hn4 : nextInstr s next3 with
  | err => rw [hn4] at h; simp at h
  | other => rw [hn4] at h; simp at h
  | ins op4 param4 ip4 next4 =>
  rw [hn4] at h; simp only at h
  by_cases c8 : (op4 != opRET || ip4 != s.length) = true
  · simp [c8] at h
  simp only [c8, Bool.false_eq_true, if_false, Option.some.injEq, Prod.mk.injEq] at h
  have hop4 : op4 = opRET ∧ ip4 = s.length := by simpa using c8
  obtain ⟨rfl, rfl⟩ := hop4
  obtain ⟨e1, e2⟩ := h
  -- invert every step
  obtain ⟨hm1, hm2, _, a, ha, hsa⟩ := count_next_inv s 0 op param ip1 next nsigs hn1 hg1
  obtain ⟨ks, ip2, ip2', hpk, hkl, hcap, hdk, hnc⟩ := keyLoop_inv s _ _ _ _ _ _ _ hk
  simp only [List.nil_append] at hpk
  subst hpk
  obtain ⟨hn1', hn2', _, c, hc, hsc⟩ := count_next_inv s ip2 op2 param2 ip2' next2 nkeys2 hnc hg2
  have hsys := syscall_next_inv s next2 multisigID ip3 next3 hn3
  have hend := end_next_inv s next3 opRET param4 next4 hn4
  subst e1 e2
  refine ⟨hm1, by omega, by omega, hkl, a, ha, c, by rw [← hnk]; exact hc, ?_⟩
  have : s = s.drop 0 := rfl
  rw [this, hsa, hdk, hsc, hsys, hend]
  simp [List.append_assoc]

theorem parseMultiSig_of_shape (m : Nat) (pubs : List Bytes) (a c : Bytes)
    (h1 : 1 ≤ m) (h2 : m ≤ pubs.length) (h3 : pubs.length ≤ 1024) (hk : ∀ k ∈ pubs, 33 ≤ k.length ∧ k.length ≤ 255)
    (ha : a ∈ countEncodings m) (hc : c ∈ countEncodings pubs.length) :
    parseMultiSig (a ++ keysCode pubs ++ c ++ opSYSCALL :: multisigID) = some (m, pubs) := by
  obtain ⟨opa, pa, hda, hga, _⟩ := count_dec m a ha h1 (by omega)
  obtain ⟨opc, pc, hdc, hgc, hnc⟩ := count_dec pubs.length c hc (by omega) h3
  have hid : multisigID.length = 4 := rfl
  generalize hsd : a ++ keysCode pubs ++ c ++ opSYSCALL :: multisigID = s
  have hlen : s.length = a.length + (keysCode pubs).length + c.length + 5 := by
    rw [← hsd]; simp [hid]; omega
  have hF := keysCode_length_ge pubs
  have hn1 : nextInstr s 0 = .ins opa pa 0 (0 + a.length) := by
    have := next_at [] s
    simp only [List.nil_append, List.length_nil] at this
    rw [this, ← hsd, List.append_assoc, List.append_assoc, hda]; rfl
  have hloop := keyLoop_fwd s opc pc c.length hnc pubs a [] (s.length + 1) (c ++ opSYSCALL :: multisigID) hk
    (by omega) (by simpa using h3) (by rw [← hsd]; simp [List.append_assoc]) (hdc _)
  have hn3 : nextInstr s (a.length + (keysCode pubs).length + c.length)
      = .ins opSYSCALL multisigID (a.length + (keysCode pubs).length + c.length) (a.length + (keysCode pubs).length + c.length + (1 + 4)) := by
    have := next_at (a ++ keysCode pubs ++ c) (opSYSCALL :: multisigID)
    simp only [List.length_append] at this
    rw [← hsd, this]
    have := syscall_dec multisigID [] hid
    simp only [List.append_nil] at this
    rw [this]; rfl
  have hn4 : nextInstr s (a.length + (keysCode pubs).length + c.length + (1 + 4)) = .ins opRET [] s.length s.length := by
    have : a.length + (keysCode pubs).length + c.length + (1 + 4) = s.length := by omega
    rw [this]; exact next_end s
  have hlk : 35 * 1 ≤ (keysCode pubs).length := by
    cases pubs with
    | nil => simp at h2; omega
    | cons k t =>
      have := (hk k (by simp)).1
      simp [keysCode, pd1]; omega
  have ha1 := countEnc_length_pos _ _ ha
  have hc1 := countEnc_length_pos _ _ hc
  unfold parseMultiSig
  have c42 : ¬ (s.length < 42) := by omega
  simp only [Nat.zero_add] at hn1
  simp only [c42, if_false, hn1, hga, hloop, List.nil_append]
  have c5 : ¬ (pubs.length < m) := by omega
  simp only [c5, if_false, hgc, bne_self_eq_false, Bool.false_eq_true, hn3, Bool.or_self, hn4]

theorem parseMultiSig_iff' (s : Bytes) (m : Nat) (pubs : List Bytes) :
    parseMultiSig s = some (m, pubs) ↔
      1 ≤ m ∧ m ≤ pubs.length ∧ pubs.length ≤ 1024 ∧ (∀ k ∈ pubs, 33 ≤ k.length ∧ k.length ≤ 255) ∧
      ∃ a ∈ countEncodings m, ∃ c ∈ countEncodings pubs.length,
        s = a ++ keysCode pubs ++ c ++ opSYSCALL :: multisigID := by
  constructor
  · exact parseMultiSig_shape s m pubs
  · rintro ⟨h1, h2, h3, hk, a, ha, c, hc, rfl⟩
    exact parseMultiSig_of_shape m pubs a c h1 h2 h3 hk ha hc

end NeoModel.Codec
