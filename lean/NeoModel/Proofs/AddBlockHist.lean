/-
C06 helper lemmas: AddHeaders with any list of headers keeps the invariant; histories of AddBlock /
AddHeaders calls; accepted transactions leave the mempool.
-/
import NeoModel.Proofs.AddBlockTx
namespace NeoModel.AddBlock
variable {L : Type}

theorem verifyHeader_congr (env : Env L) (a c : Node L) (hc : a.cfg = c.cfg) (hb : a.blockHeight = c.blockHeight)
    (hl : a.ledger = c.ledger) (cur prev : Header) : verifyHeader env a cur prev = verifyHeader env c cur prev := by
  unfold verifyHeader; rw [hc, hb, hl]

theorem verifyChain_congr (env : Env L) (a c : Node L) (hc : a.cfg = c.cfg) (hb : a.blockHeight = c.blockHeight)
    (hl : a.ledger = c.ledger) (last : Header) (hs : List Header) :
    verifyChain env a last hs = verifyChain env c last hs := by
  induction hs generalizing last with
  | nil => rfl
  | cons h rest ih => simp only [verifyChain, verifyHeader_congr env a c hc hb hl, ih]

theorem dropWhile_head {α : Type} (p : α → Bool) (l : List α) (a : α) (r : List α)
    (h : l.dropWhile p = a :: r) : p a = false := by
  induction l with
  | nil => cases h
  | cons x xs ih =>
    by_cases hx : p x = true
    · simp [List.dropWhile, hx] at h; exact ih h
    · have hx' : p x = false := by simpa using hx
      simp [List.dropWhile, hx'] at h
      rw [← h.1]; exact hx'

/-- a verified chain of headers on top of the last recorded header is appended as a whole and keeps
the invariant -/
theorem inv_appendChain (env : Env L) (s : Node L) (hinv : Inv env s) (last : Header)
    (hlast : s.headers[s.headers.length - 1]? = some last) (hs : List Header)
    (hv : verifyChain env s last hs = none) :
    appendHeaders s.headers hs = s.headers ++ hs ∧ Inv env { s with headers := s.headers ++ hs } := by
  induction hs generalizing s last with
  | nil => simp [appendHeaders]; exact hinv
  | cons h rest ih =>
    simp only [verifyChain] at hv
    cases hvh : verifyHeader env s h last with
    | some e => rw [hvh] at hv; cases hv
    | none =>
      rw [hvh] at hv
      obtain ⟨hlink, hsr⟩ := verifyHeader_none env s h last hvh
      have hpos : 0 < s.headers.length := Nat.lt_of_le_of_lt (Nat.zero_le _) hinv.bh_lt
      have hli : last.index = s.headers.length - 1 := hinv.indexed _ last hlast
      have hidx : h.index = s.headers.length := by have := hlink.2.1; omega
      have hinv1 := inv_append env s hinv h last hidx hlast hlink (by
        intro h1 h2; exact hsr h1 (by omega))
      let s1 : Node L := { s with headers := s.headers ++ [h] }
      have hv1 : verifyChain env s1 h rest = none := by
        rw [verifyChain_congr env s1 s rfl rfl rfl]; exact hv
      have hlast1 : s1.headers[s1.headers.length - 1]? = some h := by
        show (s.headers ++ [h])[(s.headers ++ [h]).length - 1]? = some h
        simp
      obtain ⟨i1, i2⟩ := ih s1 hinv1 h hlast1 hv1
      constructor
      · simp only [appendHeaders, hidx, beq_self_eq_true, if_true]
        have : s1.headers = s.headers ++ [h] := rfl
        rw [this] at i1
        rw [i1]; simp
      · have : ({ s1 with headers := s1.headers ++ rest } : Node L) = { s with headers := s.headers ++ h :: rest } := by
          apply node_ext <;> simp [s1]
        rw [← this]; exact i2

/-- C06: AddHeaders (verification on) with any list of headers keeps the invariant, whatever it returns. -/
theorem inv_addHeaders_aux (env : Env L) (s s' : Node L) (hs : List Header) (r : Option Err)
    (hinv : Inv env s) (h : addHeaders env s true hs = (s', r)) : Inv env s' := by
  unfold addHeaders at h
  simp only [if_true] at h
  split at h
  · cases h; exact hinv
  · rename_i h0 rest hdw
    cases hl : s.lookup h0.prevHash with
    | none => simp only [hl] at h; cases h; exact hinv
    | some last =>
      simp only [hl] at h
      cases hv : verifyChain env s last (h0 :: rest) with
      | some e => simp only [hv] at h; cases h; exact hinv
      | none =>
        simp only [hv] at h
        cases h
        have hne := hinv.ne
        have hlen := headers_length s hne
        obtain ⟨hm, _⟩ := lookup_mem s _ last hl
        have hgt : ¬ (h0.index ≤ s.headerHeight) := by
          have := dropWhile_head _ _ _ _ hdw
          simpa using this
        have hvh : verifyHeader env s h0 last = none := by
          simp only [verifyChain] at hv
          cases hx : verifyHeader env s h0 last with
          | some e => rw [hx] at hv; cases hv
          | none => rfl
        have hlink := (verifyHeader_none env s h0 last hvh).1
        have hget := Indexed.get _ hinv.indexed last hm
        have hlt : last.index < s.headers.length := by
          rcases List.getElem?_eq_some_iff.mp hget with ⟨hh, _⟩; exact hh
        have hli : last.index = s.headers.length - 1 := by have := hlink.2.1; omega
        have hlast : s.headers[s.headers.length - 1]? = some last := by rw [← hli]; exact hget
        obtain ⟨i1, i2⟩ := inv_appendChain env s hinv last hlast (h0 :: rest) hv
        rw [i1]; exact i2

theorem bodyStep_none_store (env : Env L) (s s' : Node L) (b : Block)
    (h : bodyStep env s b = (s', none)) : storeBlock env s b = (s', none) := by
  unfold bodyStep at h
  split at h
  · cases h
  · split at h
    · cases h
    · split at h
      · cases h
      · exact h

/-- no transaction of an accepted block stays in the mempool -/
theorem accepted_txs_leave_pool_aux (env : Env L) (s s' : Node L) (b : Block)
    (h : addBlock env s b = (s', none)) : ∀ q ∈ s'.pool, ∀ t ∈ b.txs, q.id ≠ t.id := by
  rcases addBlock_spec env s s' b none h with ⟨_, _, e, he⟩ | ⟨_, _, _, he⟩ | ⟨_, _, s1, r1, _, hrest⟩
  · cases he
  · cases he
  rcases hrest with ⟨_, _, _, hn⟩ | ⟨_, hbody⟩
  · cases hn
  obtain ⟨l', _, _, rfl⟩ := storeBlock_ok env s1 s' b (bodyStep_none_store env s1 s' b hbody)
  intro q hq t ht heq
  simp only [commit, List.mem_filter, Bool.and_eq_true, Bool.not_eq_true', List.any_eq_false] at hq
  have := hq.2.1 t ht
  simp [heq] at this

/-- addBlock never changes the configuration -/
theorem addBlock_cfg (env : Env L) (s s' : Node L) (b : Block) (r : Option Err)
    (hne : s.headers ≠ []) (h : addBlock env s b = (s', r)) : s'.cfg = s.cfg := by
  rcases addBlock_spec env s s' b r h with ⟨_, rfl, _⟩ | ⟨_, _, rfl, _⟩ | ⟨_, _, s1, r1, hs1, hrest⟩
  · rfl
  · rfl
  have h1 : s1.cfg = s.cfg := by
    rcases headerStep_spec env s s1 b r1 hne hs1 with ⟨_, _, rfl⟩ | ⟨_, _, rfl, _⟩ | ⟨_, _, rfl, _⟩ <;> rfl
  rcases hrest with ⟨_, _, rfl, _⟩ | ⟨_, hbody⟩
  · exact h1
  cases r with
  | some e =>
    rcases bodyStep_err env s1 s' b e hbody with rfl | ⟨_, _, rfl⟩
    · exact h1
    · exact h1
  | none =>
    obtain ⟨l', _, _, rfl⟩ := storeBlock_ok env s1 s' b (bodyStep_none_store env s1 s' b hbody)
    exact h1

theorem addHeaders_cfg (env : Env L) (s : Node L) (v : Bool) (hs : List Header) :
    (addHeaders env s v hs).1.cfg = s.cfg := by
  unfold addHeaders
  cases hd : List.dropWhile (fun h => decide (h.index ≤ s.headerHeight)) hs with
  | nil => rfl
  | cons h0 rest =>
    dsimp only
    cases v with
    | false => rfl
    | true =>
      simp only [if_true]
      cases s.lookup h0.prevHash with
      | none => rfl
      | some last =>
        dsimp only
        cases verifyChain env s last (h0 :: rest) <;> rfl

/-- one call of the node's block-intake API -/
inductive Op
  | block (b : Block)
  | headers (hs : List Header)

def step (env : Env L) (s : Node L) : Op → Node L
  | .block b => (addBlock env s b).1
  | .headers hs => (addHeaders env s (!s.cfg.skip) hs).1

def run (env : Env L) (s : Node L) (ops : List Op) : Node L := ops.foldl (step env) s

/-- C06: along every history of AddBlock / AddHeaders calls (any blocks, any header lists, accepted or
rejected) from a state satisfying the invariant — e.g. the node holding only the genesis header —
the invariant holds. Hypothesis: the header hash determines the hashable fields (no collisions). -/
theorem inv_run_aux (env : Env L) (hroot : ∀ l b, env.rootOf (env.spoil l b) = env.rootOf l)
    (hcoll : ∀ x y : Header, x.hash = y.hash → SameCore x y)
    (s : Node L) (hskip : s.cfg.skip = false) (hinv : Inv env s) (ops : List Op) :
    Inv env (run env s ops) ∧ (run env s ops).cfg = s.cfg := by
  induction ops generalizing s with
  | nil => exact ⟨hinv, rfl⟩
  | cons op rest ih =>
    have hstep : Inv env (step env s op) ∧ (step env s op).cfg = s.cfg := by
      cases op with
      | block b =>
        refine ⟨inv_addBlock_aux env hroot s _ b _ hskip hinv ⟨fun kh _ hh => hcoll kh b.hdr hh,
          fun x _ y _ hxy => (hcoll x y hxy).2.2.2.2.1⟩ rfl, addBlock_cfg env s _ b _ hinv.ne rfl⟩
      | headers hs =>
        have hv : (!s.cfg.skip) = true := by simp [hskip]
        refine ⟨?_, addHeaders_cfg env s _ hs⟩
        show Inv env (addHeaders env s (!s.cfg.skip) hs).1
        rw [hv]
        exact inv_addHeaders_aux env s _ hs _ hinv rfl
    obtain ⟨i1, i2⟩ := ih (step env s op) (by rw [hstep.2]; exact hskip) hstep.1
    show Inv env (run env (step env s op) rest) ∧ (run env (step env s op) rest).cfg = s.cfg
    exact ⟨i1, by rw [i2, hstep.2]⟩

end NeoModel.AddBlock
