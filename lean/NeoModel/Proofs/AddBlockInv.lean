/-
C06 helper lemmas: the invariant of the header chain ahead of the block tip, what the header step
and the transaction loop guarantee for an accepted block, preservation of the invariant.
-/
import NeoModel.Proofs.AddBlockAfter
namespace NeoModel.AddBlock
variable {L : Type}


/-- the fields a header hash is computed from (header.go:138-150): everything but the witness -/
def SameCore (a b : Header) : Prop :=
  a.index = b.index ∧ a.prevHash = b.prevHash ∧ a.merkleRoot = b.merkleRoot ∧ a.ts = b.ts ∧
    a.nextConsensus = b.nextConsensus ∧ a.sre = b.sre ∧ a.prevStateRoot = b.prevStateRoot

/-- collision-freeness of the header hash, as far as this block is concerned: a recorded header
with the block's hash has the block's hashable fields, and two recorded headers with one hash
designate the same consensus address. A hypothesis, never an axiom. -/
def HashBinds (s : Node L) (b : Block) : Prop :=
  (∀ kh ∈ s.headers, kh.hash = b.hdr.hash → SameCore kh b.hdr) ∧
  (∀ x ∈ s.headers, ∀ y ∈ s.headers, x.hash = y.hash → x.nextConsensus = y.nextConsensus)

/-- the invariant of the node's header chain ahead of its block tip -/
structure Inv (env : Env L) (s : Node L) : Prop where
  bh_lt : s.blockHeight < s.headers.length
  indexed : Indexed s.headers
  linked : ∀ (i : Nat) (prev cur : Header), s.blockHeight ≤ i → s.headers[i]? = some prev →
    s.headers[i + 1]? = some cur → LinkOK env prev cur
  nextRoot : s.cfg.sr = true → ∀ nh, s.headers[s.blockHeight + 1]? = some nh →
    nh.prevStateRoot = env.rootOf s.ledger

theorem Inv.ne {env : Env L} {s : Node L} (h : Inv env s) : s.headers ≠ [] := by
  intro hc
  have := h.bh_lt
  rw [hc] at this
  simp at this

/-- every transaction of a block that passes the loop with VerifyTransactions was verified on its
own or is in the mempool with the same witness -/
theorem txLoop_verified (env : Env L) (s : Node L) (hv : s.cfg.verifyTx = true) (p : List Tx) (ts : List Tx)
    (h : txLoop env s p ts = true) :
    ∀ t ∈ ts, env.txValid s.ledger s.blockHeight t = true ∨ pooledSame s t = true := by
  induction ts generalizing p with
  | nil => intro t ht; cases ht
  | cons t rest ih =>
    intro u hu
    simp only [txLoop] at h
    split at h
    · rename_i p' hp
      rcases List.mem_cons.mp hu with rfl | hu
      · by_cases hc : pooledSame s u = true
        · right; exact hc
        · left
          simp only [hc] at hp
          by_cases hvld : env.txValid s.ledger s.blockHeight u = true
          · exact hvld
          · simp [hvld] at hp
      · split at h
        · exact ih p' h u hu
        · simp at h
    · simp [hv] at h

/-- what the header step guarantees for an accepted block -/
theorem header_conjuncts (env : Env L) (s s1 : Node L) (b : Block)
    (hskip : s.cfg.skip = false) (hinv : Inv env s) (hbind : HashBinds s b)
    (hbi : b.hdr.index = s.blockHeight + 1)
    (hs : headerStep env s b = (s1, none)) :
    ∃ tip, s.headers[s.blockHeight]? = some tip ∧
      b.hdr.prevHash = tip.hash ∧ tip.ts < b.hdr.ts ∧
      (s.cfg.sr = true → b.hdr.prevStateRoot = env.rootOf s.ledger) ∧
      env.signedBy b.hdr.wit b.hdr.hash tip.nextConsensus = true := by
  have hne := hinv.ne
  have hlen := headers_length s hne
  rcases headerStep_spec env s s1 b none hne hs with ⟨_, hr, _⟩ | ⟨_, hi, _, hv⟩ | ⟨_, hni, _, kh, hk, hkh, hw⟩
  · cases hr
  · obtain ⟨last, hl, hv⟩ := hv hskip
    obtain ⟨hm, hlh⟩ := lookup_mem s _ last hl
    obtain ⟨⟨l1, l2, l3, l4⟩, hsr⟩ := verifyHeader_none env s b.hdr last hv
    have hli : last.index = s.blockHeight := by omega
    have hget := Indexed.get _ hinv.indexed last hm
    rw [hli] at hget
    refine ⟨last, hget, l1, l3, ?_, l4⟩
    intro h; exact hsr h hli.symm
  · have hlt : s.blockHeight < s.headers.length := hinv.bh_lt
    obtain ⟨tip, htip⟩ : ∃ tip, s.headers[s.blockHeight]? = some tip :=
      ⟨s.headers[s.blockHeight], List.getElem?_eq_getElem hlt⟩
    have hk' : s.headers[s.blockHeight + 1]? = some kh := by rw [← hbi]; exact hk
    obtain ⟨l1, l2, l3, l4⟩ := hinv.linked s.blockHeight tip kh (Nat.le_refl _) htip hk'
    have hmem : kh ∈ s.headers := List.mem_of_getElem? hk
    obtain ⟨c1, c2, c3, c4, c5, c6, c7⟩ := hbind.1 kh hmem hkh
    refine ⟨tip, htip, ?_, ?_, ?_, ?_⟩
    · rw [← c2]; exact l1
    · rw [← c4]; exact l3
    · intro hsr; rw [← c7]; exact hinv.nextRoot hsr kh hk'
    · rcases hw with hw | hw | ⟨prev, hp, hsg⟩
      · rw [hskip] at hw; cases hw
      · rw [← hw, ← hkh]; exact l4
      · obtain ⟨hpm, hph⟩ := lookup_mem s _ prev hp
        have : prev.nextConsensus = tip.nextConsensus :=
          hbind.2 prev hpm tip (List.mem_of_getElem? htip) (by rw [hph, ← c2, l1])
        rw [← this]; exact hsg

theorem bodyStep_ok (env : Env L) (s s' : Node L) (b : Block) (hskip : s.cfg.skip = false)
    (h : bodyStep env s b = (s', none)) :
    b.hdr.merkleRoot = env.merkle (b.txs.map (·.id)) ∧ hasDup (b.txs.map (·.id)) = false ∧
      txLoop env s [] b.txs = true ∧ storeBlock env s b = (s', none) := by
  unfold bodyStep at h
  split at h
  · cases h
  · rename_i h1
    split at h
    · cases h
    · rename_i h2
      split at h
      · cases h
      · rename_i h3
        simp [hskip] at h1 h2 h3
        exact ⟨h1, h2, h3, h⟩

theorem inv_append (env : Env L) (s : Node L) (hinv : Inv env s) (h last : Header)
    (hidx : h.index = s.headers.length)
    (hlast : s.headers[s.headers.length - 1]? = some last)
    (hlink : LinkOK env last h)
    (hroot : s.cfg.sr = true → s.blockHeight + 1 = s.headers.length → h.prevStateRoot = env.rootOf s.ledger) :
    Inv env { s with headers := s.headers ++ [h] } := by
  have hpos : 0 < s.headers.length := Nat.lt_of_le_of_lt (Nat.zero_le _) hinv.bh_lt
  constructor
  · show s.blockHeight < (s.headers ++ [h]).length
    have := hinv.bh_lt; simp; omega
  · intro i x hx
    show x.index = i
    have hx' : (s.headers ++ [h])[i]? = some x := hx
    by_cases hi : i < s.headers.length
    · rw [List.getElem?_append_left hi] at hx'
      exact hinv.indexed i x hx'
    · rw [List.getElem?_append_right (by omega)] at hx'
      have : i - s.headers.length = 0 := by
        by_cases h0 : i - s.headers.length = 0
        · exact h0
        · have : ([h] : List Header)[i - s.headers.length]? = none := by
            apply List.getElem?_eq_none; simp; omega
          rw [this] at hx'; cases hx'
      rw [this] at hx'
      simp at hx'
      subst hx'
      omega
  · intro i prev cur hle hp hc
    have hp' : (s.headers ++ [h])[i]? = some prev := hp
    have hc' : (s.headers ++ [h])[i + 1]? = some cur := hc
    by_cases hi : i + 1 < s.headers.length
    · rw [List.getElem?_append_left (by omega)] at hp'
      rw [List.getElem?_append_left hi] at hc'
      exact hinv.linked i prev cur hle hp' hc'
    · by_cases hi2 : i + 1 = s.headers.length
      · rw [List.getElem?_append_left (by omega)] at hp'
        rw [List.getElem?_append_right (by omega)] at hc'
        have : i + 1 - s.headers.length = 0 := by omega
        rw [this] at hc'
        simp at hc'
        subst hc'
        have : i = s.headers.length - 1 := by omega
        rw [this, hlast] at hp'
        cases hp'
        exact hlink
      · have : (s.headers ++ [h])[i + 1]? = none := by
          apply List.getElem?_eq_none; simp; omega
        rw [this] at hc'; cases hc'
  · intro hsr nh hnh
    have hnh' : (s.headers ++ [h])[s.blockHeight + 1]? = some nh := hnh
    show nh.prevStateRoot = env.rootOf s.ledger
    by_cases hi : s.blockHeight + 1 < s.headers.length
    · rw [List.getElem?_append_left hi] at hnh'
      exact hinv.nextRoot hsr nh hnh'
    · have hb := hinv.bh_lt
      have he : s.blockHeight + 1 = s.headers.length := by omega
      rw [List.getElem?_append_right (by omega)] at hnh'
      have : s.blockHeight + 1 - s.headers.length = 0 := by omega
      rw [this] at hnh'
      simp at hnh'
      subst hnh'
      exact hroot hsr he

theorem inv_commit (env : Env L) (s : Node L) (hinv : Inv env s) (b : Block) (l' : L) (kh : Header)
    (hidx : b.hdr.index = s.blockHeight + 1)
    (hk : s.headers[b.hdr.index]? = some kh) (hh : kh.hash = b.hdr.hash) (hc : SameCore kh b.hdr)
    (hn : nextHeaderOK env s b.hdr.index l' = true) :
    Inv env (commit env s b l') := by
  have hlt : b.hdr.index < s.headers.length := by
    rcases List.getElem?_eq_some_iff.mp hk with ⟨h, _⟩; exact h
  obtain ⟨c1, c2, c3, c4, c5, c6, c7⟩ := hc
  constructor
  · show b.hdr.index < (s.headers.set b.hdr.index b.hdr).length
    simp; exact hlt
  · intro i x hx
    have hx' : (s.headers.set b.hdr.index b.hdr)[i]? = some x := hx
    rw [List.getElem?_set] at hx'
    by_cases he : b.hdr.index = i
    · subst he
      simp [hlt] at hx'
      subst hx'; rfl
    · simp only [he, if_false] at hx'
      exact hinv.indexed i x hx'
  · intro i prev cur hle hp hcur
    have hle' : b.hdr.index ≤ i := hle
    have hp' : (s.headers.set b.hdr.index b.hdr)[i]? = some prev := hp
    have hc' : (s.headers.set b.hdr.index b.hdr)[i + 1]? = some cur := hcur
    rw [List.getElem?_set] at hp' hc'
    have hne : ¬ (b.hdr.index = i + 1) := by omega
    simp only [hne, if_false] at hc'
    by_cases hi : b.hdr.index = i
    · subst hi
      simp [hlt] at hp'
      subst hp'
      obtain ⟨l1, l2, l3, l4⟩ := hinv.linked b.hdr.index kh cur (by omega) hk hc'
      refine ⟨?_, ?_, ?_, ?_⟩
      · rw [l1, hh]
      · rw [l2, c1]
      · rw [← c4]; exact l3
      · rw [← c5]; exact l4
    · simp only [hi, if_false] at hp'
      exact hinv.linked i prev cur (by omega) hp' hc'
  · intro hsr nh hnh
    have hsr' : s.cfg.sr = true := hsr
    have hnh' : (s.headers.set b.hdr.index b.hdr)[b.hdr.index + 1]? = some nh := hnh
    show nh.prevStateRoot = env.rootOf l'
    rw [List.getElem?_set] at hnh'
    have hne : ¬ (b.hdr.index = b.hdr.index + 1) := by omega
    simp only [hne, if_false] at hnh'
    have hgt : s.headerHeight > b.hdr.index := by
      rcases List.getElem?_eq_some_iff.mp hnh' with ⟨h, _⟩
      unfold Node.headerHeight; omega
    unfold nextHeaderOK at hn
    simp [hsr', hgt, hnh'] at hn
    exact hn



theorem SameCore.rfl' (a : Header) : SameCore a a := ⟨rfl, rfl, rfl, rfl, rfl, rfl, rfl⟩

/-- the header step keeps the invariant (verification on) -/
theorem inv_headerStep (env : Env L) (s s1 : Node L) (b : Block) (r : Option Err)
    (hskip : s.cfg.skip = false) (hinv : Inv env s)
    (hs : headerStep env s b = (s1, r)) : Inv env s1 := by
  have hne := hinv.ne
  have hlen := headers_length s hne
  rcases headerStep_spec env s s1 b r hne hs with ⟨_, _, rfl⟩ | ⟨_, hi, rfl, hv⟩ | ⟨_, _, rfl, _⟩
  · exact hinv
  · obtain ⟨last, hl, hv⟩ := hv hskip
    obtain ⟨hm, _⟩ := lookup_mem s _ last hl
    obtain ⟨hlink, hsr⟩ := verifyHeader_none env s b.hdr last hv
    have hli : last.index = s.headerHeight := by have := hlink.2.1; omega
    have hget := Indexed.get _ hinv.indexed last hm
    apply inv_append env s hinv b.hdr last (by omega) (by rw [hlen]; simpa [hli] using hget) hlink
    intro h1 h2
    exact hsr h1 (by omega)
  · exact hinv

/-- a spoiled ledger still reports the old local state root, so the invariant survives -/
theorem inv_spoil (env : Env L) (hroot : ∀ l b, env.rootOf (env.spoil l b) = env.rootOf l)
    (s : Node L) (b : Block) (hinv : Inv env s) : Inv env { s with ledger := env.spoil s.ledger b } := by
  constructor
  · exact hinv.bh_lt
  · exact hinv.indexed
  · exact hinv.linked
  · intro hsr nh hnh
    show nh.prevStateRoot = env.rootOf (env.spoil s.ledger b)
    rw [hroot]; exact hinv.nextRoot hsr nh hnh

/-- C06, invariant: every AddBlock call (accepted or rejected) keeps the header-chain invariant. -/
theorem inv_addBlock_aux (env : Env L) (hroot : ∀ l b, env.rootOf (env.spoil l b) = env.rootOf l)
    (s s' : Node L) (b : Block) (r : Option Err)
    (hskip : s.cfg.skip = false) (hinv : Inv env s) (hbind : HashBinds s b)
    (h : addBlock env s b = (s', r)) : Inv env s' := by
  have hne := hinv.ne
  have hlen := headers_length s hne
  rcases addBlock_spec env s s' b r h with ⟨_, rfl, _⟩ | ⟨_, _, rfl, _⟩ | ⟨hbi, _, s1, r1, hs1, hrest⟩
  · exact hinv
  · exact hinv
  have hinv1 := inv_headerStep env s s1 b r1 hskip hinv hs1
  rcases hrest with ⟨e, _, rfl, _⟩ | ⟨hr1, hbody⟩
  · exact hinv1
  subst hr1
  cases r with
  | some e =>
    rcases bodyStep_err env s1 s' b e hbody with rfl | ⟨_, _, rfl⟩
    · exact hinv1
    · exact inv_spoil env hroot s1 b hinv1
  | none =>
    -- the recorded header at the block's index has the block's hash and hashable fields
    have hkh : ∃ kh, s1.headers[b.hdr.index]? = some kh ∧ kh.hash = b.hdr.hash ∧ SameCore kh b.hdr ∧
        s1.blockHeight = s.blockHeight ∧ s1.cfg = s.cfg := by
      rcases headerStep_spec env s s1 b none hne hs1 with ⟨_, hr, _⟩ | ⟨_, hi, rfl, _⟩ | ⟨_, _, rfl, kh, hk, hh, _⟩
      · cases hr
      · refine ⟨b.hdr, ?_, rfl, SameCore.rfl' _, rfl, rfl⟩
        show (s.headers ++ [b.hdr])[b.hdr.index]? = some b.hdr
        rw [hi, ← hlen]; simp
      · exact ⟨kh, hk, hh, hbind.1 kh (List.mem_of_getElem? hk) hh, rfl, rfl⟩
    obtain ⟨kh, hk, hh, hc, hb1, hc1⟩ := hkh
    have hskip1 : s1.cfg.skip = false := by rw [hc1]; exact hskip
    obtain ⟨_, _, _, hst⟩ := bodyStep_ok env s1 s' b hskip1 hbody
    obtain ⟨l', _, hn, rfl⟩ := storeBlock_ok env s1 s' b hst
    exact inv_commit env s1 hinv1 b l' kh (by rw [hb1]; exact hbi) hk hh hc hn

/-- the node right after genesis satisfies the invariant -/
theorem inv_genesis (env : Env L) (cfg : Cfg) (g : Header) (l : L) (p : List Tx) (hg : g.index = 0) :
    Inv env { cfg := cfg, blockHeight := 0, headers := [g], ledger := l, pool := p } := by
  constructor
  · simp
  · intro i x hx
    match i with
    | 0 => simp at hx; subst hx; exact hg
    | i + 1 => simp at hx
  · intro i prev cur _ _ hc
    simp at hc
  · intro _ nh hnh
    simp at hnh

end NeoModel.AddBlock
