/-
C20 (b) helper lemmas: Billet.Traverse with the callback of defineSyncStage (Model.StateSync.traverse).
-/
import NeoModel.Proofs.StateSyncClean
namespace NeoModel.StateSync

variable (db : Hash → Option SNode) (root : Hash) (refs : Hash → Nat)

/-- `d` is reached from `x` going down through stored nodes only (what Billet.Traverse visits). -/
inductive Desc : (Hash × Path) → (Hash × Path) → Prop
  | refl (x) : Desc x x
  | head {x k d} : 0 < refs x.1 → IsKidOf db k x → Desc k d → Desc x d

theorem Desc.tail {x y c : Hash × Path} (h : Desc db refs x y) (hs : 0 < refs y.1) (hk : IsKidOf db c y) :
    Desc db refs x c := by
  induction h with
  | refl x => exact .head hs hk (.refl _)
  | head h1 h2 _ ih => exact .head h1 h2 (ih hs hk)

/-- Invariant of the traversal: `P` the temporary pool, `Q` the positions already taken out of it. -/
structure J (P : Pool) (Q : Hash × Path → Prop) : Prop where
  disj : ∀ x ∈ P, ¬ Q x
  done : ∀ x, Q x → 0 < refs x.1 ∧ ∀ y, IsKidOf db y x → y ∈ P ∨ Q y
  par : ∀ x, (x ∈ P ∨ Q x) → Pos db root x.1 x.2 ∧ (x = (root, []) ∨ ∃ y, Q y ∧ IsKidOf db x y)
  nodup : P.Nodup

def Post (x : Hash × Path) (P : Pool) (Q : Hash × Path → Prop) : Prop :=
  ∀ d, Desc db refs x d → (d ∈ P ∨ Q d) ∧ (0 < refs d.1 → Q d)

def Mono (P : Pool) (Q : Hash × Path → Prop) (P' : Pool) (Q' : Hash × Path → Prop) : Prop :=
  (∀ x, Q x → Q' x) ∧ (∀ x, x ∈ P ∨ Q x → x ∈ P' ∨ Q' x)

theorem Mono.refl (P : Pool) (Q : Hash × Path → Prop) : Mono P Q P Q := ⟨fun _ h => h, fun _ h => h⟩

theorem Mono.trans {P1 P2 P3 : Pool} {Q1 Q2 Q3 : Hash × Path → Prop} (a : Mono P1 Q1 P2 Q2)
    (b : Mono P2 Q2 P3 Q3) : Mono P1 Q1 P3 Q3 :=
  ⟨fun x h => b.1 x (a.1 x h), fun x h => b.2 x (a.2 x h)⟩

theorem Post.mono {x : Hash × Path} {P P' : Pool} {Q Q' : Hash × Path → Prop}
    (h : Post db refs x P Q) (m : Mono P Q P' Q') : Post db refs x P' Q' :=
  fun d hd => ⟨m.2 d (h d hd).1, fun hs => m.1 d ((h d hd).2 hs)⟩

theorem traverse_succ (fuel : Nat) (P : Pool) (h : Hash) (path : Path) :
    traverse db refs (fuel + 1) P h path =
      if refs h = 0 then P
      else match db h with
        | none => P
        | some n =>
          n.kids.foldl (fun q k => traverse db refs fuel q k.2 (path ++ k.1))
            (if (pathsOf P h).isEmpty then P
             else addAll (removeHash P h) ((pathsOf P h).flatMap (fun q => childrenPaths q n))) := rfl

/-- One processing step of the callback keeps the invariant and puts `(h,p)` among the processed. -/
theorem process_step (wf : WF db root) (rk : Hash → Nat) (hrk : Ranked db rk) (P : Pool) (Q : Hash × Path → Prop)
    (h : Hash) (p : Path) (n : SNode) (hj : J db root refs P Q) (hin : (h, p) ∈ P ∨ Q (h, p))
    (hs : 0 < refs h) (hn : db h = some n) :
    let P1 := if (pathsOf P h).isEmpty then P
              else addAll (removeHash P h) ((pathsOf P h).flatMap (fun q => childrenPaths q n))
    let Q1 := fun x => Q x ∨ (x.1 = h ∧ x ∈ P)
    J db root refs P1 Q1 ∧ Mono P Q P1 Q1 ∧ Q1 (h, p) := by
  intro P1 Q1
  have hP1 : ∀ y, y ∈ P1 ↔ (y ∈ P ∧ y.1 ≠ h) ∨ ∃ q, (h, q) ∈ P ∧ ∃ k ∈ n.kids, y = (k.2, q ++ k.1) := by
    intro y
    show y ∈ (if (pathsOf P h).isEmpty then P else _) ↔ _
    split
    · rename_i he
      have hnone : ∀ q, (h, q) ∉ P := by
        intro q hq
        have : q ∈ pathsOf P h := (mem_pathsOf _ _ _).2 hq
        cases hpp : pathsOf P h with
        | nil => rw [hpp] at this; cases this
        | cons a r => simp [hpp] at he
      constructor
      · intro hy
        left; refine ⟨hy, ?_⟩
        intro e; exact hnone y.2 (by rw [← e]; exact hy)
      · rintro (⟨hy, _⟩ | ⟨q, hq, _⟩)
        · exact hy
        · exact absurd hq (hnone q)
    · simp only [mem_addAll, mem_removeHash, mem_kids, mem_pathsOf]
  have hq1 : Q1 (h, p) := by
    rcases hin with h1 | h1
    · exact .inr ⟨rfl, h1⟩
    · exact .inl h1
  -- a kid of a pool position is not processed
  have kidFresh : ∀ q, (h, q) ∈ P → ∀ k ∈ n.kids, ¬ Q1 (k.2, q ++ k.1) := by
    intro q hq k hk hq1'
    have hposq := (hj.par _ (.inl hq)).1
    have hne : k.2 ≠ h := by
      have := hrk h n k hn hk; intro e; rw [e] at this; omega
    rcases hq1' with hQ | ⟨he, _⟩
    · rcases (hj.par _ (.inr hQ)).2 with hr | ⟨y, hy, n', k', hn', hk', he⟩
      · exact wf.rootNotKid h q n k hposq hn hk hr
      · have := wf.uniqueParent h q n k y.1 y.2 n' k' hposq (hj.par _ (.inr hy)).1 hn hn' hk hk' he
        have hyq : y = (h, q) := Prod.ext this.1.symm this.2.symm
        exact hj.disj _ hq (hyq ▸ hy)
    · exact hne he
  refine ⟨⟨?_, ?_, ?_, ?_⟩, ⟨fun x hx => .inl hx, ?_⟩, hq1⟩
  · -- disj
    intro y hy hq
    rcases (hP1 y).1 hy with ⟨h1, h2⟩ | ⟨q, hq', k, hk, rfl⟩
    · rcases hq with h3 | ⟨h3, _⟩
      · exact hj.disj _ h1 h3
      · exact h2 h3
    · exact kidFresh q hq' k hk hq
  · -- done
    intro x hx
    rcases hx with hQ | ⟨he, hxP⟩
    · refine ⟨(hj.done x hQ).1, fun y hy => ?_⟩
      rcases (hj.done x hQ).2 y hy with h1 | h1
      · by_cases e : y.1 = h
        · exact .inr (.inr ⟨e, h1⟩)
        · exact .inl ((hP1 y).2 (.inl ⟨h1, e⟩))
      · exact .inr (.inl h1)
    · refine ⟨by rw [he]; exact hs, fun y hy => ?_⟩
      obtain ⟨n', k, hn', hk, rfl⟩ := hy
      rw [he, hn] at hn'; cases hn'
      left
      refine (hP1 _).2 (.inr ⟨x.2, ?_, k, hk, rfl⟩)
      rw [← he]; exact hxP
  · -- par
    intro y hy
    have old : (y ∈ P ∨ Q y) → Pos db root y.1 y.2 ∧ (y = (root, []) ∨ ∃ z, Q1 z ∧ IsKidOf db y z) := by
      intro h0
      obtain ⟨h1, h2⟩ := hj.par y h0
      refine ⟨h1, ?_⟩
      rcases h2 with h2 | ⟨z, hz, hk⟩
      · exact .inl h2
      · exact .inr ⟨z, .inl hz, hk⟩
    rcases hy with hy | hy
    · rcases (hP1 y).1 hy with ⟨h1, _⟩ | ⟨q, hq, k, hk, rfl⟩
      · exact old (.inl h1)
      · exact ⟨Pos.kid (hj.par _ (.inl hq)).1 hn hk, .inr ⟨(h, q), .inr ⟨rfl, hq⟩, n, k, hn, hk, rfl⟩⟩
    · rcases hy with hy | ⟨_, hy⟩
      · exact old (.inr hy)
      · exact old (.inl hy)
  · -- nodup
    show (if (pathsOf P h).isEmpty then P else _).Nodup
    split
    · exact hj.nodup
    · exact nodup_addAll _ _ (nodup_removeHash _ _ hj.nodup)
  · -- mono
    intro x hx
    rcases hx with hx | hx
    · by_cases e : x.1 = h
      · exact .inr (.inr ⟨e, hx⟩)
      · exact .inl ((hP1 x).2 (.inl ⟨hx, e⟩))
    · exact .inr (.inl hx)




theorem desc_unstored (x d : Hash × Path) (h0 : refs x.1 = 0) (hd : Desc db refs x d) : d = x := by
  cases hd with
  | refl => rfl
  | head h1 _ _ => omega

/-- Billet.Traverse with the callback of defineSyncStage: the invariant is kept, and everything below the
visited position that is reachable through stored nodes ends up discovered, the stored ones processed. -/
theorem traverse_spec (wf : WF db root) (rk : Hash → Nat) (hrk : Ranked db rk)
    (hst : ∀ c, 0 < refs c → ∃ n, db c = some n) (fuel : Nat) (P : Pool) (Q : Hash × Path → Prop)
    (h : Hash) (p : Path) (hj : J db root refs P Q) (hin : (h, p) ∈ P ∨ Q (h, p)) (hf : rk h < fuel) :
    ∃ Q', J db root refs (traverse db refs fuel P h p) Q' ∧ Mono P Q (traverse db refs fuel P h p) Q' ∧
      Post db refs (h, p) (traverse db refs fuel P h p) Q' := by
  induction fuel generalizing P Q h p with
  | zero => omega
  | succ f ih =>
    rw [traverse_succ]
    split
    · rename_i h0
      refine ⟨Q, hj, Mono.refl _ _, ?_⟩
      intro d hd
      rw [desc_unstored db refs (h, p) d h0 hd]
      exact ⟨hin, fun hs => by simp only at hs; omega⟩
    · rename_i hne
      have hs : 0 < refs h := by omega
      obtain ⟨n, hn⟩ := hst h hs
      simp only [hn]
      obtain ⟨Q1, hj1, hm1, hq1⟩ : ∃ Q1, J db root refs (if (pathsOf P h).isEmpty then P
             else addAll (removeHash P h) ((pathsOf P h).flatMap (fun q => childrenPaths q n))) Q1 ∧
          Mono P Q (if (pathsOf P h).isEmpty then P
             else addAll (removeHash P h) ((pathsOf P h).flatMap (fun q => childrenPaths q n))) Q1 ∧ Q1 (h, p) :=
        ⟨_, process_step db root refs wf rk hrk P Q h p n hj hin hs hn⟩
      generalize (if (pathsOf P h).isEmpty then P
             else addAll (removeHash P h) ((pathsOf P h).flatMap (fun q => childrenPaths q n))) = P1 at hj1 hm1
      -- the children, one after the other
      have fold : ∀ (kids : List (Path × Hash)), (∀ k ∈ kids, k ∈ n.kids) → ∀ (P2 : Pool) (Q2 : Hash × Path → Prop),
          J db root refs P2 Q2 → Q2 (h, p) →
          ∃ Q3, J db root refs (kids.foldl (fun q k => traverse db refs f q k.2 (p ++ k.1)) P2) Q3 ∧
            Mono P2 Q2 (kids.foldl (fun q k => traverse db refs f q k.2 (p ++ k.1)) P2) Q3 ∧
            ∀ k ∈ kids, Post db refs (k.2, p ++ k.1) (kids.foldl (fun q k => traverse db refs f q k.2 (p ++ k.1)) P2) Q3 := by
        intro kids
        induction kids with
        | nil => intro _ P2 Q2 hj2 _; exact ⟨Q2, hj2, Mono.refl _ _, fun k hk => by cases hk⟩
        | cons k r ihr =>
          intro hsub P2 Q2 hj2 hq2
          simp only [List.foldl_cons]
          have hkn : k ∈ n.kids := hsub k (by simp)
          have hkin : (k.2, p ++ k.1) ∈ P2 ∨ Q2 (k.2, p ++ k.1) :=
            (hj2.done _ hq2).2 _ ⟨n, k, hn, hkn, rfl⟩
          have hrkk : rk k.2 < f := by have := hrk h n k hn hkn; omega
          obtain ⟨Qa, hja, hma, hpa⟩ := ih P2 Q2 k.2 (p ++ k.1) hj2 hkin hrkk
          obtain ⟨Qb, hjb, hmb, hpb⟩ := ihr (fun k' hk' => hsub k' (by simp [hk'])) _ Qa hja (hma.1 _ hq2)
          refine ⟨Qb, hjb, hma.trans hmb, ?_⟩
          intro k' hk'
          simp only [List.mem_cons] at hk'
          rcases hk' with rfl | hk'
          · exact hpa.mono db refs hmb
          · exact hpb k' hk'
      obtain ⟨Q3, hj3, hm3, hp3⟩ := fold n.kids (fun _ hk => hk) P1 Q1 hj1 hq1
      refine ⟨Q3, hj3, hm1.trans hm3, ?_⟩
      intro d hd
      cases hd with
      | refl => exact ⟨.inr (hm3.1 _ hq1), fun _ => hm3.1 _ hq1⟩
      | head _ hk hd' =>
        obtain ⟨n', k, hn', hk', rfl⟩ := hk
        simp only at hn'
        rw [hn] at hn'; cases hn'
        exact hp3 k hk' d hd'

end NeoModel.StateSync
