/-
C12 proofs, part 5k: VALUES in general (cpValues clones Struct children, vm.go:2229-2248).
-/
import NeoModel.Proofs.VmAcctExecG
namespace NeoModel.VmAcct

variable {rest : Nat → Nat} {n : Nat}

theorem remW_refs_shift (w : List Item) (c : Ctr) (d : Int) :
    remW w { c with refs := c.refs + d } = { (remW w c) with refs := (remW w c).refs + d } := by
  fun_induction remW w c with
  | case1 c => simp [remW]
  | case2 x w c hx ih =>
    rw [remW]; simp only [hx]
    have : ({ heap := c.heap, refs := c.refs + d - 1 } : Ctr) = { ({ heap := c.heap, refs := c.refs - 1 } : Ctr) with refs := (c.refs - 1) + d } := by
      simp; omega
    rw [this]; exact ih
  | case3 x w c id hx hz ih =>
    rw [remW]; simp only [hx, hz, if_true]; exact ih
  | case4 x w c id hx hnz h1 ih =>
    rw [remW]; simp only [hx, hnz, h1, if_true, if_false]
    have : ({ heap := decRC c.heap id, refs := c.refs + d - 1 } : Ctr) = { ({ heap := decRC c.heap id, refs := c.refs - 1 } : Ctr) with refs := (c.refs - 1) + d } := by
      simp; omega
    rw [this]; exact ih
  | case5 x w c id hx hnz h1 ih =>
    rw [remW]; simp only [hx, hnz, h1, if_false]
    have : ({ heap := decRC c.heap id, refs := c.refs + d - 1 } : Ctr) = { ({ heap := decRC c.heap id, refs := c.refs - 1 } : Ctr) with refs := (c.refs - 1) + d } := by
      simp; omega
    rw [this]; exact ih

def shiftW (w : W) (d : Int) : W := { w with c := { w.c with refs := w.c.refs + d } }

theorem cloneIfStruct_shift (w : W) (x : Item) (d : Int) :
    (shiftW w d).cloneIfStruct x = (w.cloneIfStruct x).map (fun p => (p.1, p.2.1, shiftW p.2.2 d)) := by
  unfold W.cloneIfStruct
  cases x with
  | str id =>
    simp only [shiftW]
    cases cloneStruct cloneFuel w.c.heap id with
    | none => rfl
    | some p => rfl
  | prim => rfl
  | arr _ => rfl
  | map _ => rfl

theorem cpValues_shift (d : Int) : ∀ (xs : List Item) (b : Bool) (w : W),
    cpValues xs b (shiftW w d) = (cpValues xs b w).map (fun p => (p.1, shiftW p.2 d)) := by
  intro xs
  induction xs with
  | nil => intro b w; cases b <;> rfl
  | cons x t ih =>
    intro b w
    cases b with
    | true =>
      simp only [cpValues, cloneIfStruct_shift]
      cases hc : w.cloneIfStruct x with
      | none => rfl
      | some p =>
        obtain ⟨cl, isS, w1⟩ := p
        simp only [Option.map_some]
        have e : ({ shiftW w1 d with c := (shiftW w1 d).c.add cl } : W) = shiftW { w1 with c := w1.c.add cl } d := by
          simp only [shiftW, Ctr.add]
          rw [addW_refs_shift [cl] w1.c d]
        rw [e, ih true]
        cases cpValues t true { w1 with c := w1.c.add cl } <;> rfl
    | false =>
      simp only [cpValues, cloneIfStruct_shift]
      cases hc : w.cloneIfStruct x with
      | none => rfl
      | some p =>
        obtain ⟨cl, isS, w1⟩ := p
        simp only [Option.map_some]
        have e : (if isS = true then ({ shiftW w1 d with c := ((shiftW w1 d).c.rem x).add cl } : W) else shiftW w1 d)
            = shiftW (if isS = true then { w1 with c := (w1.c.rem x).add cl } else w1) d := by
          cases isS with
          | false => rfl
          | true =>
            simp only [if_true, shiftW, Ctr.add, Ctr.rem]
            rw [remW_refs_shift [x] w1.c d, addW_refs_shift [cl] _ d]
        rw [e, ih false]
        cases cpValues t false (if isS = true then { w1 with c := (w1.c.rem x).add cl } else w1) <;> rfl

/-- cpValues for a container that stays referenced: every (cloned) child is added -/
theorem cpv_ref_inv : ∀ (xs : List Item) (w : W) (arr : List Item) (w' : W) (f : Nat → Nat) (m : Nat),
    cpValues xs true w = some (arr, w') → InvC w.c f m → (∀ x ∈ xs, WfItem w.c.heap x) →
    InvC w'.c (fun j => f j + cnt j arr) (m + arr.length) ∧ w'.st = w.st := by
  intro xs
  induction xs with
  | nil =>
    intro w arr w' f m h inv _
    simp only [cpValues, Option.some.injEq, Prod.mk.injEq] at h
    obtain ⟨rfl, rfl⟩ := h
    exact ⟨inv.congr (by intro j; simp) (by simp), rfl⟩
  | cons x t ih =>
    intro w arr w' f m h inv hv
    simp only [cpValues] at h
    cases hc : w.cloneIfStruct x with
    | none => simp [hc] at h
    | some p =>
      obtain ⟨cl, isS, w1⟩ := p
      simp only [hc] at h
      obtain ⟨e1, hst1, hr1, hval, _⟩ := cloneIfStruct_spec w x cl isS w1 hc inv.wf (hv x (List.mem_cons_self ..))
      have i1 := clone_invW e1 hst1 hr1 inv
      obtain ⟨i2, ss2⟩ := inv_add cl hval i1
      cases hr : cpValues t true { w1 with c := w1.c.add cl } with
      | none => simp [hr] at h
      | some q =>
        obtain ⟨r, w2⟩ := q
        simp only [hr, Option.some.injEq, Prod.mk.injEq] at h
        obtain ⟨rfl, rfl⟩ := h
        obtain ⟨i3, hst3⟩ := ih { w1 with c := w1.c.add cl } r w2 _ _ hr i2
          (fun y hy => wfItem_of_len (hv y (List.mem_cons_of_mem _ hy)) (by
            show w.c.heap.length ≤ (w1.c.add cl).heap.length
            rw [ss2.1]; exact e1.len))
        exact ⟨i3.congr (by intro j; simp only [cnt_cons, cnt_nil]; omega) (by simp only [List.length_cons]; omega), by rw [hst3]; exact hst1⟩

/-- cpValues for a container that is no longer referenced: the children (counted) move over, a
Struct child is replaced by its clone -/
theorem cpv_unref_inv : ∀ (xs : List Item) (w : W) (arr : List Item) (w' : W) (f : Nat → Nat) (m : Nat),
    cpValues xs false w = some (arr, w') → InvC w.c (fun j => f j + cnt j xs) (m + xs.length) →
    InvC w'.c (fun j => f j + cnt j arr) (m + arr.length) ∧ w'.st = w.st := by
  intro xs
  induction xs with
  | nil =>
    intro w arr w' f m h inv
    simp only [cpValues, Option.some.injEq, Prod.mk.injEq] at h
    obtain ⟨rfl, rfl⟩ := h
    exact ⟨inv, rfl⟩
  | cons x t ih =>
    intro w arr w' f m h inv
    simp only [cpValues] at h
    have hx : WfItem w.c.heap x := by
      intro d hd
      exact inv.valid (d := d) (by simp [cnt_cons, hd]; omega)
    cases hc : w.cloneIfStruct x with
    | none => simp [hc] at h
    | some p =>
      obtain ⟨cl, isS, w1⟩ := p
      simp only [hc] at h
      obtain ⟨e1, hst1, hr1, hval, hns⟩ := cloneIfStruct_spec w x cl isS w1 hc inv.wf hx
      have i1 := clone_invW e1 hst1 hr1 inv
      -- after the (possible) Remove(x); Add(clone): the clone is counted in place of x
      have i2 : InvC (if isS = true then ({ w1 with c := (w1.c.rem x).add cl } : W) else w1).c
          (fun j => (f j + cnt j [cl]) + cnt j t) ((m + 1) + t.length) ∧
          (if isS = true then ({ w1 with c := (w1.c.rem x).add cl } : W) else w1).st = w.st := by
        cases isS with
        | false =>
          obtain ⟨rfl, rfl⟩ := hns rfl
          exact ⟨i1.congr (by intro j; simp only [cnt_cons, cnt_nil]; omega) (by simp only [List.length_cons]; omega), rfl⟩
        | true =>
          simp only [if_true]
          obtain ⟨i2, ss2⟩ := inv_rem (f := fun j => f j + cnt j t) (n := m + t.length) x
            (i1.congr (by intro j; simp only [cnt_cons, cnt_nil]; omega) (by simp only [List.length_cons]; omega))
          obtain ⟨i3, _⟩ := inv_add cl (wfItem_of_len hval (by rw [ss2.1]; exact Nat.le_refl _)) i2
          exact ⟨i3.congr (by intro j; omega) (by omega), hst1⟩
      cases hr : cpValues t false (if isS = true then ({ w1 with c := (w1.c.rem x).add cl } : W) else w1) with
      | none => simp [hr] at h
      | some q =>
        obtain ⟨r, w2⟩ := q
        simp only [hr, Option.some.injEq, Prod.mk.injEq] at h
        obtain ⟨rfl, rfl⟩ := h
        obtain ⟨i3, hst3⟩ := ih _ r w2 (fun j => f j + cnt j [cl]) (m + 1) hr i2.1
        exact ⟨i3.congr (by intro j; simp only [cnt_cons, cnt_nil]; omega) (by simp only [List.length_cons]; omega), by rw [hst3]; exact i2.2⟩

end NeoModel.VmAcct

namespace NeoModel.VmAcct

variable {rest : Nat → Nat} {n : Nat}

/-- the end of VALUES: `wb` is the state in which the popped reference has been discounted
(`refs - 1`); the real computation runs one count higher and hands that count to the new array -/
theorem values_finish (wb : W) (xs : List Item) (b : Bool) (arr : List Item) (w3 : W) (f : Nat → Nat) (m : Nat)
    (hT : b = true → InvC wb.c f m ∧ ∀ x ∈ xs, WfItem wb.c.heap x)
    (hF : b = false → InvC wb.c (fun j => f j + cnt j xs) (m + xs.length))
    (h : cpValues xs b (shiftW wb 1) = some (arr, w3)) :
    InvC { heap := w3.c.heap ++ [{ rc := 1, ch := arr }], refs := w3.c.refs }
      (fun j => f j + (if j = w3.c.heap.length then 1 else 0)) (m + 1) ∧ w3.st = wb.st := by
  rw [cpValues_shift] at h
  cases hb : cpValues xs b wb with
  | none => simp [hb] at h
  | some p =>
    obtain ⟨arr', w3'⟩ := p
    simp only [hb, Option.map_some, Option.some.injEq, Prod.mk.injEq] at h
    obtain ⟨rfl, rfl⟩ := h
    have key : InvC w3'.c (fun j => f j + cnt j arr') (m + arr'.length) ∧ w3'.st = wb.st := by
      cases b with
      | true => exact cpv_ref_inv xs wb arr' w3' f m hb (hT rfl).1 (hT rfl).2
      | false => exact cpv_unref_inv xs wb arr' w3' f m hb (hF rfl)
    have i4 := inv_alloc1 arr' key.1
    exact ⟨i4, key.2⟩

theorem values_inv' {w w' : W} (inv : InvW w rest n)
    (hmap : ∀ id r, w.st = .map id :: r → (chOf w.c.heap id).length % 2 = 0 ∧ ∀ x ∈ evens (chOf w.c.heap id), x.cid = none)
    (h : execS .values w = some (.ok w')) : InvW w' rest n := by
  simp only [execS] at h
  cases hp : w.popNoRef with
  | none => simp [hp] at h
  | some r =>
    obtain ⟨item, w1⟩ := r
    simp only [hp] at h
    obtain ⟨i1, hc1, hst1⟩ := popNoRef_inv inv hp
    have i1' : InvC w1.c (fun j => (cnt j w1.st + rest j) + cnt j [item]) ((w1.st.length + n) + 1) :=
      i1.congr (by intro j; simp only []; omega) (by omega)
    have hchw : ∀ id, chOf w1.c.heap id = chOf w.c.heap id := by intro id; rw [hc1]
    have fin : ∀ (c4 : Ctr) (a : Nat) (st : List Item), st = w1.st →
        InvC c4 (fun j => (cnt j w1.st + rest j) + (if j = a then 1 else 0)) ((w1.st.length + n) + 1) →
        InvW ({ c := c4, st := Item.arr a :: st } : W) rest n := by
      intro c4 a st hst i
      subst hst
      refine i.congr ?_ ?_
      · intro j; have := cnt_arr_singleton a j; simp only [cnt_cons, cnt_nil] at this ⊢; omega
      · simp only [List.length_cons]; omega
    -- the discounted base state
    have seqCase : ∀ id, item.cid = some id →
        (match cpValues (chOf (w1.setHeap (decRC w1.c.heap id)).c.heap id) (decide (rcOf (w1.setHeap (decRC w1.c.heap id)).c.heap id ≠ 0))
            (w1.setHeap (decRC w1.c.heap id)) with
          | none => none
          | some (arr, w) => okW (((w.alloc { rc := 1, ch := arr }).2).pushNoRef (.arr (w.alloc { rc := 1, ch := arr }).1))) = some (Outcome.ok w') →
        InvW w' rest n := by
      intro id hcid h
      have hch : chOf (w1.setHeap (decRC w1.c.heap id)).c.heap id = chOf w1.c.heap id := by simp [W.setHeap]
      let wb : W := { c := { heap := decRC w1.c.heap id, refs := w1.c.refs - 1 }, st := w1.st }
      have hwb : w1.setHeap (decRC w1.c.heap id) = shiftW wb 1 := by
        simp only [W.setHeap, shiftW, wb]
        congr 2; omega
      rw [hch, hwb] at h
      have hd := inv_decRC_direct item id hcid i1'
      have hrc : rcOf (shiftW wb 1).c.heap id = rcOf (decRC w1.c.heap id) id := rfl
      cases hcp : cpValues (chOf w1.c.heap id) (decide (rcOf (shiftW wb 1).c.heap id ≠ 0)) (shiftW wb 1) with
      | none => rw [hcp] at h; cases h
      | some p =>
        obtain ⟨arr, w3⟩ := p
        rw [hcp] at h
        simp only [okW, W.alloc, W.setHeap, W.pushNoRef, Option.some.injEq, Outcome.ok.injEq] at h
        rw [← h]
        obtain ⟨i4, hst4⟩ := values_finish wb (chOf w1.c.heap id) _ arr w3 (fun j => cnt j w1.st + rest j) (w1.st.length + n)
          (by
            intro hb
            have hr : rcOf (decRC w1.c.heap id) id ≠ 0 := by simpa [hrc] using hb
            refine ⟨hd.1 hr, fun x hx d hdd => ?_⟩
            simpa [wb] using i1'.wf id x d hx hdd)
          (by
            intro hb
            have hr : rcOf (decRC w1.c.heap id) id = 0 := by simpa [hrc] using hb
            exact hd.2 hr) hcp
        exact fin _ _ _ hst4 i4
    cases item with
    | prim => simp at h
    | arr id => exact seqCase id rfl h
    | str id => exact seqCase id rfl h
    | map id =>
      simp only at h
      obtain ⟨hev, hkeys⟩ := hmap id w1.st hst1
      rw [← hchw] at hev hkeys
      have hch : chOf (w1.setHeap (decRC w1.c.heap id)).c.heap id = chOf w1.c.heap id := by simp [W.setHeap]
      have eo := fun j => cnt_evens_odds j (chOf w1.c.heap id)
      have hkl : (chOf w1.c.heap id).length / 2 = (evens (chOf w1.c.heap id)).length := (eo 0).2.2 hev
      have hd := inv_decRC_direct (.map id) id rfl i1'
      simp only [hch] at h
      by_cases hr : rcOf (decRC w1.c.heap id) id = 0
      · -- keys are discounted as well
        let wb : W := { c := { heap := decRC w1.c.heap id, refs := w1.c.refs - 1 - (evens (chOf w1.c.heap id)).length }, st := w1.st }
        have hwb : (w1.setHeap (decRC w1.c.heap id)).addRefs (-Int.ofNat ((chOf w1.c.heap id).length / 2)) = shiftW wb 1 := by
          simp only [W.setHeap, W.addRefs, shiftW, wb, hkl, Int.ofNat_eq_natCast]
          congr 2; omega
        simp only [W.setHeap, hr, ne_eq, not_true_eq_false, decide_false, Bool.false_eq_true, if_false] at h
        have hwb' : ({ c := { heap := decRC w1.c.heap id, refs := w1.c.refs }, st := w1.st } : W).addRefs
            (-Int.ofNat ((chOf w1.c.heap id).length / 2)) = shiftW wb 1 := hwb
        rw [hwb'] at h
        cases hcp : cpValues (odds (chOf w1.c.heap id)) false (shiftW wb 1) with
        | none => simp [hcp] at h
        | some p =>
          obtain ⟨arr, w3⟩ := p
          simp only [hcp, okW, W.alloc, W.setHeap, W.pushNoRef, Option.some.injEq, Outcome.ok.injEq] at h
          rw [← h]
          have i2 := hd.2 hr
          obtain ⟨i4, hst4⟩ := values_finish wb (odds (chOf w1.c.heap id)) false arr w3 (fun j => cnt j w1.st + rest j) (w1.st.length + n)
            (by intro hb; cases hb)
            (by
              intro _
              refine ⟨i2.wf, fun j => ?_, ?_⟩
              · have := i2.rc j; have := (eo j).1
                rw [cnt_of_prims j _ hkeys] at this
                simp only [wb] at *; omega
              · have := i2.refs; have := (eo 0).2.1
                simp only [wb] at *; push_cast at *; omega) hcp
          exact fin _ _ _ hst4 i4
      · let wb : W := { c := { heap := decRC w1.c.heap id, refs := w1.c.refs - 1 }, st := w1.st }
        have hwb : w1.setHeap (decRC w1.c.heap id) = shiftW wb 1 := by
          simp only [W.setHeap, shiftW, wb]
          congr 2; omega
        simp only [W.setHeap, ne_eq, hr, not_false_eq_true, decide_true, if_true] at h
        have hwb' : ({ c := { heap := decRC w1.c.heap id, refs := w1.c.refs }, st := w1.st } : W) = shiftW wb 1 := hwb
        rw [hwb'] at h
        cases hcp : cpValues (odds (chOf w1.c.heap id)) true (shiftW wb 1) with
        | none => simp [hcp] at h
        | some p =>
          obtain ⟨arr, w3⟩ := p
          simp only [hcp, okW, W.alloc, W.setHeap, W.pushNoRef, Option.some.injEq, Outcome.ok.injEq] at h
          rw [← h]
          obtain ⟨i4, hst4⟩ := values_finish wb (odds (chOf w1.c.heap id)) true arr w3 (fun j => cnt j w1.st + rest j) (w1.st.length + n)
            (by
              intro _
              refine ⟨hd.1 hr, fun x hx d hdd => ?_⟩
              simpa [wb] using i1'.wf id x d (odds_mem _ x hx) hdd)
            (by intro hb; cases hb) hcp
          exact fin _ _ _ hst4 i4

end NeoModel.VmAcct
