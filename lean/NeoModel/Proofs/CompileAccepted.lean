/-
C14: the size hypotheses of the byte-level theorems are the compiler's own rejections.  `Compile.accepted` models the
three errors pkg/compiler returns for an oversized program (more than 255 arguments, more than 255 local slots, a
jump offset beyond int32); an accepted program of allowed functions has an `encodable`, hence `layoutOK`, output.
-/
import NeoModel.Proofs.CompileOperands
import NeoModel.Proofs.CompileLayout
namespace NeoModel.CompileProofs
open NeoModel.MiniVm NeoModel.MiniVm.Asm NeoModel.MiniGo NeoModel.Compile

theorem compFunc_enc_cnt (tbl : List (String × Nat × Nat)) (d : FuncDecl) (label nl : Nat) (hal : Allowed [] d.body)
    (hpar : d.params.length ≤ 255)
    (hN : (compS { funcs := tbl, args := d.params } [] (.block d.body) { nl := nl, cnt := 0, scopes := [[]] }).2.cnt ≤ 255)
    (hlits : LitsS d.body) :
    ∀ it ∈ (compFunc tbl d label nl).1, itemEnc it = true := by
  have hcode : (compFunc tbl d label nl).1 =
      [Item.lbl label, initSlotItem (compS { funcs := tbl, args := d.params } [] (.block d.body) { nl := nl, cnt := 0, scopes := [[]] }).2.cnt d.params.length] ++
        (compS { funcs := tbl, args := d.params } [] (.block d.body) { nl := nl, cnt := 0, scopes := [[]] }).1 ++
        (if lastIsRet d.body then [] else [Item.ins .ret]) := rfl
  have hwf : Wf { nl := nl, cnt := 0, scopes := [[]] } := ⟨by simp [slotsOf], by simp [slotsOf], by simp⟩
  have hitems := (compS_items_aux { funcs := tbl, args := d.params }
    (compS { funcs := tbl, args := d.params } [] (.block d.body) { nl := nl, cnt := 0, scopes := [[]] }).2.cnt d.params.length (.block d.body)).1
    [] 0 { nl := nl, cnt := 0, scopes := [[]] } (by simpa [Shape, swCount] using allowed_shape d.body [] hal)
    ⟨by simp [totalSz], by omega, Nat.le_refl _⟩ hwf (Nat.le_refl _) hlits
  rw [hcode]
  generalize compS { funcs := tbl, args := d.params } [] (.block d.body) { nl := nl, cnt := 0, scopes := [[]] } = r at hN hitems ⊢
  intro it hit
  simp only [List.mem_append, List.mem_cons, List.not_mem_nil, or_false] at hit
  rcases hit with ((rfl | rfl) | h) | h
  · rfl
  · unfold initSlotItem
    split
    · rfl
    · simp [itemEnc]; omega
  · exact itemBelow_enc (N := r.2.cnt) (A := d.params.length) (by omega) (by omega) (hitems it h)
  · split at h
    · cases h
    · simp at h; subst h; rfl

theorem compFuncs_enc_acc (tbl : List (String × Nat × Nat)) : ∀ (l : List FuncDecl) (i nl : Nat),
    (∀ d ∈ l, Allowed [] d.body) → (∀ d ∈ l, LitsS d.body) → acceptedFuncs tbl l i nl = true →
    ∀ it ∈ compFuncs tbl l i nl, itemEnc it = true := by
  intro l
  induction l with
  | nil => intro i nl _ _ _ it h; simp [compFuncs] at h
  | cons d r ih =>
    intro i nl hal hl hacc it hit
    simp only [acceptedFuncs, Bool.and_eq_true, decide_eq_true_eq] at hacc
    simp only [compFuncs, List.mem_append] at hit
    rcases hit with h | h
    · exact compFunc_enc_cnt tbl d i nl (hal d (by simp)) hacc.1.1 hacc.1.2 (hl d (by simp)) it h
    · exact ih (i + 1) _ (fun d' hd' => hal d' (List.mem_cons_of_mem _ hd')) (fun d' hd' => hl d' (List.mem_cons_of_mem _ hd')) hacc.2 it h

/-- **the layout condition from the compiler's own acceptance**: for a program of allowed functions whose literals
    fit 256 bits (go/types guarantees int64), if the compiler does not reject the program for its size
    (`accepted`), its output is `encodable`, hence `layoutOK`: the hypotheses `SmallFn` (a source-level
    over-approximation of the slot count) and `longLen < 2^31` of the byte-level theorems are what the compiler
    itself enforces. -/
theorem encodable_of_accepted (P : Prog) (hall : ∀ d ∈ P, Allowed [] d.body) (hl : ∀ d ∈ P, LitsS d.body)
    (hacc : accepted P = true) : encodable (compProg P) = true := by
  simp only [accepted, Bool.and_eq_true, decide_eq_true_eq] at hacc
  simp only [encodable, Bool.and_eq_true, decide_eq_true_eq]
  refine ⟨⟨?_, targetsMarked_of_allowed P hall⟩, hacc.2⟩
  rw [List.all_eq_true]
  exact compFuncs_enc_acc (funcTable P) P 0 P.length hall hl hacc.1

theorem layoutOK_of_accepted (P : Prog) (hall : ∀ d ∈ P, Allowed [] d.body) (hl : ∀ d ∈ P, LitsS d.body)
    (hacc : accepted P = true) : layoutOK (compProg P) = true :=
  layoutOK_of_encodable _ (encodable_of_accepted P hall hl hacc)

/-- a source-level sufficient condition (the previous hypotheses) implies acceptance. -/
theorem accepted_of_small (P : Prog) (hs : ∀ d ∈ P, SmallFn d) (hlen : longLen (compProg P) < 2 ^ 31) : accepted P = true := by
  simp only [accepted, Bool.and_eq_true, decide_eq_true_eq]
  refine ⟨?_, hlen⟩
  have : ∀ (l : List FuncDecl) (i nl : Nat), (∀ d ∈ l, SmallFn d) → acceptedFuncs (funcTable P) l i nl = true := by
    intro l
    induction l with
    | nil => intro i nl _; rfl
    | cons d r ih =>
      intro i nl h
      simp only [acceptedFuncs, Bool.and_eq_true, decide_eq_true_eq]
      obtain ⟨hp, hd, _⟩ := h d (by simp)
      have hc := compS_cnt_le { funcs := funcTable P, args := d.params } (.block d.body) [] { nl := nl, cnt := 0, scopes := [[]] }
      simp only [declBound, Nat.zero_add] at hc
      exact ⟨⟨hp, by omega⟩, ih _ _ (fun d' hd' => h d' (List.mem_cons_of_mem _ hd'))⟩
  exact this P 0 P.length hs

end NeoModel.CompileProofs
