/-
C13 ↔ C12: the specification's reference count `NeoModel.Vm.reach` (a fuelled work-list traversal with a
`seen` array, Model/Vm/Machine.lean) computes exactly C12's `reachFrom` (the walk the counter theorems are
stated against) on the abstraction of the specification's heap. Together with `VmRefDiff.lean` this states
the known finding `refcount-cyclic-garbage` as a theorem between the specification and the implementation's
counter model: `spec_counter_differs_only_with_cyclic_garbage`.
-/
import NeoModel.Model.Vm
import NeoModel.Proofs.VmRefDiff
open NeoModel
namespace NeoModel.Vm.RefTie

/-- a specification item as the counter sees it: a reference to a compound, or a leaf. -/
def absItem : Vm.Item → VmAcct.Item
  | .array id => .arr id
  | .struct id => .str id
  | .map id => .map id
  | _ => .prim

/-- the children of a specification heap object (Buffers have none); the own count is not used by `reachFrom`. -/
def absCell (o : Vm.HeapObj) : VmAcct.Cell := { rc := 0, ch := o.children.map absItem }
def absHeap (h : Vm.Heap) : VmAcct.Heap := h.toList.map absCell

theorem absItem_cid (x : Vm.Item) : (absItem x).cid = x.compoundId := by cases x <;> rfl

theorem absHeap_length (h : Vm.Heap) : (absHeap h).length = h.size := by simp [absHeap]

def kidsOf (h : Vm.Heap) (id : Nat) : List Vm.Item := match h[id]? with | some o => o.children | none => []

theorem chOf_absHeap (h : Vm.Heap) (id : Nat) : VmAcct.chOf (absHeap h) id = (kidsOf h id).map absItem := by
  unfold VmAcct.chOf absHeap kidsOf
  simp only [List.getElem?_map, Array.getElem?_toList]
  cases h[id]? <;> simp [absCell]

/-- children still to be discovered: Σ over unvisited in-range ids of their number of children. -/
def unvisitedSum (H : VmAcct.Heap) (vis : List Nat) : Nat :=
  ((List.range H.length).map fun i => if vis.contains i then 0 else (VmAcct.chOf H i).length).sum

theorem unvisitedSum_cons_le (H : VmAcct.Heap) (vis : List Nat) (id : Nat) :
    unvisitedSum H (id :: vis) ≤ unvisitedSum H vis := by
  unfold unvisitedSum
  generalize List.range H.length = l
  induction l with
  | nil => simp
  | cons a t ih =>
    simp only [List.map_cons, List.sum_cons]
    have : (if (id :: vis).contains a then 0 else (VmAcct.chOf H a).length) ≤
        (if vis.contains a then 0 else (VmAcct.chOf H a).length) := by
      simp only [List.contains_cons]
      cases vis.contains a <;> cases (a == id) <;> simp
    omega

theorem unvisitedSum_cons_new (H : VmAcct.Heap) (vis : List Nat) (id : Nat) (hid : id < H.length)
    (hnv : vis.contains id = false) :
    unvisitedSum H (id :: vis) + (VmAcct.chOf H id).length = unvisitedSum H vis := by
  unfold unvisitedSum
  have key : ∀ (l : List Nat), l.Nodup →
      ((l.map fun i => if (id :: vis).contains i then 0 else (VmAcct.chOf H i).length).sum +
        (if id ∈ l then (VmAcct.chOf H id).length else 0) =
      (l.map fun i => if vis.contains i then 0 else (VmAcct.chOf H i).length).sum) := by
    intro l
    induction l with
    | nil => intro _; simp
    | cons a t ih =>
      intro hnd
      have hnd' := (List.nodup_cons.mp hnd)
      have := ih hnd'.2
      simp only [List.map_cons, List.sum_cons, List.mem_cons]
      by_cases ha : a = id
      · subst ha
        have hnt : ¬ a ∈ t := hnd'.1
        have hnm : a ∉ vis := by simpa using hnv
        simp only [hnt, if_false] at this
        simp [hnm] at this ⊢
        omega
      · have hne : ¬ id = a := fun h => ha h.symm
        have e1 : (id :: vis).contains a = vis.contains a := by simp [ha]
        simp only [e1, hne, false_or]
        omega
  have := key (List.range H.length) List.nodup_range
  simpa [List.mem_range, hid] using this

/-- `seen` marks exactly the visited in-range ids. -/
def SeenOk (h : Vm.Heap) (seen : Array Bool) (vis : List Nat) : Prop :=
  seen.size = h.size ∧ ∀ id, id < h.size → (seen.getD id true = true ↔ id ∈ vis)

theorem childSum_cons (H : VmAcct.Heap) (id : Nat) (vis : List Nat) :
    VmAcct.childSum H (id :: vis) = (VmAcct.chOf H id).length + VmAcct.childSum H vis := by
  simp [VmAcct.childSum]

/-- the traversal of the specification equals the walk, for every intermediate state with enough fuel. -/
theorem reachLoop_eq_walk (h : Vm.Heap) : ∀ (w : List VmAcct.Item) (vis : List Nat) (work : List Vm.Item)
    (seen : Array Bool) (acc fuel : Nat),
    w = work.map absItem → SeenOk h seen vis → work.length + unvisitedSum (absHeap h) vis ≤ fuel →
    Vm.reachLoop h fuel work seen acc + VmAcct.childSum (absHeap h) vis =
      acc + work.length + VmAcct.childSum (absHeap h) (VmAcct.walk (absHeap h) w vis) := by
  intro w vis
  fun_induction VmAcct.walk (absHeap h) w vis with
  | case1 vis =>
    intro work seen acc fuel hw _ _
    have : work = [] := by cases work <;> simp_all
    subst this
    cases fuel <;> simp [Vm.reachLoop]
  | case2 x w vis hx ih =>
    intro work seen acc fuel hw hs hf
    cases work with
    | nil => simp at hw
    | cons y rest =>
      simp only [List.map_cons, List.cons.injEq] at hw
      obtain ⟨rfl, rfl⟩ := hw
      have hc : y.compoundId = none := by rw [← absItem_cid]; exact hx
      cases fuel with
      | zero => simp at hf
      | succ f =>
        simp only [Vm.reachLoop, hc]
        have := ih rest seen (acc + 1) f rfl hs (by simp at hf; omega)
        simp only [List.length_cons]; omega
  | case3 x w vis id hx hv ih =>
    intro work seen acc fuel hw hs hf
    cases work with
    | nil => simp at hw
    | cons y rest =>
      simp only [List.map_cons, List.cons.injEq] at hw
      obtain ⟨rfl, rfl⟩ := hw
      have hc : y.compoundId = some id := by rw [← absItem_cid]; exact hx
      cases fuel with
      | zero => simp at hf
      | succ f =>
        have hseen : seen.getD id true = true := by
          by_cases hid : id < h.size
          · exact (hs.2 id hid).mpr (by simpa using hv)
          · simp [Array.getD, hs.1, hid]
        simp only [Vm.reachLoop, hc, hseen, if_true]
        have := ih rest seen (acc + 1) f rfl hs (by simp at hf; omega)
        simp only [List.length_cons]; omega
  | case4 x w vis id hx hv hl ih =>
    intro work seen acc fuel hw hs hf
    cases work with
    | nil => simp at hw
    | cons y rest =>
      simp only [List.map_cons, List.cons.injEq] at hw
      obtain ⟨rfl, rfl⟩ := hw
      have hc : y.compoundId = some id := by rw [← absItem_cid]; exact hx
      have hid : id < h.size := by rw [← absHeap_length]; exact hl
      have hnv : vis.contains id = false := by simpa using hv
      cases fuel with
      | zero => simp at hf
      | succ f =>
        have hseen : seen.getD id true = false := by
          have := (hs.2 id hid)
          cases hg : seen.getD id true
          · rfl
          · exact absurd (this.mp hg) (by simpa using hv)
        simp only [Vm.reachLoop, hc, hseen]
        have hs' : SeenOk h (seen.setIfInBounds id true) (id :: vis) := by
          refine ⟨by simp [hs.1], ?_⟩
          intro j hj
          by_cases hji : j = id
          · subst hji; simp [Array.getD, hs.1, hj]
          · have : (seen.setIfInBounds id true).getD j true = seen.getD j true := by
              simp [Array.getD, hs.1, hj, Ne.symm hji]
            rw [this, hs.2 j hj]
            simp [hji]
        have hnew := unvisitedSum_cons_new (absHeap h) vis id hl hnv
        have hk : VmAcct.chOf (absHeap h) id = (kidsOf h id).map absItem := chOf_absHeap h id
        have hlen : (VmAcct.chOf (absHeap h) id).length = (kidsOf h id).length := by rw [hk, List.length_map]
        have hfuel : (kidsOf h id ++ rest).length + unvisitedSum (absHeap h) (id :: vis) ≤ f := by
          simp only [List.length_append, List.length_cons] at hf ⊢
          omega
        have := ih (kidsOf h id ++ rest) (seen.setIfInBounds id true) (acc + 1) f
          (by rw [List.map_append, hk]) hs' hfuel
        rw [childSum_cons] at this
        simp only [List.length_append, List.length_cons] at this ⊢
        simp only [Bool.false_eq_true, if_false]
        show Vm.reachLoop h f (kidsOf h id ++ rest) _ _ + _ = _
        omega
  | case5 x w vis id hx hv hl ih =>
    intro work seen acc fuel hw hs hf
    cases work with
    | nil => simp at hw
    | cons y rest =>
      simp only [List.map_cons, List.cons.injEq] at hw
      obtain ⟨rfl, rfl⟩ := hw
      have hc : y.compoundId = some id := by rw [← absItem_cid]; exact hx
      have hid : ¬ id < h.size := by rw [← absHeap_length]; exact hl
      cases fuel with
      | zero => simp at hf
      | succ f =>
        have hseen : seen.getD id true = true := by simp [Array.getD, hs.1, hid]
        simp only [Vm.reachLoop, hc, hseen, if_true]
        have hs' : SeenOk h seen (id :: vis) := by
          refine ⟨hs.1, ?_⟩
          intro j hj
          rw [hs.2 j hj]
          have : j ≠ id := fun e => hid (e ▸ hj)
          simp [this]
        have hle := unvisitedSum_cons_le (absHeap h) vis id
        have := ih rest seen (acc + 1) f rfl hs' (by simp at hf; omega)
        rw [childSum_cons] at this
        have h0 : (VmAcct.chOf (absHeap h) id).length = 0 := by
          unfold VmAcct.chOf
          rw [List.getElem?_eq_none (by omega)]
          rfl
        simp only [List.length_cons]; omega

/-! ### the initial state of the traversal -/

theorem foldl_add_sum (l : List Vm.HeapObj) (n : Nat) :
    l.foldl (fun n o => n + o.children.length) n = n + (l.map fun o => o.children.length).sum := by
  induction l generalizing n with
  | nil => simp
  | cons a t ih => simp only [List.foldl_cons, ih, List.map_cons, List.sum_cons]; omega

theorem heapChildren_eq (h : Vm.Heap) : Vm.heapChildren h = unvisitedSum (absHeap h) [] := by
  unfold Vm.heapChildren unvisitedSum
  rw [← Array.foldl_toList, foldl_add_sum, Nat.zero_add]
  have := VmAcct.map_sum_eq_range (fun c => c.ch.length) (absHeap h)
  simp only [List.contains_nil, Bool.false_eq_true, if_false]
  have e : ((absHeap h).map fun c => c.ch.length) = (h.toList.map fun o => o.children.length) := by
    simp [absHeap, absCell, List.map_map, Function.comp_def]
  rw [← e, this]
  apply congrArg
  apply List.map_congr_left
  intro i _
  unfold VmAcct.chOf
  cases (absHeap h)[i]? <;> rfl

/-- **reach_eq_reachFrom.** The specification's count of references (what `step` compares with MaxStackSize)
is C12's `reachFrom` on the abstraction: the roots plus the children of every distinct reachable compound. -/
theorem reach_eq_reachFrom (v : Vm.Vm) :
    Vm.reach v = VmAcct.reachFrom (absHeap v.heap) (v.roots.map absItem) := by
  unfold Vm.reach VmAcct.reachFrom
  have hs : SeenOk v.heap (Array.replicate v.heap.size false) [] := by
    refine ⟨by simp, ?_⟩
    intro id hid
    simp [Array.getD, hid]
  have := reachLoop_eq_walk v.heap (v.roots.map absItem) [] v.roots (Array.replicate v.heap.size false) 0
    (v.roots.length + Vm.heapChildren v.heap + 1) rfl hs (by rw [heapChildren_eq]; omega)
  simp only [VmAcct.childSum, List.map_nil, List.sum_nil, Nat.add_zero, Nat.zero_add] at this
  simp only [List.length_map]
  exact this

/-! ### the known finding as a theorem between the specification and the counter model -/

theorem walk_congr (H H' : VmAcct.Heap) (hl : H.length = H'.length)
    (hc : ∀ id, VmAcct.chOf H id = VmAcct.chOf H' id) (w : List VmAcct.Item) (vis : List Nat) :
    VmAcct.walk H w vis = VmAcct.walk H' w vis := by
  fun_induction VmAcct.walk H w vis with
  | case1 vis => rw [VmAcct.walk]
  | case2 x w vis hx ih =>
    conv => rhs; rw [VmAcct.walk.eq_def]
    simp only [hx]; exact ih
  | case3 x w vis id hx hv ih =>
    conv => rhs; rw [VmAcct.walk.eq_def]
    simp only [hx, hv, if_true]; exact ih
  | case4 x w vis id hx hv hl' ih =>
    conv => rhs; rw [VmAcct.walk.eq_def]
    have : id < H'.length := hl ▸ hl'
    simp only [hx, hv, this, if_true, ← hc]
    exact ih
  | case5 x w vis id hx hv hl' ih =>
    conv => rhs; rw [VmAcct.walk.eq_def]
    have : ¬ id < H'.length := hl ▸ hl'
    simp only [hx, hv, this, if_false]
    exact ih

/-- the counter state `c` accounts for the specification state `v`: same compounds with the same children,
and the counter invariant holds for exactly the specification's roots. -/
structure Accounts (c : VmAcct.Ctr) (v : Vm.Vm) : Prop where
  len : c.heap.length = v.heap.size
  children : ∀ id, VmAcct.chOf c.heap id = VmAcct.chOf (absHeap v.heap) id
  inv : VmAcct.InvC c (fun id => VmAcct.cnt id (v.roots.map absItem)) (v.roots.map absItem).length

theorem reachFrom_accounts (c : VmAcct.Ctr) (v : Vm.Vm) (ha : Accounts c v) :
    VmAcct.reachFrom c.heap (v.roots.map absItem) = Vm.reach v := by
  rw [reach_eq_reachFrom]
  unfold VmAcct.reachFrom
  rw [walk_congr c.heap (absHeap v.heap) (by rw [ha.len, absHeap_length]) ha.children]
  simp only [VmAcct.childSum, ha.children]

/-- **spec_counter_differs_only_with_cyclic_garbage.** Whenever the implementation's counter (C12's model, in
any state satisfying its invariant for the roots of the specification state `v`) is compared with the
specification's count `reach v`:
  (1) refs = reach v + what counted-but-unreachable compounds hold;
  (2) if the unreachable part of the heap is acyclic then refs = reach v exactly;
  (3) if refs ≠ reach v then an unreachable counted compound with a child exists and the unreachable part of
      the heap is cyclic.
Any other difference between the real VM's counter and the specification is a violation of C13/C12, not the
known finding. -/
theorem spec_counter_differs_only_with_cyclic_garbage (c : VmAcct.Ctr) (v : Vm.Vm) (ha : Accounts c v) :
    let R := v.roots.map absItem
    c.refs = (Vm.reach v : Int) + (VmAcct.garbageLen c R : Int) ∧
    (VmAcct.GarbageAcyclic c R → c.refs = (Vm.reach v : Int)) ∧
    (c.refs ≠ (Vm.reach v : Int) →
      (∃ i, VmAcct.Garbage c R i ∧ VmAcct.chOf c.heap i ≠ []) ∧ ¬ VmAcct.GarbageAcyclic c R) := by
  intro R
  have hr := reachFrom_accounts c v ha
  refine ⟨?_, ?_, ?_⟩
  · rw [← hr]; exact VmAcct.refs_eq_reach_add_garbage c R ha.inv
  · intro hga; rw [← hr]; exact VmAcct.refs_eq_reach_of_acyclic_garbage c R ha.inv hga
  · intro hne
    rw [← hr] at hne
    obtain ⟨i, hg, hch⟩ := (VmAcct.refs_ne_reach_iff c R ha.inv).mp hne
    exact ⟨⟨i, hg, hch⟩, VmAcct.garbage_is_cyclic c R ha.inv i hg⟩

-- non-vacuity 1: reach agrees with reachFrom on the state of the known-finding witness
example : Vm.reach { heap := #[.items [.array 0], .items [.null, .array 1]], result := [.array 1] } = 3 ∧
    VmAcct.reachFrom (absHeap #[.items [.array 0], .items [.null, .array 1]]) [.arr 1] = 3 := by
  constructor
  · decide +kernel
  · simp [VmAcct.reachFrom, VmAcct.walk, absHeap, absCell, absItem, VmAcct.childSum, VmAcct.chOf, Vm.HeapObj.children,
      VmAcct.Item.cid]

-- non-vacuity 2: a state of the kind the known finding produces is accounted for, with refs ≠ reach:
-- the specification holds one Integer (reach 1); the counter still counts a dropped self-containing array
example : let v : Vm.Vm := { heap := #[.items [.array 0]], result := [.null] }
    let c : VmAcct.Ctr := { heap := [{ rc := 1, ch := [.arr 0] }], refs := 2 }
    Accounts c v ∧ Vm.reach v = 1 ∧ c.refs ≠ (Vm.reach v : Int) := by
  intro v c
  have hroots : v.roots.map absItem = [.prim] := by decide
  refine ⟨⟨rfl, ?_, ?_⟩, by decide +kernel, by decide +kernel⟩
  · intro id
    cases id <;> simp [c, v, VmAcct.chOf, absHeap, absCell, absItem, Vm.HeapObj.children]
  · rw [hroots]
    refine ⟨?_, ?_, ?_⟩
    · intro j x d hx hd
      cases j <;> simp [c, VmAcct.chOf] at hx
      subst hx; simp [VmAcct.Item.cid] at hd; subst hd; simp [c]
    · intro id
      cases id <;> simp [c, VmAcct.rcOf, VmAcct.cnt, VmAcct.heldCnt, VmAcct.Item.cid]
    · simp [c, VmAcct.heldLen]

end NeoModel.Vm.RefTie
