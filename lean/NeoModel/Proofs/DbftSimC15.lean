/- C19 simulation, part C15: Reset at a new height, the chain-block loop, timeouts, transactions. -/
import NeoModel.Proofs.DbftSimC14
namespace NeoModel.Dbft.Mach
open NeoModel.Dbft

/-- `reset` at view 0 (a new height, or the start), against an abstract node that is at the height after the
machine's ledger, in view 0, with nothing prepared or signed at that height -/
theorem rn_reset0 {e : Env} {as : State} {i : Nat} (nd : Node) (ts : Nat) (hmy : nd.my = i)
    (hch : (as.nodes i).chain = nd.chain) (hht : (as.nodes i).height = nd.chain.length + 1)
    (hv : (as.nodes i).view = 0)
    (hgp : ∀ b, b ∈ (as.nodes i).myPreps → b.h < (as.nodes i).height)
    (hgc : ∀ b, b ∈ (as.nodes i).myCommits → b.h < (as.nodes i).height)
    (hcache : ∀ h box, (h, box) ∈ nd.cache → ∀ km, (km ∈ box.prepare ∨ km ∈ box.chViews ∨ km ∈ box.commit) → Claims e as km.2) :
    RN e as i (reset e nd 0 ts) := by
  unfold reset
  simp only [beq_self_eq_true, if_true, Node.height]
  refine ⟨hmy, by simp [blanks], hch, hht, ?_, rfl, ?_, ?_, ?_, ?_, hcache, ?_⟩
  · left
    refine ⟨hht.symm, hv.symm, ?_, ?_⟩
    · rintro ⟨b, hb, hbh, _⟩
      have := hgp b hb; simp only at hbh; omega
    · rintro ⟨b, hb, hbh⟩
      have := hgc b hb; simp only at hbh; omega
  · intro j m hj; simp [slot_blanks] at hj
  · intro j m hj; simp [slot_blanks] at hj
  · intro j m hj; simp [slot_blanks] at hj
  · intro j m hj; simp [slot_blanks] at hj
  · intro y sb hj; simp [slot_blanks] at hj

theorem reset0_fields (e : Env) (nd : Node) (ts : Nat) :
    (reset e nd 0 ts).bi = nd.chain.length + 1 ∧ (reset e nd 0 ts).blockProcessed = false := by
  unfold reset; simp [Node.height]

theorem chainAt_top {l : List Block} {b : Block} {h : Nat} (hc : ChainAt (b :: l) h) : b.h + 1 = h := hc.1

/-- consensus.go:437-446 + 405-418 on the machine: the chain's block notifications -/
theorem prog_syncChain {e : Env} {i : Nat} (fuel : Nat) :
    ∀ (as : State) (w : W), Good e as i w → Prog e i as (syncChain e fuel w) := by
  induction fuel with
  | zero => intro as w h; exact Prog.of_good h
  | succ f ih =>
    intro as w h
    unfold syncChain
    have inv := inv_reachable (cfgOf e) as h.g.1
    have rn := h.rn
    cases hc : w.nd.chain with
    | nil => exact Prog.of_good h
    | cons b rest =>
      simp only
      have hshape := inv.chainShape i
      rw [rn.chain, hc] at hshape
      have htop := chainAt_top hshape
      by_cases hge : b.h ≥ w.nd.bi
      · rw [if_pos hge]
        -- the ledger is ahead: the machine had handed it the block
        rcases rn.phase with p1 | p2 | p3
        · omega
        · obtain ⟨_, hb1, hv0, hgp, hgc⟩ := p2
          have r1 := rn_reset0 (e := e) (as := as) (i := i) (postBlock e w.nd b) ((e.prop b.p).ts * 1000000)
            rn.my rn.chain rn.height hv0
            (fun b' hb' => by have := hgp b' hb'; omega) (fun b' hb' => by have := hgc b' hb'; omega) rn.cache
          obtain ⟨r2, _⟩ := reset0_fields e (postBlock e w.nd b) ((e.prop b.p).ts * 1000000)
          have g1 : Good e as i ((w.upd fun nd => postBlock e nd b).upd fun nd => reset e nd 0 ((e.prop b.p).ts * 1000000)) :=
            ⟨h.g, r1, h.outs, h.blk, by show (reset e (postBlock e w.nd b) 0 _).bi ≠ 0; rw [r2]; omega, h.lt⟩
          rw [initConsensus_eq]
          obtain ⟨as2, x2, g2⟩ := prog_initTail (kok_onReceive e i fuel) g1 0
          obtain ⟨as3, x3, g3⟩ := ih as2 _ g2
          exact ⟨as3, x2.trans x3, g3⟩
        · exact absurd p3.1 h.st
      · rw [if_neg hge]; exact Prog.of_good h

end NeoModel.Dbft.Mach
