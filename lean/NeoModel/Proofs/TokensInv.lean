/-
The accounting invariant of the token model and its preservation by the GAS-side primitives.
-/
import NeoModel.Proofs.TokensGas
namespace NeoModel.Tokens

/-- NEO an account contributes to candidate `c`. -/
def voteW (c : Nat) (a : NeoAcc) : Int := if a.vote = some c then a.bal else 0
/-- NEO an account contributes to the voters count. -/
def voterW (a : NeoAcc) : Int := if a.vote.isSome then a.bal else 0

/-- vote bookkeeping: candidates' votes and the voters count are the sums over the NEO accounts. -/
structure VotesOK (neo : AL NeoAcc) (cands : AL Cand) (voters : Int) : Prop where
  neoNodup : (keys neo).Nodup
  candNodup : (keys cands).Nodup
  neoPos : ∀ p ∈ neo, 0 < p.2.bal
  votes : ∀ c, at0 (·.votes) cands c = sumBy (voteW c) neo
  voters : voters = sumBy voterW neo
  nozombie : ∀ p ∈ cands, p.2.reg = true ∨ p.2.votes ≠ 0

/-- GAS: supply = Σ balances (+ `dg` in flight), all stored balances positive. -/
structure GasOK (gas : AL Int) (supply dg : Int) : Prop where
  nodup : (keys gas).Nodup
  pos : ∀ p ∈ gas, 0 < p.2
  sum : sumBy id gas = supply + dg

/-- Notary: its GAS = Σ deposits (+ `k` in flight). -/
structure NotaryOK (nt : Nat) (gas : AL Int) (deps : AL Dep) (k : Int) : Prop where
  nodup : (keys deps).Nodup
  nonneg : ∀ p ∈ deps, 0 ≤ p.2.amount
  eq : at0 id gas nt = sumBy (·.amount) deps + k

/-- the invariant with amounts in flight: `dn` NEO and `dg` GAS credited but not yet debited (or the
reverse, negative), `k` GAS held by Notary beyond the recorded deposits. -/
structure InvG (nt : Nat) (dn dg k : Int) (l : Ledger) : Prop where
  votes : VotesOK l.neo l.cands l.voters
  neoSupply : l.neoSupply = 100000000
  neoSum : sumBy (·.bal) l.neo = l.neoSupply + dn
  gas : GasOK l.gas l.gasSupply dg
  notary : NotaryOK nt l.gas l.deps k

/-- C05's state invariant. -/
abbrev Inv (nt : Nat) (l : Ledger) : Prop := InvG nt 0 0 0 l

/-- the fields the invariant reads. -/
def sameCore (l l' : Ledger) : Prop :=
  l'.neo = l.neo ∧ l'.neoSupply = l.neoSupply ∧ l'.gas = l.gas ∧ l'.gasSupply = l.gasSupply ∧
  l'.cands = l.cands ∧ l'.voters = l.voters ∧ l'.deps = l.deps

theorem sameCore.rfl' (l : Ledger) : sameCore l l := ⟨rfl, rfl, rfl, rfl, rfl, rfl, rfl⟩

theorem sameCore.trans {a b c : Ledger} (h1 : sameCore a b) (h2 : sameCore b c) : sameCore a c := by
  obtain ⟨a1, a2, a3, a4, a5, a6, a7⟩ := h1
  obtain ⟨b1, b2, b3, b4, b5, b6, b7⟩ := h2
  exact ⟨b1.trans a1, b2.trans a2, b3.trans a3, b4.trans a4, b5.trans a5, b6.trans a6, b7.trans a7⟩

theorem InvG.congr {nt : Nat} {dn dg k : Int} {l l' : Ledger} (h : InvG nt dn dg k l) (e : sameCore l l') :
    InvG nt dn dg k l' := by
  obtain ⟨e1, e2, e3, e4, e5, e6, e7⟩ := e
  constructor
  · rw [e1, e5, e6]; exact h.votes
  · rw [e2]; exact h.neoSupply
  · rw [e1, e2]; exact h.neoSum
  · rw [e3, e4]; exact h.gas
  · rw [e3, e7]; exact h.notary

theorem sameCore_addEvent (l : Ledger) (e : Event) : sameCore l (addEvent l e) := ⟨rfl, rfl, rfl, rfl, rfl, rfl, rfl⟩

/-- a ledger that differs from `l` only in the GAS balance map (by a `GasUpd` at `h`) and the GAS supply. -/
theorem InvG.gasStep {nt : Nat} {dn dg k : Int} {l l' : Ledger} {h : Nat} {d ds : Int}
    (hi : InvG nt dn dg k l)
    (e1 : l'.neo = l.neo) (e2 : l'.neoSupply = l.neoSupply) (e5 : l'.cands = l.cands)
    (e6 : l'.voters = l.voters) (e7 : l'.deps = l.deps)
    (es : l'.gasSupply = l.gasSupply + ds) (u : GasUpd l.gas l'.gas h d) :
    InvG nt dn (dg + d - ds) (k + if h = nt then d else 0) l' := by
  constructor
  · rw [e1, e5, e6]; exact hi.votes
  · rw [e2]; exact hi.neoSupply
  · rw [e1, e2]; exact hi.neoSum
  · refine ⟨u.nodup hi.gas.nodup, u.pos hi.gas.pos, ?_⟩
    rw [u.sum, hi.gas.sum, es]; omega
  · refine ⟨by rw [e7]; exact hi.notary.nodup, by rw [e7]; exact hi.notary.nonneg, ?_⟩
    rw [e7]
    by_cases hh : h = nt
    · subst hh; rw [u.ath hi.gas.nodup, hi.notary.eq]; simp; omega
    · rw [u.atne nt (fun e => hh e.symm), hi.notary.eq]; simp [hh]

/-! ### updateAccBalance for GAS -/

theorem updGas_false (l : Ledger) (a : Nat) (amt : Int) (req : Option Int) (l' : Ledger) (d : Option Int)
    (h : updGas l a amt req = (l', false, d)) : l' = l := by
  unfold updGas at h
  simp only [] at h
  split at h
  · split at h
    · injection h with h1; exact h1.symm
    · split at h
      · injection h with h1; exact h1.symm
      · split at h
        · injection h with _ h2; injection h2 with h2; simp at h2
        · split at h
          · injection h with _ h2; injection h2 with h2; simp at h2
          · injection h with h1; rw [← h1, gasInc_l]
  · split at h
    · injection h with _ h2; injection h2 with h2; simp at h2
    · injection h with h1; rw [← h1, gasInc_l]

theorem updGas_true (l : Ledger) (a : Nat) (amt : Int) (req : Option Int) (l' : Ledger) (d : Option Int)
    (hp : ∀ p ∈ l.gas, 0 < p.2) (h : updGas l a amt req = (l', true, d)) :
    l'.neo = l.neo ∧ l'.neoSupply = l.neoSupply ∧ l'.cands = l.cands ∧ l'.voters = l.voters ∧ l'.deps = l.deps ∧
    l'.gasSupply = l.gasSupply ∧ l'.events = l.events ∧ d = none ∧ GasUpd l.gas l'.gas a amt := by
  unfold updGas at h
  simp only [] at h
  have key : ∀ si, si = get l.gas a →
      ((if (gasInc l si amt req).ok = true then
          ({ (gasInc l si amt req).l with gas := store (gasInc l si amt req).l.gas a (gasInc l si amt req).si }, true, (none : Option Int))
        else ((gasInc l si amt req).l, false, none)) = (l', true, d)) →
      l'.neo = l.neo ∧ l'.neoSupply = l.neoSupply ∧ l'.cands = l.cands ∧ l'.voters = l.voters ∧ l'.deps = l.deps ∧
      l'.gasSupply = l.gasSupply ∧ l'.events = l.events ∧ d = none ∧ GasUpd l.gas l'.gas a amt := by
    intro si hsi hh
    split at hh
    · rename_i hok
      injection hh with h1 h2
      injection h2 with _ h3
      subst h1
      subst hsi
      refine ⟨?_, ?_, ?_, ?_, ?_, ?_, ?_, h3.symm, ?_⟩ <;> try (simp [gasInc_l])
      have := gasInc_store l a amt req hp hok
      simpa [gasInc_l] using this
    · injection hh with _ h2; injection h2 with h2; simp at h2
  split at h
  · rename_i hg
    split at h
    · injection h with _ h2; injection h2 with h2; simp at h2
    · split at h
      · injection h with _ h2; injection h2 with h2; simp at h2
      · split at h
        · rename_i h0
          injection h with h1 h2
          injection h2 with _ h3
          subst h1
          refine ⟨rfl, rfl, rfl, rfl, rfl, rfl, rfl, h3.symm, ?_⟩
          rw [h0]; exact GasUpd.refl _ _
        · exact key none hg.symm h
  · rename_i b hg
    exact key (some b) hg.symm h

theorem InvG.updGas {nt : Nat} {dn dg k : Int} {l l' : Ledger} {a : Nat} {amt : Int} {req d : Option Int}
    (hi : InvG nt dn dg k l) (h : updGas l a amt req = (l', true, d)) :
    InvG nt dn (dg + amt) (k + if a = nt then amt else 0) l' := by
  obtain ⟨e1, e2, e5, e6, e7, es, _, _, u⟩ := updGas_true l a amt req l' d hi.gas.pos h
  have := hi.gasStep e1 e2 e5 e6 e7 (ds := 0) (by rw [es]; simp) u
  simpa using this

/-! ### addTokens, mint, burn -/

theorem gasAddTokens_some (l l' : Ledger) (h : Nat) (amt : Int) (hp : ∀ p ∈ l.gas, 0 < p.2)
    (hr : gasAddTokens l h amt = some l') :
    l'.neo = l.neo ∧ l'.neoSupply = l.neoSupply ∧ l'.cands = l.cands ∧ l'.voters = l.voters ∧ l'.deps = l.deps ∧
    l'.gasSupply = l.gasSupply + amt ∧ l'.events = l.events ∧ GasUpd l.gas l'.gas h amt := by
  unfold gasAddTokens at hr
  simp only [] at hr
  split at hr
  · rename_i hok
    injection hr with hr
    subst hr
    refine ⟨?_, ?_, ?_, ?_, ?_, ?_, ?_, ?_⟩ <;> try (simp [gasInc_l])
    have := gasInc_store l h amt none hp hok
    simpa [gasInc_l] using this
  · simp at hr

theorem InvG.gasAddTokens {nt : Nat} {dn dg k : Int} {l l' : Ledger} {h : Nat} {amt : Int}
    (hi : InvG nt dn dg k l) (hr : gasAddTokens l h amt = some l') :
    InvG nt dn dg (k + if h = nt then amt else 0) l' := by
  obtain ⟨e1, e2, e5, e6, e7, es, _, u⟩ := gasAddTokens_some l l' h amt hi.gas.pos hr
  have := hi.gasStep e1 e2 e5 e6 e7 es u
  have e : dg + amt - amt = dg := by omega
  rw [e] at this; exact this

theorem InvG.mintGas {nt : Nat} {dn dg k : Int} {l l' : Ledger} {h : Nat} {amt : Int}
    (hi : InvG nt dn dg k l) (hr : mintGas l h amt = some l') :
    InvG nt dn dg (k + if h = nt then amt else 0) l' := by
  unfold Tokens.mintGas at hr
  split at hr
  · rename_i h0; injection hr with hr; subst hr; subst h0; simpa using hi
  · cases hg : Tokens.gasAddTokens l h amt with
    | none => simp [hg] at hr
    | some l1 =>
      simp [hg] at hr; subst hr
      exact (hi.gasAddTokens hg).congr (sameCore_addEvent _ _)

theorem InvG.burnGas {nt : Nat} {dn dg k : Int} {l l' : Ledger} {h : Nat} {amt : Int}
    (hi : InvG nt dn dg k l) (hr : burnGas l h amt = some l') :
    InvG nt dn dg (k - if h = nt then amt else 0) l' := by
  unfold Tokens.burnGas at hr
  split at hr
  · rename_i h0; injection hr with hr; subst hr; subst h0; simpa using hi
  · cases hg : Tokens.gasAddTokens l h (-amt) with
    | none => simp [hg] at hr
    | some l1 =>
      simp [hg] at hr; subst hr
      have := (hi.gasAddTokens hg).congr (sameCore_addEvent l1 ⟨.gas, some h, none, amt⟩)
      have e : (k + if h = nt then -amt else 0) = (k - if h = nt then amt else 0) := by split <;> omega
      rw [e] at this; exact this

end NeoModel.Tokens
