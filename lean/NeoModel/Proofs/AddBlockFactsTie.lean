/-
C06 — tie by regenerated facts: the constants the model of the stand-alone transaction verification uses
literally, and the order of the exits of Blockchain.AddBlock / of the attribute cases of
verifyTxAttributes in the source text, against `NeoModel.Generated.AddBlockFacts` (rewritten from /repo on
every check run by harness/cmd/extract/addblock.go). A changed constant, a swapped pair of checks in
AddBlock or a new attribute case makes these proofs stop checking.
-/
import NeoModel.Generated.AddBlockFacts
import NeoModel.Model.AddBlock.TxVerify
namespace NeoModel.AddBlock
open NeoModel.Generated

/-- the constants of the model are the constants of the code -/
theorem tx_constants_match :
    maxTransactionSize = AddBlockFacts.maxTransactionSize ∧
    Attr.highPriority.typ = AddBlockFacts.attrHighPriority ∧
    (Attr.oracleResponse true true 0).typ = AddBlockFacts.attrOracleResponse ∧
    (Attr.notValidBefore 0).typ = AddBlockFacts.attrNotValidBefore ∧
    (Attr.conflicts 0).typ = AddBlockFacts.attrConflicts ∧
    (Attr.notaryAssisted 0).typ = AddBlockFacts.attrNotaryAssisted ∧
    attrReservedLower = AddBlockFacts.attrReservedLower ∧
    attrReservedUpper = AddBlockFacts.attrReservedUpper := by decide

/-- the exits of `addBlock` of the model (Model/AddBlock: addBlock, headerStep, bodyStep) in the order its
branches are written, each with the exit of Blockchain.AddBlock it mirrors and the class it yields
(`none` = the verdict of the called function). -/
def modelExits : List (String × Option Err) :=
  [ ("ErrInvalidBlockIndex", some .indexFuture),            -- addBlock: index above the next one
    ("ErrAlreadyExists", some .indexOld),                   -- addBlock: index at or below the tip
    ("ErrHdrStateRootSetting", some .srFlag),               -- addBlock: state-root flag
    ("err of addHeaders", none),                            -- headerStep: next header -> addHeaders [hdr]
    ("invalid block: hash mismatch:", some .hashMismatch),  -- headerStep: recorded header has another hash
    ("known header %d (%s)", some .hashMismatch),           -- headerStep: no header recorded at that index (GetHeader fails)
    ("previous header %d (%s)", some .prevUnknown),         -- headerStep: other witness, previous header unknown
    ("err of verifyHeaderWitnesses", some .witness),        -- headerStep: other witness, does not verify
    ("invalid block: MerkleRoot mismatch", some .merkle),   -- bodyStep
    ("invalid block: duplicate transaction", some .dup),    -- bodyStep
    ("transaction %s failed to", some .tx),                 -- bodyStep: txLoop
    ("call storeBlock", none) ]                             -- bodyStep: storeBlock

/-- C06: Blockchain.AddBlock has, in the order of its source text, exactly the exits the model's
`addBlock` has in the order of its branches (index, state-root flag, header step, Merkle root, repeated
transaction, transaction loop, storeBlock). -/
theorem addBlock_exits_in_model_order : AddBlockFacts.addBlockExits = modelExits.map (·.1) := by decide

/-- C06: verifyTxAttributes has exactly the attribute cases of the model's `checkAttr`, in its order. -/
theorem attr_cases_match :
    AddBlockFacts.attrCases = ["HighPriority", "OracleResponseT", "NotValidBeforeT", "ConflictsT", "NotaryAssistedT", "default"] := by
  decide

end NeoModel.AddBlock
