/-
Helper lemmas for C18 / Base58 family, the converse direction: every string a decoder accepts is the
encoding of what it returns (Base58, Base58Check, address, WIF), the rejected strings characterised,
leading-zero handling.
-/
import NeoModel.Proofs.CodecBase58
namespace NeoModel.Codec

theorem u8ofNat_toNat' (p : Nat) (h : p < 256) : (UInt8.ofNat p).toNat = p := by
  simp [UInt8.toNat_ofNat']; omega

theorem u8_ofNat_toNat_self' (op : UInt8) : UInt8.ofNat op.toNat = op := by
  apply UInt8.toNat_inj.mp
  rw [u8ofNat_toNat' _ op.toNat_lt]

theorem getD_idxOf (l : Bytes) (c : UInt8) (h : l.idxOf c < l.length) : l.getD (l.idxOf c) 0 = c := by
  induction l with
  | nil => simp at h
  | cons x t ih =>
    rw [List.idxOf_cons] at h ⊢
    by_cases hx : x = c
    · subst hx; simp
    · have hb : (x == c) = false := beq_false_of_ne hx
      simp only [hb, cond_false, List.length_cons] at h ⊢
      have := ih (by omega)
      simpa using this

theorem b58Digit_lt (c : UInt8) (d : Nat) (h : b58Digit c = some d) : d < 58 := by
  unfold b58Digit at h
  simp only at h
  split at h
  · injection h with h; omega
  · cases h

theorem b58Char_digit (c : UInt8) (d : Nat) (h : b58Digit c = some d) : b58Char d = c := by
  have hd := b58Digit_lt c d h
  unfold b58Digit at h
  simp only at h
  split at h
  · injection h with h
    subst h
    unfold b58Char
    exact getD_idxOf _ _ (by have : b58Alphabet.length = 58 := rfl; omega)
  · cases h

theorem mapM_cons_some {α β : Type} (f : α → Option β) (a : α) (l : List α) (r : List β)
    (h : (a :: l).mapM f = some r) : ∃ b r', f a = some b ∧ l.mapM f = some r' ∧ r = b :: r' := by
  rw [List.mapM_cons] at h
  cases hb : f a with
  | none => rw [hb] at h; simp at h
  | some b =>
    cases hr : l.mapM f with
    | none => rw [hb, hr] at h; simp at h
    | some r' =>
      rw [hb, hr] at h
      refine ⟨b, r', rfl, rfl, ?_⟩
      simpa using h.symm

/-- what a successful digit conversion says about the string. -/
theorem mapM_digits (l : Bytes) : ∀ ds, l.mapM b58Digit = some ds →
    ds.map b58Char = l ∧ (∀ d ∈ ds, d < 58) ∧ leadCount 0x31 l = (ds.takeWhile (· == 0)).length := by
  induction l with
  | nil => intro ds h; simp at h; subst h; simp [leadCount]
  | cons c l ih =>
    intro ds h
    obtain ⟨d, ds', hd, hl, rfl⟩ := mapM_cons_some _ _ _ _ h
    obtain ⟨h1, h2, h3⟩ := ih ds' hl
    refine ⟨by simp [h1, b58Char_digit c d hd], ?_, ?_⟩
    · intro x hx
      rcases List.mem_cons.mp hx with rfl | hx
      · exact b58Digit_lt c _ hd
      · exact h2 x hx
    · by_cases hc : c = 0x31
      · subst hc
        rw [b58Digit_one] at hd
        injection hd with hd; subst hd
        simp only [leadCount] at h3
        simp [leadCount, List.takeWhile, h3]
      · have hc' : (c == 0x31) = false := beq_false_of_ne hc
        have hd0 : d ≠ 0 := by
          intro h0; subst h0
          have := b58Char_digit c 0 hd
          apply hc; rw [← this]; rfl
        have hd0' : (d == 0) = false := beq_false_of_ne hd0
        simp [leadCount, List.takeWhile, hc', hd0']

theorem takeWhile_decomp (ds : List Nat) :
    ds = List.replicate ((ds.takeWhile (· == 0)).length) 0 ++ ds.dropWhile (· == 0) ∧
      (ds.dropWhile (· == 0)).head? ≠ some 0 := by
  induction ds with
  | nil => simp
  | cons d t ih =>
    by_cases h : d = 0
    · subst h
      simp only [List.takeWhile, beq_self_eq_true, List.length_cons, List.replicate_succ, List.cons_append,
        List.dropWhile]
      exact ⟨by rw [← ih.1], ih.2⟩
    · have hb : (d == 0) = false := beq_false_of_ne h
      simp [List.takeWhile, List.dropWhile, hb, h]

theorem map_toNat_ofNat (ds : List Nat) (h : ∀ d ∈ ds, d < 256) : (ds.map UInt8.ofNat).map (·.toNat) = ds := by
  induction ds with
  | nil => rfl
  | cons d t ih =>
    simp only [List.map_cons]
    rw [ih (fun x hx => h x (by simp [hx])), u8ofNat_toNat' d (h d (by simp))]

/-- Base58: re-encoding what a string decodes to gives the string back, for EVERY accepted string. -/
theorem b58Encode_decode (s b : Bytes) (h : b58Decode s = some b) : b58Encode b = s := by
  unfold b58Decode at h
  by_cases he : s.isEmpty = true
  · simp [he] at h
  simp only [he, Bool.false_eq_true, if_false] at h
  cases hm : s.mapM b58Digit with
  | none => rw [hm] at h; simp at h
  | some ds =>
    rw [hm] at h
    simp only [Option.some.injEq] at h
    obtain ⟨hchars, hlt, hlead⟩ := mapM_digits s ds hm
    obtain ⟨hdec, hhead⟩ := takeWhile_decomp ds
    generalize hz : (ds.takeWhile (· == 0)).length = z at hdec hlead
    generalize hrest : ds.dropWhile (· == 0) = ds' at hdec hhead
    have hlt' : ∀ d ∈ ds', d < 58 := fun d hd => hlt d (by rw [hdec]; simp [hd])
    have hv : ofDigitsBE 58 ds = ofDigitsBE 58 ds' := by
      conv => lhs; rw [hdec]
      exact ofDigitsBE_replicate_zero 58 z _
    rw [hlead, hv] at h
    generalize hvv : ofDigitsBE 58 ds' = v at h
    have hds' : toDigitsBE 58 v = ds' := by rw [← hvv]; exact toDigits_ofDigits 58 (by decide) ds' hlt' hhead
    -- the bytes
    have hB := toDigits_lt 256 (by decide) v
    have hBh := toDigits_head 256 (by decide) v
    have hBv := ofDigits_toDigits 256 (by decide) v
    generalize toDigitsBE 256 v = B at h hB hBh hBv
    have hbl : leadCount 0 b = z := by
      rw [← h]
      apply leadCount_replicate_append
      cases B with
      | nil => simp
      | cons x xs =>
        simp only [List.map_cons, List.head?_cons, ne_eq, Option.some.injEq]
        intro h0
        apply hBh
        have := congrArg UInt8.toNat h0
        rw [u8ofNat_toNat' x (hB x (by simp))] at this
        simp [this]
    have hbv : ofDigitsBE 256 (b.map (·.toNat)) = v := by
      rw [← h]
      simp only [List.map_append, List.map_replicate]
      rw [map_toNat_ofNat B hB]
      have : (0 : UInt8).toNat = 0 := rfl
      rw [this, ofDigitsBE_replicate_zero, hBv]
    unfold b58Encode
    simp only [hbl, hbv, hds']
    rw [← hchars]
    conv => rhs; rw [hdec]
    simp only [List.map_append, List.map_replicate]
    rfl

/-- Base58: exactly the empty string and strings with a byte outside the alphabet are rejected. -/
theorem b58Decode_none_iff (s : Bytes) : b58Decode s = none ↔ s = [] ∨ ∃ c ∈ s, b58Digit c = none := by
  unfold b58Decode
  cases s with
  | nil => simp
  | cons c t =>
    simp only [List.isEmpty_cons, Bool.false_eq_true, if_false, reduceCtorEq, false_or]
    have key : ∀ l : Bytes, l.mapM b58Digit = none ↔ ∃ c ∈ l, b58Digit c = none := by
      intro l
      induction l with
      | nil => simp
      | cons a l ih =>
        rw [List.mapM_cons]
        cases ha : b58Digit a with
        | none => simp [ha]
        | some d =>
          cases hl : l.mapM b58Digit with
          | none =>
            have := ih.mp hl
            simp [this]
          | some r =>
            have : ¬ ∃ c ∈ l, b58Digit c = none := fun hh => by rw [ih.mpr hh] at hl; cases hl
            simp [ha]
            intro x hx hn
            exact this ⟨x, hx, hn⟩
    cases hm : (c :: t).mapM b58Digit with
    | none => simp only [true_iff]; exact (key _).mp hm
    | some ds =>
      simp only [reduceCtorEq, false_iff]
      intro hh
      rw [(key _).mpr hh] at hm; cases hm

/-- leading zero bytes become leading '1's and nothing else changes. -/
theorem b58Encode_leading_zeros (z : Nat) (b : Bytes) (hb : b.head? ≠ some 0) :
    b58Encode (List.replicate z 0 ++ b) = List.replicate z 0x31 ++ b58Encode b ∧ (b58Encode b).head? ≠ some 0x31 := by
  have h0 : leadCount 0 b = 0 := by
    have := leadCount_replicate_append 0 0 b hb
    simpa using this
  have hz : leadCount 0 (List.replicate z 0 ++ b) = z := leadCount_replicate_append 0 z b hb
  have hv : ofDigitsBE 256 ((List.replicate z (0 : UInt8) ++ b).map (·.toNat)) = ofDigitsBE 256 (b.map (·.toNat)) := by
    simp only [List.map_append, List.map_replicate]
    exact ofDigitsBE_replicate_zero 256 z _
  constructor
  · unfold b58Encode
    simp only [hz, hv, h0, List.replicate_zero, List.nil_append]
  · unfold b58Encode
    simp only [h0, List.replicate_zero, List.nil_append]
    generalize ofDigitsBE 256 (b.map (·.toNat)) = v
    have hD := toDigits_lt 58 (by decide) v
    have hDh := toDigits_head 58 (by decide) v
    generalize toDigitsBE 58 v = D at hD hDh
    cases D with
    | nil => simp
    | cons d ds =>
      simp only [List.map_cons, List.head?_cons, ne_eq, Option.some.injEq]
      intro hc
      have h1 := b58Char_one_iff ⟨d, hD d (by simp)⟩
      simp only [hc, beq_self_eq_true] at h1
      have : d = 0 := by simpa using h1.symm
      apply hDh; simp [this]

theorem checkDecode_shape (H : Bytes → Bytes) (s p : Bytes) (h : checkDecode H s = some p) :
    p ≠ [] ∧ b58Decode s = some (p ++ checksum H p) := by
  unfold checkDecode at h
  cases hd : b58Decode s with
  | none => rw [hd] at h; simp at h
  | some raw =>
    rw [hd] at h
    simp only at h
    by_cases c1 : raw.length < 5
    · simp [c1] at h
    · simp only [c1, if_false] at h
      split at h
      · rename_i hc
        injection h with h
        have hc' : checksum H (raw.take (raw.length - 4)) = raw.drop (raw.length - 4) := by simpa using hc
        rw [h] at hc'
        refine ⟨?_, ?_⟩
        · intro hp; rw [hp] at h
          have := congrArg List.length h
          simp at this; omega
        · rw [hc', ← h, List.take_append_drop]
      · cases h

/-- Base58Check: whatever decodes re-encodes to the same string. -/
theorem checkEncode_decode (H : Bytes → Bytes) (s p : Bytes) (h : checkDecode H s = some p) : checkEncode H p = s := by
  obtain ⟨_, hd⟩ := checkDecode_shape H s p h
  exact b58Encode_decode s _ hd

/-- Base58Check accepts exactly the encodings of non-empty payloads: anything with a wrong checksum,
fewer than 5 bytes or a character outside the alphabet is rejected. -/
theorem checkDecode_iff (H : Bytes → Bytes) (hH : ∀ x, 4 ≤ (H x).length) (s p : Bytes) :
    checkDecode H s = some p ↔ p ≠ [] ∧ s = checkEncode H p := by
  constructor
  · intro h
    exact ⟨(checkDecode_shape H s p h).1, (checkEncode_decode H s p h).symm⟩
  · rintro ⟨hne, rfl⟩
    exact checkDecode_encode H hH p hne

theorem address_shape (H : Bytes → Bytes) (s u : Bytes) (h : stringToUint160 H s = some u) :
    u.length = 20 ∧ uint160ToString H u = s := by
  unfold stringToUint160 at h
  cases hd : checkDecode H s with
  | none => rw [hd] at h; simp at h
  | some b =>
    rw [hd] at h
    simp only at h
    by_cases c1 : (b.length != 21) = true
    · simp [c1] at h
    · simp only [c1, Bool.false_eq_true, if_false] at h
      have hl : b.length = 21 := by simpa using c1
      by_cases c2 : (b.head? != some addrPrefix) = true
      · simp [c2] at h
      · simp only [c2, Bool.false_eq_true, if_false] at h
        injection h with h
        have hh : b.head? = some addrPrefix := by simpa using c2
        cases b with
        | nil => simp at hl
        | cons x t =>
          simp only [List.head?_cons, Option.some.injEq] at hh
          subst hh
          simp only [List.drop_succ_cons, List.drop_zero] at h
          subst h
          refine ⟨by simpa using hl, ?_⟩
          unfold uint160ToString
          exact checkEncode_decode H s _ hd

/-- addresses: exactly the encodings of 20-byte script hashes are accepted. -/
theorem address_iff (H : Bytes → Bytes) (hH : ∀ x, 4 ≤ (H x).length) (s u : Bytes) :
    stringToUint160 H s = some u ↔ u.length = 20 ∧ s = uint160ToString H u := by
  constructor
  · intro h; exact ⟨(address_shape H s u h).1, (address_shape H s u h).2.symm⟩
  · rintro ⟨hu, rfl⟩; exact address_roundtrip H hH u hu

theorem wif_shape (H : Bytes → Bytes) (s key : Bytes) (version : UInt8) (c : Bool)
    (h : wifDecode H s version = some (key, c)) :
    key.length = 32 ∧ wifEncode H key version c = some s := by
  unfold wifDecode at h
  cases hd : checkDecode H s with
  | none => rw [hd] at h; simp at h
  | some b =>
    rw [hd] at h
    simp only at h
    have henc := checkEncode_decode H s b hd
    by_cases c1 : (b.length == 33) = true
    · simp only [c1, if_true] at h
      have hl : b.length = 33 := by simpa using c1
      by_cases c2 : (b.head? != some (if version == 0 then 0x80 else version)) = true
      · simp only [c2, if_true] at h; cases h
      · simp only [c2, Bool.false_eq_true, if_false, Option.some.injEq, Prod.mk.injEq] at h
        obtain ⟨hk, hc⟩ := h
        have hh : b.head? = some (if version == 0 then 0x80 else version) := by
          simp only [bne_iff_ne, ne_eq, Decidable.not_not] at c2; exact c2
        cases b with
        | nil => simp at hl
        | cons x t =>
          simp only [List.head?_cons, Option.some.injEq] at hh
          simp only [List.drop_succ_cons, List.drop_zero] at hk
          have ht : t.length = 32 := by simpa using hl
          rw [← ht, List.take_length] at hk
          subst hk hc
          refine ⟨ht, ?_⟩
          unfold wifEncode
          simp only [ht, bne_self_eq_false, Bool.false_eq_true, if_false, List.append_nil]
          rw [← hh, henc]
    · simp only [c1, Bool.false_eq_true, if_false] at h
      by_cases c3 : (b.length == 34) = true
      · simp only [c3, if_true] at h
        have hl : b.length = 34 := by simpa using c3
        by_cases c4 : (b.getD 33 0 != 0x01) = true
        · simp only [c4, if_true] at h; cases h
        · simp only [c4, Bool.false_eq_true, if_false] at h
          have h33 : b.getD 33 0 = 0x01 := by simpa using c4
          by_cases c2 : (b.head? != some (if version == 0 then 0x80 else version)) = true
          · simp only [c2, if_true] at h; cases h
          · simp only [c2, Bool.false_eq_true, if_false, Option.some.injEq, Prod.mk.injEq] at h
            obtain ⟨hk, hc⟩ := h
            have hh : b.head? = some (if version == 0 then 0x80 else version) := by
              simp only [bne_iff_ne, ne_eq, Decidable.not_not] at c2; exact c2
            cases b with
            | nil => simp at hl
            | cons x t =>
              simp only [List.head?_cons, Option.some.injEq] at hh
              simp only [List.drop_succ_cons, List.drop_zero] at hk
              have ht : t.length = 33 := by simpa using hl
              have hkl : key.length = 32 := by rw [← hk, List.length_take]; omega
              have h33' : t.getD 32 0 = 0x01 := by simpa [List.getD_cons_succ] using h33
              have hsplit : t = key ++ [0x01] := by
                have e1 : t = t.take 32 ++ t.drop 32 := (List.take_append_drop 32 t).symm
                have e2 : t.drop 32 = [t[32]] := by
                  rw [List.drop_eq_getElem_cons (by omega)]
                  congr 1
                  apply List.drop_eq_nil_of_le; omega
                have e3 : t[32] = 0x01 := by
                  rw [← h33']; simp [List.getD_eq_getElem?_getD, ht]
                rw [e1, e2, e3, hk]
              subst hc
              refine ⟨hkl, ?_⟩
              unfold wifEncode
              simp only [hkl, bne_self_eq_false, Bool.false_eq_true, if_false, if_true]
              rw [← hh, ← henc, hsplit]
              rfl
      · simp [c3] at h

/-- WIF: exactly the encodings of 32-byte keys are accepted (wrong version byte, wrong length, a
compression flag other than 0x01, wrong checksum: all rejected). -/
theorem wif_iff (H : Bytes → Bytes) (hH : ∀ x, 4 ≤ (H x).length) (s key : Bytes) (version : UInt8) (c : Bool) :
    wifDecode H s version = some (key, c) ↔ key.length = 32 ∧ wifEncode H key version c = some s := by
  constructor
  · exact wif_shape H s key version c
  · rintro ⟨hk, he⟩
    obtain ⟨s', hs', hd⟩ := wif_roundtrip H hH key hk version c
    rw [he] at hs'; injection hs' with hs'; subst hs'; exact hd

end NeoModel.Codec
