/-
C12 proofs, part 15: the candidate repair of the known finding `unwind-across-estack`.

The repair (handleException, vm.go: after `v.unloadContext(ctx)` in the unwinding loop,
`if ctx.sc.estack != ictx.sc.estack { ctx.sc.estack.Clear() }`) releases the items of every evaluation
stack that is dropped with its context. `unwindFramesFixed` is `unwindFrames` with that release; this
file proves that it keeps the counter invariant with the SAME leaked list — nothing is added — which
is the one step of `step_inv` where the unrepaired code adds `droppedOf k frames`. With the repair the
counter is exact after every unwinding (no carve-out `cleanUnwind`, no ghost list). The model and the
theorems of Props/C12.lean mirror the code as it is (unrepaired); this lemma is what moving the model
to the repaired code needs.
-/
import NeoModel.Proofs.VmAcctUnwind
namespace NeoModel.VmAcct

/-- `unwindFrames` with the repair: a dropped context that owns its evaluation stack has it cleared
(`Stack.Clear`: every element removed from the counter, bottom first) -/
def unwindFramesFixed : Nat → List Frame → Ctr → Option (List Frame × Ctr)
  | 0, fs, c => some (fs, c)
  | _ + 1, [], _ => none
  | k + 1, f :: fs, c => unwindFramesFixed k fs ((unloadSlots f c).remAll (slotItems f.own).reverse)

/-- the repaired unwinding keeps the counter invariant and leaks NOTHING -/
theorem unwindFramesFixed_inv (b : List Item) : ∀ (k : Nat) (fs : List Frame) (c : Ctr) (lk : List Item) (fs' : List Frame) (c' : Ctr),
    InvC c (fun id => cnt id (rootsOf fs b) + cnt id lk) ((rootsOf fs b).length + lk.length) →
    unwindFramesFixed k fs c = some (fs', c') →
    InvC c' (fun id => cnt id (rootsOf fs' b) + cnt id lk) ((rootsOf fs' b).length + lk.length) ∧
      c'.heap.length = c.heap.length ∧ fs' = fs.drop k := by
  intro k
  induction k with
  | zero =>
    intro fs c lk fs' c' inv h
    simp only [unwindFramesFixed, Option.some.injEq, Prod.mk.injEq] at h
    obtain ⟨rfl, rfl⟩ := h
    exact ⟨inv, rfl, by simp⟩
  | succ k ih =>
    intro fs c lk fs' c' inv h
    cases fs with
    | nil => simp [unwindFramesFixed] at h
    | cons f t =>
      simp only [unwindFramesFixed] at h
      have hr := fun id => roots_cons f t b id
      -- first the slots (as in the unrepaired code), the own stack still counted
      obtain ⟨i1, l1⟩ := unload_inv (g := fun id => (cnt id (rootsOf t b) + cnt id lk) + cnt id (slotItems f.own).reverse)
        (m := ((rootsOf t b).length + lk.length) + (slotItems f.own).reverse.length) f
        (inv.congr (by intro id; have := (hr id).1; simp only [cnt_reverse]; omega)
          (by have := (hr 0).2; simp only [List.length_reverse]; omega))
      -- then the repair: the own stack is released
      obtain ⟨i2, ss⟩ := inv_remAll (slotItems f.own).reverse i1
      obtain ⟨i3, l3, hd⟩ := ih t _ lk fs' c' i2 h
      exact ⟨i3, by rw [l3, ss.1, l1], by simpa using hd⟩

/-- non-vacuity: the witness of the finding — the callee's three remaining items are released, the
counter drops from 4 to 1 before the exception is pushed onto the caller's stack -/
example : (unwindFramesFixed 1 [{ own := some [.prim, .prim, .prim], isScript := true, retCount := 1 }, { own := some [], isScript := true, retCount := 1 }]
    { heap := [], refs := 3 }).map (fun p => (p.1.length, p.2.refs)) = some (1, 0) := by
  simp [unwindFramesFixed, unloadSlots, slotItems, Ctr.remAll, remW, Item.cid]

end NeoModel.VmAcct
