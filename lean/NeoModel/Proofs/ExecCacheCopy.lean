/-
C04 (DESIGN C04.4): obligations over the regenerated table `Generated/CacheCopy.lean` — what the heap
model `CStack` of Model/Exec.lean ASSUMES about the natives of pkg/core/native:
  (a) `Copy()` of a cache object returns an object that shares no container that is ever modified in
      place with the original (so a write through a private layer's copy is invisible below), and
  (b) no function modifies a cache object it obtained through `GetROCache` (which is the lower
      layer's own object).
Both are decided over the table of all cache fields / all write sites / all hand-overs that
harness/cmd/extract/cachecopy.go re-reads from the source with go/types on every run. What is
classified by hand is listed explicitly, with the reason.
-/
import NeoModel.Generated.CacheCopy
namespace NeoModel.Exec.CacheFacts
open NeoModel.Generated.CacheCopy

/-- the cache types the review below covers; a new one breaks the obligation. -/
def reviewedTypes : List String :=
  ["DesignationCache", "ManagementCache", "NeoCache", "NotaryCache", "OracleCache", "PolicyCache"]

def isRef (f : Field) : Bool := f.ref != "val"

/-- the statements that modify what is stored in the field whose write-row name is `alias`. -/
def writesTo (alias : String) : List Write := writes.filter fun w => w.target == alias

/-- a write that keeps the old container and changes it in place (`x.f[k] = v`, `delete(x.f, k)`,
    `x.f = append(x.f, …)`, a pointer-receiver method call) as opposed to binding the field to another
    container (`whole`) or overwriting the whole struct (`star`). -/
def inPlace (w : Write) : Bool := w.kind != "whole" && w.kind != "star"

/-- (a) for one field: not a reference; or Copy() clones the container; or Copy() shares it and NO
    statement of the package ever modifies that container in place (every write replaces it). -/
def copyOK (f : Field) : Bool :=
  !isRef f || f.action == "clone" || (f.action == "assign" && (writesTo f.alias).all fun w => !inPlace w)

/-- reference-typed fields that Copy() shares with the lower layer (plain assignment / struct copy). -/
def sharedFields : List (String × String) :=
  (fields.filter fun f => isRef f && f.action != "clone").map fun f => (f.typ, f.path)

/-- by hand: the shared containers. Harmless because they are only ever REPLACED (that part is decided:
    `copyOK`): the role node lists are rebuilt from storage by updateCachedRoleData; NEO's validator and
    committee lists are rebuilt by updateCache / updateCachedNewEpochValues / OnPersist ("the new array
    is created each time", native_neo.go:146). -/
def sharedReviewed : List (String × String) := [
  ("DesignationCache", "oracles.nodes"), ("DesignationCache", "stateVals.nodes"),
  ("DesignationCache", "neofsAlphabet.nodes"), ("DesignationCache", "notaries.nodes"),
  ("NeoCache", "nextValidators"), ("NeoCache", "newEpochNextValidators"),
  ("NeoCache", "committee"), ("NeoCache", "newEpochCommittee")]

/-- reference-typed fields whose ELEMENTS hold references again: cloning the container still shares them. -/
def shallowFields : List (String × String × String) :=
  (fields.filter fun f => isRef f && f.elemRefs).map fun f => (f.typ, f.path, f.gotype)

/-- by hand: the shallow clones. keys.PublicKey and big.Int have no exported fields and no statement of
    the package assigns through a pointer to a `pointee` type (decided: `pointeeWrites = []`);
    *state.Contract objects are copied before Management changes them (management.go:484, 711: decided by
    the same list); gasRecord / gasPerVoteCache hold big.Int VALUES that are only replaced wholesale
    (`cache.gasPerVoteCache[k] = *tmp`, append of a fresh pair). In-place arithmetic on a *big.Int read
    out of a cache through a local alias (`x.Add(x, …)` with x = cs[i].Votes) and writes by users of the
    exported getters outside the package are decided by `native_cache_aliases_read_only` below. -/
def shallowReviewed : List (String × String × String) := [
  ("DesignationCache", "oracles.nodes", "keys.PublicKeys"), ("DesignationCache", "stateVals.nodes", "keys.PublicKeys"),
  ("DesignationCache", "neofsAlphabet.nodes", "keys.PublicKeys"), ("DesignationCache", "notaries.nodes", "keys.PublicKeys"),
  ("ManagementCache", "contracts", "map[util.Uint160]*state.Contract"),
  ("NeoCache", "gasPerBlock", "native.gasRecord"),
  ("NeoCache", "nextValidators", "keys.PublicKeys"), ("NeoCache", "newEpochNextValidators", "keys.PublicKeys"),
  ("NeoCache", "committee", "native.keysWithVotes"), ("NeoCache", "newEpochCommittee", "native.keysWithVotes"),
  ("NeoCache", "gasPerVoteCache", "map[string]big.Int")]

/-! (b) nobody writes through a read-only cache. -/

/-- functions that modify a cache object they receive as a parameter / receiver: "has a write row with
    source `param`", closed under "hands its parameter on to such a function". -/
def paramWritersStep (ws : List String) : List String :=
  ws ++ ((calls.filter fun c => c.src.contains "param" && ws.contains c.callee && !ws.contains c.caller).map (·.caller)).eraseDups

def paramWriters0 : List String := ((writes.filter fun w => w.src.contains "param").map (·.fn)).eraseDups

/-- four rounds; that this is a fixpoint is part of the obligation. -/
def paramWriters : List String := paramWritersStep (paramWritersStep (paramWritersStep (paramWritersStep paramWriters0)))

/-- functions of other packages that receive (a reference into) a read-only cache: they only read. -/
def readOnlyExternals : List String := ["ext:slices.BinarySearchFunc", "ext:slices.Clone", "ext:maps.Clone"]

/-- by hand: NEO.PostPersist starts with the read-only cache and re-binds `cache` to GetRWCache right
    before its only write and its only hand-over to a writing helper (native_neo.go:544-548, 565-568);
    the statement that precedes each of them is part of the table and is compared literally. -/
def roExceptions : List Guard := [
  ⟨"pkg/core/native/native_neo.go", "NEO.PostPersist", "NeoCache.gasPerVoteCache",
    "if !isCacheRW { cache = ic.DAO.GetRWCache(n.ID).(*NeoCache) isCacheRW = true }"⟩,
  ⟨"pkg/core/native/native_neo.go", "NEO.PostPersist", "call NEO.updateCachedNewEpochValues",
    "if !isCacheRW { cache = ic.DAO.GetRWCache(n.ID).(*NeoCache) }"⟩]

def guardedException (file fn what : String) : Bool :=
  roExceptions.any fun g => g.file == file && g.fn == fn && g.what == what && mixedGuards.contains g

def writeOK (w : Write) : Bool :=
  !w.src.contains "ro" || guardedException w.file w.fn w.target

def callOK (c : Call) : Bool :=
  !c.src.contains "ro" ||
  (if c.ext then readOnlyExternals.contains c.callee else !paramWriters.contains c.callee) ||
  guardedException c.file c.caller ("call " ++ c.callee)

def knownSources : List String := ["rw", "ro", "new", "param", "zero"]


set_option maxRecDepth 100000 in
/-- (a) every cache type is reviewed; every reference-typed field of every cache is cloned by Copy(), or
    is shared and never modified in place anywhere in the package; the shared and the shallowly cloned
    fields are exactly the reviewed ones; nothing is assigned through a pointer to an object that a
    cache container points to. -/
theorem native_cache_copy_is_deep :
    cacheTypes = reviewedTypes ∧ fields.all copyOK = true ∧ sharedFields = sharedReviewed ∧
    shallowFields = shallowReviewed ∧ pointeeWrites = [] := by decide

set_option maxRecDepth 100000 in
/-- (b) no statement modifies an object obtained through GetROCache, no read-only cache is handed to a
    function that modifies its parameter (transitively) or to an unreviewed function of another package;
    the two reviewed exceptions are literally guarded by a re-binding to GetRWCache; every object
    written through has a known origin; the scan saw accessor sites of both kinds. -/
theorem native_ro_cache_not_written_through :
    writes.all writeOK = true ∧ calls.all callOK = true ∧ paramWritersStep paramWriters = paramWriters ∧
    (writes.all fun w => w.src.all knownSources.contains) = true ∧
    (calls.all fun c => c.src.all knownSources.contains) = true ∧ 0 < roSites ∧ 0 < rwSites := by decide

/-! (c) local aliases and users outside the package. -/

/-- pointer-receiver methods that do not modify their receiver. -/
def readOnlyMethods : List String :=
  ["Sign", "Cmp", "CmpAbs", "Int64", "IsInt64", "Uint64", "IsUint64", "Bytes", "String", "BitLen", "GetScriptHash", "Equal", "Compare"]

/-- functions that do not modify what they are handed (math/big methods modify their receiver only). -/
def readOnlyArgFuncs : List String :=
  ["ext:big.Int.Mul", "ext:big.Int.Div", "ext:big.Int.Add", "ext:big.Int.Sub", "ext:big.Int.Cmp", "ext:big.Int.Set",
   "ext:slices.Backward", "ext:slices.Clone", "ext:maps.Clone", "ext:slices.BinarySearchFunc", "getCommitteeMembers"]

/-- a use of a LOCAL ALIAS of something stored in a cache (`cs := cache.committee; … cs[i].Votes …`): a
    read-only method / a hand-over to a function that only reads, or — if it modifies — the alias is of a
    container that Copy() clones, taken from an object that is not the read-only one. -/
def aliasOK (w : Write) : Bool :=
  readOnlyMethods.any (fun m => w.kind == "ptrcall:" ++ m) ||
  readOnlyArgFuncs.any (fun f => w.kind == "arg-of:" ++ f) ||
  ((fields.any fun f => f.alias == w.target && f.action == "clone") && !w.src.contains "ro")

set_option maxRecDepth 100000 in
/-- (c) nothing stored in a cache is modified through a local alias (in particular no in-place arithmetic on a
    *big.Int read out of a cache, no element write through a copied slice header), except into containers the
    layer owns; and no function of pkg/core, pkg/core/interop/**, stateroot, mempool assigns through a pointer to
    an object a cache container points to (native.GetContract & co. hand out the cached *state.Contract). -/
theorem native_cache_aliases_read_only :
    aliasWrites.all aliasOK = true ∧ externalPointeeWrites = [] ∧ 100 ≤ externalFuncsScanned := by decide

example : aliasOK ⟨"pkg/core/native/native_neo.go", "NEO.PostPersist", "NeoCache.committee", "ptrcall:Add", ["rw"]⟩ = false := by decide
example : aliasOK ⟨"pkg/core/native/native_neo.go", "NEO.x", "NeoCache.committee", "elem", ["rw"]⟩ = false := by decide
example : aliasOK ⟨"pkg/core/native/policy.go", "Policy.x", "PolicyCache.blockedAccounts", "elem", ["rw"]⟩ = true := by decide
example : aliasOK ⟨"pkg/core/native/policy.go", "Policy.x", "PolicyCache.blockedAccounts", "elem", ["ro"]⟩ = false := by decide

-- what the obligations reject (non-vacuity of the checks themselves)
example : copyOK ⟨"NeoCache", "gasPerVoteCache", "map[string]big.Int", "map", true, "assign", "NeoCache.gasPerVoteCache"⟩ = false := by decide
example : copyOK ⟨"NeoCache", "committee", "native.keysWithVotes", "slice", true, "assign", "NeoCache.committee"⟩ = true := by decide
example : writeOK ⟨"pkg/core/native/policy.go", "Policy.setFeePerByte", "PolicyCache.feePerByte", "whole", ["ro"]⟩ = false := by decide
example : callOK ⟨"pkg/core/native/native_neo.go", "NEO.getX", "NEO.dropCandidateIfZero", ["ro"], false⟩ = false := by decide
example : callOK ⟨"pkg/core/native/policy.go", "Policy.getX", "ext:slices.Delete", ["ro"], true⟩ = false := by decide
example : 30 ≤ writes.length ∧ 30 ≤ fields.length ∧ paramWriters.contains "NEO.dropCandidateIfZero" = true := by decide

end NeoModel.Exec.CacheFacts
