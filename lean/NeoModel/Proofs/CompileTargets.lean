/-
CompileTargets — every jump and call target in the compiler's output is marked (C14 target 2, second conjunct of
`encodable`): expression code targets its own marks, the function labels and the label it was asked to jump to
(`compE_targets`); statement code additionally the end / post marks of the enclosing `for` / `switch` statements and
label 0 (`compS_targets`); in `compProg P` all of these exist (`targetsMarked_compProg`).  `FtOK`: a `fallthrough` has
a next clause to go to (Go's rule; the compiler would index `startLabels[i+1]` out of range otherwise).
-/
import NeoModel.Proofs.CompileLabels
import NeoModel.Proofs.CompileEnc
set_option linter.unusedSimpArgs false
set_option linter.unnecessarySimpa false
namespace NeoModel.CompileProofs
open NeoModel.MiniVm NeoModel.MiniVm.Asm NeoModel.MiniGo NeoModel.Compile

/-- jump / call targets of a piece of code. -/
def targetsOf : Code → List Nat
  | [] => []
  | .lbl _ :: r => targetsOf r
  | .ins op :: r => match Op.target? op with
    | some l => l :: targetsOf r
    | none => targetsOf r

theorem targetsOf_append (a b : Code) : targetsOf (a ++ b) = targetsOf a ++ targetsOf b := by
  induction a with
  | nil => rfl
  | cons x r ih =>
    cases x with
    | lbl k => simpa [targetsOf] using ih
    | ins op => cases h : Op.target? op <;> simp [targetsOf, h, ih]

/-- every target of `c` is marked in `c` or satisfies `ext`. -/
def TIn (c : Code) (ext : Nat → Prop) : Prop := ∀ l ∈ targetsOf c, l ∈ labelsOf c ∨ ext l

theorem TIn.nil (ext : Nat → Prop) : TIn [] ext := by intro l h; simp [targetsOf] at h

theorem TIn.mono {c : Code} {e1 e2 : Nat → Prop} (h : TIn c e1) (hm : ∀ l, e1 l → e2 l) : TIn c e2 :=
  fun l hl => (h l hl).imp id (hm l)

/-- composition: the pieces may refer to each other's marks. -/
theorem TIn.append {a b : Code} {ea eb ext : Nat → Prop} (ha : TIn a ea) (hb : TIn b eb)
    (hea : ∀ l, ea l → l ∈ labelsOf (a ++ b) ∨ ext l) (heb : ∀ l, eb l → l ∈ labelsOf (a ++ b) ∨ ext l) :
    TIn (a ++ b) ext := by
  intro l hl
  rw [targetsOf_append] at hl
  rcases List.mem_append.mp hl with h | h
  · rcases ha l h with h' | h'
    · left; rw [labelsOf_append]; exact List.mem_append_left _ h'
    · exact hea l h'
  · rcases hb l h with h' | h'
    · left; rw [labelsOf_append]; exact List.mem_append_right _ h'
    · exact heb l h'

theorem TIn.append_same {a b : Code} {ext : Nat → Prop} (ha : TIn a ext) (hb : TIn b ext) : TIn (a ++ b) ext :=
  TIn.append ha hb (fun _ h => Or.inr h) (fun _ h => Or.inr h)

theorem TIn.ins_notarget (op : Op Nat) (ext : Nat → Prop) (h : Op.target? op = none) : TIn [.ins op] ext := by
  intro l hl; simp [targetsOf, h] at hl

theorem TIn.ins_target (op : Op Nat) (l : Nat) (ext : Nat → Prop) (h : Op.target? op = some l) (he : ext l) : TIn [.ins op] ext := by
  intro l' hl; simp [targetsOf, h] at hl; subst hl; exact Or.inr he

theorem TIn.lbl (k : Nat) (ext : Nat → Prop) : TIn [.lbl k] ext := by intro l hl; simp [targetsOf] at hl

theorem TIn.of_targets_nil {c : Code} (ext : Nat → Prop) (h : targetsOf c = []) : TIn c ext := by
  intro l hl; rw [h] at hl; cases hl

theorem loadVar_targets (cx : Ctx) (sc : Scopes) (x : String) : targetsOf (loadVar cx sc x) = [] := by
  unfold loadVar
  split
  · rfl
  · split <;> rfl

theorem storeVar_targets (cx : Ctx) (sc : Scopes) (x : String) : targetsOf (storeVar cx sc x) = [] := by
  unfold storeVar
  split
  · rfl
  · split <;> rfl

theorem dropN_targets (n : Nat) : targetsOf (dropN n) = [] := by
  induction n with
  | zero => rfl
  | succ k ih => simpa [dropN, targetsOf, Op.target?] using ih

/-- targets that point outside an expression's code: the function labels and the jump-mode target. -/
def ExtE (cx : Ctx) (m : Mode) (l : Nat) : Prop := (∃ f, l = (cx.func f).1) ∨ (∃ c, m = .jump c l)

theorem withMode_targets {cx : Ctx} {m : Mode} {c : Code} (h : TIn c (ExtE cx .val)) : TIn (withMode m c) (ExtE cx m) := by
  have h' : TIn c (ExtE cx m) := h.mono (fun l hl => by
    rcases hl with hf | ⟨c', hc⟩
    · exact Or.inl hf
    · cases hc)
  cases m with
  | val => exact h'
  | jump cond t =>
    simp only [withMode]
    refine TIn.append_same h' ?_
    cases cond
    · exact TIn.ins_target _ t _ (by simp [jumpOn, Op.target?]) (Or.inr ⟨_, rfl⟩)
    · exact TIn.ins_target _ t _ (by simp [jumpOn, Op.target?]) (Or.inr ⟨_, rfl⟩)


theorem TIn.snoc_ins {c : Code} {ext : Nat → Prop} (h : TIn c ext) (op : Op Nat) (hop : ∀ l, Op.target? op = some l → ext l) :
    TIn (c ++ [.ins op]) ext := by
  refine TIn.append_same h ?_
  cases ht : Op.target? op with
  | none => exact TIn.ins_notarget op ext ht
  | some l => exact TIn.ins_target op l ext ht (hop l ht)

theorem call_tin (cx : Ctx) (m : Mode) (f : String) : ∀ l, Op.target? (Op.call (cx.func f).1) = some l → ExtE cx m l := by
  intro l h; simp [Op.target?] at h; subst h; exact Or.inl ⟨f, rfl⟩

/-- every jump / call target in the code of an expression is one of its own marks, a function label or the target
    it was asked to jump to. -/
theorem compE_targets (cx : Ctx) (sc : Scopes) : ∀ (e : Expr) (m : Mode) (nl : Nat), TIn (compE cx sc e m nl).1 (ExtE cx m) := by
  intro e
  induction e with
  | lit n => intro m nl; simp only [compE]; exact withMode_targets (TIn.ins_notarget _ _ rfl)
  | tt => intro m nl; simp only [compE]; exact withMode_targets (TIn.ins_notarget _ _ rfl)
  | ff => intro m nl; simp only [compE]; exact withMode_targets (TIn.ins_notarget _ _ rfl)
  | var x => intro m nl; simp only [compE]; exact withMode_targets (TIn.of_targets_nil _ (loadVar_targets _ _ _))
  | paren e ih => intro m nl; simp only [compE]; exact withMode_targets (ih .val nl)
  | neg e ih => intro m nl; simp only [compE]; exact withMode_targets ((ih .val nl).snoc_ins _ (by intro l h; cases h))
  | not e ih => intro m nl; simp only [compE]; exact withMode_targets ((ih .val nl).snoc_ins _ (by intro l h; cases h))
  | bin op a b iha ihb =>
    intro m nl
    by_cases hlog : op = .land ∨ op = .lor
    · cases m with
      | jump cond t =>
        rw [compE_logic_jump cx sc op a b cond t nl hlog]
        have ha := iha (.jump (op == .lor) (if cond == (op == .lor) then t else nl)) (nl + 1)
        generalize compE cx sc a (.jump (op == .lor) (if cond == (op == .lor) then t else nl)) (nl + 1) = ra at ha ⊢
        have hb := ihb (.jump cond t) ra.2
        generalize compE cx sc b (.jump cond t) ra.2 = rb at hb ⊢
        simp only
        intro l hl
        simp only [targetsOf_append, List.mem_append, targetsOf, List.not_mem_nil, or_false] at hl
        simp only [labelsOf_append, labelsOf, List.mem_append, List.mem_cons, List.not_mem_nil, or_false]
        rcases hl with h | h
        · rcases ha l h with h' | (h' | ⟨c, hc⟩)
          · exact Or.inl (Or.inl (Or.inl h'))
          · exact Or.inr (Or.inl h')
          · cases hc
            split
            · exact Or.inr (Or.inr ⟨_, rfl⟩)
            · exact Or.inl (Or.inr rfl)
        · rcases hb l h with h' | h'
          · exact Or.inl (Or.inl (Or.inr h'))
          · exact Or.inr h'
      | val =>
        rw [compE_logic_val cx sc op a b nl hlog]
        have ha := iha (.jump (op == .lor) (nl + 1)) (nl + 2)
        generalize compE cx sc a (.jump (op == .lor) (nl + 1)) (nl + 2) = ra at ha ⊢
        have hb := ihb .val ra.2
        generalize compE cx sc b .val ra.2 = rb at hb ⊢
        simp only
        intro l hl
        have htail : targetsOf [Item.ins (.jmp nl), .lbl (nl + 1), .ins (if (op == .lor) = true then (Op.pushT : Op Nat) else Op.pushF), .lbl nl] = [nl] := by
          cases (op == BinOp.lor) <;> rfl
        have hlab : labelsOf [Item.ins (.jmp nl), .lbl (nl + 1), .ins (if (op == .lor) = true then (Op.pushT : Op Nat) else Op.pushF), .lbl nl] = [nl + 1, nl] := by
          cases (op == BinOp.lor) <;> rfl
        simp only [targetsOf_append, List.mem_append, htail, List.mem_cons, List.not_mem_nil, or_false] at hl
        simp only [labelsOf_append, hlab, List.mem_append, List.mem_cons, List.not_mem_nil, or_false]
        rcases hl with (h | h) | h
        · rcases ha l h with h' | (h' | ⟨c, hc⟩)
          · exact Or.inl (Or.inl (Or.inl h'))
          · exact Or.inr (Or.inl h')
          · cases hc; exact Or.inl (Or.inr (Or.inl rfl))
        · rcases hb l h with h' | (h' | ⟨c, hc⟩)
          · exact Or.inl (Or.inl (Or.inr h'))
          · exact Or.inr (Or.inl h')
          · cases hc
        · subst h; exact Or.inl (Or.inr (Or.inr rfl))
    · have hc : (op == .land || op == .lor) = false := by cases op <;> simp_all
      simp only [compE, hc, Bool.false_eq_true, if_false]
      have ha := iha .val nl
      generalize compE cx sc a .val nl = ra at ha ⊢
      have hb := ihb .val ra.2
      generalize compE cx sc b .val ra.2 = rb at hb ⊢
      have hval : ∀ m, ∀ l, ExtE cx .val l → ExtE cx m l := by
        intro m l h; rcases h with h | ⟨c, hc⟩
        · exact Or.inl h
        · cases hc
      have hab : ∀ m, TIn (ra.1 ++ rb.1) (ExtE cx m) := fun m => (TIn.append_same ha hb).mono (hval m)
      have htok : ∀ l, Op.target? (tokenOp op) = some l → False := by intro l h; cases op <;> simp [tokenOp, Op.target?] at h
      cases m with
      | val => exact (hab _).snoc_ins _ (fun l h => (htok l h).elim)
      | jump cond t =>
        simp only
        cases jumpFor op with
        | some c => exact (hab _).snoc_ins _ (by intro l h; simp [Op.target?] at h; subst h; exact Or.inr ⟨_, rfl⟩)
        | none =>
          have h1 := (hab (.jump cond t)).snoc_ins (tokenOp op) (fun l h => (htok l h).elim)
          have h2 := h1.snoc_ins (if cond then .jmpIf t else .jmpIfNot t) (by
            intro l h; cases cond <;> simp [Op.target?] at h <;> subst h <;> exact Or.inr ⟨_, rfl⟩)
          cases cond <;> simpa [jumpOn] using h2
  | call0 f => intro m nl; simp only [compE]; exact withMode_targets (TIn.ins_target _ _ _ rfl (Or.inl ⟨f, rfl⟩))
  | call1 f a iha =>
    intro m nl; simp only [compE]
    exact withMode_targets ((iha .val nl).snoc_ins _ (call_tin cx .val f))
  | call2 f a b iha ihb =>
    intro m nl
    simp only [compE, emitReverse]
    have ha := iha .val nl
    generalize compE cx sc a .val nl = ra at ha ⊢
    have hb := ihb .val ra.2
    generalize compE cx sc b .val ra.2 = rb at hb ⊢
    refine withMode_targets ?_
    have := ((TIn.append_same ha hb).snoc_ins .swap (by intro l h; cases h)).snoc_ins _ (call_tin cx .val f)
    simpa using this
  | call3 f a b c iha ihb ihc =>
    intro m nl
    simp only [compE, emitReverse]
    have ha := iha .val nl
    generalize compE cx sc a .val nl = ra at ha ⊢
    have hb := ihb .val ra.2
    generalize compE cx sc b .val ra.2 = rb at hb ⊢
    have hc := ihc .val rb.2
    generalize compE cx sc c .val rb.2 = rc at hc ⊢
    refine withMode_targets ?_
    have := (((TIn.append_same ha hb).append_same hc).snoc_ins .reverse3 (by intro l h; cases h)).snoc_ins _ (call_tin cx .val f)
    simpa using this


/-- every `fallthrough` has a next clause to fall into (Go rejects it in the last clause; the compiler would index
    `startLabels[i+1]` out of range there). -/
def FtOK : Stmt → Prop
  | .seq a b => FtOK a ∧ FtOK b
  | .ite _ t _ e => FtOK t ∧ FtOK e
  | .loop i _ p b => FtOK i ∧ FtOK p ∧ FtOK b
  | .block b => FtOK b
  | .labeled _ b => FtOK b
  | .defaultS b => FtOK b
  | .switchS _ _ cl => FtOK cl
  | .caseS _ _ b ft rest => FtOK b ∧ FtOK rest ∧ (ft = true → IsClause rest)
  | _ => True

/-- targets that point outside a statement's code: function labels, label 0 (what codegen.labels yields for a
    missing key), and the end / post marks of the enclosing `for` / `switch` statements. -/
def ExtS (cx : Ctx) (lp : LoopCtx) (l : Nat) : Prop :=
  (∃ f, l = (cx.func f).1) ∨ l = 0 ∨ ∃ e ∈ lp, l = e.endL ∨ l = e.postL

theorem extE_val_extS {cx : Ctx} {lp : LoopCtx} {l : Nat} (h : ExtE cx .val l) : ExtS cx lp l := by
  rcases h with h | ⟨c, hc⟩
  · exact Or.inl h
  · cases hc

theorem dropItems_targets (n : Nat) : targetsOf (dropItems n) = [] := by
  unfold dropItems
  split
  · exact dropN_targets n
  · rfl

theorem clause_first_label (cx : Ctx) (lp : LoopCtx) (rest : Stmt) (st : St) (h : IsClause rest) :
    st.sb ∈ labelsOf (compS cx lp rest st).1 := by
  cases rest with
  | caseS e1 e2 b ft r =>
    rw [compS_case]
    simp [labelsOf_append, labelsOf]
  | defaultS b =>
    rw [compS_default]
    simp [labelsOf_append, labelsOf]
  | _ => exact h.elim

theorem findBrk_ext {cx : Ctx} {l : Option String} {lp : LoopCtx} {acc dr : Nat} {e : LEntry} (h : findBrk l lp acc = some (dr, e)) :
    ExtS cx lp e.endL := Or.inr (Or.inr ⟨e, findBrk_mem h, Or.inl rfl⟩)

theorem findCont_ext {cx : Ctx} {l : Option String} {lp : LoopCtx} {acc dr : Nat} {e : LEntry} (h : findCont l lp acc = some (dr, e)) :
    ExtS cx lp e.postL := Or.inr (Or.inr ⟨e, findCont_mem h, Or.inr rfl⟩)

theorem brk_targets {cx : Ctx} {lp : LoopCtx} (o : Option (Nat × LEntry)) (ho : ∀ d e, o = some (d, e) → ExtS cx lp e.endL) :
    TIn (match (generalizing := false) o with | some (d, e) => dropItems d ++ [Item.ins (.jmp e.endL)] | none => []) (ExtS cx lp) := by
  cases o with
  | none => exact TIn.nil _
  | some p =>
    obtain ⟨d, e⟩ := p
    exact TIn.append_same (TIn.of_targets_nil _ (dropItems_targets d)) (TIn.ins_target _ _ _ rfl (ho d e rfl))

theorem cont_targets {cx : Ctx} {lp : LoopCtx} (o : Option (Nat × LEntry)) (ho : ∀ d e, o = some (d, e) → ExtS cx lp e.postL) :
    TIn (match (generalizing := false) o with | some (d, e) => dropItems d ++ [Item.ins (.jmp e.postL)] | none => []) (ExtS cx lp) := by
  cases o with
  | none => exact TIn.nil _
  | some p =>
    obtain ⟨d, e⟩ := p
    exact TIn.append_same (TIn.of_targets_nil _ (dropItems_targets d)) (TIn.ins_target _ _ _ rfl (ho d e rfl))


theorem TIn.of_expr {cx : Ctx} {lp : LoopCtx} {c : Code} (h : TIn c (ExtE cx .val)) : TIn c (ExtS cx lp) :=
  h.mono (fun _ hl => extE_val_extS hl)

theorem extS_mono {cx : Ctx} {lp : LoopCtx} {e : LEntry} {l : Nat} (h : ExtS cx lp l) : ExtS cx (e :: lp) l := by
  rcases h with h | h | ⟨e', he, h⟩
  · exact Or.inl h
  · exact Or.inr (Or.inl h)
  · exact Or.inr (Or.inr ⟨e', List.mem_cons_of_mem _ he, h⟩)

/-- a target of code compiled inside `ent :: lp` is marked in the enclosing code or concerns `lp`. -/
theorem extS_cons {cx : Ctx} {lp : LoopCtx} {ent : LEntry} {l : Nat} {labs : List Nat} (h : ExtS cx (ent :: lp) l)
    (he : ent.endL ∈ labs) (hp : ent.postL ∈ labs ∨ ent.postL = 0) : l ∈ labs ∨ ExtS cx lp l := by
  rcases h with h | h | ⟨e', he', h⟩
  · exact Or.inr (Or.inl h)
  · exact Or.inr (Or.inr (Or.inl h))
  · rcases List.mem_cons.mp he' with rfl | he'
    · rcases h with h | h
      · subst h; exact Or.inl he
      · subst h
        rcases hp with hp | hp
        · exact Or.inl hp
        · exact Or.inr (Or.inr (Or.inl hp))
    · exact Or.inr (Or.inr (Or.inr ⟨e', he', h⟩))

/-- every jump / call target in the code of a statement is one of its own marks, a function label, label 0, or an
    end / post mark of an enclosing `for` / `switch`. -/
theorem compS_targets (cx : Ctx) : ∀ (s : Stmt) (lp : LoopCtx) (st : St), FtOK s → TIn (compS cx lp s st).1 (ExtS cx lp) := by
  intro s
  induction s with
  | skip => intro lp st _; exact TIn.nil _
  | seq a b iha ihb => intro lp st h; simp only [compS]; exact TIn.append_same (iha lp st h.1) (ihb lp _ h.2)
  | define x e =>
    intro lp st _; simp only [compS]
    exact TIn.append_same (TIn.of_expr (compE_targets cx _ e .val _)) (TIn.of_targets_nil _ (storeVar_targets _ _ _))
  | assign x e =>
    intro lp st _; simp only [compS]
    exact TIn.append_same (TIn.of_expr (compE_targets cx _ e .val _)) (TIn.of_targets_nil _ (storeVar_targets _ _ _))
  | opAssign x op e =>
    intro lp st _; simp only [compS]
    have htok : Op.target? (tokenOp op) = none := by cases op <;> rfl
    exact TIn.append_same (TIn.append_same (TIn.append_same (TIn.of_targets_nil _ (loadVar_targets _ _ _))
      (TIn.of_expr (compE_targets cx _ e .val _))) (TIn.ins_notarget _ _ htok)) (TIn.of_targets_nil _ (storeVar_targets _ _ _))
  | inc x =>
    intro lp st _; simp only [compS]
    exact TIn.append_same (TIn.append_same (TIn.of_targets_nil _ (loadVar_targets _ _ _)) (TIn.ins_notarget _ _ rfl))
      (TIn.of_targets_nil _ (storeVar_targets _ _ _))
  | dec x =>
    intro lp st _; simp only [compS]
    exact TIn.append_same (TIn.append_same (TIn.of_targets_nil _ (loadVar_targets _ _ _)) (TIn.ins_notarget _ _ rfl))
      (TIn.of_targets_nil _ (storeVar_targets _ _ _))
  | varDecl x b init =>
    intro lp st _
    cases init with
    | none =>
      simp only [compS]
      refine TIn.append_same ?_ (TIn.of_targets_nil _ (storeVar_targets _ _ _))
      cases b <;> exact TIn.ins_notarget _ _ rfl
    | some e =>
      simp only [compS]
      exact TIn.append_same (TIn.of_expr (compE_targets cx _ e .val _)) (TIn.of_targets_nil _ (storeVar_targets _ _ _))
  | exprStmt e =>
    intro lp st _; simp only [compS]
    exact TIn.append_same (TIn.of_expr (compE_targets cx _ e .val _)) (TIn.of_targets_nil _ (dropN_targets _))
  | discard e =>
    intro lp st _; simp only [compS]
    exact (TIn.of_expr (compE_targets cx _ e .val _)).snoc_ins _ (by intro l h; cases h)
  | panicS e =>
    intro lp st _; simp only [compS]
    exact (TIn.of_expr (compE_targets cx _ e .val _)).snoc_ins _ (by intro l h; cases h)
  | ret e =>
    intro lp st _
    cases e with
    | none => simp only [compS]; exact TIn.append_same (TIn.of_targets_nil _ (dropItems_targets _)) (TIn.ins_notarget _ _ rfl)
    | some e =>
      simp only [compS]
      exact (TIn.append_same (TIn.of_targets_nil _ (dropItems_targets _)) (TIn.of_expr (compE_targets cx _ e .val _))).snoc_ins _
        (by intro l h; cases h)
  | ret2 e1 e2 =>
    intro lp st _; simp only [compS]
    exact (TIn.append_same (TIn.append_same (TIn.of_targets_nil _ (dropItems_targets _)) (TIn.of_expr (compE_targets cx _ e2 .val _)))
      (TIn.of_expr (compE_targets cx _ e1 .val _))).snoc_ins _ (by intro l h; cases h)
  | define2 x y e =>
    intro lp st _; simp only [compS]
    exact TIn.append_same (TIn.append_same (TIn.append_same (TIn.of_expr (compE_targets cx _ e .val _))
      (TIn.of_targets_nil _ rfl)) (TIn.of_targets_nil _ (storeVar_targets _ _ _))) (TIn.of_targets_nil _ (storeVar_targets _ _ _))
  | brk =>
    intro lp st _; simp only [compS]
    exact brk_targets (findBrk none lp 0) (fun d e h => findBrk_ext h)
  | cont =>
    intro lp st _; simp only [compS]
    exact cont_targets (findCont none lp 0) (fun d e h => findCont_ext h)
  | brkL l =>
    intro lp st _; simp only [compS]
    exact TIn.append_same (brk_targets (findBrk (some l) lp 0) (fun d e h => findBrk_ext h))
      (TIn.of_targets_nil _ (loadVar_targets _ _ _))
  | contL l =>
    intro lp st _; simp only [compS]
    exact TIn.append_same (cont_targets (findCont (some l) lp 0) (fun d e h => findCont_ext h))
      (TIn.of_targets_nil _ (loadVar_targets _ _ _))
  | block body ih => intro lp st h; rw [compS_block]; exact ih lp _ h
  | labeled l s ih => intro lp st h; rw [compS_labeled]; exact ih lp _ h
  | ite c thn k els iht ihe =>
    intro lp st h
    have hc := compE_targets cx (ifSt0 st).scopes c (.jump false (st.nl + 1)) (ifSt0 st).nl
    have hc' : TIn (ifCond cx c st).1 (ExtE cx (.jump false (st.nl + 1))) := hc
    have ht := iht lp (ifStT cx c st) h.1
    cases k with
    | none =>
      rw [compS_ite_none]
      intro l hl
      simp only [targetsOf_append, targetsOf, List.mem_append, List.not_mem_nil, or_false] at hl
      simp only [labelsOf_append, labelsOf, List.mem_append, List.mem_cons, List.not_mem_nil, or_false]
      rcases hl with h1 | h1
      · rcases hc' l h1 with h2 | (h2 | ⟨c', hc2⟩)
        · exact Or.inl (Or.inl (Or.inl (Or.inl h2)))
        · exact Or.inr (Or.inl h2)
        · cases hc2; exact Or.inl (Or.inr (Or.inl rfl))
      · rcases ht l h1 with h2 | h2
        · exact Or.inl (Or.inl (Or.inr h2))
        · exact Or.inr h2
    | block =>
      rw [compS_ite_block]
      have he := ihe lp (ifSt1 cx lp c thn st).push h.2
      intro l hl
      simp only [targetsOf_append, targetsOf, Op.target?, List.mem_append, List.mem_cons, List.not_mem_nil, or_false] at hl
      simp only [labelsOf_append, labelsOf, List.mem_append, List.mem_cons, List.not_mem_nil, or_false]
      rcases hl with ((h1 | h1) | h1) | h1
      · rcases hc' l h1 with h2 | (h2 | ⟨c', hc2⟩)
        · exact Or.inl (Or.inl (Or.inl (Or.inl (Or.inl (Or.inl h2)))))
        · exact Or.inr (Or.inl h2)
        · cases hc2; exact Or.inl (Or.inl (Or.inl (Or.inr rfl)))
      · rcases ht l h1 with h2 | h2
        · exact Or.inl (Or.inl (Or.inl (Or.inl (Or.inr h2))))
        · exact Or.inr h2
      · subst h1; exact Or.inl (Or.inr rfl)
      · rcases he l h1 with h2 | h2
        · exact Or.inl (Or.inl (Or.inr h2))
        · exact Or.inr h2
    | elif =>
      rw [compS_ite_elif]
      have he := ihe lp (ifSt1 cx lp c thn st) h.2
      intro l hl
      simp only [targetsOf_append, targetsOf, Op.target?, List.mem_append, List.mem_cons, List.not_mem_nil, or_false] at hl
      simp only [labelsOf_append, labelsOf, List.mem_append, List.mem_cons, List.not_mem_nil, or_false]
      rcases hl with ((h1 | h1) | h1) | h1
      · rcases hc' l h1 with h2 | (h2 | ⟨c', hc2⟩)
        · exact Or.inl (Or.inl (Or.inl (Or.inl (Or.inl (Or.inl h2)))))
        · exact Or.inr (Or.inl h2)
        · cases hc2; exact Or.inl (Or.inl (Or.inl (Or.inr rfl)))
      · rcases ht l h1 with h2 | h2
        · exact Or.inl (Or.inl (Or.inl (Or.inl (Or.inr h2))))
        · exact Or.inr h2
      · subst h1; exact Or.inl (Or.inr rfl)
      · rcases he l h1 with h2 | h2
        · exact Or.inl (Or.inl (Or.inr h2))
        · exact Or.inr h2
  | loop init cond post body ihi ihp ihb =>
    intro lp st h
    rw [compS_loop]
    have hi := ihi lp (forSt0 st) h.1
    have hb := ihb (forEnt st :: lp) (forStB cx lp init cond st) h.2.2
    have hp := ihp lp (forSt3 cx lp init cond body st) h.2.1
    have hcnd : TIn (forCond cx lp init cond st).1 (fun l => ExtS cx lp l ∨ l = st.nl + 1) := by
      cases cond with
      | none => exact TIn.nil _
      | some c =>
        simp only [forCond]
        refine ((compE_targets cx _ c .val _).mono (fun l hl => Or.inl (extE_val_extS hl))).snoc_ins _ ?_
        intro l hl; simp [Op.target?] at hl; exact Or.inr hl.symm
    intro l hl
    simp only [targetsOf_append, targetsOf, Op.target?, List.mem_append, List.mem_cons, List.not_mem_nil, or_false] at hl
    simp only [labelsOf_append, labelsOf, List.mem_append, List.mem_cons, List.not_mem_nil, or_false]
    rcases hl with ((((h1 | h1) | h1) | h1) | h1)
    · rcases hi l h1 with h2 | h2
      · exact Or.inl (Or.inl (Or.inl (Or.inl (Or.inl (Or.inl (Or.inl h2))))))
      · exact Or.inr h2
    · rcases hcnd l h1 with h2 | (h2 | h2)
      · exact Or.inl (Or.inl (Or.inl (Or.inl (Or.inl (Or.inr h2)))))
      · exact Or.inr h2
      · subst h2; exact Or.inl (Or.inr rfl)
    · rcases hb l h1 with h2 | h2
      · exact Or.inl (Or.inl (Or.inl (Or.inl (Or.inr h2))))
      · have := extS_cons (labs := [st.nl + 1, st.nl + 2]) h2 (by simp [forEnt]) (Or.inl (by simp [forEnt]))
        rcases this with h3 | h3
        · simp at h3
          rcases h3 with rfl | rfl
          · exact Or.inl (Or.inr rfl)
          · exact Or.inl (Or.inl (Or.inl (Or.inr rfl)))
        · exact Or.inr h3
    · rcases hp l h1 with h2 | h2
      · exact Or.inl (Or.inl (Or.inr h2))
      · exact Or.inr h2
    · subst h1; exact Or.inl (Or.inl (Or.inl (Or.inl (Or.inl (Or.inl (Or.inr rfl))))))
  | switchS tag ti cl ih =>
    intro lp st h
    rw [compS_switch]
    have ht : TIn (swTag cx tag st).1 (ExtS cx lp) := by
      cases tag with
      | none => exact TIn.ins_notarget _ _ rfl
      | some e => exact TIn.of_expr (compE_targets cx _ e .val _)
    have hc := ih (swEnt cx tag ti st :: lp) (swSt1 cx tag cl st) h
    intro l hl
    simp only [targetsOf_append, targetsOf, Op.target?, List.mem_append, List.mem_cons, List.not_mem_nil, or_false] at hl
    simp only [labelsOf_append, labelsOf, List.mem_append, List.mem_cons, List.not_mem_nil, or_false]
    rcases hl with (h1 | h1)
    · rcases ht l h1 with h2 | h2
      · exact Or.inl (Or.inl (Or.inl h2))
      · exact Or.inr h2
    · rcases hc l h1 with h2 | h2
      · exact Or.inl (Or.inl (Or.inr h2))
      · have := extS_cons (labs := [(swTag cx tag st).2]) h2 (by simp [swEnt]) (Or.inr (by simp [swEnt]))
        rcases this with h3 | h3
        · simp at h3; subst h3; exact Or.inl (Or.inr rfl)
        · exact Or.inr h3
  | caseS e1 e2 body ft rest ihb ihr =>
    intro lp st h
    rw [compS_case]
    have hb := ihb lp (csStB cx lp e1 e2 st) h.1
    have hr := ihr lp (csStR cx lp e1 e2 body st) h.2.1
    have hEq : Op.target? (csEq lp) = none := by
      unfold csEq; split
      · split <;> rfl
      · rfl
    have hT : TIn (csTests cx lp e1 e2 st).1 (fun l => ExtS cx lp l ∨ l = st.nl ∨ l = st.sb) := by
      have h1 := (compE_targets cx st.scopes e1 .val (st.nl + 1)).mono
        (fun l hl => (Or.inl (extE_val_extS hl) : ExtS cx lp l ∨ l = st.nl ∨ l = st.sb))
      cases e2 with
      | none =>
        simp only [csTests]
        have a := ((TIn.append_same (TIn.ins_notarget .dup _ rfl) h1).snoc_ins (csEq lp) (by intro l hl; rw [hEq] at hl; cases hl)).snoc_ins
          (.jmpIfNot st.nl) (by intro l hl; simp [Op.target?] at hl; exact Or.inr (Or.inl hl.symm))
        simpa using a
      | some e2 =>
        simp only [csTests]
        have h2 := (compE_targets cx st.scopes e2 .val (compE cx st.scopes e1 .val (st.nl + 1)).2).mono
          (fun l hl => (Or.inl (extE_val_extS hl) : ExtS cx lp l ∨ l = st.nl ∨ l = st.sb))
        have a := ((TIn.append_same (TIn.ins_notarget .dup _ rfl) h1).snoc_ins (csEq lp) (by intro l hl; rw [hEq] at hl; cases hl)).snoc_ins
          (.jmpIf st.sb) (by intro l hl; simp [Op.target?] at hl; exact Or.inr (Or.inr hl.symm))
        have b := ((TIn.append_same (TIn.ins_notarget .dup _ rfl) h2).snoc_ins (csEq lp) (by intro l hl; rw [hEq] at hl; cases hl)).snoc_ins
          (.jmpIfNot st.nl) (by intro l hl; simp [Op.target?] at hl; exact Or.inr (Or.inl hl.symm))
        have := TIn.append_same a b
        simpa using this
    have hEnd : ExtS cx lp (csEndL lp) := by
      cases lp with
      | nil => exact Or.inr (Or.inl rfl)
      | cons e r => exact Or.inr (Or.inr ⟨e, by simp, Or.inl rfl⟩)
    intro l hl
    simp only [targetsOf_append, targetsOf, Op.target?, List.mem_append, List.mem_cons, List.not_mem_nil, or_false] at hl
    simp only [labelsOf_append, labelsOf, List.mem_append, List.mem_cons, List.not_mem_nil, or_false]
    rcases hl with ((((h1 | h1) | h1) | h1) | h1)
    · rcases hT l h1 with h2 | (h2 | (h2 | h2))
      · exact Or.inl (Or.inl (Or.inl (Or.inl (Or.inl (Or.inl h2)))))
      · exact Or.inr h2
      · subst h2; exact Or.inl (Or.inl (Or.inr rfl))
      · subst h2; exact Or.inl (Or.inl (Or.inl (Or.inl (Or.inl (Or.inr rfl)))))
    · rcases hb l h1 with h2 | h2
      · exact Or.inl (Or.inl (Or.inl (Or.inl (Or.inr h2))))
      · exact Or.inr h2
    · cases ft with
      | false => simp [targetsOf] at h1
      | true =>
        simp [targetsOf, Op.target?] at h1
        subst h1
        have := clause_first_label cx lp rest (csStR cx lp e1 e2 body st) (h.2.2 rfl)
        exact Or.inl (Or.inr this)
    · subst h1; exact Or.inr hEnd
    · rcases hr l h1 with h2 | h2
      · exact Or.inl (Or.inr h2)
      · exact Or.inr h2
  | defaultS body ih =>
    intro lp st h
    rw [compS_default]
    have hb := ih lp (dfStB st) h
    have hEnd : ExtS cx lp (csEndL lp) := by
      cases lp with
      | nil => exact Or.inr (Or.inl rfl)
      | cons e r => exact Or.inr (Or.inr ⟨e, by simp, Or.inl rfl⟩)
    intro l hl
    simp only [targetsOf_append, targetsOf, Op.target?, List.mem_append, List.mem_cons, List.not_mem_nil, or_false] at hl
    simp only [labelsOf_append, labelsOf, List.mem_append, List.mem_cons, List.not_mem_nil, or_false]
    rcases hl with ((h1 | h1) | h1)
    · exact h1.elim
    · rcases hb l h1 with h2 | h2
      · exact Or.inl (Or.inl (Or.inr h2))
      · exact Or.inr h2
    · subst h1; exact Or.inr hEnd


theorem findLabel_isSome_of_mem (c : Code) (l : Nat) (h : l ∈ labelsOf c) : (findLabel c l).isSome = true := by
  induction c with
  | nil => simp [labelsOf] at h
  | cons it r ih =>
    cases it with
    | lbl k =>
      simp only [labelsOf, List.mem_cons] at h
      simp only [findLabel]
      by_cases hk : (k == l) = true
      · simp [hk]
      · have hne : l ≠ k := by intro e; subst e; simp at hk
        rcases h with h | h
        · exact absurd h hne
        · simp [hk, ih h]
    | ins op =>
      simp only [labelsOf] at h
      simp [findLabel, ih h]

theorem targetsMarked_of (c : Code) (h : ∀ l ∈ targetsOf c, l ∈ labelsOf c) : targetsMarked c = true := by
  unfold targetsMarked
  rw [List.all_eq_true]
  intro it hit
  cases it with
  | lbl k => rfl
  | ins op =>
    cases ht : Op.target? op with
    | none => simp [ht]
    | some l =>
      simp only [ht]
      apply findLabel_isSome_of_mem
      apply h
      -- l is a target of c
      clear h
      induction c with
      | nil => cases hit
      | cons a r ih =>
        rcases List.mem_cons.mp hit with rfl | hm
        · simp [targetsOf, ht]
        · have := ih hm
          cases a with
          | lbl k => simpa [targetsOf] using this
          | ins op' => cases h' : Op.target? op' <;> simp [targetsOf, h', this]

theorem tableFrom_label_lt (l : List FuncDecl) (k : Nat) (f : String) (r : Nat × Nat) (h : (tableFrom l k).lookup f = some r) :
    k ≤ r.1 ∧ r.1 < k + l.length := by
  induction l generalizing k with
  | nil => simp [tableFrom, List.lookup] at h
  | cons d rest ih =>
    simp only [tableFrom, List.lookup] at h
    split at h
    · cases h; simp
    · have := ih (k + 1) h; simp only [List.length_cons]; omega

/-- the label a call is compiled with belongs to a function of the program. -/
theorem func_label_lt (P : Prog) (cx : Ctx) (htab : cx.funcs = funcTable P) (hne : P ≠ []) (f : String) : (cx.func f).1 < P.length := by
  have hpos : 0 < P.length := by cases P with | nil => exact absurd rfl hne | cons a b => simp
  unfold Ctx.func
  rw [htab]
  cases hl : (funcTable P).lookup f with
  | none => simpa using hpos
  | some r =>
    have := tableFrom_label_lt P 0 f r hl
    simpa using this.2

theorem compFunc_targets (P : Prog) (hne : P ≠ []) (d : FuncDecl) (label nl : Nat) (hft : FtOK d.body) :
    ∀ l ∈ targetsOf (compFunc (funcTable P) d label nl).1, l ∈ labelsOf (compFunc (funcTable P) d label nl).1 ∨ l < P.length := by
  have hb := compS_targets { funcs := funcTable P, args := d.params } (.block d.body) [] { nl := nl, cnt := 0, scopes := [[]] } hft
  have hcode : (compFunc (funcTable P) d label nl).1 =
      [Item.lbl label, initSlotItem (compS { funcs := funcTable P, args := d.params } [] (.block d.body) { nl := nl, cnt := 0, scopes := [[]] }).2.cnt d.params.length] ++
        (compS { funcs := funcTable P, args := d.params } [] (.block d.body) { nl := nl, cnt := 0, scopes := [[]] }).1 ++
        (if lastIsRet d.body then [] else [Item.ins .ret]) := rfl
  rw [hcode]
  generalize compS { funcs := funcTable P, args := d.params } [] (.block d.body) { nl := nl, cnt := 0, scopes := [[]] } = r at hb ⊢
  have htail : targetsOf (if lastIsRet d.body then ([] : Code) else [Item.ins .ret]) = [] := by split <;> rfl
  have hinit : ∀ a b, targetsOf [Item.lbl label, initSlotItem a b] = [] := by
    intro a b; simp only [initSlotItem]; split <;> rfl
  intro l hl
  simp only [targetsOf_append, hinit, htail, List.append_nil, List.nil_append] at hl
  rcases hb l hl with h | h
  · left; simp only [labelsOf_append, List.mem_append]; exact Or.inl (Or.inr h)
  · right
    rcases h with ⟨f, hf⟩ | h0 | ⟨e, he, _⟩
    · rw [hf]; exact func_label_lt P _ rfl hne f
    · rw [h0]; cases P with | nil => exact absurd rfl hne | cons a b => simp
    · cases he

theorem compFuncs_targets (P : Prog) (hne : P ≠ []) : ∀ (l : List FuncDecl) (i nl : Nat), (∀ d ∈ l, FtOK d.body) →
    (∀ t ∈ targetsOf (compFuncs (funcTable P) l i nl), t ∈ labelsOf (compFuncs (funcTable P) l i nl) ∨ t < P.length) ∧
    (∀ j, j < l.length → i + j ∈ labelsOf (compFuncs (funcTable P) l i nl)) := by
  intro l
  induction l with
  | nil => intro i nl _; exact ⟨by simp [compFuncs, targetsOf], by intro j hj; simp at hj⟩
  | cons d r ih =>
    intro i nl hft
    have hf := compFunc_targets P hne d i nl (hft d (by simp))
    have hr := ih (i + 1) (compFunc (funcTable P) d i nl).2 (fun d' hd' => hft d' (List.mem_cons_of_mem _ hd'))
    simp only [compFuncs]
    refine ⟨?_, ?_⟩
    · intro t ht
      rw [targetsOf_append] at ht
      rw [labelsOf_append]
      rcases List.mem_append.mp ht with h | h
      · rcases hf t h with h' | h'
        · exact Or.inl (List.mem_append_left _ h')
        · exact Or.inr h'
      · rcases hr.1 t h with h' | h'
        · exact Or.inl (List.mem_append_right _ h')
        · exact Or.inr h'
    · intro j hj
      rw [labelsOf_append]
      cases j with
      | zero =>
        apply List.mem_append_left
        have hcode : (compFunc (funcTable P) d i nl).1 =
            [Item.lbl i, initSlotItem (compS { funcs := funcTable P, args := d.params } [] (.block d.body) { nl := nl, cnt := 0, scopes := [[]] }).2.cnt d.params.length] ++
              (compS { funcs := funcTable P, args := d.params } [] (.block d.body) { nl := nl, cnt := 0, scopes := [[]] }).1 ++
              (if lastIsRet d.body then [] else [Item.ins .ret]) := rfl
        rw [hcode]
        simp [labelsOf_append, labelsOf]
      | succ k =>
        apply List.mem_append_right
        have := hr.2 k (by simpa using hj)
        have he : i + 1 + k = i + (k + 1) := by omega
        rw [← he]; exact this

/-- every jump and call target of the compiler's output is marked (for programs whose `fallthrough`s have a next
    clause): the second conjunct of `encodable (compProg P)`, for all programs. -/
theorem targetsMarked_compProg (P : Prog) (hft : ∀ d ∈ P, FtOK d.body) : targetsMarked (compProg P) = true := by
  by_cases hne : P = []
  · subst hne; rfl
  · apply targetsMarked_of
    intro l hl
    have h := compFuncs_targets P hne P 0 P.length hft
    rcases h.1 l hl with h' | h'
    · exact h'
    · have := h.2 l h'
      simpa [compProg] using this

mutual
theorem allowed_ftOK : ∀ (s : Stmt) (ls : Sigs), Allowed ls s → FtOK s
  | .seq a b, ls, h => by simp only [Allowed] at h; exact ⟨allowed_ftOK a ls h.1, allowed_ftOK b ls h.2⟩
  | .ite _ t _ e, ls, h => by simp only [Allowed] at h; exact ⟨allowed_ftOK t ls h.1, allowed_ftOK e ls h.2⟩
  | .loop i _ p b, ls, h => by
    simp only [Allowed] at h
    exact ⟨allowed_ftOK i ls h.1, allowed_ftOK p ls (noDecl_allowed h.2.1 ls), allowed_ftOK b _ h.2.2⟩
  | .block b, ls, h => by simp only [Allowed] at h; exact allowed_ftOK b ls h
  | .labeled _ (.loop i _ p b), ls, h => by
    simp only [Allowed] at h
    exact ⟨allowed_ftOK i ls h.1, allowed_ftOK p ls (noDecl_allowed h.2.1 ls), allowed_ftOK b _ h.2.2⟩
  | .labeled _ (.switchS _ _ cl), ls, h => by simp only [Allowed] at h; exact allowedCl_ftOK cl _ h.2
  | .switchS _ _ cl, ls, h => by simp only [Allowed] at h; exact allowedCl_ftOK cl _ h.2
  | .caseS _ _ _ _ _, _, h => by simp [Allowed] at h
  | .defaultS _, _, h => by simp [Allowed] at h
  | .skip, _, _ | .define _ _, _, _ | .assign _ _, _, _ | .opAssign _ _ _, _, _ | .inc _, _, _ | .dec _, _, _
  | .varDecl _ _ _, _, _ | .exprStmt _, _, _ | .discard _, _, _ | .panicS _, _, _ | .ret _, _, _ | .ret2 _ _, _, _ | .define2 _ _ _, _, _ | .brk, _, _ | .cont, _, _
  | .brkL _, _, _ | .contL _, _, _ => trivial
  | .labeled _ .skip, _, h | .labeled _ (.seq _ _), _, h | .labeled _ (.define _ _), _, h | .labeled _ (.assign _ _), _, h
  | .labeled _ (.opAssign _ _ _), _, h | .labeled _ (.inc _), _, h | .labeled _ (.dec _), _, h | .labeled _ (.varDecl _ _ _), _, h
  | .labeled _ (.exprStmt _), _, h | .labeled _ (.discard _), _, h | .labeled _ (.panicS _), _, h | .labeled _ (.ite _ _ _ _), _, h
  | .labeled _ (.ret _), _, h | .labeled _ (.ret2 _ _), _, h | .labeled _ (.define2 _ _ _), _, h | .labeled _ .brk, _, h | .labeled _ .cont, _, h | .labeled _ (.block _), _, h
  | .labeled _ (.labeled _ _), _, h | .labeled _ (.brkL _), _, h | .labeled _ (.contL _), _, h
  | .labeled _ (.caseS _ _ _ _ _), _, h | .labeled _ (.defaultS _), _, h => by simp [Allowed] at h
theorem allowedCl_ftOK : ∀ (cl : Stmt) (ls : Sigs), AllowedCl ls cl → FtOK cl
  | .skip, _, _ => trivial
  | .defaultS b, ls, h => by simp only [AllowedCl] at h; exact allowed_ftOK b ls h
  | .caseS _ _ b _ rest, ls, h => by
    simp only [AllowedCl] at h
    exact ⟨allowed_ftOK b ls h.1, allowedCl_ftOK rest ls h.2.1, h.2.2⟩
  | .seq _ _, _, h | .define _ _, _, h | .assign _ _, _, h | .opAssign _ _ _, _, h | .inc _, _, h | .dec _, _, h
  | .varDecl _ _ _, _, h | .exprStmt _, _, h | .discard _, _, h | .panicS _, _, h | .ite _ _ _ _, _, h
  | .loop _ _ _ _, _, h | .ret _, _, h | .ret2 _ _, _, h | .define2 _ _ _, _, h | .brk, _, h | .cont, _, h | .block _, _, h | .labeled _ _, _, h
  | .brkL _, _, h | .contL _, _, h | .switchS _ _ _, _, h => by simp [AllowedCl] at h
end

/-- … in particular for every program of allowed functions. -/
theorem targetsMarked_of_allowed (P : Prog) (hall : ∀ d ∈ P, Allowed [] d.body) : targetsMarked (compProg P) = true :=
  targetsMarked_compProg P (fun d hd => allowed_ftOK d.body [] (hall d hd))

end NeoModel.CompileProofs
