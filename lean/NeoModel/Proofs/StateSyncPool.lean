/-
C20 (b) helper lemmas: the pool operations of the state-sync model as sets.
-/
import NeoModel.Model.StateSync
import Mathlib.Data.List.Nodup
namespace NeoModel.StateSync

/-! ### pool operations -/

theorem mem_addOne (p : Pool) (x y : Hash × Path) : y ∈ addOne p x ↔ y ∈ p ∨ y = x := by
  unfold addOne
  split
  · rename_i h
    have hx : x ∈ p := by simpa using h
    constructor
    · exact .inl
    · rintro (h | h)
      · exact h
      · rw [h]; exact hx
  · simp

theorem nodup_addOne (p : Pool) (x : Hash × Path) (h : p.Nodup) : (addOne p x).Nodup := by
  unfold addOne
  split
  · exact h
  · rename_i hx
    have hx' : x ∉ p := by simpa using hx
    rw [List.nodup_append]
    refine ⟨h, by simp, ?_⟩
    intro a ha b hb
    simp at hb; subst hb
    intro e; subst e; exact hx' ha

theorem mem_addAll (p : Pool) (xs : List (Hash × Path)) (y : Hash × Path) :
    y ∈ addAll p xs ↔ y ∈ p ∨ y ∈ xs := by
  unfold addAll
  induction xs generalizing p with
  | nil => simp
  | cons x r ih =>
    simp only [List.foldl_cons, ih, mem_addOne, List.mem_cons]
    constructor
    · rintro ((h | h) | h)
      · exact .inl h
      · exact .inr (.inl h)
      · exact .inr (.inr h)
    · rintro (h | h | h)
      · exact .inl (.inl h)
      · exact .inl (.inr h)
      · exact .inr h

theorem nodup_addAll (p : Pool) (xs : List (Hash × Path)) (h : p.Nodup) : (addAll p xs).Nodup := by
  unfold addAll
  induction xs generalizing p with
  | nil => exact h
  | cons x r ih => exact ih _ (nodup_addOne p x h)

theorem mem_removeHash (p : Pool) (h : Hash) (y : Hash × Path) : y ∈ removeHash p h ↔ y ∈ p ∧ y.1 ≠ h := by
  simp [removeHash]

theorem nodup_removeHash (p : Pool) (h : Hash) (hn : p.Nodup) : (removeHash p h).Nodup :=
  hn.filter _

theorem mem_pathsOf (p : Pool) (h : Hash) (q : Path) : q ∈ pathsOf p h ↔ (h, q) ∈ p := by
  simp only [pathsOf, List.mem_map, List.mem_filter, beq_iff_eq]
  constructor
  · rintro ⟨⟨a, b⟩, ⟨h1, h2⟩, h3⟩
    simp at h2 h3; subst h2; subst h3; exact h1
  · intro hm; exact ⟨(h, q), ⟨hm, rfl⟩, rfl⟩

theorem nodup_pathsOf (p : Pool) (h : Hash) (hn : p.Nodup) : (pathsOf p h).Nodup := by
  unfold pathsOf
  refine List.Nodup.map_on ?_ (hn.filter _)
  intro a ha b hb hab
  simp only [List.mem_filter, beq_iff_eq] at ha hb
  exact Prod.ext (ha.2.trans hb.2.symm) hab

theorem mem_kids (paths : List Path) (n : SNode) (y : Hash × Path) :
    y ∈ paths.flatMap (fun p => childrenPaths p n) ↔ ∃ q ∈ paths, ∃ k ∈ n.kids, y = (k.2, q ++ k.1) := by
  simp only [List.mem_flatMap, childrenPaths, List.mem_map]
  constructor
  · rintro ⟨q, hq, k, hk, rfl⟩; exact ⟨q, hq, k, hk, rfl⟩
  · rintro ⟨q, hq, k, hk, rfl⟩; exact ⟨q, hq, k, hk, rfl⟩

end NeoModel.StateSync
