/-
C13 — deep copy of a Struct (APPEND, SETITEM, VALUES store a clone of a Struct operand) and its limits.

`cloneIfStruct` copies the Struct and, recursively, every Struct nested in it through Struct fields;
everything else (including Arrays and Maps and whatever they contain) is shared. Proved here, for every
heap and every struct (cyclic ones included):
  * `clone_spec`      the copy is a NEW object, the heap only grows, no old object changes, and no new
                      object has an OLD struct as a field — following Struct fields from the copy one
                      only ever reaches new objects, so no mutation of the copy (at any depth) can touch
                      the original and vice versa; non-Struct fields are the same items (shared);
  * `clone_budget`    each field visited costs one unit of the budget MaxClonableNumOfItems − 1 = 2047:
                      a Struct with more than 2047 fields cannot be cloned, a flat one with at most 2047 can;
  * `append_clones`   APPEND / SETITEM of a Struct store the copy, FAULT if the clone fails.
-/
import NeoModel.Proofs.VmSpecSplice
open NeoModel NeoModel.Vm
namespace NeoModel.Vm.Spec

/-- `h'` extends `h`: at least as many objects, the old ones unchanged. -/
def Ext (h h' : Heap) : Prop := h.size ≤ h'.size ∧ ∀ i, i < h.size → h'[i]? = h[i]?

theorem Ext.refl (h : Heap) : Ext h h := ⟨Nat.le_refl _, fun _ _ => rfl⟩
theorem Ext.trans {a b c : Heap} (h1 : Ext a b) (h2 : Ext b c) : Ext a c :=
  ⟨Nat.le_trans h1.1 h2.1, fun i hi => by rw [h2.2 i (Nat.lt_of_lt_of_le hi h1.1), h1.2 i hi]⟩
theorem Ext.push (h : Heap) (o : HeapObj) : Ext h (h.push o) :=
  ⟨by simp, fun i hi => heap_get_push_old h o i hi⟩

/-- no object with id ≥ `n0` has a struct with id < `n0` as a field. -/
def NewFresh (n0 : Nat) (h : Heap) : Prop :=
  ∀ i ys s, n0 ≤ i → h.getItems i = some ys → Item.struct s ∈ ys → n0 ≤ s

theorem getItems_ext {h h' : Heap} (he : Ext h h') (i : Nat) (hi : i < h.size) : h'.getItems i = h.getItems i := by
  unfold Heap.getItems; rw [he.2 i hi]

structure FieldsOk (n0 : Nat) (xs ys : List Item) : Prop where
  len : ys.length = xs.length
  fresh : ∀ s, Item.struct s ∈ ys → n0 ≤ s
  shared : ∀ j : Nat, (∀ s, xs[j]? ≠ some (Item.struct s)) → ys[j]? = xs[j]?

/-- what one call of the recursive clone guarantees. -/
def RecOk (n0 : Nat) (rec : Heap → Nat → Nat → Option (Heap × Nat × Nat)) : Prop :=
  ∀ h1 id lim h2 nid lim', n0 ≤ h1.size → NewFresh n0 h1 → rec h1 id lim = some (h2, nid, lim') →
    Ext h1 h2 ∧ h1.size ≤ nid ∧ nid < h2.size ∧ NewFresh n0 h2 ∧ lim' ≤ lim

theorem cloneFields_ok (n0 : Nat) (rec : Heap → Nat → Nat → Option (Heap × Nat × Nat)) (hrec : RecOk n0 rec) :
    ∀ (xs : List Item) (h1 : Heap) (lim : Nat) (h2 : Heap) (ys : List Item) (lim' : Nat),
      n0 ≤ h1.size → NewFresh n0 h1 → cloneFields rec xs h1 lim = some (h2, ys, lim') →
      Ext h1 h2 ∧ NewFresh n0 h2 ∧ lim' + xs.length ≤ lim ∧ FieldsOk n0 xs ys := by
  intro xs
  induction xs with
  | nil =>
    intro h1 lim h2 ys lim' _ hnf hc
    simp only [cloneFields, Option.some.injEq, Prod.mk.injEq] at hc
    obtain ⟨rfl, rfl, rfl⟩ := hc
    exact ⟨Ext.refl _, hnf, by simp, ⟨rfl, by simp, fun _ _ => rfl⟩⟩
  | cons x rest ih =>
    intro h1 lim h2 ys lim' hn0 hnf hc
    simp only [cloneFields] at hc
    split at hc
    · simp at hc
    · rename_i hlim
      by_cases hx : ∃ sid, x = .struct sid
      · obtain ⟨sid, rfl⟩ := hx
        simp only at hc
        cases hr : rec h1 sid (lim - 1) with
        | none => simp [hr] at hc
        | some r =>
          obtain ⟨ha, nid, la⟩ := r
          simp only [hr] at hc
          obtain ⟨e1, f1, f2, nf1, l1⟩ := hrec h1 sid (lim - 1) ha nid la hn0 hnf hr
          cases hr2 : cloneFields rec rest ha la with
          | none => simp [hr2] at hc
          | some r2 =>
            obtain ⟨hb, ys2, lb⟩ := r2
            simp only [hr2, Option.some.injEq, Prod.mk.injEq] at hc
            obtain ⟨rfl, rfl, rfl⟩ := hc
            obtain ⟨e2, nf2, l2, fo⟩ := ih ha la hb ys2 lb (Nat.le_trans hn0 e1.1) nf1 hr2
            refine ⟨e1.trans e2, nf2, by simp only [List.length_cons]; omega, ⟨by simp [fo.len], ?_, ?_⟩⟩
            · intro s hs
              rcases List.mem_cons.mp hs with h0 | h0
              · cases h0; omega
              · exact fo.fresh s h0
            · intro j hj
              cases j with
              | zero => exact absurd rfl (hj sid)
              | succ j => simpa using fo.shared j (by simpa using hj)
      · have hns : ∀ s, x ≠ .struct s := fun s hs => hx ⟨s, hs⟩
        have hc' : (match cloneFields rec rest h1 (lim - 1) with
            | none => none
            | some (h, ys, lim) => some (h, x :: ys, lim)) = some (h2, ys, lim') := by
          cases x <;> first | exact hc | exact absurd rfl (hns _)
        cases hr2 : cloneFields rec rest h1 (lim - 1) with
        | none => simp [hr2] at hc'
        | some r2 =>
          obtain ⟨hb, ys2, lb⟩ := r2
          simp only [hr2, Option.some.injEq, Prod.mk.injEq] at hc'
          obtain ⟨rfl, rfl, rfl⟩ := hc'
          obtain ⟨e2, nf2, l2, fo⟩ := ih h1 (lim - 1) hb ys2 lb hn0 hnf hr2
          refine ⟨e2, nf2, by simp only [List.length_cons]; omega, ⟨by simp [fo.len], ?_, ?_⟩⟩
          · intro s hs
            rcases List.mem_cons.mp hs with h0 | h0
            · exact absurd h0.symm (hns s)
            · exact fo.fresh s h0
          · intro j hj
            cases j with
            | zero => rfl
            | succ j => simpa using fo.shared j (by simpa using hj)

theorem cloneStructAux_ok (n0 : Nat) : ∀ f, RecOk n0 (cloneStructAux f) := by
  intro f
  induction f with
  | zero => intro h1 id lim h2 nid lim' _ _ hc; simp [cloneStructAux] at hc
  | succ f ih =>
    intro h1 id lim h2 nid lim' hn0 hnf hc
    simp only [cloneStructAux] at hc
    cases hg : h1.getItems id with
    | none => simp [hg] at hc
    | some xs =>
      simp only [hg] at hc
      cases hr : cloneFields (cloneStructAux f) xs h1 lim with
      | none => simp [hr] at hc
      | some r =>
        obtain ⟨ha, ys, la⟩ := r
        simp only [hr, Heap.alloc, Option.some.injEq, Prod.mk.injEq] at hc
        obtain ⟨rfl, rfl, rfl⟩ := hc
        obtain ⟨e1, nf1, l1, fo⟩ := cloneFields_ok n0 _ ih xs h1 lim ha ys la hn0 hnf hr
        refine ⟨e1.trans (Ext.push _ _), e1.1, by simp, ?_, by omega⟩
        intro i zs s hi hz hs
        by_cases hlt : i < ha.size
        · rw [getItems_ext (Ext.push ha _) i hlt] at hz
          exact nf1 i zs s hi hz hs
        · have hge : ha.size ≤ i := by omega
          unfold Heap.getItems at hz
          by_cases heq : i = ha.size
          · subst heq
            simp at hz
            subst hz
            exact fo.fresh s hs
          · have : ¬ i < (ha.push (.items ys)).size := by simp; omega
            rw [Array.getElem?_eq_none (by omega)] at hz
            simp at hz

/-- **clone_spec.** The clone of a Struct is a NEW object (`h.size ≤ nid`); the heap only grows and every old
object is unchanged (`Ext`); no object allocated by the clone has an old Struct as a field (`NewFresh`), so the
copy is deep along Struct fields; its non-Struct fields are the very same items (shared). -/
theorem clone_spec (h : Heap) (id : Nat) (xs : List Item) (h' : Heap) (v : Item)
    (hx : h.getItems id = some xs) (hc : cloneIfStruct h (.struct id) = some (h', v)) :
    ∃ nid ys, v = .struct nid ∧ h.size ≤ nid ∧ h'.getItems nid = some ys ∧ Ext h h' ∧ NewFresh h.size h' ∧
      h'.getItems id = some xs ∧ FieldsOk h.size xs ys := by
  simp only [cloneIfStruct] at hc
  cases hr : cloneStructAux (maxClonableItems + 1) h id (maxClonableItems - 1) with
  | none => simp [hr] at hc
  | some r =>
    obtain ⟨ha, nid, la⟩ := r
    simp only [hr, Option.some.injEq, Prod.mk.injEq] at hc
    obtain ⟨rfl, rfl⟩ := hc
    have hnf0 : NewFresh h.size h := by
      intro i ys s hi hz _
      have := getItems_lt h i ys hz
      omega
    obtain ⟨e, f1, f2, nf, _⟩ := cloneStructAux_ok h.size _ h id _ ha nid la (Nat.le_refl _) hnf0 hr
    -- the field list of the new object
    simp only [cloneStructAux, hx] at hr
    cases hr2 : cloneFields (cloneStructAux maxClonableItems) xs h (maxClonableItems - 1) with
    | none => simp [hr2] at hr
    | some r2 =>
      obtain ⟨hb, ys, lb⟩ := r2
      simp only [hr2, Heap.alloc, Option.some.injEq, Prod.mk.injEq] at hr
      obtain ⟨rfl, rfl, rfl⟩ := hr
      obtain ⟨_, _, _, fo⟩ := cloneFields_ok h.size _ (cloneStructAux_ok h.size _) xs h _ hb ys lb (Nat.le_refl _) hnf0 hr2
      refine ⟨hb.size, ys, rfl, f1, by simp [Heap.getItems], e, nf, ?_, fo⟩
      rw [getItems_ext e id (getItems_lt h id xs hx)]; exact hx

/-- **clone_budget.** Every field visited costs one unit of the budget 2047: a Struct with more than 2047
fields is not clonable (APPEND / SETITEM / VALUES of it FAULT); a Struct of at most 2047 fields none of which is
a Struct is cloned into a new object with the same field list. -/
theorem clone_budget (h : Heap) (id : Nat) (xs : List Item) (hx : h.getItems id = some xs) :
    (xs.length > 2047 → cloneIfStruct h (.struct id) = none) ∧
    (xs.length ≤ 2047 → (∀ x ∈ xs, ∀ s, x ≠ .struct s) →
      cloneIfStruct h (.struct id) = some (h.push (.items xs), .struct h.size)) := by
  have flat : ∀ (rec : Heap → Nat → Nat → Option (Heap × Nat × Nat)) (ys : List Item) (lim : Nat),
      (∀ x ∈ ys, ∀ s, x ≠ .struct s) →
      cloneFields rec ys h lim = if ys.length ≤ lim then some (h, ys, lim - ys.length) else none := by
    intro rec ys
    induction ys with
    | nil => intro lim _; simp [cloneFields]
    | cons y rest ih =>
      intro lim hns
      have hy : ∀ s, y ≠ .struct s := hns y (List.mem_cons_self)
      have hrest := ih (lim - 1) (fun x hx => hns x (List.mem_cons_of_mem _ hx))
      simp only [cloneFields]
      by_cases hl : lim = 0
      · simp [hl]
      · simp only [hl, if_false]
        rw [hrest]
        by_cases hle : rest.length ≤ lim - 1
        · have h2 : rest.length + 1 ≤ lim := by omega
          simp only [hle, if_true, List.length_cons, h2]
          congr 3; omega
        · have h2 : ¬ rest.length + 1 ≤ lim := by omega
          simp only [hle, if_false, List.length_cons, h2]
  constructor
  · intro hbig
    simp only [cloneIfStruct]
    cases hr : cloneStructAux (maxClonableItems + 1) h id (maxClonableItems - 1) with
    | none => rfl
    | some r =>
      exfalso
      obtain ⟨ha, nid, la⟩ := r
      simp only [cloneStructAux, hx] at hr
      cases hr2 : cloneFields (cloneStructAux maxClonableItems) xs h (maxClonableItems - 1) with
      | none => simp [hr2] at hr
      | some r2 =>
        obtain ⟨hb, ys, lb⟩ := r2
        have hnf0 : NewFresh h.size h := by
          intro i ys s hi hz _
          have := getItems_lt h i ys hz
          omega
        obtain ⟨_, _, hl, _⟩ := cloneFields_ok h.size _ (cloneStructAux_ok h.size _) xs h _ hb ys lb (Nat.le_refl _) hnf0 hr2
        simp [maxClonableItems] at hl
        omega
  · intro hsmall hflat
    simp only [cloneIfStruct, cloneStructAux, hx, flat _ xs _ hflat]
    have : xs.length ≤ maxClonableItems - 1 := by simp [maxClonableItems]; omega
    simp [this, Heap.alloc]

theorem cloneIfStruct_ext (h : Heap) (x : Item) (h' : Heap) (v : Item) (hc : cloneIfStruct h x = some (h', v)) :
    Ext h h' := by
  by_cases hx : ∃ s, x = .struct s
  · obtain ⟨s, rfl⟩ := hx
    simp only [cloneIfStruct] at hc
    cases hr : cloneStructAux (maxClonableItems + 1) h s (maxClonableItems - 1) with
    | none => simp [hr] at hc
    | some r =>
      obtain ⟨ha, nid, la⟩ := r
      simp only [hr, Option.some.injEq, Prod.mk.injEq] at hc
      obtain ⟨rfl, _⟩ := hc
      have hnf0 : NewFresh h.size h := by
        intro i ys s hi hz _
        have := getItems_lt h i ys hz
        omega
      exact (cloneStructAux_ok h.size _ h s _ ha nid la (Nat.le_refl _) hnf0 hr).1
  · rw [cloneIfStruct_nonstruct h x (fun s hs => hx ⟨s, hs⟩)] at hc
    simp only [Option.some.injEq, Prod.mk.injEq] at hc
    rw [← hc.1]; exact Ext.refl _

/-- **append_clones.** APPEND and SETITEM of a Struct operand store the CLONE: they FAULT if the clone fails
(budget) and otherwise put the new Struct into the target's list in the extended heap — the target does not
reference the original Struct, which (like every old object other than the target) is unchanged. -/
theorem append_clones (s id : Nat) (xs : List Item) (key : Item) (i : Int) (st : List Item) (h : Heap)
    (hx : h.getItems id = some xs) (hi : key.toInteger = some i) (hlt : 0 ≤ i ∧ i < xs.length)
    (hl : xs.length < 2^31) :
    execPure .append [] (.struct s :: .array id :: st) h =
      (match cloneIfStruct h (.struct s) with
       | none => .error "too big struct"
       | some (h', v') => .ok (.next st (Heap.put h' id (.items (xs ++ [v']))))) ∧
    execPure .setItem [] (.struct s :: key :: .array id :: st) h =
      (match cloneIfStruct h (.struct s) with
       | none => .error "too big struct"
       | some (h', v') => .ok (.next st (Heap.put h' id (.items (xs.set i.toNat v'))))) := by
  have hk := idx_of key i hi
  have hnk : (!key.validKey) = false := by simp [hk]
  have h32 : toInt32 i = some i := toInt32_of _ (by constructor <;> omega)
  have hin : ¬ (i < 0 ∨ i ≥ xs.length) := by omega
  cases hc : cloneIfStruct h (.struct s) with
  | none => constructor <;> simp [execPure, popE, optE, hc, bind, Except.bind]
  | some r =>
    obtain ⟨h', v'⟩ := r
    have hg : h'.getItems id = some xs := by
      rw [getItems_ext (cloneIfStruct_ext h _ h' v' hc) id (getItems_lt h id xs hx)]; exact hx
    constructor
    · simp [execPure, popE, optE, hc, seqItems, hg, bind, Except.bind]
    · simp [execPure, popE, optE, hc, hnk, hi, h32, seqItems, hg, hin, bind, Except.bind]

-- non-vacuity: appending a struct stores a copy; mutating the original afterwards does not show in the array
example : let h : Heap := #[.items [], .items [.bool true, .struct 2], .items [.null]]
    execPure .append [] [.struct 1, .array 0] h =
      .ok (.next [] #[.items [.struct 4], .items [.bool true, .struct 2], .items [.null], .items [.null],
        .items [.bool true, .struct 3]]) := by decide +kernel

end NeoModel.Vm.Spec
