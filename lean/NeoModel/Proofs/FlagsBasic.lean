/-
Helper lemmas for C16: order on call flags, the invariants of the invocation-stack machine
(`Model/Flags.lean`). Property theorems are in `Props/C16.lean`.
-/
import NeoModel.Model.Flags
namespace NeoModel.Flags
open CallFlags

namespace CallFlags
theorem le_def (a b : CallFlags) : a ≤ b ↔ b.has a = true := Iff.rfl

theorem le_refl (a : CallFlags) : a ≤ a := by
  cases a; simp [le_def, has]

theorem le_trans {a b c : CallFlags} (h1 : a ≤ b) (h2 : b ≤ c) : a ≤ c := by
  cases a; cases b; cases c
  simp only [le_def, has, Bool.and_eq_true, Bool.or_eq_true, Bool.not_eq_true'] at *
  grind

theorem inter_le_left (a b : CallFlags) : a.inter b ≤ a := by
  cases a; cases b; simp [le_def, has, inter]; grind

theorem inter_le_right (a b : CallFlags) : a.inter b ≤ b := by
  cases a; cases b; simp [le_def, has, inter]; grind

theorem has_mono {a b r : CallFlags} (h : a ≤ b) (hr : a.has r = true) : b.has r = true :=
  le_trans (a := r) hr h

theorem write_of_le {a b : CallFlags} (h : a ≤ b) (hw : a.write = true) : b.write = true := by
  cases a; cases b; simp [le_def, has] at *; grind
theorem notify_of_le {a b : CallFlags} (h : a ≤ b) (hw : a.notify = true) : b.notify = true := by
  cases a; cases b; simp [le_def, has] at *; grind
theorem call_of_le {a b : CallFlags} (h : a ≤ b) (hw : a.call = true) : b.call = true := by
  cases a; cases b; simp [le_def, has] at *; grind
theorem read_of_le {a b : CallFlags} (h : a ≤ b) (hw : a.read = true) : b.read = true := by
  cases a; cases b; simp [le_def, has] at *; grind
end CallFlags

/-- flags only shrink towards the top of the invocation stack (current context first). -/
def Antitone (st : List Frame) : Prop := st.Pairwise (fun callee caller => callee.flags ≤ caller.flags)

/-- the flag that covers an effect kind. -/
def kindFlag : EffKind → CallFlags → Bool
  | .write, f => f.write
  | .notify, f => f.notify
  | .call, f => f.call

/-- the primitive's required flags cover its effect of kind `k`. -/
def Prim.guardedK (k : EffKind) (p : Prim) : Prop :=
  match k with
  | .write => p.eff.write = true → p.req.write = true
  | .notify => p.eff.notify = true → p.req.notify = true
  | .call => p.eff.call = true → p.req.call = true

theorem run_nil (P : Params) (s : State) : run P s [] = s := rfl
theorem run_cons (P : Params) (s : State) (i : Instr) (is : List Instr) :
    run P s (i :: is) = run P (step P s i) is := rfl

/-- generic invariant principle for `run`, relative to a predicate on the instructions of the program. -/
theorem run_inv (P : Params) (I : State → Prop) (Q : Instr → Prop)
    (hstep : ∀ s i, Q i → I s → I (step P s i)) :
    ∀ (prog : List Instr) (s : State), (∀ i ∈ prog, Q i) → I s → I (run P s prog) := by
  intro prog
  induction prog with
  | nil => intro s _ h; exact h
  | cons i is ih =>
    intro s hq h
    rw [run_cons]
    exact ih _ (fun j hj => hq j (List.mem_cons_of_mem _ hj)) (hstep s i (hq i List.mem_cons_self) h)

theorem antitone_cons {f : Frame} {st : List Frame} :
    Antitone (f :: st) ↔ (∀ g ∈ st, f.flags ≤ g.flags) ∧ Antitone st := List.pairwise_cons

theorem antitone_tail {f : Frame} {st : List Frame} (h : Antitone (f :: st)) : Antitone st :=
  (antitone_cons.1 h).2

/-- pushing a context whose flags are below the current one keeps the stack antitone. -/
theorem antitone_push {cur : Frame} {rest : List Frame} (child : Frame)
    (hle : child.flags ≤ cur.flags) (h : Antitone (cur :: rest)) : Antitone (child :: cur :: rest) := by
  refine antitone_cons.2 ⟨?_, h⟩
  intro g hg
  rcases List.mem_cons.1 hg with rfl | hg
  · exact hle
  · exact le_trans hle ((antitone_cons.1 h).1 g hg)

/-- in an antitone stack every context's flags contain the current context's flags. -/
theorem top_le_all {cur : Frame} {rest : List Frame} (h : Antitone (cur :: rest)) :
    ∀ g ∈ cur :: rest, cur.flags ≤ g.flags := by
  intro g hg
  rcases List.mem_cons.1 hg with rfl | hg
  · exact le_refl _
  · exact (antitone_cons.1 h).1 g hg

theorem childFlags_le (P : Params) (tk : Bool) (cur rq : CallFlags) (safe : Bool) : childFlags P tk cur rq safe ≤ cur :=
  inter_le_left _ _

/-- Invariant 1: the stack, and the stack recorded in every event, is antitone. -/
def InvAnti (s : State) : Prop := Antitone s.stack ∧ ∀ ev ∈ s.events, Antitone ev.stack

theorem primEvents_stack {p : Prim} {st : List Frame} {ev : Event} (h : ev ∈ primEvents p st) : ev.stack = st := by
  unfold primEvents at h
  rcases List.mem_append.1 h with h | h <;> (split at h <;> simp at h; subst h; rfl)

theorem step_invAnti (P : Params) (s : State) (i : Instr) (h : InvAnti s) : InvAnti (step P s i) := by
  obtain ⟨ha, he⟩ := h
  unfold step
  split
  · exact ⟨ha, he⟩
  · split
    · exact ⟨ha, he⟩
    · rename_i cur rest hst
      rw [hst] at ha
      cases i with
      | prim p =>
        simp only
        split
        · refine ⟨by simpa [hst] using ha, ?_⟩
          intro ev hev
          rcases List.mem_append.1 hev with hev | hev
          · rw [primEvents_stack hev, hst]; exact ha
          · exact he ev hev
        · exact ⟨by simpa [halt, hst] using ha, he⟩
      | call p tk rq t =>
        simp only
        split
        · refine ⟨?_, ?_⟩
          · simp only [hst]; exact antitone_push _ (childFlags_le _ _ _ _ _) ha
          · intro ev hev
            rcases List.mem_cons.1 hev with rfl | hev
            · simpa [hst] using ha
            · exact he ev hev
        · exact ⟨by simpa [halt, hst] using ha, he⟩
      | loadScript p rq =>
        simp only
        split
        · refine ⟨?_, ?_⟩
          · simp only [hst]
            exact antitone_push _ (le_trans (inter_le_left _ _) (inter_le_left _ _)) ha
          · intro ev hev
            rcases List.mem_cons.1 hev with rfl | hev
            · simpa [hst] using ha
            · exact he ev hev
        · exact ⟨by simpa [halt, hst] using ha, he⟩
      | nativeCall p t =>
        simp only
        split
        · refine ⟨?_, ?_⟩
          · simp only [hst]; exact antitone_push _ (inter_le_left _ _) ha
          · intro ev hev
            rcases List.mem_append.1 hev with hev | hev
            · rw [primEvents_stack hev, hst]; exact ha
            · rcases List.mem_cons.1 hev with rfl | hev
              · simpa [hst] using ha
              · exact he ev hev
        · exact ⟨by simpa [halt, hst] using ha, he⟩
      | update m =>
        simp only
        split
        · split <;> first | exact ⟨ha, he⟩ | exact h | exact ⟨by rw [hst]; exact ha, he⟩
        · first | exact ⟨ha, he⟩ | exact h | exact ⟨by rw [hst]; exact ha, he⟩
      | destroy =>
        simp only
        split
        · split <;> first | exact ⟨ha, he⟩ | exact h | exact ⟨by rw [hst]; exact ha, he⟩
        · first | exact ⟨ha, he⟩ | exact h | exact ⟨by rw [hst]; exact ha, he⟩
      | ret =>
        simp only
        split
        · exact ⟨List.Pairwise.nil, he⟩
        · exact ⟨antitone_tail ha, he⟩


theorem has_kind {f r : CallFlags} (k : EffKind) (h : f.has r = true) (hr : kindFlag k r = true) : kindFlag k f = true := by
  cases f; cases r; cases k <;> simp [has, kindFlag] at * <;> grind

theorem kind_of_le {a b : CallFlags} (k : EffKind) (h : a ≤ b) (ha : kindFlag k a = true) : kindFlag k b = true := by
  cases k
  · exact write_of_le h ha
  · exact notify_of_le h ha
  · exact call_of_le h ha

/-- Invariant 2 (relative to kind `k`): an event of kind `k` was performed by a context holding the flag. -/
def InvTop (k : EffKind) (s : State) : Prop :=
  ∀ ev ∈ s.events, ev.kind = k → ∃ cur rest, ev.stack = cur :: rest ∧ kindFlag k cur.flags = true

def Instr.guardedK (k : EffKind) (i : Instr) : Prop := ∀ p, i.prim? = some p → p.guardedK k

theorem primEvents_top {k : EffKind} {p : Prim} {cur : Frame} {rest : List Frame} {ev : Event}
    (hg : p.guardedK k) (hhas : cur.flags.has p.req = true) (hev : ev ∈ primEvents p (cur :: rest)) (hk : ev.kind = k) :
    ∃ c r, ev.stack = c :: r ∧ kindFlag k c.flags = true := by
  refine ⟨cur, rest, primEvents_stack hev, ?_⟩
  unfold primEvents at hev
  rcases List.mem_append.1 hev with hev | hev
  · split at hev
    · rename_i hn
      simp at hev; subst hev; subst hk
      exact has_kind .notify hhas (hg hn)
    · simp at hev
  · split at hev
    · rename_i hn
      simp at hev; subst hev; subst hk
      exact has_kind .write hhas (hg hn)
    · simp at hev

theorem step_invTop (P : Params) (k : EffKind) (s : State) (i : Instr) (hq : i.guardedK k) (h : InvTop k s) :
    InvTop k (step P s i) := by
  unfold step
  split
  · exact h
  · split
    · exact h
    · rename_i cur rest hst
      cases i with
      | prim p =>
        simp only
        split
        · rename_i hhas
          intro ev hev hk
          rcases List.mem_append.1 hev with hev | hev
          · rw [hst] at hev; exact primEvents_top (hq p rfl) hhas hev hk
          · exact h ev hev hk
        · exact h
      | call p tk rq t =>
        simp only
        split
        · rename_i hc
          simp only [Bool.and_eq_true] at hc
          intro ev hev hk
          rcases List.mem_cons.1 hev with rfl | hev
          · refine ⟨cur, rest, hst, ?_⟩
            subst hk
            exact has_kind .call hc.1.1 (hq p rfl hc.1.2)
          · exact h ev hev hk
        · exact h
      | loadScript p rq =>
        simp only
        split
        · rename_i hc
          simp only [Bool.and_eq_true] at hc
          intro ev hev hk
          rcases List.mem_cons.1 hev with rfl | hev
          · refine ⟨cur, rest, hst, ?_⟩
            subst hk
            exact has_kind .call hc.1 (hq p rfl hc.2)
          · exact h ev hev hk
        · exact h
      | nativeCall p t =>
        simp only
        split
        · rename_i hc
          simp only [Bool.and_eq_true] at hc
          intro ev hev hk
          rcases List.mem_append.1 hev with hev | hev
          · rw [hst] at hev; exact primEvents_top (hq p rfl) hc.1 hev hk
          · rcases List.mem_cons.1 hev with rfl | hev
            · refine ⟨cur, rest, hst, ?_⟩
              subst hk
              exact has_kind .call hc.1 (hq p rfl hc.2)
            · exact h ev hev hk
        · exact h
      | update m =>
        simp only
        split
        · split <;> first | exact ⟨ha, he⟩ | exact h | exact ⟨by rw [hst]; exact ha, he⟩
        · first | exact ⟨ha, he⟩ | exact h | exact ⟨by rw [hst]; exact ha, he⟩
      | destroy =>
        simp only
        split
        · split <;> first | exact ⟨ha, he⟩ | exact h | exact ⟨by rw [hst]; exact ha, he⟩
        · first | exact ⟨ha, he⟩ | exact h | exact ⟨by rw [hst]; exact ha, he⟩
      | ret =>
        simp only
        split <;> exact h

/-- contexts entered through a safe method hold neither WriteStates nor AllowNotify. -/
def SafeOk (st : List Frame) : Prop := ∀ g ∈ st, g.viaSafe = true → g.flags.write = false ∧ g.flags.notify = false

def InvSafe (s : State) : Prop := SafeOk s.stack ∧ ∀ ev ∈ s.events, SafeOk ev.stack

theorem safeOk_push {st : List Frame} (child : Frame) (h : SafeOk st)
    (hc : child.viaSafe = true → child.flags.write = false ∧ child.flags.notify = false) : SafeOk (child :: st) := by
  intro g hg
  rcases List.mem_cons.1 hg with rfl | hg
  · exact hc
  · exact h g hg

theorem safeOk_tail {f : Frame} {st : List Frame} (h : SafeOk (f :: st)) : SafeOk st :=
  fun g hg => h g (List.mem_cons_of_mem _ hg)

/-- both call paths drop WriteStates and AllowNotify for safe methods. -/
def Params.SafeDrops (P : Params) : Prop :=
  (P.safeDrop.write = true ∧ P.safeDrop.notify = true) ∧ (P.safeDropToken.write = true ∧ P.safeDropToken.notify = true)

theorem childFlags_safe (P : Params) (hP : P.SafeDrops) (tk : Bool) (cur rq : CallFlags) :
    (childFlags P tk cur rq true).write = false ∧ (childFlags P tk cur rq true).notify = false := by
  cases tk <;> simp [childFlags, inter, minus, hP.1.1, hP.1.2, hP.2.1, hP.2.2]

theorem step_invSafe (P : Params) (hP : P.SafeDrops)
    (s : State) (i : Instr) (h : InvSafe s) : InvSafe (step P s i) := by
  obtain ⟨ha, he⟩ := h
  unfold step
  split
  · exact ⟨ha, he⟩
  · split
    · exact ⟨ha, he⟩
    · rename_i cur rest hst
      cases i with
      | prim p =>
        simp only
        split
        · refine ⟨ha, ?_⟩
          intro ev hev
          rcases List.mem_append.1 hev with hev | hev
          · rw [primEvents_stack hev]; exact ha
          · exact he ev hev
        · exact ⟨ha, he⟩
      | call p tk rq t =>
        simp only
        split
        · refine ⟨?_, ?_⟩
          · apply safeOk_push _ ha
            intro hs
            simp only at hs
            simp only [hs]
            exact childFlags_safe P hP _ _ _
          · intro ev hev
            rcases List.mem_cons.1 hev with rfl | hev
            · exact ha
            · exact he ev hev
        · exact ⟨ha, he⟩
      | loadScript p rq =>
        simp only
        split
        · refine ⟨safeOk_push _ ha (by simp), ?_⟩
          intro ev hev
          rcases List.mem_cons.1 hev with rfl | hev
          · exact ha
          · exact he ev hev
        · exact ⟨ha, he⟩
      | nativeCall p t =>
        simp only
        split
        · refine ⟨safeOk_push _ ha (by simp), ?_⟩
          intro ev hev
          rcases List.mem_append.1 hev with hev | hev
          · rw [primEvents_stack hev]; exact ha
          · rcases List.mem_cons.1 hev with rfl | hev
            · exact ha
            · exact he ev hev
        · exact ⟨ha, he⟩
      | update m =>
        simp only
        split
        · split <;> first | exact ⟨ha, he⟩ | exact h | exact ⟨by rw [hst]; exact ha, he⟩
        · first | exact ⟨ha, he⟩ | exact h | exact ⟨by rw [hst]; exact ha, he⟩
      | destroy =>
        simp only
        split
        · split <;> first | exact ⟨ha, he⟩ | exact h | exact ⟨by rw [hst]; exact ha, he⟩
        · first | exact ⟨ha, he⟩ | exact h | exact ⟨by rw [hst]; exact ha, he⟩
      | ret =>
        simp only
        split
        · exact ⟨by intro g hg; simp at hg, he⟩
        · rw [hst] at ha; exact ⟨safeOk_tail ha, he⟩

/-- Invariant 4: the manifest recorded as consulted for a call passed `canCall`. -/
def InvPerm (s : State) : Prop :=
  ∀ ev ∈ s.events, ∀ t, ev.target = some t → ∀ m, ev.checked = some m → m.canCall t.hash t.manifest t.method = true

/-- Invariant 4b: which manifest a recorded call consulted (`consulted`, call.go:95-106). -/
def InvChecked (P : Params) (s : State) : Prop :=
  ∀ ev ∈ s.events, ∀ t, ev.target = some t → ∀ cur rest, ev.stack = cur :: rest →
    ∃ stored, ev.checked = consulted P cur t stored

theorem primEvents_target {p : Prim} {st : List Frame} {ev : Event} (h : ev ∈ primEvents p st) : ev.target = Option.none := by
  unfold primEvents at h
  rcases List.mem_append.1 h with h | h <;> (split at h <;> simp at h; subst h; rfl)

theorem primEvents_checked {p : Prim} {st : List Frame} {ev : Event} (h : ev ∈ primEvents p st) : ev.checked = Option.none := by
  unfold primEvents at h
  rcases List.mem_append.1 h with h | h <;> (split at h <;> simp at h; subst h; rfl)

theorem step_invPerm (P : Params) (s : State) (i : Instr) (h : InvPerm s) : InvPerm (step P s i) := by
  unfold step
  split
  · exact h
  · split
    · exact h
    · rename_i cur rest hst
      cases i with
      | prim p =>
        simp only
        split
        · intro ev hev t ht
          rcases List.mem_append.1 hev with hev | hev
          · rw [primEvents_target hev] at ht; cases ht
          · exact h ev hev t ht
        · exact h
      | call p tk rq t =>
        simp only
        split
        · rename_i hc
          simp only [Bool.and_eq_true] at hc
          intro ev hev t' ht' m hm
          rcases List.mem_cons.1 hev with rfl | hev
          · simp only [Option.some.injEq] at ht'
            subst ht'
            simp only at hm
            have := hc.2
            simp only [permitted, hm] at this
            exact this
          · exact h ev hev t' ht' m hm
        · exact h
      | loadScript p rq =>
        simp only
        split
        · intro ev hev t ht
          rcases List.mem_cons.1 hev with rfl | hev
          · cases ht
          · exact h ev hev t ht
        · exact h
      | nativeCall p t =>
        simp only
        split
        · intro ev hev t' ht
          rcases List.mem_append.1 hev with hev | hev
          · rw [primEvents_target hev] at ht; cases ht
          · rcases List.mem_cons.1 hev with rfl | hev
            · cases ht
            · exact h ev hev t' ht
        · exact h
      | update m =>
        simp only
        split
        · split <;> first | exact ⟨ha, he⟩ | exact h | exact ⟨by rw [hst]; exact ha, he⟩
        · first | exact ⟨ha, he⟩ | exact h | exact ⟨by rw [hst]; exact ha, he⟩
      | destroy =>
        simp only
        split
        · split <;> first | exact ⟨ha, he⟩ | exact h | exact ⟨by rw [hst]; exact ha, he⟩
        · first | exact ⟨ha, he⟩ | exact h | exact ⟨by rw [hst]; exact ha, he⟩
      | ret =>
        simp only
        split <;> exact h

theorem step_invChecked (P : Params) (s : State) (i : Instr) (h : InvChecked P s) : InvChecked P (step P s i) := by
  unfold step
  split
  · exact h
  · split
    · exact h
    · rename_i cur rest hst
      cases i with
      | prim p =>
        simp only
        split
        · intro ev hev t ht
          rcases List.mem_append.1 hev with hev | hev
          · rw [primEvents_target hev] at ht; cases ht
          · exact h ev hev t ht
        · exact h
      | call p tk rq t =>
        simp only
        split
        · intro ev hev t' ht' c r hstack
          rcases List.mem_cons.1 hev with rfl | hev
          · simp only [Option.some.injEq] at ht'
            subst ht'
            simp only [hst, List.cons.injEq] at hstack
            obtain ⟨rfl, rfl⟩ := hstack
            exact ⟨_, rfl⟩
          · exact h ev hev t' ht' c r hstack
        · exact h
      | loadScript p rq =>
        simp only
        split
        · intro ev hev t ht
          rcases List.mem_cons.1 hev with rfl | hev
          · cases ht
          · exact h ev hev t ht
        · exact h
      | nativeCall p t =>
        simp only
        split
        · intro ev hev t' ht
          rcases List.mem_append.1 hev with hev | hev
          · rw [primEvents_target hev] at ht; cases ht
          · rcases List.mem_cons.1 hev with rfl | hev
            · cases ht
            · exact h ev hev t' ht
        · exact h
      | update m =>
        simp only
        split
        · split <;> first | exact ⟨ha, he⟩ | exact h | exact ⟨by rw [hst]; exact ha, he⟩
        · first | exact ⟨ha, he⟩ | exact h | exact ⟨by rw [hst]; exact ha, he⟩
      | destroy =>
        simp only
        split
        · split <;> first | exact ⟨ha, he⟩ | exact h | exact ⟨by rw [hst]; exact ha, he⟩
        · first | exact ⟨ha, he⟩ | exact h | exact ⟨by rw [hst]; exact ha, he⟩
      | ret =>
        simp only
        split <;> exact h


/-- Invariant 5: every context (and every context recorded in an event) holds at most the entry context's flags. -/
def InvRoot (f0 : CallFlags) (s : State) : Prop :=
  (∀ g ∈ s.stack, g.flags ≤ f0) ∧ ∀ ev ∈ s.events, ∀ g ∈ ev.stack, g.flags ≤ f0

theorem step_invRoot (P : Params) (f0 : CallFlags) (s : State) (i : Instr) (h : InvRoot f0 s) : InvRoot f0 (step P s i) := by
  obtain ⟨ha, he⟩ := h
  unfold step
  split
  · exact ⟨ha, he⟩
  · split
    · exact ⟨ha, he⟩
    · rename_i cur rest hst
      have hcur : cur.flags ≤ f0 := ha cur (by rw [hst]; exact List.mem_cons_self)
      have push : ∀ child : Frame, child.flags ≤ cur.flags → ∀ g ∈ child :: s.stack, g.flags ≤ f0 := by
        intro child hc g hg
        rcases List.mem_cons.1 hg with rfl | hg
        · exact le_trans hc hcur
        · exact ha g hg
      cases i with
      | prim p =>
        simp only
        split
        · refine ⟨ha, ?_⟩
          intro ev hev
          rcases List.mem_append.1 hev with hev | hev
          · rw [primEvents_stack hev]; exact ha
          · exact he ev hev
        · exact ⟨ha, he⟩
      | call p tk rq t =>
        simp only
        split
        · refine ⟨push _ (childFlags_le _ _ _ _ _), ?_⟩
          intro ev hev
          rcases List.mem_cons.1 hev with rfl | hev
          · exact ha
          · exact he ev hev
        · exact ⟨ha, he⟩
      | loadScript p rq =>
        simp only
        split
        · refine ⟨push _ (le_trans (inter_le_left _ _) (inter_le_left _ _)), ?_⟩
          intro ev hev
          rcases List.mem_cons.1 hev with rfl | hev
          · exact ha
          · exact he ev hev
        · exact ⟨ha, he⟩
      | nativeCall p t =>
        simp only
        split
        · refine ⟨push _ (inter_le_left _ _), ?_⟩
          intro ev hev
          rcases List.mem_append.1 hev with hev | hev
          · rw [primEvents_stack hev]; exact ha
          · rcases List.mem_cons.1 hev with rfl | hev
            · exact ha
            · exact he ev hev
        · exact ⟨ha, he⟩
      | update m =>
        simp only
        split
        · split <;> first | exact ⟨ha, he⟩ | exact h | exact ⟨by rw [hst]; exact ha, he⟩
        · first | exact ⟨ha, he⟩ | exact h | exact ⟨by rw [hst]; exact ha, he⟩
      | destroy =>
        simp only
        split
        · split <;> first | exact ⟨ha, he⟩ | exact h | exact ⟨by rw [hst]; exact ha, he⟩
        · first | exact ⟨ha, he⟩ | exact h | exact ⟨by rw [hst]; exact ha, he⟩
      | ret =>
        simp only
        split
        · exact ⟨by intro g hg; simp at hg, he⟩
        · exact ⟨fun g hg => ha g (by rw [hst]; exact List.mem_cons_of_mem _ hg), he⟩


/-! ## Paths: how a context was created, what was requested -/

/-- Invariant 6: every context holds at most the flags its creator requested; the `viaSafe` mark is exactly
"created through callInternal (System.Contract.Call or CALLT) for a method marked safe"; a dynamic script runs no
manifest method (nor does the entry script). -/
def FrameOk (g : Frame) : Prop :=
  g.flags ≤ g.requested ∧ (g.viaSafe = (g.safeTarget && (g.via == .call || g.via == .token))) ∧
  ((g.via = .script ∨ g.via = .entry) → g.safeTarget = false)

def InvVia (s : State) : Prop := (∀ g ∈ s.stack, FrameOk g) ∧ ∀ ev ∈ s.events, ∀ g ∈ ev.stack, FrameOk g

theorem inter_minus_le (cur rq d : CallFlags) : cur.inter (rq.minus d) ≤ rq := by
  cases cur; cases rq; cases d; simp [le_def, has, inter, minus]; grind

theorem childFlags_le_requested (P : Params) (tk : Bool) (cur rq : CallFlags) (safe : Bool) :
    childFlags P tk cur rq safe ≤ rq := by
  unfold childFlags
  cases safe
  · exact inter_le_right _ _
  · exact inter_minus_le _ _ _

theorem step_invVia (P : Params) (s : State) (i : Instr) (h : InvVia s) : InvVia (step P s i) := by
  obtain ⟨ha, he⟩ := h
  have push : ∀ child : Frame, FrameOk child → ∀ g ∈ child :: s.stack, FrameOk g := by
    intro child hc g hg
    rcases List.mem_cons.1 hg with rfl | hg
    · exact hc
    · exact ha g hg
  unfold step
  split
  · exact ⟨ha, he⟩
  · split
    · exact ⟨ha, he⟩
    · rename_i cur rest hst
      cases i with
      | prim p =>
        simp only
        split
        · refine ⟨ha, ?_⟩
          intro ev hev
          rcases List.mem_append.1 hev with hev | hev
          · rw [primEvents_stack hev]; exact ha
          · exact he ev hev
        · exact ⟨ha, he⟩
      | call p tk rq t =>
        simp only
        split
        · refine ⟨push _ ⟨childFlags_le_requested _ _ _ _ _, by cases tk <;> simp, by cases tk <;> simp⟩, ?_⟩
          intro ev hev
          rcases List.mem_cons.1 hev with rfl | hev
          · exact ha
          · exact he ev hev
        · exact ⟨ha, he⟩
      | loadScript p rq =>
        simp only
        split
        · refine ⟨push _ ⟨inter_le_right _ _, by simp, by simp⟩, ?_⟩
          intro ev hev
          rcases List.mem_cons.1 hev with rfl | hev
          · exact ha
          · exact he ev hev
        · exact ⟨ha, he⟩
      | nativeCall p t =>
        simp only
        split
        · refine ⟨push _ ⟨inter_le_right _ _, by simp, by simp⟩, ?_⟩
          intro ev hev
          rcases List.mem_append.1 hev with hev | hev
          · rw [primEvents_stack hev]; exact ha
          · rcases List.mem_cons.1 hev with rfl | hev
            · exact ha
            · exact he ev hev
        · exact ⟨ha, he⟩
      | update m =>
        simp only
        split
        · split <;> first | exact ⟨ha, he⟩ | exact h | exact ⟨by rw [hst]; exact ha, he⟩
        · first | exact ⟨ha, he⟩ | exact h | exact ⟨by rw [hst]; exact ha, he⟩
      | destroy =>
        simp only
        split
        · split <;> first | exact ⟨ha, he⟩ | exact h | exact ⟨by rw [hst]; exact ha, he⟩
        · first | exact ⟨ha, he⟩ | exact h | exact ⟨by rw [hst]; exact ha, he⟩
      | ret =>
        simp only
        split
        · exact ⟨by intro g hg; simp at hg, he⟩
        · exact ⟨fun g hg => ha g (by rw [hst]; exact List.mem_cons_of_mem _ hg), he⟩


end NeoModel.Flags
