/-
C08 helper: operation sequences (`Op`, `run`) and the lifting of the per-operation lemmas to sequences.
-/
import NeoModel.Proofs.MempoolBalance
namespace NeoModel.Mempool

/-- the operations of the property's quantifier (each call brings its own `Feer` snapshot) -/
inductive Op
  | add (t : Tx) (feer : Feer) (data : Nat := 0)
  | remove (h : Nat)
  | removeStale (isOK : Tx → Bool) (feer : Feer)
  | verify (t : Tx) (feer : Feer)
  | setResendThreshold (h : Nat)
  | setSubs (on : Bool)

def applyOp (mp : Pool) : Op → Pool
  | .add t feer d => (add mp t feer d).1
  | .remove h => remove mp h
  | .removeStale isOK feer => removeStale mp isOK feer
  | .verify t feer => (verify mp t feer).1
  | .setResendThreshold h => setResendThreshold mp h
  | .setSubs on => setSubs mp on

def run (capacity : Nat) (ops : List Op) : Pool := ops.foldl applyOp (new capacity)

/-- the operation offers a transaction of the universe `U` and its `Feer` reports balances below 2^255 -/
def OpOk (U : Tx → Prop) : Op → Prop
  | .add t f _ => U t ∧ FeerOk f
  | .verify t f => U t ∧ FeerOk f
  | .removeStale _ f => FeerOk f
  | .remove _ => True
  | .setResendThreshold _ => True
  | .setSubs _ => True

def OpsIn (U : Tx → Prop) (ops : List Op) : Prop := ∀ op ∈ ops, OpOk U op

theorem inv_new (U : Tx → Prop) (c : Nat) : Inv U (new c) := by
  refine ⟨rfl, Nat.zero_le _, ⟨by simp [new], by simp [new], by simp [new, Sorted], by simp [new], by simp [new]⟩, ?_, ?_, ?_, ?_⟩
  · intro h t; simp [new]
  · intro h; simp [new, ConfEntry]
  · intro i h; simp [new]
  · intro q; simp [new, FeeEntry, sumFees]

theorem inv_add {U : Tx → Prop} (hw : WF U) {mp : Pool} (hi : Inv U mp) {t : Tx} (ht : U t) (feer : Feer)
    (hF : FeerOk feer) (d : Nat) : Inv U (add mp t feer d).1 := by
  obtain ⟨h1, h2⟩ := add_spec hw hi ht feer hF d
  cases hr : add mp t feer d with
  | mk mp' r =>
    cases r with
    | none => exact (h2 mp' hr).1
    | some e => exact (h1 mp' e hr).2.1

theorem inv_applyOp {U : Tx → Prop} (hw : WF U) {mp : Pool} (hi : Inv U mp) (op : Op)
    (hop : OpOk U op) : Inv U (applyOp mp op) := by
  cases op with
  | add t feer d => exact inv_add hw hi hop.1 feer hop.2 d
  | remove h => exact inv_remove hw hi h
  | removeStale isOK feer => exact (inv_removeStale hw hi isOK feer hop).1
  | verify t feer => exact (verify_spec hw hi hop.1 feer hop.2).2
  | setResendThreshold h => exact ⟨hi.noPanic, hi.cap, hi.list, hi.vmap, hi.conf, hi.orc, hi.fees⟩
  | setSubs on => exact ⟨hi.noPanic, hi.cap, hi.list, hi.vmap, hi.conf, hi.orc, hi.fees⟩

theorem inv_foldl {U : Tx → Prop} (hw : WF U) : ∀ (ops : List Op) (mp : Pool), Inv U mp → OpsIn U ops →
    Inv U (ops.foldl applyOp mp) := by
  intro ops
  induction ops with
  | nil => intro mp hi _; exact hi
  | cons op ops ih =>
    intro mp hi ho
    rw [List.foldl_cons]
    apply ih
    · exact inv_applyOp hw hi op (ho op List.mem_cons_self)
    · intro o ho'; exact ho o (List.mem_cons_of_mem _ ho')

theorem inv_reachable {U : Tx → Prop} (hw : WF U) (c : Nat) (ops : List Op) (ho : OpsIn U ops) :
    Inv U (run c ops) :=
  inv_foldl hw ops (new c) (inv_new U c) ho

theorem capacity_applyOp {U : Tx → Prop} (hw : WF U) {mp : Pool} (hi : Inv U mp) (op : Op)
    (hop : OpOk U op) :
    (applyOp mp op).capacity = mp.capacity := by
  cases op with
  | add t feer d =>
    obtain ⟨h1, h2⟩ := add_spec hw hi hop.1 feer hop.2 d
    show (add mp t feer d).1.capacity = mp.capacity
    cases hr : add mp t feer d with
    | mk mp' r =>
      cases r with
      | none => exact (h2 mp' hr).2.1
      | some e => exact (h1 mp' e hr).1.2.2.2.2.1
  | remove h => exact (inv_removeInternal hw hi h).2.2.1
  | removeStale isOK feer => exact (inv_removeStale hw hi isOK feer hop).2.2
  | verify t feer => exact (verify_spec hw hi hop.1 feer hop.2).1.2.2.2.2.1
  | setResendThreshold h => rfl
  | setSubs on => rfl

theorem capacity_foldl {U : Tx → Prop} (hw : WF U) : ∀ (ops : List Op) (mp : Pool), Inv U mp → OpsIn U ops →
    (ops.foldl applyOp mp).capacity = mp.capacity := by
  intro ops
  induction ops with
  | nil => intro mp _ _; rfl
  | cons op ops ih =>
    intro mp hi ho
    rw [List.foldl_cons]
    rw [ih _ (inv_applyOp hw hi op (ho op List.mem_cons_self)) (fun o ho' => ho o (List.mem_cons_of_mem _ ho'))]
    exact capacity_applyOp hw hi op (ho op List.mem_cons_self)

theorem capacity_run {U : Tx → Prop} (hw : WF U) (c : Nat) (ops : List Op) (ho : OpsIn U ops) :
    (run c ops).capacity = c :=
  capacity_foldl hw ops (new c) (inv_new U c) ho

/-- the operation reads balances from `F` -/
def UsesFeer (F : Feer) : Op → Prop
  | .add _ f _ => f = F
  | .verify _ f => f = F
  | .removeStale _ f => f = F
  | .remove _ => True
  | .setResendThreshold _ => True
  | .setSubs _ => True

theorem balLe_applyOp (F : Feer) (mp : Pool) (op : Op) (hu : UsesFeer F op) (h : BalLe F mp.fees) :
    BalLe F (applyOp mp op).fees := by
  cases op with
  | add t f d => have : f = F := hu; subst this; exact balLe_add mp t d h
  | remove hh => exact balLe_removeInternal mp hh h
  | removeStale isOK f => have : f = F := hu; subst this; exact balLe_removeStale _ mp isOK
  | verify t f => have : f = F := hu; subst this; exact balLe_verify mp t h
  | setResendThreshold hh => exact h
  | setSubs on => exact h

theorem balLe_foldl (F : Feer) : ∀ (ops : List Op) (mp : Pool), (∀ op ∈ ops, UsesFeer F op) → BalLe F mp.fees →
    BalLe F (ops.foldl applyOp mp).fees := by
  intro ops
  induction ops with
  | nil => intro mp _ h; exact h
  | cons op ops ih =>
    intro mp hu h
    rw [List.foldl_cons]
    exact ih _ (fun o ho => hu o (List.mem_cons_of_mem _ ho)) (balLe_applyOp F mp op (hu op List.mem_cons_self) h)

end NeoModel.Mempool
