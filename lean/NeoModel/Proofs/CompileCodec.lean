/-
CompileCodec — decode ∘ encode for the instruction encoding of MiniVm.Byte (emit.go / opcode.go as modelled):
an instruction whose operands are representable (`encOK`), followed by any bytes, decodes to itself and to its own
length.  Used by Proofs/CompileLayout.lean to prove the layout condition `layoutOK` instead of evaluating it.
-/
import NeoModel.Proofs.CompileEnc
set_option linter.unusedSimpArgs false
namespace NeoModel.CompileProofs
open NeoModel.MiniVm NeoModel.MiniVm.Asm NeoModel.Compile

/-! ### little-endian integers -/

/-- the `len` low base-256 digits of `m`. -/
def digs (m len : Nat) : Bytes := (List.range len).map (fun i => UInt8.ofNat (m / 256 ^ i % 256))

theorem digs_succ (m len : Nat) : digs m (len + 1) = UInt8.ofNat (m % 256) :: digs (m / 256) len := by
  simp only [digs, List.range_succ_eq_map, List.map_cons, List.map_map]
  congr 1
  · simp
  · apply List.map_congr_left
    intro i _
    simp only [Function.comp, Nat.pow_succ, Nat.div_div_eq_div_mul]
    rw [Nat.mul_comm]

theorem digs_length (m len : Nat) : (digs m len).length = len := by simp [digs]

def foldLE (bs : Bytes) : Nat := bs.foldr (fun b acc => acc * 256 + b.toNat) 0

theorem foldLE_digs (len : Nat) : ∀ m, m < 256 ^ len → foldLE (digs m len) = m := by
  induction len with
  | zero => intro m h; simp at h; subst h; rfl
  | succ k ih =>
    intro m h
    rw [digs_succ]
    have hk : m / 256 < 256 ^ k := by
      rw [Nat.div_lt_iff_lt_mul (by decide)]
      rw [Nat.pow_succ] at h; exact h
    have := ih (m / 256) hk
    simp only [foldLE, List.foldr_cons] at this ⊢
    rw [this]
    have : (UInt8.ofNat (m % 256)).toNat = m % 256 := by
      rw [UInt8.toNat_ofNat']; omega
    rw [this]
    omega

theorem leBytes_eq (n : Int) (len : Nat) : Byte.leBytes n len = digs (n % (2 ^ (8 * len))).toNat len := rfl

theorem leBytes_length (n : Int) (len : Nat) : (Byte.leBytes n len).length = len := by
  rw [leBytes_eq, digs_length]

theorem pow256 (k : Nat) : (256 : Nat) ^ k = 2 ^ (8 * k) := by
  rw [Nat.pow_mul]

/-- two's complement round trip. -/
theorem leInt_leBytes (n : Int) (k : Nat) (hk : 0 < k) (hlo : -(2 ^ (8 * k - 1)) ≤ n) (hhi : n < 2 ^ (8 * k - 1)) :
    Byte.leInt (Byte.leBytes n k) = n := by
  have hB : (2 : Int) ^ (8 * k) = 2 * 2 ^ (8 * k - 1) := by
    have : 8 * k = (8 * k - 1) + 1 := by omega
    rw [this, Int.pow_succ]; simp; omega
  have hc1 : (((2 : Nat) ^ (8 * k - 1) : Nat) : Int) = (2 : Int) ^ (8 * k - 1) := Int.natCast_pow 2 _
  have hc2 : (((2 : Nat) ^ (8 * k) : Nat) : Int) = (2 : Int) ^ (8 * k) := Int.natCast_pow 2 _
  have hc3 : (256 : Nat) ^ k = 2 ^ (8 * k) := pow256 k
  unfold Byte.leInt
  rw [leBytes_length]
  generalize hBd : (2 : Int) ^ (8 * k - 1) = B at hlo hhi hB hc1
  generalize hMd : (2 : Int) ^ (8 * k) = M at hB hc2
  generalize hBn : (2 : Nat) ^ (8 * k - 1) = Bn at hc1
  generalize hMn : (2 : Nat) ^ (8 * k) = Mn at hc2 hc3
  have hBpos : 0 < B := by rw [← hBd]; exact Int.pow_pos (by decide)
  have hf : (Byte.leBytes n k).foldr (fun b acc => acc * 256 + b.toNat) 0 = (n % M).toNat := by
    rw [leBytes_eq, hMd]
    apply foldLE_digs k
    rw [hc3]
    have h1 : 0 ≤ n % M := Int.emod_nonneg _ (by omega)
    have h2 : n % M < M := Int.emod_lt_of_pos _ (by omega)
    omega
  simp only [hf]
  by_cases hn : 0 ≤ n
  · have hm : n % M = n := Int.emod_eq_of_lt hn (by omega)
    rw [hm]
    rw [if_neg (by omega)]
    omega
  · have hm : n % M = n + M := by
      rw [← Int.add_emod_right]
      exact Int.emod_eq_of_lt (by omega) (by omega)
    rw [hm]
    rw [if_pos (by omega)]
    omega


theorem take_leBytes (n : Int) (k : Nat) (rest : Bytes) : List.take k (Byte.leBytes n k ++ rest) = Byte.leBytes n k := by
  have := leBytes_length n k
  rw [List.take_append_of_le_length (by omega), List.take_of_length_le (by omega)]

theorem i8_eq (t : Int) : [Byte.i8 t] = Byte.leBytes t 1 := by
  have : (t % 256).toNat < 256 := by omega
  simp [Byte.i8, Byte.leBytes, Nat.mod_eq_of_lt this]

/-- an opcode with a `k`-byte immediate operand. -/
theorem dec_imm (b : UInt8) (t : Int) (k : Nat) (rest : Bytes) (f : Int → Op Int)
    (hk : 0 < k) (hlo : -(2 ^ (8 * k - 1)) ≤ t) (hhi : t < 2 ^ (8 * k - 1))
    (hdec : ∀ r : Bytes, Byte.decode (b :: r) = if r.length < k then none else some (f (Byte.leInt (r.take k)), k + 1)) :
    Byte.decode (b :: (Byte.leBytes t k ++ rest)) = some (f t, k + 1) := by
  rw [hdec, take_leBytes, leInt_leBytes t k hk hlo hhi, if_neg (by simp [leBytes_length])]

theorem encOK_long {t : Int} (h : decide (-(2 ^ 31) ≤ t ∧ t < 2 ^ 31) = true) :
    -(2 ^ (8 * 4 - 1)) ≤ t ∧ t < 2 ^ (8 * 4 - 1) := by
  simpa using h

theorem encOK_short {t : Int} (h : decide (-128 ≤ t ∧ t ≤ 127) = true) :
    -(2 ^ (8 * 1 - 1)) ≤ t ∧ t < 2 ^ (8 * 1 - 1) := by
  have := of_decide_eq_true h
  constructor <;> simp <;> omega

theorem dec_jump (long : Bool) (op : Op Int) (t : Int) (rest : Bytes)
    (hop : op = .jmp t ∨ op = .jmpIf t ∨ op = .jmpIfNot t ∨ op = .call t ∨ ∃ c, op = .jmpCmp c t)
    (h : encOK long op = true) :
    Byte.decode (Byte.encode long op ++ rest) = some (op, (Byte.encode long op).length) := by
  cases long with
  | true =>
    have hr : -(2 ^ (8 * 4 - 1)) ≤ t ∧ t < 2 ^ (8 * 4 - 1) := by
      rcases hop with rfl | rfl | rfl | rfl | ⟨c, rfl⟩ <;> exact encOK_long (by simpa [encOK] using h)
    rcases hop with rfl | rfl | rfl | rfl | ⟨c, rfl⟩
    · simp only [Byte.encode, Byte.i32, if_true, List.cons_append, List.length_cons, leBytes_length]
      exact dec_imm _ t 4 rest .jmp (by decide) hr.1 hr.2 (by intro r; simp [Byte.decode])
    · simp only [Byte.encode, Byte.i32, if_true, List.cons_append, List.length_cons, leBytes_length]
      exact dec_imm _ t 4 rest .jmpIf (by decide) hr.1 hr.2 (by intro r; simp [Byte.decode])
    · simp only [Byte.encode, Byte.i32, if_true, List.cons_append, List.length_cons, leBytes_length]
      exact dec_imm _ t 4 rest .jmpIfNot (by decide) hr.1 hr.2 (by intro r; simp [Byte.decode])
    · simp only [Byte.encode, Byte.i32, if_true, List.cons_append, List.length_cons, leBytes_length]
      exact dec_imm _ t 4 rest .call (by decide) hr.1 hr.2 (by intro r; simp [Byte.decode])
    · simp only [Byte.encode, Byte.i32, if_true, List.cons_append, List.length_cons, leBytes_length]
      cases c <;> exact dec_imm _ t 4 rest _ (by decide) hr.1 hr.2 (by intro r; simp [Byte.decode, Byte.Cmp.code])
  | false =>
    have hr : -(2 ^ (8 * 1 - 1)) ≤ t ∧ t < 2 ^ (8 * 1 - 1) := by
      rcases hop with rfl | rfl | rfl | rfl | ⟨c, rfl⟩ <;> exact encOK_short (by simpa [encOK] using h)
    have h8 : ∀ b : UInt8, ∀ r : Bytes, b :: Byte.i8 t :: r = b :: (Byte.leBytes t 1 ++ r) := by
      intro b r; rw [← i8_eq]; rfl
    rcases hop with rfl | rfl | rfl | rfl | ⟨c, rfl⟩
    · simp only [Byte.encode, Bool.false_eq_true, if_false, List.cons_append, List.nil_append, List.length_cons, List.length_nil, h8]
      exact dec_imm _ t 1 rest .jmp (by decide) hr.1 hr.2 (by intro r; simp [Byte.decode])
    · simp only [Byte.encode, Bool.false_eq_true, if_false, List.cons_append, List.nil_append, List.length_cons, List.length_nil, h8]
      exact dec_imm _ t 1 rest .jmpIf (by decide) hr.1 hr.2 (by intro r; simp [Byte.decode])
    · simp only [Byte.encode, Bool.false_eq_true, if_false, List.cons_append, List.nil_append, List.length_cons, List.length_nil, h8]
      exact dec_imm _ t 1 rest .jmpIfNot (by decide) hr.1 hr.2 (by intro r; simp [Byte.decode])
    · simp only [Byte.encode, Bool.false_eq_true, if_false, List.cons_append, List.nil_append, List.length_cons, List.length_nil, h8]
      exact dec_imm _ t 1 rest .call (by decide) hr.1 hr.2 (by intro r; simp [Byte.decode])
    · simp only [Byte.encode, Bool.false_eq_true, if_false, List.cons_append, List.nil_append, List.length_cons, List.length_nil, h8]
      cases c <;> exact dec_imm _ t 1 rest _ (by decide) hr.1 hr.2 (by intro r; simp [Byte.decode, Byte.Cmp.code])


/-- the range property that `minLen` searches for. -/
def InRange (n : Int) (k : Nat) : Prop := -(2 ^ (8 * k - 1)) ≤ n ∧ n < 2 ^ (8 * k - 1)

theorem inRange_mono {n : Int} {k k' : Nat} (h : InRange n k) (hk : k ≤ k') : InRange n k' := by
  have : (2 : Int) ^ (8 * k - 1) ≤ 2 ^ (8 * k' - 1) := by
    have h1 := Nat.pow_le_pow_right (show 0 < 2 by decide) (show 8 * k - 1 ≤ 8 * k' - 1 by omega)
    have h2 : ((2 ^ (8 * k - 1) : Nat) : Int) ≤ ((2 ^ (8 * k' - 1) : Nat) : Int) := Int.ofNat_le.mpr h1
    rw [Int.natCast_pow, Int.natCast_pow] at h2
    exact h2
  unfold InRange at *
  omega

theorem minLen_range (n : Int) (h32 : InRange n 32) : ∀ fuel, fuel ≤ 32 → InRange n (Byte.minLen n fuel) ∧ 32 - fuel ≤ Byte.minLen n fuel := by
  intro fuel
  induction fuel with
  | zero => intro _; exact ⟨h32, by simp [Byte.minLen]⟩
  | succ f ih =>
    intro hf
    simp only [Byte.minLen]
    split
    · rename_i hc
      exact ⟨hc, by omega⟩
    · have := ih (by omega)
      exact ⟨this.1, by omega⟩

theorem fits256_range {n : Int} (h : fits256 n = true) : InRange n 32 := by
  simp [fits256] at h
  unfold InRange
  simpa using h

theorem dec_pushInt (n : Int) (rest : Bytes) (h : fits256 n = true) :
    Byte.decode (Byte.encPushInt n ++ rest) = some (.pushInt n, (Byte.encPushInt n).length) := by
  unfold Byte.encPushInt
  by_cases h1 : n = -1
  · subst h1; simp [Byte.decode]
  · have h1' : (n == -1) = false := by simpa using h1
    simp only [h1', Bool.false_eq_true, if_false]
    by_cases h2 : 0 ≤ n ∧ n < 16
    · rw [if_pos h2]
      obtain ⟨j, hj⟩ : ∃ j : Nat, n = j := ⟨n.toNat, by omega⟩
      subst hj
      have hj16 : j < 16 := by omega
      have : j = 0 ∨ j = 1 ∨ j = 2 ∨ j = 3 ∨ j = 4 ∨ j = 5 ∨ j = 6 ∨ j = 7 ∨ j = 8 ∨ j = 9 ∨ j = 10 ∨ j = 11 ∨ j = 12 ∨ j = 13 ∨ j = 14 ∨ j = 15 := by omega
      rcases this with rfl | rfl | rfl | rfl | rfl | rfl | rfl | rfl | rfl | rfl | rfl | rfl | rfl | rfl | rfl | rfl <;>
        simp [Byte.decode]
    · rw [if_neg h2]
      have hr := (minLen_range n (fits256_range h) 32 (Nat.le_refl _)).1
      generalize Byte.minLen n 32 = l at hr
      have key : ∀ (opc k : Nat), opc ≤ 5 → k = 2 ^ opc → InRange n k →
          Byte.decode ((UInt8.ofNat opc :: Byte.leBytes n k) ++ rest) = some (.pushInt n, (UInt8.ofNat opc :: Byte.leBytes n k).length) := by
        intro opc k ho hk hin
        have hkpos : 0 < k := by rw [hk]; exact Nat.two_pow_pos _
        simp only [List.cons_append, List.length_cons, leBytes_length]
        refine dec_imm _ n k rest .pushInt hkpos hin.1 hin.2 ?_
        intro r
        have : opc = 0 ∨ opc = 1 ∨ opc = 2 ∨ opc = 3 ∨ opc = 4 ∨ opc = 5 := by omega
        rcases this with rfl | rfl | rfl | rfl | rfl | rfl <;> subst hk <;> simp [Byte.decode]
      split
      · rename_i hl; simp only; exact key 0 1 (by decide) (by decide) (inRange_mono hr hl)
      · split
        · rename_i hl; simp only; exact key 1 2 (by decide) (by decide) (inRange_mono hr hl)
        · split
          · rename_i hl; simp only; exact key 2 4 (by decide) (by decide) (inRange_mono hr hl)
          · split
            · rename_i hl; simp only; exact key 3 8 (by decide) (by decide) (inRange_mono hr hl)
            · split
              · rename_i hl; simp only; exact key 4 16 (by decide) (by decide) (inRange_mono hr hl)
              · simp only; exact key 5 32 (by decide) (by decide) (fits256_range h)


theorem ofNat_toNat_lt {i : Nat} (h : i < 256) : (UInt8.ofNat i).toNat = i := by
  rw [UInt8.toNat_ofNat']; omega

/-- LDLOC/STLOC/LDARG/STARG: one-byte form for slots 0..6, two-byte form up to 255. -/
theorem dec_slot (base : Nat) (i : Nat) (rest : Bytes) (f : Nat → Op Int) (hi : i < 256)
    (hbase : base = 0x68 ∨ base = 0x70 ∨ base = 0x78 ∨ base = 0x80)
    (hf : (base = 0x68 → f = .ldloc) ∧ (base = 0x70 → f = .stloc) ∧ (base = 0x78 → f = .ldarg) ∧ (base = 0x80 → f = .starg)) :
    Byte.decode (Byte.slotOp base i ++ rest) = some (f i, (Byte.slotOp base i).length) := by
  unfold Byte.slotOp
  by_cases h7 : i < 7
  · rw [if_pos h7]
    have : i = 0 ∨ i = 1 ∨ i = 2 ∨ i = 3 ∨ i = 4 ∨ i = 5 ∨ i = 6 := by omega
    rcases hbase with rfl | rfl | rfl | rfl
    · rw [hf.1 rfl]; rcases this with rfl | rfl | rfl | rfl | rfl | rfl | rfl <;> simp [Byte.decode]
    · rw [hf.2.1 rfl]; rcases this with rfl | rfl | rfl | rfl | rfl | rfl | rfl <;> simp [Byte.decode]
    · rw [hf.2.2.1 rfl]; rcases this with rfl | rfl | rfl | rfl | rfl | rfl | rfl <;> simp [Byte.decode]
    · rw [hf.2.2.2 rfl]; rcases this with rfl | rfl | rfl | rfl | rfl | rfl | rfl <;> simp [Byte.decode]
  · rw [if_neg h7]
    have ht := ofNat_toNat_lt hi
    rcases hbase with rfl | rfl | rfl | rfl
    · rw [hf.1 rfl]; simp [Byte.decode, ht]
    · rw [hf.2.1 rfl]; simp [Byte.decode, ht]
    · rw [hf.2.2.1 rfl]; simp [Byte.decode, ht]
    · rw [hf.2.2.2 rfl]; simp [Byte.decode, ht]

/-- decode ∘ encode: an encodable instruction, followed by anything, decodes to itself and its own length. -/
theorem decode_encode (long : Bool) (op : Op Int) (rest : Bytes) (h : encOK long op = true) :
    Byte.decode (Byte.encode long op ++ rest) = some (op, (Byte.encode long op).length) := by
  cases op with
  | pushInt n => exact dec_pushInt n rest (by simpa [encOK] using h)
  | jmp t => exact dec_jump long _ t rest (Or.inl rfl) h
  | jmpIf t => exact dec_jump long _ t rest (Or.inr (Or.inl rfl)) h
  | jmpIfNot t => exact dec_jump long _ t rest (Or.inr (Or.inr (Or.inl rfl))) h
  | call t => exact dec_jump long _ t rest (Or.inr (Or.inr (Or.inr (Or.inl rfl)))) h
  | jmpCmp c t => exact dec_jump long _ t rest (Or.inr (Or.inr (Or.inr (Or.inr ⟨c, rfl⟩)))) h
  | initSlot l a =>
    have h' : l < 256 ∧ a < 256 := by simpa [encOK] using h
    simp [Byte.encode, Byte.decode, ofNat_toNat_lt h'.1, ofNat_toNat_lt h'.2]
  | ldloc i => exact dec_slot 0x68 i rest .ldloc (by simpa [encOK] using h) (Or.inl rfl) ⟨fun _ => rfl, fun h => absurd h (by decide), fun h => absurd h (by decide), fun h => absurd h (by decide)⟩
  | stloc i => exact dec_slot 0x70 i rest .stloc (by simpa [encOK] using h) (Or.inr (Or.inl rfl)) ⟨fun h => absurd h (by decide), fun _ => rfl, fun h => absurd h (by decide), fun h => absurd h (by decide)⟩
  | ldarg i => exact dec_slot 0x78 i rest .ldarg (by simpa [encOK] using h) (Or.inr (Or.inr (Or.inl rfl))) ⟨fun h => absurd h (by decide), fun h => absurd h (by decide), fun _ => rfl, fun h => absurd h (by decide)⟩
  | starg i => exact dec_slot 0x80 i rest .starg (by simpa [encOK] using h) (Or.inr (Or.inr (Or.inr rfl))) ⟨fun h => absurd h (by decide), fun h => absurd h (by decide), fun h => absurd h (by decide), fun _ => rfl⟩
  | _ => simp [Byte.encode, Byte.decode]

theorem encode_length_pos (long : Bool) (op : Op Int) : 0 < (Byte.encode long op).length := by
  cases op <;> simp [Byte.encode, Byte.slotOp] <;> try (split <;> simp)
  case pushInt n =>
    unfold Byte.encPushInt
    split
    · simp
    · split <;> simp

theorem encode_length_retarget (long : Bool) (op : Op Nat) (t t' : Int) :
    (Byte.encode long (Op.retarget t op)).length = (Byte.encode long (Op.retarget t' op)).length := by
  cases op <;> simp [Op.retarget, Byte.encode, Byte.i32] <;> split <;> simp [leBytes_length]

theorem encode_short_length (op : Op Nat) (l : Nat) (t : Int) (h : Op.target? op = some l) :
    (Byte.encode false (Op.retarget t op)).length = 2 := by
  cases op <;> simp [Op.target?] at h <;> simp [Op.retarget, Byte.encode]

theorem encode_long_jump_length (op : Op Nat) (l : Nat) (t : Int) (h : Op.target? op = some l) :
    (Byte.encode true (Op.retarget t op)).length = 5 := by
  cases op <;> simp [Op.target?] at h <;> simp [Op.retarget, Byte.encode, Byte.i32, leBytes_length]

end NeoModel.CompileProofs
