/- C07 helper lemmas (see Props/C07.lean for the property theorems). -/
import NeoModel.Proofs.FeesCalc
import NeoModel.Model.Admission
namespace NeoModel.Fees
open NeoModel.Generated.FeeConsts

/-! ### a witness under a gas limit -/

theorem runScript_lim (e : Env) (L : Nat) (s : VM) (bs : Bytes) (hs : s.gas ≤ L) :
    runScript (e.lim L) s bs = filt L (runScript e.unl s bs) := by
  unfold runScript
  rw [runBytes_lim e L bs s hs]
  cases h : runBytes e.unl s bs with
  | none => rfl
  | some s' =>
    simp only [filt_some]
    by_cases hL : s'.gas ≤ L
    · simp only [hL, if_true]
      split <;> simp [filt_some, hL]
    · simp only [hL, if_false]
      split <;> simp [filt_some, hL]

theorem runScript_mono (e : Env) (s s' : VM) (bs : Bytes) (h : runScript e.unl s bs = some s') : s.gas ≤ s'.gas := by
  unfold runScript at h
  cases h1 : runBytes e.unl s bs with
  | none => simp [h1] at h
  | some s1 =>
    simp only [h1] at h
    split at h
    · simp at h; subst h; exact runBytes_mono e bs s s1 h1
    · contradiction

theorem runWitness_lim (e : Env) (L : Nat) (inv ver : Bytes) :
    runWitness (e.lim L) inv ver = filt L (runWitness e.unl inv ver) := by
  unfold runWitness
  rw [runScript_lim e L VM.init inv (by simp [VM.init])]
  cases h : runScript e.unl VM.init inv with
  | none => rfl
  | some s1 =>
    simp only [filt_some]
    by_cases hL : s1.gas ≤ L
    · simp only [hL, if_true]
      exact runScript_lim e L s1 ver hL
    · simp only [hL, if_false]
      cases h2 : runScript e.unl s1 ver with
      | none => rfl
      | some s2 =>
        have := runScript_mono e s1 s2 ver h2
        have : ¬ s2.gas ≤ L := by omega
        simp [filt_some, this]

theorem picoToDatoshi_le (pico G : Nat) : picoToDatoshi pico ≤ G ↔ pico ≤ G * execFeeFactorMultiplier := by
  simp only [picoToDatoshi, execFeeFactorMultiplier]
  omega

/-- a witness that, without limit, halts with `true` after `pico` picoGAS: under a limit of `gas` datoshi it
verifies iff its rounded-up cost fits both `gas` and MaxVerificationGas, and it then consumes exactly that cost. -/
theorem verifyWitness_of_run (base mvg : Nat) (g : Bool) (vk : Bytes → Bool) (vf : Bytes → Bytes → Bool)
    (gas : Nat) (inv ver : Bytes) (pico : Nat)
    (hrun : runWitness (envU base g vk vf) inv ver = some ⟨[.bool true], pico, .op⟩) :
    verifyWitness base mvg g vk vf true gas inv ver
      = if picoToDatoshi pico ≤ min gas mvg then .ok (picoToDatoshi pico) else .fail := by
  unfold verifyWitness
  have he : (⟨base, some (min gas mvg * execFeeFactorMultiplier), g, vk, vf⟩ : Env)
      = (envU base g vk vf).lim (min gas mvg * execFeeFactorMultiplier) := rfl
  have hu : (envU base g vk vf).unl = envU base g vk vf := rfl
  simp only [Bool.not_true, Bool.false_eq_true, if_false]
  rw [he, runWitness_lim, hu, hrun, filt_some]
  by_cases h : pico ≤ min gas mvg * execFeeFactorMultiplier
  · have h' := (picoToDatoshi_le pico (min gas mvg)).mpr h
    simp [h, h', Item.tryBool]
  · have h' : ¬ picoToDatoshi pico ≤ min gas mvg := fun x => h ((picoToDatoshi_le pico (min gas mvg)).mp x)
    simp [h, h']

end NeoModel.Fees

namespace NeoModel.Fees
open NeoModel.Generated.FeeConsts

theorem filt_gas_le {L : Nat} {o : Option VM} {s : VM} (h : filt L o = some s) : s.gas ≤ L := by
  cases o with
  | none => simp at h
  | some s' =>
    simp only [filt_some] at h
    split at h
    · simp at h; subst h; assumption
    · contradiction

/-- whatever a standard-opcode witness is: if it verifies, it consumed no more than it was given. -/
theorem verifyWitness_ok_le (base mvg : Nat) (g : Bool) (vk : Bytes → Bool) (vf : Bytes → Bytes → Bool)
    (hok : Bool) (gas : Nat) (inv ver : Bytes) (used : Nat)
    (h : verifyWitness base mvg g vk vf hok gas inv ver = .ok used) : used ≤ gas ∧ used ≤ mvg := by
  unfold verifyWitness at h
  have he : (⟨base, some (min gas mvg * execFeeFactorMultiplier), g, vk, vf⟩ : Env)
      = (envU base g vk vf).lim (min gas mvg * execFeeFactorMultiplier) := rfl
  simp only [he, runWitness_lim] at h
  split at h
  · contradiction
  · split at h
    · contradiction
    · rename_i s hs
      have hle := filt_gas_le hs
      have := (picoToDatoshi_le s.gas (min gas mvg)).mpr hle
      split at h
      · split at h
        · simp at h; subst h; omega
        · simp at h
        · contradiction
      · contradiction

end NeoModel.Fees

namespace NeoModel.Admission
open NeoModel.Fees
open NeoModel.Generated.FeeConsts

/-- a witness with a definite price: it verifies iff the price fits, and then consumes exactly the price. -/
def WitCost (c : Chain) (w : Wit) (cost : Nat) : Prop :=
  ∀ gas, verifyOne c gas w = if cost ≤ min gas c.maxVerGas then .ok cost else .fail

def costSum (wcs : List (Wit × Nat)) : Nat := (wcs.map (·.2)).sum

theorem verifyWitnesses_costs (c : Chain) : ∀ (wcs : List (Wit × Nat)) (gas : Nat),
    (∀ p ∈ wcs, WitCost c p.1 p.2 ∧ p.2 ≤ c.maxVerGas) →
    verifyWitnesses c gas (wcs.map (·.1)) = if costSum wcs ≤ gas then some (gas - costSum wcs) else none := by
  intro wcs
  induction wcs with
  | nil => intro gas _; simp [verifyWitnesses, costSum]
  | cons p ps ih =>
    intro gas h
    obtain ⟨hw, hm⟩ := h p (by simp)
    have ih' := ih (gas - p.2) (fun q hq => h q (by simp [hq]))
    simp only [List.map_cons, verifyWitnesses, hw gas]
    have hs : costSum (p :: ps) = p.2 + costSum ps := by simp [costSum]
    by_cases h1 : p.2 ≤ min gas c.maxVerGas
    · simp only [h1, if_true]
      rw [ih', hs]
      have : p.2 ≤ gas := by omega
      by_cases h2 : costSum ps ≤ gas - p.2
      · have : p.2 + costSum ps ≤ gas := by omega
        simp [h2, this]; omega
      · have : ¬ p.2 + costSum ps ≤ gas := by omega
        simp [h2, this]
    · simp only [h1, if_false]
      have : ¬ p.2 + costSum ps ≤ gas := by omega
      simp [hs, this]

end NeoModel.Admission

namespace NeoModel.Admission
open NeoModel.Fees
open NeoModel.Generated.FeeConsts

/-- `size·feePerByte + attribute fees` (blockchain.go:2958). -/
def need (c : Chain) (t : Tx) : Nat := t.size * c.feePerByte + attrsFee c t.signers.length t.attrs

/-- the checks of `admit` that do not involve the network fee. -/
structure PreOk (c : Chain) (t : Tx) : Prop where
  sysFee : t.sysFee ≤ c.maxBlockSysFee
  script : t.scriptOk = true
  notExpired : c.height < t.validUntil
  notFar : t.validUntil ≤ c.height + c.maxVUBInc
  notBlocked : t.signers.any (fun s => c.blocked s.account) = false
  size : t.size ≤ maxTransactionSize
  chain : hasTransaction (c.lookup t.hash) (t.signers.map (·.account)) c.height c.mtb = none

theorem admit_of_preOk (c : Chain) (p : Pool) (t : Tx) (h : PreOk c t) :
    admit c p t =
      if t.netFee < need c t then some .smallNetFee
      else match verifyWitnesses c (t.netFee - need c t) (t.signers.map (·.wit)) with
        | none => some .witness
        | some _ => if !verifyAttrs c t then some .invalidAttr else poolAdd p t := by
  have h1 : ¬ t.sysFee > c.maxBlockSysFee := by have := h.sysFee; omega
  have h3 : ¬ t.validUntil ≤ c.height := by have := h.notExpired; omega
  have h4 : ¬ t.validUntil > c.height + c.maxVUBInc := by have := h.notFar; omega
  have h6 : ¬ t.size > maxTransactionSize := by have := h.size; omega
  simp only [admit, h1, if_false, h.script, Bool.not_true, Bool.false_eq_true, h3, h4, h.notBlocked, h6, h.chain, need]
  rfl

theorem threshold_exact_costs (c : Chain) (p : Pool) (t : Tx) (wcs : List (Wit × Nat))
    (hpre : PreOk c t)
    (hw : t.signers.map (·.wit) = wcs.map (·.1))
    (hc : ∀ q ∈ wcs, WitCost c q.1 q.2 ∧ q.2 ≤ c.maxVerGas)
    (hattrs : verifyAttrs c { t with netFee := need c t + costSum wcs } = true)
    (hpool : poolAdd p { t with netFee := need c t + costSum wcs } = none) :
    admit c p { t with netFee := need c t + costSum wcs } = none
    ∧ ∀ f, f < need c t + costSum wcs →
        admit c p { t with netFee := f } = some .smallNetFee ∨ admit c p { t with netFee := f } = some .witness := by
  constructor
  · have hpre' : PreOk c { t with netFee := need c t + costSum wcs } := ⟨hpre.1, hpre.2, hpre.3, hpre.4, hpre.5, hpre.6, hpre.7⟩
    rw [admit_of_preOk c p _ hpre']
    have hn : need c { t with netFee := need c t + costSum wcs } = need c t := rfl
    have h1 : ¬ (need c t + costSum wcs < need c t) := by omega
    simp only [hn, h1, if_false, hw, Nat.add_sub_cancel_left]
    rw [verifyWitnesses_costs c wcs _ hc]
    simp [hattrs, hpool]
  · intro f hf
    have hpre' : PreOk c { t with netFee := f } := ⟨hpre.1, hpre.2, hpre.3, hpre.4, hpre.5, hpre.6, hpre.7⟩
    rw [admit_of_preOk c p _ hpre']
    have hn : need c { t with netFee := f } = need c t := rfl
    simp only [hn, hw]
    by_cases h1 : f < need c t
    · simp [h1]
    · simp only [h1, if_false]
      rw [verifyWitnesses_costs c wcs _ hc]
      have : ¬ costSum wcs ≤ f - need c t := by omega
      simp [this]

end NeoModel.Admission

namespace NeoModel.Admission
open NeoModel.Fees
open NeoModel.Generated.FeeConsts

/-- every witness verified, `gs` = the gas each consumed. -/
def AllVerify (c : Chain) : List Wit → List Nat → Prop
  | [], [] => True
  | w :: ws, g :: gs => (∃ lim, verifyOne c lim w = .ok g) ∧ AllVerify c ws gs
  | _, _ => False

/-- contract-based witnesses never report more gas than the limit they ran under (vm.GasConsumed ≤ limit). -/
def OpaqueSound (ws : List Wit) : Prop :=
  ∀ f, Wit.contract f ∈ ws → ∀ lim used, f lim = .ok used → used ≤ lim

theorem verifyOne_ok_le (c : Chain) (w : Wit) (gas used : Nat) (hs : ∀ f, w = .contract f → ∀ lim u, f lim = .ok u → u ≤ lim)
    (h : verifyOne c gas w = .ok used) : used ≤ gas := by
  cases w with
  | std hok inv ver => exact (verifyWitness_ok_le _ _ _ _ _ _ _ _ _ _ h).1
  | missing => simp [verifyOne] at h
  | contract f =>
    simp only [verifyOne] at h
    have := hs f rfl _ _ h
    omega

theorem verifyWitnesses_sound (c : Chain) : ∀ (ws : List Wit) (gas rest : Nat), OpaqueSound ws →
    verifyWitnesses c gas ws = some rest → ∃ gs, AllVerify c ws gs ∧ gs.sum + rest = gas := by
  intro ws
  induction ws with
  | nil => intro gas rest _ h; simp [verifyWitnesses] at h; exact ⟨[], trivial, by simp [h]⟩
  | cons w ws ih =>
    intro gas rest hs h
    simp only [verifyWitnesses] at h
    cases hv : verifyOne c gas w with
    | ok used =>
      simp only [hv] at h
      have hle := verifyOne_ok_le c w gas used (fun f hf => hs f (by simp [hf])) hv
      obtain ⟨gs, hall, hsum⟩ := ih (gas - used) rest (fun f hf => hs f (by simp [hf])) h
      exact ⟨used :: gs, ⟨⟨gas, hv⟩, hall⟩, by simp; omega⟩
    | invalidSig g => simp [hv] at h
    | fail => simp [hv] at h

theorem hasTransaction_none (r : Rec) (signers : List Nat) (height mtb : Nat) (hne : signers ≠ [])
    (h : hasTransaction r signers height mtb = none) :
    r ≠ .tx ∧ ∀ idx recs, r = .stub idx recs → isTraceable idx height mtb = true →
      ∀ a ∈ signers, ∀ q ∈ recs, q.1 = a → isTraceable q.2 height mtb = false := by
  cases r with
  | none => simp
  | block => simp
  | tx => simp [hasTransaction] at h
  | stub index recs =>
    refine ⟨by simp, ?_⟩
    intro idx recs' heq htr a ha q hq hqa
    simp only [Rec.stub.injEq] at heq
    obtain ⟨rfl, rfl⟩ := heq
    have he : signers.isEmpty = false := by cases signers <;> simp_all
    simp only [hasTransaction, he, Bool.false_eq_true, if_false, htr, Bool.not_true] at h
    split at h
    · contradiction
    · rename_i hany
      simp only [Bool.not_eq_true, List.any_eq_false] at hany
      have := hany a ha q hq
      rw [hqa] at this
      simpa using this

theorem poolAdd_none (p : Pool) (t : Tx) (h : poolAdd p t = none) :
    p.has t.hash = false ∧ p.conflictsAttrErr = false ∧ t.sysFee + t.netFee + p.feeSum ≤ p.balance
      ∧ p.oracleErr = false ∧ p.full = false := by
  unfold poolAdd at h
  repeat' split at h
  all_goals (try contradiction)
  simp_all

/-- **admission is sound**: whatever `admit` accepts satisfies every clause of the statement. -/
theorem admit_sound_full (c : Chain) (p : Pool) (t : Tx)
    (hop : OpaqueSound (t.signers.map (·.wit))) (h : admit c p t = none) :
    PreOk c t
    ∧ (∃ gs, AllVerify c (t.signers.map (·.wit)) gs ∧ need c t + gs.sum ≤ t.netFee)
    ∧ (∀ a ∈ t.attrs, checkAttr c t a = true)
    ∧ (p.has t.hash = false ∧ p.conflictsAttrErr = false ∧ t.sysFee + t.netFee + p.feeSum ≤ p.balance
        ∧ p.oracleErr = false ∧ p.full = false) := by
  unfold admit at h
  split at h; · contradiction
  split at h; · contradiction
  split at h; · contradiction
  split at h; · contradiction
  split at h; · contradiction
  split at h; · contradiction
  rename_i h1 h2 h3 h4 h5 h6
  simp only at h
  split at h; · contradiction
  rename_i h7
  split at h
  · rename_i e he; simp at h
  · rename_i hchain
    split at h
    · contradiction
    · rename_i rest hw
      split at h
      · contradiction
      · rename_i hattr
        have hpre : PreOk c t := ⟨by omega, by simpa using h2, by omega, by omega, by simpa using h5, by omega, hchain⟩
        obtain ⟨gs, hall, hsum⟩ := verifyWitnesses_sound c _ _ _ hop hw
        refine ⟨hpre, ⟨gs, hall, ?_⟩, ?_, poolAdd_none p t h⟩
        · simp only [need]; omega
        · simp only [Bool.not_eq_true, Bool.not_eq_false'] at hattr
          simpa [verifyAttrs, List.all_eq_true] using hattr

theorem allDistinct_nodup : ∀ (l : List Nat), allDistinct l = true → l.Nodup := by
  intro l
  induction l with
  | nil => intro _; exact List.nodup_nil
  | cons a l ih =>
    intro h
    simp only [allDistinct, Bool.and_eq_true, Bool.not_eq_true', List.contains_eq_mem, decide_eq_false_iff_not] at h
    exact List.nodup_cons.mpr ⟨h.1, ih h.2⟩


end NeoModel.Admission
