/-
C11 helper lemmas: occurrences (`occ`) vs. the net effect of the recorded events (`net`) for
Put and Delete.
-/
import NeoModel.Model.MptRc
import NeoModel.Proofs.MptLookup
set_option linter.unusedSimpArgs false
namespace NeoModel.MptRc
open NeoModel.Mpt

theorem net_nil (P : Node → Bool) : net P [] = 0 := rfl

theorem net_cons_add (P : Node → Bool) (n : Node) (r : Evs) :
    net P ((true, n) :: r) = (b2n (P n) : Int) + net P r := by
  simp only [net, b2n]; cases P n <;> simp

theorem net_cons_rm (P : Node → Bool) (n : Node) (r : Evs) :
    net P ((false, n) :: r) = - (b2n (P n) : Int) + net P r := by
  simp only [net, b2n]; cases P n <;> simp

theorem net_append (P : Node → Bool) (a b : Evs) : net P (a ++ b) = net P a + net P b := by
  induction a with
  | nil => simp [net]
  | cons e a ih =>
    obtain ⟨s, n⟩ := e
    cases s
    · simp only [List.cons_append, net_cons_rm, ih]; omega
    · simp only [List.cons_append, net_cons_add, ih]; omega

theorem net_addL (P : Node → Bool) (v : Val) : net P (addL v) = (b2n (P (.leaf v)) : Int) := by
  simp [addL, net_cons_add, net_nil]

theorem net_rmL (P : Node → Bool) (v : Val) : net P (rmL v) = - (b2n (P (.leaf v)) : Int) := by
  simp [rmL, net_cons_rm, net_nil]

theorem net_single_add (P : Node → Bool) (n : Node) : net P [(true, n)] = (b2n (P n) : Int) := by
  simp [net_cons_add, net_nil]

theorem net_single_rm (P : Node → Bool) (n : Node) : net P [(false, n)] = - (b2n (P n) : Int) := by
  simp [net_cons_rm, net_nil]

/-- the children's part of `occ` of a branch. -/
def ksum (P : Node → Bool) (cs : Nib → Node) : Nat := ((List.finRange 16).map fun i => occ P (cs i)).sum

theorem occ_branch (P : Node → Bool) (cs : Nib → Node) (v : Option Val) :
    occ P (.branch cs v) = b2n (P (.branch cs v)) + ksum P cs + occSlot P v := rfl

theorem occ_ext (P : Node → Bool) (k : Path) (n : Node) :
    occ P (.ext k n) = b2n (P (.ext k n)) + occ P n := rfl

theorem occ_leaf (P : Node → Bool) (v : Val) : occ P (.leaf v) = b2n (P (.leaf v)) := rfl
theorem occ_empty (P : Node → Bool) : occ P .empty = 0 := rfl

theorem sum_map_upd {α} [DecidableEq α] (l : List α) (hl : l.Nodup) (f : α → Nat) (i : α) (x : Nat) :
    (l.map fun j => if j = i then x else f j).sum + (if i ∈ l then f i else 0) =
      (l.map f).sum + (if i ∈ l then x else 0) := by
  induction l with
  | nil => simp
  | cons a l ih =>
    have hn := List.nodup_cons.mp hl
    have ih := ih hn.2
    by_cases h : a = i
    · subst h
      have : a ∉ l := hn.1
      simp only [this, if_false] at ih
      simp only [List.map_cons, List.sum_cons, if_true, List.mem_cons, true_or]
      omega
    · have h' : ¬ i = a := fun e => h e.symm
      simp only [List.map_cons, List.sum_cons, h, if_false, List.mem_cons, h', false_or]
      omega

theorem ksum_upd (P : Node → Bool) (cs : Nib → Node) (i : Nib) (x : Node) :
    ksum P (upd cs i x) + occ P (cs i) = ksum P cs + occ P x := by
  have := sum_map_upd (List.finRange 16) (List.nodup_finRange 16) (fun j => occ P (cs j)) i (occ P x)
  simp only [List.mem_finRange, if_true] at this
  simp only [ksum, upd]
  have e : (List.map (fun j => occ P (if j = i then x else cs j)) (List.finRange 16)) =
      (List.map (fun j => if j = i then occ P x else occ P (cs j)) (List.finRange 16)) := by
    apply List.map_congr_left; intro j _; split <;> rfl
  rw [e]; exact this

theorem ksum_noKids (P : Node → Bool) : ksum P noKids = 0 := by
  simp only [ksum, noKids, occ]
  induction (List.finRange 16) with
  | nil => rfl
  | cons a l ih => simpa using ih

theorem ksum_congr (P : Node → Bool) (cs cs' : Nib → Node) (h : ∀ i, occ P (cs i) = occ P (cs' i)) :
    ksum P cs = ksum P cs' := by
  simp only [ksum]; congr 1; apply List.map_congr_left; intro i _; exact h i

theorem occ_newSub (P : Node → Bool) (p : Path) (n : Node) (nv : Bool) :
    (occ P (newSub p n) : Int) = occ P n - (if nv then (b2n (P n) : Int) else 0) + net P (newSubEv p n nv) := by
  cases p with
  | nil => cases nv <;> simp [newSub, newSubEv, net_cons_add, net_nil]
  | cons a p =>
    cases nv <;> simp [newSub, newSubEv, net_cons_add, net_nil, occ_ext] <;> omega

theorem occ_mkExt (P : Node → Bool) (c : Path) (b : Node) :
    (occ P (mkExt c b) : Int) = occ P b + net P (mkExtEv c b) := by
  cases c with
  | nil => simp [mkExt, mkExtEv, net_nil]
  | cons a c => simp [mkExt, mkExtEv, net_cons_add, net_nil, occ_ext]; omega

/-- C11.1 (Put): the recorded reference-count events account exactly for the change of the number
of occurrences of every node. -/
theorem occ_put (P : Node → Bool) (t : Node) : ∀ (p : Path) (v : Val),
    (occ P (put t p v) : Int) = occ P t + net P (putEv t p v) := by
  induction t with
  | empty =>
    intro p v
    simp only [put, putEv, occ_empty]
    have := occ_newSub P p (.leaf v) true
    simp only [occ_leaf, if_true] at this
    omega
  | leaf w =>
    intro p v
    cases p with
    | nil => simp only [put, putEv, occ_leaf, net_append, net_rmL, net_addL]; omega
    | cons i p =>
      simp only [put, putEv, net_append, net_single_add, occ_branch, occSlot, occ_leaf]
      have h1 := ksum_upd P noKids i (newSub p (.leaf v))
      have h2 := occ_newSub P p (.leaf v) true
      simp only [ksum_noKids, noKids, occ_empty, occ_leaf, if_true] at h1 h2
      omega
  | ext k n ih =>
    intro p v
    simp only [put, putEv, net_cons_rm]
    rcases hs : lcpSplit k p with ⟨c, rk, rp⟩
    cases rk with
    | nil =>
      simp only [net_append, net_single_add, occ_ext]
      have := ih rp v
      omega
    | cons kh kt =>
      cases rp with
      | nil =>
        simp only [net_append, net_single_add, net_addL]
        rw [occ_mkExt]
        simp only [occ_branch, occSlot, occ_ext]
        have h1 := ksum_upd P noKids kh (newSub kt n)
        have h2 := occ_newSub P kt n false
        simp only [ksum_noKids, noKids, occ_empty] at h1 h2
        simp only [Bool.false_eq_true, if_false] at h2
        omega
      | cons ph pt =>
        simp only [net_append, net_single_add]
        rw [occ_mkExt]
        simp only [occ_branch, occSlot, occ_ext]
        have h1 := ksum_upd P noKids kh (newSub kt n)
        have h1' := ksum_upd P (upd noKids kh (newSub kt n)) ph (newSub pt (.leaf v))
        have h2 := occ_newSub P kt n false
        have h3 := occ_newSub P pt (.leaf v) true
        simp only [ksum_noKids, occ_empty, occ_leaf, if_true] at h1 h1' h2 h3
        simp only [noKids, occ_empty] at h1
        simp only [Bool.false_eq_true, if_false] at h2
        -- the slot `ph` of the intermediate children: either the fresh `kh` child or empty
        have hph : occ P (upd noKids kh (newSub kt n) ph) =
            if ph = kh then occ P (newSub kt n) else 0 := by
          simp only [upd, noKids]; split <;> simp [occ_empty]
        -- `kh ≠ ph` by the specification of lcpSplit
        have hne : kh ≠ ph := by
          have := (lcpSplit_spec k p).2.2 kh ph kt pt
          rw [hs] at this
          exact this rfl rfl
        have hne' : ¬ ph = kh := fun e => hne e.symm
        simp only [hne', if_false] at hph
        omega
  | branch cs w ih =>
    intro p v
    cases p with
    | nil =>
      simp only [put, putEv, net_cons_rm, net_append, net_single_add, occ_branch]
      cases w with
      | none => simp only [slotPutEv, net_addL, occSlot]; omega
      | some x => simp only [slotPutEv, net_append, net_addL, net_rmL, occSlot]; omega
    | cons i p =>
      simp only [put, putEv, net_cons_rm, net_append, net_single_add, occ_branch]
      have h1 := ksum_upd P cs i (put (cs i) p v)
      have h2 := ih i p v
      omega

end NeoModel.MptRc

namespace NeoModel.MptRc
open NeoModel.Mpt

theorem occ_of_isEmpty (P : Node → Bool) {n : Node} (h : n.isEmpty = true) : occ P n = 0 := by
  cases n <;> simp [Node.isEmpty] at h; rfl

theorem sum_map_filter {α} (l : List α) (q : α → Bool) (f : α → Nat) (h : ∀ x, q x = false → f x = 0) :
    (l.map f).sum = ((l.filter q).map f).sum := by
  induction l with
  | nil => rfl
  | cons a l ih =>
    cases hq : q a with
    | true => simp [List.filter, hq, ih]
    | false => simp [List.filter, hq, ih, h a hq]

theorem ksum_kids (P : Node → Bool) (cs : Nib → Node) :
    ksum P cs = ((kids cs).map fun i => occ P (cs i)).sum := by
  simp only [ksum, kids]
  apply sum_map_filter
  intro x hx
  apply occ_of_isEmpty
  simpa using hx

theorem occ_collapseBranch (P : Node → Bool) (cs : Nib → Node) (v : Option Val) :
    (occ P (collapseBranch cs v) : Int) = ksum P cs + occSlot P v + net P (collapseEv cs v) := by
  have hk := ksum_kids P cs
  rcases hkk : kids cs with _ | ⟨i, _ | ⟨j, r⟩⟩
  · rw [hkk] at hk
    cases v with
    | none => simp [collapseBranch, collapseEv, hkk, hk, occ_ext, occ_empty, occSlot, net_single_add]
    | some w => simp [collapseBranch, collapseEv, hkk, hk, occ_leaf, occSlot, net_nil]
  · rw [hkk] at hk
    simp only [List.map_cons, List.map_nil, List.sum_cons, List.sum_nil, Nat.add_zero] at hk
    cases v with
    | none =>
      simp only [collapseBranch, collapseEv, hkk, occSlot]
      cases hc : cs i with
      | empty => simp only [occ_ext, net_single_add, hk, hc, Int.natCast_add]; omega
      | leaf w => simp only [occ_ext, net_single_add, hk, hc, Int.natCast_add]; omega
      | branch cs' v' => simp only [occ_ext, net_single_add, hk, hc, Int.natCast_add]; omega
      | ext k n =>
        simp only [occ_ext, net_cons_rm, net_single_add, hk, hc]
        omega
    | some w =>
      simp only [collapseBranch, collapseEv, hkk, net_single_add, occ_branch]
      omega
  · cases v <;> simp only [collapseBranch, collapseEv, hkk, net_single_add, occ_branch] <;> omega

/-- C11.1 (Delete). -/
theorem occ_delete (P : Node → Bool) (t : Node) : ∀ (p : Path),
    (occ P (delete t p) : Int) = occ P t + net P (deleteEv t p) := by
  induction t with
  | empty => intro p; simp [delete, deleteEv, net_nil]
  | leaf w =>
    intro p
    cases p with
    | nil => simp only [delete, deleteEv, occ_empty, occ_leaf, net_rmL]; omega
    | cons i p => simp [delete, deleteEv, net_nil]
  | ext k n ih =>
    intro p
    simp only [delete, deleteEv]
    cases hs : stripPre k p with
    | none => simp [net_nil]
    | some r =>
      simp only [net_append, net_cons_rm]
      have h := ih r
      cases hd : delete n r with
      | empty =>
        rw [hd] at h
        simp only [occ_empty, occ_ext, net_nil] at h ⊢
        omega
      | leaf w =>
        rw [hd] at h
        simp only [occ_ext, net_single_add] at h ⊢
        omega
      | branch cs' v' =>
        rw [hd] at h
        simp only [occ_ext, net_single_add] at h ⊢
        omega
      | ext k2 n2 =>
        rw [hd] at h
        simp only [occ_ext, net_cons_rm, net_single_add] at h ⊢
        omega
  | branch cs v ih =>
    intro p
    cases p with
    | nil =>
      simp only [delete, deleteEv, net_append, net_cons_rm]
      rw [occ_collapseBranch]
      cases v with
      | none => simp only [occ_branch, occSlot, net_nil]; omega
      | some w => simp only [occ_branch, occSlot, net_rmL]; omega
    | cons i p =>
      simp only [delete, deleteEv, net_append, net_cons_rm]
      rw [occ_collapseBranch]
      have h1 := ksum_upd P cs i (delete (cs i) p)
      have h2 := ih i p
      simp only [occ_branch]
      omega

end NeoModel.MptRc
