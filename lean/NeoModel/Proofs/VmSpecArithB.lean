/-
C13 — integer instructions, part B: DIV MOD SHL SHR POW, AND OR XOR INVERT, MIN MAX WITHIN,
comparisons, SQRT MODMUL MODPOW — for every operand item (see VmSpecArith.lean).
-/
import NeoModel.Proofs.VmSpecArith
import Mathlib.Tactic.Linarith
open NeoModel NeoModel.Vm
namespace NeoModel.Vm.Spec

/-! ### DIV MOD -/

/-- **div_mod_spec.** DIV / MOD FAULT on a zero divisor; otherwise DIV pushes the truncated quotient
(if in range) and MOD the remainder with the sign of the dividend. -/
theorem div_mod_spec (a b : Item) (x y : Int) (ha : a.toInteger = some x) (hb : b.toInteger = some y)
    (st : List Item) (h : Heap) :
    execPure .div [] (b :: a :: st) h =
      (if y = 0 then .error "division by zero" else intResult (Int.tdiv x y) st h) ∧
    execPure .mod [] (b :: a :: st) h =
      (if y = 0 then .error "division by zero" else intResult (Int.tmod x y) st h) := by
  constructor
  · simp only [execPure]; rw [binop_spec _ a b x y ha hb]
    by_cases hy : y = 0 <;> simp [divT, optE, hy, Except.bind]
  · simp only [execPure]; rw [binop_spec _ a b x y ha hb]
    by_cases hy : y = 0 <;> simp [modT, optE, hy, Except.bind]

theorem tmod_inRange (x y : Int) (hx : inRange x = true) : inRange (Int.tmod x y) = true := by
  rw [inRange_iff] at hx ⊢
  have h1 : (Int.tmod x y).natAbs ≤ x.natAbs := by rw [Int.natAbs_tmod]; exact Nat.mod_le _ _
  rcases Int.le_total 0 x with hp | hn
  · have := Int.tmod_nonneg y hp
    omega
  · have : 0 ≤ Int.tmod (-x) y := Int.tmod_nonneg y (by omega)
    rw [Int.neg_tmod] at this
    omega

/-- MOD never leaves the range. -/
theorem mod_never_range_faults (a b : Item) (x y : Int) (ha : a.toInteger = some x)
    (hb : b.toInteger = some y) (hy : y ≠ 0) (st : List Item) (h : Heap) :
    execPure .mod [] (b :: a :: st) h =
      .ok (.next (.int ⟨Int.tmod x y, tmod_inRange x y (toInteger_inRange a x ha)⟩ :: st) h) := by
  rw [(div_mod_spec a b x y ha hb st h).2, if_neg hy, intResult_inRange]

theorem tdiv_inRange (x y : Int) (hx : inRange x = true) (hxy : ¬ (x = -(2:Int)^255 ∧ y = -1)) :
    inRange (Int.tdiv x y) = true := by
  rw [inRange_iff] at hx ⊢
  have h1 : (Int.tdiv x y).natAbs ≤ x.natAbs := Int.natAbs_tdiv_le_natAbs x y
  by_cases hm : x = -(2:Int)^255
  · subst hm
    have hy : y ≠ -1 := fun h => hxy ⟨rfl, h⟩
    rcases Int.lt_trichotomy y 0 with hy0 | hy0 | hy0
    · -- y ≤ -2: |q| ≤ 2^254
      have h2 : (Int.tdiv (-(2:Int)^255) y).natAbs ≤ 2^254 := by
        rw [Int.natAbs_tdiv]
        have hy2 : 2 ≤ y.natAbs := by omega
        calc (-(2:Int)^255).natAbs.div y.natAbs ≤ (-(2:Int)^255).natAbs / 2 :=
              Nat.div_le_div_left hy2 (by decide)
          _ = 2^254 := by decide
      omega
    · subst hy0; simp
    · have : 0 ≤ Int.tdiv ((2:Int)^255) y := Int.tdiv_nonneg (by decide) (by omega)
      have h3 : Int.tdiv (-(2:Int)^255) y = -Int.tdiv ((2:Int)^255) y := Int.neg_tdiv _ _
      omega
  · omega

/-- DIV FAULTs exactly on a zero divisor and on −2^255 / −1 (the one quotient that does not fit). -/
theorem div_fault_iff (a b : Item) (x y : Int) (ha : a.toInteger = some x) (hb : b.toInteger = some y)
    (st : List Item) (h : Heap) :
    isFault (execPure .div [] (b :: a :: st) h) ↔ (y = 0 ∨ (x = -(2:Int)^255 ∧ y = -1)) := by
  rw [(div_mod_spec a b x y ha hb st h).1]
  by_cases hy : y = 0
  · simp [hy, isFault]
  · rw [if_neg hy, intResult_fault_iff]
    constructor
    · intro hf
      right
      apply Classical.byContradiction
      intro hn
      exact hf ((inRange_iff _).mp (tdiv_inRange x y (toInteger_inRange a x ha) hn))
    · rintro (h0 | ⟨hx, hy1⟩)
      · exact absurd h0 hy
      · subst hx; subst hy1
        decide

example : isFault (execPure .div [] [.int ⟨-1, by decide⟩, .int ⟨-(2:Int)^255, by decide⟩] #[]) :=
  (div_fault_iff _ _ _ _ rfl rfl _ _).mpr (Or.inr ⟨rfl, rfl⟩)

/-! ### SHL SHR -/

theorem toInt32_of (k : Int) (hk : -(2:Int)^31 ≤ k ∧ k < (2:Int)^31) : toInt32 k = some k := by
  unfold toInt32; rw [if_pos hk]
theorem toInt32_none (k : Int) (hk : ¬ (-(2:Int)^31 ≤ k ∧ k < (2:Int)^31)) : toInt32 k = none := by
  unfold toInt32; rw [if_neg hk]

theorem popIdx_cons (n : Item) (st : List Item) (k : Int) (hn : n.toInteger = some k)
    (hk : -(2:Int)^31 ≤ k ∧ k < (2:Int)^31) : popIdx (n :: st) = .ok (k, st) := by
  simp [popIdx, popInt_cons n st k hn, toInt32_of k hk, optE, bind, Except.bind, pure, Except.pure]

theorem popIdx_cons_big (n : Item) (st : List Item) (k : Int) (hn : n.toInteger = some k)
    (hk : ¬ (-(2:Int)^31 ≤ k ∧ k < (2:Int)^31)) : popIdx (n :: st) = .error "not an int32" := by
  simp [popIdx, popInt_cons n st k hn, toInt32_none k hk, optE, bind, Except.bind]

theorem popIdx_cons_none (n : Item) (st : List Item) (hn : n.toInteger = none) :
    popIdx (n :: st) = .error "not an integer" := by
  simp [popIdx, popInt_cons_none n st hn, bind, Except.bind]

theorem shr_inRange (x : Int) (n : Nat) (hx : inRange x = true) : inRange (shr x n) = true := by
  rw [inRange_iff] at hx ⊢
  have hs := shr_spec x n
  have hd : (1:Int) ≤ (2:Int)^n := by
    have := pow2_mono (Nat.zero_le n); simpa using this
  generalize (2:Int)^n = d at hs hd
  generalize shr x n = q at hs ⊢
  obtain ⟨h1, h2⟩ := hs
  rcases Int.le_total 0 x with hp | hn
  · have hq : 0 ≤ q := by nlinarith
    have : q ≤ x := by nlinarith
    omega
  · have hq : q ≤ 0 := by nlinarith
    have : x ≤ q := by nlinarith
    omega

/-- **shift_spec.** SHL / SHR pop the shift count first: a count outside [0, 256] FAULTs (whatever
lies below); otherwise SHL pushes `x · 2^k` if it fits and SHR pushes `⌊x / 2^k⌋`, which always fits. -/
theorem shift_spec (n a : Item) (k x : Int) (hn : n.toInteger = some k) (ha : a.toInteger = some x)
    (st : List Item) (h : Heap) (hk : 0 ≤ k ∧ k ≤ 256) :
    execPure .shl [] (n :: a :: st) h = intResult (x * (2:Int)^k.toNat) st h ∧
    execPure .shr [] (n :: a :: st) h =
      .ok (.next (.int ⟨x / (2:Int)^k.toNat, shr_inRange x k.toNat (toInteger_inRange a x ha)⟩ :: st) h) := by
  have h32 : -(2:Int)^31 ≤ k ∧ k < (2:Int)^31 := by constructor <;> omega
  have hnot : ¬ (k < 0 ∨ k > (maxShift : Int)) := by simp [maxShift]; omega
  constructor
  · simp only [execPure, popIdx_cons n _ k hn h32, bind, Except.bind, hnot, if_false,
      popInt_cons a _ x ha, pushIntE_eq]
    rfl
  · simp only [execPure, popIdx_cons n _ k hn h32, bind, Except.bind, hnot, if_false,
      popInt_cons a _ x ha, pushIntE_eq]
    show intResult (shr x k.toNat) st h = _
    rw [intResult_inRange _ (shr_inRange x k.toNat (toInteger_inRange a x ha))]
    rfl

/-- a shift count outside [0, 256] FAULTs before the value is looked at. -/
theorem shift_count_fault (n : Item) (k : Int) (hn : n.toInteger = some k) (hk : k < 0 ∨ k > 256)
    (st : List Item) (h : Heap) :
    isFault (execPure .shl [] (n :: st) h) ∧ isFault (execPure .shr [] (n :: st) h) := by
  by_cases h32 : -(2:Int)^31 ≤ k ∧ k < (2:Int)^31
  · have hbad : k < 0 ∨ k > (maxShift : Int) := by simpa [maxShift] using hk
    constructor <;>
    · simp only [execPure, popIdx_cons n _ k hn h32, bind, Except.bind, hbad, if_true]
      simp [throw, throwThe, MonadExceptOf.throw, isFault]
  · constructor <;>
    · simp only [execPure, popIdx_cons_big n _ k hn h32, bind, Except.bind]
      simp [isFault]

example : execPure .shr [] [.int ⟨1, by decide⟩, .int ⟨-7, by decide⟩] #[] =
    .ok (.next [.int ⟨-4, by decide⟩] #[]) := by decide +kernel
example : isFault (execPure .shl [] [.int ⟨257, by decide⟩] #[]) :=
  (shift_count_fault _ 257 rfl (Or.inr (by decide)) _ _).1

/-! ### POW -/

/-- **pow_spec_all.** POW (exponent on top) FAULTs unless 0 ≤ e ≤ 256 and otherwise pushes the true
power `x^e` if it fits. -/
theorem pow_spec_all (a e : Item) (x k : Int) (ha : a.toInteger = some x) (he : e.toInteger = some k)
    (st : List Item) (h : Heap) :
    execPure .pow [] (e :: a :: st) h =
      (if k < 0 ∨ k > 256 then .error "invalid exponent" else intResult (x ^ k.toNat) st h) := by
  simp only [execPure]; rw [binop_spec _ a e x k ha he]
  by_cases hk : k < 0 ∨ k > 256 <;> simp [powI, optE, hk, Except.bind]

/-! ### AND OR XOR INVERT -/

/-- **bitwise_exec.** AND / OR / XOR / INVERT on convertible operands never FAULT and push the
256-bit two's-complement bitwise result (`bitwise_spec`, `bitwise_bits`). -/
theorem bitwise_exec (a b : Item) (x y : Int) (ha : a.toInteger = some x) (hb : b.toInteger = some y)
    (st : List Item) (h : Heap) :
    execPure .and [] (b :: a :: st) h = .ok (.next (.int ⟨andI x y, (andI_spec x y).1⟩ :: st) h) ∧
    execPure .or [] (b :: a :: st) h = .ok (.next (.int ⟨orI x y, (orI_spec x y).1⟩ :: st) h) ∧
    execPure .xor [] (b :: a :: st) h = .ok (.next (.int ⟨xorI x y, (xorI_spec x y).1⟩ :: st) h) ∧
    execPure .invert [] (a :: st) h =
      .ok (.next (.int ⟨-x - 1, (notI_spec x (toInteger_inRange a x ha)).1⟩ :: st) h) := by
  refine ⟨?_, ?_, ?_, ?_⟩
  · simp only [execPure]; rw [binop_spec _ a b x y ha hb]
    simp only [Except.bind]; rw [intResult_inRange]
  · simp only [execPure]; rw [binop_spec _ a b x y ha hb]
    simp only [Except.bind]; rw [intResult_inRange]
  · simp only [execPure]; rw [binop_spec _ a b x y ha hb]
    simp only [Except.bind]; rw [intResult_inRange]
  · simp only [execPure]; rw [unop_spec _ a x ha]
    simp only [Except.bind]
    rw [intResult_inRange _ (notI_spec x (toInteger_inRange a x ha)).1]
    rfl

/-- bit by bit: for every position `i < 256` the bit of the result is the AND / OR / XOR / NOT of the
operands' bits in 256-bit two's complement. -/
theorem bitwise_bits (a b : Int) (i : Nat) (hi : i < 256) :
    (toU256 (andI a b)).testBit i = ((toU256 a).testBit i && (toU256 b).testBit i) ∧
    (toU256 (orI a b)).testBit i = ((toU256 a).testBit i || (toU256 b).testBit i) ∧
    (toU256 (xorI a b)).testBit i = ((toU256 a).testBit i ^^ (toU256 b).testBit i) ∧
    (inRange a = true → (toU256 (notI a)).testBit i = !(toU256 a).testBit i) := by
  refine ⟨?_, ?_, ?_, ?_⟩
  · rw [(andI_spec a b).2, Nat.testBit_and]
  · rw [(orI_spec a b).2, Nat.testBit_or]
  · rw [(xorI_spec a b).2, Nat.testBit_xor]
  · intro ha
    rw [(notI_spec a ha).2]
    have hlt := toU256_lt a
    have : 2^256 - 1 - toU256 a = 2^256 - (toU256 a + 1) := by omega
    rw [this, Nat.testBit_two_pow_sub_succ hlt]
    simp [hi]

example : execPure .and [] [.int ⟨-1, by decide⟩, .bytes [0x05]] #[] = .ok (.next [.int ⟨5, by decide⟩] #[]) := by
  decide +kernel

/-! ### MIN MAX WITHIN, comparisons -/

theorem min_inRange (x y : Int) (hx : inRange x = true) (hy : inRange y = true) : inRange (min x y) = true := by
  rw [inRange_iff] at *; omega
theorem max_inRange (x y : Int) (hx : inRange x = true) (hy : inRange y = true) : inRange (max x y) = true := by
  rw [inRange_iff] at *; omega

/-- **minmax_spec.** MIN / MAX push the smaller / larger operand value as an Integer and never FAULT;
WITHIN (x, a, b with b on top) pushes the Boolean `a ≤ x < b`. -/
theorem minmax_spec (a b : Item) (x y : Int) (ha : a.toInteger = some x) (hb : b.toInteger = some y)
    (st : List Item) (h : Heap) :
    execPure .min [] (b :: a :: st) h = .ok (.next (.int ⟨min x y,
      min_inRange x y (toInteger_inRange a x ha) (toInteger_inRange b y hb)⟩ :: st) h) ∧
    execPure .max [] (b :: a :: st) h = .ok (.next (.int ⟨max x y,
      max_inRange x y (toInteger_inRange a x ha) (toInteger_inRange b y hb)⟩ :: st) h) := by
  constructor
  · simp only [execPure]; rw [binop_spec _ a b x y ha hb]
    have : (if x > y then y else x) = min x y := by split <;> omega
    simp only [Except.bind, this]; rw [intResult_inRange]
  · simp only [execPure]; rw [binop_spec _ a b x y ha hb]
    have : (if x < y then y else x) = max x y := by split <;> omega
    simp only [Except.bind, this]; rw [intResult_inRange]

theorem within_spec (v a b : Item) (x lo hi : Int) (hv : v.toInteger = some x) (ha : a.toInteger = some lo)
    (hb : b.toInteger = some hi) (st : List Item) (h : Heap) :
    execPure .within [] (b :: a :: v :: st) h =
      .ok (.next (.bool (decide (lo ≤ x) && decide (x < hi)) :: st) h) := by
  simp [execPure, popInt_cons b _ hi hb, popInt_cons a _ lo ha, popInt_cons v _ x hv, bind, Except.bind, next1]

/-- **compare_spec.** LT LE GT GE push `false` as soon as one operand is Null (whatever the other is);
otherwise they compare the integer values; NUMEQUAL / NUMNOTEQUAL compare the values; NZ is `x ≠ 0`. -/
theorem compare_spec (a b : Item) (x y : Int) (ha : a.toInteger = some x) (hb : b.toInteger = some y)
    (st : List Item) (h : Heap) :
    execPure .lt [] (b :: a :: st) h = .ok (.next (.bool (decide (x < y)) :: st) h) ∧
    execPure .le [] (b :: a :: st) h = .ok (.next (.bool (decide (x ≤ y)) :: st) h) ∧
    execPure .gt [] (b :: a :: st) h = .ok (.next (.bool (decide (x > y)) :: st) h) ∧
    execPure .ge [] (b :: a :: st) h = .ok (.next (.bool (decide (x ≥ y)) :: st) h) ∧
    execPure .numEqual [] (b :: a :: st) h = .ok (.next (.bool (x == y) :: st) h) ∧
    execPure .numNotEqual [] (b :: a :: st) h = .ok (.next (.bool (x != y) :: st) h) ∧
    execPure .nz [] (a :: st) h = .ok (.next (.bool (x != 0) :: st) h) := by
  have hna : (a == Item.null) = false := by cases a <;> simp_all [Item.toInteger]
  have hnb : (b == Item.null) = false := by cases b <;> simp_all [Item.toInteger]
  refine ⟨?_, ?_, ?_, ?_, ?_, ?_, ?_⟩
  · simp [execPure, cmpNull, popE, hna, hnb, ha, hb, optE, bind, Except.bind, next1]
  · simp [execPure, cmpNull, popE, hna, hnb, ha, hb, optE, bind, Except.bind, next1]
  · simp [execPure, cmpNull, popE, hna, hnb, ha, hb, optE, bind, Except.bind, next1]
  · simp [execPure, cmpNull, popE, hna, hnb, ha, hb, optE, bind, Except.bind, next1]
  · simp [execPure, cmpop, popInt_cons b _ y hb, popInt_cons a _ x ha, bind, Except.bind, next1]
  · simp [execPure, cmpop, popInt_cons b _ y hb, popInt_cons a _ x ha, bind, Except.bind, next1]
  · simp [execPure, popInt_cons a _ x ha, bind, Except.bind, next1]

/-- LT LE GT GE with a Null operand push `false` whatever the other operand is (even an Array). -/
theorem compare_null (a b : Item) (hab : a = .null ∨ b = .null) (st : List Item) (h : Heap) :
    execPure .lt [] (b :: a :: st) h = .ok (.next (.bool false :: st) h) ∧
    execPure .le [] (b :: a :: st) h = .ok (.next (.bool false :: st) h) ∧
    execPure .gt [] (b :: a :: st) h = .ok (.next (.bool false :: st) h) ∧
    execPure .ge [] (b :: a :: st) h = .ok (.next (.bool false :: st) h) := by
  have hc : (a == Item.null || b == Item.null) = true := by rcases hab with h1 | h1 <;> simp [h1]
  refine ⟨?_, ?_, ?_, ?_⟩ <;>
  · simp [execPure, cmpNull, popE, hc, bind, Except.bind, next1]

example : execPure .lt [] [.null, .array 7] #[] = .ok (.next [.bool false] #[]) :=
  (compare_null _ _ (Or.inr rfl) _ _).1

/-! ### SQRT MODMUL MODPOW -/

theorem natSqrt_le (n : Nat) : natSqrt n ≤ n := by
  have h := (natSqrt_spec n).1
  rcases Nat.eq_zero_or_pos (natSqrt n) with h0 | hp
  · omega
  · calc natSqrt n = natSqrt n * 1 := by omega
      _ ≤ natSqrt n * natSqrt n := Nat.mul_le_mul_left _ hp
      _ ≤ n := h

theorem natSqrt_inRange (x : Int) (hx : inRange x = true) : inRange ((natSqrt x.toNat : Nat) : Int) = true := by
  rw [inRange_iff] at hx ⊢
  have := natSqrt_le x.toNat
  omega

/-- **sqrt_exec.** SQRT FAULTs on a negative operand; otherwise it pushes the integer square root
(`r² ≤ x < (r+1)²`, see `sqrt_spec`) and never leaves the range. -/
theorem sqrt_exec (a : Item) (x : Int) (ha : a.toInteger = some x) (st : List Item) (h : Heap) :
    execPure .sqrt [] (a :: st) h =
      (if x < 0 then .error "negative value"
       else .ok (.next (.int ⟨(natSqrt x.toNat : Nat), natSqrt_inRange x (toInteger_inRange a x ha)⟩ :: st) h)) := by
  simp only [execPure]; rw [unop_spec _ a x ha]
  by_cases hx : x < 0
  · simp [sqrtI, optE, hx, Except.bind]
  · simp only [sqrtI, optE, hx, if_false, Except.bind]
    rw [intResult_inRange]

theorem tmod_lt_inRange (p m : Int) (hm : inRange m = true) (hm0 : m ≠ 0) : inRange (Int.tmod p m) = true := by
  rw [inRange_iff] at hm ⊢
  have h1 : (Int.tmod p m).natAbs < m.natAbs := by
    rw [Int.natAbs_tmod]; exact Nat.mod_lt _ (by omega)
  omega

/-- **modmul_exec.** MODMUL (x1, x2, modulus with the modulus on top) FAULTs on a zero modulus and
otherwise pushes `(x1·x2) tmod m`, which always fits. -/
theorem modmul_exec (a1 a2 am : Item) (x1 x2 m : Int) (h1 : a1.toInteger = some x1) (h2 : a2.toInteger = some x2)
    (hm : am.toInteger = some m) (st : List Item) (h : Heap) :
    execPure .modMul [] (am :: a2 :: a1 :: st) h =
      (if hm0 : m = 0 then .error "zero modulus"
       else .ok (.next (.int ⟨Int.tmod (x1 * x2) m, tmod_lt_inRange _ m (toInteger_inRange am m hm) hm0⟩ :: st) h)) := by
  simp only [execPure, popInt_cons am _ m hm, popInt_cons a2 _ x2 h2, popInt_cons a1 _ x1 h1, bind, Except.bind,
    pushIntE_eq]
  by_cases hm0 : m = 0
  · simp [modMul, optE, hm0]
  · simp only [modMul, optE, hm0, if_false, dite_false]
    rw [intResult_inRange]

/-- **modpow_exec.** MODPOW (base, exponent, modulus with the modulus on top) is `modPow` (`modpow_inv`,
`modpow_nonneg`: modular inverse for exponent −1, `b^e tmod m` for e ≥ 0, FAULT otherwise), range-checked. -/
theorem modpow_exec (ab ae am : Item) (b e m : Int) (hb : ab.toInteger = some b) (he : ae.toInteger = some e)
    (hm : am.toInteger = some m) (st : List Item) (h : Heap) :
    execPure .modPow [] (am :: ae :: ab :: st) h =
      (match modPow b e m with
       | none => .error "invalid MODPOW operands"
       | some r => intResult r st h) := by
  simp only [execPure, popInt_cons am _ m hm, popInt_cons ae _ e he, popInt_cons ab _ b hb, bind, Except.bind,
    pushIntE_eq]
  cases modPow b e m <;> simp [optE]

example : execPure .modPow [] [.int ⟨141, by decide⟩, .int ⟨-1, by decide⟩, .int ⟨19, by decide⟩] #[] =
    .ok (.next [.int ⟨52, by decide⟩] #[]) := by decide +kernel

end NeoModel.Vm.Spec
