/-
C06 helper lemmas about the Merkle root function of the model (any carrier, any two-to-one hash): level
length, fuel irrelevance, the duplicated-last-leaf family.
-/
import NeoModel.Model.AddBlock
namespace NeoModel.AddBlock

theorem merkleLevel_length {α : Type} (h2 : α → α → α) (l : List α) : (merkleLevel h2 l).length = (l.length + 1) / 2 := by
  fun_induction merkleLevel h2 l with
  | case1 => simp
  | case2 => simp
  | case3 a b rest ih => simp only [List.length_cons, ih]; omega

/-- enough fuel is enough: the root does not depend on the fuel once it reaches the length. -/
theorem calcMerkle_fuel {α : Type} (h2 : α → α → α) (z : α) (n : Nat) :
    ∀ (l : List α) (f1 f2 : Nat), l.length ≤ n → l.length ≤ f1 → l.length ≤ f2 →
      calcMerkle h2 z f1 l = calcMerkle h2 z f2 l := by
  induction n with
  | zero =>
    intro l f1 f2 hn _ _
    have : l = [] := List.eq_nil_of_length_eq_zero (by omega)
    subst this
    cases f1 <;> cases f2 <;> rfl
  | succ n ih =>
    intro l f1 f2 hn h1 h2'
    match l, hn, h1, h2' with
    | [], _, _, _ => cases f1 <;> cases f2 <;> rfl
    | [a], _, _, _ => cases f1 <;> cases f2 <;> rfl
    | a :: b :: rest, hn, h1, h2' =>
      match f1, f2, h1, h2' with
      | f1 + 1, f2 + 1, h1, h2' =>
        simp only [calcMerkle]
        have hl := merkleLevel_length h2 (a :: b :: rest)
        simp only [List.length_cons] at hl hn h1 h2'
        apply ih <;> omega

theorem merkleLevel_dup_last {α : Type} (h2 : α → α → α) (pre : List α) (x : α) (n : Nat)
    (hn : pre.length = 2 * n) :
    merkleLevel h2 (pre ++ [x, x]) = merkleLevel h2 (pre ++ [x]) := by
  induction n generalizing pre with
  | zero =>
    have : pre = [] := List.eq_nil_of_length_eq_zero (by omega)
    subst this; rfl
  | succ n ih =>
    match pre, hn with
    | a :: b :: rest, hn =>
      simp only [List.cons_append, merkleLevel]
      rw [ih rest (by simp at hn; omega)]

/-- C06, the duplicated-last-leaf forgery family, any length: for every list with an odd number ≥ 3 of
leaves, appending a copy of the last leaf gives the same Merkle root, for every two-to-one hash. -/
theorem merkle_dup_last {α : Type} (h2 : α → α → α) (z : α) (pre : List α) (x : α) (n : Nat)
    (hn : pre.length = 2 * (n + 1)) :
    merkleRoot h2 z (pre ++ [x, x]) = merkleRoot h2 z (pre ++ [x]) := by
  match pre, hn with
  | a :: b :: rest, hn =>
    have hlev := merkleLevel_dup_last h2 (a :: b :: rest) x (n + 1) hn
    unfold merkleRoot
    simp only [List.cons_append, List.length_cons, List.length_append, List.length_nil, calcMerkle]
    have e1 : merkleLevel h2 (a :: b :: (rest ++ [x, x])) = merkleLevel h2 (a :: b :: (rest ++ [x])) := by
      simpa using hlev
    rw [e1]
    have hl := merkleLevel_length h2 (a :: b :: (rest ++ [x]))
    simp only [List.length_cons, List.length_append, List.length_nil] at hl hn
    apply calcMerkle_fuel h2 z _ _ _ _ (Nat.le_refl _) <;> omega

end NeoModel.AddBlock
