/-
C12 proofs, part 5b: collection instructions whose counter updates follow the mutation
(APPEND, POPITEM, CLEARITEMS, PICKITEM, REVERSEITEMS).
-/
import NeoModel.Proofs.VmAcctExecA
namespace NeoModel.VmAcct

variable {rest : Nat → Nat} {n : Nat}

theorem cloneIfStruct_of_not_str (w : W) (x : Item) (hx : ∀ id, x ≠ .str id) : w.cloneIfStruct x = some (x, false, w) := by
  cases x with
  | str id => exact absurd rfl (hx id)
  | prim => rfl
  | arr _ => rfl
  | map _ => rfl

theorem cnt_dropLast (id : Nat) (xs : List Item) (x : Item) (h : xs.getLast? = some x) :
    cnt id xs.dropLast + cnt id [x] = cnt id xs ∧ xs.dropLast.length + 1 = xs.length := by
  have hx : xs = xs.dropLast ++ [x] := by
    have hne : xs ≠ [] := by intro e; simp [e] at h
    have := List.dropLast_concat_getLast hne
    rw [List.getLast?_eq_some_getLast hne] at h
    simp only [Option.some.injEq] at h
    rw [h] at this; exact this.symm
  constructor
  · conv => rhs; rw [hx]
    simp
  · conv => rhs; rw [hx]
    simp

theorem chOf_valid {c : Ctr} {f : Nat → Nat} {m : Nat} (inv : InvC c f m) (id : Nat) : ∀ x ∈ chOf c.heap id, WfItem c.heap x :=
  fun x hx d hd => inv.wf id x d hx hd

/-- appending a (not counted) reference to a compound; counted afterwards iff the compound is referenced -/
theorem append_core {c : Ctr} {f : Nat → Nat} {m : Nat} (id : Nat) (val : Item) (hval : WfItem c.heap val) (inv : InvC c f m) :
    InvC (if rcOf c.heap id ≠ 0 then ({ c with heap := setCh c.heap id (chOf c.heap id ++ [val]) } : Ctr).add val
          else { c with heap := setCh c.heap id (chOf c.heap id ++ [val]) }) f m := by
  have hch : ∀ x ∈ chOf c.heap id ++ [val], WfItem c.heap x := by
    intro x hx
    rcases List.mem_append.1 hx with hx | hx
    · exact chOf_valid inv id x hx
    · rw [List.mem_singleton.1 hx]; exact hval
  by_cases hr : rcOf c.heap id = 0
  · simp only [hr, ne_eq, not_true_eq_false, if_false]
    exact inv_setCh_unref id _ hr hch inv
  · simp only [ne_eq, hr, not_false_eq_true, if_true]
    apply (addW_spec [val] _ f m _).1
    refine ⟨HeapWf_setCh id _ inv.wf hch, ?_, fun j => ?_, ?_⟩
    · intro y hy d hd
      rw [List.mem_singleton.1 hy] at hd
      simpa using hval d hd
    · have := inv.rc j
      have hh := held_setCh_ref (cnt j) c.heap id (chOf c.heap id ++ [val]) hr
      simp only [rcOf_setCh, heldCnt, cnt_append] at this hh ⊢
      omega
    · have := inv.refs
      have hh := held_setCh_ref (List.length) c.heap id (chOf c.heap id ++ [val]) hr
      simp only [heldLen, List.length_append, List.length_singleton] at this hh ⊢
      push_cast at this ⊢
      omega

theorem append_inv {w w' : W} (inv : InvW w rest n) (hnc : ∀ id, w.st.head? ≠ some (.str id))
    (h : execS .append w = some (.ok w')) : InvW w' rest n := by
  simp only [execS] at h
  cases hp : w.pop with
  | none => simp [hp] at h
  | some r =>
    obtain ⟨item, w1⟩ := r
    simp only [hp] at h
    obtain ⟨i1, s1, hv1, hst⟩ := pop_inv inv hp
    cases hp2 : w1.pop with
    | none => simp [hp2] at h
    | some r2 =>
      obtain ⟨arr, w2⟩ := r2
      simp only [hp2] at h
      obtain ⟨i2, s2, _, _⟩ := pop_inv i1 hp2
      have hns : ∀ id, item ≠ .str id := by
        intro id e; apply hnc id; rw [hst, e]; rfl
      rw [cloneIfStruct_of_not_str w2 item hns] at h
      have hv2 : WfItem w2.c.heap item := wfItem_of_len hv1 (by rw [s2.1]; exact Nat.le_refl _)
      cases arr with
      | prim => simp at h
      | map _ => simp at h
      | arr id =>
        simp only [W.setHeap, okW, Option.some.injEq, Outcome.ok.injEq] at h
        rw [← h]
        have := append_core id item hv2 i2
        by_cases hr : rcOf w2.c.heap id = 0 <;> simp only [hr, ne_eq, not_true_eq_false, not_false_eq_true, if_true, if_false] at this ⊢ <;> exact this
      | str id =>
        simp only [W.setHeap, okW, Option.some.injEq, Outcome.ok.injEq] at h
        rw [← h]
        have := append_core id item hv2 i2
        by_cases hr : rcOf w2.c.heap id = 0 <;> simp only [hr, ne_eq, not_true_eq_false, not_false_eq_true, if_true, if_false] at this ⊢ <;> exact this

theorem clearitems_inv {w w' : W} (inv : InvW w rest n) (h : execS .clearitems w = some (.ok w')) : InvW w' rest n := by
  simp only [execS] at h
  cases hp : w.pop with
  | none => simp [hp] at h
  | some r =>
    obtain ⟨elem, w1⟩ := r
    simp only [hp] at h
    obtain ⟨i1, _, _, _⟩ := pop_inv inv hp
    cases hc : elem.cid with
    | none => simp [hc] at h
    | some id =>
      simp only [hc, W.setHeap, okW, Option.some.injEq, Outcome.ok.injEq] at h
      rw [← h]
      by_cases hr : rcOf w1.c.heap id = 0
      · simp only [rcOf_setCh, hr, ne_eq, not_true_eq_false, if_false]
        exact inv_setCh_unref id [] hr (by intro x hx; cases hx) i1
      · simp only [rcOf_setCh, ne_eq, hr, not_false_eq_true, if_true]
        have i2 := inv_setCh_ref (f := fun j => cnt j w1.st + rest j) (n := w1.st.length + n) id [] hr
          (i1.congr (by intro j; simp) (by simp))
        exact (inv_remAll (chOf w1.c.heap id) i2).1

theorem popitem_inv {w w' : W} (inv : InvW w rest n) (h : execS .popitem w = some (.ok w')) : InvW w' rest n := by
  simp only [execS] at h
  cases hp : w.pop with
  | none => simp [hp] at h
  | some r =>
    obtain ⟨arr, w1⟩ := r
    simp only [hp] at h
    obtain ⟨i1, _, _, _⟩ := pop_inv inv hp
    have key : ∀ id, ∀ elem, (chOf w1.c.heap id).getLast? = some elem →
        InvW (if rcOf ((w1.push elem).setHeap (setCh (w1.push elem).c.heap id (chOf w1.c.heap id).dropLast)).c.heap id ≠ 0 then
            { ((w1.push elem).setHeap (setCh (w1.push elem).c.heap id (chOf w1.c.heap id).dropLast)) with
              c := ((w1.push elem).setHeap (setCh (w1.push elem).c.heap id (chOf w1.c.heap id).dropLast)).c.rem elem }
          else (w1.push elem).setHeap (setCh (w1.push elem).c.heap id (chOf w1.c.heap id).dropLast)) rest n := by
      intro id elem hl
      have hmem : elem ∈ chOf w1.c.heap id := List.mem_of_getLast? hl
      obtain ⟨i2, s2⟩ := push_inv i1 (chOf_valid i1 id elem hmem)
      have hch : chOf (w1.push elem).c.heap id = chOf w1.c.heap id := s2.2 id
      have hd := fun j => cnt_dropLast j (chOf w1.c.heap id) elem hl
      by_cases hr : rcOf (w1.push elem).c.heap id = 0
      · simp only [W.setHeap, rcOf_setCh, hr, ne_eq, not_true_eq_false, if_false]
        refine inv_setCh_unref id _ hr ?_ i2
        intro x hx
        exact chOf_valid i2 id x (by rw [hch]; exact List.dropLast_subset _ hx)
      · simp only [W.setHeap, rcOf_setCh, ne_eq, hr, not_false_eq_true, if_true]
        -- children: dropLast; the dropped child stays counted (as if in hand) until the final Remove
        have i3 := inv_setCh_gen (c := (w1.push elem).c) (g := fun j => (cnt j (w1.push elem).st + rest j) + cnt j [elem])
          (k := ((w1.push elem).st.length + n) + 1) id (chOf w1.c.heap id).dropLast hr
          (by intro x hx; exact chOf_valid i2 id x (by rw [hch]; exact List.dropLast_subset _ hx)) i2
          (by intro j; rw [hch]; have := (hd j).1; omega) (by rw [hch]; have := (hd 0).2; omega)
        exact (inv_rem elem i3).1
    cases arr with
    | prim => simp at h
    | map _ => simp at h
    | arr id =>
      simp only at h
      cases hl : (chOf w1.c.heap id).getLast? with
      | none => simp [hl] at h
      | some elem =>
        simp only [hl, okW, Option.some.injEq, Outcome.ok.injEq] at h
        rw [← h]; exact key id elem hl
    | str id =>
      simp only at h
      cases hl : (chOf w1.c.heap id).getLast? with
      | none => simp [hl] at h
      | some elem =>
        simp only [hl, okW, Option.some.injEq, Outcome.ok.injEq] at h
        rw [← h]; exact key id elem hl

theorem pickitem_inv {w : W} (i : Int) (inv : InvW w rest n) :
    ∀ out, execS (.pickitem i) w = some out → match out with | .ok w' => InvW w' rest n | .throw w' => InvW w' rest n := by
  intro out h
  simp only [execS] at h
  cases hp : w.pop with
  | none => simp [hp] at h
  | some r =>
    obtain ⟨key, w1⟩ := r
    simp only [hp] at h
    obtain ⟨i1, _, _, _⟩ := pop_inv inv hp
    cases hp2 : w1.pop with
    | none => simp [hp2] at h
    | some r2 =>
      obtain ⟨obj, w2⟩ := r2
      simp only [hp2] at h
      obtain ⟨i2, _, _, _⟩ := pop_inv i1 hp2
      by_cases hi : i < 0
      · simp only [hi, if_true, Option.some.injEq] at h
        rw [← h]; exact i2
      · simp only [hi, if_false] at h
        cases obj with
        | prim =>
          simp only [okW, Option.some.injEq] at h
          rw [← h]; exact (push_inv i2 (wfItem_prim _)).1
        | arr id =>
          simp only at h
          cases hg : (chOf w2.c.heap id)[i.toNat]? with
          | none => simp [hg] at h
          | some x =>
            simp only [hg, okW, Option.some.injEq] at h
            rw [← h]; exact (push_inv i2 (chOf_valid i2 id x (List.mem_of_getElem? hg))).1
        | str id =>
          simp only at h
          cases hg : (chOf w2.c.heap id)[i.toNat]? with
          | none => simp [hg] at h
          | some x =>
            simp only [hg, okW, Option.some.injEq] at h
            rw [← h]; exact (push_inv i2 (chOf_valid i2 id x (List.mem_of_getElem? hg))).1
        | map id =>
          simp only at h
          cases hg : (chOf w2.c.heap id)[2 * i.toNat + 1]? with
          | none => simp [hg] at h
          | some x =>
            simp only [hg, okW, Option.some.injEq] at h
            rw [← h]; exact (push_inv i2 (chOf_valid i2 id x (List.mem_of_getElem? hg))).1

theorem reverseitems_inv {w w' : W} (inv : InvW w rest n) (h : execS .reverseitems w = some (.ok w')) : InvW w' rest n := by
  simp only [execS] at h
  cases hp : w.pop with
  | none => simp [hp] at h
  | some r =>
    obtain ⟨item, w1⟩ := r
    simp only [hp] at h
    obtain ⟨i1, _, _, _⟩ := pop_inv inv hp
    have key : ∀ id, InvW (w1.setHeap (setCh w1.c.heap id (chOf w1.c.heap id).reverse)) rest n := by
      intro id
      have hv : ∀ x ∈ (chOf w1.c.heap id).reverse, WfItem w1.c.heap x :=
        fun x hx => chOf_valid i1 id x (List.mem_reverse.1 hx)
      by_cases hr : rcOf w1.c.heap id = 0
      · exact inv_setCh_unref id _ hr hv i1
      · exact inv_setCh_gen id _ hr hv i1 (by intro j; simp [cnt_reverse, W.setHeap]) (by simp [W.setHeap])
    cases item with
    | prim => simp only [okW, Option.some.injEq, Outcome.ok.injEq] at h; rw [← h]; exact i1
    | map _ => simp at h
    | arr id => simp only [okW, Option.some.injEq, Outcome.ok.injEq] at h; rw [← h]; exact key id
    | str id => simp only [okW, Option.some.injEq, Outcome.ok.injEq] at h; rw [← h]; exact key id

end NeoModel.VmAcct
