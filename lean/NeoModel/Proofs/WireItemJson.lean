/-
C17 — typed JSON form of stack items (Model/Wire/ItemJson.lean): base64 round trip, and
`FromJSONWithTypes (ToJSONWithTypes v) = v` at the level of JSON values.
-/
import NeoModel.Model.Wire.ItemJson
import NeoModel.Proofs.WireInt
namespace NeoModel.Wire
namespace B64

theorem index_char (i : Nat) (h : i < 64) : index (char i) = some i := by
  have : ∀ j : Fin 64, index (char j.val) = some j.val := by decide
  exact this ⟨i, h⟩

theorem char_ne_pad (i : Nat) (h : i < 64) : char i ≠ pad := by
  have : ∀ j : Fin 64, char j.val ≠ pad := by decide
  exact this ⟨i, h⟩

theorem char_ne_nl (i : Nat) (h : i < 64) : (char i != 0x0d && char i != 0x0a) = true := by
  have : ∀ j : Fin 64, (char j.val != 0x0d && char j.val != 0x0a) = true := by decide
  exact this ⟨i, h⟩

theorem ofNat_toNat (a : UInt8) : UInt8.ofNat a.toNat = a := by simp

theorem encode_mem : ∀ (n : Nat) (b : Bytes), b.length ≤ n → ∀ c ∈ encode b, (∃ i, i < 64 ∧ c = char i) ∨ c = pad := by
  intro n
  induction n using Nat.strongRecOn with
  | _ n ih =>
    intro b hb c hc
    match b with
    | [] => simp [encode] at hc
    | [a] =>
      have := a.toNat_lt
      simp only [encode, List.mem_cons, List.not_mem_nil, or_false] at hc
      rcases hc with h | h | h | h
      · exact Or.inl ⟨_, by omega, h⟩
      · exact Or.inl ⟨_, by omega, h⟩
      · exact Or.inr h
      · exact Or.inr h
    | [a, b] =>
      have := a.toNat_lt; have := b.toNat_lt
      simp only [encode, List.mem_cons, List.not_mem_nil, or_false] at hc
      rcases hc with h | h | h | h
      · exact Or.inl ⟨_, by omega, h⟩
      · exact Or.inl ⟨_, by omega, h⟩
      · exact Or.inl ⟨_, by omega, h⟩
      · exact Or.inr h
    | a :: b :: c' :: rest =>
      have := a.toNat_lt; have := b.toNat_lt; have := c'.toNat_lt
      simp only [encode, List.mem_cons] at hc
      simp only [List.length_cons] at hb
      rcases hc with h | h | h | h | h
      · exact Or.inl ⟨_, by omega, h⟩
      · exact Or.inl ⟨_, by omega, h⟩
      · exact Or.inl ⟨_, by omega, h⟩
      · exact Or.inl ⟨_, by omega, h⟩
      · exact ih rest.length (by omega) rest (Nat.le_refl _) c h

theorem encode_no_nl (b : Bytes) : (encode b).filter (fun c => c != 0x0d && c != 0x0a) = encode b := by
  rw [List.filter_eq_self]
  intro c hc
  rcases encode_mem b.length b (Nat.le_refl _) c hc with ⟨i, hi, rfl⟩ | rfl
  · exact char_ne_nl i hi
  · decide

theorem recombine (N : Nat) : N / 262144 * 262144 + N / 4096 % 64 * 4096 + N / 64 % 64 * 64 + N % 64 = N := by omega

theorem split3 (a b c N : Nat) (ha : a < 256) (hb : b < 256) (hc : c < 256) (hn : a * 65536 + b * 256 + c = N) :
    N / 65536 = a ∧ N / 256 % 256 = b ∧ N % 256 = c ∧ N < 16777216 := by omega

theorem decodeQuanta_encode : ∀ (n : Nat) (b : Bytes), b.length ≤ n → decodeQuanta (encode b) = some b := by
  intro n
  induction n using Nat.strongRecOn with
  | _ n ih =>
    intro b hb
    match b with
    | [] => rfl
    | [a] =>
      have ha := a.toNat_lt
      simp only [encode, decodeQuanta]
      rw [index_char _ (by omega), index_char _ (by omega)]
      simp only [and_self, if_true]
      have : (a.toNat * 65536 / 262144 * 64 + a.toNat * 65536 / 4096 % 64) / 16 = a.toNat := by omega
      rw [this, ofNat_toNat]
    | [a, b] =>
      have ha := a.toNat_lt; have hb' := b.toNat_lt
      simp only [encode, decodeQuanta]
      rw [index_char _ (by omega), index_char _ (by omega)]
      have hne : ¬ char ((a.toNat * 65536 + b.toNat * 256) / 64 % 64) = pad := char_ne_pad _ (by omega)
      simp only [hne, false_and, if_false]
      rw [index_char _ (by omega)]
      simp only [if_true]
      have e1 : ((a.toNat * 65536 + b.toNat * 256) / 262144 * 4096 + (a.toNat * 65536 + b.toNat * 256) / 4096 % 64 * 64
          + (a.toNat * 65536 + b.toNat * 256) / 64 % 64) / 1024 = a.toNat := by omega
      have e2 : ((a.toNat * 65536 + b.toNat * 256) / 262144 * 4096 + (a.toNat * 65536 + b.toNat * 256) / 4096 % 64 * 64
          + (a.toNat * 65536 + b.toNat * 256) / 64 % 64) / 4 % 256 = b.toNat := by omega
      rw [e1, e2, ofNat_toNat, ofNat_toNat]
    | a :: b :: c :: rest =>
      have ha := a.toNat_lt; have hb' := b.toNat_lt; have hc := c.toNat_lt
      simp only [List.length_cons] at hb
      have hrec := ih rest.length (by omega) rest (Nat.le_refl _)
      generalize hn : a.toNat * 65536 + b.toNat * 256 + c.toNat = N
      obtain ⟨d1, d2, d3, hN⟩ := split3 a.toNat b.toNat c.toNat N ha hb' hc hn
      have e1 := recombine N
      cases hr : encode rest with
      | nil =>
        simp only [encode, hn, hr, decodeQuanta]
        rw [index_char _ (by omega), index_char _ (by omega)]
        have hne : ¬ (char (N / 64 % 64) = pad ∧ char (N % 64) = pad) := fun h => char_ne_pad _ (by omega) h.1
        simp only [hne, if_false]
        rw [index_char _ (by omega)]
        have hne2 : ¬ char (N % 64) = pad := char_ne_pad _ (by omega)
        simp only [hne2, if_false]
        rw [index_char _ (by omega)]
        simp only [e1, d1, d2, d3, ofNat_toNat]
        rw [hr] at hrec
        simp [decodeQuanta] at hrec
        rw [← hrec]
      | cons x xs =>
        simp only [encode, hn, hr, decodeQuanta]
        rw [index_char _ (by omega), index_char _ (by omega), index_char _ (by omega), index_char _ (by omega)]
        simp only [e1, d1, d2, d3, ofNat_toNat]
        rw [← hr, hrec]

/-- base64 round trip: `DecodeString (EncodeToString b) = b`. -/
theorem decode_encode (b : Bytes) : decode (encode b) = some b := by
  unfold decode
  rw [encode_no_nl b]
  exact decodeQuanta_encode b.length b (Nat.le_refl _)

end B64
end NeoModel.Wire

namespace NeoModel.Wire
open NeoModel.Generated

def kType : Bytes := [0x74, 0x79, 0x70, 0x65]
def kValue : Bytes := [0x76, 0x61, 0x6c, 0x75, 0x65]
def kKey : Bytes := [0x6b, 0x65, 0x79]

mutual
/-- the JSON value `ToJSONWithTypes` writes (what `Json.parse` makes of `jsonTypedText`). -/
def toJ : Item → JVal
  | .null => .obj [(kType, .str [0x41, 0x6e, 0x79])]
  | .interop => .obj [(kType, .str [0x49, 0x6e, 0x74, 0x65, 0x72, 0x6f, 0x70, 0x49, 0x6e, 0x74, 0x65, 0x72, 0x66, 0x61, 0x63, 0x65])]
  | .invalid => .null
  | .bool b => .obj [(kType, .str [0x42, 0x6f, 0x6f, 0x6c, 0x65, 0x61, 0x6e]), (kValue, .bool b)]
  | .byteArray b => .obj [(kType, .str [0x42, 0x79, 0x74, 0x65, 0x53, 0x74, 0x72, 0x69, 0x6e, 0x67]), (kValue, .str (B64.encode b))]
  | .buffer b => .obj [(kType, .str [0x42, 0x75, 0x66, 0x66, 0x65, 0x72]), (kValue, .str (B64.encode b))]
  | .int c => .obj [(kType, .str [0x49, 0x6e, 0x74, 0x65, 0x67, 0x65, 0x72]), (kValue, .str (showInt (Item.intFromLE c)))]
  | .pointer p => .obj [(kType, .str [0x50, 0x6f, 0x69, 0x6e, 0x74, 0x65, 0x72]), (kValue, .num (showInt p))]
  | .array l => .obj [(kType, .str [0x41, 0x72, 0x72, 0x61, 0x79]), (kValue, .arr (toJList l))]
  | .struct l => .obj [(kType, .str [0x53, 0x74, 0x72, 0x75, 0x63, 0x74]), (kValue, .arr (toJList l))]
  | .map m => .obj [(kType, .str [0x4d, 0x61, 0x70]), (kValue, .arr (toJPairs m))]
def toJList : List Item → List JVal
  | [] => []
  | x :: xs => toJ x :: toJList xs
def toJPairs : List (Item × Item) → List JVal
  | [] => []
  | (k, v) :: rest => .obj [(kKey, toJ k), (kValue, toJ v)] :: toJPairs rest
end

/-- decimal printing and parsing are inverse (strconv / math/big text conversion: not modelled, the one fact used). -/
def DecimalOK : Prop := ∀ n : Int, parseBigInt (showInt n) = some n ∧ (showInt n).head? ≠ some 0x2b

mutual
/-- the items the typed JSON form carries faithfully: no nil; integers as the decoder builds them (canonical bytes of
a number within ±2^255); pointers within int64; map keys primitive, ≤ 64 bytes, pairwise different. -/
def wfJ : Item → Prop
  | .invalid => False
  | .int c => ∃ n : Int, intFits n = true ∧ c = Item.intToLE n
  | .pointer p => p < 2 ^ 63
  | .array l => wfJList l
  | .struct l => wfJList l
  | .map m => wfJPairs m ∧ Item.keysOkB [] m = true
  | _ => True
def wfJList : List Item → Prop
  | [] => True
  | x :: xs => wfJ x ∧ wfJList xs
def wfJPairs : List (Item × Item) → Prop
  | [] => True
  | (k, v) :: rest => wfJ k ∧ wfJ v ∧ wfJPairs rest
end

theorem intFromLE_intToLE (n : Int) (h : intFits n = true) : Item.intFromLE (Item.intToLE n) = n := by
  unfold Item.intToLE
  rw [Item.intFromLE_canonInt]
  simp only [intFits, Bool.and_eq_true, decide_eq_true_eq] at h
  have e1 : ((2 ^ 255 : Nat) : Int) = 57896044618658097711785492504343953926634992332820282019728792003956564819968 := by decide
  have e2 : ((256 ^ 32 * 128 : Nat) : Int)
      = 14821387422376473014217086081112052205218558037201992197050570753012880593911808 := by decide
  rw [e1] at h
  exact intFromLE_leBytes 32 n (by rw [e2]; omega) (by rw [e2]; omega)

theorem keyIs_type_type : keyIs [0x74, 0x79, 0x70, 0x65] kType = true := by decide
theorem keyIs_type_value : keyIs [0x74, 0x79, 0x70, 0x65] kValue = false := by decide
theorem keyIs_value_type : keyIs [0x76, 0x61, 0x6c, 0x75, 0x65] kType = false := by decide
theorem keyIs_value_value : keyIs [0x76, 0x61, 0x6c, 0x75, 0x65] kValue = true := by decide
theorem keyIs_key_key : keyIs [0x6b, 0x65, 0x79] kKey = true := by decide
theorem keyIs_key_value : keyIs [0x6b, 0x65, 0x79] kValue = false := by decide
theorem keyIs_value_key : keyIs [0x76, 0x61, 0x6c, 0x75, 0x65] kKey = false := by decide

theorem typeField_two (name : Bytes) (v : JVal) : typeField [(kType, .str name), (kValue, v)] [] = some name := by
  simp [typeField, keyIs_type_type, keyIs_type_value]

theorem typeField_one (name : Bytes) : typeField [(kType, .str name)] [] = some name := by
  simp [typeField, keyIs_type_type]

theorem rawField_value_two (name : Bytes) (v : JVal) :
    rawField [0x76, 0x61, 0x6c, 0x75, 0x65] [(kType, .str name), (kValue, v)] none = some v := by
  simp [rawField, keyIs_value_type, keyIs_value_value]

theorem asMapElems_toJPairs (m : List (Item × Item)) :
    asMapElems (toJPairs m) = some (m.map fun p => (some (toJ p.1), some (toJ p.2))) := by
  induction m with
  | nil => rfl
  | cons p rest ih =>
    obtain ⟨k, v⟩ := p
    simp [toJPairs, asMapElems, ih, rawField, keyIs_key_key, keyIs_key_value, keyIs_value_key, keyIs_value_value]

theorem mapKeyOk_of_keyCode (k : Item) (c : Nat × Bytes) (h : Item.keyCode k = some c) : mapKeyOk k = true := by
  cases k <;> simp [Item.keyCode] at h <;> simp [mapKeyOk]
  exact h.1

theorem asInt_show (hd : DecimalOK) (p : Nat) (h : p < 2 ^ 63) : asInt (some (.num (showInt p))) = some (p : Int) := by
  have h1 := (hd p).1
  have h2 := (hd p).2
  unfold asInt
  simp only [h1]
  rw [if_neg h2]
  have e : ((2 ^ 63 : Nat) : Int) = 9223372036854775808 := by decide
  have hlt : (p : Int) < 9223372036854775808 := by
    have : (p : Int) < ((2 ^ 63 : Nat) : Int) := by exact_mod_cast h
    rw [e] at this; exact this
  have hge : (0 : Int) ≤ (p : Int) := Int.natCast_nonneg p
  have hfit : (decide (-((2 ^ 63 : Nat) : Int) ≤ (p : Int)) && decide ((p : Int) < ((2 ^ 63 : Nat) : Int))) = true := by
    simp only [Bool.and_eq_true, decide_eq_true_eq]
    rw [e]; constructor <;> omega
  rw [if_pos hfit]

/-- `FromJSONWithTypes (ToJSONWithTypes v) = v` at the level of JSON values, for every item the form carries. -/
theorem fromJ_toJ (hd : DecimalOK) : ∀ n v, Item.count v ≤ n → wfJ v → ∀ fuel, 2 * Item.count v ≤ fuel →
    fromJ false fuel (some (toJ v)) = .ok v := by
  intro n
  induction n with
  | zero => intro v hc _ _ _; have := Item.count_pos v; omega
  | succ n ih =>
    -- lists and pairs of smaller items
    have ihL : ∀ (l : List Item), Item.countList l ≤ n → wfJList l → ∀ fuel, 2 * Item.countList l + 1 ≤ fuel →
        fromJList false fuel (toJList l) = .ok l := by
      intro l
      induction l with
      | nil => intro _ _ fuel hf; cases fuel with
        | zero => omega
        | succ f => rfl
      | cons x xs ihl =>
        intro hc hw fuel hf
        simp only [Item.countList] at hc hf
        simp only [wfJList] at hw
        have := Item.count_pos x
        obtain ⟨f, rfl⟩ : ∃ f, fuel = f + 1 := ⟨fuel - 1, by omega⟩
        simp only [toJList, fromJList]
        rw [ih x (by omega) hw.1 f (by omega)]
        simp only [Out.bind]
        rw [ihl (by omega) hw.2 f (by omega)]
    have ihP : ∀ (m : List (Item × Item)) (acc : List (Item × Item)) (seen : List (Nat × Bytes)),
        Item.countPairs m ≤ n → wfJPairs m → (∀ p ∈ acc, ∃ c, Item.keyCode p.1 = some c ∧ c ∈ seen) →
        Item.keysOkB seen m = true → ∀ fuel, 2 * Item.countPairs m + 1 ≤ fuel →
        fromJPairs false fuel (m.map fun p => (some (toJ p.1), some (toJ p.2))) acc = .ok (acc ++ m) := by
      intro m
      induction m with
      | nil => intro acc _ _ _ _ _ fuel hf; cases fuel with
        | zero => omega
        | succ f => simp [fromJPairs]
      | cons p rest ihm =>
        obtain ⟨k, v⟩ := p
        intro acc seen hc hw hacc hk fuel hf
        simp only [Item.countPairs] at hc hf
        simp only [wfJPairs] at hw
        have := Item.count_pos k; have := Item.count_pos v
        obtain ⟨f, rfl⟩ : ∃ f, fuel = f + 1 := ⟨fuel - 1, by omega⟩
        simp only [Item.keysOkB] at hk
        cases hkc : Item.keyCode k with
        | none => rw [hkc] at hk; simp at hk
        | some c =>
          rw [hkc] at hk
          simp only [Bool.and_eq_true, Bool.not_eq_true', List.contains_eq_mem, decide_eq_false_iff_not] at hk
          obtain ⟨hnot, hrest⟩ := hk
          simp only [List.map_cons, fromJPairs]
          rw [ih k (by omega) hw.1 f (by omega)]
          simp only [Out.bind, mapKeyOk_of_keyCode k c hkc, Bool.not_true, Bool.false_eq_true, if_false]
          rw [ih v (by omega) hw.2.1 f (by omega)]
          simp only [Out.bind]
          have hadd : Item.mapAdd acc k v = acc ++ [(k, v)] := by
            apply Item.mapAdd_append
            intro q hq he
            obtain ⟨c', hc', hm⟩ := hacc q hq
            rw [hc', hkc] at he
            cases he
            exact hnot hm
          rw [hadd]
          have hacc' : ∀ q ∈ acc ++ [(k, v)], ∃ c', Item.keyCode q.1 = some c' ∧ c' ∈ c :: seen := by
            intro q hq
            simp at hq
            rcases hq with hq | hq
            · obtain ⟨c', hc', hm⟩ := hacc q hq
              exact ⟨c', hc', by simp [hm]⟩
            · subst hq; exact ⟨c, hkc, by simp⟩
          rw [ihm (acc ++ [(k, v)]) (c :: seen) (by omega) hw.2.2 hacc' hrest f (by omega)]
          simp
    intro v hc hw fuel hf
    have hpos := Item.count_pos v
    obtain ⟨f, rfl⟩ : ∃ f, fuel = f + 1 := ⟨fuel - 1, by omega⟩
    cases v with
    | null => simp [toJ, fromJ, typeField_one]
    | interop => simp [toJ, fromJ, typeField_one]
    | invalid => simp [wfJ] at hw
    | bool b => simp [toJ, fromJ, typeField_two, rawField_value_two, asBool]
    | byteArray b => simp [toJ, fromJ, typeField_two, rawField_value_two, asString, B64.decode_encode]
    | buffer b => simp [toJ, fromJ, typeField_two, rawField_value_two, asString, B64.decode_encode]
    | int c =>
      simp only [wfJ] at hw
      obtain ⟨m, hm1, rfl⟩ := hw
      simp [toJ, fromJ, typeField_two, rawField_value_two, asString, intFromLE_intToLE m hm1, (hd m).1, hm1]
    | pointer p =>
      simp only [wfJ] at hw
      simp [toJ, fromJ, typeField_two, rawField_value_two, asInt_show hd p hw]
    | array l =>
      simp only [Item.count] at hc hf
      simp only [wfJ] at hw
      simp [toJ, fromJ, typeField_two, rawField_value_two, asArray, ihL l (by omega) hw f (by omega), Out.bind]
    | struct l =>
      simp only [Item.count] at hc hf
      simp only [wfJ] at hw
      simp [toJ, fromJ, typeField_two, rawField_value_two, asArray, ihL l (by omega) hw f (by omega), Out.bind]
    | map m =>
      simp only [Item.count] at hc hf
      simp only [wfJ] at hw
      have := ihP m [] [] (by omega) hw.1 (by simp) hw.2 f (by omega)
      simp [toJ, fromJ, typeField_two, rawField_value_two, asArray, asMapElems_toJPairs, this, Out.bind]

/-! ### totality: an error, never a panic (after fix ea79830) -/

theorem Out.bind_ne_panic {α β : Type} (x : Out α) (f : α → Out β) (hx : x ≠ .panic) (hf : ∀ a, f a ≠ .panic) :
    x.bind f ≠ .panic := by
  cases x with
  | ok v => exact hf v
  | err => simp [Out.bind]
  | panic => exact absurd rfl hx

theorem fromJ_total : ∀ fuel,
    (∀ jv, fromJ false fuel jv ≠ .panic) ∧ (∀ l, fromJList false fuel l ≠ .panic)
      ∧ (∀ es acc, fromJPairs false fuel es acc ≠ .panic) := by
  intro fuel
  induction fuel with
  | zero =>
    refine ⟨fun jv => by simp [fromJ], fun l => by simp [fromJList], fun es acc => by simp [fromJPairs]⟩
  | succ fuel ih =>
    obtain ⟨ihV, ihL, ihP⟩ := ih
    refine ⟨?_, ?_, ?_⟩
    · intro jv
      unfold fromJ
      split
      · split
        · simp
        · simp only []
          repeat' split
          all_goals first
            | contradiction
            | (intro h; cases h)
            | exact Out.bind_ne_panic _ _ (ihL _) (fun _ => by intro h; cases h)
            | exact Out.bind_ne_panic _ _ (ihP _ _) (fun _ => by intro h; cases h)
      · simp
    · intro l
      cases l with
      | nil => simp [fromJList]
      | cons x xs =>
        simp only [fromJList]
        exact Out.bind_ne_panic _ _ (ihV _) (fun v => Out.bind_ne_panic _ _ (ihL _) (fun _ => by intro h; cases h))
    · intro es acc
      cases es with
      | nil => simp [fromJPairs]
      | cons p rest =>
        obtain ⟨k, v⟩ := p
        simp only [fromJPairs]
        refine Out.bind_ne_panic _ _ (ihV _) (fun kt => ?_)
        split
        · intro h; cases h
        · exact Out.bind_ne_panic _ _ (ihV _) (fun _ => ihP _ _)

end NeoModel.Wire
