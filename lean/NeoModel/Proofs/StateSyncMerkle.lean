/-
C20 (b) helper lemmas: the Merkle root commits to the transaction list up to repeated elements; the body
check of statesync's AddBlock accepts only the block's own list (symbolic hashes, then transferred to hash
values under collision-freeness).
-/
import NeoModel.Model.StateSync
import Mathlib.Data.List.Nodup
import Mathlib.Data.Nat.Pairing
namespace NeoModel.StateSync


def MTree.depth : MTree → Nat
  | .zero => 0
  | .leaf _ => 0
  | .node l _ => l.depth + 1

/-- all trees of one level: same depth, none is the zero hash -/
def Uniform (d : Nat) (l : List MTree) : Prop := ∀ t ∈ l, t.depth = d ∧ t ≠ .zero

theorem mem_pairUp (l : List MTree) (t : MTree) (h : t ∈ pairUp l) : ∃ x y, t = .node x y ∧ x ∈ l := by
  fun_induction pairUp l with
  | case1 => cases h
  | case2 a => simp at h; exact ⟨a, a, h, by simp⟩
  | case3 a b r ih =>
    simp only [List.mem_cons] at h
    rcases h with rfl | h
    · exact ⟨a, b, rfl, by simp⟩
    · obtain ⟨x, y, e, hx⟩ := ih h; exact ⟨x, y, e, by simp [hx]⟩

theorem length_pairUp (l : List MTree) : (pairUp l).length = (l.length + 1) / 2 := by
  fun_induction pairUp l with
  | case1 => rfl
  | case2 a => simp
  | case3 a b r ih => simp only [List.length_cons, ih]; omega

theorem uniform_pairUp (d : Nat) (l : List MTree) (h : Uniform d l) : Uniform (d + 1) (pairUp l) := by
  intro t ht
  fun_induction pairUp l with
  | case1 => cases ht
  | case2 a => simp at ht; subst ht; exact ⟨by simp [MTree.depth, (h a (by simp)).1], by simp⟩
  | case3 a b r ih =>
    simp only [List.mem_cons] at ht
    rcases ht with rfl | ht
    · exact ⟨by simp [MTree.depth, (h a (by simp)).1], by simp⟩
    · exact ih (fun t ht => h t (by simp [ht])) ht

theorem nodup_pairUp (l : List MTree) (h : l.Nodup) : (pairUp l).Nodup := by
  fun_induction pairUp l with
  | case1 => simp
  | case2 a => simp
  | case3 a b r ih =>
    rw [List.nodup_cons] at h ⊢
    obtain ⟨ha, hr⟩ := h
    rw [List.nodup_cons] at hr
    refine ⟨?_, ih hr.2⟩
    intro hm
    obtain ⟨x, y, e, hx⟩ := mem_pairUp r _ hm
    cases e
    exact ha (by simp [hx])

/-- `pairUp` is injective up to the duplication of the last element. -/
theorem pairUp_inj (l1 l2 : List MTree) (h : pairUp l1 = pairUp l2) : l1 = l2 ∨ ¬ l1.Nodup ∨ ¬ l2.Nodup := by
  fun_induction pairUp l1 generalizing l2 with
  | case1 =>
    match l2, h with
    | [], _ => exact .inl rfl
    | [_], h => simp [pairUp] at h
    | _ :: _ :: _, h => simp [pairUp] at h
  | case2 a =>
    match l2, h with
    | [], h => simp [pairUp] at h
    | [x], h => simp [pairUp] at h; exact .inl (by rw [h])
    | x :: y :: r, h =>
      simp [pairUp] at h
      obtain ⟨⟨rfl, rfl⟩, _⟩ := h
      exact .inr (.inr (by simp))
  | case3 a b r ih =>
    match l2, h with
    | [], h => simp [pairUp] at h
    | [x], h =>
      simp [pairUp] at h
      obtain ⟨⟨rfl, rfl⟩, _⟩ := h
      exact .inr (.inl (by simp))
    | x :: y :: r2, h =>
      simp only [pairUp, List.cons.injEq, MTree.node.injEq] at h
      obtain ⟨⟨rfl, rfl⟩, hr⟩ := h
      rcases ih r2 hr with h1 | h1 | h1
      · exact .inl (by rw [h1])
      · exact .inr (.inl (fun hn => h1 ((List.nodup_cons.1 (List.nodup_cons.1 hn).2).2)))
      · exact .inr (.inr (fun hn => h1 ((List.nodup_cons.1 (List.nodup_cons.1 hn).2).2)))

theorem calcMerkle_two (f : Nat) (a b : MTree) (r : List MTree) :
    calcMerkle (f + 1) (a :: b :: r) = calcMerkle f (pairUp (a :: b :: r)) := rfl

theorem calcMerkle_depth (d f : Nat) (l : List MTree) (hu : Uniform d l) (hne : l ≠ []) (hf : l.length ≤ f) :
    d ≤ (calcMerkle f l).depth ∧ calcMerkle f l ≠ .zero := by
  induction f generalizing d l with
  | zero => cases l with
    | nil => exact absurd rfl hne
    | cons a r => simp at hf
  | succ f ih =>
    match l, hne, hf, hu with
    | [a], _, _, hu => simp only [calcMerkle]; exact ⟨Nat.le_of_eq (hu a (by simp)).1.symm, (hu a (by simp)).2⟩
    | a :: b :: r, _, hf, hu =>
      rw [calcMerkle_two]
      have hl := length_pairUp (a :: b :: r)
      have := ih (d + 1) (pairUp (a :: b :: r)) (uniform_pairUp d _ hu) (by simp [pairUp])
        (by rw [hl]; simp only [List.length_cons] at hf ⊢; omega)
      exact ⟨by omega, this.2⟩

/-- The Merkle root commits to the list up to repeated elements (symbolic hashes). -/
theorem calcMerkle_inj (d f1 f2 : Nat) (l1 l2 : List MTree) (h1 : Uniform d l1) (h2 : Uniform d l2)
    (hf1 : l1.length ≤ f1) (hf2 : l2.length ≤ f2) (he : calcMerkle f1 l1 = calcMerkle f2 l2) :
    l1 = l2 ∨ ¬ l1.Nodup ∨ ¬ l2.Nodup := by
  induction f1 generalizing d f2 l1 l2 with
  | zero =>
    cases l1 with
    | cons a r => simp at hf1
    | nil =>
      cases l2 with
      | nil => exact .inl rfl
      | cons b r2 =>
        have := (calcMerkle_depth d f2 (b :: r2) h2 (by simp) hf2).2
        rw [← he] at this; simp [calcMerkle] at this
  | succ f1 ih =>
    match l1, hf1, h1, he with
    | [], _, _, he =>
      cases l2 with
      | nil => exact .inl rfl
      | cons b r2 =>
        have := (calcMerkle_depth d f2 (b :: r2) h2 (by simp) hf2).2
        rw [← he] at this; simp [calcMerkle] at this
    | [a], _, h1, he =>
      match l2, hf2, h2, he with
      | [], _, _, he => simp only [calcMerkle] at he; exact absurd he (h1 a (by simp)).2
      | [b], _, _, he =>
        cases f2 <;> simp only [calcMerkle] at he <;> exact .inl (by rw [he])
      | b :: c :: r2, hf2, h2, he =>
        exfalso
        cases f2 with
        | zero => simp at hf2
        | succ f2 =>
          rw [calcMerkle_two] at he
          have hl := length_pairUp (b :: c :: r2)
          have := (calcMerkle_depth (d + 1) f2 (pairUp (b :: c :: r2)) (uniform_pairUp d _ h2) (by simp [pairUp])
            (by rw [hl]; simp only [List.length_cons] at hf2 ⊢; omega)).1
          rw [← he] at this
          simp only [calcMerkle] at this
          have := (h1 a (by simp)).1
          omega
    | a :: b :: r, hf1, h1, he =>
      match l2, hf2, h2, he with
      | [], _, _, he =>
        have := (calcMerkle_depth d (f1 + 1) (a :: b :: r) h1 (by simp) hf1).2
        rw [he] at this; simp [calcMerkle] at this
      | [c], _, h2, he =>
        exfalso
        rw [calcMerkle_two] at he
        have hl := length_pairUp (a :: b :: r)
        have := (calcMerkle_depth (d + 1) f1 (pairUp (a :: b :: r)) (uniform_pairUp d _ h1) (by simp [pairUp])
          (by rw [hl]; simp only [List.length_cons] at hf1 ⊢; omega)).1
        rw [he] at this
        have hc := (h2 c (by simp)).1
        cases f2 <;> simp only [calcMerkle] at this <;> omega
      | c :: e :: r2, hf2, h2, he =>
        cases f2 with
        | zero => simp at hf2
        | succ f2 =>
          rw [calcMerkle_two, calcMerkle_two] at he
          have hl1 := length_pairUp (a :: b :: r)
          have hl2 := length_pairUp (c :: e :: r2)
          rcases ih (d + 1) f2 _ _ (uniform_pairUp d _ h1) (uniform_pairUp d _ h2)
            (by rw [hl1]; simp only [List.length_cons] at hf1 ⊢; omega)
            (by rw [hl2]; simp only [List.length_cons] at hf2 ⊢; omega) he with h | h | h
          · exact pairUp_inj _ _ h
          · exact .inr (.inl (fun hn => h (nodup_pairUp _ hn)))
          · exact .inr (.inr (fun hn => h (nodup_pairUp _ hn)))

theorem noRepeat_iff (l : List Nat) : noRepeat l = true ↔ l.Nodup := by
  induction l with
  | nil => simp [noRepeat]
  | cons a r ih => simp [noRepeat, ih, List.nodup_cons]

/-- Only the block's own transaction list passes the body check. -/
theorem acceptsBody_iff' (orig body : List Nat) (ho : orig.Nodup) :
    acceptsBody orig body = true ↔ body = orig := by
  constructor
  · intro h
    simp only [acceptsBody, merkleMatches, Bool.and_eq_true, beq_iff_eq, noRepeat_iff] at h
    obtain ⟨hm, hn⟩ := h
    have hu : ∀ l : List Nat, Uniform 0 (l.map .leaf) := by
      intro l t ht; simp only [List.mem_map] at ht; obtain ⟨i, _, rfl⟩ := ht; exact ⟨rfl, by simp⟩
    have hinj : Function.Injective MTree.leaf := fun a b e => by cases e; rfl
    rcases calcMerkle_inj 0 _ _ _ _ (hu body) (hu orig) (by simp) (by simp) hm with h | h | h
    · exact hinj.list_map h
    · exact absurd (hn.map hinj) h
    · exact absurd (ho.map hinj) h
  · rintro rfl
    simp only [acceptsBody, merkleMatches, Bool.and_eq_true, beq_iff_eq, noRepeat_iff]
    exact ⟨by simp, ho⟩



/-- The hash value of a symbolic Merkle term. -/
def MTree.eval (txh : Nat → Nat) (h2 : Nat → Nat → Nat) (z : Nat) : MTree → Nat
  | .zero => z
  | .leaf i => txh i
  | .node l r => h2 (l.eval txh h2 z) (r.eval txh h2 z)

theorem pairUpH_eval (txh : Nat → Nat) (h2 : Nat → Nat → Nat) (z : Nat) (l : List MTree) :
    pairUpH h2 (l.map (MTree.eval txh h2 z)) = (pairUp l).map (MTree.eval txh h2 z) := by
  fun_induction pairUp l with
  | case1 => rfl
  | case2 a => rfl
  | case3 a b r ih => simp only [List.map_cons, pairUpH, ih, MTree.eval]

theorem calcMerkleH_eval (txh : Nat → Nat) (h2 : Nat → Nat → Nat) (z : Nat) (f : Nat) (l : List MTree) :
    calcMerkleH h2 z f (l.map (MTree.eval txh h2 z)) = (calcMerkle f l).eval txh h2 z := by
  induction f generalizing l with
  | zero =>
    match l with
    | [] => rfl
    | [a] => rfl
    | a :: b :: r => rfl
  | succ f ih =>
    match l with
    | [] => rfl
    | [a] => rfl
    | a :: b :: r =>
      show calcMerkleH h2 z f (pairUpH h2 ((a :: b :: r).map (MTree.eval txh h2 z))) = _
      rw [pairUpH_eval, ih]; rfl

theorem noRepeatH_iff (l : List Nat) : noRepeatH l = true ↔ l.Nodup := by
  induction l with
  | nil => simp [noRepeatH]
  | cons a r ih => simp [noRepeatH, ih, List.nodup_cons]

/-- Collision-freeness of the hashes involved: different Merkle terms (leaves = transactions, inner nodes,
the zero hash) have different hash values. -/
def CollisionFree (txh : Nat → Nat) (h2 : Nat → Nat → Nat) (z : Nat) : Prop :=
  ∀ a b : MTree, a.eval txh h2 z = b.eval txh h2 z → a = b

theorem acceptsBodyH_iff' (txh : Nat → Nat) (h2 : Nat → Nat → Nat) (z : Nat) (hcf : CollisionFree txh h2 z)
    (orig body : List Nat) (ho : orig.Nodup) : acceptsBodyH txh h2 z orig body = true ↔ body = orig := by
  have htx : Function.Injective txh := fun a b e => by
    have := hcf (.leaf a) (.leaf b) e; cases this; rfl
  have hmap : ∀ l : List Nat, l.map txh = (l.map MTree.leaf).map (MTree.eval txh h2 z) := by
    intro l; simp [List.map_map, Function.comp_def, MTree.eval]
  rw [← acceptsBody_iff' orig body ho]
  simp only [acceptsBodyH, acceptsBody, merkleMatches, Bool.and_eq_true, beq_iff_eq, noRepeatH_iff, noRepeat_iff]
  rw [hmap body, hmap orig, calcMerkleH_eval, calcMerkleH_eval]
  constructor
  · rintro ⟨h1, h2'⟩
    refine ⟨hcf _ _ h1, ?_⟩
    rw [← hmap body] at h2'
    exact List.Nodup.of_map _ h2'
  · rintro ⟨h1, h2'⟩
    refine ⟨by rw [h1], ?_⟩
    rw [← hmap body]
    exact h2'.map htx



/-- The collision-freeness hypothesis is satisfiable (odd numbers for transactions, an injective pairing
into positive even numbers for inner nodes, 0 for the zero hash). -/
theorem collisionFree_example :
    CollisionFree (fun i => 2 * i + 1) (fun a b => 2 * Nat.pair a b + 2) 0 := by
  intro a
  induction a with
  | zero => intro b h; cases b <;> simp [MTree.eval] at h ⊢
  | leaf i => intro b h; cases b <;> simp [MTree.eval] at h ⊢ <;> omega
  | node l r ihl ihr =>
    intro b h
    cases b with
    | zero => simp [MTree.eval] at h
    | leaf j => simp [MTree.eval] at h; omega
    | node l2 r2 =>
      simp only [MTree.eval] at h
      have h' := Nat.eq_of_mul_eq_mul_left (by decide : 0 < 2) (Nat.add_right_cancel h)
      have := Nat.pair_eq_pair.1 h'
      rw [ihl l2 this.1, ihr r2 this.2]

end NeoModel.StateSync
