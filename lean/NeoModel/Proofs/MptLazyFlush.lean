/-
Flush, Collapse and reopening from the root hash keep the representation relation.
-/
import NeoModel.Proofs.MptLazyWrite
import NeoModel.Proofs.MptProofs
namespace NeoModel.Mpt

variable {H : Bytes → Bytes} {S S' : LStore}

/-! ### loading what Flush wrote -/

theorem toNib_nibByte (a : Nib) : toNib? (nibByte a) = some a := by
  unfold toNib?
  have h := nibByte_toNat a
  have : (nibByte a).toNat < 16 := by rw [h]; exact a.isLt
  simp only [this, dite_true]
  congr 1
  exact Fin.ext h

theorem toPath_map (k : Path) : toPath? (k.map nibByte) = some k := by
  induction k with
  | nil => rfl
  | cons a k ih => simp [toPath?, toNib_nibByte, ih]

theorem ofP_pref (n : Node) : ofP (pref H n) = some (lref H n) := by
  unfold pref lref; split <;> rfl

theorem ofP_pslot (v : Option Val) : ofP (pslot H v) = some (lref H (slotNode v)) := by
  cases v <;> simp [pslot, slotNode, lref, Node.isEmpty, ofP, hash, enc]

theorem ofP_shallow (n : Node) : ofP (shallow H n) = some (lshallow H n) := by
  cases n with
  | empty => rfl
  | leaf v => rfl
  | ext k m => simp [shallow, ofP, toPath_map, ofP_pref, lshallow]
  | branch cs v =>
    have hall : (List.finRange 17).all (fun i => (ofP ((prefs H cs v).getD i.val PNode.empty)).isSome) = true := by
      rw [List.all_eq_true]
      intro i _
      refine Fin.lastCases ?_ (fun j => ?_) i
      · rw [prefs_slot, ofP_pslot]; rfl
      · rw [prefs_kid, ofP_pref]; rfl
    simp only [shallow, ofP, hall, if_true, lshallow]
    congr 2
    · funext i; rw [prefs_kid, ofP_pref]; rfl
    · rw [prefs_slot, ofP_pslot]; rfl

theorem shallow_kind (n : Node) (hne : n.isEmpty = false) :
    (match shallow H n with | .empty => false | .hash _ => false | _ => true) = true := by
  cases n with
  | empty => simp [Node.isEmpty] at hne
  | _ => rfl

/-- a record holding the node's own encoding loads as the node with its children as HashNodes. -/
theorem resolve_enc (h32 : ∀ b, (H b).length = 32) (n : Node) (hb : Bounded n) (hne : n.isEmpty = false)
    (hs : S (hash H n) = some (enc H n)) : StoredAt H S n := by
  unfold StoredAt resolve
  rw [hs]
  simp only [decodeTop_enc H h32 n hb hne]
  have := shallow_kind (H := H) n hne
  rw [← ofP_shallow n]
  cases hsn : shallow H n with
  | empty => rw [hsn] at this; simp at this
  | hash x => rw [hsn] at this; simp at this
  | _ => rfl

theorem resolve_congr {h : Bytes} (e : S' h = S h) : resolve S' h = resolve S h := by
  unfold resolve; rw [e]

/-! ### Flush -/

/-- every in-memory node's record is (hash of, encoding of) a node of the represented trie. -/
theorem lnodes_rep : ∀ (l : LNode) (t : Node), LRep H S l t →
    ∀ r ∈ lnodes H l, r.2 ∈ nodeEncs H t ∧ r.1 = H r.2 := by
  intro l
  induction l with
  | empty => intro t _ r hr; simp [lnodes] at hr
  | hash x => intro t _ r hr; simp [lnodes] at hr
  | leaf v =>
    intro t h r hr
    simp [LRep] at h; subst h
    simp [lnodes] at hr; subst hr; simp [nodeEncs]
  | ext k n ih =>
    intro t h r hr
    have he := (lenc_rep _ _ h).2 rfl
    obtain ⟨m, rfl, hm⟩ := h
    simp only [lnodes, List.mem_cons] at hr
    rcases hr with rfl | hr
    · simp [lhash, he, nodeEncs]
    · obtain ⟨h1, h2⟩ := ih m hm r hr
      exact ⟨by simp [nodeEncs, h1], h2⟩
  | branch ls lv ihc ihv =>
    intro t h r hr
    have he := (lenc_rep _ _ h).2 rfl
    obtain ⟨cs, v, rfl, hc, hv⟩ := h
    simp only [lnodes, List.mem_cons, List.mem_append, List.mem_flatMap] at hr
    rcases hr with rfl | ⟨i, _, hr⟩ | hr
    · simp [lhash, he, nodeEncs]
    · obtain ⟨h1, h2⟩ := ihc i (cs i) (hc i) r hr
      exact ⟨mem_nodeEncs_kid H cs v i h1, h2⟩
    · obtain ⟨h1, h2⟩ := ihv _ hv r hr
      refine ⟨?_, h2⟩
      cases v with
      | none => simp [slotNode, nodeEncs] at h1
      | some w =>
        simp [slotNode, nodeEncs] at h1
        rw [h1]; exact mem_nodeEncs_slot H cs w

section written
variable (E : List Bytes) (R : List (Bytes × Bytes))
  (hR : ∀ r ∈ R, r.2 ∈ E ∧ r.1 = H r.2) (hcf : CollFree H E)
include hR hcf

theorem writeAll_mem {e : Bytes} (he : e ∈ E) (hm : (H e, e) ∈ R) : writeAll S R (H e) = some e := by
  unfold writeAll
  cases hf : R.find? (fun x => x.1 == H e) with
  | none =>
    have := List.find?_eq_none.mp hf _ hm
    simp at this
  | some x =>
    have hx := List.mem_of_find?_eq_some hf
    have hk := List.find?_some hf
    simp only [beq_iff_eq] at hk
    obtain ⟨h1, h2⟩ := hR x hx
    have : x.2 = e := hcf _ h1 _ he (by rw [← h2, hk])
    simp [this]

theorem writeAll_cases {e : Bytes} (he : e ∈ E) :
    writeAll S R (H e) = some e ∨ writeAll S R (H e) = S (H e) := by
  unfold writeAll
  cases hf : R.find? (fun x => x.1 == H e) with
  | none => right; rfl
  | some x =>
    left
    have hx := List.mem_of_find?_eq_some hf
    have hk := List.find?_some hf
    simp only [beq_iff_eq] at hk
    obtain ⟨h1, h2⟩ := hR x hx
    have : x.2 = e := hcf _ h1 _ he (by rw [← h2, hk])
    simp [this]

/-- a node that could be loaded before can be loaded after the write. -/
theorem storedAt_writeAll (h32 : ∀ b, (H b).length = 32) (n : Node) (hb : Bounded n) (hne : n.isEmpty = false)
    (he : enc H n ∈ E) (hs : StoredAt H S n) : StoredAt H (writeAll S R) n := by
  rcases writeAll_cases (S := S) E R hR hcf he with h | h
  · exact resolve_enc h32 n hb hne h
  · unfold StoredAt; rw [show hash H n = H (enc H n) from rfl, resolve_congr h]; exact hs

theorem stored_writeAll (h32 : ∀ b, (H b).length = 32) : ∀ (t : Node), Bounded t →
    (∀ e ∈ nodeEncs H t, e ∈ E) → Stored H S t → Stored H (writeAll S R) t := by
  intro t
  induction t with
  | empty => intros; trivial
  | leaf v =>
    intro hb hE hs
    exact storedAt_writeAll E R hR hcf h32 _ hb rfl (hE _ (by simp [nodeEncs, enc])) hs
  | ext k n ih =>
    intro hb hE hs
    exact ⟨storedAt_writeAll E R hR hcf h32 _ hb rfl (hE _ (mem_nodeEncs_self H _ rfl)) hs.1,
      ih hb.2 (fun e he => hE e (by simp [nodeEncs, he])) hs.2⟩
  | branch cs v ih =>
    intro hb hE hs
    refine ⟨storedAt_writeAll E R hR hcf h32 _ hb rfl (hE _ (mem_nodeEncs_self H _ rfl)) hs.1,
      fun i => ih i (hb.1 i) (fun e he => hE e (mem_nodeEncs_kid H cs v i he)) (hs.2.1 i), ?_⟩
    intro w hw
    subst hw
    exact storedAt_writeAll E R hR hcf h32 (.leaf w) (by simpa [Bounded] using hb.2 w rfl) rfl
      (hE _ (mem_nodeEncs_slot H cs w)) (hs.2.2 w rfl)

/-- after the write every node of the represented trie can be loaded: those in memory because their
record was written, the others because they could be loaded before. -/
theorem stored_flush_aux (h32 : ∀ b, (H b).length = 32) : ∀ (l : LNode) (t : Node), LRep H S l t → Bounded t →
    (∀ e ∈ nodeEncs H t, e ∈ E) → (∀ r ∈ lnodes H l, r ∈ R) → Stored H (writeAll S R) t := by
  intro l
  induction l with
  | empty => intro t h _ _ _; simp [LRep] at h; subst h; trivial
  | hash x => intro t h hb hE _; exact stored_writeAll E R hR hcf h32 t hb hE h.2.2
  | leaf v =>
    intro t h hb hE hRm
    simp [LRep] at h; subst h
    have he : encLeaf v ∈ E := hE _ (by simp [nodeEncs])
    exact resolve_enc h32 (.leaf v) hb rfl (writeAll_mem (e := encLeaf v) E R hR hcf he (hRm _ (by simp [lnodes])))
  | ext k n ih =>
    intro t h hb hE hRm
    have hl := lhash_rep h
    have he := (lenc_rep _ _ h).2 rfl
    obtain ⟨m, rfl, hm⟩ := h
    have hmem : (H (enc H (.ext k m)), enc H (.ext k m)) ∈ R := by
      have := hRm (lhash H (.ext k n), lenc H (.ext k n)) (by simp [lnodes])
      rwa [hl, he] at this
    refine ⟨resolve_enc h32 _ hb rfl (writeAll_mem E R hR hcf (hE _ (mem_nodeEncs_self H _ rfl)) hmem), ?_⟩
    exact ih m hm hb.2 (fun e he => hE e (by simp [nodeEncs, he])) (fun r hr => hRm r (by simp [lnodes, hr]))
  | branch ls lv ihc ihv =>
    intro t h hb hE hRm
    have hl := lhash_rep h
    have he := (lenc_rep _ _ h).2 rfl
    obtain ⟨cs, v, rfl, hc, hv⟩ := h
    have hmem : (H (enc H (.branch cs v)), enc H (.branch cs v)) ∈ R := by
      have := hRm (lhash H (.branch ls lv), lenc H (.branch ls lv)) (by simp [lnodes])
      rwa [hl, he] at this
    refine ⟨resolve_enc h32 _ hb rfl (writeAll_mem E R hR hcf (hE _ (mem_nodeEncs_self H _ rfl)) hmem), ?_, ?_⟩
    · intro i
      refine ihc i (cs i) (hc i) (hb.1 i) (fun e he => hE e (mem_nodeEncs_kid H cs v i he)) (fun r hr => hRm r ?_)
      simp only [lnodes, List.mem_cons, List.mem_append, List.mem_flatMap]
      exact Or.inr (Or.inl ⟨i, List.mem_finRange i, hr⟩)
    · intro w hw
      subst hw
      have := ihv (.leaf w) hv (by simpa [Bounded] using hb.2 w rfl)
        (fun e he => hE e (by simp [nodeEncs] at he; rw [he]; exact mem_nodeEncs_slot H cs w))
        (fun r hr => hRm r (by simp [lnodes, hr]))
      exact this

end written

/-- Flush: afterwards every node of the represented trie can be loaded from the store. -/
theorem stored_lflush (h32 : ∀ b, (H b).length = 32) {l : LNode} {t : Node} (hr : LRep H S l t)
    (hb : Bounded t) (hcf : CollFree H (nodeEncs H t)) : Stored H (lflush H S l) t :=
  stored_flush_aux (nodeEncs H t) (lnodes H l) (lnodes_rep l t hr) hcf h32 l t hr hb (fun _ h => h) (fun _ h => h)

/-- the in-memory trie keeps representing `t` over any store from which all of `t` can be loaded. -/
theorem rep_of_stored : ∀ (l : LNode) (t : Node), LRep H S l t → Stored H S' t → LRep H S' l t := by
  intro l
  induction l with
  | empty => intro t h _; simpa [LRep] using h
  | hash x => intro t h hs; exact ⟨h.1, h.2.1, hs⟩
  | leaf v => intro t h _; simpa [LRep] using h
  | ext k n ih => intro t h hs; obtain ⟨m, rfl, hm⟩ := h; exact ⟨m, rfl, ih m hm hs.2⟩
  | branch ls lv ihc ihv =>
    intro t h hs
    obtain ⟨cs, v, rfl, hc, hv⟩ := h
    exact ⟨cs, v, rfl, fun i => ihc i _ (hc i) (hs.2.1 i), ihv _ hv (stored_slot cs v hs)⟩

/-! ### Collapse and reopen -/

theorem rep_hash_of_stored {l : LNode} {t : Node} (hr : LRep H S l t) (hs : Stored H S t) (hne : t.isEmpty = false) :
    LRep H S (.hash (lhash H l)) t := ⟨hne, lhash_rep hr, hs⟩

/-- Collapse(d) after a Flush: the collapsed trie represents the same expanded trie. -/
theorem lcollapse_rep : ∀ (l : LNode) (d : Nat) (t : Node), LRep H S l t → Stored H S t →
    LRep H S (lcollapse H d l) t := by
  intro l
  induction l with
  | empty => intro d t h _; cases d <;> simpa [lcollapse] using h
  | hash x => intro d t h _; cases d <;> simpa [lcollapse] using h
  | leaf v =>
    intro d t h hs
    cases d with
    | zero => simp [LRep] at h; subst h; exact rep_hash_of_stored (rep_leaf v) hs rfl
    | succ d => simpa [lcollapse] using h
  | ext k n ih =>
    intro d t h hs
    cases d with
    | zero =>
      have hne : t.isEmpty = false := by obtain ⟨m, rfl, _⟩ := h; rfl
      exact rep_hash_of_stored h hs hne
    | succ d => obtain ⟨m, rfl, hm⟩ := h; exact ⟨m, rfl, ih d m hm hs.2⟩
  | branch ls lv ihc ihv =>
    intro d t h hs
    cases d with
    | zero =>
      have hne : t.isEmpty = false := by obtain ⟨_, _, rfl, _⟩ := h; rfl
      exact rep_hash_of_stored h hs hne
    | succ d =>
      obtain ⟨cs, v, rfl, hc, hv⟩ := h
      exact ⟨cs, v, rfl, fun i => ihc i d _ (hc i) (hs.2.1 i), ihv d _ hv (stored_slot cs v hs)⟩

/-- reopening from the root hash after a Flush. -/
theorem lreopen_rep {l : LNode} {t : Node} (hr : LRep H S l t) (hs : Stored H S t) : LRep H S (lreopen H l) t := by
  unfold lreopen
  rw [rep_isEmpty hr]
  cases ht : t.isEmpty with
  | true => simp [LRep, isEmpty_iff.mp ht]
  | false => simpa using rep_hash_of_stored hr hs ht

end NeoModel.Mpt
