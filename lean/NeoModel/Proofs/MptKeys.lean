/-
Helper lemmas for C10: keys as bytes vs. nibble paths; MapToMPTBatch sorts.
-/
import NeoModel.Proofs.MptSeek
import NeoModel.Proofs.MptBatch
set_option linter.unusedSimpArgs false
namespace NeoModel.Mpt

theorem toNibbles_cons (b : UInt8) (bs : Bytes) :
    toNibbles (b :: bs) = ⟨b.toNat / 16, by have := b.toNat_lt; omega⟩ :: ⟨b.toNat % 16, by omega⟩ :: toNibbles bs := rfl

/-- the byte order of keys is the lexicographic order of their nibble paths. -/
theorem pathLt_toNibbles (a b : Bytes) : pathLt (toNibbles a) (toNibbles b) = bytesLt a b := by
  induction a generalizing b with
  | nil => cases b <;> simp [toNibbles, pathLt, bytesLt]
  | cons x a ih =>
    cases b with
    | nil => simp [toNibbles, pathLt, bytesLt]
    | cons y b =>
      simp only [toNibbles_cons, pathLt, bytesLt, ih]
      have hx := x.toNat_lt
      have hy := y.toNat_lt
      simp only [Fin.lt_def, UInt8.lt_iff_toNat_lt]
      by_cases h1 : x.toNat / 16 < y.toNat / 16
      · have : x.toNat < y.toNat := by omega
        simp [h1, this]
      · by_cases h2 : y.toNat / 16 < x.toNat / 16
        · have : y.toNat < x.toNat := by omega
          have h3 : ¬ x.toNat < y.toNat := by omega
          simp [h1, h2, this, h3]
        · simp only [h1, h2, if_false]
          by_cases h3 : x.toNat % 16 < y.toNat % 16
          · have : x.toNat < y.toNat := by omega
            simp [h3, this]
          · by_cases h4 : y.toNat % 16 < x.toNat % 16
            · have : y.toNat < x.toNat := by omega
              have h5 : ¬ x.toNat < y.toNat := by omega
              simp [h3, h4, this, h5]
            · have h5 : ¬ x.toNat < y.toNat := by omega
              have h6 : ¬ y.toNat < x.toNat := by omega
              simp [h3, h4, h5, h6]

theorem toNibbles_inj {a b : Bytes} (h : toNibbles a = toNibbles b) : a = b := by
  induction a generalizing b with
  | nil => cases b with
    | nil => rfl
    | cons y b => simp [toNibbles] at h
  | cons x a ih =>
    cases b with
    | nil => simp [toNibbles] at h
    | cons y b =>
      simp only [toNibbles_cons, List.cons.injEq, Fin.mk.injEq] at h
      obtain ⟨h1, h2, h3⟩ := h
      have : x = y := by
        apply UInt8.toNat_inj.mp; omega
      rw [this, ih h3]

theorem toNibbles_append (a b : Bytes) : toNibbles (a ++ b) = toNibbles a ++ toNibbles b := by
  induction a with
  | nil => rfl
  | cons x a ih => simp [toNibbles_cons, ih]


theorem pathLt_trans : ∀ {a b c : Path}, pathLt a b = true → pathLt b c = true → pathLt a c = true
  | [], _, [], _, h2 => by simp [pathLt_nil_right] at h2
  | [], _, _ :: _, _, _ => rfl
  | _ :: _, [], _, h1, _ => by simp [pathLt] at h1
  | _ :: _, _ :: _, [], _, h2 => by simp [pathLt] at h2
  | x :: a, y :: b, z :: c, h1, h2 => by
    simp only [pathLt] at h1 h2 ⊢
    by_cases hxy : x < y
    · by_cases hyz : y < z
      · have : x < z := by simp only [Fin.lt_def] at *; omega
        simp [this]
      · by_cases hzy : z < y
        · simp [hyz, hzy] at h2
        · have : y = z := by apply Fin.ext; simp only [Fin.lt_def] at *; omega
          subst this; simp [hxy]
    · by_cases hyx : y < x
      · simp [hxy, hyx] at h1
      · have hxy' : x = y := by apply Fin.ext; simp only [Fin.lt_def] at *; omega
        subst hxy'
        simp only [hxy, if_false] at h1
        by_cases hyz : x < z
        · simp [hyz]
        · by_cases hzy : z < x
          · simp [hyz, hzy] at h2
          · simp only [hyz, hzy, if_false] at h2 ⊢
            exact pathLt_trans h1 h2

/-- batch.go:28-30: `MapToMPTBatch` sorts the changes by key. -/
theorem sorted_insertKV (e : KV) (l : Batch) (hl : l.Pairwise (fun a b => pathLt a.1 b.1 = true))
    (he : ∀ x ∈ l, x.1 ≠ e.1) : (insertKV e l).Pairwise (fun a b => pathLt a.1 b.1 = true) := by
  induction l with
  | nil => simp [insertKV]
  | cons x xs ih =>
    simp only [List.pairwise_cons] at hl
    simp only [insertKV]
    split
    · rename_i hlt
      simp only [List.pairwise_cons]
      refine ⟨?_, ih hl.2 (fun y hy => he y (by simp [hy]))⟩
      intro y hy
      have := (insertKV_perm e xs).mem_iff.mp hy
      simp only [List.mem_cons] at this
      cases this with
      | inl h => subst h; exact hlt
      | inr h => exact hl.1 y h
    · rename_i hlt
      have hne : x.1 ≠ e.1 := he x (by simp)
      have hex : pathLt e.1 x.1 = true := by
        rcases pathLt_total e.1 x.1 with h | h | h
        · exact h
        · exact absurd h.symm hne
        · exact absurd h hlt
      simp only [List.pairwise_cons]
      refine ⟨?_, hl.1, hl.2⟩
      intro y hy
      simp only [List.mem_cons] at hy
      cases hy with
      | inl h => subst h; exact hex
      | inr h => exact pathLt_trans hex (hl.1 y h)

theorem sorted_of_mapToBatch (m : List KV) (hd : DistinctKeys m) :
    (mapToBatch m).Pairwise (fun a b => pathLt a.1 b.1 = true) := by
  induction m with
  | nil => simp [mapToBatch]
  | cons e m ih =>
    simp only [mapToBatch, List.foldr_cons]
    apply sorted_insertKV e _ (ih (distinct_tail hd))
    intro x hx
    have hx' : x ∈ m := (mapToBatch_perm m).mem_iff.mp hx
    unfold DistinctKeys at hd
    simp only [List.map_cons, List.nodup_cons, List.mem_map] at hd
    intro heq
    exact hd.1 ⟨x, hx', heq⟩

end NeoModel.Mpt
