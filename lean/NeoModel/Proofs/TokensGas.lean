/-
GAS side of the token model: what increaseBalance / updateAccBalance / addTokens do to the balance map.
-/
import NeoModel.Proofs.TokensAL
namespace NeoModel.Tokens

/-- balance map entry after setting the balance of `h` to `b` (zero balances are deleted). -/
def setBal (m : AL Int) (h : Nat) (b : Int) : AL Int := store m h (if b ≠ 0 then some b else none)

theorem at0_id (m : AL Int) (k : Nat) : at0 id m k = (get m k).getD 0 := by
  unfold at0; cases get m k <;> simp

theorem sumBy_setBal (m : AL Int) (h : Nat) (b : Int) :
    sumBy id (setBal m h b) = sumBy id m - at0 id m h + b := by
  unfold setBal
  rw [sumBy_store]
  split <;> simp_all

theorem at0_setBal_eq (m : AL Int) (h : Nat) (b : Int) (hn : (keys m).Nodup) : at0 id (setBal m h b) h = b := by
  unfold setBal at0
  rw [get_store_eq _ _ _ hn]
  split <;> simp_all

theorem at0_setBal_ne (m : AL Int) (h k : Nat) (b : Int) (hk : k ≠ h) : at0 id (setBal m h b) k = at0 id m k := by
  unfold setBal at0
  rw [get_store_ne _ _ _ _ hk]

theorem nodup_setBal (m : AL Int) (h : Nat) (b : Int) (hn : (keys m).Nodup) : (keys (setBal m h b)).Nodup :=
  nodup_store _ _ _ hn

theorem pos_setBal (m : AL Int) (h : Nat) (b : Int) (hp : ∀ p ∈ m, 0 < p.2) (hb : 0 ≤ b) :
    ∀ p ∈ setBal m h b, 0 < p.2 := by
  intro p hpm
  unfold setBal at hpm
  rcases mem_store _ _ _ _ hpm with h1 | ⟨v, hv, rfl⟩
  · exact hp p h1
  · split at hv
    · injection hv with hv; subst hv; simp; omega
    · simp at hv

/-- storing back the item that was read changes nothing observable. -/
theorem get_store_get (m : AL α) (h k : Nat) (hn : (keys m).Nodup) : get (store m h (get m h)) k = get m k := by
  by_cases hk : k = h
  · subst hk; exact get_store_eq _ _ _ hn
  · exact get_store_ne _ _ _ _ hk

theorem sumBy_store_get (f : α → Int) (m : AL α) (h : Nat) : sumBy f (store m h (get m h)) = sumBy f m := by
  rw [sumBy_store]; unfold at0; cases get m h <;> simp

theorem mem_store_get (m : AL α) (h : Nat) (p : Nat × α) (hp : p ∈ store m h (get m h)) : p ∈ m := by
  rcases mem_store _ _ _ _ hp with h1 | ⟨v, hv, rfl⟩
  · exact h1
  · exact get_mem _ _ _ hv

/-- GAS.increaseBalance: the ledger is untouched; on success the item is either unchanged (amount 0) or the
balance plus the amount (deleted at zero); a debit never exceeds a non-negative balance. -/
theorem gasInc_l (l : Ledger) (si : Option Int) (a : Int) (cb : Option Int) : (gasInc l si a cb).l = l := by
  simp only [gasInc]; split <;> (try split) <;> rfl

theorem gasInc_ok (l : Ledger) (si : Option Int) (a : Int) (cb : Option Int) (h : (gasInc l si a cb).ok = true) :
    (a = 0 ∧ (gasInc l si a cb).si = si ∧ ¬ belowOpt (si.getD 0) cb = true) ∨
    (a ≠ 0 ∧ (gasInc l si a cb).si = (if si.getD 0 + a ≠ 0 then some (si.getD 0 + a) else none) ∧
      ¬ (a < 0 ∧ (si.getD 0).natAbs < a.natAbs)) := by
  unfold gasInc at h ⊢
  by_cases h0 : a = 0
  · simp [h0] at h ⊢
    split at h <;> simp_all
  · simp [h0] at h ⊢
    by_cases hg : a < 0 ∧ (si.getD 0).natAbs < a.natAbs
    · simp [hg] at h
    · simp [hg]; omega

/-- what a successful GAS balance update looks like. -/
structure GasUpd (gas gas' : AL Int) (h : Nat) (d : Int) : Prop where
  sum : sumBy id gas' = sumBy id gas + d
  ath : (keys gas).Nodup → at0 id gas' h = at0 id gas h + d
  atne : ∀ k, k ≠ h → at0 id gas' k = at0 id gas k
  nodup : (keys gas).Nodup → (keys gas').Nodup
  pos : (∀ p ∈ gas, 0 < p.2) → (∀ p ∈ gas', 0 < p.2)

theorem GasUpd.refl (gas : AL Int) (h : Nat) : GasUpd gas gas h 0 :=
  ⟨by simp, fun _ => by simp, fun _ _ => rfl, id, id⟩

theorem gasUpd_store_get (gas : AL Int) (h : Nat) : GasUpd gas (store gas h (get gas h)) h 0 := by
  refine ⟨by simp [sumBy_store_get], fun hn => ?_, fun k hk => ?_, nodup_store _ _ _, fun hp p hm => hp p (mem_store_get _ _ _ hm)⟩
  · unfold at0; rw [get_store_get _ _ _ hn]; simp
  · unfold at0; rw [get_store_ne _ _ _ _ hk]

theorem gasUpd_setBal (gas : AL Int) (h : Nat) (d : Int) (hp : ∀ p ∈ gas, 0 < p.2) (hb : 0 ≤ at0 id gas h + d) :
    GasUpd gas (setBal gas h (at0 id gas h + d)) h d := by
  refine ⟨by rw [sumBy_setBal]; omega, fun hn => at0_setBal_eq _ _ _ hn, fun k hk => at0_setBal_ne _ _ _ _ hk,
    nodup_setBal _ _ _, fun _ => pos_setBal _ _ _ hp hb⟩

theorem natAbs_guard (b a : Int) (hb : 0 ≤ b) (h : ¬ (a < 0 ∧ b.natAbs < a.natAbs)) : 0 ≤ b + a := by
  omega

/-- the common core of updGas / gasAddTokens: run increaseBalance on the stored item and store the result. -/
theorem gasInc_store (l : Ledger) (h : Nat) (a : Int) (cb : Option Int) (hp : ∀ p ∈ l.gas, 0 < p.2)
    (hok : (gasInc l (get l.gas h) a cb).ok = true) :
    GasUpd l.gas (store l.gas h (gasInc l (get l.gas h) a cb).si) h a := by
  have hb0 : 0 ≤ at0 id l.gas h := at0_nonneg id l.gas h (fun p hp' => by have := hp p hp'; simp; omega)
  rcases gasInc_ok l _ a cb hok with ⟨h0, hsi, _⟩ | ⟨h0, hsi, hg⟩
  · rw [hsi, h0]; exact gasUpd_store_get _ _
  · rw [hsi]
    have := gasUpd_setBal l.gas h a hp (by rw [at0_id] at hb0 ⊢; exact natAbs_guard _ _ hb0 hg)
    rw [at0_id] at this
    exact this

end NeoModel.Tokens
