/-
C09 helper lemmas: boltSeek (cursor Seek/Next/Prev/Last with its loop guard) is correct.
-/
import NeoModel.Proofs.StoreDisk
set_option linter.unusedSimpArgs false
set_option linter.unusedVariables false
namespace NeoModel.Store

theorem takeWhile_eq_filter {α : Type} (p : α → Bool) (l : List α)
    (h : l.Pairwise (fun a b => p b = true → p a = true)) : l.takeWhile p = l.filter p := by
  induction l with
  | nil => rfl
  | cons a t ih =>
    rw [List.pairwise_cons] at h
    by_cases ha : p a = true
    · rw [List.takeWhile_cons_of_pos ha, List.filter_cons_of_pos ha, ih h.2]
    · rw [List.takeWhile_cons_of_neg ha, List.filter_cons_of_neg ha]
      symm; rw [List.filter_eq_nil_iff]
      intro b hb hpb; exact ha (h.1 b hb hpb)

theorem dropWhile_eq_filter {α : Type} (p : α → Bool) (l : List α)
    (h : l.Pairwise (fun a b => p b = true → p a = true)) : l.dropWhile p = l.filter (fun x => !p x) := by
  induction l with
  | nil => rfl
  | cons a t ih =>
    rw [List.pairwise_cons] at h
    by_cases ha : p a = true
    · rw [List.dropWhile_cons_of_pos ha, List.filter_cons_of_neg (by simp [ha]), ih h.2]
    · rw [List.dropWhile_cons_of_neg ha, List.filter_cons_of_pos (by simp [ha])]
      congr 1; symm; rw [List.filter_eq_self]
      intro b hb
      cases hpb : p b with
      | false => rfl
      | true => exact absurd (h.1 b hb hpb) ha

theorem sortedAsc (db : List KV) (h : DbWF db) : SortedK false (sortKV false db) := sorted_mergeSort false db h

/-- on keys at or after Start the loop guard of boltSeek (forward) is the disk range. -/
theorem bolt_ok_fwd (rng : SeekRange) (hb : rng.bw = false) (k : Key)
    (hs : lexLe (rng.pfx ++ rng.start) k = true) :
    boltGuard rng k = true ↔ inRange rng k := by
  unfold boltGuard
  have hpk : lexLe rng.pfx k = true := lexLe_trans (lexLe_of_prefix (List.prefix_append _ _)) hs
  have hr : inRange rng k ↔ rng.pfx <+: k := by
    unfold inRange; simp only [hb, Bool.false_eq_true, if_false]
    exact ⟨fun h => h.1, fun h => ⟨h, Or.inr hs⟩⟩
  rw [hr, Bool.and_eq_true, List.isPrefixOf_iff_prefix]
  constructor
  · exact fun h => h.1
  · intro hp
    refine ⟨hp, ?_⟩
    have h2 : (seekRangeToPrefixes rng).2 = succBytes rng.pfx := by unfold seekRangeToPrefixes; simp [hb]
    rw [h2]
    cases hsu : succBytes rng.pfx with
    | none => rfl
    | some l =>
      have := ((succ_facts rng.pfx).1 l hsu k).mpr (Or.inr hp)
      simp [lexLe, lexLt_asymm this]

/-- below Limit the loop guard of boltSeek (backward) is the disk range. -/
theorem bolt_ok_bwd (rng : SeekRange) (hb : rng.bw = true) (k : Key)
    (hl : belowSucc (rng.pfx ++ rng.start) k = true) :
    boltGuard rng k = true ↔ inRange rng k := by
  unfold boltGuard
  have hbs := (belowSucc_iff _ _).mp hl
  have hr : inRange rng k ↔ rng.pfx <+: k := by
    unfold inRange; simp only [hb, if_true]
    refine ⟨fun h => h.1, fun h => ⟨h, Or.inr ?_⟩⟩
    rcases hbs with h' | h'
    · left; simp [lexLe, lexLt_asymm h']
    · right; exact h'
  rw [hr, Bool.and_eq_true, List.isPrefixOf_iff_prefix]
  constructor
  · exact fun h => h.1
  · intro hp
    refine ⟨hp, ?_⟩
    have h2 : (seekRangeToPrefixes rng).2 = succBytes (rng.pfx ++ rng.start) := by unfold seekRangeToPrefixes; simp [hb]
    rw [h2]
    unfold belowSucc at hl
    cases hsu : succBytes (rng.pfx ++ rng.start) with
    | none => rfl
    | some l => rw [hsu] at hl; simp [lexLe, lexLt_asymm hl]

/-- in the backward direction every key of the range lies below Limit and at or above the prefix. -/
theorem inRange_bwd_below (rng : SeekRange) (hb : rng.bw = true) (k : Key) (h : inRange rng k) :
    belowSucc (rng.pfx ++ rng.start) k = true := by
  rw [belowSucc_iff]
  unfold inRange at h; simp only [hb, if_true] at h
  rcases h.2 with h' | h' | h'
  · right; rw [h', List.append_nil]; exact h.1
  · rcases (lexLe_iff _ _).mp h' with h'' | h''
    · exact Or.inl h''
    · right; rw [h'']; exact List.prefix_refl _
  · exact Or.inr h'

theorem boltBelow_eq (rng : SeekRange) (hb : rng.bw = true) (sorted : List KV) (hs : SortedK false sorted) :
    boltBelow rng sorted = sorted.filter (fun e => belowSucc (rng.pfx ++ rng.start) e.1) := by
  unfold boltBelow belowSucc
  have h2 : (seekRangeToPrefixes rng).2 = succBytes (rng.pfx ++ rng.start) := by unfold seekRangeToPrefixes; simp [hb]
  rw [h2]
  cases hsu : succBytes (rng.pfx ++ rng.start) with
  | none => simp only; exact (List.filter_eq_self.mpr (fun _ _ => rfl)).symm
  | some l =>
    simp only
    apply takeWhile_eq_filter
    refine hs.imp ?_
    intro a b hab hb'
    simp only [ltDir, Bool.false_eq_true, if_false] at hab
    exact lexLt_trans hab hb'

theorem boltSeek_spec (db : List KV) (h : DbWF db) (rng : SeekRange) :
    IsSpecSeek (Store.bolt db).flatten rng (boltSeek db rng) := by
  have hsorted := sortedAsc db h
  have hmem : ∀ e, e ∈ sortKV false db ↔ e ∈ db := fun e => mem_mergeSort false db e
  unfold boltSeek
  simp only
  generalize sortKV false db = sorted at hsorted hmem
  have hfl : ∀ q w, (Store.bolt db).flatten q = some w ↔ (q, w) ∈ sorted := by
    intro q w; rw [hmem, mem_iff_lookup db h]; rfl
  cases hb : rng.bw with
  | false =>
    simp only [Bool.not_false, if_true]
    have hstart : (seekRangeToPrefixes rng).1 = rng.pfx ++ rng.start := by
      unfold seekRangeToPrefixes; simp [hb]
    rw [hstart]
    have h1 : sorted.Pairwise (fun a b => lexLt b.1 (rng.pfx ++ rng.start) = true → lexLt a.1 (rng.pfx ++ rng.start) = true) := by
      refine hsorted.imp ?_
      intro a b hab hb'; simp only [ltDir, Bool.false_eq_true, if_false] at hab; exact lexLt_trans hab hb'
    rw [dropWhile_eq_filter _ _ h1]
    have hs1 : SortedK false (sorted.filter (fun x => !lexLt x.1 (rng.pfx ++ rng.start))) :=
      sorted_sublist hsorted (List.filter_sublist)
    have hin1 : ∀ e, e ∈ sorted.filter (fun x => !lexLt x.1 (rng.pfx ++ rng.start)) ↔
        (e ∈ sorted ∧ lexLe (rng.pfx ++ rng.start) e.1 = true) := by
      intro e; rw [List.mem_filter]; rfl
    generalize sorted.filter (fun x => !lexLt x.1 (rng.pfx ++ rng.start)) = l1 at hs1 hin1 ⊢
    have h2 : l1.Pairwise (fun a b => boltGuard rng b.1 = true → boltGuard rng a.1 = true) := by
      have hs1' : l1.Pairwise (fun a b => ltDir false a.1 b.1 = true ∧ (a ∈ l1 ∧ b ∈ l1)) := by
        have := (List.Pairwise.and_mem (R := fun (a b : KV) => ltDir false a.1 b.1 = true)).mp hs1
        refine this.imp ?_
        intro a b ⟨ha, hb', hab⟩; exact ⟨hab, ha, hb'⟩
      refine hs1'.imp ?_
      intro a b ⟨hab, ha, hb'⟩ hgb
      have hsa := ((hin1 a).mp ha).2
      have hsb := ((hin1 b).mp hb').2
      rw [bolt_ok_fwd rng hb _ hsa]
      have hrb := (bolt_ok_fwd rng hb _ hsb).mp hgb
      -- a lies between Start and b, b below the limit of the prefix
      have hda : inDisk rng a.1 = true := by
        have hdb := (inDisk_iff rng b.1).mpr hrb
        unfold inDisk at hdb ⊢
        rw [hstart] at hdb ⊢
        rw [Bool.and_eq_true] at hdb ⊢
        refine ⟨hsa, ?_⟩
        simp only [ltDir, Bool.false_eq_true, if_false] at hab
        cases hl : (seekRangeToPrefixes rng).2 with
        | none => rfl
        | some l =>
          have := hdb.2; rw [hl] at this
          exact lexLt_trans hab this
      exact (inDisk_iff rng a.1).mp hda
    rw [takeWhile_eq_filter _ _ h2]
    refine ⟨by rw [hb]; exact sorted_sublist hs1 List.filter_sublist, ?_⟩
    intro q w
    rw [List.mem_filter, hin1, hfl]
    constructor
    · rintro ⟨⟨h3, h4⟩, h5⟩; exact ⟨h3, (bolt_ok_fwd rng hb _ h4).mp h5⟩
    · rintro ⟨h3, h4⟩
      have hs : lexLe (rng.pfx ++ rng.start) q = true := by
        have := (inDisk_iff rng q).mpr h4
        unfold inDisk at this; rw [hstart, Bool.and_eq_true] at this; exact this.1
      exact ⟨⟨h3, hs⟩, (bolt_ok_fwd rng hb _ hs).mpr h4⟩
  | true =>
    simp only [Bool.not_true, Bool.false_eq_true, if_false]
    rw [boltBelow_eq rng hb sorted hsorted]
    have hs1 : SortedK false (sorted.filter (fun e => belowSucc (rng.pfx ++ rng.start) e.1)) :=
      sorted_sublist hsorted (List.filter_sublist)
    have hin1 : ∀ e, e ∈ sorted.filter (fun e => belowSucc (rng.pfx ++ rng.start) e.1) ↔
        (e ∈ sorted ∧ belowSucc (rng.pfx ++ rng.start) e.1 = true) := by
      intro e; rw [List.mem_filter]
    generalize sorted.filter (fun e => belowSucc (rng.pfx ++ rng.start) e.1) = l1 at hs1 hin1 ⊢
    have hrev : SortedK true l1.reverse := by
      unfold SortedK at *
      rw [List.pairwise_reverse]
      refine hs1.imp ?_
      intro a b hab; simpa [ltDir] using hab
    have hinr : ∀ e, e ∈ l1.reverse ↔ (e ∈ sorted ∧ belowSucc (rng.pfx ++ rng.start) e.1 = true) := by
      intro e; rw [List.mem_reverse, hin1]
    generalize l1.reverse = l2 at hrev hinr ⊢
    have h2 : l2.Pairwise (fun a b => boltGuard rng b.1 = true → boltGuard rng a.1 = true) := by
      have hs2 : l2.Pairwise (fun a b => ltDir true a.1 b.1 = true ∧ (a ∈ l2 ∧ b ∈ l2)) := by
        have := (List.Pairwise.and_mem (R := fun (a b : KV) => ltDir true a.1 b.1 = true)).mp hrev
        refine this.imp ?_
        intro a b ⟨ha, hb', hab⟩; exact ⟨hab, ha, hb'⟩
      refine hs2.imp ?_
      intro a b ⟨hab, ha, hb'⟩ hgb
      have hla := ((hinr a).mp ha).2
      have hlb := ((hinr b).mp hb').2
      rw [bolt_ok_bwd rng hb _ hla]
      have hrb := (bolt_ok_bwd rng hb _ hlb).mp hgb
      -- b has the prefix and a is above b, below the limit
      simp only [ltDir, if_true] at hab
      have hpa : lexLe rng.pfx a.1 = true := by
        have hpb : lexLe rng.pfx b.1 = true := lexLe_of_prefix hrb.1
        have hba : lexLe b.1 a.1 = true := by simp [lexLe, lexLt_asymm hab]
        exact lexLe_trans hpb hba
      have hda : inDisk rng a.1 = true := by
        unfold inDisk
        have h1' : (seekRangeToPrefixes rng).1 = rng.pfx := by unfold seekRangeToPrefixes; simp [hb]
        have h2' : (seekRangeToPrefixes rng).2 = succBytes (rng.pfx ++ rng.start) := by unfold seekRangeToPrefixes; simp [hb]
        rw [h1', h2', Bool.and_eq_true]
        exact ⟨hpa, hla⟩
      exact (inDisk_iff rng a.1).mp hda
    rw [takeWhile_eq_filter _ _ h2]
    refine ⟨by rw [hb]; exact sorted_sublist hrev List.filter_sublist, ?_⟩
    intro q w
    rw [List.mem_filter, hinr, hfl]
    constructor
    · rintro ⟨⟨h3, h4⟩, h5⟩; exact ⟨h3, (bolt_ok_bwd rng hb _ h4).mp h5⟩
    · rintro ⟨h3, h4⟩
      have hl := inRange_bwd_below rng hb q h4
      exact ⟨⟨h3, hl⟩, (bolt_ok_bwd rng hb _ hl).mpr h4⟩

end NeoModel.Store
