/-
C17 — the decoding entry points of a NEF file (nef.FileFromBytes, File.DecodeBinary, and through them
state.Contract.FromStackItem) agree: accepted iff the trailing checksum is the checksum of the CANONICAL re-encoding of
the decoded fields. `Codec.Short`: re-encoding never needs more bytes than were read.
-/
import NeoModel.Proofs.WireTight
import NeoModel.Proofs.WireNef
import NeoModel.Model.Wire.Manifest
namespace NeoModel.Wire
open Codec
open NeoModel.Generated

/-- re-encoding never needs more bytes than were read (the weak half of `Tight`; it also holds for `boolC` and the
padded compiler field, which are not tight). -/
def Codec.Short {α : Type} (c : Codec α) : Prop :=
  ∀ b v r, c.dec b = some (v, r) → (c.enc v).length + r.length ≤ b.length

theorem Codec.Tight.short {α : Type} {c : Codec α} (t : c.Tight) : c.Short := fun b v r h => (t b v r h).1

theorem boolC_short : boolC.Short := by
  intro b v r h
  cases b with
  | nil => simp [boolC] at h
  | cons x t => simp [boolC] at h; obtain ⟨rfl, rfl⟩ := h; simp [boolC]; omega

theorem paddedC_short (n : Nat) : (paddedC n).Short := by
  intro b v r h
  simp only [paddedC, Option.map_eq_some_iff] at h
  obtain ⟨⟨x, r'⟩, ht, he⟩ := h
  simp at he
  obtain ⟨rfl, rfl⟩ := he
  obtain ⟨h1, h2⟩ := takeN_some ht
  subst h2
  have hl : (trimZeros x).length ≤ x.length := trimZeros_length x
  simp only [paddedC, padZeros, List.length_append, List.length_replicate]
  omega

theorem bind_short {α β : Type} {c₁ : Codec α} {f : α → Codec β} {K C : Nat} (t₁ : c₁.Short) (t₂ : ∀ a, (f a).Short) :
    (Codec.bind c₁ f K C).Short := by
  intro b v r h
  simp only [Codec.bind] at h
  split at h
  · simp at h
  · rename_i a r1 h1
    split at h
    · simp at h
    · rename_i x r2 h2
      simp at h
      obtain ⟨rfl, rfl⟩ := h
      have a1 := t₁ _ _ _ h1
      have b1 := t₂ a _ _ _ h2
      simp only [Codec.bind, List.length_append]
      omega

theorem seq_short {α β : Type} {c₁ : Codec α} {c₂ : Codec β} (t₁ : c₁.Short) (t₂ : c₂.Short) : (seq c₁ c₂).Short :=
  bind_short t₁ (fun _ => t₂)

theorem map_short {α β : Type} {c : Codec α} {f : α → β} {g : β → α} (t : c.Short) (hg : ∀ a, g (f a) = a) :
    (map c f g).Short := by
  intro b v r h
  simp only [map, Option.map_eq_some_iff] at h
  obtain ⟨⟨a, r'⟩, hd, he⟩ := h
  simp at he
  obtain ⟨rfl, rfl⟩ := he
  simp only [map, hg]
  exact t _ _ _ hd

theorem refine_short {α : Type} {c : Codec α} {p : α → Bool} (t : c.Short) : (refine c p).Short := by
  intro b v r h
  simp only [refine] at h
  split at h
  · simp at h
  · rename_i v' r' hd
    split at h
    · simp at h
      obtain ⟨rfl, rfl⟩ := h
      exact t _ _ _ hd
    · simp at h

theorem decN_short {α : Type} {c : Codec α} (t : c.Short) : ∀ (n : Nat) (b : Bytes) (l : List α) (r : Bytes),
    decN c n b = some (l, r) → (encL c l).length + r.length ≤ b.length := by
  intro n
  induction n with
  | zero => intro b l r h; simp [decN] at h; obtain ⟨rfl, rfl⟩ := h; simp [encL]
  | succ n ih =>
    intro b l r h
    simp only [decN] at h
    split at h
    · simp at h
    · rename_i a r1 h1
      split at h
      · simp at h
      · rename_i as r2 h2
        simp at h
        obtain ⟨rfl, rfl⟩ := h
        have a1 := t _ _ _ h1
        have b1 := ih _ _ _ h2
        simp only [encL, List.length_append]
        omega

theorem array_short {α : Type} {max slot : Nat} {c : Codec α} (t : c.Short) : (array max slot c).Short := by
  intro b v r h
  simp only [array] at h
  split at h
  · simp at h
  · rename_i n r1 hr
    split at h
    · simp at h
    · obtain ⟨t1, _⟩ := readVarUint_tight _ _ _ hr
      have d1 := decN_short t _ _ _ _ h
      have hl := decN_length _ _ _ _ h
      simp only [array, List.length_append, hl]
      omega

theorem methodTokenC_short : methodTokenC.Short :=
  map_short (seq_short (fixed_tight 20).short (seq_short (refine_short (varBytes_tight _).short)
    (seq_short (uintLE_tight 2).short (seq_short boolC_short (refine_short byte_tight.short))))) (fun _ => rfl)

/-- `map` with an inverse that is exact on decoded values only (constants dropped by `f`, restored by `g`). -/
theorem map_short' {α β : Type} {c : Codec α} {f : α → β} {g : β → α} (t : c.Short) (hl : c.Lawful)
    (hg : ∀ a, c.wf a → g (f a) = a) : (map c f g).Short := by
  intro b v r h
  simp only [map, Option.map_eq_some_iff] at h
  obtain ⟨⟨a, r'⟩, hd, he⟩ := h
  simp at he
  obtain ⟨rfl, rfl⟩ := he
  simp only [map, hg a (hl.dec_wf _ _ _ hd)]
  exact t _ _ _ hd

theorem nefBodyC_short : nefBodyC.Short :=
  map_short' (seq_short (refine_short (uintLE_tight 4).short) (seq_short (paddedC_short _)
    (seq_short (varBytes_tight _).short (seq_short (refine_short byte_tight.short)
      (seq_short (array_short methodTokenC_short) (seq_short (refine_short (uintLE_tight 2).short)
        (refine_short (varBytes_tight _).short)))))))
    (seq_lawful (refine_lawful (uintLE_lawful 4)) (seq_lawful (paddedC_lawful _)
      (seq_lawful (varBytes_lawful _) (seq_lawful (refine_lawful byte_lawful)
        (seq_lawful (array_lawful methodTokenC_lawful methodTokenC_strict)
          (seq_lawful (refine_lawful (uintLE_lawful 2)) (refine_lawful (varBytes_lawful _))))))))
    (by
      intro a hw
      obtain ⟨⟨_, hm⟩, _, _, ⟨_, hr1⟩, _, ⟨_, hr2⟩, _⟩ := hw
      simp only [beq_iff_eq] at hm hr1 hr2
      obtain ⟨a1, a2, a3, a4, a5, a6, a7⟩ := a
      simp only at hm hr1 hr2
      subst hm hr1 hr2; rfl)

theorem nefC_short (H : Bytes → Bytes) : (nefC H).Short :=
  map_short (refine_short (seq_short nefBodyC_short (uintLE_tight 4).short)) (fun _ => rfl)

/-! ### the entry points of a NEF file agree -/

/-- `File.DecodeBinary` on a buffer: accepted iff the codec decodes a prefix. -/
def nefDecodeBinary (H : Bytes → Bytes) (b : Bytes) : Option (Nef × Bytes) := (nefC H).dec b

/-- C17 (NEF, entry points): for bytes within MaxSize, `FileFromBytes` accepts iff `DecodeBinary` accepts (same
value), iff the body decodes, four checksum bytes follow, and they are the checksum of the CANONICAL re-encoding of the
decoded body — not of the bytes as written. -/
theorem nef_entry_points_iff (H : Bytes → Bytes) (b : Bytes) (hl : b.length ≤ WireLimits.stackMaxSize) (n : Nef) :
    (nefFromBytes H b = some n ↔ ∃ r, nefDecodeBinary H b = some (n, r))
    ∧ ((∃ r, nefDecodeBinary H b = some (n, r)) ↔
        ∃ r' r, nefBodyC.dec b = some (n.body, r') ∧ (uintLE 4).dec r' = some (n.checksum, r)
          ∧ n.checksum = checksumOf H (nefBodyC.enc n.body)) := by
  constructor
  · unfold nefFromBytes nefDecodeBinary
    rw [if_neg (by omega)]
    constructor
    · intro h
      cases hd : (nefC H).dec b with
      | none => rw [hd] at h; simp at h
      | some p => obtain ⟨n', r⟩ := p; rw [hd] at h; simp at h; subst h; exact ⟨r, rfl⟩
    · rintro ⟨r, h⟩; rw [h]; rfl
  · unfold nefDecodeBinary
    constructor
    · rintro ⟨r, h⟩
      simp only [nefC, map, Option.map_eq_some_iff] at h
      obtain ⟨⟨⟨body, cs⟩, r1⟩, hd, he⟩ := h
      simp at he
      obtain ⟨rfl, rfl⟩ := he
      simp only [refine] at hd
      split at hd
      · simp at hd
      · rename_i v r2 hs
        split at hd
        · rename_i hp
          simp at hd
          obtain ⟨rfl, rfl⟩ := hd
          simp only [seq, Codec.bind] at hs
          split at hs
          · simp at hs
          · rename_i a ra ha
            split at hs
            · simp at hs
            · rename_i x rx hx
              simp at hs
              obtain ⟨⟨rfl, rfl⟩, rfl⟩ := hs
              simp only [beq_iff_eq] at hp
              exact ⟨ra, rx, ha, hx, hp⟩
        · simp at hd
    · rintro ⟨r', r, h1, h2, h3⟩
      refine ⟨r, ?_⟩
      simp only [nefC, map, refine, seq, Codec.bind, h1, h2, Option.map_eq_some_iff]
      refine ⟨((n.body, n.checksum), r), ?_, rfl⟩
      simp [h3]

/-- C17 (NEF) what `FileFromBytes` accepts, `Bytes()` re-encodes within MaxSize, and `FileFromBytes` accepts the
re-encoding as the same file: the property in its own terms, at this entry point. -/
theorem nef_frombytes_reencode (H : Bytes → Bytes) (b : Bytes) (n : Nef) (h : nefFromBytes H b = some n) :
    nefBytes H n = some ((nefC H).enc n) ∧ nefFromBytes H ((nefC H).enc n) = some n := by
  unfold nefFromBytes at h
  split at h
  · simp at h
  · rename_i hl
    cases hd : (nefC H).dec b with
    | none => rw [hd] at h; simp at h
    | some p =>
      obtain ⟨n', r⟩ := p
      rw [hd] at h; simp at h; subst h
      have hsh := nefC_short H _ _ _ hd
      have hlen : ¬ ((nefC H).enc n').length > WireLimits.stackMaxSize := by omega
      have hst := (nefC_lawful H).reencode_stable hd
      refine ⟨by unfold nefBytes; simp only; rw [if_neg hlen], ?_⟩
      unfold nefFromBytes
      rw [if_neg hlen, hst.2]; rfl

end NeoModel.Wire
