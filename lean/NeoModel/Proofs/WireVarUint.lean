/-
C17 — var-uint lemmas (helper lemmas of Props/C17.lean and of the codec combinators). Core Lean only.
-/
import NeoModel.Model.Wire.VarUint
namespace NeoModel.Wire

theorem leVal_leBytes (n v : Nat) (h : v < 256 ^ n) : leVal (leBytes n v) = v := by
  induction n generalizing v with
  | zero => simp at h; simp [leBytes, leVal, h]
  | succ n ih =>
    have h2 : v / 256 < 256 ^ n := by
      rw [Nat.div_lt_iff_lt_mul (by decide)]; rw [Nat.pow_succ] at h; exact h
    simp only [leBytes, leVal, ih _ h2]
    have : (UInt8.ofNat (v % 256)).toNat = v % 256 := by
      simp [UInt8.toNat_ofNat']
    rw [this]; omega

theorem leBytes_length (n v : Nat) : (leBytes n v).length = n := by
  induction n generalizing v with
  | zero => rfl
  | succ n ih => simp [leBytes, ih]

theorem leVal_lt (x : Bytes) : leVal x < 256 ^ x.length := by
  induction x with
  | nil => simp [leVal]
  | cons b bs ih =>
    simp only [leVal, List.length_cons, Nat.pow_succ]
    have := b.toNat_lt
    omega

/-- decode (encode v ++ rest) = (v, rest) for every 64-bit `v`. -/
theorem readVarUint_putVarUint (v : Nat) (r : Bytes) (h : v < 2 ^ 64) :
    readVarUint (putVarUint v ++ r) = some (v, r) := by
  unfold putVarUint
  split
  · rename_i h1
    have hb : (UInt8.ofNat v).toNat = v := by simp [UInt8.toNat_ofNat']; omega
    have n1 : UInt8.ofNat v ≠ 0xfd := by intro e; have := congrArg UInt8.toNat e; rw [hb] at this; simp at this; omega
    have n2 : UInt8.ofNat v ≠ 0xfe := by intro e; have := congrArg UInt8.toNat e; rw [hb] at this; simp at this; omega
    have n3 : UInt8.ofNat v ≠ 0xff := by intro e; have := congrArg UInt8.toNat e; rw [hb] at this; simp at this; omega
    simp [readVarUint, n1, n2, n3, hb]
  · split
    · rename_i h1 h2
      have : v < 256 ^ 2 := by omega
      simp [readVarUint, takeN, leBytes_length, leVal_leBytes 2 v this]
    · split
      · rename_i h1 h2 h3
        have : v < 256 ^ 4 := by omega
        simp [readVarUint, takeN, leBytes_length, leVal_leBytes 4 v this]
      · have : v < 256 ^ 8 := by omega
        simp [readVarUint, takeN, leBytes_length, leVal_leBytes 8 v this]

theorem putVarUint_length (v : Nat) :
    (putVarUint v).length = (if v ≤ 0xFFFFFFFF then varUintSize v else 9) := by
  unfold putVarUint varUintSize
  split <;> (try split) <;> (try split) <;> simp [leBytes_length] <;> omega

end NeoModel.Wire
