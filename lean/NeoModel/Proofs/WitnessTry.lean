/-
C15 — the frame machine with try stacks (Model/Witness/Try.lean): handleException pops exactly the contexts
above the first usable handler, and every step projects to a run of the frame machine, so every invariant
and execution-level theorem transfers. Core Lean only.
-/
import NeoModel.Model.Witness.Try
import NeoModel.Proofs.WitnessExec
namespace NeoModel.Witness

/-- index (from the top) of the first context that has a handler able to take an exception. -/
def handlerDepth : List (SC × List Handler) → Option Nat
  | [] => none
  | (_, ts) :: rest => match usable ts with
    | [] => (handlerDepth rest).map (· + 1)
    | _ :: _ => some 0

theorem usable_ne_nil_iff : ∀ ts : List Handler,
    usable ts ≠ [] ↔ ∃ h ∈ ts, h.state = .eTry ∨ (h.state = .eCatch ∧ h.hasFinally = true)
  | [] => by simp [usable]
  | h :: hs => by
    simp only [usable]
    split
    · rename_i hc
      rw [usable_ne_nil_iff hs]
      constructor
      · rintro ⟨x, hx, hp⟩; exact ⟨x, by simp [hx], hp⟩
      · rintro ⟨x, hx, hp⟩
        rcases List.mem_cons.mp hx with rfl | hm
        · exfalso
          rcases hc with h1 | ⟨h1, h2⟩
          · rcases hp with h3 | ⟨h3, _⟩ <;> rw [h1] at h3 <;> cases h3
          · rcases hp with h3 | ⟨_, h4⟩
            · rw [h1] at h3; cases h3
            · rw [h2] at h4; cases h4
        · exact ⟨x, hm, hp⟩
    · rename_i hc
      simp only [ne_eq, reduceCtorEq, not_false_eq_true, true_iff]
      refine ⟨h, by simp, ?_⟩
      have h1 : h.state ≠ .eFinally := fun e => hc (Or.inl e)
      cases hs' : h.state with
      | eTry => exact Or.inl rfl
      | eFinally => exact absurd hs' h1
      | eCatch =>
        right
        refine ⟨rfl, ?_⟩
        cases hf : h.hasFinally with
        | true => rfl
        | false => exact absurd (Or.inr ⟨hs', hf⟩) hc

/-- handleException pops exactly the contexts above the first one that can take the exception; that
context keeps its script context, everything below it (try stacks included) is untouched. -/
theorem handle_spec : ∀ (cs cs' : List (SC × List Handler)) (p : Bool), handle cs = some (cs', p) →
    ∃ n, handlerDepth cs = some n ∧ n < cs.length ∧ cs'.map (·.1) = (cs.map (·.1)).drop n ∧
      cs'.tail = cs.drop (n + 1)
  | [], cs', p, h => by simp [handle] at h
  | (s, ts) :: rest, cs', p, h => by
    simp only [handle] at h
    split at h
    · rename_i hu
      obtain ⟨n, h1, h2, h3, h4⟩ := handle_spec rest cs' p h
      exact ⟨n + 1, by simp [handlerDepth, hu, h1], by simp; omega, by simpa using h3, by simpa using h4⟩
    · rename_i hd hs hu
      refine ⟨0, by simp [handlerDepth, hu], by simp, ?_, ?_⟩ <;>
      · split at h <;> (cases h; simp)

theorem handle_none_iff : ∀ cs : List (SC × List Handler), handle cs = none ↔ handlerDepth cs = none
  | [] => by simp [handle, handlerDepth]
  | (s, ts) :: rest => by
    cases hu : usable ts with
    | nil => simp [handle, handlerDepth, hu, handle_none_iff rest]
    | cons h hs =>
      simp only [handle, handlerDepth, hu]
      split <;> simp

theorem popN_drop : ∀ (n : Nat) (v : VM), n ≤ v.istack.length → v.popN n = .ok ⟨v.istack.drop n⟩
  | 0, v, _ => by simp [VM.popN]
  | n+1, v, h => by
    cases hv : v.istack with
    | nil => rw [hv] at h; simp at h
    | cons s rest =>
      have : v.pop = .ok ⟨rest⟩ := by simp [VM.pop, hv]
      simp only [VM.popN, this]
      rw [popN_drop n ⟨rest⟩ (by rw [hv] at h; simpa using h)]
      simp

theorem suffix_take {α : Type} {base new : List α} (h : base <:+ new) :
    new = new.take (new.length - base.length) ++ base := by
  obtain ⟨t, rfl⟩ := h
  simp

theorem retag_push (old : List (SC × List Handler)) (new : List SC) (h : old.map (·.1) <:+ new) :
    (retag false old new).map (·.1) = new := by
  have hl : new.length ≥ old.length := by
    have := h.length_le; simpa using this
  unfold retag
  simp only [Bool.false_eq_true, if_false, hl, if_true, List.map_append, List.map_map]
  have := suffix_take h
  simp only [List.length_map] at this
  have e : List.map ((fun x : SC × List Handler => x.fst) ∘ fun x => (x, ([] : List Handler)))
      (List.take (new.length - old.length) new) = List.take (new.length - old.length) new := by
    simp [Function.comp_def]
  rw [e]; exact this.symm

theorem retag_pop (old : List (SC × List Handler)) (n : Nat) (hn : n ≤ old.length) :
    (retag false old ((old.map (·.1)).drop n)).map (·.1) = (old.map (·.1)).drop n := by
  unfold retag
  simp only [Bool.false_eq_true, if_false, List.length_drop, List.length_map]
  by_cases h0 : n = 0
  · subst h0; simp
  · have : ¬ (old.length - n ≥ old.length) := by omega
    simp only [this, if_false]
    have : old.length - (old.length - n) = n := by omega
    rw [this, List.map_drop]

theorem retag_reset (old : List (SC × List Handler)) (new : List SC) :
    (retag true old new).map (·.1) = new := by
  simp [retag, Function.comp_def]

/-- the try stacks follow the frame machine: after a step of the frame machine the contexts are exactly its
new invocation stack. -/
theorem base_step_projects {t : VMT} {op : Op} {v' : VM} (h : t.base.step op = .ok v') :
    (retag op.resets t.ctxs v'.istack).map (·.1) = v'.istack := by
  by_cases hr : op.resets = true
  · rw [hr]; exact retag_reset _ _
  · have hr' : op.resets = false := by simpa using hr
    rw [hr']
    have hbase : op.base t.base = t.base.istack := by
      cases op <;> first | rfl | (simp [Op.resets] at hr')
    rcases step_shape op h with ⟨fr, init, _, hs⟩ | ⟨_, hs, _⟩ | ⟨n, _, hs, hn⟩
    · apply retag_push
      obtain ⟨x, hx⟩ := pushSC_cons (op.base t.base) fr
      have h1 : t.base.istack <:+ pushSC (op.base t.base) fr := by
        rw [hx, hbase]; exact List.suffix_cons _ _
      rw [hs]
      split
      · exact List.IsSuffix.trans h1 (dupTop_suffix _)
      · exact h1
    · apply retag_push
      rw [hs]; exact dupTop_suffix _
    · rw [hs]
      exact retag_pop t.ctxs n (by simpa [VMT.base] using hn)

/-- Every step of the machine with exceptions is, on the script contexts, a run of the frame machine: the
same step, nothing (TRY, ENDTRY, ENDFINALLY without a pending exception), or an unwinding whose depth is
computed from the try stacks (`handlerDepth`) — not supplied from outside. -/
theorem tstep_projects {t t' : VMT} (op : TOp) (h : t.step op = .ok t') :
    ∃ ops : List Op, ops.length ≤ 1 ∧ t.base.run ops = .ok t'.base ∧
      (∀ o ∈ ops, op = .base o ∨ (o = .unwind ((handlerDepth t.ctxs).getD 0) ∧ (op = .throw ∨ op = .endFinally))) := by
  have hnoop : ∀ cs, cs.map (·.1) = t.ctxs.map (·.1) → ∀ p, t' = ⟨cs, p⟩ →
      ∃ ops : List Op, ops.length ≤ 1 ∧ t.base.run ops = .ok t'.base ∧
        (∀ o ∈ ops, op = .base o ∨ (o = .unwind ((handlerDepth t.ctxs).getD 0) ∧ (op = .throw ∨ op = .endFinally))) := by
    intro cs hcs p ht
    refine ⟨[], by simp, ?_, by simp⟩
    subst ht
    simp [VM.run, VMT.base, hcs]
  have hthrow : ∀ cs p, handle t.ctxs = some (cs, p) → t' = ⟨cs, p⟩ → (op = .throw ∨ op = .endFinally) →
      ∃ ops : List Op, ops.length ≤ 1 ∧ t.base.run ops = .ok t'.base ∧
        (∀ o ∈ ops, op = .base o ∨ (o = .unwind ((handlerDepth t.ctxs).getD 0) ∧ (op = .throw ∨ op = .endFinally))) := by
    intro cs p hh ht hop
    obtain ⟨n, h1, h2, h3, _⟩ := handle_spec _ _ _ hh
    refine ⟨[.unwind n], by simp, ?_, ?_⟩
    · subst ht
      have hs : t.base.step (.unwind n) = .ok ⟨t.base.istack.drop n⟩ := popN_drop n t.base (by simp [VMT.base]; omega)
      simp only [VM.run, hs]
      simp [VMT.base, h3]
    · intro o ho
      simp only [List.mem_singleton] at ho
      right; exact ⟨by rw [ho, h1]; rfl, hop⟩
  cases op with
  | base o =>
    simp only [VMT.step] at h
    split at h
    · cases h
    · rename_i v' hv
      cases h
      refine ⟨[o], by simp, ?_, by simp⟩
      simp only [VM.run, hv]
      cases v'
      simp [VMT.base, base_step_projects hv]
  | try_ c f =>
    simp only [VMT.step] at h
    split at h
    · cases h
    · rename_i s ts rest hc
      split at h
      · cases h
      · split at h
        · cases h
        · cases h; exact hnoop _ (by simp [hc]) _ rfl
  | endTry =>
    simp only [VMT.step] at h
    split at h
    · cases h
    · cases h
    · rename_i s hd hs rest hc
      split at h
      · cases h
      · split at h <;> (cases h; exact hnoop _ (by simp [hc]) _ rfl)
  | endFinally =>
    simp only [VMT.step] at h
    split at h
    · split at h
      · cases h
      · rename_i cs p hh; cases h; exact hthrow cs p hh rfl (Or.inr rfl)
    · split at h
      · cases h
      · cases h
      · rename_i hc; cases h; exact hnoop _ (by simp [hc]) _ rfl
  | throw =>
    simp only [VMT.step] at h
    split at h
    · cases h
    · rename_i cs p hh; cases h; exact hthrow cs p hh rfl (Or.inl rfl)


/-- `P` holds for every step of the frame machine contained in the run. -/
def TAllAlong (P : VM → Op → Prop) : VMT → List TOp → Prop
  | _, [] => True
  | t, op :: ops =>
    (match op with | .base o => P t.base o | _ => True) ∧
    match t.step op with
    | .ok t' => TAllAlong P t' ops
    | .error _ => True

theorem reach_tstep {P : VM → Op → Prop} (hun : ∀ v n, P v (.unwind n)) {t t' : VMT} {op : TOp}
    (hr : Reach P t.base) (hp : match op with | .base o => P t.base o | _ => True) (h : t.step op = .ok t') :
    Reach P t'.base := by
  obtain ⟨ops, hl, hrun, hops⟩ := tstep_projects op h
  match ops, hl, hrun, hops with
  | [], _, hrun, _ =>
    simp only [VM.run, Except.ok.injEq] at hrun
    rw [← hrun]; exact hr
  | [o], _, hrun, hops =>
    simp only [VM.run] at hrun
    split at hrun
    · cases hrun
    · rename_i v1 h1
      simp only [Except.ok.injEq] at hrun
      rw [← hrun]
      refine Reach.step hr ?_ h1
      rcases hops o (by simp) with rfl | ⟨rfl, _⟩
      · exact hp
      · exact hun _ _

theorem reach_trun {P : VM → Op → Prop} (hun : ∀ v n, P v (.unwind n)) : ∀ (ops : List TOp) {t t' : VMT},
    Reach P t.base → TAllAlong P t ops → t.run ops = .ok t' → Reach P t'.base
  | [], t, t', hr, _, h => by simp [VMT.run] at h; cases h; exact hr
  | op :: ops, t, t', hr, ha, h => by
    simp only [VMT.run] at h
    obtain ⟨hp, ha⟩ := ha
    split at h
    · cases h
    · rename_i t1 h1
      rw [h1] at ha
      exact reach_trun hun ops (reach_tstep hun hr hp h1) ha h

end NeoModel.Witness
