/-
Preservation of the invariant by the composite operations of the token model: updateAccBalance,
transfer, vote, candidate registration, Notary deposits, block-level fee and reward handling.
-/
import NeoModel.Proofs.TokensNeo
namespace NeoModel.Tokens

/-! ### updateAccBalance for NEO -/

theorem NeoUpd.refl (l : Ledger) (a : Nat) (hv : VotesOK l.neo l.cands l.voters) : NeoUpd l l a 0 :=
  ⟨rfl, rfl, rfl, rfl, rfl, hv, by simp, fun k => by simp⟩

theorem updNeo_run (e : Env) (l : Ledger) (a : Nat) (amt : Int) (req : Option Int) (l' : Ledger) (d : Option Int)
    (hv : VotesOK l.neo l.cands l.voters) (hz : amt = 0 → (get l.neo a).isSome = true)
    (h : (if (neoInc e l (get l.neo a) amt req).ok = true then
            ({ (neoInc e l (get l.neo a) amt req).l with
                neo := store (neoInc e l (get l.neo a) amt req).l.neo a (neoInc e l (get l.neo a) amt req).si },
              true, (neoInc e l (get l.neo a) amt req).dist)
          else ((neoInc e l (get l.neo a) amt req).l, false, none)) = (l', true, d)) :
    NeoUpd l l' a amt := by
  split at h
  · rename_i hok
    injection h with h1 _
    subst h1
    exact neoInc_store e l a amt req hv hz hok
  · injection h with _ h2; injection h2 with h2; simp at h2

theorem updNeo_true (e : Env) (l : Ledger) (a : Nat) (amt : Int) (req : Option Int) (l' : Ledger) (d : Option Int)
    (hv : VotesOK l.neo l.cands l.voters) (h : updNeo e l a amt req = (l', true, d)) : NeoUpd l l' a amt := by
  unfold updNeo at h
  simp only [] at h
  split at h
  · rename_i hg
    split at h
    · injection h with _ h2; injection h2 with h2; simp at h2
    · split at h
      · injection h with _ h2; injection h2 with h2; simp at h2
      · split at h
        · rename_i h0
          injection h with h1 _
          subst h1; rw [h0]; exact NeoUpd.refl l a hv
        · rename_i h0
          rw [← hg] at h
          exact updNeo_run e l a amt req l' d hv (fun hh => absurd hh h0) h
  · rename_i acc hg
    rw [← hg] at h
    exact updNeo_run e l a amt req l' d hv (fun _ => by simp [hg]) h

theorem updNeo_false (e : Env) (l : Ledger) (a : Nat) (amt : Int) (req : Option Int) (l' : Ledger) (d : Option Int)
    (h : updNeo e l a amt req = (l', false, d)) : sameCore l l' ∧ l'.events = l.events := by
  unfold updNeo at h
  simp only [] at h
  have key : ∀ si, (if (neoInc e l si amt req).ok = true then
            ({ (neoInc e l si amt req).l with
                neo := store (neoInc e l si amt req).l.neo a (neoInc e l si amt req).si },
              true, (neoInc e l si amt req).dist)
          else ((neoInc e l si amt req).l, false, none)) = (l', false, d) → sameCore l l' ∧ l'.events = l.events := by
    intro si hh
    split at hh
    · injection hh with _ h2; injection h2 with h2; simp at h2
    · rename_i hok
      injection hh with h1 _
      subst h1
      exact neoInc_fail e l si amt req (by simpa using hok)
  split at h
  · split at h
    · injection h with h1 _; subst h1; exact ⟨sameCore.rfl' _, rfl⟩
    · split at h
      · injection h with h1 _; subst h1; exact ⟨sameCore.rfl' _, rfl⟩
      · split at h
        · injection h with _ h2; injection h2 with h2; simp at h2
        · exact key none h
  · exact key _ h

theorem InvG.updNeo {nt : Nat} {dn dg k : Int} {e : Env} {l l' : Ledger} {a : Nat} {amt : Int} {req d : Option Int}
    (hi : InvG nt dn dg k l) (h : updNeo e l a amt req = (l', true, d)) : InvG nt (dn + amt) dg k l' := by
  have u := updNeo_true e l a amt req l' d hi.votes h
  refine ⟨u.votes, by rw [u.neoSupply]; exact hi.neoSupply, ?_, by rw [u.gas, u.gasSupply]; exact hi.gas,
    by rw [u.gas, u.deps]; exact hi.notary⟩
  rw [u.sum, hi.neoSum, u.neoSupply]; omega

/-- a credit (positive amount, no balance requirement) cannot fail on a state satisfying the vote invariant:
the only error paths of the credit are a negative balance and a vote for a candidate without record. -/
theorem updNeo_credit_ok (e : Env) (l : Ledger) (a : Nat) (amt : Int) (hv : VotesOK l.neo l.cands l.voters)
    (hpos : 0 < amt) : (updNeo e l a amt none).2.1 = true := by
  have hacc : ∀ acc, get l.neo a = some acc → 0 < acc.bal := fun acc hg => hv.neoPos _ (get_mem _ _ _ hg)
  have hbal0 : 0 ≤ ((get l.neo a).getD {}).bal := by
    cases hg : get l.neo a with
    | none => simp
    | some acc => have := hacc acc hg; simp; omega
  have hok : (neoInc e l (get l.neo a) amt none).ok = true := by
    have hguard : ¬ neoGuard ((get l.neo a).getD {}).bal amt none := by
      unfold neoGuard belowOpt; simp; omega
    have hds := distributeGas_isSome e l ((get l.neo a).getD {}) hbal0
    obtain ⟨r, hd⟩ := Option.isSome_iff_exists.mp hds
    obtain ⟨acc1, g⟩ := r
    obtain ⟨hb1, hv1⟩ := distributeGas_some e l _ acc1 g hd
    cases hm : modVotes l acc1 amt false with
    | mk l1 b =>
      cases b with
      | true => rw [neoInc_nonzero e l _ amt none acc1 g l1 (by omega) hguard hd hm]
      | false =>
        exfalso
        obtain ⟨_, _, c, hc, hnone⟩ := modVotes_false l acc1 amt false l1 hm
        -- the account votes for c, so it is stored with a positive balance, so c has positive votes
        cases hg : get l.neo a with
        | none => rw [hv1, hg] at hc; simp at hc
        | some acc =>
          rw [hv1, hg] at hc; simp at hc
          have h1 := hv.votes c
          have h2 : at0 (voteW c) l.neo a ≤ sumBy (voteW c) l.neo :=
            at0_le_sumBy _ _ _ (fun p hp => by
              have := hv.neoPos p hp; simp only [voteW]; split <;> omega)
          have h3 : at0 (voteW c) l.neo a = acc.bal := by simp [at0, hg, voteW, hc]
          have h4 := hacc acc hg
          simp [at0, hnone] at h1
          omega
  unfold updNeo
  simp only []
  cases hg : get l.neo a with
  | none =>
    simp only []
    rw [if_neg (by omega), if_neg (by simp [posOpt]), if_neg (by omega)]
    rw [hg] at hok
    simp [hok]
  | some acc =>
    simp only []
    rw [hg] at hok
    simp [hok]


/-! ### updateAccBalance, both tokens -/

theorem updGas_credit_ok (l : Ledger) (a : Nat) (amt : Int) (hp : ∀ p ∈ l.gas, 0 < p.2) (hpos : 0 < amt) :
    (updGas l a amt none).2.1 = true := by
  have hok : ∀ si : Option Int, 0 ≤ si.getD 0 → (gasInc l si amt none).ok = true := by
    intro si hs
    unfold gasInc; simp only []
    rw [if_neg (by omega), if_neg (by omega)]
  unfold updGas; simp only []
  cases hg : get l.gas a with
  | none =>
    simp only []
    rw [if_neg (by omega), if_neg (by simp [posOpt]), if_neg (by omega)]
    simp [hok none (by simp)]
  | some b =>
    simp only []
    have := hp _ (get_mem _ _ _ hg)
    simp [hok (some b) (by simp at this ⊢; omega)]

theorem InvG.upd {nt : Nat} {dn dg k : Int} {t : Tok} {e : Env} {l l' : Ledger} {a : Nat} {amt : Int} {req d : Option Int}
    (hi : InvG nt dn dg k l) (h : upd t e l a amt req = (l', true, d)) :
    InvG nt (dn + if t = .neo then amt else 0) (dg + if t = .gas then amt else 0)
      (k + if t = .gas ∧ a = nt then amt else 0) l' := by
  cases t with
  | neo => simpa using hi.updNeo h
  | gas => simpa using hi.updGas h

theorem upd_false (t : Tok) (e : Env) (l : Ledger) (a : Nat) (amt : Int) (req : Option Int) (l' : Ledger) (d : Option Int)
    (h : upd t e l a amt req = (l', false, d)) : sameCore l l' ∧ l'.events = l.events := by
  cases t with
  | neo => exact updNeo_false e l a amt req l' d h
  | gas => rw [updGas_false l a amt req l' d h]; exact ⟨sameCore.rfl' _, rfl⟩

theorem upd_credit_ok {nt : Nat} {dn dg k : Int} (t : Tok) (e : Env) (l : Ledger) (a : Nat) (amt : Int)
    (hi : InvG nt dn dg k l) (hpos : 0 < amt) : (upd t e l a amt none).2.1 = true := by
  cases t with
  | neo => exact updNeo_credit_ok e l a amt hi.votes hpos
  | gas => exact updGas_credit_ok l a amt hi.gas.pos hpos

/-! ### transfer -/

/-- a transfer that returns `false` has changed nothing the invariant reads (in particular no balance):
the credit of `to` cannot fail after `from` was debited. -/
theorem transferPre_ret {nt : Nat} {dn dg k : Int} (t : Tok) (e : Env) (l : Ledger) (src dst : Nat) (amt : Int)
    (wit : Bool) (l' : Ledger) (b : Bool) (hi : InvG nt dn dg k l)
    (h : transferPre t e l src dst amt wit = .ret l' b) : sameCore l l' ∧ b = false ∧ l'.events = l.events := by
  unfold transferPre at h
  simp only [] at h
  split at h
  · simp at h
  · split at h
    · injection h with h1 h2; subst h1; exact ⟨sameCore.rfl' _, h2.symm, rfl⟩
    · cases hu : upd t e l src (if src = dst ∨ amt = 0 then 0 else -amt) (some amt) with
      | mk l1 r =>
        obtain ⟨ok1, d1⟩ := r
        cases ok1 with
        | false =>
          simp only [hu] at h
          injection h with h1 h2; subst h1
          exact ⟨(upd_false _ _ _ _ _ _ _ _ hu).1, h2.symm, (upd_false _ _ _ _ _ _ _ _ hu).2⟩
        | true =>
          simp only [hu] at h
          split at h
          · simp at h
          · rename_i hne
            have hpos : 0 < amt := by
              have : ¬ amt = 0 := fun hh => hne (Or.inr hh)
              omega
            have hi1 := hi.upd hu
            have hc := upd_credit_ok t e l1 dst amt hi1 hpos
            cases hu2 : upd t e l1 dst amt none with
            | mk l2 r2 =>
              obtain ⟨ok2, d2⟩ := r2
              rw [hu2] at hc
              simp at hc
              subst hc
              simp only [hu2] at h
              simp at h

theorem transferPre_posted {nt : Nat} {dn dg k : Int} (t : Tok) (e : Env) (l : Ledger) (src dst : Nat) (amt : Int)
    (wit : Bool) (l' : Ledger) (d1 d2 : Option (Nat × Int)) (hi : InvG nt dn dg k l)
    (h : transferPre t e l src dst amt wit = .posted l' d1 d2) :
    InvG nt dn dg (k + (if t = .gas ∧ dst = nt then amt else 0) - (if t = .gas ∧ src = nt then amt else 0)) l' ∧ 0 ≤ amt := by
  unfold transferPre at h
  simp only [] at h
  split at h
  · simp at h
  · rename_i hneg
    refine ⟨?_, by omega⟩
    split at h
    · simp at h
    · cases hu : upd t e l src (if src = dst ∨ amt = 0 then 0 else -amt) (some amt) with
      | mk l1 r =>
        obtain ⟨ok1, dd1⟩ := r
        cases ok1 with
        | false => simp only [hu] at h; simp at h
        | true =>
          simp only [hu] at h
          have hi1 := hi.upd hu
          split at h
          · rename_i hemp
            injection h with h1 _ _
            subst h1
            rw [if_pos hemp] at hi1
            refine InvG.congr ?_ (sameCore_addEvent _ _)
            have e1 : dn + (if t = Tok.neo then (0 : Int) else 0) = dn := by split <;> omega
            have e2 : dg + (if t = Tok.gas then (0 : Int) else 0) = dg := by split <;> omega
            rw [e1, e2] at hi1
            have e3 : (k + if t = Tok.gas ∧ src = nt then (0 : Int) else 0) =
                (k + (if t = .gas ∧ dst = nt then amt else 0) - (if t = .gas ∧ src = nt then amt else 0)) := by
              rcases hemp with hh | hh
              · subst hh; split <;> omega
              · subst hh; split <;> split <;> omega
            rw [← e3]; exact hi1
          · rename_i hemp
            rw [if_neg hemp] at hi1
            cases hu2 : upd t e l1 dst amt none with
            | mk l2 r2 =>
              obtain ⟨ok2, dd2⟩ := r2
              cases ok2 with
              | false => simp only [hu2] at h; simp at h
              | true =>
                simp only [hu2] at h
                injection h with h1 _ _
                subst h1
                have hi2 := hi1.upd hu2
                refine InvG.congr ?_ (sameCore_addEvent _ _)
                have e1 : dn + (if t = Tok.neo then -amt else 0) + (if t = Tok.neo then amt else 0) = dn := by split <;> omega
                have e2 : dg + (if t = Tok.gas then -amt else 0) + (if t = Tok.gas then amt else 0) = dg := by split <;> omega
                rw [e1, e2] at hi2
                have e3 : (k + (if t = Tok.gas ∧ src = nt then -amt else 0) + if t = Tok.gas ∧ dst = nt then amt else 0) =
                    (k + (if t = .gas ∧ dst = nt then amt else 0) - (if t = .gas ∧ src = nt then amt else 0)) := by
                  split <;> split <;> omega
                rw [← e3]; exact hi2

end NeoModel.Tokens
