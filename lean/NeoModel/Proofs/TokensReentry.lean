/-
Re-entrant receivers: at every payment site that runs a callback the account items are written BEFORE the callback
(the callee sees the post-operation accounts), and the GAS rewards of a transfer are paid after it.
-/
import NeoModel.Proofs.TokensAL
namespace NeoModel.Tokens

/-- a successful vote has stored the voter's account item with the new vote. -/
theorem votePre_saved (e : Env) (l l' : Ledger) (h : Nat) (pub : Option Nat) (wit : Bool) (g : Option Int)
    (hv : votePre e l h pub wit = (l', true, g)) : ∃ a, get l'.neo h = some a ∧ a.vote = pub := by
  unfold votePre at hv
  split at hv
  · cases hv
  · split at hv
    · cases hv
    · split at hv
      · cases hv
      · simp only [] at hv
        split at hv
        · cases hv
        · split at hv
          · cases hv
          · split at hv
            · cases hv
            · injection hv with h1 _
              subst h1
              refine ⟨_, get_put_eq _ _ _, ?_⟩
              unfold voteNewAcc
              cases pub <;> rfl

theorem mintGasCb_neo (e : Env) (l l' : Ledger) (h : Nat) (amt : Int) (hm : mintGasCb e l h amt = some l') : l'.neo = l.neo := by
  unfold mintGasCb at hm
  split at hm
  · cases hm
  · unfold mintGas at hm
    split at hm
    · injection hm with hm; subst hm; rfl
    · unfold gasAddTokens at hm
      simp only [] at hm
      split at hm
      · simp only [Option.map_some, Option.some.injEq] at hm
        subst hm
        simp [addEvent, gasInc]
        split <;> (try split) <;> rfl
      · simp at hm

/-- vote's reward: when the callback of the reward payment starts (a frame is pushed), the ledger it sees holds the
voter's account item with the new vote — `votePre` wrote it before the mint. -/
theorem vote_reward_callback_sees_saved_account (s : St) (acc : Nat) (pub caller : Option Nat) (l l' : Ledger) (g : Int)
    (hf : s.failing = false)
    (hv : votePre s.env s.cur acc pub (witOf s.env acc caller s.env.neoC) = (l, true, some g))
    (hm : mintGasCb s.env l acc g = some l') (hg : g ≠ 0) :
    (exec s (.vote acc pub caller true)).cbs = ⟨none, none⟩ :: s.cbs ∧
    (exec s (.vote acc pub caller true)).cur = l' ∧ l'.neo = l.neo ∧ ∃ a, get l'.neo acc = some a ∧ a.vote = pub := by
  have hn := mintGasCb_neo _ _ _ _ _ hm
  obtain ⟨a, ha, hp⟩ := votePre_saved _ _ _ _ _ _ _ hv
  simp only [exec, hf, hv, hm]
  simp only [Bool.false_eq_true, if_false, true_and, ne_eq, hg, not_false_eq_true, if_true]
  exact ⟨hn, a, by rw [hn]; exact ha, hp⟩

/-- transfer to a contract that calls back: when the callback starts, the ledger it sees is the one `transferPre`
left — both account items updated and the Transfer notification emitted — and the two GAS rewards (of `from` and of
`to`) wait in the frame until the callback has returned. -/
theorem transfer_callback_sees_updated_accounts (s : St) (t : Tok) (l : Ledger) (src dst : Nat) (amt : Int) (data : Data)
    (d1 d2 : Option (Nat × Int)) (h1 : dst ≠ s.env.notary) (h2 : dst ≠ s.env.neoC) (hb : l.blocked.contains dst = false) :
    (afterPosted s t l src dst amt .cb data d1 d2).cur = l ∧
    (afterPosted s t l src dst amt .cb data d1 d2).cbs = ⟨d1, d2⟩ :: s.cbs := by
  have hb' : ¬ dst ∈ l.blocked := by simpa using hb
  unfold afterPosted
  simp [h1, h2, hb']

end NeoModel.Tokens
