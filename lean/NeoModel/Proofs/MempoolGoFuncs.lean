/-
C08, tie by translation (mine; the coordinator's Proofs/GoFuncs/C08.lean covers item.Compare and FeePerByte).
`Generated.GoFuncs` is re-translated from /repo's Go source on every check run (harness/cmd/extract/gofuncs.go,
specs in gofuncs_c08.go). Proved here, for all arguments:
* the translated `Pool.checkPolicy` is the model's `checkPolicy`;
* the translated `Pool.count` is the length the driver prints;
* the hypothesis of `policy_reachable` that "every Add offers a transaction paying the policy reported at that
  moment" is what the translated `Blockchain.verifyAndPoolTx` guarantees on every path that reaches `pool.Add`.
-/
import NeoModel.Generated.GoFuncs
import NeoModel.Model.Mempool
namespace NeoModel.GoFuncsTie
open NeoModel NeoModel.Generated

/-- the translated `Pool.checkPolicy` (mem_pool.go:493) is the model's `checkPolicy` -/
theorem mempoolCheckPolicy_eq (mp : Mempool.Pool) (t : Mempool.Tx) (pc : Bool) :
    GoFuncs.mempoolCheckPolicy pc (t.feePerByte : Int) (mp.feePerByte : Int) = Mempool.checkPolicy mp t pc := by
  unfold GoFuncs.mempoolCheckPolicy Mempool.checkPolicy
  cases pc <;> simp

/-- the translated `Pool.count` (mem_pool.go:129) is the length of the list -/
theorem mempoolCount_eq (mp : Mempool.Pool) : GoFuncs.mempoolCount (mp.txs.length : Int) = mp.txs.length := rfl

/-- `Blockchain.verifyAndPoolTx` (blockchain.go:3005), translated: whenever it gets as far as `pool.Add` and the
pool accepts (result "ok"), the transaction's network fee covers size * FeePerByte + attribute fees; hence its
fee per byte (translated `Transaction.FeePerByte`) is at least the policy value the chain reports. -/
theorem pooled_pays_policy (a1 : Bool) (h : Int) (dn : Bool) (vub inc : Int) (pe : Bool) (size fpb attr net : Int)
    (b1 b2 b3 b4 b5 c1 c2 c3 c4 c5 : Bool) (hattr : 0 ≤ attr) (hsize : 0 < size) (hfpb : 0 ≤ fpb)
    (hres : GoFuncs.verifyAndPoolTx a1 h dn vub inc pe size fpb attr net b1 b2 b3 b4 b5 false c1 c2 c3 c4 c5 = "ok") :
    size * fpb + attr ≤ net ∧ fpb ≤ GoFuncs.txFeePerByte net size := by
  have key : size * fpb + attr ≤ net := by
    apply Classical.byContradiction
    intro hn
    have hlt : net - (size * fpb + attr) < 0 := by omega
    unfold GoFuncs.verifyAndPoolTx at hres
    dsimp only at hres
    rw [if_pos hlt] at hres
    repeat' split at hres
    all_goals (revert hres; decide)
  refine ⟨key, ?_⟩
  unfold GoFuncs.txFeePerByte
  have hnet : 0 ≤ net := by
    have : 0 ≤ size * fpb := Int.mul_nonneg (Int.le_of_lt hsize) hfpb
    omega
  rw [Int.tdiv_eq_ediv_of_nonneg hnet]
  apply Int.le_ediv_of_mul_le hsize
  rw [Int.mul_comm]; omega

/-! ### second batch (translator v2: field writes, several results, effect lists) -/

/-- the translated `Pool.loadPolicy` (mem_pool.go:483): (policyChanged, final mp.feePerByte) is the model's -/
theorem mempoolLoadPolicy_eq (mp : Mempool.Pool) (feer : Mempool.Feer) :
    GoFuncs.mempoolLoadPolicy (mp.feePerByte : Int) (feer.feePerByte : Int)
      = ((Mempool.loadPolicy mp feer).2, (((Mempool.loadPolicy mp feer).1.feePerByte : Nat) : Int)) := by
  unfold GoFuncs.mempoolLoadPolicy Mempool.loadPolicy
  by_cases h : feer.feePerByte > mp.feePerByte
  · have h' : (feer.feePerByte : Int) > (mp.feePerByte : Int) := by omega
    simp [h, h']
  · have h' : ¬ (feer.feePerByte : Int) > (mp.feePerByte : Int) := by omega
    simp [h, h']

/-- `uint256.Int.Cmp` -/
def cmpI (a b : Nat) : Int := if a < b then -1 else if a = b then 0 else 1

theorem cmpI_neg_iff (a b : Nat) : cmpI a b < 0 ↔ a < b := by
  unfold cmpI
  by_cases h1 : a < b
  · simp [h1]
  · by_cases h2 : a = b <;> simp [h1, h2]

def errLabel : Option Mempool.Err → String
  | none => "ok"
  | some .funds => "ErrInsufficientFunds"
  | some .conflict => "ErrConflict"
  | some .dup => "ErrDup"
  | some .oom => "ErrOOM"
  | some .cattr => "ErrConflictsAttribute"
  | some .oracle => "ErrOracleResponse"

/-- the translated `checkBalance` (mem_pool.go:218), fed with the two comparisons the code makes (balance against
the fee, then against fee + pooled sum): the same error, in the same order, as the model's `checkBalance`; the fee
is set before the first comparison and the pooled sum added between the two. -/
theorem mempoolCheckBalance_eq (t : Mempool.Tx) (b : Mempool.Fee) :
    (GoFuncs.mempoolCheckBalance (cmpI b.balance t.fee) (cmpI b.balance (Mempool.addW t.fee b.feeSum))).2.1
      = errLabel (Mempool.checkBalance t b).2 ∧
    (GoFuncs.mempoolCheckBalance (cmpI b.balance t.fee) (cmpI b.balance (Mempool.addW t.fee b.feeSum))).2.2
      = (if b.balance < t.fee then ["txFee.SetUint64"] else ["txFee.SetUint64", "txFee.Add"]) := by
  unfold GoFuncs.mempoolCheckBalance Mempool.checkBalance
  simp only [cmpI_neg_iff]
  by_cases h1 : b.balance < t.fee
  · simp [h1, errLabel]
  · by_cases h2 : b.balance < Mempool.addW t.fee b.feeSum
    · simp [h1, h2, errLabel]
    · simp [h1, h2, errLabel]

/-- the translated `Pool.tryAddSendersFee` (mem_pool.go:196), fed with what the model computes for its callees
(cache hit flag of getPayerFee, error of checkBalance): the same verdict as the model's `tryAddSendersFee`, and
`feeSum.AddUint64` is executed exactly when no check is requested. -/
theorem mempoolTryAddSendersFee_eq (mp : Mempool.Pool) (t : Mempool.Tx) (feer : Mempool.Feer) (needCheck : Bool)
    (a b c d e : Int) :
    let pf := Mempool.getPayerFee (Mempool.payerOf t) mp.fees feer
    let r := GoFuncs.mempoolTryAddSendersFee needCheck a b c d pf.2 e (Mempool.checkBalance t pf.1).2.isSome
    r.1 = (Mempool.tryAddSendersFee mp t feer needCheck).2 ∧
    r.2.2.2 = (if needCheck then [] else ["payerFee.feeSum.AddUint64"]) := by
  intro pf r
  show (GoFuncs.mempoolTryAddSendersFee needCheck a b c d pf.2 e (Mempool.checkBalance t pf.1).2.isSome).1 = _ ∧
    (GoFuncs.mempoolTryAddSendersFee needCheck a b c d pf.2 e (Mempool.checkBalance t pf.1).2.isSome).2.2.2 = _
  unfold GoFuncs.mempoolTryAddSendersFee Mempool.tryAddSendersFee
  show _ ∧ _
  cases needCheck <;> cases hok : pf.2 <;> cases hcb : Mempool.checkBalance t pf.1 with
  | mk s eo => cases eo <;> simp_all [pf]

/-- the translated `Pool.containsKey` (mem_pool.go:142) / `Pool.TryGetValue` (:536) are the model's look-ups -/
theorem mempoolContainsKey_eq (mp : Mempool.Pool) (h : Nat) :
    GoFuncs.mempoolContainsKey (mp.vmap h).isSome = Mempool.containsKey mp h := by
  unfold GoFuncs.mempoolContainsKey Mempool.containsKey
  cases (mp.vmap h).isSome <;> rfl

theorem mempoolTryGetValue_eq (mp : Mempool.Pool) (h : Nat) (code : Int) :
    (GoFuncs.mempoolTryGetValue code (mp.vmap h).isSome).2 = (Mempool.tryGetValue mp h).isSome := by
  unfold GoFuncs.mempoolTryGetValue Mempool.tryGetValue
  cases (mp.vmap h).isSome <;> rfl

/-- `Blockchain.verifyAndPoolTx`, translated: `verifyTxAttributes` is called before `pool.Add` - when it returns an
error, the outcome is not "ok" whatever `pool.Add` would say (the pool is not even asked: the label returned is the
attribute error). So every transaction that reaches `Pool.Add` has passed the attribute verification, whose
ConflictsT case rejects repeated Conflicts hashes (Proofs/MempoolAdmit.lean). -/
theorem pool_add_after_attributes (a1 : Bool) (h : Int) (dn : Bool) (vub inc : Int) (pe : Bool) (size fpb attr net : Int)
    (b1 b2 b3 b4 pa c1 c2 c3 c4 c5 : Bool) :
    GoFuncs.verifyAndPoolTx a1 h dn vub inc pe size fpb attr net b1 b2 b3 b4 true pa c1 c2 c3 c4 c5 ≠ "ok" := by
  intro hres
  unfold GoFuncs.verifyAndPoolTx at hres
  dsimp only at hres
  simp only [↓reduceIte] at hres
  repeat' split at hres
  all_goals (revert hres; decide)

end NeoModel.GoFuncsTie
