/-
C08, tie by translation (mine; the coordinator's Proofs/GoFuncs/C08.lean covers item.Compare and FeePerByte).
`Generated.GoFuncs` is re-translated from /repo's Go source on every check run (harness/cmd/extract/gofuncs.go,
specs in gofuncs_c08.go). Proved here, for all arguments:
* the translated `Pool.checkPolicy` is the model's `checkPolicy`;
* the translated `Pool.count` is the length the driver prints;
* the hypothesis of `policy_reachable` that "every Add offers a transaction paying the policy reported at that
  moment" is what the translated `Blockchain.verifyAndPoolTx` guarantees on every path that reaches `pool.Add`.
-/
import NeoModel.Generated.GoFuncs
import NeoModel.Model.Mempool
namespace NeoModel.GoFuncsTie
open NeoModel NeoModel.Generated

/-- the translated `Pool.checkPolicy` (mem_pool.go:493) is the model's `checkPolicy` -/
theorem mempoolCheckPolicy_eq (mp : Mempool.Pool) (t : Mempool.Tx) (pc : Bool) :
    GoFuncs.mempoolCheckPolicy pc (t.feePerByte : Int) (mp.feePerByte : Int) = Mempool.checkPolicy mp t pc := by
  unfold GoFuncs.mempoolCheckPolicy Mempool.checkPolicy
  cases pc <;> simp

/-- the translated `Pool.count` (mem_pool.go:129) is the length of the list -/
theorem mempoolCount_eq (mp : Mempool.Pool) : GoFuncs.mempoolCount (mp.txs.length : Int) = mp.txs.length := rfl

/-- `Blockchain.verifyAndPoolTx` (blockchain.go:3005), translated: whenever it gets as far as `pool.Add` and the
pool accepts (result "ok"), the transaction's network fee covers size * FeePerByte + attribute fees; hence its
fee per byte (translated `Transaction.FeePerByte`) is at least the policy value the chain reports. -/
theorem pooled_pays_policy (a1 : Bool) (h : Int) (dn : Bool) (vub inc : Int) (pe : Bool) (size fpb attr net : Int)
    (b1 b2 b3 b4 b5 c1 c2 c3 c4 c5 : Bool) (hattr : 0 ≤ attr) (hsize : 0 < size) (hfpb : 0 ≤ fpb)
    (hres : GoFuncs.verifyAndPoolTx a1 h dn vub inc pe size fpb attr net b1 b2 b3 b4 b5 false c1 c2 c3 c4 c5 = "ok") :
    size * fpb + attr ≤ net ∧ fpb ≤ GoFuncs.txFeePerByte net size := by
  have key : size * fpb + attr ≤ net := by
    apply Classical.byContradiction
    intro hn
    have hlt : net - (size * fpb + attr) < 0 := by omega
    unfold GoFuncs.verifyAndPoolTx at hres
    dsimp only at hres
    rw [if_pos hlt] at hres
    repeat' split at hres
    all_goals (revert hres; decide)
  refine ⟨key, ?_⟩
  unfold GoFuncs.txFeePerByte
  have hnet : 0 ≤ net := by
    have : 0 ≤ size * fpb := Int.mul_nonneg (Int.le_of_lt hsize) hfpb
    omega
  rw [Int.tdiv_eq_ediv_of_nonneg hnet]
  apply Int.le_ediv_of_mul_le hsize
  rw [Int.mul_comm]; omega

end NeoModel.GoFuncsTie
