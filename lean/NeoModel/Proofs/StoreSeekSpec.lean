/-
C09 helper lemmas: uniqueness of the specified answer; Seek on every stack over every backend,
with every depth limit, gives it; what the caller observes with cutPrefix / an early stop.
-/
import NeoModel.Proofs.StoreBolt
set_option linter.unusedSimpArgs false
set_option linter.unusedVariables false
namespace NeoModel.Store

/-- two strictly ordered lists with the same members are the same list. -/
theorem sorted_ext (bw : Bool) (a b : List KV) (ha : SortedK bw a) (hb : SortedK bw b)
    (h : ∀ e, e ∈ a ↔ e ∈ b) : a = b := by
  induction a generalizing b with
  | nil =>
    cases b with
    | nil => rfl
    | cons y ys => exact absurd ((h y).mpr List.mem_cons_self) (by simp)
  | cons x xs ih =>
    cases b with
    | nil => exact absurd ((h x).mp List.mem_cons_self) (by simp)
    | cons y ys =>
      have ha' := List.pairwise_cons.mp ha
      have hb' := List.pairwise_cons.mp hb
      have hxy : x = y := by
        rcases List.mem_cons.mp ((h x).mp List.mem_cons_self) with h1 | h1
        · exact h1
        · rcases List.mem_cons.mp ((h y).mpr List.mem_cons_self) with h2 | h2
          · exact h2.symm
          · have := ltDir_trans (hb'.1 x h1) (ha'.1 y h2)
            rw [ltDir_irrefl] at this; cases this
      subst hxy
      congr 1
      apply ih ys ha'.2 hb'.2
      intro e
      constructor
      · intro he
        rcases List.mem_cons.mp ((h e).mp (List.mem_cons_of_mem _ he)) with h1 | h1
        · have := ha'.1 e he; rw [h1, ltDir_irrefl] at this; cases this
        · exact h1
      · intro he
        rcases List.mem_cons.mp ((h e).mpr (List.mem_cons_of_mem _ he)) with h1 | h1
        · have := hb'.1 e he; rw [h1, ltDir_irrefl] at this; cases this
        · exact h1

/-- the answer of an ordered map to a range scan is unique. -/
theorem isSpecSeek_unique (f : SpecMap) (rng : SeekRange) (a b : List KV)
    (ha : IsSpecSeek f rng a) (hb : IsSpecSeek f rng b) : a = b := by
  apply sorted_ext rng.bw a b ha.1 hb.1
  intro ⟨k, v⟩; rw [ha.2, hb.2]

theorem isSpecSeek_depth (f : SpecMap) (rng : SeekRange) (d : Nat) (r : List KV) :
    IsSpecSeek f { rng with depth := d } r ↔ IsSpecSeek f rng r := Iff.rfl

theorem isSpecSeek_empty (rng : SeekRange) : IsSpecSeek SpecMap.empty rng [] := by
  refine ⟨List.Pairwise.nil, ?_⟩
  intro k v; simp [SpecMap.empty]

theorem capped_zero (l : List KV) : capped 0 l = l := rfl
theorem cutAll_false (lP : Nat) (l : List KV) : cutAll false lP l = l := by simp [cutAll, cutKey]

theorem flattenD_backend_memB (d : Nat) (m s : GoMap) : (Store.memB m s).flattenD d = (Store.memB m s).flatten := by
  cases d with
  | zero => rfl
  | succ d => cases d <;> rfl
theorem flattenD_backend_level (d : Nat) (db : List KV) : (Store.level db).flattenD d = (Store.level db).flatten := by
  cases d with
  | zero => rfl
  | succ d => cases d <;> rfl
theorem flattenD_backend_bolt (d : Nat) (db : List KV) : (Store.bolt db).flattenD d = (Store.bolt db).flatten := by
  cases d with
  | zero => rfl
  | succ d => cases d <;> rfl

/-- Seek on any stack over any backend, any depth limit: the answer of the ordered map. -/
theorem seek_spec_all (s : Store) (hw : s.WF) (rng : SeekRange) (hp : rng.pfx ≠ []) :
    IsSpecSeek (s.flattenD rng.depth) rng (s.seek rng) := by
  induction s generalizing rng with
  | memB m st =>
    rw [flattenD_backend_memB]; exact memorySeek_spec m st hw.1 hw.2 rng hp
  | level db => rw [flattenD_backend_level]; exact levelSeek_spec db hw rng
  | bolt db => rw [flattenD_backend_bolt]; exact boltSeek_spec db hw rng
  | cached L ps ih =>
    simp only [Store.seek]
    rw [performSeek_eq, capped_zero, cutAll_false]
    obtain ⟨pfx, start, bw, depth⟩ := rng
    simp only at hp ⊢
    match depth with
    | 0 =>
      have hl : lowerRange { pfx := pfx, start := start, bw := bw, depth := 0 } = { pfx := pfx, start := start, bw := bw, depth := 0 } := rfl
      rw [hl]
      simp only [beq_self_eq_true, Bool.true_or, if_true]
      have := ih hw.2 { pfx := pfx, start := start, bw := bw, depth := 0 } hp
      exact seek_layer L hw.1 _ hp _ _ this
    | 1 =>
      have hc : ((1 : Nat) == 0 || decide ((1 : Nat) > 1)) = false := by decide
      simp only [hc, Bool.false_eq_true, if_false]
      exact seek_layer L hw.1 { pfx := pfx, start := start, bw := bw, depth := 1 } hp _ _ (isSpecSeek_empty _)
    | d + 2 =>
      have hc : ((d + 2 : Nat) == 0 || decide ((d + 2 : Nat) > 1)) = true := by
        simp
      have hl : lowerRange { pfx := pfx, start := start, bw := bw, depth := d + 2 } = { pfx := pfx, start := start, bw := bw, depth := d + 1 } := by
        simp [lowerRange]
      rw [hl]
      simp only [hc, if_true]
      have := ih hw.2 { pfx := pfx, start := start, bw := bw, depth := d + 1 } hp
      exact seek_layer L hw.1 { pfx := pfx, start := start, bw := bw, depth := d + 2 } hp _ _ this

/-- what a caller observes with prefix cutting and an early stop. -/
theorem seekObs_eq (s : Store) (rng : SeekRange) (cut : Bool) (lim : Nat) :
    s.seekObs rng cut lim =
      match s with
      | .cached _ _ => specObs (s.seek rng) rng.pfx.length cut lim
      | _ => specObs (s.seek rng) rng.pfx.length false lim := by
  cases s with
  | cached L ps =>
    simp only [Store.seekObs, Store.seek]
    rw [performSeek_eq, performSeek_eq, capped_zero, cutAll_false]
    rfl
  | memB m st => simp [Store.seekObs, specObs, cutKey]
  | level db => simp [Store.seekObs, specObs, cutKey]
  | bolt db => simp [Store.seekObs, specObs, cutKey]

end NeoModel.Store
