/-
The committee election of the NEO contract (getCandidates / computeCommitteeMembers / the validators of an epoch):
sorting facts and the properties of the elected list, for all ledgers.
-/
import NeoModel.Proofs.TokensAL
namespace NeoModel.Tokens

/-! ### insertion sort -/

theorem insertBy_perm {α : Type} (le : α → α → Bool) (x : α) (l : List α) : (insertBy le x l).Perm (x :: l) := by
  induction l with
  | nil => exact List.Perm.refl _
  | cons y r ih =>
    simp only [insertBy]
    split
    · exact List.Perm.refl _
    · exact (List.Perm.cons y ih).trans (List.Perm.swap x y r)

theorem sortBy_perm {α : Type} (le : α → α → Bool) (l : List α) : (sortBy le l).Perm l := by
  induction l with
  | nil => exact List.Perm.refl _
  | cons x r ih =>
    show (insertBy le x (sortBy le r)).Perm (x :: r)
    exact (insertBy_perm le x _).trans (List.Perm.cons x ih)

/-- sorted: every element is `le` every later one. -/
def SortedBy {α : Type} (le : α → α → Bool) (l : List α) : Prop := l.Pairwise (fun a b => le a b = true)

theorem insertBy_sorted {α : Type} (le : α → α → Bool) (tot : ∀ a b, le a b = true ∨ le b a = true)
    (tr : ∀ a b c, le a b = true → le b c = true → le a c = true) (x : α) (l : List α) (h : SortedBy le l) :
    SortedBy le (insertBy le x l) := by
  induction l with
  | nil => simp [insertBy, SortedBy]
  | cons y r ih =>
    simp only [insertBy]
    have hy := List.pairwise_cons.mp h
    split
    · rename_i hxy
      refine List.pairwise_cons.mpr ⟨fun z hz => ?_, h⟩
      rcases List.mem_cons.mp hz with e | hz'
      · subst e; exact hxy
      · exact tr x y z hxy (hy.1 z hz')
    · rename_i hxy
      have hyx : le y x = true := by
        rcases tot x y with t | t
        · exact absurd t hxy
        · exact t
      refine List.pairwise_cons.mpr ⟨fun z hz => ?_, ih hy.2⟩
      have := (insertBy_perm le x r).mem_iff.mp hz
      rcases List.mem_cons.mp this with e | hz'
      · subst e; exact hyx
      · exact hy.1 z hz'

theorem sortBy_sorted {α : Type} (le : α → α → Bool) (tot : ∀ a b, le a b = true ∨ le b a = true)
    (tr : ∀ a b c, le a b = true → le b c = true → le a c = true) (l : List α) : SortedBy le (sortBy le l) := by
  induction l with
  | nil => simp [sortBy, SortedBy]
  | cons x r ih => exact insertBy_sorted le tot tr x _ ih

/-- a sorted list is determined by its elements when the order is antisymmetric. -/
theorem sorted_perm_eq {α : Type} (le : α → α → Bool) (anti : ∀ a b, le a b = true → le b a = true → a = b)
    (l1 l2 : List α) (hp : l1.Perm l2) (h1 : SortedBy le l1) (h2 : SortedBy le l2) : l1 = l2 := by
  induction l1 generalizing l2 with
  | nil => exact (List.Perm.nil_eq hp)
  | cons a t1 ih =>
    cases l2 with
    | nil => exact absurd hp.symm (List.Perm.nil_eq · |> fun e => by cases e)
    | cons b t2 =>
      have p1 := List.pairwise_cons.mp h1
      have p2 := List.pairwise_cons.mp h2
      have hab : a = b := by
        have ha : a ∈ b :: t2 := hp.mem_iff.mp (List.mem_cons_self ..)
        have hb : b ∈ a :: t1 := hp.mem_iff.mpr (List.mem_cons_self ..)
        rcases List.mem_cons.mp ha with e | ha'
        · exact e
        · rcases List.mem_cons.mp hb with e | hb'
          · exact e.symm
          · exact anti a b (p1.1 b hb') (p2.1 a ha')
      subst hab
      rw [ih t2 (List.Perm.cons_inv hp) p1.2 p2.2]

theorem sortBy_perm_eq {α : Type} (le : α → α → Bool) (tot : ∀ a b, le a b = true ∨ le b a = true)
    (tr : ∀ a b c, le a b = true → le b c = true → le a c = true) (anti : ∀ a b, le a b = true → le b a = true → a = b)
    (l1 l2 : List α) (hp : l1.Perm l2) : sortBy le l1 = sortBy le l2 :=
  sorted_perm_eq le anti _ _ (((sortBy_perm le l1).trans hp).trans (sortBy_perm le l2).symm)
    (sortBy_sorted le tot tr l1) (sortBy_sorted le tot tr l2)

/-! ### the comparator of getCandidates -/

theorem voteLe_iff (a b : Nat × Int) : voteLe a b = true ↔ (b.2 < a.2 ∨ (a.2 = b.2 ∧ a.1 ≤ b.1)) := by
  unfold voteLe; simp [GT.gt]

theorem voteLe_total (a b : Nat × Int) : voteLe a b = true ∨ voteLe b a = true := by
  rw [voteLe_iff, voteLe_iff]; omega

theorem voteLe_trans (a b c : Nat × Int) (h1 : voteLe a b = true) (h2 : voteLe b c = true) : voteLe a c = true := by
  rw [voteLe_iff] at *; omega

theorem voteLe_antisymm (a b : Nat × Int) (h1 : voteLe a b = true) (h2 : voteLe b a = true) : a = b := by
  rw [voteLe_iff] at *
  obtain ⟨a1, a2⟩ := a; obtain ⟨b1, b2⟩ := b
  simp only [Prod.mk.injEq] at *
  omega

theorem natLe_total (a b : Nat) : decide (a ≤ b) = true ∨ decide (b ≤ a) = true := by
  simp; omega
theorem natLe_trans (a b c : Nat) (h1 : decide (a ≤ b) = true) (h2 : decide (b ≤ c) = true) : decide (a ≤ c) = true := by
  simp at *; omega
theorem natLe_antisymm (a b : Nat) (h1 : decide (a ≤ b) = true) (h2 : decide (b ≤ a) = true) : a = b := by
  simp at *; omega

/-! ### the candidate list -/

theorem mem_candList (e : Env) (l : Ledger) (p : Nat × Int) :
    p ∈ candList e l ↔ ∃ cd, (p.1, cd) ∈ l.cands ∧ cd.reg = true ∧ l.blocked.contains (acctOf e p.1) = false ∧ cd.votes = p.2 := by
  unfold candList eligible
  simp only [List.mem_map, List.mem_filter]
  constructor
  · rintro ⟨⟨k, cd⟩, ⟨hm, he⟩, rfl⟩
    simp only [Bool.and_eq_true, Bool.not_eq_true'] at he
    exact ⟨cd, hm, he.1, he.2, rfl⟩
  · rintro ⟨cd, hm, hr, hb, hv⟩
    have hb' : ¬ acctOf e p.1 ∈ l.blocked := by simpa using hb
    refine ⟨(p.1, cd), ⟨hm, by simp [hr, hb']⟩, ?_⟩
    obtain ⟨k, v⟩ := p
    simp only at hv
    simp [hv]

theorem candList_keys_sublist (e : Env) (l : Ledger) : ((candList e l).map (·.1)).Sublist (keys l.cands) := by
  unfold candList keys
  rw [List.map_map]
  have : ((fun x : Nat × Int => x.1) ∘ fun p : Nat × Cand => (p.1, p.2.votes)) = Prod.fst := rfl
  rw [this]
  exact (List.filter_sublist).map _

theorem candList_keys_nodup (e : Env) (l : Ledger) (hn : (keys l.cands).Nodup) : ((candList e l).map (·.1)).Nodup :=
  (candList_keys_sublist e l).nodup hn

theorem candsByVotes_perm (e : Env) (l : Ledger) : (candsByVotes e l).Perm (candList e l) := sortBy_perm _ _

theorem candsByVotes_sorted (e : Env) (l : Ledger) : SortedBy voteLe (candsByVotes e l) :=
  sortBy_sorted voteLe voteLe_total voteLe_trans _

theorem candsByVotes_length (e : Env) (l : Ledger) : (candsByVotes e l).length = (candList e l).length :=
  (candsByVotes_perm e l).length_eq

/-- the elected (as opposed to standby) branch of computeCommitteeMembers. -/
def Elected (e : Env) (l : Ledger) : Prop := 0 < l.voters * 5 / l.neoSupply ∧ e.csize ≤ (candList e l).length

/-- the turnout test `votersCount * 5 / totalSupply > 0` is "at least 20 % of the supply votes". -/
theorem turnout_iff (v s : Int) (hs : 0 < s) : 0 < v * 5 / s ↔ s ≤ v * 5 := by
  constructor
  · intro h
    by_cases hc : s ≤ v * 5
    · exact hc
    · exfalso
      have hlt : v * 5 < s := by omega
      by_cases hneg : 0 ≤ v * 5
      · have := Int.ediv_eq_zero_of_lt hneg hlt; omega
      · have : v * 5 / s < 0 := Int.ediv_neg_of_neg_of_pos (by omega) hs
        omega
  · intro h
    have : 1 ≤ v * 5 / s := (Int.le_ediv_iff_mul_le hs).mpr (by omega)
    omega

theorem computeCommittee_elected (e : Env) (l : Ledger) (hs : l.neoSupply ≠ 0) (hsb : e.csize ≤ e.standby.length)
    (he : Elected e l) : computeCommittee e l = some ((candsByVotes e l).take e.csize) := by
  unfold computeCommittee
  rw [if_neg hs, if_neg (by omega)]
  simp only []
  rw [if_neg]
  rw [candsByVotes_length]
  have := he.1; have := he.2
  omega

theorem computeCommittee_standby (e : Env) (l : Ledger) (hs : l.neoSupply ≠ 0) (hsb : e.csize ≤ e.standby.length)
    (he : ¬ Elected e l) :
    computeCommittee e l = some ((e.standby.take e.csize).map (fun k => (k, votesIn (candsByVotes e l) k))) := by
  unfold computeCommittee
  rw [if_neg hs, if_neg (by omega)]
  simp only []
  rw [if_pos]
  rw [candsByVotes_length]
  unfold Elected at he
  omega

theorem computeCommittee_isSome (e : Env) (l : Ledger) (hs : l.neoSupply ≠ 0) (hsb : e.csize ≤ e.standby.length) :
    (computeCommittee e l).isSome = true := by
  by_cases he : Elected e l
  · rw [computeCommittee_elected e l hs hsb he]; rfl
  · rw [computeCommittee_standby e l hs hsb he]; rfl

theorem computeCommittee_cases (e : Env) (l : Ledger) (cvs : List (Nat × Int)) (h : computeCommittee e l = some cvs) :
    l.neoSupply ≠ 0 ∧ e.csize ≤ e.standby.length ∧
    ((Elected e l ∧ cvs = (candsByVotes e l).take e.csize) ∨
     (¬ Elected e l ∧ cvs = (e.standby.take e.csize).map (fun k => (k, votesIn (candsByVotes e l) k)))) := by
  have hs : l.neoSupply ≠ 0 := by
    intro hs; unfold computeCommittee at h; rw [if_pos hs] at h; cases h
  have hsb : e.csize ≤ e.standby.length := by
    by_cases hc : e.standby.length < e.csize
    · unfold computeCommittee at h; rw [if_neg hs, if_pos hc] at h; cases h
    · omega
  refine ⟨hs, hsb, ?_⟩
  by_cases he : Elected e l
  · rw [computeCommittee_elected e l hs hsb he] at h; injection h with h; exact Or.inl ⟨he, h.symm⟩
  · rw [computeCommittee_standby e l hs hsb he] at h; injection h with h; exact Or.inr ⟨he, h.symm⟩

/-! ### the properties of the elected committee -/

/-- exactly committee-size members. -/
theorem committee_length (e : Env) (l : Ledger) (cvs : List (Nat × Int)) (h : computeCommittee e l = some cvs) :
    cvs.length = e.csize := by
  obtain ⟨_, hsb, hc⟩ := computeCommittee_cases e l cvs h
  rcases hc with ⟨he, rfl⟩ | ⟨_, rfl⟩
  · rw [List.length_take, candsByVotes_length]; have := he.2; omega
  · rw [List.length_map, List.length_take]; omega

/-- no member twice. -/
theorem committee_nodup (e : Env) (l : Ledger) (cvs : List (Nat × Int)) (hsn : e.standby.Nodup)
    (hn : (keys l.cands).Nodup) (h : computeCommittee e l = some cvs) : (cvs.map (·.1)).Nodup := by
  obtain ⟨_, _, hc⟩ := computeCommittee_cases e l cvs h
  rcases hc with ⟨_, rfl⟩ | ⟨_, rfl⟩
  · have hp : ((candsByVotes e l).map (·.1)).Nodup :=
      ((candsByVotes_perm e l).map _).nodup_iff.mpr (candList_keys_nodup e l hn)
    exact ((List.take_sublist _ _).map _).nodup hp
  · rw [List.map_map]
    have : ((fun x : Nat × Int => x.1) ∘ fun k => (k, votesIn (candsByVotes e l) k)) = id := rfl
    rw [this, List.map_id]
    exact (List.take_sublist _ _).nodup hsn

theorem votesIn_spec (cs : List (Nat × Int)) (k : Nat) :
    ((k, votesIn cs k) ∈ cs) ∨ (votesIn cs k = 0 ∧ ∀ v, (k, v) ∉ cs) := by
  unfold votesIn
  cases hf : cs.find? (fun c => c.1 == k) with
  | none =>
    right
    refine ⟨rfl, fun v hv => ?_⟩
    have := List.find?_eq_none.mp hf (k, v) hv
    simp at this
  | some c =>
    left
    have hm := List.mem_of_find?_eq_some hf
    have hk := List.find?_some hf
    simp only [beq_iff_eq] at hk
    obtain ⟨c1, c2⟩ := c
    simp only at hk
    subst hk
    exact hm

/-- every member is a standby key of the configuration or a registered candidate whose account is not blocked,
listed with its current votes; a standby member that is not such a candidate is listed with 0 votes. -/
theorem committee_member (e : Env) (l : Ledger) (cvs : List (Nat × Int))
    (h : computeCommittee e l = some cvs) (p : Nat × Int) (hp : p ∈ cvs) :
    (Elected e l ∧ p ∈ candList e l) ∨
    (¬ Elected e l ∧ p.1 ∈ e.standby.take e.csize ∧ (p ∈ candList e l ∨ (p.2 = 0 ∧ ∀ v, (p.1, v) ∉ candList e l))) := by
  obtain ⟨_, _, hc⟩ := computeCommittee_cases e l cvs h
  rcases hc with ⟨he, rfl⟩ | ⟨he, rfl⟩
  · exact Or.inl ⟨he, (candsByVotes_perm e l).mem_iff.mp (List.mem_of_mem_take hp)⟩
  · right
    obtain ⟨k, hk, rfl⟩ := List.mem_map.mp hp
    refine ⟨he, hk, ?_⟩
    rcases votesIn_spec (candsByVotes e l) k with hm | ⟨h0, hno⟩
    · exact Or.inl ((candsByVotes_perm e l).mem_iff.mp hm)
    · exact Or.inr ⟨h0, fun v hv => hno v ((candsByVotes_perm e l).mem_iff.mpr hv)⟩

/-- in an elected committee every member ranks before every eligible candidate left out: nobody outside has
more votes than a member, and with equal votes the outsider has the larger key. -/
theorem committee_top (e : Env) (l : Ledger) (cvs : List (Nat × Int)) (he : Elected e l)
    (h : computeCommittee e l = some cvs) (c : Nat × Int) (hc : c ∈ candList e l) (hout : c ∉ cvs)
    (m : Nat × Int) (hm : m ∈ cvs) : voteLe m c = true := by
  obtain ⟨_, _, hcs⟩ := computeCommittee_cases e l cvs h
  rcases hcs with ⟨_, rfl⟩ | ⟨hne, _⟩
  · have hs := candsByVotes_sorted e l
    unfold SortedBy at hs
    rw [← List.take_append_drop e.csize (candsByVotes e l)] at hs
    have hcs : c ∈ candsByVotes e l := (candsByVotes_perm e l).mem_iff.mpr hc
    rw [← List.take_append_drop e.csize (candsByVotes e l)] at hcs
    rcases List.mem_append.mp hcs with h1 | h2
    · exact absurd h1 hout
    · exact (List.pairwise_append.mp hs).2.2 m hm c h2
  · exact absurd he hne

theorem committee_top_votes (e : Env) (l : Ledger) (cvs : List (Nat × Int)) (he : Elected e l)
    (h : computeCommittee e l = some cvs) (c : Nat × Int) (hc : c ∈ candList e l) (hout : c ∉ cvs)
    (m : Nat × Int) (hm : m ∈ cvs) : c.2 ≤ m.2 ∧ (c.2 = m.2 → m.1 < c.1 ∨ m = c) := by
  have := committee_top e l cvs he h c hc hout m hm
  rw [voteLe_iff] at this
  refine ⟨by omega, fun heq => ?_⟩
  rcases this with h1 | ⟨h2, h3⟩
  · omega
  · by_cases hk : m.1 = c.1
    · right; obtain ⟨m1, m2⟩ := m; obtain ⟨c1, c2⟩ := c; simp only at hk h2; simp [hk, h2]
    · left; omega

/-- the result does not depend on the order in which the candidate records are met. -/
theorem candsByVotes_perm_indep (e : Env) (l l' : Ledger) (hp : l'.cands.Perm l.cands) (hb : l'.blocked = l.blocked) :
    candsByVotes e l' = candsByVotes e l := by
  unfold candsByVotes
  apply sortBy_perm_eq voteLe voteLe_total voteLe_trans voteLe_antisymm
  unfold candList
  have : eligible e l' = eligible e l := by funext p; simp [eligible, hb]
  rw [this]
  exact (hp.filter _).map _

theorem computeCommittee_perm_indep (e : Env) (l l' : Ledger) (hp : l'.cands.Perm l.cands) (hb : l'.blocked = l.blocked)
    (hv : l'.voters = l.voters) (hs : l'.neoSupply = l.neoSupply) : computeCommittee e l' = computeCommittee e l := by
  unfold computeCommittee
  rw [candsByVotes_perm_indep e l l' hp hb, hv, hs]

/-! ### validators -/

theorem valsOf_spec (e : Env) (cvs : List (Nat × Int)) (vs : List Nat) (h : valsOf e cvs = some vs) :
    vs.Perm ((cvs.map (·.1)).take e.vcount) ∧ SortedBy (fun a b => decide (a ≤ b)) vs ∧ vs.length = e.vcount := by
  unfold valsOf at h
  split at h
  · cases h
  · injection h with h; subst h
    refine ⟨sortBy_perm _ _, sortBy_sorted _ natLe_total natLe_trans _, ?_⟩
    rw [(sortBy_perm _ _).length_eq, List.length_take, List.length_map]; omega

theorem valsOf_isSome (e : Env) (cvs : List (Nat × Int)) (h : e.vcount ≤ cvs.length) : (valsOf e cvs).isSome = true := by
  unfold valsOf; rw [if_neg (by omega)]; rfl

/-- the validators are the first `vcount` committee members, in strictly ascending key order. -/
theorem valsOf_strict (e : Env) (cvs : List (Nat × Int)) (vs : List Nat) (hn : (cvs.map (·.1)).Nodup)
    (h : valsOf e cvs = some vs) : vs.Pairwise (· < ·) ∧ (∀ k, k ∈ vs ↔ k ∈ (cvs.map (·.1)).take e.vcount) := by
  obtain ⟨hp, hs, _⟩ := valsOf_spec e cvs vs h
  have hnd : vs.Nodup := hp.nodup_iff.mpr ((List.take_sublist _ _).nodup hn)
  refine ⟨?_, fun k => hp.mem_iff⟩
  unfold SortedBy at hs
  have both : vs.Pairwise (fun a b => decide (a ≤ b) = true ∧ a ≠ b) := by
    unfold List.Nodup at hnd
    exact hs.and hnd
  exact both.imp (fun ⟨h1, h2⟩ => by simp at h1; omega)

end NeoModel.Tokens
