/-
Helper lemmas for C10: a well-formed trie is determined by its contents (`canonical`).
-/
import NeoModel.Proofs.MptWF
set_option linter.unusedSimpArgs false
namespace NeoModel.Mpt

theorem count_le (cs : Nib → Node) (v : Option Val) : count cs v ≤ (kids cs).length + 1 := by
  simp only [count]; split <;> omega

theorem exists_kid_of_count {cs : Nib → Node} {v : Option Val} (h : 2 ≤ count cs v) :
    ∃ i, (cs i).isEmpty = false := by
  have := count_le cs v
  cases hk : kids cs with
  | nil => rw [hk] at this; simp at this; omega
  | cons a l => exact ⟨a, mem_kids.mp (by rw [hk]; simp)⟩

theorem exists_two_kids {cs : Nib → Node} (h : 2 ≤ count cs none) :
    ∃ i j, i ≠ j ∧ (cs i).isEmpty = false ∧ (cs j).isEmpty = false := by
  simp only [count] at h
  match hk : kids cs, h with
  | a :: b :: l, _ =>
    have hnd := kids_nodup cs
    rw [hk] at hnd
    have hab : a ≠ b := by intro e; subst e; simp at hnd
    exact ⟨a, b, hab, mem_kids.mp (by rw [hk]; simp), mem_kids.mp (by rw [hk]; simp)⟩

/-- a well-formed non-empty trie holds at least one key. -/
theorem exists_key (n : Node) (hw : WF n) (hne : n.isEmpty = false) : ∃ p, lookup n p ≠ none := by
  induction n with
  | empty => simp [Node.isEmpty] at hne
  | leaf v => exact ⟨[], by simp [lookup]⟩
  | ext k n ih =>
    obtain ⟨_, hne', _, hn⟩ := hw
    obtain ⟨p, hp⟩ := ih hn hne'
    exact ⟨k ++ p, by simpa [lookup_ext, stripPre_append] using hp⟩
  | branch cs v ih =>
    obtain ⟨hk, hc⟩ := hw
    obtain ⟨i, hi⟩ := exists_kid_of_count hc
    obtain ⟨p, hp⟩ := ih i (hk i) hi
    exact ⟨i :: p, by simpa [lookup] using hp⟩

theorem not_leaf_branch {v : Val} {cs : Nib → Node} {w : Option Val} (hb : WF (.branch cs w))
    (h : ∀ p, lookup (.leaf v) p = lookup (.branch cs w) p) : False := by
  obtain ⟨hk, hc⟩ := hb
  obtain ⟨i, hi⟩ := exists_kid_of_count hc
  obtain ⟨p, hp⟩ := exists_key (cs i) (hk i) hi
  have := h (i :: p)
  simp only [lookup] at this
  exact hp this.symm

theorem not_leaf_ext {v : Val} {k : Path} {n : Node} (hb : WF (.ext k n))
    (h : ∀ p, lookup (.leaf v) p = lookup (.ext k n) p) : False := by
  obtain ⟨hk, _⟩ := hb
  cases k with
  | nil => exact hk rfl
  | cons a k =>
    have := h []
    rw [lookup_ext_nil] at this
    simp [lookup] at this

theorem ext_first {i j : Nib} {kt p : Path} {n : Node} (h : lookup (.ext (i :: kt) n) (j :: p) ≠ none) : j = i := by
  rw [lookup_ext_cons] at h
  by_cases hj : j = i
  · exact hj
  · simp [hj] at h

theorem not_ext_branch {k : Path} {n : Node} {cs : Nib → Node} {w : Option Val}
    (ha : WF (.ext k n)) (hb : WF (.branch cs w))
    (h : ∀ p, lookup (.ext k n) p = lookup (.branch cs w) p) : False := by
  obtain ⟨hk, _⟩ := ha
  cases k with
  | nil => exact hk rfl
  | cons i kt =>
    have h0 := h []
    rw [lookup_ext_nil] at h0
    simp only [lookup] at h0
    subst h0
    obtain ⟨hkb, hc⟩ := hb
    obtain ⟨c1, c2, hne, h1, h2⟩ := exists_two_kids hc
    obtain ⟨p1, hp1⟩ := exists_key (cs c1) (hkb c1) h1
    obtain ⟨p2, hp2⟩ := exists_key (cs c2) (hkb c2) h2
    have e1 : c1 = i := ext_first (by rw [h (c1 :: p1)]; simpa [lookup] using hp1)
    have e2 : c2 = i := ext_first (by rw [h (c2 :: p2)]; simpa [lookup] using hp2)
    exact hne (e1.trans e2.symm)

/-- two well-formed extensions with the same contents have the same key. -/
theorem ext_ext (k : Path) : ∀ (k' : Path) (n n' : Node), WF (.ext k n) → WF (.ext k' n') →
    (∀ p, lookup (.ext k n) p = lookup (.ext k' n') p) → k = k' ∧ ∀ p, lookup n p = lookup n' p := by
  induction k with
  | nil => intro k' n n' ha; exact absurd rfl ha.1
  | cons i kt ih =>
    intro k' n n' ha hb h
    cases k' with
    | nil => exact absurd rfl hb.1
    | cons j kt' =>
      obtain ⟨_, hne, hnx, hn⟩ := ha
      obtain ⟨_, hne', hnx', hn'⟩ := hb
      -- first nibbles agree
      obtain ⟨p0, hp0⟩ := exists_key n hn hne
      have hkey : lookup (.ext (i :: kt) n) (i :: (kt ++ p0)) ≠ none := by
        rw [show i :: (kt ++ p0) = (i :: kt) ++ p0 from rfl, lookup_ext, stripPre_append]; simpa using hp0
      have hij : i = j := ext_first (by rw [← h]; exact hkey)
      subst hij
      -- strip the first nibble
      have h' : ∀ p, lookup (newSub kt n) p = lookup (newSub kt' n') p := by
        intro p
        have := h (i :: p)
        simpa [lookup_ext_cons] using this
      cases kt with
      | nil =>
        cases kt' with
        | nil => exact ⟨rfl, by simpa [newSub] using h'⟩
        | cons b kt' =>
          exfalso
          have hwb : WF (.ext (b :: kt') n') := ⟨by simp, hne', hnx', hn'⟩
          simp only [newSub] at h'
          cases n with
          | empty => simp [Node.isEmpty] at hne
          | ext _ _ => simp [Node.isExt] at hnx
          | leaf v => exact not_leaf_ext hwb h'
          | branch cs w => exact not_ext_branch hwb hn (fun p => (h' p).symm)
      | cons a kt =>
        cases kt' with
        | nil =>
          exfalso
          have hwa : WF (.ext (a :: kt) n) := ⟨by simp, hne, hnx, hn⟩
          simp only [newSub] at h'
          cases n' with
          | empty => simp [Node.isEmpty] at hne'
          | ext _ _ => simp [Node.isExt] at hnx'
          | leaf v => exact not_leaf_ext hwa (fun p => (h' p).symm)
          | branch cs w => exact not_ext_branch hwa hn' h'
        | cons b kt' =>
          have hwa : WF (.ext (a :: kt) n) := ⟨by simp, hne, hnx, hn⟩
          have hwb : WF (.ext (b :: kt') n') := ⟨by simp, hne', hnx', hn'⟩
          simp only [newSub] at h'
          obtain ⟨e, hl⟩ := ih (b :: kt') n n' hwa hwb h'
          exact ⟨by rw [e], hl⟩

/-- C10.3: a well-formed trie is determined by its contents. -/
theorem canonical (a : Node) : ∀ b : Node, WF a → WF b → (∀ p, lookup a p = lookup b p) → a = b := by
  induction a with
  | empty =>
    intro b _ hb h
    cases hbe : b.isEmpty with
    | true => exact (isEmpty_iff.mp hbe).symm
    | false =>
      obtain ⟨p, hp⟩ := exists_key b hb hbe
      exact absurd (h p).symm (by simpa [lookup] using hp)
  | leaf v =>
    intro b _ hb h
    cases b with
    | empty => have := h []; simp [lookup] at this
    | leaf w => have := h []; simp only [lookup, Option.some.injEq] at this; rw [this]
    | ext k n => exact (not_leaf_ext hb h).elim
    | branch cs w => exact (not_leaf_branch hb h).elim
  | ext k n ih =>
    intro b ha hb h
    cases b with
    | empty =>
      obtain ⟨p, hp⟩ := exists_key _ ha rfl
      exact absurd (h p) (by simpa [lookup] using hp)
    | leaf w => exact (not_leaf_ext ha (fun p => (h p).symm)).elim
    | ext k' n' =>
      obtain ⟨e, hl⟩ := ext_ext k k' n n' ha hb h
      subst e
      rw [ih n' ha.2.2.2 hb.2.2.2 hl]
    | branch cs w => exact (not_ext_branch ha hb h).elim
  | branch cs v ih =>
    intro b ha hb h
    cases b with
    | empty =>
      obtain ⟨p, hp⟩ := exists_key _ ha rfl
      exact absurd (h p) (by simpa [lookup] using hp)
    | leaf w => exact (not_leaf_branch ha (fun p => (h p).symm)).elim
    | ext k n => exact (not_ext_branch hb ha (fun p => (h p).symm)).elim
    | branch cs' v' =>
      have hv : v = v' := by simpa [lookup] using h []
      have hcs : cs = cs' := by
        funext i
        exact ih i (cs' i) (ha.1 i) (hb.1 i) (fun p => by simpa [lookup] using h (i :: p))
      rw [hv, hcs]

end NeoModel.Mpt
