/- C19 simulation, part C2: recovery messages are made of true claims. -/
import NeoModel.Proofs.DbftSimC
namespace NeoModel.Dbft.Mach
open NeoModel.Dbft

theorem slot_eq_some {α : Type} {l : List (Option α)} {j : Nat} {m : α} :
    slot l j = some m ↔ l[j]? = some (some m) := by
  unfold slot
  cases h : l[j]? with
  | none => simp
  | some s => cases s <;> simp

theorem slot_of_mem {α : Type} {l : List (Option α)} {m : α} (h : some m ∈ l) : ∃ j, slot l j = some m := by
  obtain ⟨j, hj⟩ := List.getElem?_of_mem h
  exact ⟨j, slot_eq_some.mpr hj⟩

theorem slot_lt {α : Type} {l : List (Option α)} {j : Nat} {m : α} (h : slot l j = some m) : j < l.length := by
  rw [slot_eq_some] at h
  exact (List.getElem?_eq_some_iff.mp h).1

theorem claims_makeRecovery {e : Env} {as : State} {i : Nat} {nd : Node} (h : RN e as i nd) :
    Claims e as (.recMsg ⟨nd.my, nd.bi, nd.view⟩ (makeRecovery nd)) := by
  refine ⟨?_, ?_, ?_, ?_⟩
  · intro cvp hc
    simp only [makeRecovery, List.mem_filterMap] at hc
    obtain ⟨s, hs, hs2⟩ := hc
    cases s with
    | none => simp at hs2
    | some m =>
      simp only [Option.map_some, Option.some.injEq] at hs2
      obtain ⟨j, hj⟩ := slot_of_mem hs
      obtain ⟨x, r, rfl, hf, hh, hb⟩ := h.lastCv j m hj
      subst hs2
      simp only [Pl.hd]
      have : cvItem x = .changeView x.frm nd.bi x.v (x.v + 1) := by simp [cvItem, hh]
      rw [← this]; exact hb
  · intro p hp
    simp only [makeRecovery] at hp
    obtain ⟨s, hs, hs2⟩ := List.exists_of_findSome?_eq_some hp
    cases s with
    | none => simp at hs2
    | some m =>
      obtain ⟨j, hj⟩ := slot_of_mem hs
      obtain ⟨hd, hc, _, hq⟩ := h.prep j m hj
      cases m with
      | prepReq x q =>
        simp only [Option.some.injEq] at hs2
        subst hs2
        simp only [Pl.hd] at hd
        subst hd
        have hjp : j = nd.pidx := hq rfl
        obtain ⟨c1, c2, c3⟩ := hc
        simp only at c1 c2 c3
        rw [← c1]
        exact ⟨c2, c3⟩
      | _ => simp at hs2
  · intro j hj
    simp only [makeRecovery, List.mem_filterMap, List.mem_range] at hj
    obtain ⟨k, _, hk2⟩ := hj
    cases hs : slot nd.prep k with
    | none => simp [hs] at hk2
    | some m =>
      simp only [hs, Option.map_some, Option.some.injEq] at hk2
      subst hk2
      obtain ⟨hd, hc, hp, _⟩ := h.prep k m hs
      cases m with
      | prepReq x q =>
        simp only [Pl.hd] at hd; subst hd
        exact ⟨_, hc.2.1, rfl, rfl⟩
      | prepResp x q =>
        simp only [Pl.hd] at hd; subst hd
        exact hc
      | _ => simp [isPrep] at hp
  · intro cm hc
    simp only [makeRecovery] at hc
    split at hc
    · rw [List.mem_filterMap] at hc
      obtain ⟨s, hs, hs2⟩ := hc
      cases s with
      | none => simp at hs2
      | some m =>
        obtain ⟨j, hj⟩ := slot_of_mem hs
        obtain ⟨x, sb, rfl, hf, _, hm⟩ := h.commit j m hj
        simp only [Option.some.injEq] at hs2
        subst hs2
        simp only [hf]; exact hm
    · cases hc

theorem good_sendRecoveryMessage {e : Env} {as : State} {i : Nat} {w : W} (h : Good e as i w) :
    Good e as i (sendRecoveryMessage w) :=
  good_bcast h _ (claims_makeRecovery h.rn)

theorem good_onRecoveryRequest {e : Env} {as : State} {i : Nat} {w : W} (h : Good e as i w) (x : Hd) :
    Good e as i (onRecoveryRequest e w x) := by
  unfold onRecoveryRequest
  simp only
  split
  · exact h
  · exact good_sendRecoveryMessage h

end NeoModel.Dbft.Mach
