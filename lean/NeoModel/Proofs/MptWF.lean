/-
Helper lemmas for C10: the structural invariants (`WF`) are preserved by `put` and `delete`.
-/
import NeoModel.Proofs.MptLookup
set_option linter.unusedSimpArgs false
namespace NeoModel.Mpt

theorem filter_length_mono {α} (p q : α → Bool) (l : List α) (h : ∀ a, p a = true → q a = true) :
    (l.filter p).length ≤ (l.filter q).length := by
  induction l with
  | nil => simp
  | cons a l ih =>
    simp only [List.filter]
    cases hp : p a with
    | true => simp [h a hp]; exact ih
    | false =>
      cases hq : q a with
      | true => simp; omega
      | false => simpa using ih

theorem kids_length_mono {cs cs' : Nib → Node}
    (h : ∀ j, (cs j).isEmpty = false → (cs' j).isEmpty = false) : (kids cs).length ≤ (kids cs').length := by
  apply filter_length_mono
  intro a ha
  simp only [Bool.not_eq_eq_eq_not, Bool.not_true] at ha ⊢
  exact h a ha

theorem two_le_of_mem {l : List Nib} {i j : Nib} (hi : i ∈ l) (hj : j ∈ l) (hne : i ≠ j) : 2 ≤ l.length := by
  match l, hi, hj with
  | [a], hi, hj =>
    simp at hi hj; exact absurd (hi.trans hj.symm) hne
  | _ :: _ :: _, _, _ => simp

theorem kids_length_ge_two {cs : Nib → Node} {i j : Nib} (hi : (cs i).isEmpty = false)
    (hj : (cs j).isEmpty = false) (hne : i ≠ j) : 2 ≤ (kids cs).length :=
  two_le_of_mem (mem_kids.mpr hi) (mem_kids.mpr hj) hne

theorem kids_length_pos {cs : Nib → Node} {i : Nib} (hi : (cs i).isEmpty = false) : 1 ≤ (kids cs).length := by
  have := mem_kids.mpr hi
  cases h : kids cs with
  | nil => rw [h] at this; simp at this
  | cons a l => simp

theorem kids_nodup (cs : Nib → Node) : (kids cs).Nodup :=
  List.Nodup.sublist List.filter_sublist (List.nodup_finRange 16)

theorem newSub_isEmpty (p : Path) (n : Node) (h : n.isEmpty = false) : (newSub p n).isEmpty = false := by
  cases p with
  | nil => simpa [newSub] using h
  | cons a p => simp [newSub, Node.isEmpty]

theorem put_isEmpty (t : Node) (p : Path) (v : Val) : (put t p v).isEmpty = false := by
  cases t with
  | empty => exact newSub_isEmpty _ _ rfl
  | leaf w => cases p <;> simp [put, Node.isEmpty]
  | branch cs w => cases p <;> simp [put, Node.isEmpty]
  | ext k n =>
    simp only [put]
    split
    · rfl
    · rename_i c kh kt _; cases c <;> simp [mkExt, Node.isEmpty]
    · rename_i c kh kt ph pt _; cases c <;> simp [mkExt, Node.isEmpty]

theorem put_isExt (t : Node) (p : Path) (v : Val) (h1 : t.isEmpty = false) (h2 : t.isExt = false) :
    (put t p v).isExt = false := by
  cases t with
  | empty => simp [Node.isEmpty] at h1
  | leaf w => cases p <;> simp [put, Node.isExt]
  | branch cs w => cases p <;> simp [put, Node.isExt]
  | ext k n => simp [Node.isExt] at h2

theorem wf_newSub (p : Path) (n : Node) (hw : WF n) (h1 : n.isEmpty = false) (h2 : n.isExt = false) :
    WF (newSub p n) := by
  cases p with
  | nil => exact hw
  | cons a p => simp [newSub, WF, hw, h1, h2]

theorem wf_mkExt_branch (c : Path) (cs : Nib → Node) (v : Option Val) (hw : WF (.branch cs v)) :
    WF (mkExt c (.branch cs v)) := by
  cases c with
  | nil => exact hw
  | cons a c => simp [mkExt, WF, Node.isEmpty, Node.isExt]; exact hw

theorem wf_noKids (i : Nib) : WF (noKids i) := by simp [noKids, WF]

/-- C10.2: `put` preserves the structural invariants. -/
theorem wf_put (t : Node) (p : Path) (v : Val) (h : WF t) : WF (put t p v) := by
  induction t generalizing p with
  | empty => exact wf_newSub _ _ (by simp [WF]) rfl rfl
  | leaf w =>
    cases p with
    | nil => simp [put, WF]
    | cons i p =>
      simp only [put, WF]
      refine ⟨?_, ?_⟩
      · intro j
        by_cases hj : j = i
        · subst hj; rw [upd_same]; exact wf_newSub _ _ (by simp [WF]) rfl rfl
        · rw [upd_other _ _ _ _ hj]; exact wf_noKids j
      · have : 1 ≤ (kids (upd noKids i (newSub p (.leaf v)))).length :=
          kids_length_pos (i := i) (by rw [upd_same]; exact newSub_isEmpty _ _ rfl)
        simp [count]; omega
  | branch cs w ih =>
    obtain ⟨hk, hc⟩ := h
    cases p with
    | nil =>
      simp only [put, WF]
      refine ⟨hk, ?_⟩
      simp only [count] at hc ⊢
      cases w <;> simp at hc ⊢ <;> omega
    | cons i p =>
      simp only [put, WF]
      refine ⟨?_, ?_⟩
      · intro j
        by_cases hj : j = i
        · subst hj; rw [upd_same]; exact ih j p (hk j)
        · rw [upd_other _ _ _ _ hj]; exact hk j
      · have : (kids cs).length ≤ (kids (upd cs i (put (cs i) p v))).length := by
          apply kids_length_mono
          intro j hj
          by_cases hji : j = i
          · subst hji; rw [upd_same]; exact put_isEmpty _ _ _
          · rw [upd_other _ _ _ _ hji]; exact hj
        simp only [count] at hc ⊢
        omega
  | ext k n ih =>
    obtain ⟨hk, hne, hnx, hn⟩ := h
    simp only [put]
    split
    · rename_i c rp hsp
      simp only [WF]
      exact ⟨hk, put_isEmpty _ _ _, put_isExt _ _ _ hne hnx, ih rp hn⟩
    · rename_i c kh kt hsp
      apply wf_mkExt_branch
      simp only [WF]
      refine ⟨?_, ?_⟩
      · intro j
        by_cases hj : j = kh
        · subst hj; rw [upd_same]; exact wf_newSub _ _ hn hne hnx
        · rw [upd_other _ _ _ _ hj]; exact wf_noKids j
      · have : 1 ≤ (kids (upd noKids kh (newSub kt n))).length :=
          kids_length_pos (i := kh) (by rw [upd_same]; exact newSub_isEmpty _ _ hne)
        simp [count]; omega
    · rename_i c kh kt ph pt hsp
      have hspec := (lcpSplit_spec k p).2.2
      rw [hsp] at hspec
      have hneq : kh ≠ ph := hspec kh ph kt pt rfl rfl
      apply wf_mkExt_branch
      simp only [WF]
      refine ⟨?_, ?_⟩
      · intro j
        by_cases hj : j = ph
        · subst hj; rw [upd_same]; exact wf_newSub _ _ (by simp [WF]) rfl rfl
        · rw [upd_other _ _ _ _ hj]
          by_cases hj2 : j = kh
          · subst hj2; rw [upd_same]; exact wf_newSub _ _ hn hne hnx
          · rw [upd_other _ _ _ _ hj2]; exact wf_noKids j
      · have : 2 ≤ (kids (upd (upd noKids kh (newSub kt n)) ph (newSub pt (.leaf v)))).length := by
          apply kids_length_ge_two (i := kh) (j := ph) _ _ hneq
          · rw [upd_other _ _ _ _ hneq, upd_same]; exact newSub_isEmpty _ _ hne
          · rw [upd_same]; exact newSub_isEmpty _ _ rfl
        simp [count]; omega


theorem wf_collapseBranch (cs : Nib → Node) (v : Option Val) (hk : ∀ i, WF (cs i))
    (hne : kids cs ≠ [] ∨ v.isSome = true) : WF (collapseBranch cs v) := by
  cases hkc : kids cs with
  | nil =>
    cases v with
    | none => simp [hkc] at hne
    | some w => simp [collapseBranch, hkc, WF]
  | cons a l =>
    cases l with
    | nil =>
      cases v with
      | none =>
        have hnei := kids_single_ne hkc
        have hwi := hk a
        simp only [collapseBranch, hkc]
        split
        · rename_i k n hc
          rw [hc] at hwi
          simp only [WF] at hwi ⊢
          exact ⟨by simp, hwi.2.1, hwi.2.2.1, hwi.2.2.2⟩
        · rename_i c hc
          simp only [WF]
          refine ⟨by simp, hnei, ?_, hwi⟩
          cases hci : cs a with
          | ext k n => exact absurd hci (hc k n)
          | _ => rfl
      | some w => simp [collapseBranch, hkc, WF, count, hk]
    | cons b l =>
      cases v <;> simp [collapseBranch, hkc, WF, count, hk]

theorem kids_upd_ne {cs : Nib → Node} {v : Option Val} (i : Nib) (x : Node) (h : 2 ≤ count cs v) :
    kids (upd cs i x) ≠ [] ∨ v.isSome = true := by
  cases hv : v.isSome with
  | true => exact Or.inr rfl
  | false =>
    left
    simp only [count, hv] at h
    -- two distinct members of kids cs
    match hk : kids cs, h with
    | a :: b :: l, _ =>
      have hnd := kids_nodup cs
      rw [hk] at hnd
      have hab : a ≠ b := by
        intro e; subst e; simp at hnd
      have ha : (cs a).isEmpty = false := mem_kids.mp (by rw [hk]; simp)
      have hb : (cs b).isEmpty = false := mem_kids.mp (by rw [hk]; simp)
      intro hnil
      by_cases hai : a = i
      · have hbi : b ≠ i := by intro e; exact hab (hai.trans e.symm)
        have : b ∈ kids (upd cs i x) := mem_kids.mpr (by rw [upd_other _ _ _ _ hbi]; exact hb)
        rw [hnil] at this; simp at this
      · have : a ∈ kids (upd cs i x) := mem_kids.mpr (by rw [upd_other _ _ _ _ hai]; exact ha)
        rw [hnil] at this; simp at this

/-- C10.2: `delete` preserves the structural invariants. -/
theorem wf_delete (t : Node) (p : Path) (h : WF t) : WF (delete t p) := by
  induction t generalizing p with
  | empty => simp [delete, WF]
  | leaf w => cases p <;> simp [delete, WF]
  | branch cs w ih =>
    obtain ⟨hk, hc⟩ := h
    cases p with
    | nil =>
      simp only [delete]
      apply wf_collapseBranch _ _ hk
      left
      intro hnil
      simp only [count, hnil] at hc
      cases w <;> simp at hc
    | cons i p =>
      simp only [delete]
      apply wf_collapseBranch
      · intro j
        by_cases hj : j = i
        · subst hj; rw [upd_same]; exact ih j p (hk j)
        · rw [upd_other _ _ _ _ hj]; exact hk j
      · exact kids_upd_ne i _ hc
  | ext k n ih =>
    obtain ⟨hk, hne, hnx, hn⟩ := h
    simp only [delete]
    split
    · simp [WF, hk, hne, hnx, hn]
    · rename_i r hs
      have hw := ih r hn
      split
      · rename_i k2 n2 hd
        rw [hd] at hw
        simp only [WF] at hw ⊢
        exact ⟨by simp [hk], hw.2.1, hw.2.2.1, hw.2.2.2⟩
      · simp [WF]
      · rename_i m h1 h2
        simp only [WF]
        refine ⟨hk, ?_, ?_, hw⟩
        · cases hm : delete n r with
          | empty => exact absurd hm h2
          | _ => rfl
        · cases hm : delete n r with
          | ext k2 n2 => exact absurd hm (h1 k2 n2)
          | _ => rfl

end NeoModel.Mpt
