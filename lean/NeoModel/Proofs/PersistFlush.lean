/-
Helper lemmas for C02, MemCachedStore.persist with its error branch (Model/PersistFlush.lean): reads are
unaffected by the flush machinery, a failure keeps every pending write, the committed batches are a prefix of the
write stream, a complete successful flush is the `flush` step of Model/Persist. Core Lean only.
-/
import NeoModel.Model.PersistFlush
import NeoModel.Proofs.Persist
namespace NeoModel.Persist

theorem MS.view_eq_pending (s : MS) : s.view = applyWrites s.pending s.ps := by
  simp [MS.view, MS.pending, applyWrites_append]

/-- no step of the flush machinery changes what reads see; a write changes it by exactly that write. -/
theorem mstep_view (s : MS) (o : MOp) :
    (mstep s o).1.view = match o with | .write w => applyWrites w s.view | _ => s.view := by
  cases o with
  | write w => simp [mstep, MS.view, applyWrites_append]
  | begin =>
    simp only [mstep]
    split
    · rfl
    · rename_i h
      have ht : s.temp = none := by
        cases ht : s.temp with
        | none => rfl
        | some t => simp [ht] at h
      simp [MS.view, ht, applyWrites]
  | commit =>
    simp only [mstep]
    cases ht : s.temp with
    | none => simp
    | some t => simp [MS.view, ht, applyWrites]
  | fail =>
    simp only [mstep]
    cases ht : s.temp with
    | none => simp
    | some t => simp [MS.view, ht, applyWrites, applyWrites_append]

/-- a failed flush loses nothing: backend untouched, no batch, and the pending writes are exactly the same list. -/
theorem mstep_fail (s : MS) : (mstep s .fail).1.ps = s.ps ∧ (mstep s .fail).2 = none ∧ (mstep s .fail).1.pending = s.pending ∧
    (mstep s .fail).1.temp = none := by
  simp only [mstep]
  cases ht : s.temp with
  | none => simp [MS.pending, ht]
  | some t => simp [MS.pending, ht]

theorem batchWrites_ofWrites (w : Writes) : batchWrites (ofWrites w) = w := by
  induction w with
  | nil => rfl
  | cons p r ih => obtain ⟨k, v⟩ := p; simp [ofWrites, batchWrites] at *; exact ih

def MOp.writes : MOp → Writes
  | .write w => w
  | _ => []

theorem writesOf_cons (o : MOp) (r : List MOp) : writesOf (o :: r) = o.writes ++ writesOf r := by
  cases o <;> simp [writesOf, MOp.writes]

theorem mstep_stream (s : MS) (o : MOp) :
    ((mstep s o).2.toList.flatMap batchWrites) ++ (mstep s o).1.pending = s.pending ++ o.writes ∧
    (mstep s o).1.ps = foldBatches (mstep s o).2.toList s.ps := by
  cases o with
  | write w => simp [mstep, MS.pending, MOp.writes, foldBatches]
  | begin =>
    simp only [mstep]
    split
    · simp [MOp.writes, foldBatches]
    · rename_i h
      have ht : s.temp = none := by
        cases ht : s.temp with
        | none => rfl
        | some t => simp [ht] at h
      simp [MS.pending, ht, MOp.writes, foldBatches]
  | commit =>
    simp only [mstep]
    cases ht : s.temp with
    | none => simp [MOp.writes, foldBatches]
    | some t => simp [MS.pending, ht, MOp.writes, foldBatches, batchWrites_ofWrites, applyBatch_ofWrites]
  | fail =>
    simp only [mstep]
    cases ht : s.temp with
    | none => simp [MOp.writes, foldBatches]
    | some t => simp [MS.pending, ht, MOp.writes, foldBatches]

/-- the stream invariant: what has been committed (in batch order) followed by what is pending is the list of all
writes issued, and the backend is the initial one with the committed batches applied. -/
theorem mrun_stream (s : MS) (ops : List MOp) :
    ((mrunFrom s ops).2.flatMap batchWrites) ++ (mrunFrom s ops).1.pending = s.pending ++ writesOf ops ∧
    (mrunFrom s ops).1.ps = foldBatches (mrunFrom s ops).2 s.ps := by
  induction ops generalizing s with
  | nil => simp [mrunFrom, writesOf, foldBatches]
  | cons o r ih =>
    obtain ⟨i1, i2⟩ := ih (mstep s o).1
    obtain ⟨s1, s2⟩ := mstep_stream s o
    simp only [mrunFrom]
    refine ⟨?_, ?_⟩
    · rw [List.flatMap_append, List.append_assoc, i1, ← List.append_assoc, s1, writesOf_cons, List.append_assoc]
    · rw [i2, s2, foldBatches_append]

/-- reads are never affected by the flush machinery: after ANY schedule of writes, flush starts, commits and
failures the cache answers every read as the initial view with all writes applied in order. -/
theorem mrun_view (s : MS) (ops : List MOp) : (mrunFrom s ops).1.view = applyWrites (writesOf ops) s.view := by
  induction ops generalizing s with
  | nil => simp [mrunFrom, writesOf, applyWrites]
  | cons o r ih =>
    simp only [mrunFrom]
    rw [ih, mstep_view, writesOf_cons, applyWrites_append]
    cases o <;> simp [MOp.writes, applyWrites]

/-- a complete successful flush of the three-layer store is the `flush` step of the two-layer node model. -/
theorem mflush_is_flush (H : Hist) (B : Nat) (n : Node) (s : MS) (hdb : s.ps = n.db) (ht : s.temp = none) (hm : s.mem = n.cache) :
    ((mrunFrom s [.begin, .commit]).1.toNode n, (mrunFrom s [.begin, .commit]).2) =
      ((step H B n .flush).1, (step H B n .flush).2.toList) := by
  obtain ⟨db, cache, height, hdrHeight, items, pfx, mptReady⟩ := n
  obtain ⟨ps, temp, mem⟩ := s
  simp at hdb ht hm
  subst hdb ht hm
  cases mem with
  | nil => simp [mrunFrom, mstep, step, MS.toNode, MS.pending]
  | cons p r => simp [mrunFrom, mstep, step, MS.toNode, MS.pending]

end NeoModel.Persist
