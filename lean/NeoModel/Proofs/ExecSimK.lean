/-
Helper lemmas for C04: the simulation between the implementation model `im` and `spK`, the
specification with the known deviation (commit only if no exception is pending) built in — for
EVERY tree, context and pair of related states; and the lemma that `spK` is `sp` as long as the
deviating rule is not applied (`dev` stays down).
-/
import NeoModel.Model.Exec
import NeoModel.Proofs.ExecSim
set_option linter.unusedSimpArgs false
namespace NeoModel.Exec

def RK (s : ISt) (K : KSt) : Prop := R s K.st

/-- `h`: an exception handler exists below; `exact`: the state of a `thrown` result is exact. -/
def RelK (h exact : Bool) (s : ISt) (ri : Res ISt) (rs : Res KSt) : Prop :=
  match ri with
  | .norm s' => ∃ K', rs = .norm K' ∧ RK s' K' ∧ s'.below = s.below ∧ s.ev <+: s'.ev
  | .thrown s' => h = true ∧ ∃ K', rs = .thrown K' ∧ s'.below = s.below ∧ s.ev <+: s'.ev ∧ s'.exc = true ∧
      K'.exc = true ∧ (exact = true → RK s' K')
  | .fault _ => (∃ K', rs = .fault K') ∨ (h = false ∧ ∃ K', rs = .thrown K')

theorem relK_trans {h e s s1 ri rs} (hb : s1.below = s.below) (hp : s.ev <+: s1.ev)
    (hr : RelK h e s1 ri rs) : RelK h e s ri rs := by
  cases ri with
  | norm s' =>
    obtain ⟨K', h1, h2, h3, h4⟩ := hr
    exact ⟨K', h1, h2, h3.trans hb, hp.trans h4⟩
  | thrown s' =>
    obtain ⟨hh, K', h1, h3, h4, h5⟩ := hr
    exact ⟨hh, K', h1, h3.trans hb, hp.trans h4, h5⟩
  | fault s' => exact hr

theorem relK_mono {h e e' s ri rs} (hm : e' = true → e = true) (hr : RelK h e s ri rs) : RelK h e' s ri rs := by
  cases ri with
  | norm s' => exact hr
  | thrown s' =>
    obtain ⟨hh, K', h1, h3, h4, h5, h6, h7⟩ := hr
    exact ⟨hh, K', h1, h3, h4, h5, h6, fun h => h7 (hm h)⟩
  | fault s' => exact hr

theorem relK_raise {h e : Bool} {s3 : ISt} {K3 : KSt} (hR : RK s3 K3) (he : s3.exc = true) :
    RelK h e s3 (raise h s3) (.thrown K3) := by
  unfold raise
  split
  · rename_i hh
    refine ⟨hh, K3, rfl, rfl, List.prefix_refl _, rfl, ?_, fun _ => R_exc_self hR he⟩
    have : s3.exc = K3.exc := hR.2.2
    rw [← this]; exact he
  · rename_i hh
    exact Or.inr ⟨by simpa using hh, K3, rfl⟩

def FinOKK (h e : Bool) (rf : ISt → Res ISt) (Rf : KSt → Res KSt) : Prop :=
  ∀ s K, RK s K → RelK h e s (rf s) (Rf K)

theorem relK_end {h e hasF : Bool} {rf Rf} (hf : hasF = true → FinOKK h e rf Rf) {s1 : ISt} {K1 : KSt} (hR : RK s1 K1) :
    RelK h e s1 (imEnd h hasF rf s1) (spKEnd hasF Rf K1) := by
  unfold imEnd spKEnd
  split
  · rename_i hF
    have := hf hF s1 K1 hR
    cases hr : rf s1 with
    | norm s3 =>
      rw [hr] at this
      obtain ⟨K3, e1, e2, e3, e4⟩ := this
      rw [e1]
      simp only
      have hexc : K3.exc = s3.exc := e2.2.2.symm
      rw [hexc]
      split
      · rename_i he
        exact relK_trans e3 e4 (relK_raise e2 he)
      · exact ⟨K3, rfl, e2, e3, e4⟩
    | thrown s3 =>
      rw [hr] at this
      obtain ⟨hh, K3, e1, rest⟩ := this
      rw [e1]; exact ⟨hh, K3, rfl, rest⟩
    | fault s3 =>
      rw [hr] at this
      rcases this with ⟨K3, e1⟩ | ⟨hh, K3, e1⟩
      · rw [e1]; exact Or.inl ⟨K3, rfl⟩
      · rw [e1]; exact Or.inr ⟨hh, K3, rfl⟩
  · exact ⟨K1, rfl, hR, rfl, List.prefix_refl _⟩

theorem relK_finExc {h e : Bool} {rf Rf} (hf : FinOKK h e rf Rf) {s1 : ISt} {K1 : KSt} (hR : RK s1 K1) :
    RelK h e s1 (imFinExc h rf s1) (spKFinExc Rf K1) := by
  unfold imFinExc spKFinExc
  have := hf s1 K1 hR
  cases hr : rf s1 with
  | norm s3 =>
    rw [hr] at this
    obtain ⟨K3, e1, e2, e3, e4⟩ := this
    rw [e1]
    simp only
    have hexc : K3.exc = s3.exc := e2.2.2.symm
    rw [hexc]
    split
    · rename_i he
      exact relK_trans e3 e4 (relK_raise e2 he)
    · exact Or.inl ⟨K3, rfl⟩
  | thrown s3 =>
    rw [hr] at this
    obtain ⟨hh, K3, e1, rest⟩ := this
    rw [e1]; exact ⟨hh, K3, rfl, rest⟩
  | fault s3 =>
    rw [hr] at this
    rcases this with ⟨K3, e1⟩ | ⟨hh, K3, e1⟩
    · rw [e1]; exact Or.inl ⟨K3, rfl⟩
    · rw [e1]; exact Or.inr ⟨hh, K3, rfl⟩

/-- dropping the layer of a frame that was pushed on `s`. -/
theorem drop_eq {s s1 : ISt} (hb : s1.below = s.top :: s.below) (hp : s.ev <+: s1.ev) (he : s1.exc = true) :
    s1.unload true s.ev.length = { top := s.top, below := s.below, ev := s.ev, exc := true } := by
  simp [ISt.unload, he, ISt.drop, hb, take_prefix hp]

/-- the unload callback against THE RULE of `spK`. -/
theorem unloadK {s s1 : ISt} {K K1 : KSt} {wrapped : Bool} (hR : RK s K) (e2 : RK s1 K1)
    (e3 : s1.below = (if wrapped = true then s.top :: s.below else s.below)) (e4 : s.ev <+: s1.ev) :
    ∃ K', (if (wrapped && K1.exc) = true then Res.norm { K with exc := true, dev := true } else Res.norm K1) = Res.norm K' ∧
      RK (s1.unload wrapped s.ev.length) K' ∧ (s1.unload wrapped s.ev.length).below = s.below ∧
      s.ev <+: (s1.unload wrapped s.ev.length).ev := by
  have hexc : K1.exc = s1.exc := e2.2.2.symm
  rw [hexc]
  cases wrapped with
  | false =>
    simp only [Bool.false_eq_true, if_false] at e3
    have hu : s1.unload false s.ev.length = s1 := by simp [ISt.unload]
    rw [hu]
    exact ⟨K1, by simp, e2, e3, e4⟩
  | true =>
    simp only [if_true] at e3
    cases he : s1.exc with
    | true =>
      rw [drop_eq e3 e4 he]
      refine ⟨{ K with exc := true, dev := true }, by simp, ⟨?_, ?_, rfl⟩, rfl, List.prefix_refl _⟩
      · exact hR.1
      · exact hR.2.1
    | false =>
      obtain ⟨u1, u2, u3, _⟩ := unload_norm (s := s) (wrapped := true) s.ev.length e2 (by simpa using e3) he
      exact ⟨K1, by simp, u1, u2, by rw [u3]; exact e4⟩

theorem simK (t : Tree) : ∀ (x : Ctx) (s : ISt) (K : KSt), RK s K →
    RelK x.h x.inTry s (im t x s) (spK t x.c x.f x.inTry K) := by
  induction t with
  | skip =>
    intro x s K hR
    simp only [im, spK]
    exact ⟨K, rfl, hR, rfl, List.prefix_refl _⟩
  | seq a b iha ihb =>
    intro x s K hR
    simp only [im, spK]
    have ha := iha x s K hR
    cases hr : im a x s with
    | norm s1 =>
      rw [hr] at ha
      obtain ⟨K1, e1, e2, e3, e4⟩ := ha
      rw [e1]
      exact relK_trans e3 e4 (ihb x s1 K1 e2)
    | thrown s1 =>
      rw [hr] at ha
      obtain ⟨hh, K1, e1, rest⟩ := ha
      rw [e1]
      exact ⟨hh, K1, rfl, rest⟩
    | fault s1 =>
      rw [hr] at ha
      rcases ha with ⟨K1, e1⟩ | ⟨hh, K1, e1⟩
      · rw [e1]; exact Or.inl ⟨K1, rfl⟩
      · rw [e1]; exact Or.inr ⟨hh, K1, rfl⟩
  | put k v =>
    intro x s K hR
    have hv : s.view = K.σ := hR.1
    simp only [im, spK]
    rw [hv]
    split
    · refine ⟨_, rfl, ⟨?_, hR.2.1, hR.2.2⟩, rfl, List.prefix_refl _⟩
      show Write.set (x.c, k) v :: s.top ++ flatten s.below = Write.set (x.c, k) v :: K.σ
      rw [← hv]; rfl
    · exact Or.inl ⟨K, rfl⟩
  | del k =>
    intro x s K hR
    have hv : s.view = K.σ := hR.1
    simp only [im, spK]
    rw [hv]
    split
    · refine ⟨_, rfl, ⟨?_, hR.2.1, hR.2.2⟩, rfl, List.prefix_refl _⟩
      show Write.del (x.c, k) :: s.top ++ flatten s.below = Write.del (x.c, k) :: K.σ
      rw [← hv]; rfl
    · exact Or.inl ⟨K, rfl⟩
  | notify e =>
    intro x s K hR
    simp only [im, spK]
    split
    · have hl : s.ev.length = K.ev.length := by have : s.ev = K.ev := hR.2.1; rw [this]
      rw [hl]
      split
      · refine ⟨_, rfl, ⟨hR.1, ?_, hR.2.2⟩, rfl, List.prefix_append _ _⟩
        show s.ev ++ [(x.c, e)] = K.ev ++ [(x.c, e)]
        have : s.ev = K.ev := hR.2.1
        rw [this]
      · exact Or.inl ⟨K, rfl⟩
    · exact Or.inl ⟨K, rfl⟩
  | ifp k body ih =>
    intro x s K hR
    have hv : s.view = K.σ := hR.1
    simp only [im, spK]
    rw [hv]
    split
    · split
      · exact ih x s K hR
      · exact ⟨K, rfl, hR, rfl, List.prefix_refl _⟩
    · exact Or.inl ⟨K, rfl⟩
  | loc body ih =>
    intro x s K hR
    simp only [im, spK]
    exact ih x s K hR
  | throw =>
    intro x s K hR
    simp only [im, spK, raise]
    split
    · rename_i hh
      exact ⟨hh, _, rfl, rfl, List.prefix_refl _, rfl, rfl, fun _ => R_exc true hR⟩
    · rename_i hh
      exact Or.inr ⟨by simpa using hh, _, rfl⟩
  | abort =>
    intro x s K _
    simp only [im, spK]
    exact Or.inl ⟨K, rfl⟩
  | call c' fl body ih =>
    intro x s K hR
    have hv : s.view = K.σ := hR.1
    simp only [im, spK]
    rw [hv]
    split
    · generalize hw : (x.inTry && (x.f.and fl).mut) = wrapped
      have hR0 : RK (if wrapped = true then s.push else s) K := by
        split
        · exact R_push hR
        · exact hR
      have hev0 : (if wrapped = true then s.push else s).ev = s.ev := by
        split <;> simp [ISt.push]
      have hbel0 : (if wrapped = true then s.push else s).below = (if wrapped = true then s.top :: s.below else s.below) := by
        split <;> simp [ISt.push]
      have hb := ih ⟨c', x.f.and fl, false, x.h⟩ (if wrapped = true then s.push else s) K hR0
      simp only at hb
      cases hr : im body ⟨c', x.f.and fl, false, x.h⟩ (if wrapped = true then s.push else s) with
      | norm s1 =>
        rw [hr] at hb
        obtain ⟨K1, e1, e2, e3, e4⟩ := hb
        rw [e1]
        rw [hev0] at e4
        exact unloadK hR e2 (e3.trans hbel0) e4
      | thrown s1 =>
        rw [hr] at hb
        obtain ⟨hh, K1, e1, e3, e4, e5, e6, e7⟩ := hb
        rw [e1]
        rw [hev0] at e4
        cases wrapped with
        | true =>
          simp only [if_true] at hbel0 e3
          simp only
          rw [drop_eq (e3.trans hbel0) e4 e5]
          refine ⟨hh, _, rfl, rfl, List.prefix_refl _, rfl, rfl, fun _ => ⟨?_, ?_, rfl⟩⟩
          · exact hR.1
          · exact hR.2.1
        | false =>
          simp only [Bool.false_eq_true, if_false] at e3 hr hbel0
          simp only [ISt.unload, Bool.false_eq_true, if_false]
          refine ⟨hh, _, rfl, e3, e4, e5, rfl, fun hex => ?_⟩
          have hm : (x.f.and fl).mut = false := by simpa [hex] using hw
          have hro := ro body ⟨c', x.f.and fl, false, x.h⟩ s hm
          rw [hr] at hro
          obtain ⟨r1, r2, r3⟩ := hro
          refine ⟨?_, ?_, ?_⟩
          · show s1.top ++ flatten s1.below = K.σ
            rw [r1, r2]; exact hR.1
          · show s1.ev = K.ev
            rw [r3]; exact hR.2.1
          · exact e5
      | fault s1 =>
        rw [hr] at hb
        rcases hb with ⟨K1, e1⟩ | ⟨hh, K1, e1⟩
        · rw [e1]; exact Or.inl ⟨K1, rfl⟩
        · rw [e1]; exact Or.inr ⟨hh, _, rfl⟩
    · exact Or.inl ⟨K, rfl⟩
  | try_ body hasC cat hasF fin ihb ihc ihf =>
    intro x s K hR
    simp only [im, spK]
    split
    · exact Or.inl ⟨K, rfl⟩
    · rename_i hcf
      have hfin : hasF = true → FinOKK x.h x.inTry (im fin x) (spK fin x.c x.f x.inTry) :=
        fun _ s1 K1 h1 => ihf x s1 K1 h1
      have hb := ihb { x with inTry := true, h := true } s K hR
      simp only at hb
      cases hr : im body { x with inTry := true, h := true } s with
      | norm s1 =>
        rw [hr] at hb
        obtain ⟨K1, e1, e2, e3, e4⟩ := hb
        rw [e1]
        exact relK_trans e3 e4 (relK_end hfin e2)
      | thrown s1 =>
        rw [hr] at hb
        obtain ⟨_, K1, e1, e3, e4, e5, e6, e7⟩ := hb
        have hR1 : RK s1 K1 := e7 rfl
        rw [e1]
        simp only
        split
        · have hRc : RK { s1 with exc := false } { K1 with exc := false } := R_exc false hR1
          have hc := ihc { x with inTry := x.inTry || hasF, h := x.h || hasF } { s1 with exc := false }
            { K1 with exc := false } hRc
          simp only at hc
          cases hrc : im cat { x with inTry := x.inTry || hasF, h := x.h || hasF } { s1 with exc := false } with
          | norm s2 =>
            rw [hrc] at hc
            obtain ⟨K2, c1, c2, c3, c4⟩ := hc
            rw [c1]
            exact relK_trans (c3.trans e3) (e4.trans c4) (relK_end hfin c2)
          | thrown s2 =>
            rw [hrc] at hc
            obtain ⟨hhc, K2, c1, c3, c4, c5, c6, c7⟩ := hc
            rw [c1]
            simp only
            split
            · rename_i hF
              have hR2 : RK s2 K2 := c7 (by simp [hF])
              exact relK_trans (c3.trans e3) (e4.trans c4) (relK_finExc (hfin hF) hR2)
            · rename_i hF
              have hF' : hasF = false := by simpa using hF
              refine ⟨by simpa [hF'] using hhc, K2, rfl, c3.trans e3, e4.trans c4, c5, c6, fun hex => c7 ?_⟩
              simp [hex]
          | fault s2 =>
            rw [hrc] at hc
            rcases hc with ⟨K2, c1⟩ | ⟨hh, K2, c1⟩
            · rw [c1]; exact Or.inl ⟨K2, rfl⟩
            · rw [c1]
              simp only [Bool.or_eq_false_iff] at hh
              simp only [hh.2, Bool.false_eq_true, if_false]
              exact Or.inr ⟨hh.1, K2, rfl⟩
        · have hF : hasF = true := by
            cases hasC <;> cases hasF <;> simp_all
          exact relK_trans e3 e4 (relK_finExc (hfin hF) hR1)
      | fault s1 =>
        rw [hr] at hb
        rcases hb with ⟨K1, e1⟩ | ⟨hh, K1, e1⟩
        · rw [e1]; exact Or.inl ⟨K1, rfl⟩
        · exact absurd hh (by simp)
  | native inner o fl cb k ih ihk =>
    intro x s K hR
    simp only [im, spK]
    split
    · generalize (if inner = true then x.f else x.f.and fl) = f'
      generalize hw : (!inner && x.inTry && f'.mut) = wrapped
      have hR0 : RK (if wrapped = true then s.push else s) K := by
        split
        · exact R_push hR
        · exact hR
      have hev0 : (if wrapped = true then s.push else s).ev = s.ev := by
        split <;> simp [ISt.push]
      have hbel0 : (if wrapped = true then s.push else s).below = (if wrapped = true then s.top :: s.below else s.below) := by
        split <;> simp [ISt.push]
      generalize hs0 : (if wrapped = true then s.push else s) = s0 at *
      have hv0 : s0.view = K.σ := hR0.1
      rw [hv0]
      cases hn : natStep o x.c f' K.σ.get with
      | none => exact Or.inl ⟨K, rfl⟩
      | some out =>
        simp only
        have tail : ∀ (s2 : ISt) (K2 : KSt), RK s2 K2 → s2.below = s0.below → s.ev <+: s2.ev →
            RelK x.h x.inTry s
              (match im k ⟨x.c, f', false, x.h⟩ s2 with
                | .norm s3 => .norm (s3.unload wrapped s.ev.length)
                | .thrown s3 => .fault s3
                | .fault s3 => .fault s3)
              (match spK k x.c f' false K2 with
                | .norm s3 => if (wrapped && s3.exc) = true then Res.norm { K with exc := true, dev := true } else .norm s3
                | .thrown s3 => .fault s3
                | .fault s3 => .fault s3) := by
          intro s2 K2 r2 b2 p2
          have hk := ihk ⟨x.c, f', false, x.h⟩ s2 K2 r2
          simp only at hk
          cases hrk : im k ⟨x.c, f', false, x.h⟩ s2 with
          | norm s3 =>
            rw [hrk] at hk
            obtain ⟨K3, k1, k2, k3, k4⟩ := hk
            rw [k1]
            exact unloadK hR k2 ((k3.trans b2).trans hbel0) (p2.trans k4)
          | thrown s3 =>
            rw [hrk] at hk
            obtain ⟨_, K3, k1, _⟩ := hk
            rw [k1]; exact Or.inl ⟨K3, rfl⟩
          | fault s3 =>
            rw [hrk] at hk
            rcases hk with ⟨K3, k1⟩ | ⟨_, K3, k1⟩
            · rw [k1]; exact Or.inl ⟨K3, rfl⟩
            · rw [k1]; exact Or.inl ⟨K3, rfl⟩
        have hR1 : RK { s0 with top := out.ws ++ s0.top, ev := s0.ev ++ out.evs }
            { K with σ := out.ws ++ K.σ, ev := K.ev ++ out.evs } := by
          refine ⟨?_, ?_, hR0.2.2⟩
          · show (out.ws ++ s0.top) ++ flatten s0.below = out.ws ++ K.σ
            rw [List.append_assoc, ← hv0]; rfl
          · show s0.ev ++ out.evs = K.ev ++ out.evs
            have : s0.ev = K.ev := hR0.2.1
            rw [this]
        have hp1 : s.ev <+: s0.ev ++ out.evs := by rw [hev0]; exact List.prefix_append _ _
        simp only [imPhase, spKPhase]
        have hlen : (s0.ev ++ out.evs).length = (K.ev ++ out.evs).length := by
          have : s0.ev = K.ev := hR0.2.1
          rw [this]
        rw [hlen]
        by_cases hlim : maxNotifications < (K.ev ++ out.evs).length
        · simp only [hlim, if_true]; exact Or.inl ⟨_, rfl⟩
        simp only [hlim, if_false]
        cases hcb : out.cb with
        | none =>
          simp only
          exact tail _ _ hR1 rfl hp1
        | some to =>
          simp only
          by_cases hab : out.cbAbort = true
          · simp only [hab, if_true]; exact Or.inl ⟨_, rfl⟩
          simp only [hab, if_false, Bool.false_eq_true]
          have hb := ih ⟨to, f', false, x.h⟩ { s0 with top := out.ws ++ s0.top, ev := s0.ev ++ out.evs }
            { K with σ := out.ws ++ K.σ, ev := K.ev ++ out.evs } hR1
          simp only at hb
          cases hr : im cb ⟨to, f', false, x.h⟩ { s0 with top := out.ws ++ s0.top, ev := s0.ev ++ out.evs } with
          | norm s2 =>
            rw [hr] at hb
            obtain ⟨K2, e1, e2, e3, e4⟩ := hb
            rw [e1]
            simp only
            have hexc : K2.exc = s2.exc := e2.2.2.symm
            rw [hexc]
            cases he2 : s2.exc with
            | true => simp only [if_true]; exact Or.inl ⟨_, rfl⟩
            | false =>
              simp only [Bool.false_eq_true, if_false]
              exact tail s2 K2 e2 e3 (hp1.trans e4)
          | thrown s2 =>
            rw [hr] at hb
            obtain ⟨_, K2, e1, _⟩ := hb
            rw [e1]; exact Or.inl ⟨K2, rfl⟩
          | fault s2 =>
            rw [hr] at hb
            rcases hb with ⟨K2, e1⟩ | ⟨_, K2, e1⟩
            · rw [e1]; exact Or.inl ⟨K2, rfl⟩
            · rw [e1]; exact Or.inl ⟨K2, rfl⟩
    · exact Or.inl ⟨K, rfl⟩

end NeoModel.Exec
