/-
C17 — stack item (de)serialisation: counter / consumption invariant of the decoder, canonical integers,
round trip of every well-formed item, well-formedness of everything the decoder yields. Core Lean only.
-/
import NeoModel.Model.Wire.Item
import NeoModel.Proofs.WireCodec
namespace NeoModel.Wire
namespace Item
open NeoModel.Generated
open Codec
variable {prot : Bool}


/-- what a sub-decoder must satisfy for the loops to inherit it: the counter only goes down by the number of
items produced, and input is consumed strictly. -/
def Good (f : Nat → Bytes → DecRes Item) : Prop :=
  ∀ lim b v r lim', f lim b = some (v, r, lim') → count v + lim' ≤ lim ∧ r.length < b.length

theorem decListWith_good {f : Nat → Bytes → DecRes Item} (hf : Good f) :
    ∀ n lim b xs r lim', decListWith f n lim b = some (xs, r, lim') →
      countList xs + lim' ≤ lim ∧ n + r.length ≤ b.length ∧ xs.length = n := by
  intro n
  induction n with
  | zero =>
    intro lim b xs r lim' h
    simp [decListWith] at h
    obtain ⟨h1, h2, h3⟩ := h
    subst h1 h2 h3
    simp [countList]
  | succ n ih =>
    intro lim b xs r lim' h
    simp only [decListWith] at h
    split at h
    · simp at h
    · rename_i x r₁ l₁ h1
      split at h
      · simp at h
      · rename_i ys r₂ l₂ h2
        simp at h
        obtain ⟨e1, e2, e3⟩ := h
        subst e1 e2 e3
        obtain ⟨a1, a2⟩ := hf _ _ _ _ _ h1
        obtain ⟨b1, b2, b3⟩ := ih _ _ _ _ _ h2
        simp only [countList, List.length_cons]
        omega

theorem count_pos (v : Item) : 1 ≤ count v := by cases v <;> simp [count] <;> omega

theorem countPairs_mapAdd (m : List (Item × Item)) (k v : Item) :
    countPairs (mapAdd m k v) ≤ countPairs m + count k + count v := by
  induction m with
  | nil => simp [mapAdd, countPairs]
  | cons p rest ih =>
    obtain ⟨k', v'⟩ := p
    simp only [mapAdd]
    split
    · simp only [countPairs]; omega
    · simp only [countPairs]; omega

theorem decPairsWith_good {f : Nat → Bytes → DecRes Item} (hf : Good f) :
    ∀ n m lim b m' r lim', decPairsWith f n m lim b = some (m', r, lim') →
      countPairs m' + lim' ≤ countPairs m + lim ∧ 2 * n + lim' ≤ lim ∧ 2 * n + r.length ≤ b.length := by
  intro n
  induction n with
  | zero =>
    intro m lim b m' r lim' h
    simp [decPairsWith] at h
    obtain ⟨h1, h2, h3⟩ := h
    subst h1 h2 h3
    omega
  | succ n ih =>
    intro m lim b m' r lim' h
    simp only [decPairsWith] at h
    split at h
    · simp at h
    · rename_i k r₁ l₁ h1
      split at h
      · simp at h
      · rename_i v r₂ l₂ h2
        split at h
        · simp at h
        · obtain ⟨a1, a2⟩ := hf _ _ _ _ _ h1
          obtain ⟨b1, b2⟩ := hf _ _ _ _ _ h2
          obtain ⟨c1, c2, c3⟩ := ih _ _ _ _ _ _ h
          have hk := count_pos k
          have hv := count_pos v
          have hm := countPairs_mapAdd m k v
          omega

/-- the decoder never produces more items than its counter allows, and always consumes input. -/
theorem decItem_good (prot : Bool) : ∀ fuel, Good (decItem prot fuel) := by
  intro fuel
  induction fuel with
  | zero => intro lim b v r lim' h; simp [decItem] at h
  | succ fuel ih =>
    intro lim b v r lim' h
    cases b with
    | nil => simp [decItem] at h
    | cons t rest =>
      simp only [decItem] at h
      split at h
      · simp at h
      · rename_i hlim
        split at h
        · -- byte array / buffer
          split at h
          · simp at h
          · rename_i d r' hd
            simp at h
            obtain ⟨e1, e2, e3⟩ := h
            have hs := (varBytes_strict WireLimits.stackMaxSize) rest d r' hd
            subst e2 e3
            constructor
            · rw [← e1]; split <;> simp [count] <;> omega
            · simp; omega
        · split at h
          · -- boolean
            split at h
            · simp at h
            · simp at h
              obtain ⟨e1, e2, e3⟩ := h
              subst e1 e2 e3
              simp [count]; omega
          · split at h
            · -- integer
              split at h
              · simp at h
              · rename_i d r' hd
                simp at h
                obtain ⟨e1, e2, e3⟩ := h
                have hs := (varBytes_strict WireLimits.bigintMaxBytesLen) rest d r' hd
                subst e1 e2 e3
                simp [count]; omega
            · split at h
              · -- array / struct
                split at h
                · simp at h
                · rename_i n r' hn
                  split at h
                  · simp at h
                  · split at h
                    · simp at h
                    · rename_i xs r'' l' hl
                      simp at h
                      obtain ⟨e1, e2, e3⟩ := h
                      obtain ⟨c1, c2, _⟩ := decListWith_good ih _ _ _ _ _ _ hl
                      have hs := (readVarUint_suffix hn).2.1
                      subst e2 e3
                      constructor
                      · rw [← e1]; split <;> simp [count] <;> omega
                      · simp; omega
              · split at h
                · -- map
                  split at h
                  · simp at h
                  · rename_i n r' hn
                    split at h
                    · simp at h
                    · split at h
                      · simp at h
                      · rename_i m r'' l' hl
                        simp at h
                        obtain ⟨e1, e2, e3⟩ := h
                        obtain ⟨c1, c2, c3⟩ := decPairsWith_good ih _ _ _ _ _ _ _ hl
                        have hs := (readVarUint_suffix hn).2.1
                        subst e1 e2 e3
                        simp [count, countPairs] at c1 ⊢; omega
                · split at h
                  · simp at h
                    obtain ⟨e1, e2, e3⟩ := h
                    subst e1 e2 e3
                    simp [count]; omega
                  · split at h
                    · simp at h
                      obtain ⟨e1, e2, e3⟩ := h
                      subst e1 e2 e3
                      simp [count]; omega
                    · split at h
                      · split at h
                        · simp at h
                        · rename_i p r' hp
                          simp at h
                          obtain ⟨e1, e2, e3⟩ := h
                          have hs := (readVarUint_suffix hp).2.1
                          subst e1 e2 e3
                          simp [count]; omega
                      · split at h
                        · simp at h
                          obtain ⟨e1, e2, e3⟩ := h
                          subst e1 e2 e3
                          simp [count]; omega
                        · simp at h



theorem stripNeg_cons2 (a x : UInt8) (t : Bytes) :
    stripNeg (a :: x :: t) = if a = 0xff ∧ x.toNat ≥ 0x80 then stripNeg (x :: t) else a :: x :: t := by
  simp [stripNeg]

theorem stripPos_cons2 (a x : UInt8) (t : Bytes) :
    stripPos (a :: x :: t) = if a = 0 ∧ x.toNat < 0x80 then stripPos (x :: t) else a :: x :: t := by
  simp [stripPos]

theorem stripNeg_idem (l : Bytes) : stripNeg (stripNeg l) = stripNeg l := by
  induction l with
  | nil => simp [stripNeg]
  | cons a t ih =>
    cases t with
    | nil => simp [stripNeg]
    | cons x t' =>
      rw [stripNeg_cons2]
      by_cases hc : a = 0xff ∧ x.toNat ≥ 0x80
      · simp only [hc, and_self, if_true]; exact ih
      · simp only [hc, if_false]; rw [stripNeg_cons2]; simp only [hc, if_false]

theorem stripPos_idem (l : Bytes) : stripPos (stripPos l) = stripPos l := by
  induction l with
  | nil => simp [stripPos]
  | cons a t ih =>
    cases t with
    | nil => by_cases h : a = 0 <;> simp [stripPos, h]
    | cons x t' =>
      rw [stripPos_cons2]
      by_cases hc : a = 0 ∧ x.toNat < 0x80
      · simp only [hc, and_self, if_true]; exact ih
      · simp only [hc, if_false]; rw [stripPos_cons2]; simp only [hc, if_false]

theorem stripNeg_length (l : Bytes) : (stripNeg l).length ≤ l.length := by
  induction l with
  | nil => simp [stripNeg]
  | cons a t ih =>
    cases t with
    | nil => simp [stripNeg]
    | cons x t' =>
      rw [stripNeg_cons2]
      split
      · simp only [List.length_cons] at ih ⊢; omega
      · exact Nat.le_refl _

theorem stripPos_length (l : Bytes) : (stripPos l).length ≤ l.length := by
  induction l with
  | nil => simp [stripPos]
  | cons a t ih =>
    cases t with
    | nil => by_cases h : a = 0 <;> simp [stripPos, h]
    | cons x t' =>
      rw [stripPos_cons2]
      split
      · simp only [List.length_cons] at ih ⊢; omega
      · exact Nat.le_refl _

/-- a negative number stays negative (and non-empty) when redundant sign bytes are dropped. -/
theorem stripNeg_head (t : Bytes) : ∀ (a : UInt8), a.toNat ≥ 0x80 →
    ∃ a' t', stripNeg (a :: t) = a' :: t' ∧ a'.toNat ≥ 0x80 := by
  induction t with
  | nil => intro a ha; exact ⟨a, [], by simp [stripNeg], ha⟩
  | cons x t' ih =>
    intro a ha
    rw [stripNeg_cons2]
    by_cases hc : a = 0xff ∧ x.toNat ≥ 0x80
    · simp only [hc, and_self, if_true]; exact ih x hc.2
    · simp only [hc, if_false]; exact ⟨a, x :: t', rfl, ha⟩

/-- a non-negative number stays non-negative (or becomes the empty string = 0). -/
theorem stripPos_head (t : Bytes) : ∀ (a : UInt8), a.toNat < 0x80 →
    stripPos (a :: t) = [] ∨ ∃ a' t', stripPos (a :: t) = a' :: t' ∧ a'.toNat < 0x80 := by
  induction t with
  | nil =>
    intro a ha
    by_cases h : a = 0
    · left; simp [stripPos, h]
    · right; exact ⟨a, [], by simp [stripPos, h], ha⟩
  | cons x t' ih =>
    intro a ha
    rw [stripPos_cons2]
    by_cases hc : a = 0 ∧ x.toNat < 0x80
    · simp only [hc, and_self, if_true]; exact ih x hc.2
    · simp only [hc, if_false]; exact Or.inr ⟨a, x :: t', rfl, ha⟩

theorem stripSign_cons (top : UInt8) (rest : Bytes) :
    stripSign (top :: rest) = if top.toNat ≥ 0x80 then stripNeg (top :: rest) else stripPos (top :: rest) := rfl

theorem stripSign_idem (l : Bytes) : stripSign (stripSign l) = stripSign l := by
  cases l with
  | nil => simp [stripSign]
  | cons top rest =>
    rw [stripSign_cons]
    by_cases hneg : top.toNat ≥ 0x80
    · simp only [hneg, if_true]
      obtain ⟨a', t', hs, ha'⟩ := stripNeg_head rest top hneg
      rw [hs, stripSign_cons]
      simp only [ha', if_true]
      rw [← hs, stripNeg_idem]
    · simp only [hneg, if_false]
      rcases stripPos_head rest top (by omega) with hs | ⟨a', t', hs, ha'⟩
      · rw [hs]; simp [stripSign]
      · rw [hs, stripSign_cons]
        have : ¬ a'.toNat ≥ 0x80 := by omega
        simp only [this, if_false]
        rw [← hs, stripPos_idem]

theorem stripSign_length (l : Bytes) : (stripSign l).length ≤ l.length := by
  cases l with
  | nil => simp [stripSign]
  | cons top rest =>
    rw [stripSign_cons]
    split
    · exact stripNeg_length _
    · exact stripPos_length _

theorem canonInt_idem (d : Bytes) : canonInt (canonInt d) = canonInt d := by
  simp only [canonInt, List.reverse_reverse, stripSign_idem]

theorem canonInt_length (d : Bytes) : (canonInt d).length ≤ d.length := by
  have := stripSign_length d.reverse
  simp only [canonInt, List.length_reverse] at this ⊢
  exact this



theorem readVarBytes_enc (max : Nat) (d r : Bytes) (h1 : d.length ≤ max) (h2 : d.length < 2 ^ 64) :
    readVarBytes max (putVarUint d.length ++ d ++ r) = some (d, r) := by
  have := (varBytes_lawful max).roundtrip d r ⟨h1, h2⟩
  exact this

/-- the statement proved by induction on the number of items. -/
def RT (prot : Bool) (v : Item) : Prop :=
  ∀ fuel lim r, count v ≤ lim → count v ≤ fuel → lim < 2 ^ 63 →
    decItem prot fuel lim (enc v ++ r) = some (v, r, lim - count v)

theorem rt_byteArray (b : Bytes) (h : wfB prot (.byteArray b) = true) : RT prot (.byteArray b) := by
  intro fuel lim r hl hf h63
  simp only [count] at hl hf
  obtain ⟨fuel', rfl⟩ : ∃ f, fuel = f + 1 := ⟨fuel - 1, by omega⟩
  simp only [wfB, decide_eq_true_eq] at h
  have hb : b.length < 2 ^ 64 := by
    have : WireLimits.stackMaxSize < 2 ^ 64 := by decide
    omega
  have hr := readVarBytes_enc WireLimits.stackMaxSize b r h hb
  simp only [enc, List.cons_append, decItem]
  have hlim : ¬ lim = 0 := by omega
  simp only [hlim, if_false]
  have ht : (UInt8.ofNat WireLimits.itemByteArrayT).toNat = WireLimits.itemByteArrayT := by decide
  simp only [ht, true_or, if_true]
  rw [hr]
  simp [count]


theorem tag_toNat (n : Nat) (h : n < 256) : (UInt8.ofNat n).toNat = n := by
  simp [UInt8.toNat_ofNat']; omega

theorem rt_buffer (b : Bytes) (h : wfB prot (.buffer b) = true) : RT prot (.buffer b) := by
  intro fuel lim r hl hf h63
  simp only [count] at hl hf
  obtain ⟨fuel', rfl⟩ : ∃ f, fuel = f + 1 := ⟨fuel - 1, by omega⟩
  simp only [wfB, decide_eq_true_eq] at h
  have hb : b.length < 2 ^ 64 := by
    have : WireLimits.stackMaxSize < 2 ^ 64 := by decide
    omega
  have hr := readVarBytes_enc WireLimits.stackMaxSize b r h hb
  simp only [enc, List.cons_append, decItem]
  have hlim : ¬ lim = 0 := by omega
  simp only [hlim, if_false]
  have ht : (UInt8.ofNat WireLimits.itemBufferT).toNat = WireLimits.itemBufferT := by decide
  have hne : ¬ WireLimits.itemBufferT = WireLimits.itemByteArrayT := by decide
  simp only [ht, or_true, if_true, hne, if_false]
  rw [hr]
  simp [count]

theorem rt_bool (b : Bool) : RT prot (.bool b) := by
  intro fuel lim r hl hf h63
  simp only [count] at hl hf
  obtain ⟨fuel', rfl⟩ : ∃ f, fuel = f + 1 := ⟨fuel - 1, by omega⟩
  have hlim : ¬ lim = 0 := by omega
  have ht : (UInt8.ofNat WireLimits.itemBooleanT).toNat = WireLimits.itemBooleanT := by decide
  have h1 : ¬ (WireLimits.itemBooleanT = WireLimits.itemByteArrayT ∨ WireLimits.itemBooleanT = WireLimits.itemBufferT) := by decide
  cases b <;> simp [enc, decItem, hlim, ht, h1, count]

theorem rt_null : RT prot .null := by
  intro fuel lim r hl hf h63
  simp only [count] at hl hf
  obtain ⟨fuel', rfl⟩ : ∃ f, fuel = f + 1 := ⟨fuel - 1, by omega⟩
  have hlim : ¬ lim = 0 := by omega
  have ht : (UInt8.ofNat WireLimits.itemAnyT).toNat = WireLimits.itemAnyT := by decide
  have h1 : ¬ (WireLimits.itemAnyT = WireLimits.itemByteArrayT ∨ WireLimits.itemAnyT = WireLimits.itemBufferT) := by decide
  have h2 : ¬ WireLimits.itemAnyT = WireLimits.itemBooleanT := by decide
  have h3 : ¬ WireLimits.itemAnyT = WireLimits.itemIntegerT := by decide
  have h4 : ¬ (WireLimits.itemAnyT = WireLimits.itemArrayT ∨ WireLimits.itemAnyT = WireLimits.itemStructT) := by decide
  have h5 : ¬ WireLimits.itemAnyT = WireLimits.itemMapT := by decide
  simp [enc, decItem, hlim, ht, h1, h2, h3, h4, h5, count]

theorem rt_int (c : Bytes) (h : wfB prot (.int c) = true) : RT prot (.int c) := by
  intro fuel lim r hl hf h63
  simp only [count] at hl hf
  obtain ⟨fuel', rfl⟩ : ∃ f, fuel = f + 1 := ⟨fuel - 1, by omega⟩
  simp only [wfB, Bool.and_eq_true, decide_eq_true_eq] at h
  obtain ⟨hc, hlen⟩ := h
  have hlim : ¬ lim = 0 := by omega
  have ht : (UInt8.ofNat WireLimits.itemIntegerT).toNat = WireLimits.itemIntegerT := by decide
  have h1 : ¬ (WireLimits.itemIntegerT = WireLimits.itemByteArrayT ∨ WireLimits.itemIntegerT = WireLimits.itemBufferT) := by decide
  have h2 : ¬ WireLimits.itemIntegerT = WireLimits.itemBooleanT := by decide
  have h32 : WireLimits.bigintMaxBytesLen = 32 := by decide
  have hput : putVarUint c.length = [UInt8.ofNat c.length] := by
    unfold putVarUint; rw [if_pos (by omega)]
  have hr := readVarBytes_enc WireLimits.bigintMaxBytesLen c r hlen (by omega)
  rw [hput] at hr
  simp only [enc, List.cons_append, decItem, hlim, if_false, ht, h1, h2, if_true]
  simp only [List.singleton_append, List.cons_append, List.nil_append] at hr
  rw [hr]
  simp [count, hc]

theorem length_le_countList (l : List Item) : l.length ≤ countList l := by
  induction l with
  | nil => simp [countList]
  | cons x xs ih => simp only [List.length_cons, countList]; have := count_pos x; omega

theorem count_le_countList {l : List Item} {x : Item} (h : x ∈ l) : count x ≤ countList l := by
  induction l with
  | nil => simp at h
  | cons y ys ih =>
    simp only [countList]
    simp at h
    rcases h with h | h
    · subst h; omega
    · have := ih h; omega

theorem wfListB_mem {l : List Item} (h : wfListB prot l = true) {x : Item} (hx : x ∈ l) : wfB prot x = true := by
  induction l with
  | nil => simp at hx
  | cons y ys ih =>
    simp only [wfListB, Bool.and_eq_true] at h
    simp at hx
    rcases hx with hx | hx
    · subst hx; exact h.1
    · exact ih h.2 hx

theorem rt_list (l : List Item) (h : ∀ x ∈ l, RT prot x) : ∀ fuel lim r, countList l ≤ lim → countList l ≤ fuel →
    lim < 2 ^ 63 → decListWith (decItem prot fuel) l.length lim (encList l ++ r) = some (l, r, lim - countList l) := by
  induction l with
  | nil => intro fuel lim r _ _ _; simp [decListWith, encList, countList]
  | cons x xs ih =>
    intro fuel lim r hl hf h63
    simp only [countList] at hl hf
    simp only [List.length_cons, decListWith, encList, List.append_assoc]
    rw [h x (by simp) fuel lim _ (by omega) (by omega) h63]
    simp only
    rw [ih (fun y hy => h y (by simp [hy])) fuel _ r (by omega) (by omega) (by omega)]
    simp only [countList]
    congr 3
    omega

theorem rt_array (l : List Item) (h : ∀ x ∈ l, RT prot x) : RT prot (.array l) := by
  intro fuel lim r hl hf h63
  simp only [count] at hl hf
  obtain ⟨fuel', rfl⟩ : ∃ f, fuel = f + 1 := ⟨fuel - 1, by omega⟩
  have hlim : ¬ lim = 0 := by omega
  have ht : (UInt8.ofNat WireLimits.itemArrayT).toNat = WireLimits.itemArrayT := by decide
  have h1 : ¬ (WireLimits.itemArrayT = WireLimits.itemByteArrayT ∨ WireLimits.itemArrayT = WireLimits.itemBufferT) := by decide
  have h2 : ¬ WireLimits.itemArrayT = WireLimits.itemBooleanT := by decide
  have h3 : ¬ WireLimits.itemArrayT = WireLimits.itemIntegerT := by decide
  have hlen := length_le_countList l
  have h64 : l.length < 2 ^ 64 := by omega
  have hru := readVarUint_putVarUint l.length (encList l ++ r) h64
  have hchk : ¬ (l.length ≥ 2 ^ 63 ∨ l.length > lim - 1) := by omega
  have hlst := rt_list l h fuel' (lim - 1) r (by omega) (by omega) (by omega)
  simp only [enc, List.cons_append, List.append_assoc, decItem, hlim, if_false, ht, h1, h2, h3, true_or, if_true, hru,
    hchk, hlst, count]
  congr 3
  omega

theorem rt_struct (l : List Item) (h : ∀ x ∈ l, RT prot x) : RT prot (.struct l) := by
  intro fuel lim r hl hf h63
  simp only [count] at hl hf
  obtain ⟨fuel', rfl⟩ : ∃ f, fuel = f + 1 := ⟨fuel - 1, by omega⟩
  have hlim : ¬ lim = 0 := by omega
  have ht : (UInt8.ofNat WireLimits.itemStructT).toNat = WireLimits.itemStructT := by decide
  have h1 : ¬ (WireLimits.itemStructT = WireLimits.itemByteArrayT ∨ WireLimits.itemStructT = WireLimits.itemBufferT) := by decide
  have h2 : ¬ WireLimits.itemStructT = WireLimits.itemBooleanT := by decide
  have h3 : ¬ WireLimits.itemStructT = WireLimits.itemIntegerT := by decide
  have h4 : ¬ WireLimits.itemStructT = WireLimits.itemArrayT := by decide
  have hlen := length_le_countList l
  have h64 : l.length < 2 ^ 64 := by omega
  have hru := readVarUint_putVarUint l.length (encList l ++ r) h64
  have hchk : ¬ (l.length ≥ 2 ^ 63 ∨ l.length > lim - 1) := by omega
  have hlst := rt_list l h fuel' (lim - 1) r (by omega) (by omega) (by omega)
  simp only [enc, List.cons_append, List.append_assoc, decItem, hlim, if_false, ht, h1, h2, h3, h4, or_true, if_true, hru,
    hchk, hlst, count]
  congr 3
  omega

theorem mapAdd_append (acc : List (Item × Item)) (k v : Item)
    (h : ∀ p ∈ acc, keyCode p.1 ≠ keyCode k) : mapAdd acc k v = acc ++ [(k, v)] := by
  induction acc with
  | nil => simp [mapAdd]
  | cons p rest ih =>
    obtain ⟨k', v'⟩ := p
    simp only [mapAdd]
    have hne : ¬ keyCode k' = keyCode k := h (k', v') (by simp)
    simp only [hne, if_false, List.cons_append]
    rw [ih (fun q hq => h q (by simp [hq]))]

theorem two_length_le_countPairs (m : List (Item × Item)) : 2 * m.length ≤ countPairs m := by
  induction m with
  | nil => simp [countPairs]
  | cons p rest ih =>
    obtain ⟨k, v⟩ := p
    simp only [List.length_cons, countPairs]
    have := count_pos k; have := count_pos v; omega

theorem rt_pairs (m : List (Item × Item)) (h : ∀ p ∈ m, RT prot p.1 ∧ RT prot p.2) :
    ∀ (acc : List (Item × Item)) (seen : List (Nat × Bytes)) fuel lim r,
      (∀ p ∈ acc, ∃ c, keyCode p.1 = some c ∧ c ∈ seen) → keysOkB seen m = true →
      countPairs m ≤ lim → countPairs m ≤ fuel → lim < 2 ^ 63 →
      decPairsWith (decItem prot fuel) m.length acc lim (encPairs m ++ r) = some (acc ++ m, r, lim - countPairs m) := by
  induction m with
  | nil => intro acc seen fuel lim r _ _ _ _ _; simp [decPairsWith, encPairs, countPairs]
  | cons p rest ih =>
    obtain ⟨k, v⟩ := p
    intro acc seen fuel lim r hacc hk hl hf h63
    simp only [countPairs] at hl hf
    obtain ⟨hrk, hrv⟩ := h (k, v) (by simp)
    simp only at hrk hrv
    simp only [keysOkB] at hk
    cases hc : keyCode k with
    | none => rw [hc] at hk; simp at hk
    | some c =>
      rw [hc] at hk
      simp only [Bool.and_eq_true, Bool.not_eq_true', List.contains_eq_mem, decide_eq_false_iff_not] at hk
      obtain ⟨hnot, hrest⟩ := hk
      simp only [List.length_cons, decPairsWith, encPairs, List.append_assoc]
      rw [hrk fuel lim _ (by omega) (by omega) h63]
      simp only
      rw [hrv fuel _ _ (by omega) (by omega) (by omega)]
      simp only [hc]
      have hadd : mapAdd acc k v = acc ++ [(k, v)] := by
        apply mapAdd_append
        intro q hq he
        obtain ⟨c', hc', hm⟩ := hacc q hq
        rw [hc', hc] at he
        cases he
        exact hnot hm
      rw [hadd]
      have hacc' : ∀ q ∈ acc ++ [(k, v)], ∃ c', keyCode q.1 = some c' ∧ c' ∈ c :: seen := by
        intro q hq
        simp at hq
        rcases hq with hq | hq
        · obtain ⟨c', hc', hm⟩ := hacc q hq
          exact ⟨c', hc', by simp [hm]⟩
        · subst hq; exact ⟨c, hc, by simp⟩
      rw [ih (fun q hq => h q (by simp [hq])) (acc ++ [(k, v)]) (c :: seen) fuel _ r hacc' hrest
        (by omega) (by omega) (by omega)]
      simp only [List.append_assoc, List.singleton_append, countPairs]
      congr 3
      omega

theorem rt_map (m : List (Item × Item)) (h : ∀ p ∈ m, RT prot p.1 ∧ RT prot p.2) (hk : keysOkB [] m = true) : RT prot (.map m) := by
  intro fuel lim r hl hf h63
  simp only [count] at hl hf
  obtain ⟨fuel', rfl⟩ : ∃ f, fuel = f + 1 := ⟨fuel - 1, by omega⟩
  have hlim : ¬ lim = 0 := by omega
  have ht : (UInt8.ofNat WireLimits.itemMapT).toNat = WireLimits.itemMapT := by decide
  have h1 : ¬ (WireLimits.itemMapT = WireLimits.itemByteArrayT ∨ WireLimits.itemMapT = WireLimits.itemBufferT) := by decide
  have h2 : ¬ WireLimits.itemMapT = WireLimits.itemBooleanT := by decide
  have h3 : ¬ WireLimits.itemMapT = WireLimits.itemIntegerT := by decide
  have h4 : ¬ (WireLimits.itemMapT = WireLimits.itemArrayT ∨ WireLimits.itemMapT = WireLimits.itemStructT) := by decide
  have hlen := two_length_le_countPairs m
  have h64 : m.length < 2 ^ 64 := by omega
  have hru := readVarUint_putVarUint m.length (encPairs m ++ r) h64
  have hchk : ¬ (m.length ≥ 2 ^ 63 ∨ m.length > (lim - 1) / 2) := by omega
  have hps := rt_pairs m h [] [] fuel' (lim - 1) r (by simp) hk (by omega) (by omega) (by omega)
  simp only [enc, List.cons_append, List.append_assoc, decItem, hlim, if_false, ht, h1, h2, h3, h4, if_true, hru,
    hchk, hps, count, List.nil_append]
  congr 3
  omega

theorem count_le_countPairs {m : List (Item × Item)} {p : Item × Item} (h : p ∈ m) :
    count p.1 + count p.2 ≤ countPairs m := by
  induction m with
  | nil => simp at h
  | cons q qs ih =>
    obtain ⟨k, v⟩ := q
    simp only [countPairs]
    simp at h
    rcases h with h | h
    · subst h; simp
    · have := ih h; omega

theorem wfPairsB_mem {m : List (Item × Item)} (h : wfPairsB prot m = true) {p : Item × Item} (hp : p ∈ m) :
    wfB prot p.1 = true ∧ wfB prot p.2 = true := by
  induction m with
  | nil => simp at hp
  | cons q qs ih =>
    obtain ⟨k, v⟩ := q
    simp only [wfPairsB, Bool.and_eq_true] at h
    simp at hp
    rcases hp with hp | hp
    · subst hp; exact ⟨h.1.1, h.1.2⟩
    · exact ih h.2 hp

theorem rt_interop (hp : prot = true) : RT prot .interop := by
  intro fuel lim r hl hf h63
  simp only [count] at hl hf
  obtain ⟨fuel', rfl⟩ : ∃ f, fuel = f + 1 := ⟨fuel - 1, by omega⟩
  have hlim : ¬ lim = 0 := by omega
  have ht : (UInt8.ofNat WireLimits.itemInteropT).toNat = WireLimits.itemInteropT := by decide
  have h1 : ¬ (WireLimits.itemInteropT = WireLimits.itemByteArrayT ∨ WireLimits.itemInteropT = WireLimits.itemBufferT) := by decide
  have h2 : ¬ WireLimits.itemInteropT = WireLimits.itemBooleanT := by decide
  have h3 : ¬ WireLimits.itemInteropT = WireLimits.itemIntegerT := by decide
  have h4 : ¬ (WireLimits.itemInteropT = WireLimits.itemArrayT ∨ WireLimits.itemInteropT = WireLimits.itemStructT) := by decide
  have h5 : ¬ WireLimits.itemInteropT = WireLimits.itemMapT := by decide
  have h6 : ¬ WireLimits.itemInteropT = WireLimits.itemAnyT := by decide
  simp [enc, decItem, hlim, ht, h1, h2, h3, h4, h5, h6, hp, count]

theorem rt_invalid (hp : prot = true) : RT prot .invalid := by
  intro fuel lim r hl hf h63
  simp only [count] at hl hf
  obtain ⟨fuel', rfl⟩ : ∃ f, fuel = f + 1 := ⟨fuel - 1, by omega⟩
  have hlim : ¬ lim = 0 := by omega
  have ht : (UInt8.ofNat WireLimits.itemInvalidT).toNat = WireLimits.itemInvalidT := by decide
  have h1 : ¬ (WireLimits.itemInvalidT = WireLimits.itemByteArrayT ∨ WireLimits.itemInvalidT = WireLimits.itemBufferT) := by decide
  have h2 : ¬ WireLimits.itemInvalidT = WireLimits.itemBooleanT := by decide
  have h3 : ¬ WireLimits.itemInvalidT = WireLimits.itemIntegerT := by decide
  have h4 : ¬ (WireLimits.itemInvalidT = WireLimits.itemArrayT ∨ WireLimits.itemInvalidT = WireLimits.itemStructT) := by decide
  have h5 : ¬ WireLimits.itemInvalidT = WireLimits.itemMapT := by decide
  have h6 : ¬ WireLimits.itemInvalidT = WireLimits.itemAnyT := by decide
  have h7 : ¬ WireLimits.itemInvalidT = WireLimits.itemInteropT := by decide
  have h8 : ¬ WireLimits.itemInvalidT = WireLimits.itemPointerT := by decide
  simp [enc, decItem, hlim, ht, h1, h2, h3, h4, h5, h6, h7, h8, hp, count]

theorem rt_pointer (hp : prot = true) (p : Nat) (h64 : p < 2 ^ 64) : RT prot (.pointer p) := by
  intro fuel lim r hl hf h63
  simp only [count] at hl hf
  obtain ⟨fuel', rfl⟩ : ∃ f, fuel = f + 1 := ⟨fuel - 1, by omega⟩
  have hlim : ¬ lim = 0 := by omega
  have ht : (UInt8.ofNat WireLimits.itemPointerT).toNat = WireLimits.itemPointerT := by decide
  have h1 : ¬ (WireLimits.itemPointerT = WireLimits.itemByteArrayT ∨ WireLimits.itemPointerT = WireLimits.itemBufferT) := by decide
  have h2 : ¬ WireLimits.itemPointerT = WireLimits.itemBooleanT := by decide
  have h3 : ¬ WireLimits.itemPointerT = WireLimits.itemIntegerT := by decide
  have h4 : ¬ (WireLimits.itemPointerT = WireLimits.itemArrayT ∨ WireLimits.itemPointerT = WireLimits.itemStructT) := by decide
  have h5 : ¬ WireLimits.itemPointerT = WireLimits.itemMapT := by decide
  have h6 : ¬ WireLimits.itemPointerT = WireLimits.itemAnyT := by decide
  have h7 : ¬ WireLimits.itemPointerT = WireLimits.itemInteropT := by decide
  have hru := readVarUint_putVarUint p r h64
  simp [enc, decItem, hlim, ht, h1, h2, h3, h4, h5, h6, h7, hp, hru, count]

/-- every well-formed item round-trips: by induction on the number of items. -/
theorem rt_all : ∀ n v, count v ≤ n → wfB prot v = true → RT prot v := by
  intro n
  induction n with
  | zero => intro v hc _; have := count_pos v; omega
  | succ n ih =>
    intro v hc hw
    cases v with
    | byteArray b => exact rt_byteArray b hw
    | buffer b => exact rt_buffer b hw
    | bool b => exact rt_bool b
    | int c => exact rt_int c hw
    | null => exact rt_null
    | interop => simp [wfB] at hw; exact rt_interop hw
    | pointer p => simp [wfB] at hw; exact rt_pointer hw.1 p hw.2
    | invalid => simp [wfB] at hw; exact rt_invalid hw
    | array l =>
      simp only [count] at hc
      simp only [wfB] at hw
      exact rt_array l (fun x hx => ih x (by have := count_le_countList hx; omega) (wfListB_mem hw hx))
    | struct l =>
      simp only [count] at hc
      simp only [wfB] at hw
      exact rt_struct l (fun x hx => ih x (by have := count_le_countList hx; omega) (wfListB_mem hw hx))
    | map m =>
      simp only [count] at hc
      simp only [wfB, Bool.and_eq_true] at hw
      refine rt_map m (fun p hp => ?_) hw.2
      have hcp := count_le_countPairs hp
      have hwp := wfPairsB_mem hw.1 hp
      have := count_pos p.1; have := count_pos p.2
      exact ⟨ih p.1 (by omega) hwp.1, ih p.2 (by omega) hwp.2⟩



theorem keysOkB_mapAdd (k v : Item) (c : Nat × Bytes) (hk : keyCode k = some c) :
    ∀ (acc : List (Item × Item)) (seen : List (Nat × Bytes)), keysOkB seen acc = true → c ∉ seen →
      keysOkB seen (mapAdd acc k v) = true := by
  intro acc
  induction acc with
  | nil =>
    intro seen _ hc
    simp [mapAdd, keysOkB, hk, hc]
  | cons p rest ih =>
    obtain ⟨k', v'⟩ := p
    intro seen h hc
    simp only [keysOkB] at h
    cases hk' : keyCode k' with
    | none => rw [hk'] at h; simp at h
    | some c' =>
      rw [hk'] at h
      simp only [Bool.and_eq_true, Bool.not_eq_true', List.contains_eq_mem, decide_eq_false_iff_not] at h
      simp only [mapAdd]
      split
      · simp only [keysOkB, hk', Bool.and_eq_true, Bool.not_eq_true', List.contains_eq_mem, decide_eq_false_iff_not]
        exact h
      · rename_i hne
        simp only [keysOkB, hk', Bool.and_eq_true, Bool.not_eq_true', List.contains_eq_mem, decide_eq_false_iff_not]
        refine ⟨h.1, ih (c' :: seen) h.2 ?_⟩
        intro hm
        simp at hm
        rcases hm with hm | hm
        · apply hne; rw [hk', hk, hm]
        · exact hc hm

theorem wfPairsB_mapAdd (k v : Item) (hk : wfB prot k = true) (hv : wfB prot v = true) :
    ∀ (acc : List (Item × Item)), wfPairsB prot acc = true → wfPairsB prot (mapAdd acc k v) = true := by
  intro acc
  induction acc with
  | nil => intro _; simp [mapAdd, wfPairsB, hk, hv]
  | cons p rest ih =>
    obtain ⟨k', v'⟩ := p
    intro h
    simp only [wfPairsB, Bool.and_eq_true] at h
    simp only [mapAdd]
    split
    · simp only [wfPairsB, Bool.and_eq_true]; exact ⟨⟨h.1.1, hv⟩, h.2⟩
    · simp only [wfPairsB, Bool.and_eq_true]; exact ⟨h.1, ih h.2⟩

/-- a sub-decoder that only yields well-formed items. -/
def YieldsWF (prot : Bool) (f : Nat → Bytes → DecRes Item) : Prop :=
  ∀ lim b v r lim', f lim b = some (v, r, lim') → wfB prot v = true

theorem decListWith_wf {f : Nat → Bytes → DecRes Item} (hf : YieldsWF prot f) :
    ∀ n lim b xs r lim', decListWith f n lim b = some (xs, r, lim') → wfListB prot xs = true := by
  intro n
  induction n with
  | zero =>
    intro lim b xs r lim' h
    simp [decListWith] at h
    rw [h.1]; simp [wfListB]
  | succ n ih =>
    intro lim b xs r lim' h
    simp only [decListWith] at h
    split at h
    · simp at h
    · rename_i x r₁ l₁ h1
      split at h
      · simp at h
      · rename_i ys r₂ l₂ h2
        simp at h
        rw [← h.1]
        simp only [wfListB, Bool.and_eq_true]
        exact ⟨hf _ _ _ _ _ h1, ih _ _ _ _ _ h2⟩

theorem decPairsWith_wf {f : Nat → Bytes → DecRes Item} (hf : YieldsWF prot f) :
    ∀ n m lim b m' r lim', decPairsWith f n m lim b = some (m', r, lim') →
      wfPairsB prot m = true → keysOkB [] m = true → wfPairsB prot m' = true ∧ keysOkB [] m' = true := by
  intro n
  induction n with
  | zero =>
    intro m lim b m' r lim' h hw hk
    simp [decPairsWith] at h
    rw [← h.1]; exact ⟨hw, hk⟩
  | succ n ih =>
    intro m lim b m' r lim' h hw hk
    simp only [decPairsWith] at h
    split at h
    · simp at h
    · rename_i k r₁ l₁ h1
      split at h
      · simp at h
      · rename_i v r₂ l₂ h2
        split at h
        · simp at h
        · rename_i c hc
          exact ih _ _ _ _ _ _ h (wfPairsB_mapAdd k v (hf _ _ _ _ _ h1) (hf _ _ _ _ _ h2) m hw)
            (keysOkB_mapAdd k v c hc m [] hk (by simp))

/-- the unprotected decoder only yields well-formed items (so what it accepts re-encodes and round-trips). -/
theorem decItem_wf : ∀ fuel, YieldsWF prot (decItem prot fuel) := by
  intro fuel
  induction fuel with
  | zero => intro lim b v r lim' h; simp [decItem] at h
  | succ fuel ih =>
    intro lim b v r lim' h
    cases b with
    | nil => simp [decItem] at h
    | cons t rest =>
      simp only [decItem] at h
      split at h
      · simp at h
      · split at h
        · split at h
          · simp at h
          · rename_i d r' hd
            simp at h
            have hw := (varBytes_lawful WireLimits.stackMaxSize).dec_wf rest d r' hd
            rw [← h.1]
            split <;> simp [wfB] <;> exact hw.1
        · split at h
          · split at h
            · simp at h
            · simp at h; rw [← h.1]; simp [wfB]
          · split at h
            · split at h
              · simp at h
              · rename_i d r' hd
                simp at h
                have hw := (varBytes_lawful WireLimits.bigintMaxBytesLen).dec_wf rest d r' hd
                rw [← h.1]
                simp only [wfB, Bool.and_eq_true, decide_eq_true_eq]
                exact ⟨canonInt_idem d, Nat.le_trans (canonInt_length d) hw.1⟩
            · split at h
              · split at h
                · simp at h
                · split at h
                  · simp at h
                  · split at h
                    · simp at h
                    · rename_i xs r'' l' hl
                      simp at h
                      have := decListWith_wf ih _ _ _ _ _ _ hl
                      rw [← h.1]
                      split <;> simp [wfB, this]
              · split at h
                · split at h
                  · simp at h
                  · split at h
                    · simp at h
                    · split at h
                      · simp at h
                      · rename_i m r'' l' hl
                        simp at h
                        have := decPairsWith_wf ih _ _ _ _ _ _ _ hl (by simp [wfPairsB]) (by simp [keysOkB])
                        rw [← h.1]
                        simp [wfB, this.1, this.2]
                · split at h
                  · simp at h; rw [← h.1]; simp [wfB]
                  · split at h
                    · rename_i hp
                      simp at h; rw [← h.1]; simp [wfB, hp.1]
                    · split at h
                      · rename_i hp
                        split at h
                        · simp at h
                        · rename_i q r' hq
                          simp at h
                          rw [← h.1]
                          have := (readVarUint_suffix hq).2.2
                          simp [wfB, hp.1]; omega
                      · split at h
                        · rename_i hp
                          simp at h; rw [← h.1]; simp [wfB, hp.1]
                        · simp at h

/-- the rest a sub-decoder leaves is a suffix of its input. -/
def Suff (f : Nat → Bytes → DecRes Item) : Prop :=
  ∀ lim b v r lim', f lim b = some (v, r, lim') → ∃ p, b = p ++ r

theorem decListWith_suff {f : Nat → Bytes → DecRes Item} (hf : Suff f) :
    ∀ n lim b xs r lim', decListWith f n lim b = some (xs, r, lim') → ∃ p, b = p ++ r := by
  intro n
  induction n with
  | zero =>
    intro lim b xs r lim' h
    simp [decListWith] at h
    exact ⟨[], by simp [h.2.1]⟩
  | succ n ih =>
    intro lim b xs r lim' h
    simp only [decListWith] at h
    split at h
    · simp at h
    · rename_i x r₁ l₁ h1
      split at h
      · simp at h
      · rename_i ys r₂ l₂ h2
        simp at h
        obtain ⟨p₁, e₁⟩ := hf _ _ _ _ _ h1
        obtain ⟨p₂, e₂⟩ := ih _ _ _ _ _ h2
        exact ⟨p₁ ++ p₂, by rw [e₁, e₂, ← h.2.1]; simp⟩

theorem decPairsWith_suff {f : Nat → Bytes → DecRes Item} (hf : Suff f) :
    ∀ n m lim b m' r lim', decPairsWith f n m lim b = some (m', r, lim') → ∃ p, b = p ++ r := by
  intro n
  induction n with
  | zero =>
    intro m lim b m' r lim' h
    simp [decPairsWith] at h
    exact ⟨[], by simp [h.2.1]⟩
  | succ n ih =>
    intro m lim b m' r lim' h
    simp only [decPairsWith] at h
    split at h
    · simp at h
    · rename_i k r₁ l₁ h1
      split at h
      · simp at h
      · rename_i v r₂ l₂ h2
        split at h
        · simp at h
        · obtain ⟨p₁, e₁⟩ := hf _ _ _ _ _ h1
          obtain ⟨p₂, e₂⟩ := hf _ _ _ _ _ h2
          obtain ⟨p₃, e₃⟩ := ih _ _ _ _ _ _ h
          exact ⟨p₁ ++ p₂ ++ p₃, by rw [e₁, e₂, e₃]; simp⟩

theorem decItem_suff (prot : Bool) : ∀ fuel, Suff (decItem prot fuel) := by
  intro fuel
  induction fuel with
  | zero => intro lim b v r lim' h; simp [decItem] at h
  | succ fuel ih =>
    intro lim b v r lim' h
    cases b with
    | nil => simp [decItem] at h
    | cons t rest =>
      have cons_suff : ∀ {r : Bytes}, (∃ p, rest = p ++ r) → ∃ p, t :: rest = p ++ r := by
        intro r ⟨p, e⟩; exact ⟨t :: p, by rw [e]; simp⟩
      simp only [decItem] at h
      split at h
      · simp at h
      · split at h
        · split at h
          · simp at h
          · rename_i d r' hd
            simp at h
            rw [← h.2.1]
            exact cons_suff ((varBytes_lawful WireLimits.stackMaxSize).dec_suffix rest d r' hd)
        · split at h
          · split at h
            · simp at h
            · rename_i x r' 
              simp at h
              rw [← h.2.1]
              exact ⟨[t, x], by simp⟩
          · split at h
            · split at h
              · simp at h
              · rename_i d r' hd
                simp at h
                rw [← h.2.1]
                exact cons_suff ((varBytes_lawful WireLimits.bigintMaxBytesLen).dec_suffix rest d r' hd)
            · split at h
              · split at h
                · simp at h
                · rename_i n r' hn
                  split at h
                  · simp at h
                  · split at h
                    · simp at h
                    · rename_i xs r'' l' hl
                      simp at h
                      obtain ⟨p₁, e₁⟩ := (readVarUint_suffix hn).1
                      obtain ⟨p₂, e₂⟩ := decListWith_suff ih _ _ _ _ _ _ hl
                      rw [← h.2.1]
                      exact cons_suff ⟨p₁ ++ p₂, by rw [e₁, e₂]; simp⟩
              · split at h
                · split at h
                  · simp at h
                  · rename_i n r' hn
                    split at h
                    · simp at h
                    · split at h
                      · simp at h
                      · rename_i m r'' l' hl
                        simp at h
                        obtain ⟨p₁, e₁⟩ := (readVarUint_suffix hn).1
                        obtain ⟨p₂, e₂⟩ := decPairsWith_suff ih _ _ _ _ _ _ _ hl
                        rw [← h.2.1]
                        exact cons_suff ⟨p₁ ++ p₂, by rw [e₁, e₂]; simp⟩
                · split at h
                  · simp at h; rw [← h.2.1]; exact ⟨[t], by simp⟩
                  · split at h
                    · simp at h; rw [← h.2.1]; exact ⟨[t], by simp⟩
                    · split at h
                      · split at h
                        · simp at h
                        · rename_i q r' hq
                          simp at h
                          rw [← h.2.1]
                          exact cons_suff (readVarUint_suffix hq).1
                      · split at h
                        · simp at h; rw [← h.2.1]; exact ⟨[t], by simp⟩
                        · simp at h

end Item
end NeoModel.Wire
