/-
Helper lemmas for C18 / Uint160, Uint256: the converse direction. Every accepted hex string is the
printed form of the value it decodes to, up to letter case (the decoder accepts A-F, the printer
writes a-f); the accepted strings characterised.
-/
import NeoModel.Proofs.CodecUint
namespace NeoModel.Codec

/-- ASCII lower-casing of the hex letters. -/
def lowerHex (c : UInt8) : UInt8 := if 65 ≤ c.toNat ∧ c.toNat ≤ 70 then UInt8.ofNat (c.toNat + 32) else c

theorem u8_toNat_ofNat_self (c : UInt8) : UInt8.ofNat c.toNat = c := by
  apply UInt8.toNat_inj.mp
  simp

theorem hexVal_spec (c : UInt8) (n : Nat) (h : hexValB c = some n) : n < 16 ∧ hexDigitB n = lowerHex c := by
  unfold hexValB at h
  simp only at h
  have hc := c.toNat_lt
  by_cases c1 : 48 ≤ c.toNat ∧ c.toNat ≤ 57
  · simp only [c1, and_self, if_true, Option.some.injEq] at h
    subst h
    have c2 : ¬ (65 ≤ c.toNat ∧ c.toNat ≤ 70) := by omega
    refine ⟨by omega, ?_⟩
    have : c.toNat - 48 < 10 := by omega
    simp only [hexDigitB, this, if_true, lowerHex, c2, if_false]
    rw [show 48 + (c.toNat - 48) = c.toNat by omega, u8_toNat_ofNat_self]
  · simp only [c1, if_false] at h
    by_cases c2 : 97 ≤ c.toNat ∧ c.toNat ≤ 102
    · simp only [c2, and_self, if_true, Option.some.injEq] at h
      subst h
      have c3 : ¬ (65 ≤ c.toNat ∧ c.toNat ≤ 70) := by omega
      refine ⟨by omega, ?_⟩
      have : ¬ (c.toNat - 87 < 10) := by omega
      simp only [hexDigitB, this, if_false, lowerHex, c3]
      rw [show 87 + (c.toNat - 87) = c.toNat by omega, u8_toNat_ofNat_self]
    · simp only [c2, if_false] at h
      by_cases c3 : 65 ≤ c.toNat ∧ c.toNat ≤ 70
      · simp only [c3, and_self, if_true, Option.some.injEq] at h
        subst h
        refine ⟨by omega, ?_⟩
        have : ¬ (c.toNat - 55 < 10) := by omega
        simp only [hexDigitB, this, if_false, lowerHex, c3, and_self, if_true]
        congr 1; omega
      · simp [c3] at h

/-- `hex.EncodeToString (hex.DecodeString s) = strings.ToLower s` for every accepted `s`. -/
theorem hexEnc_hexDec : ∀ (s b : Bytes), hexDecB s = some b → hexEncB b = s.map lowerHex ∧ s.length = 2 * b.length
  | [], b, h => by simp [hexDecB] at h; subst h; simp [hexEncB]
  | [_], b, h => by simp [hexDecB] at h
  | a :: c :: r, b, h => by
    unfold hexDecB at h
    cases ha : hexValB a with
    | none => simp [ha] at h
    | some x =>
      cases hc : hexValB c with
      | none => simp [ha, hc] at h
      | some y =>
        cases hr : hexDecB r with
        | none => simp [ha, hc, hr] at h
        | some t =>
          simp only [ha, hc, hr, Option.some.injEq] at h
          subst h
          obtain ⟨hx, hxa⟩ := hexVal_spec a x ha
          obtain ⟨hy, hyc⟩ := hexVal_spec c y hc
          obtain ⟨ih1, ih2⟩ := hexEnc_hexDec r t hr
          have hv : (UInt8.ofNat (x * 16 + y)).toNat = x * 16 + y := by
            simp [UInt8.toNat_ofNat']; omega
          refine ⟨?_, by simp [ih2]; omega⟩
          simp only [hexEncB, hv, List.map_cons, ih1]
          rw [show (x * 16 + y) / 16 = x by omega, show (x * 16 + y) % 16 = y by omega, hxa, hyc]

/-- the string decoders accept exactly the hex strings of `2·size` digits (either letter case), and
what they return prints back to the lower-cased input. -/
theorem uDecodeString_iff (size : Nat) (s u : Bytes) :
    (uDecodeStringBE size s = some u ↔ s.length = size * 2 ∧ hexDecB s = some u) ∧
    (uDecodeStringLE size s = some u ↔ s.length = size * 2 ∧ hexDecB s = some u.reverse) := by
  constructor
  · unfold uDecodeStringBE uDecodeBytesBE
    constructor
    · intro h
      by_cases c : (s.length != size * 2) = true
      · simp [c] at h
      simp only [c, Bool.false_eq_true, if_false] at h
      have hl : s.length = size * 2 := by simpa using c
      cases hd : hexDecB s with
      | none => simp [hd] at h
      | some b =>
        simp only [hd] at h
        split at h
        · cases h
        · injection h with h; subst h; exact ⟨hl, rfl⟩
    · rintro ⟨hl, hd⟩
      have := (hexEnc_hexDec s u hd).2
      have hu : u.length = size := by omega
      simp [hl, hd, hu]
  · unfold uDecodeStringLE uDecodeBytesLE
    constructor
    · intro h
      by_cases c : (s.length != size * 2) = true
      · simp [c] at h
      simp only [c, Bool.false_eq_true, if_false] at h
      have hl : s.length = size * 2 := by simpa using c
      cases hd : hexDecB s with
      | none => simp [hd] at h
      | some b =>
        simp only [hd] at h
        split at h
        · cases h
        · injection h with h; subst h; exact ⟨hl, by simp⟩
    · rintro ⟨hl, hd⟩
      have := (hexEnc_hexDec s _ hd).2
      have hu : u.length = size := by simp at this; omega
      simp [hl, hd, hu]

theorem uString_decode (size : Nat) (s u : Bytes) :
    (uDecodeStringBE size s = some u → uStringBE u = s.map lowerHex ∧ u.length = size) ∧
    (uDecodeStringLE size s = some u → uStringLE u = s.map lowerHex ∧ u.length = size) := by
  constructor
  · intro h
    obtain ⟨hl, hd⟩ := ((uDecodeString_iff size s u).1).mp h
    obtain ⟨h1, h2⟩ := hexEnc_hexDec s u hd
    exact ⟨by simp [uStringBE, uBytesBE, h1], by omega⟩
  · intro h
    obtain ⟨hl, hd⟩ := ((uDecodeString_iff size s u).2).mp h
    obtain ⟨h1, h2⟩ := hexEnc_hexDec s _ hd
    exact ⟨by simp [uStringLE, uBytesLE, h1], by simp at h2; omega⟩

end NeoModel.Codec
