/-
C12 proofs, part 5i: Struct.Clone (item.go:352-377, vm.go cloneIfStruct) only appends unreferenced
cells; the counter invariant and acyclicity survive the extension.
-/
import NeoModel.Proofs.VmAcctExecF
namespace NeoModel.VmAcct

/-- `h'` = `h` plus unreferenced cells whose children point to cells of `h` or to earlier new cells -/
def CloneExt (h h' : Heap) : Prop :=
  ∃ ext : List Cell, h' = h ++ ext ∧
    ∀ i c, ext[i]? = some c → c.rc = 0 ∧ ∀ x ∈ c.ch, ∀ d, x.cid = some d → d < h.length + i

theorem CloneExt.refl (h : Heap) : CloneExt h h := ⟨[], by simp, by intro i c hc; simp at hc⟩

theorem CloneExt.trans {a b c : Heap} (h1 : CloneExt a b) (h2 : CloneExt b c) : CloneExt a c := by
  obtain ⟨e1, rfl, p1⟩ := h1
  obtain ⟨e2, rfl, p2⟩ := h2
  refine ⟨e1 ++ e2, by simp, ?_⟩
  intro i cell hc
  by_cases hi : i < e1.length
  · rw [List.getElem?_append_left hi] at hc
    exact p1 i cell hc
  · have hge : e1.length ≤ i := Nat.le_of_not_lt hi
    rw [List.getElem?_append_right hge] at hc
    obtain ⟨q1, q2⟩ := p2 (i - e1.length) cell hc
    refine ⟨q1, fun x hx d hd => ?_⟩
    have := q2 x hx d hd
    simp only [List.length_append] at this
    omega

theorem CloneExt.snoc {h h' : Heap} (he : CloneExt h h') (ch : List Item) (hch : ∀ x ∈ ch, ∀ d, x.cid = some d → d < h'.length) :
    CloneExt h (h' ++ [{ rc := 0, ch := ch }]) := by
  obtain ⟨e1, rfl, p1⟩ := he
  refine ⟨e1 ++ [{ rc := 0, ch := ch }], by simp, ?_⟩
  intro i cell hc
  by_cases hi : i < e1.length
  · rw [List.getElem?_append_left hi] at hc
    exact p1 i cell hc
  · have hge : e1.length ≤ i := Nat.le_of_not_lt hi
    rw [List.getElem?_append_right hge] at hc
    have h0 : i - e1.length = 0 := by
      rcases Nat.eq_zero_or_pos (i - e1.length) with h0 | hp
      · exact h0
      · rw [List.getElem?_eq_none (by simp; omega)] at hc; cases hc
    rw [h0] at hc
    simp only [List.getElem?_cons_zero, Option.some.injEq] at hc
    subst hc
    refine ⟨rfl, fun x hx d hd => ?_⟩
    have := hch x hx d hd
    simp only [List.length_append] at this
    omega

theorem CloneExt.len {h h' : Heap} (he : CloneExt h h') : h.length ≤ h'.length := by
  obtain ⟨e, rfl, _⟩ := he; simp

theorem CloneExt.rcOf {h h' : Heap} (he : CloneExt h h') (j : Nat) : rcOf h' j = rcOf h j := by
  obtain ⟨e, rfl, p⟩ := he
  simp only [VmAcct.rcOf]
  by_cases hj : j < h.length
  · rw [List.getElem?_append_left hj]
  · have hge : h.length ≤ j := Nat.le_of_not_lt hj
    rw [List.getElem?_append_right hge, List.getElem?_eq_none hge]
    cases hc : e[j - h.length]? with
    | none => rfl
    | some cell => simp [(p _ cell hc).1]

theorem CloneExt.chOf {h h' : Heap} (he : CloneExt h h') (j : Nat) (hj : j < h.length) : chOf h' j = chOf h j := by
  obtain ⟨e, rfl, _⟩ := he
  simp only [VmAcct.chOf, List.getElem?_append_left hj]

theorem held_ext (F : List Item → Nat) (h e : Heap) (hz : ∀ c ∈ e, c.rc = 0) :
    ((h ++ e).map (fun c => if c.rc = 0 then 0 else F c.ch)).sum = (h.map (fun c => if c.rc = 0 then 0 else F c.ch)).sum := by
  rw [List.map_append, List.sum_append]
  have : (e.map (fun c => if c.rc = 0 then 0 else F c.ch)).sum = 0 := by
    induction e with
    | nil => rfl
    | cons a t ih =>
      simp only [List.map_cons, List.sum_cons, hz a (List.mem_cons_self ..), if_true]
      rw [ih (fun c hc => hz c (List.mem_cons_of_mem _ hc))]
  omega

theorem CloneExt.wf {h h' : Heap} (he : CloneExt h h') (hw : HeapWf h) : HeapWf h' := by
  obtain ⟨e, rfl, p⟩ := he
  intro j x d hx hd
  by_cases hj : j < h.length
  · have : VmAcct.chOf (h ++ e) j = VmAcct.chOf h j := by simp only [VmAcct.chOf, List.getElem?_append_left hj]
    rw [this] at hx
    have := hw j x d hx hd
    simp; omega
  · have hge : h.length ≤ j := Nat.le_of_not_lt hj
    simp only [VmAcct.chOf, List.getElem?_append_right hge] at hx
    cases hc : e[j - h.length]? with
    | none => simp [hc] at hx
    | some cell =>
      simp only [hc] at hx
      have := (p _ cell hc).2 x hx d hd
      have hlt : j - h.length < e.length := by
        rcases Nat.lt_or_ge (j - h.length) e.length with hl | hl
        · exact hl
        · rw [List.getElem?_eq_none hl] at hc; cases hc
      simp; omega

theorem CloneExt.inv {c : Ctr} {h' : Heap} {f : Nat → Nat} {m : Nat} (he : CloneExt c.heap h') (inv : InvC c f m) :
    InvC { c with heap := h' } f m := by
  have hwf := he.wf inv.wf
  obtain ⟨e, rfl, p⟩ := he
  have hz : ∀ cell ∈ e, cell.rc = 0 := by
    intro cell hc
    obtain ⟨i, hi, hget⟩ := List.getElem_of_mem hc
    exact (p i cell (by rw [List.getElem?_eq_getElem hi, hget])).1
  refine ⟨hwf, fun j => ?_, ?_⟩
  · have := inv.rc j
    have hr := CloneExt.rcOf (h := c.heap) (h' := c.heap ++ e) ⟨e, rfl, p⟩ j
    simp only [heldCnt, held_ext (cnt j) c.heap e hz] at *
    omega
  · have := inv.refs
    simp only [heldLen, held_ext (List.length) c.heap e hz] at *
    exact this

theorem CloneExt.acyclic {h h' : Heap} (he : CloneExt h h') (hw : HeapWf h) (ha : Acyclic h) : Acyclic h' := by
  obtain ⟨rank, hr⟩ := ha
  obtain ⟨M, hM⟩ := exists_bound rank h.length
  obtain ⟨e, rfl, p⟩ := he
  refine ⟨fun j => if j < h.length then rank j else M + 1 + j, ?_⟩
  intro j x hx d hd
  by_cases hj : j < h.length
  · have hch : VmAcct.chOf (h ++ e) j = VmAcct.chOf h j := by simp only [VmAcct.chOf, List.getElem?_append_left hj]
    rw [hch] at hx
    have hdl := hw j x d hx hd
    simp only [hj, hdl, if_true]
    exact hr j x hx d hd
  · have hge : h.length ≤ j := Nat.le_of_not_lt hj
    simp only [VmAcct.chOf, List.getElem?_append_right hge] at hx
    cases hc : e[j - h.length]? with
    | none => simp [hc] at hx
    | some cell =>
      simp only [hc] at hx
      have hlt := (p _ cell hc).2 x hx d hd
      simp only [hj, if_false]
      by_cases hd' : d < h.length
      · simp only [hd', if_true]; have := hM d hd'; omega
      · simp only [hd', if_false]; omega

/-- Struct.Clone / the clone of a child list: the heap is extended, the results are valid there -/
theorem clone_spec : ∀ (f : Nat),
    (∀ h id h' id', cloneStruct f h id = some (h', id') → HeapWf h → CloneExt h h' ∧ id' < h'.length) ∧
    (∀ h xs h' xs', cloneList f h xs = some (h', xs') → HeapWf h → (∀ x ∈ xs, WfItem h x) →
      CloneExt h h' ∧ ∀ x ∈ xs', WfItem h' x) := by
  intro f
  induction f with
  | zero => exact ⟨fun h id h' id' hc => by simp [cloneStruct] at hc, fun h xs h' xs' hc => by simp [cloneList] at hc⟩
  | succ f ih =>
    obtain ⟨ihS, ihL⟩ := ih
    constructor
    · intro h id h' id' hc hw
      simp only [cloneStruct] at hc
      cases hl : cloneList f h (chOf h id) with
      | none => simp [hl] at hc
      | some p =>
        obtain ⟨h1, ch'⟩ := p
        simp only [hl, Option.some.injEq, Prod.mk.injEq] at hc
        obtain ⟨rfl, rfl⟩ := hc
        obtain ⟨e1, v1⟩ := ihL h (chOf h id) h1 ch' hl hw (fun x hx d hd => hw id x d hx hd)
        exact ⟨e1.snoc ch' (fun x hx d hd => v1 x hx d hd), by simp⟩
    · intro h xs h' xs' hc hw hv
      cases xs with
      | nil =>
        simp only [cloneList, Option.some.injEq, Prod.mk.injEq] at hc
        obtain ⟨rfl, rfl⟩ := hc
        exact ⟨CloneExt.refl _, fun x hx => by cases hx⟩
      | cons x t =>
        have hvt : ∀ y ∈ t, WfItem h y := fun y hy => hv y (List.mem_cons_of_mem _ hy)
        have plain : (∀ k, x ≠ .str k) → (match cloneList f h t with
            | none => none
            | some (h2, xs') => some (h2, x :: xs')) = some (h', xs') →
            CloneExt h h' ∧ ∀ y ∈ xs', WfItem h' y := by
          intro _ hc
          cases hl : cloneList f h t with
          | none => simp [hl] at hc
          | some p =>
            obtain ⟨h2, t'⟩ := p
            simp only [hl, Option.some.injEq, Prod.mk.injEq] at hc
            obtain ⟨rfl, rfl⟩ := hc
            obtain ⟨e2, v2⟩ := ihL h t h2 t' hl hw hvt
            refine ⟨e2, fun y hy => ?_⟩
            rcases List.mem_cons.1 hy with rfl | hy
            · exact wfItem_of_len (hv y (List.mem_cons_self ..)) e2.len
            · exact v2 y hy
        cases x with
        | prim => simp only [cloneList] at hc; exact plain (fun k e => by cases e) hc
        | arr a => simp only [cloneList] at hc; exact plain (fun k e => by cases e) hc
        | map a => simp only [cloneList] at hc; exact plain (fun k e => by cases e) hc
        | str d =>
          simp only [cloneList] at hc
          cases hs : cloneStruct f h d with
          | none => simp [hs] at hc
          | some p =>
            obtain ⟨h1, d'⟩ := p
            simp only [hs] at hc
            obtain ⟨e1, hd'⟩ := ihS h d h1 d' hs hw
            cases hl : cloneList f h1 t with
            | none => simp [hl] at hc
            | some q =>
              obtain ⟨h2, t'⟩ := q
              simp only [hl, Option.some.injEq, Prod.mk.injEq] at hc
              obtain ⟨rfl, rfl⟩ := hc
              obtain ⟨e2, v2⟩ := ihL h1 t h2 t' hl (e1.wf hw) (fun y hy => wfItem_of_len (hvt y hy) e1.len)
              refine ⟨e1.trans e2, fun y hy => ?_⟩
              rcases List.mem_cons.1 hy with rfl | hy
              · intro k hk
                simp only [Item.cid, Option.some.injEq] at hk
                subst hk
                exact Nat.lt_of_lt_of_le hd' e2.len
              · exact v2 y hy

end NeoModel.VmAcct
