/-
C11 helper lemmas: exactness of the store after a flush, in the reference-counting modes.
-/
import NeoModel.Model.MptRc
import NeoModel.Proofs.MptRcFlush
import NeoModel.Proofs.MptRcBatch
set_option linter.unusedSimpArgs false
namespace NeoModel.MptRc
open NeoModel.Mpt

/-- number of occurrences in `t` of (a node with) hash `h`. -/
def occH (H : Bytes → Bytes) (t : Node) (h : Bytes) : Nat := occ (hP H h) t

/-- the reference count a record carries (0 unless it is an active counted record). -/
def actC : Option Cell → Nat
  | some (.rc _ true n) => n
  | _ => 0

def activeCnt (s : Store) (h : Bytes) : Nat := actC (sget s h)

/-- shape of the records in a reference-counting mode: active with a positive count, or (GC mode
only) inactive with a height. -/
def CellOK (mode : Mode) : Cell → Prop
  | .rc _ true n => 0 < n
  | .rc _ false _ => mode.gcF = true
  | .plain _ => False

/-- the store is exact for the trie `t`: stored count = number of occurrences, for every hash. -/
structure Exact (H : Bytes → Bytes) (mode : Mode) (s : Store) (t : Node) : Prop where
  count : ∀ h, activeCnt s h = occH H t h
  shape : ∀ h c, sget s h = some c → CellOK mode c
  bytes : ∀ h c, sget s h = some c → H c.bytes = h

/-- the refcount map between two blocks. -/
structure MapGood (H : Bytes → Bytes) (m : RcMap) (s : Store) : Prop where
  nodup : (mkeys m).Nodup
  ok : MapOK H m
  zero : ∀ k e, mget m k = some e → e.delta = 0
  cache : ∀ k e, mget m k = some e → e.initial ≠ 0 → activeCnt s k = e.initial

theorem urc_exact (mode : Mode) (idx : Nat) (c : Option Cell) (e : RcEntry) (tgt : Nat)
    (hshape : ∀ x, c = some x → CellOK mode x)
    (hcache : e.initial ≠ 0 → actC c = e.initial)
    (htgt : (actC c : Int) + e.delta = tgt) :
    urc mode idx c e = some (tgt,
      if tgt = 0 then (if mode.gcF then some (.rc (dataOf mode c e) false idx) else none)
      else some (.rc (dataOf mode c e) true tgt)) := by
  have hcnt0 : cnt0Of mode c e = actC c := by
    unfold cnt0Of storedOf
    by_cases hi : e.initial = 0
    · simp only [hi, if_true]
      cases c with
      | none => simp [readCnt, actC, hi]
      | some x =>
        cases x with
        | plain b => exact absurd (hshape _ rfl) (by simp [CellOK])
        | rc b a n =>
          cases a with
          | true => simp [readCnt, actC]
          | false =>
            have := hshape _ rfl
            simp only [CellOK] at this
            simp [readCnt, actC, this, hi]
    · simp only [hi, if_false]
      exact (hcache hi).symm
  unfold urc
  simp only [hcnt0]
  have h0 : ¬ ((actC c : Int) + e.delta < 0) := by omega
  rw [if_neg h0]
  by_cases ht : tgt = 0
  · subst ht
    have : (actC c : Int) + e.delta = 0 := by omega
    simp only [this, if_true]
    cases mode.gcF <;> simp
  · have h1 : ¬ ((actC c : Int) + e.delta = 0) := by omega
    have h2 : ((actC c : Int) + e.delta).toNat = tgt := by omega
    simp [h1, h2, ht]

theorem dataOf_bytes (H : Bytes → Bytes) (mode : Mode) (c : Option Cell) (e : RcEntry) (k : Bytes)
    (hc : ∀ x, c = some x → H x.bytes = k) (he : H e.bytes = k) : H (dataOf mode c e) = k := by
  unfold dataOf storedOf
  by_cases hi : e.initial = 0
  · simp only [hi, if_true]
    cases c with
    | none => simpa [readCnt] using he
    | some x =>
      have hx := hc x rfl
      cases x with
      | plain b => simpa [readCnt] using he
      | rc b a n =>
        cases a with
        | true => simpa [readCnt, Cell.bytes] using hx
        | false =>
          cases hg : mode.gcF with
          | true => simpa [readCnt, hg] using he
          | false => simpa [readCnt, hg, Cell.bytes] using hx
  · simpa [hi] using he

/-- a record without its bytes: active flag and count / deactivation height. -/
def ctag : Option Cell → Option (Bool × Nat)
  | some (.rc _ a n) => some (a, n)
  | _ => none

/-- the record (without bytes) `Flush` leaves under a hash whose delta is not zero, given the number
of occurrences in the new trie. -/
def tagAfter (mode : Mode) (idx : Nat) (occ' : Nat) : Option (Bool × Nat) :=
  if occ' = 0 then (if mode.gcF then some (false, idx) else none) else some (true, occ')

/-- what `Flush` may do to one record. -/
def CellMove (mode : Mode) (idx : Nat) (c c' : Option Cell) : Prop :=
  c' = c ∨ (∃ b n, c' = some (.rc b true n)) ∨ (mode.gcF = true ∧ ∃ b, c' = some (.rc b false idx)) ∨
    (mode.gcF = false ∧ c' = none)

/-- C11.2/3 core, stated for the refcount map as it is just before `Flush` (whatever happened to it
during the block — events, re-loads of nodes from the store): if the store is exact for `t`, every
cached count that is set equals the stored one, and the map's deltas account for the change of
occurrences from `t` to `t'`, then `Flush` does not panic and leaves the store exact for `t'`, the
map clean again. -/
theorem flush_exact_mid (H : Bytes → Bytes) (mode : Mode) (hrc : mode.rc = true) (idx : Nat)
    (m1 : RcMap) (s : Store) (t t' : Node)
    (hnd1 : (mkeys m1).Nodup) (hok1 : MapOK H m1)
    (hcache1 : ∀ k e, mget m1 k = some e → e.initial ≠ 0 → activeCnt s k = e.initial)
    (hx : Exact H mode s t)
    (hocc : ∀ h, (occH H t' h : Int) = occH H t h + dlt m1 h) :
    ∃ m' s', flush mode idx m1 s = some (m', s') ∧ MapGood H m' s' ∧ Exact H mode s' t' ∧
      (∀ k, CellMove mode idx (sget s k) (sget s' k)) ∧
      (∀ k, ctag (sget s' k) = if dlt m1 k = 0 then ctag (sget s k) else tagAfter mode idx (occH H t' k)) := by
  -- facts about an entry of the map
  have hent : ∀ k e1, mget m1 k = some e1 →
      e1.delta = dlt m1 k ∧ (e1.initial ≠ 0 → activeCnt s k = e1.initial) ∧ H e1.bytes = k := by
    intro k e1 h1
    exact ⟨by simp [dlt, h1], hcache1 k e1 h1, hok1 k e1 h1⟩
  -- the per-entry step never panics and is what `urc_exact` says
  have hstep : ∀ k e1, mget (m1) k = some e1 → e1.delta ≠ 0 →
      estep mode idx (sget s k) e1 = some
        ((if occH H t' k = 0 then (if mode.gcF then some (.rc (dataOf mode (sget s k) e1) false idx) else none)
          else some (.rc (dataOf mode (sget s k) e1) true (occH H t' k))),
         (if occH H t' k = 0 then none else some { e1 with initial := occH H t' k, delta := 0 })) := by
    intro k e1 h1 hd
    obtain ⟨hdel, hcache, _⟩ := hent k e1 h1
    have hu := urc_exact mode idx (sget s k) e1 (occH H t' k) (fun x hx' => hx.shape k x hx') hcache
      (by
        have := hocc k
        have hc := hx.count k
        simp only [activeCnt] at hc
        rw [hc, hdel]; omega)
    simp only [estep, hd, if_false, hrc, if_true, hu]
  obtain ⟨m', s', hf, hcell, hme, hnd'⟩ := flush_spec mode idx (m1) s hnd1 (by
    intro k e1 h1
    by_cases hd : e1.delta = 0
    · simp [estep, hd]
    · rw [hstep k e1 h1 hd]; simp)
  -- per-key description of the new record
  have hnew : ∀ k, (sget s' k = sget s k ∧ occH H t' k = occH H t k ∧ mget m' k = none) ∨
      (∃ e1, mget (m1) k = some e1 ∧ e1.delta ≠ 0 ∧
        sget s' k = (if occH H t' k = 0 then (if mode.gcF then some (.rc (dataOf mode (sget s k) e1) false idx) else none)
          else some (.rc (dataOf mode (sget s k) e1) true (occH H t' k))) ∧
        mget m' k = (if occH H t' k = 0 then none else some { e1 with initial := occH H t' k, delta := 0 })) := by
    intro k
    cases h1 : mget (m1) k with
    | none =>
      left
      refine ⟨by rw [hcell k, h1]; rfl, ?_, by rw [hme k, h1]; rfl⟩
      have := hocc k
      simp only [dlt, h1] at this
      omega
    | some e1 =>
      by_cases hd : e1.delta = 0
      · left
        refine ⟨by rw [hcell k, h1]; simp [cellAfter, estep, hd], ?_, by rw [hme k, h1]; simp [entAfter, estep, hd]⟩
        have := hocc k
        have h2 := (hent k e1 h1).1
        omega
      · right
        refine ⟨e1, rfl, hd, ?_, ?_⟩
        · rw [hcell k, h1]; simp only [cellAfter, hstep k e1 h1 hd]
        · rw [hme k, h1]; simp only [entAfter, hstep k e1 h1 hd]
  refine ⟨m', s', hf, ⟨hnd', ?_, ?_, ?_⟩, ⟨?_, ?_, ?_⟩, ?_, ?_⟩
  · -- MapOK
    intro k e' he'
    rcases hnew k with ⟨_, _, hn⟩ | ⟨e1, h1, _, _, hn⟩
    · rw [hn] at he'; cases he'
    · rw [hn] at he'
      by_cases hz : occH H t' k = 0
      · simp [hz] at he'
      · simp only [hz, if_false, Option.some.injEq] at he'
        subst he'
        exact (hent k e1 h1).2.2
  · -- zero
    intro k e' he'
    rcases hnew k with ⟨_, _, hn⟩ | ⟨e1, h1, _, _, hn⟩
    · rw [hn] at he'; cases he'
    · rw [hn] at he'
      by_cases hz : occH H t' k = 0
      · simp [hz] at he'
      · simp only [hz, if_false, Option.some.injEq] at he'
        subst he'; rfl
  · -- cache
    intro k e' he' hne
    rcases hnew k with ⟨_, _, hn⟩ | ⟨e1, h1, _, hc, hn⟩
    · rw [hn] at he'; cases he'
    · rw [hn] at he'
      by_cases hz : occH H t' k = 0
      · simp [hz] at he'
      · simp only [hz, if_false, Option.some.injEq] at he'
        subst he'
        simp [activeCnt, hc, hz, actC]
  · -- count
    intro k
    rcases hnew k with ⟨hs, ho, _⟩ | ⟨e1, h1, _, hc, _⟩
    · simp only [activeCnt, hs, ho.symm ▸ (hx.count k)]
      have := hx.count k
      simp only [activeCnt] at this
      rw [this, ho]
    · by_cases hz : occH H t' k = 0
      · simp only [activeCnt, hc, hz, if_true]
        cases mode.gcF <;> simp [actC]
      · simp [activeCnt, hc, hz, actC]
  · -- shape
    intro k c hc'
    rcases hnew k with ⟨hs, _, _⟩ | ⟨e1, h1, _, hc, _⟩
    · rw [hs] at hc'; exact hx.shape k c hc'
    · rw [hc] at hc'
      by_cases hz : occH H t' k = 0
      · simp only [hz, if_true] at hc'
        cases hgc : mode.gcF with
        | false => simp [hgc] at hc'
        | true =>
          simp only [hgc, if_true, Option.some.injEq] at hc'
          subst hc'; simp [CellOK, hgc]
      · simp only [hz, if_false, Option.some.injEq] at hc'
        subst hc'; simp only [CellOK]; omega
  · -- bytes
    intro k c hc'
    rcases hnew k with ⟨hs, _, _⟩ | ⟨e1, h1, _, hc, _⟩
    · rw [hs] at hc'; exact hx.bytes k c hc'
    · rw [hc] at hc'
      have hb := dataOf_bytes H mode (sget s k) e1 k (fun x hx' => hx.bytes k x hx') (hent k e1 h1).2.2
      by_cases hz : occH H t' k = 0
      · simp only [hz, if_true] at hc'
        cases hgc : mode.gcF with
        | false => simp [hgc] at hc'
        | true =>
          simp only [hgc, if_true, Option.some.injEq] at hc'
          subst hc'; exact hb
      · simp only [hz, if_false, Option.some.injEq] at hc'
        subst hc'; exact hb
  · -- CellMove
    intro k
    rcases hnew k with ⟨hs, _, _⟩ | ⟨e1, h1, _, hc, _⟩
    · exact Or.inl hs
    · by_cases hz : occH H t' k = 0
      · cases hgc : mode.gcF with
        | false => exact Or.inr (Or.inr (Or.inr ⟨hgc, by simp [hc, hz, hgc]⟩))
        | true => exact Or.inr (Or.inr (Or.inl ⟨hgc, dataOf mode (sget s k) e1, by simp [hc, hz, hgc]⟩))
      · exact Or.inr (Or.inl ⟨dataOf mode (sget s k) e1, occH H t' k, by simp [hc, hz]⟩)

  · -- tags
    intro k
    rcases hnew k with ⟨hs, _, hn⟩ | ⟨e1, h1, hd, hc, _⟩
    · have hz : dlt m1 k = 0 := by
        cases h1 : mget m1 k with
        | none => simp [dlt, h1]
        | some e1 =>
          by_cases hd : e1.delta = 0
          · simp [dlt, h1, hd]
          · exfalso
            have := hme k
            rw [h1, hn] at this
            simp only [entAfter, hstep k e1 h1 hd] at this
            have hc := hcell k
            rw [h1] at hc
            simp only [cellAfter, hstep k e1 h1 hd] at hc
            -- the entry has a non-zero delta: it is rewritten, never left alone
            by_cases hz : occH H t' k = 0
            · -- entry removed and record deactivated/deleted: compare with hs (record unchanged)
              have hd' := (hent k e1 h1).1
              have ho := hocc k
              rw [← hd'] at ho
              have hcnt := hx.count k
              simp only [activeCnt] at hcnt
              rw [hs] at hc
              simp only [hz, if_true] at hc
              cases hgc : mode.gcF with
              | false =>
                simp only [hgc, Bool.false_eq_true, if_false] at hc
                rw [hc] at hcnt; simp [actC] at hcnt; omega
              | true =>
                simp only [hgc, if_true] at hc
                rw [hc] at hcnt; simp [actC] at hcnt; omega
            · simp [hz] at this
      rw [hz, hs]; simp
    · have hdz : ¬ dlt m1 k = 0 := by simp [dlt, h1, hd]
      rw [if_neg hdz, hc]
      unfold tagAfter
      by_cases hz : occH H t' k = 0
      · simp only [hz, if_true]
        cases mode.gcF <;> simp [ctag]
      · simp [hz, ctag]

/-- C11.2/3 core: one block, the map updated by the recorded events only. -/
theorem flush_exact (H : Bytes → Bytes) (mode : Mode) (hrc : mode.rc = true) (idx : Nat)
    (m : RcMap) (s : Store) (t t' : Node) (evs : Evs)
    (hg : MapGood H m s) (hx : Exact H mode s t)
    (hocc : ∀ h, (occH H t' h : Int) = occH H t h + net (hP H h) evs) :
    ∃ m' s', flush mode idx (applyEvs H m evs) s = some (m', s') ∧ MapGood H m' s' ∧ Exact H mode s' t' ∧
      (∀ k, CellMove mode idx (sget s k) (sget s' k)) ∧
      (∀ k, ctag (sget s' k) =
        if net (hP H k) evs = 0 then ctag (sget s k) else tagAfter mode idx (occH H t' k)) := by
  obtain ⟨hnd1, hok1, hde⟩ := applyEvs_spec H evs m hg.nodup hg.ok
  have hz : ∀ k, dlt m k = 0 := by
    intro k
    simp only [dlt]
    cases hm : mget m k with
    | none => rfl
    | some e0 => exact hg.zero k e0 hm
  have hdl : ∀ k, dlt (applyEvs H m evs) k = net (hP H k) evs := fun k => by rw [(hde k).1, hz k]; omega
  have hc1 : ∀ k e, mget (applyEvs H m evs) k = some e → e.initial ≠ 0 → activeCnt s k = e.initial := by
    intro k e1 h1 hne
    have hi := (hde k).2
    simp only [ini, h1] at hi
    cases hm : mget m k with
    | none => simp [hm] at hi; exact absurd hi hne
    | some e0 =>
      simp only [hm] at hi
      rw [hi]; exact hg.cache k e0 hm (by rw [← hi]; exact hne)
  obtain ⟨m', s', hf, h1, h2, h3, h4⟩ := flush_exact_mid H mode hrc idx _ s t t' hnd1 hok1 hc1 hx
    (by intro h; rw [hdl h, hocc h])
  exact ⟨m', s', hf, h1, h2, h3, fun k => by rw [h4 k, hdl k]⟩

end NeoModel.MptRc
