/-
C12 proofs, part 8d: the collection instructions preserve the Map shape invariant.
-/
import NeoModel.Proofs.VmAcctKindsOps
namespace NeoModel.VmAcct

variable {km : Nat → Bool}

theorem goodOut_throw {n : Nat} {w' : W} (g : GoodW km w') (hn : n ≤ w'.c.heap.length) :
    GoodOut km n (.throw w') := ⟨km, fun _ _ => rfl, g, hn⟩

theorem goodW_ite (p : Prop) [Decidable p] {a b : W} (ga : GoodW km a) (gb : GoodW km b) : GoodW km (if p then a else b) := by
  split <;> assumption

theorem cid_none_of_not_isSome {x : Item} (h : ¬ x.cid.isSome = true) : x.cid = none := by
  cases hx : x.cid with
  | none => rfl
  | some d => simp [hx] at h

theorem good_of_cid_none {n : Nat} {x : Item} (h : x.cid = none) : Good km n x := by
  cases x <;> simp [Item.cid] at h
  trivial

/-- a reference to a non-Map cell: its kind is `false` -/
theorem Good.not_map_arr {n id : Nat} (g : Good km n (.arr id)) : km id = true → False := by
  intro h; rw [g.2] at h; cases h
theorem Good.not_map_str {n id : Nat} (g : Good km n (.str id)) : km id = true → False := by
  intro h; rw [g.2] at h; cases h

theorem packMapLoop_good : ∀ (ds : List Int) (ents : List Item) (w : W) (ents' : List Item) (w' : W),
    packMapLoop ds ents w = some (ents', w') → GoodW km w → GoodL km w.c.heap.length ents → PairsOk ents →
    GoodW km w' ∧ GoodL km w.c.heap.length ents' ∧ PairsOk ents' ∧ w'.c.heap.length = w.c.heap.length := by
  intro ds
  induction ds with
  | nil =>
    intro ents w ents' w' h g ge pe
    simp only [packMapLoop, Option.some.injEq, Prod.mk.injEq] at h
    obtain ⟨rfl, rfl⟩ := h
    exact ⟨g, ge, pe, rfl⟩
  | cons d ds ih =>
    intro ents w ents' w' h g ge pe
    simp only [packMapLoop] at h
    cases hst : w.st with
    | nil => simp [hst] at h
    | cons key t =>
      cases t with
      | nil => simp [hst] at h
      | cons val r =>
        simp only [hst] at h
        have gs := g.st; rw [hst] at gs
        by_cases hkc : key.cid.isSome = true
        · simp [hkc] at h
        rw [if_neg hkc] at h
        have hkey := cid_none_of_not_isSome hkc
        by_cases hd : d < 0
        · simp only [hd, if_true] at h
          exact ih (ents ++ [key, val]) { w with st := r } ents' w' h (g.setSt gs.tail.tail) (ge.append (GoodL.cons gs.head (GoodL.cons gs.tail.head (GoodL.nil _ _))))
            (pairsOk_snoc pe val hkey)
        · simp only [hd, if_false] at h
          cases hg : ents[2 * d.toNat + 1]? with
          | none => simp [hg] at h
          | some old =>
            simp only [hg] at h
            have g1 : GoodW km { ({ w with st := r } : W).addRefs (-1) with c := (({ w with st := r } : W).addRefs (-1)).c.rem old } :=
              ⟨by simpa [W.addRefs] using g.h, by simpa [W.addRefs] using gs.tail.tail⟩
            obtain ⟨g2, ge2, pe2, l2⟩ := ih _ _ _ _ h g1 (by simpa [W.addRefs, listSet] using ge.set _ gs.tail.head)
              (by simpa [listSet] using pairsOk_set_odd pe d.toNat val)
            exact ⟨g2, by simpa [W.addRefs] using ge2, pe2, by rw [l2]; simp [W.addRefs]⟩

theorem packmap_good {w : W} (k : Nat) (dups : List Int) (g : GoodW km w) :
    ∀ out, execS (.packmap k dups) w = some out → GoodOut km w.c.heap.length out := by
  intro out h
  simp only [execS] at h
  cases hp : w.pop with
  | none => simp [hp] at h
  | some r =>
    obtain ⟨y, w1⟩ := r
    simp only [hp] at h
    obtain ⟨g1, _, l1, _⟩ := g.pop hp
    split at h
    · cases h
    · split at h
      · cases h
      · rename_i ents w2 hl
        simp only [okW, W.alloc, W.setHeap, W.pushNoRef, W.addRefs, Option.some.injEq] at h
        subst h
        obtain ⟨g2, ge, pe, l2⟩ := packMapLoop_good _ _ _ _ _ hl g1 (GoodL.nil _ _) pairsOk_nil
        have := alloc_push_good g2 .map 1 ents (w2.c.refs + 1) (by rw [l2]; exact ge) (fun _ => pe)
        rw [← l1, ← l2]
        exact goodOut_ext true this (by simp)

theorem unpack_good {w : W} (g : GoodW km w) : ∀ out, execS .unpack w = some out → GoodOut km w.c.heap.length out := by
  intro out h
  simp only [execS] at h
  cases hp : w.popNoRef with
  | none => simp [hp] at h
  | some r =>
    obtain ⟨e, w1⟩ := r
    simp only [hp] at h
    obtain ⟨g1, _, hc1, _⟩ := g.popNoRef hp
    split at h
    · cases h
    · rename_i id hid
      simp only [W.addRefs, W.setHeap, okW, Option.some.injEq] at h
      subst h
      have gch : GoodL km w1.c.heap.length (chOf w1.c.heap id) := g1.h.ch id
      refine goodOut_same (GoodW.push ?_ (good_prim _ _)) ?_
      · apply goodW_ite
        · exact ⟨by simpa using g1.h, by simpa using gch.append g1.st⟩
        · exact ⟨by simpa using g1.h, by simpa using gch.append g1.st⟩
      · rw [push_len]; apply ite_len <;> simp [hc1]

theorem append_good {w : W} (g : GoodW km w) : ∀ out, execS .append w = some out → GoodOut km w.c.heap.length out := by
  intro out h
  simp only [execS] at h
  cases hp : w.pop with
  | none => simp [hp] at h
  | some r =>
    obtain ⟨item, w1⟩ := r
    simp only [hp] at h
    cases hp2 : w1.pop with
    | none => simp [hp2] at h
    | some r2 =>
      obtain ⟨arr, w2⟩ := r2
      simp only [hp2] at h
      have gK := g.ext false
      have fb := fb_extK km w.c.heap.length
      obtain ⟨g1, gi, l1, _⟩ := gK.pop hp
      obtain ⟨g2, ga, l2, _⟩ := g1.pop hp2
      have l12 : w2.c.heap.length = w.c.heap.length := by rw [l2, l1]
      cases hcl : w2.cloneIfStruct item with
      | none => simp [hcl] at h
      | some p =>
        obtain ⟨val, isS, w3⟩ := p
        simp only [hcl] at h
        obtain ⟨g3, l3, gv, st3⟩ := cloneIfStruct_good hcl g2 (by rw [l12]; exact fb) (by rw [l12]; exact gi)
        have ga3 : Good (extK km w.c.heap.length false) w3.c.heap.length arr := (ga.le (by rw [l1]; exact Nat.le_refl _)).le (by rw [← l12]; exact l3)
        have fin : ∀ id, (arr = .arr id ∨ arr = .str id) →
            GoodW (extK km w.c.heap.length false)
              (if rcOf w3.c.heap id ≠ 0 then
                ({ w3.setHeap (setCh w3.c.heap id (chOf w3.c.heap id ++ [val])) with
                    c := (w3.setHeap (setCh w3.c.heap id (chOf w3.c.heap id ++ [val]))).c.add val } : W)
              else w3.setHeap (setCh w3.c.heap id (chOf w3.c.heap id ++ [val]))) := by
          intro id hid
          have nm : extK km w.c.heap.length false id = true → False := by
            rcases hid with rfl | rfl
            · exact ga3.not_map_arr
            · exact ga3.not_map_str
          have gh := goodH_setCh g3.h id (xs := chOf w3.c.heap id ++ [val])
            ((g3.h.ch id).append (GoodL.cons gv (GoodL.nil _ _))) (fun hk => (nm hk).elim)
          apply goodW_ite
          · exact ⟨by simpa [W.setHeap] using gh, by simpa [W.setHeap] using g3.st⟩
          · exact ⟨by simpa [W.setHeap] using gh, by simpa [W.setHeap] using g3.st⟩
        have len : ∀ id, w.c.heap.length ≤ (if rcOf w3.c.heap id ≠ 0 then
                ({ w3.setHeap (setCh w3.c.heap id (chOf w3.c.heap id ++ [val])) with
                    c := (w3.setHeap (setCh w3.c.heap id (chOf w3.c.heap id ++ [val]))).c.add val } : W)
              else w3.setHeap (setCh w3.c.heap id (chOf w3.c.heap id ++ [val]))).c.heap.length := by
          intro id
          apply ite_len <;> simp [W.setHeap] <;> omega
        cases arr with
        | prim => simp at h
        | map id => simp at h
        | arr id =>
          simp only [okW, Option.some.injEq] at h
          subst h
          exact goodOut_ext false (fin id (Or.inl rfl)) (len id)
        | str id =>
          simp only [okW, Option.some.injEq] at h
          subst h
          exact goodOut_ext false (fin id (Or.inr rfl)) (len id)

theorem clearitems_good {w : W} (g : GoodW km w) : ∀ out, execS .clearitems w = some out → GoodOut km w.c.heap.length out := by
  intro out h
  simp only [execS] at h
  cases hp : w.pop with
  | none => simp [hp] at h
  | some r =>
    obtain ⟨y, w1⟩ := r
    simp only [hp] at h
    obtain ⟨g1, _, l1, _⟩ := g.pop hp
    split at h <;> simp only [okW, W.setHeap, Option.some.injEq, reduceCtorEq] at h
    rename_i id hid
    subst h
    have gh := goodH_setCh g1.h id (xs := []) (GoodL.nil _ _) (fun _ => pairsOk_nil)
    refine goodOut_same ?_ (by apply ite_len <;> simp [l1])
    apply goodW_ite
    · exact ⟨by simpa using gh, by simpa using g1.st⟩
    · exact ⟨by simpa using gh, by simpa using g1.st⟩

theorem reverseitems_good {w : W} (g : GoodW km w) : ∀ out, execS .reverseitems w = some out → GoodOut km w.c.heap.length out := by
  intro out h
  simp only [execS] at h
  cases hp : w.pop with
  | none => simp [hp] at h
  | some r =>
    obtain ⟨y, w1⟩ := r
    simp only [hp] at h
    obtain ⟨g1, gy, l1, _⟩ := g.pop hp
    have fin : ∀ id, (y = .arr id ∨ y = .str id) →
        GoodOut km w.c.heap.length (.ok (w1.setHeap (setCh w1.c.heap id (chOf w1.c.heap id).reverse))) := by
      intro id hid
      have nm : km id = true → False := by
        rcases hid with rfl | rfl
        · exact gy.not_map_arr
        · exact gy.not_map_str
      have gh := goodH_setCh g1.h id (xs := (chOf w1.c.heap id).reverse) (g1.h.ch id).reverse (fun hk => (nm hk).elim)
      exact goodOut_same ⟨by simpa [W.setHeap] using gh, by simpa [W.setHeap] using g1.st⟩ (by simp [W.setHeap, l1])
    cases y with
    | prim => simp only [okW, Option.some.injEq] at h; subst h; exact goodOut_same g1 (by simp [l1])
    | map id => simp at h
    | arr id => simp only [okW, Option.some.injEq] at h; subst h; exact fin id (Or.inl rfl)
    | str id => simp only [okW, Option.some.injEq] at h; subst h; exact fin id (Or.inr rfl)

theorem popitem_good {w : W} (g : GoodW km w) : ∀ out, execS .popitem w = some out → GoodOut km w.c.heap.length out := by
  intro out h
  simp only [execS] at h
  cases hp : w.pop with
  | none => simp [hp] at h
  | some r =>
    obtain ⟨y, w1⟩ := r
    simp only [hp] at h
    obtain ⟨g1, gy, l1, _⟩ := g.pop hp
    have fin : ∀ id, (y = .arr id ∨ y = .str id) → ∀ out,
        (match (chOf w1.c.heap id).getLast? with
          | none => none
          | some elem =>
            okW (if rcOf ((w1.push elem).setHeap (setCh (w1.push elem).c.heap id (chOf w1.c.heap id).dropLast)).c.heap id ≠ 0 then
                ({ (w1.push elem).setHeap (setCh (w1.push elem).c.heap id (chOf w1.c.heap id).dropLast) with
                    c := ((w1.push elem).setHeap (setCh (w1.push elem).c.heap id (chOf w1.c.heap id).dropLast)).c.rem elem } : W)
              else (w1.push elem).setHeap (setCh (w1.push elem).c.heap id (chOf w1.c.heap id).dropLast))) = some out →
        GoodOut km w.c.heap.length out := by
      intro id hid out h
      have nm : km id = true → False := by
        rcases hid with rfl | rfl
        · exact gy.not_map_arr
        · exact gy.not_map_str
      split at h <;> simp only [okW, Option.some.injEq, reduceCtorEq] at h
      rename_i elem hel
      subst h
      have gel : Good km w1.c.heap.length elem := g1.h.ch id elem (List.mem_of_getLast? hel)
      have g2 := g1.push gel
      have gh := goodH_setCh g2.h id (xs := (chOf w1.c.heap id).dropLast)
        (by simpa using (g1.h.ch id).dropLast) (fun hk => (nm hk).elim)
      refine goodOut_same ?_ (by apply ite_len <;> simp [W.setHeap, l1])
      apply goodW_ite
      · exact ⟨by simpa [W.setHeap] using gh, by simpa [W.setHeap] using g2.st⟩
      · exact ⟨by simpa [W.setHeap] using gh, by simpa [W.setHeap] using g2.st⟩
    cases y with
    | prim => simp at h
    | map id => simp at h
    | arr id => exact fin id (Or.inl rfl) out h
    | str id => exact fin id (Or.inr rfl) out h

theorem pickitem_good {w : W} (i : Int) (g : GoodW km w) : ∀ out, execS (.pickitem i) w = some out → GoodOut km w.c.heap.length out := by
  intro out h
  simp only [execS] at h
  cases hp : w.pop with
  | none => simp [hp] at h
  | some r =>
    obtain ⟨y, w1⟩ := r
    simp only [hp] at h
    obtain ⟨g1, _, l1, _⟩ := g.pop hp
    cases hp2 : w1.pop with
    | none => simp [hp2] at h
    | some r2 =>
      obtain ⟨obj, w2⟩ := r2
      simp only [hp2] at h
      obtain ⟨g2, _, l2, _⟩ := g1.pop hp2
      split at h
      · simp only [Option.some.injEq] at h; subst h; exact goodOut_throw g2 (by simp [l1, l2])
      · split at h
        · split at h <;> simp only [okW, Option.some.injEq, reduceCtorEq] at h
          rename_i x hx
          subst h; exact goodOut_same (g2.push ((g2.h.ch _).get hx)) (by simp [l1, l2])
        · split at h <;> simp only [okW, Option.some.injEq, reduceCtorEq] at h
          rename_i x hx
          subst h; exact goodOut_same (g2.push ((g2.h.ch _).get hx)) (by simp [l1, l2])
        · split at h <;> simp only [okW, Option.some.injEq, reduceCtorEq] at h
          rename_i x hx
          subst h; exact goodOut_same (g2.push ((g2.h.ch _).get hx)) (by simp [l1, l2])
        · simp only [okW, Option.some.injEq] at h; subst h; exact goodOut_same (g2.push (good_prim _ _)) (by simp [l1, l2])

end NeoModel.VmAcct
