/- C19 simulation, part C8: view changes. -/
import NeoModel.Proofs.DbftSimC7
namespace NeoModel.Dbft.Mach
open NeoModel.Dbft

theorem slot_range_map {α : Type} (n j : Nat) (f : Nat → Option α) :
    slot ((List.range n).map f) j = if j < n then f j else none := by
  unfold slot
  by_cases h : j < n
  · simp [h]
  · simp [h]

/-- `reset` for a later view of the same height, against an abstract node that has just changed to that view
(`as0`: the abstract state the relation was known for, `as` an extension of it) -/
theorem rn_reset_view {e : Env} {as0 as : State} {i : Nat} {nd : Node} (view ts : Nat) (h : RN e as0 i nd)
    (x : SimExt (cfgOf e) i as0 as) (hch : (as.nodes i).chain = nd.chain) (hht : (as.nodes i).height = nd.chain.length + 1)
    (hbi : nd.bi = (as.nodes i).height) (hv : (as.nodes i).view = view)
    (hnp : ¬ ∃ b ∈ (as.nodes i).myPreps, b.h = nd.bi ∧ b.v = view)
    (hnc : ¬ ∃ b ∈ (as.nodes i).myCommits, b.h = nd.bi) (hown : slot nd.commit i = none) (hv0 : view ≠ 0) :
    RN e as i (reset e nd view ts) := by
  have hv0' : (view == 0) = false := by simpa using hv0
  unfold reset
  simp only [hv0', Bool.false_eq_true, if_false]
  refine ⟨h.my, ?_, hch, hht, ?_, rfl, ?_, ?_, ?_, ?_, ?_, ?_⟩
  · simp [blanks, h.lens.2.1]
  · left
    exact ⟨hbi, hv.symm, fun hx => absurd hx hnp, fun hx => absurd hx hnc⟩
  · intro j m hj; simp [slot_blanks] at hj
  · intro j m hj; obtain ⟨y, sb, a1, a2, a3, a4⟩ := h.commit j m hj
    exact ⟨y, sb, a1, a2, a3, x.grows.commits _ _ a4.1, a4.2⟩
  · intro j m hj; simp [slot_blanks] at hj
  · intro j m hj
    simp only [slot_range_map] at hj
    split at hj
    · cases hs : slot nd.cv j with
      | none => simp [hs] at hj
      | some m' =>
        simp only [hs] at hj
        split at hj
        · simp only [Option.some.injEq] at hj; subst hj
          obtain ⟨y, r, a1, a2, a3, a4⟩ := h.cv j m' hs
          exact ⟨y, r, a1, a2, a3, a4.ext x⟩
        · cases hj
    · cases hj
  · intro hh' box hb km hkm; exact (h.cache hh' box hb km hkm).ext x
  · intro y sb hj
    simp only at hj
    rw [hown] at hj; cases hj

theorem reset_frame (e : Env) (nd : Node) (view ts : Nat) (hv0 : view ≠ 0) :
    (reset e nd view ts).bi = nd.bi ∧ (reset e nd view ts).blockProcessed = nd.blockProcessed ∧
    (reset e nd view ts).view = view := by
  have hv0' : (view == 0) = false := by simpa using hv0
  unfold reset
  simp [hv0']

theorem askedView_of_mem (known : List Item) (j h v nv : Nat) (hm : Item.changeView j h v (v + 1) ∈ known)
    (hle : nv ≤ v + 1) : askedView known h nv j = true := by
  unfold askedView
  rw [List.any_eq_true]
  exact ⟨_, hm, by simp [hle]⟩

/-- check.go:172-177: the node's own ChangeView is brought up to date before the view changes -/
def ccvRebroadcast (w : W) (view : Nat) : W :=
  match slot w.nd.cv w.nd.my with
  | some m =>
    if m.hd.v + 1 < view then
      let msg := Pl.cv ⟨w.nd.my, w.nd.bi, w.nd.view⟩ 1
      bcast (w.upd fun nd => { nd with cv := nd.cv.set nd.my (some msg) }) msg
    else w
  | none => w

theorem checkChangeView_eq (k : W → Pl → W) (e : Env) (w : W) (view : Nat) :
    checkChangeView k e w view =
      if w.nd.view ≥ view then w
      else if (w.nd.cv.filter fun s => match s with
          | some m => decide (m.hd.v + 1 ≥ view)
          | none => false).length < e.m then w
      else initConsensus k e (ccvRebroadcast w view) view (ccvRebroadcast w view).nd.lbTimestamp := rfl

theorem ccv_frame (w : W) (view : Nat) :
    (ccvRebroadcast w view).nd.bi = w.nd.bi ∧ (ccvRebroadcast w view).nd.view = w.nd.view ∧
    (ccvRebroadcast w view).nd.commit = w.nd.commit ∧ (ccvRebroadcast w view).nd.blockProcessed = w.nd.blockProcessed ∧
    (ccvRebroadcast w view).nd.chain = w.nd.chain := by
  unfold ccvRebroadcast
  split
  · split <;> exact ⟨rfl, rfl, rfl, rfl, rfl⟩
  · exact ⟨rfl, rfl, rfl, rfl, rfl⟩

/-- the re-broadcast, abstractly: a `sendChangeView`; the slots that counted for the view still count -/
theorem prog_ccv {e : Env} {as : State} {i : Nat} {w : W} (h : Good e as i w) (hbp : w.nd.blockProcessed = false)
    (hnoc : ¬ ∃ b ∈ (as.nodes i).myCommits, b.h = w.nd.bi) (view : Nat) (hlt : w.nd.view < view) :
    ∃ as1, SimExt (cfgOf e) i as as1 ∧ Good e as1 i (ccvRebroadcast w view) ∧
      (as1.nodes i).height = (as.nodes i).height ∧ (as1.nodes i).view = (as.nodes i).view ∧
      (as1.nodes i).chain = (as.nodes i).chain ∧
      (as1.nodes i).myPreps = (as.nodes i).myPreps ∧ (as1.nodes i).myCommits = (as.nodes i).myCommits ∧
      (∀ j m, slot w.nd.cv j = some m → m.hd.v + 1 ≥ view →
        ∃ m', slot (ccvRebroadcast w view).nd.cv j = some m' ∧ m'.hd.v + 1 ≥ view) := by
  have hmy := h.rn.my
  obtain ⟨hbi, hview, _, _⟩ := h.synced hbp
  unfold ccvRebroadcast
  cases hs : slot w.nd.cv w.nd.my with
  | none => exact ⟨as, SimExt.refl _ _ _, h, rfl, rfl, rfl, rfl, rfl, fun j m hj hd => ⟨m, hj, hd⟩⟩
  | some m =>
    simp only
    split
    · rename_i hold
      have hen : Enabled (cfgOf e) as (.sendChangeView i) :=
        ⟨h.lt, fun b hb hbh => hnoc ⟨b, hb, by rw [hbh]; exact hbi.symm⟩⟩
      obtain ⟨x1, hbc, hkn, hmc, hmp, hh1, hv1, hc1⟩ := ext_sendChangeView (cfgOf e) as i hen
      have hlen : w.nd.my < w.nd.cv.length := by rw [h.rn.lens.2.2.1, hmy]; exact h.lt
      have g0 := h.ext_same x1 hh1 hv1 hc1 hmp hmc
      have rn := g0.rn
      have hclaim : Claims e (apply (cfgOf e) as (.sendChangeView i)) (.cv ⟨w.nd.my, w.nd.bi, w.nd.view⟩ 1) := by
        show Bcast _ _ _ _ ∧ _
        simp only [cvItem, hmy, hbi, hview]
        exact ⟨hbc, hkn⟩
      refine ⟨_, x1, ?_, hh1, hv1, hc1, hmp, hmc, ?_⟩
      · refine ⟨g0.g, ⟨rn.my, by simpa [bcast, W.emit, W.upd] using rn.lens, rn.chain, rn.height, rn.phase, rn.pidx, rn.prep,
          rn.commit, ?_, rn.lastCv, rn.cache, rn.own⟩, ?_, fun b' s hp => g0.blk b' s (by simpa [bcast, W.emit, W.upd] using hp), h.st, h.lt⟩
        · intro j m' hj
          by_cases hjm : j = w.nd.my
          · subst hjm
            simp only [bcast, W.emit, W.upd, slot_set_self _ _ _ hlen, Option.some.injEq] at hj
            subst hj
            exact ⟨_, _, rfl, rfl, rfl, hclaim⟩
          · simp only [bcast, W.emit, W.upd, slot_set_other _ _ _ _ hjm] at hj
            exact rn.cv j m' hj
        · intro pl hpl
          simp only [bcast, W.emit, W.upd, List.mem_cons, Out.bcast.injEq] at hpl
          rcases hpl with rfl | hpl
          · exact hclaim
          · exact g0.outs pl hpl
      · intro j m' hj hd
        by_cases hjm : j = w.nd.my
        · subst hjm
          rw [hs] at hj; simp only [Option.some.injEq] at hj; subst hj
          omega
        · exact ⟨m', by simpa [bcast, W.emit, W.upd, slot_set_other _ _ _ _ hjm] using hj, hd⟩
    · exact ⟨as, SimExt.refl _ _ _, h, rfl, rfl, rfl, rfl, rfl, fun j m hj hd => ⟨m, hj, hd⟩⟩

/-- check.go:155-180 on the machine -/
theorem prog_checkChangeView {e : Env} {as : State} {i : Nat} {k : W → Pl → W} {w : W} (hk : KOK e i k)
    (h : Good e as i w) (hbp : w.nd.blockProcessed = false) (hnc : w.nd.commitSent = false) (view : Nat) :
    Prog e i as (checkChangeView k e w view) := by
  rw [checkChangeView_eq]
  split
  · exact Prog.of_good h
  rename_i hlt
  split
  · exact Prog.of_good h
  rename_i hcnt
  have hmy := h.rn.my
  obtain ⟨hbi, hview, hgp, hgc⟩ := h.synced hbp
  have hnoc : ¬ ∃ b ∈ (as.nodes i).myCommits, b.h = w.nd.bi := by
    intro hx; have := hgc hx; rw [hnc] at this; cases this
  have hownn : slot w.nd.commit i = none := by
    unfold Node.commitSent at hnc; rw [hmy] at hnc
    cases hs : slot w.nd.commit i with
    | none => rfl
    | some _ => rw [hs] at hnc; cases hnc
  have inv := inv_reachable (cfgOf e) as h.g.1
  have hnop : ¬ ∃ b ∈ (as.nodes i).myPreps, b.h = w.nd.bi ∧ b.v = view := by
    rintro ⟨b, hb, hbh, hbv⟩
    have := inv.prepView i b hb (by rw [hbh]; exact hbi)
    rw [← hview, hbv] at this; omega
  have hv0 : view ≠ 0 := by omega
  obtain ⟨as1, x1, g1, hh1, hv1, hc1, hp1, hm1, hcv1⟩ := prog_ccv h hbp hnoc view (by omega)
  obtain ⟨f1, f2, f3, f4, f5⟩ := ccv_frame w view
  generalize ccvRebroadcast w view = w1 at *
  -- learn the ChangeViews that make the quorum
  let Q : Nat → Bool := fun j => match slot w.nd.cv j with | some m => decide (m.hd.v + 1 ≥ view) | none => false
  have hQ : e.m ≤ countP e.n Q := by
    have hle := filter_le_countP w.nd.cv (fun s => match s with | some m => decide (m.hd.v + 1 ≥ view) | none => false) Q rfl
      (by intro j m hj hf; simp only [Q, hj]; exact hf)
    rw [h.rn.lens.2.2.1] at hle
    omega
  let S : List Item := ((List.range e.n).filter Q).filterMap fun j => (slot w1.nd.cv j).map fun m => cvItem m.hd
  have hS : ∀ it ∈ S, it ∈ (as1.nodes i).known ∨ (i, Msg.item it) ∈ as1.net := by
    intro it hit
    simp only [S, List.mem_filterMap, List.mem_filter, List.mem_range] at hit
    obtain ⟨j, _, hj⟩ := hit
    cases hs : slot w1.nd.cv j with
    | none => simp [hs] at hj
    | some m =>
      simp only [hs, Option.map_some, Option.some.injEq] at hj
      subst hj
      obtain ⟨y, r, rfl, hf, _, hc⟩ := g1.rn.cv j m hs
      obtain ⟨c1, c2⟩ := hc
      by_cases hji : j = i
      · simp only [Pl.hd]; rw [hf, hji] at c2; exact Or.inl c2
      · simp only [Pl.hd]; rw [hf] at c1; exact Or.inr (c1 i h.lt (Ne.symm hji))
  obtain ⟨as2, x2, k2, h2, v2, c2, p2, m2⟩ := ext_get_all (cfgOf e) i S as1 hS
  -- the view change
  have hen : Enabled (cfgOf e) as2 (.changeView i view) := by
    refine ⟨h.lt, by rw [v2, hv1, ← hview]; omega, ?_, ?_⟩
    · intro b hb hbh
      rw [m2, hm1] at hb
      exact hnoc ⟨b, hb, by rw [hbh, h2, hh1]; exact hbi.symm⟩
    · refine Nat.le_trans hQ (countP_mono _ _ _ ?_)
      intro j hj hq
      simp only [Q] at hq
      cases hs : slot w.nd.cv j with
      | none => simp [hs] at hq
      | some m =>
        simp only [hs, decide_eq_true_eq] at hq
        obtain ⟨m', hs', hge⟩ := hcv1 j m hs hq
        obtain ⟨y, r, rfl, hf, hyh, _⟩ := g1.rn.cv j m' hs'
        simp only [Pl.hd] at hge
        apply askedView_of_mem _ j _ y.v view _ hge
        have : cvItem y ∈ (as2.nodes i).known := by
          apply k2
          simp only [S, List.mem_filterMap, List.mem_filter, List.mem_range]
          exact ⟨j, ⟨hj, by simp [Q, hs, hq]⟩, by simp [hs', Pl.hd]⟩
        simp only [cvItem, hf, hyh, f1] at this
        rw [h2, hh1, ← hbi]; exact this
  obtain ⟨x3, hv3, hh3, hc3, hp3, hm3⟩ := ext_changeView (cfgOf e) as2 i view hen
  have x23 := x2.trans x3
  have rn1 := g1.rn
  have rn3 : RN e (apply (cfgOf e) as2 (.changeView i view)) i (reset e w1.nd view w1.nd.lbTimestamp) := by
    apply rn_reset_view view _ rn1 x23
    · rw [hc3, c2]; exact rn1.chain
    · rw [hh3, h2]; exact rn1.height
    · rw [hh3, h2, hh1, f1]; exact hbi
    · exact hv3
    · rw [hp3, p2, hp1, f1]; exact hnop
    · rw [hm3, m2, hm1, f1]; exact hnoc
    · rw [f3]; exact hownn
    · exact hv0
  obtain ⟨r1, r2, r3⟩ := reset_frame e w1.nd view w1.nd.lbTimestamp hv0
  have g3 : Good e (apply (cfgOf e) as2 (.changeView i view)) i (w1.upd fun nd => reset e nd view w1.nd.lbTimestamp) :=
    ⟨(g1.g.ext x23), rn3, fun pl hpl => (g1.outs pl hpl).ext x23, g1.blk, by show (reset e w1.nd view _).bi ≠ 0; rw [r1]; exact g1.st, h.lt⟩
  rw [initConsensus_eq]
  obtain ⟨as4, x4, g4⟩ := prog_initTail hk g3 view
  exact ⟨as4, (x1.trans x23).trans x4, g4⟩

end NeoModel.Dbft.Mach
