import NeoModel.Model.Mpt.LazySeek
import NeoModel.Proofs.MptLazy
namespace NeoModel.Mpt

variable {H : Bytes → Bytes} {S : LStore}

theorem ocat_map_some {α β : Type} (l : List β) (g : β → Option (List α)) (f : β → List α)
    (h : ∀ b ∈ l, g b = some (f b)) : ocat (l.map g) = some (l.flatMap f) := by
  induction l with
  | nil => rfl
  | cons a l ih =>
    simp only [List.map_cons, List.flatMap_cons, h a (by simp), ocat,
      ih (fun b hb => h b (by simp [hb]))]
    rfl

theorem ocat_append_some {α : Type} (xs ys : List (Option (List α))) (a b : List α)
    (hx : ocat xs = some a) (hy : ocat ys = some b) : ocat (xs ++ ys) = some (a ++ b) := by
  induction xs generalizing a with
  | nil => simp [ocat] at hx; subst hx; simpa using hy
  | cons x xs ih =>
    cases x with
    | none => simp [ocat] at hx
    | some c =>
      simp only [ocat, Option.map_eq_some_iff] at hx
      obtain ⟨r, hr, rfl⟩ := hx
      simp [ocat, ih r hr]

theorem traverse_slot (back : Bool) (v : Option Val) (path frm : Path) :
    traverse back (slotNode v) path frm = vslot back v path frm := by
  cases v <;> simp [slotNode, traverse, vslot]

/-- the traversal through HashNodes reports what the traversal of the represented trie reports. -/
theorem ltraverse_rep (back : Bool) : ∀ (f : Nat) (l : LNode) (t : Node) (path frm : Path), LRep H S l t →
    need l t ≤ f → ltraverse S back f l path frm = some (traverse back t path frm) := by
  intro f
  induction f with
  | zero => intro l t _ _ _ hf; have := need_pos l t; omega
  | succ f ih =>
    intro l t path frm hr hf
    cases l with
    | empty => simp [LRep] at hr; subst hr; simp [ltraverse, traverse]
    | hash h =>
      obtain ⟨hres, hr'⟩ := rep_hash hr
      simp only [ltraverse, hres]
      exact ih _ t path frm hr' (need_hash hf)
    | leaf w => simp [LRep] at hr; subst hr; simp [ltraverse, traverse]
    | ext k n =>
      obtain ⟨m, rfl, hm⟩ := hr
      have hn := fun p fr => ih n m p fr hm (need_ext hf)
      cases frm with
      | nil => simp only [ltraverse, traverse, hn]
      | cons a fr =>
        simp only [ltraverse, traverse]
        cases hs : stripPre k (a :: fr) with
        | some r => simp only [hn]
        | none =>
          simp only [hn]
          split <;> rfl
    | branch ls lv =>
      obtain ⟨cs, v, rfl, hc, hv⟩ := hr
      have hk := fun i p fr => ih (ls i) (cs i) p fr (hc i) (need_kid hf i)
      have hs := fun p fr => ih lv (slotNode v) p fr hv (need_slot hf)
      cases back with
      | false =>
        cases frm with
        | nil =>
          simp only [ltraverse, traverse, hs, traverse_slot, ocat]
          rw [ocat_map_some _ _ (fun i => traverse false (cs i) (path ++ [i]) []) (fun i _ => hk i _ _)]
          rfl
        | cons s fr =>
          simp only [ltraverse, traverse]
          exact ocat_map_some _ _ _ (fun i _ => hk i _ _)
      | true =>
        cases frm with
        | nil =>
          simp only [ltraverse, traverse]
          refine ocat_append_some _ _ _ _ (ocat_map_some _ _ _ (fun i _ => hk i _ _)) ?_
          simp [ocat, hs, traverse_slot]
        | cons s fr =>
          simp only [ltraverse, traverse]
          refine ocat_append_some _ _ _ _ (ocat_map_some _ _ _ (fun i _ => hk i _ _)) ?_
          simp [ocat, hs, traverse_slot]

/-- finding the start node through HashNodes: the same full path, a node that represents the start
node of the expanded trie (and is no higher than the trie). -/
theorem lgetNS_rep : ∀ (f : Nat) (l : LNode) (t : Node) (p : Path), LRep H S l t → need l t ≤ f →
    (∀ start full, getWithPathNS t p = some (start, full) →
      ∃ ls, lgetNS S f l p = some (ls, full) ∧ LRep H S ls start ∧ height start ≤ height t) ∧
    (getWithPathNS t p = none → lgetNS S f l p = none) := by
  intro f
  induction f with
  | zero => intro l t _ _ hf; have := need_pos l t; omega
  | succ f ih =>
    intro l t p hr hf
    cases l with
    | empty => simp [LRep] at hr; subst hr; simp [getWithPathNS, lgetNS]
    | hash h =>
      obtain ⟨hres, hr'⟩ := rep_hash hr
      simp only [lgetNS, hres]
      exact ih _ t p hr' (need_hash hf)
    | leaf w =>
      simp [LRep] at hr; subst hr
      cases p with
      | nil =>
        refine ⟨fun start full h => ?_, fun h => by simp [getWithPathNS] at h⟩
        simp [getWithPathNS] at h
        obtain ⟨rfl, rfl⟩ := h
        exact ⟨.leaf w, rfl, by simp [LRep], Nat.le_refl _⟩
      | cons a p => simp [getWithPathNS, lgetNS]
    | ext k n =>
      obtain ⟨m, rfl, hm⟩ := hr
      have hle : height m ≤ height (.ext k m) := by simp [height]; omega
      cases p with
      | nil =>
        refine ⟨fun start full h => ?_, fun h => by simp [getWithPathNS] at h⟩
        simp [getWithPathNS] at h
        obtain ⟨rfl, rfl⟩ := h
        exact ⟨n, rfl, hm, hle⟩
      | cons a p =>
        simp only [getWithPathNS, lgetNS]
        cases hs : stripPre k (a :: p) with
        | some r =>
          obtain ⟨h1, h2⟩ := ih n m r hm (need_ext hf)
          refine ⟨fun start full h => ?_, fun h => ?_⟩
          · cases hg : getWithPathNS m r with
            | none => simp [hg] at h
            | some x =>
              simp [hg] at h
              obtain ⟨rfl, rfl⟩ := h
              obtain ⟨ls', hl', hrep, hh⟩ := h1 x.1 x.2 (by rw [hg])
              exact ⟨ls', by simp [hl'], hrep, Nat.le_trans hh hle⟩
          · cases hg : getWithPathNS m r with
            | none => simp [h2 hg]
            | some x => simp [hg] at h
        | none =>
          by_cases hp : (stripPre (a :: p) k).isSome = true
          · simp only [hp, if_true]
            refine ⟨fun start full h => ?_, fun h => by cases h⟩
            injection h with h
            obtain ⟨rfl, rfl⟩ := Prod.mk.inj h
            exact ⟨n, rfl, hm, hle⟩
          · simp [hp]
    | branch ls lv =>
      obtain ⟨cs, v, rfl, hc, hv⟩ := hr
      cases p with
      | nil =>
        refine ⟨fun start full h => ?_, fun h => by simp [getWithPathNS] at h⟩
        simp [getWithPathNS] at h
        obtain ⟨rfl, rfl⟩ := h
        exact ⟨.branch ls lv, rfl, ⟨cs, v, rfl, hc, hv⟩, Nat.le_refl _⟩
      | cons i r =>
        obtain ⟨h1, h2⟩ := ih (ls i) (cs i) r (hc i) (need_kid hf i)
        have hle : height (cs i) ≤ height (.branch cs v) := Nat.le_of_lt (height_kid cs v i)
        simp only [getWithPathNS, lgetNS]
        refine ⟨fun start full h => ?_, fun h => ?_⟩
        · cases hg : getWithPathNS (cs i) r with
          | none => simp [hg] at h
          | some x =>
            simp [hg] at h
            obtain ⟨rfl, rfl⟩ := h
            obtain ⟨ls', hl', hrep, hh⟩ := h1 x.1 x.2 (by rw [hg])
            exact ⟨ls', by simp [hl'], hrep, Nat.le_trans hh hle⟩
        · cases hg : getWithPathNS (cs i) r with
          | none => simp [h2 hg]
          | some x => simp [hg] at h

/-- TrieStore.Seek through HashNodes = `seek` on the represented trie: no storage error, the same
keys and values in the same order. -/
theorem lseek_rep (F : Nat) (l : LNode) (t : Node) (pre fromP : Path) (back : Bool) (hr : LRep H S l t)
    (hF : 2 * height t + 3 ≤ F) : lseek S F l pre fromP back = some (seek t pre fromP back) := by
  obtain ⟨h1, h2⟩ := lgetNS_rep F l t pre hr (Nat.le_trans (need_le l t) hF)
  unfold lseek seek
  cases hg : getWithPathNS t pre with
  | none => simp [h2 hg]
  | some x =>
    obtain ⟨start, full⟩ := x
    obtain ⟨ls, hl, hrep, hh⟩ := h1 start full hg
    have htr : ∀ path frm, ltraverse S back F ls path frm = some (traverse back start path frm) :=
      fun path frm => ltraverse_rep back F ls start path frm hrep
        (Nat.le_trans (need_le ls start) (by omega))
    simp only [hl, htr]
    split
    · rfl
    · split
      · rfl
      · split
        · rfl
        · split <;> rfl

end NeoModel.Mpt
