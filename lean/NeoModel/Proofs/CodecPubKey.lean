/-
Helper lemmas for C18 / public-key and signature byte layouts: both round trips of
`DecodeBytes` / `Bytes()` / `UncompressedBytes()` conditional on the laws of the curve parameters and
of `ModSqrt` (`CurveLaws`), soundness and shape of everything the decoder accepts, the r|s layout.
-/
import NeoModel.Model.Codec.PubKey
import NeoModel.Proofs.CodecBigInt
namespace NeoModel.Codec

/-- what soundness of the decoder needs from the curve parameters and from `ModSqrt` … -/
structure CurveSound (C : CurveP) : Prop where
  odd : C.P % 2 = 1
  le256 : C.P ≤ 2 ^ 256
  sqrt_sound : ∀ v y, C.sqrt v = some y → y < C.P ∧ (y * y) % C.P = v % C.P

/-- … plus completeness of the square root up to sign (true for a prime `P`; number theory that is
not proved here for the two concrete primes: an explicit hypothesis of the decode∘encode theorem). -/
structure CurveLaws (C : CurveP) : Prop extends CurveSound C where
  sqrt_complete : ∀ y, y < C.P → ∃ y0, C.sqrt ((y * y) % C.P) = some y0 ∧ (y0 = y ∨ y0 = (C.P - y) % C.P)

theorem beBytes_length (n v : Nat) : (beBytes n v).length = n := by simp [beBytes, leBytes_length]

theorem beVal_beBytes (n v : Nat) (h : v < 256 ^ n) : beVal (beBytes n v) = v := by
  simp [beVal, beBytes, leVal_leBytes n v h]

theorem beBytes_beVal (b : Bytes) : beBytes b.length (beVal b) = b := by
  unfold beBytes beVal
  have := leBytes_leVal b.reverse
  rw [List.length_reverse] at this
  rw [this, List.reverse_reverse]

theorem pow256_32 : (256 : Nat) ^ 32 = 2 ^ 256 := by decide

theorem sq_neg_mod (P y : Nat) (hy : y < P) : (((P - y) % P) * ((P - y) % P)) % P = (y * y) % P := by
  by_cases h0 : y = 0
  · subst h0; simp
  · have hd : (P - y) % P = P - y := Nat.mod_eq_of_lt (by omega)
    rw [hd]
    generalize hdd : P - y = d
    have hP : P = d + y := by omega
    subst hP
    by_cases hle : y ≤ d
    · obtain ⟨k, rfl⟩ : ∃ k, d = y + k := ⟨d - y, by omega⟩
      have : (y + k) * (y + k) = y * y + k * (y + k + y) := by
        simp only [Nat.mul_add, Nat.add_mul, Nat.mul_comm k y]; omega
      rw [this, Nat.add_mul_mod_self_right]
    · obtain ⟨k, rfl⟩ : ∃ k, y = d + k := ⟨y - d, by omega⟩
      have : (d + k) * (d + k) = d * d + k * (d + (d + k)) := by
        simp only [Nat.mul_add, Nat.add_mul, Nat.mul_comm k d]; omega
      rw [this, Nat.add_mul_mod_self_right]

theorem ySquared_lt (C : CurveP) (hP : 0 < C.P) (x : Nat) : ySquared C x < C.P := by
  simp only [ySquared]
  have h1 := Int.emod_nonneg ((↑(x ^ 3 % C.P) : Int) - ↑(x * C.A % C.P) + ↑C.B) (b := (C.P : Int)) (by omega)
  have h2 := Int.emod_lt_of_pos ((↑(x ^ 3 % C.P) : Int) - ↑(x * C.A % C.P) + ↑C.B) (b := (C.P : Int)) (by omega)
  omega

/-- what `decodeCompressedY` returns: a root with the requested parity (or the root 0). -/
theorem decodeCompressedY_spec (C : CurveP) (L : CurveSound C) (x ylsb y : Nat) (hl : ylsb < 2)
    (h : decodeCompressedY C x ylsb = some y) :
    y < C.P ∧ (y * y) % C.P = ySquared C x ∧ (y % 2 = ylsb ∨ (y = 0 ∧ ylsb = 1 ∧ ySquared C x = 0)) := by
  have hP : 0 < C.P := by have := L.odd; omega
  unfold decodeCompressedY at h
  cases hs : C.sqrt (ySquared C x) with
  | none => rw [hs] at h; cases h
  | some y0 =>
    rw [hs] at h
    simp only at h
    obtain ⟨hy0, hsq⟩ := L.sqrt_sound _ _ hs
    rw [Nat.mod_eq_of_lt (ySquared_lt C hP x)] at hsq
    by_cases c : (y0 % 2 != ylsb) = true
    · simp only [c, if_true, Option.some.injEq] at h
      have hne : y0 % 2 ≠ ylsb := by simpa using c
      subst h
      refine ⟨Nat.mod_lt _ hP, by rw [sq_neg_mod C.P y0 hy0]; exact hsq, ?_⟩
      by_cases h0 : y0 = 0
      · subst h0
        right
        refine ⟨by simp, by omega, ?_⟩
        simpa using hsq.symm
      · left
        rw [Nat.mod_eq_of_lt (show C.P - y0 < C.P by omega)]
        have := L.odd
        omega
    · simp only [c, Bool.false_eq_true, if_false, Option.some.injEq] at h
      have he : y0 % 2 = ylsb := by simpa using c
      subst h
      exact ⟨hy0, hsq, Or.inl he⟩

theorem decodeCompressedY_complete (C : CurveP) (L : CurveLaws C) (x y : Nat) (hy : y < C.P)
    (hc : (y * y) % C.P = ySquared C x) : decodeCompressedY C x (y % 2) = some y := by
  obtain ⟨y0, hs, hy0⟩ := L.sqrt_complete y hy
  unfold decodeCompressedY
  rw [← hc, hs]
  simp only
  rcases hy0 with rfl | rfl
  · simp
  · by_cases h0 : y = 0
    · subst h0; simp
    · have hd : (C.P - y) % C.P = C.P - y := Nat.mod_eq_of_lt (by omega)
      have hodd := L.odd
      have c : ((C.P - y) % 2 != y % 2) = true := by
        simp only [bne_iff_ne, ne_eq]; omega
      rw [hd]
      simp only [c, if_true, Option.some.injEq]
      rw [Nat.mod_eq_of_lt (show C.P - (C.P - y) < C.P by omega)]
      omega

theorem u8_2_or_3 (p : UInt8) (h : (p == 0x02 || p == 0x03) = true) :
    (p = 2 ∨ p = 3) ∧ UInt8.ofNat (2 + p.toNat % 2) = p := by
  simp only [Bool.or_eq_true, beq_iff_eq] at h
  rcases h with rfl | rfl
  · exact ⟨Or.inl rfl, by decide⟩
  · exact ⟨Or.inr rfl, by decide⟩

/-- the shape and the soundness of everything `DecodeBytes` accepts. -/
theorem decodePub_shape (C : CurveP) (L : CurveSound C) (b : Bytes) (x y : Nat) (h : decodePub C b = some (x, y)) :
    x < C.P ∧ y < C.P ∧ onCurve C x y = true ∧
    ((∃ p rest, b = p :: rest ∧ rest.length = 32 ∧ (p = 2 ∨ p = 3) ∧ x = beVal rest ∧
        (y % 2 = p.toNat % 2 ∨ (y = 0 ∧ p = 3 ∧ ySquared C x = 0))) ∨
     (∃ xb yb, b = 0x04 :: (xb ++ yb) ∧ xb.length = 32 ∧ yb.length = 32 ∧ x = beVal xb ∧ y = beVal yb)) := by
  unfold decodePub at h
  cases b with
  | nil => cases h
  | cons p rest =>
    simp only at h
    by_cases c0 : (p == 0x00) = true
    · simp [c0] at h
    simp only [c0, Bool.false_eq_true, if_false] at h
    by_cases c23 : (p == 0x02 || p == 0x03) = true
    · simp only [c23, if_true] at h
      by_cases cl : rest.length < 32
      · simp [cl] at h
      simp only [cl, if_false] at h
      cases hd : decodeCompressedY C (beVal (rest.take 32)) (p.toNat % 2) with
      | none => rw [hd] at h; cases h
      | some y' =>
        rw [hd] at h
        simp only at h
        by_cases cr : C.P ≤ beVal (rest.take 32) ∨ C.P ≤ y'
        · simp [cr] at h
        simp only [cr, if_false] at h
        by_cases ce : (rest.length != 32) = true
        · simp [ce] at h
        simp only [ce, Bool.false_eq_true, if_false, Option.some.injEq, Prod.mk.injEq] at h
        have hl : rest.length = 32 := by simpa using ce
        have ht : rest.take 32 = rest := by rw [← hl, List.take_length]
        rw [ht] at hd cr h
        obtain ⟨rfl, rfl⟩ := h
        obtain ⟨hy, hsq, hpar⟩ := decodeCompressedY_spec C L _ _ _ (Nat.mod_lt _ (by omega)) hd
        obtain ⟨hp23, _⟩ := u8_2_or_3 p c23
        refine ⟨by omega, hy, by simp [onCurve, hsq], Or.inl ⟨p, rest, rfl, hl, hp23, rfl, ?_⟩⟩
        rcases hpar with hpar | ⟨h0, h1, h2⟩
        · exact Or.inl hpar
        · refine Or.inr ⟨h0, ?_, h2⟩
          rcases hp23 with rfl | rfl
          · simp at h1
          · rfl
    · simp only [c23, Bool.false_eq_true, if_false] at h
      by_cases c4 : (p == 0x04) = true
      · simp only [c4, if_true] at h
        have hp4 : p = 4 := by simpa using c4
        by_cases cl : rest.length < 64
        · simp [cl] at h
        simp only [cl, if_false] at h
        by_cases co : (!onCurve C (beVal (rest.take 32)) (beVal ((rest.drop 32).take 32))) = true
        · simp [co] at h
        simp only [co, Bool.false_eq_true, if_false] at h
        by_cases cr : C.P ≤ beVal (rest.take 32) ∨ C.P ≤ beVal ((rest.drop 32).take 32)
        · simp [cr] at h
        simp only [cr, if_false] at h
        by_cases ce : (rest.length != 64) = true
        · simp [ce] at h
        simp only [ce, Bool.false_eq_true, if_false, Option.some.injEq, Prod.mk.injEq] at h
        have hl : rest.length = 64 := by simpa using ce
        obtain ⟨rfl, rfl⟩ := h
        have hoc : onCurve C (beVal (rest.take 32)) (beVal ((rest.drop 32).take 32)) = true := by simpa using co
        have ht : (rest.drop 32).take 32 = rest.drop 32 := by
          apply List.take_of_length_le; rw [List.length_drop]; omega
        refine ⟨by omega, by omega, hoc, Or.inr ⟨rest.take 32, rest.drop 32, ?_, ?_, ?_, rfl, by rw [ht]⟩⟩
        · rw [hp4, List.take_append_drop]
        · rw [List.length_take]; omega
        · rw [List.length_drop]; omega
      · simp [c4] at h

/-- compressed encoding then decoding: every curve point with canonical coordinates comes back. -/
theorem decodePub_pkBytes (C : CurveP) (L : CurveLaws C) (x y : Nat) (hx : x < C.P) (hy : y < C.P)
    (hc : onCurve C x y = true) : decodePub C (pkBytes (some (x, y))) = some (x, y) := by
  have hc' : (y * y) % C.P = ySquared C x := by simpa [onCurve] using hc
  have hx256 : x < 256 ^ 32 := by rw [pow256_32]; have := L.le256; omega
  have hpar : y % 2 = 0 ∨ y % 2 = 1 := by omega
  have hpfx : ∀ r : Nat, r < 2 → (UInt8.ofNat (2 + r) == 0x00) = false ∧ (UInt8.ofNat (2 + r) == 0x02 || UInt8.ofNat (2 + r) == 0x03) = true
      ∧ (UInt8.ofNat (2 + r)).toNat % 2 = r := by
    intro r hr
    have : r = 0 ∨ r = 1 := by omega
    rcases this with rfl | rfl <;> decide
  obtain ⟨p0, p23, ppar⟩ := hpfx (y % 2) (Nat.mod_lt _ (by omega))
  unfold pkBytes decodePub
  simp only [p0, Bool.false_eq_true, if_false, p23, if_true, beBytes_length, ppar]
  have ht : (beBytes 32 x).take 32 = beBytes 32 x := by
    apply List.take_of_length_le; rw [beBytes_length]; omega
  simp only [Nat.lt_irrefl, if_false, ht, beVal_beBytes 32 x hx256, decodeCompressedY_complete C L x y hy hc']
  have cr : ¬ (C.P ≤ x ∨ C.P ≤ y) := by omega
  simp [cr]

theorem decodePub_pkBytesU (C : CurveP) (L : CurveLaws C) (x y : Nat) (hx : x < C.P) (hy : y < C.P)
    (hc : onCurve C x y = true) : decodePub C (pkBytesU (some (x, y))) = some (x, y) := by
  have hx256 : x < 256 ^ 32 := by rw [pow256_32]; have := L.le256; omega
  have hy256 : y < 256 ^ 32 := by rw [pow256_32]; have := L.le256; omega
  unfold pkBytesU decodePub
  have c0 : ((0x04 : UInt8) == 0x00) = false := by decide
  have c23 : ((0x04 : UInt8) == 0x02 || (0x04 : UInt8) == 0x03) = false := by decide
  have hlen : (beBytes 32 x ++ beBytes 32 y).length = 64 := by simp [beBytes_length]
  have t1 : (beBytes 32 x ++ beBytes 32 y).take 32 = beBytes 32 x := List.take_left' (beBytes_length _ _)
  have t2 : ((beBytes 32 x ++ beBytes 32 y).drop 32).take 32 = beBytes 32 y := by
    rw [List.drop_left' (beBytes_length _ _)]
    apply List.take_of_length_le; rw [beBytes_length]; omega
  have cr : ¬ (C.P ≤ x ∨ C.P ≤ y) := by omega
  simp only [c0, Bool.false_eq_true, if_false, c23, beq_self_eq_true, if_true, hlen, Nat.lt_irrefl, t1, t2,
    beVal_beBytes 32 x hx256, beVal_beBytes 32 y hy256, hc, Bool.not_true, cr, bne_self_eq_false]

/-- decoding then encoding: the accepted bytes come back (with the one exception the code has: a
`03`-prefixed x whose y is 0 re-encodes with `02`; impossible on curves without 2-torsion). -/
theorem encode_decodePub (C : CurveP) (L : CurveSound C) (b : Bytes) (x y : Nat) (h : decodePub C b = some (x, y)) :
    (b.length = 65 ∧ pkBytesU (some (x, y)) = b) ∨
    (b.length = 33 ∧ (pkBytes (some (x, y)) = b ∨ (y = 0 ∧ b.head? = some 3 ∧ ySquared C x = 0))) := by
  obtain ⟨_, _, _, hs⟩ := decodePub_shape C L b x y h
  rcases hs with ⟨p, rest, rfl, hl, hp, rfl, hpar⟩ | ⟨xb, yb, rfl, hxl, hyl, rfl, rfl⟩
  · right
    refine ⟨by simp [hl], ?_⟩
    rcases hpar with hpar | ⟨h0, h3, hz⟩
    · left
      simp only [pkBytes]
      have := beBytes_beVal rest
      rw [hl] at this
      rw [this, hpar]
      congr 1
      rcases hp with rfl | rfl <;> decide
    · right; exact ⟨h0, by rw [h3]; rfl, hz⟩
  · left
    refine ⟨by simp [hxl, hyl], ?_⟩
    simp only [pkBytesU]
    have h1 := beBytes_beVal xb
    have h2 := beBytes_beVal yb
    rw [hxl] at h1; rw [hyl] at h2
    rw [h1, h2]

/-! ### signature layout -/

theorem sigSplit_join (r s : Nat) (hr : r < 2 ^ 256) (hs : s < 2 ^ 256) : sigSplit (sigJoin r s) = some (r, s) := by
  unfold sigSplit sigJoin
  have hl : (beBytes 32 r ++ beBytes 32 s).length = 64 := by simp [beBytes_length]
  simp only [hl, bne_self_eq_false, Bool.false_eq_true, if_false, List.take_left' (beBytes_length 32 r),
    List.drop_left' (beBytes_length 32 r)]
  rw [beVal_beBytes 32 r (by rw [pow256_32]; exact hr), beVal_beBytes 32 s (by rw [pow256_32]; exact hs)]

theorem sigSplit_iff (sig : Bytes) (r s : Nat) :
    sigSplit sig = some (r, s) ↔ sig.length = 64 ∧ r < 2 ^ 256 ∧ s < 2 ^ 256 ∧ sig = sigJoin r s := by
  constructor
  · intro h
    unfold sigSplit at h
    by_cases c : (sig.length != 64) = true
    · simp [c] at h
    simp only [c, Bool.false_eq_true, if_false, Option.some.injEq, Prod.mk.injEq] at h
    have hl : sig.length = 64 := by simpa using c
    obtain ⟨rfl, rfl⟩ := h
    have l1 : (sig.take 32).length = 32 := by rw [List.length_take]; omega
    have l2 : (sig.drop 32).length = 32 := by rw [List.length_drop]; omega
    refine ⟨hl, ?_, ?_, ?_⟩
    · have := leVal_lt (sig.take 32).reverse
      rw [List.length_reverse, l1, pow256_32] at this; exact this
    · have := leVal_lt (sig.drop 32).reverse
      rw [List.length_reverse, l2, pow256_32] at this; exact this
    · unfold sigJoin
      have h1 := beBytes_beVal (sig.take 32)
      have h2 := beBytes_beVal (sig.drop 32)
      rw [l1] at h1; rw [l2] at h2
      rw [h1, h2, List.take_append_drop]
  · rintro ⟨_, hr, hs, rfl⟩
    exact sigSplit_join r s hr hs

end NeoModel.Codec

namespace NeoModel.Codec

/-! ### the driver's instantiation satisfies the soundness laws by construction -/

theorem powModAux_lt (m : Nat) (hm : 0 < m) : ∀ fuel b e acc, acc < m → powModAux m fuel b e acc < m := by
  intro fuel
  induction fuel with
  | zero => intro b e acc h; exact h
  | succ f ih =>
    intro b e acc h
    unfold powModAux
    split
    · exact h
    · apply ih
      split
      · exact Nat.mod_lt _ hm
      · exact h

theorem powMod_lt (b e m : Nat) (hm : 0 < m) : powMod b e m < m :=
  powModAux_lt m hm _ _ _ _ (Nat.mod_lt _ hm)

theorem mkCurve_sound (P A B : Nat) (hodd : P % 2 = 1) (hle : P ≤ 2 ^ 256) : CurveSound (mkCurve P A B) where
  odd := hodd
  le256 := hle
  sqrt_sound := by
    intro v y h
    have hP : 0 < P := by omega
    simp only [mkCurve, sqrt3mod4] at h
    split at h
    · rename_i hc
      injection h with h
      subst h
      have hc' : powMod v ((P + 1) / 4) P * powMod v ((P + 1) / 4) P % P = v % P := by simpa using hc
      exact ⟨powMod_lt _ _ _ hP, hc'⟩
    · cases h

end NeoModel.Codec
