/- C19 simulation, part C11: onCommit, onPrepareRequest. -/
import NeoModel.Proofs.DbftSimF
namespace NeoModel.Dbft.Mach
open NeoModel.Dbft

theorem extendTimer_fields (e : Env) (w : W) (c : Nat) :
    (extendTimer e w c).nd.my = w.nd.my ∧ (extendTimer e w c).nd.prep = w.nd.prep ∧
    (extendTimer e w c).nd.commit = w.nd.commit ∧ (extendTimer e w c).nd.cv = w.nd.cv ∧
    (extendTimer e w c).nd.lastCv = w.nd.lastCv ∧ (extendTimer e w c).nd.chain = w.nd.chain ∧
    (extendTimer e w c).nd.bi = w.nd.bi ∧ (extendTimer e w c).nd.view = w.nd.view ∧
    (extendTimer e w c).nd.pidx = w.nd.pidx ∧ (extendTimer e w c).nd.blockProcessed = w.nd.blockProcessed ∧
    (extendTimer e w c).nd.cache = w.nd.cache ∧ (∀ pl, Out.bcast pl ∈ (extendTimer e w c).out → Out.bcast pl ∈ w.out) ∧
    (∀ b s, Out.block b s ∈ (extendTimer e w c).out → Out.block b s ∈ w.out) := by
  unfold extendTimer
  split
  · exact ⟨rfl, rfl, rfl, rfl, rfl, rfl, rfl, rfl, rfl, rfl, rfl, fun pl hp => by simpa [W.upd, W.emit] using hp,
      fun b s hp => by simpa [W.upd, W.emit] using hp⟩
  · exact ⟨rfl, rfl, rfl, rfl, rfl, rfl, rfl, rfl, rfl, rfl, rfl, fun pl hp => hp, fun b s hp => hp⟩

/-- storing a Commit of another validator -/
theorem good_set_commit {e : Env} {as : State} {i : Nat} {w : W} (h : Good e as i w) (hbp : w.nd.blockProcessed = false)
    (x : Hd) (sb : Block) (hx : x.frm < e.n) (hxh : x.h = w.nd.bi) (hempty : slot w.nd.commit x.frm = none)
    (hc : Claims e as (.commit x sb)) :
    Good e as i (w.upd fun nd => { nd with commit := nd.commit.set x.frm (some (.commit x sb)) }) ∧ x.frm ≠ i := by
  have rn := h.rn
  have hlen : x.frm < w.nd.commit.length := by rw [rn.lens.2.1]; exact hx
  obtain ⟨hbi, hview, hgp, hgc⟩ := h.synced hbp
  have hxm : x.frm ≠ i := by
    intro heq
    have : w.nd.commitSent = true := hgc ⟨sb, by rw [← heq]; exact hc.1, by rw [hc.2.1, hxh]⟩
    unfold Node.commitSent at this
    rw [rn.my, ← heq, hempty] at this; cases this
  refine ⟨⟨h.g, ⟨rn.my, by simpa [W.upd] using rn.lens, rn.chain, rn.height, ?_, rn.pidx, rn.prep, ?_, rn.cv, rn.lastCv,
    rn.cache, ?_⟩, h.outs, h.blk, h.st, h.lt⟩, hxm⟩
  · left
    refine ⟨hbi, hview, hgp, ?_⟩
    intro hg
    show Node.commitSent _ = true
    have := hgc hg
    unfold Node.commitSent at this ⊢
    simp only [W.upd]
    rw [rn.my] at this ⊢
    rw [slot_set_other _ _ _ _ (Ne.symm hxm)]; exact this
  · intro j m hj
    by_cases hjm : j = x.frm
    · subst hjm
      simp only [W.upd, slot_set_self _ _ _ hlen, Option.some.injEq] at hj
      subst hj
      exact ⟨x, sb, rfl, rfl, hxh, hc.1, by rw [hc.2.1, hxh]; rfl, hc.2.2⟩
    · simp only [W.upd, slot_set_other _ _ _ _ hjm] at hj
      exact rn.commit j m hj
  · intro y sb' hj
    simp only [W.upd, slot_set_other _ _ _ _ (Ne.symm hxm)] at hj
    exact rn.own y sb' hj

/-- dbft.go:606-651 on the machine -/
theorem prog_onCommit {e : Env} {as : State} {i : Nat} {w : W} (h : Good e as i w)
    (hbp : w.nd.blockProcessed = false) (x : Hd) (sb : Block) (hx : x.frm < e.n) (hxh : x.h = w.nd.bi)
    (hc : Claims e as (.commit x sb)) : Prog e i as (onCommit e w (.commit x sb) sb) := by
  unfold onCommit
  have hhd : (Pl.commit x sb).hd = x := rfl
  simp only [hhd]
  by_cases hs : (slot w.nd.commit x.frm).isSome = true
  · rw [if_pos hs]; exact Prog.of_good h
  rw [if_neg hs]
  have hempty : slot w.nd.commit x.frm = none := by
    cases hq : slot w.nd.commit x.frm with
    | none => rfl
    | some _ => simp [hq] at hs
  obtain ⟨g1, _⟩ := good_set_commit h hbp x sb hx hxh hempty hc
  have hlen : x.frm < w.nd.commit.length := by rw [h.rn.lens.2.1]; exact hx
  by_cases hv : (w.nd.view == x.v) = true
  · rw [if_pos hv]
    have g2 := good_extendTimer g1 4
    have b2 : (extendTimer e (w.upd fun nd => { nd with commit := nd.commit.set x.frm (some (.commit x sb)) }) 4).nd.blockProcessed = false := by
      unfold extendTimer; split <;> exact hbp
    split
    · exact Prog.of_good g2
    · split
      · exact prog_checkCommit g2 b2
      · -- the signature is not for the header: the slot is emptied again
        obtain ⟨f1, f2, f3, f4, f5, f6, f7, f8, f9, f10, f11, f12, f13⟩ :=
          extendTimer_fields e (w.upd fun nd => { nd with commit := nd.commit.set x.frm (some (.commit x sb)) }) 4
        refine Prog.of_good (h.congr ?_ ?_ ?_ ?_ ?_ ?_ ?_ ?_ ?_ ?_ ?_ ?_ ?_)
        · exact f1
        · exact f2
        · show ((extendTimer e _ 4).nd.commit).set x.frm none = w.nd.commit
          rw [f3]; exact list_set_none_self _ _ _ hempty hlen
        · exact f4
        · exact f5
        · exact f6
        · exact f7
        · exact f8
        · exact f9
        · intro hb; rw [hbp] at hb; cases hb
        · exact f11
        · exact f12
        · exact f13
  · rw [if_neg hv]; exact Prog.of_good g1

end NeoModel.Dbft.Mach
