/-
C20 (b): progress measure of the MPT stage and the invariant over whole histories of the module over the billet.
-/
import NeoModel.Proofs.BilletRebuild
import Mathlib.Data.List.Perm.Subperm
namespace NeoModel.StateSync

variable (db : Hash → Option SNode) (root : Hash)

theorem restoreStep_done_length (s : MS) (h : Hash) (n : SNode) :
    (restoreStep s h n).done.length = s.done.length + (pathsOf s.pool h).length := by
  simp [restoreStep, restoreAll]

theorem done_le_restoreNode (fuel : Nat) : ∀ (s : MS) (h : Hash) (n : SNode),
    s.done.length ≤ (restoreNode db fuel s h n).done.length := by
  induction fuel with
  | zero => intro s h n; exact Nat.le_refl _
  | succ f ih =>
    intro s h n
    rw [restoreNode_succ]
    split
    · exact Nat.le_refl _
    · have h1 : s.done.length ≤ (restoreStep s h n).done.length := by rw [restoreStep_done_length]; omega
      generalize restoreStep s h n = s2 at h1
      generalize (pathsOf s.pool h).flatMap (fun p => childrenPaths p n) = kids
      induction kids generalizing s2 with
      | nil => exact h1
      | cons k r ihk =>
        simp only [List.foldl_cons]
        apply ihk
        unfold restoreStored
        split
        · split
          · exact Nat.le_trans h1 (ih _ _ _)
          · exact h1
        · exact h1

/-- A requested node strictly increases the number of restored positions. -/
theorem done_lt_restoreNode (f : Nat) (s : MS) (h : Hash) (n : SNode) (q : Path) (hq : (h, q) ∈ s.pool) :
    s.done.length < (restoreNode db (f + 1) s h n).done.length := by
  rw [restoreNode_succ]
  have hne : (pathsOf s.pool h) ≠ [] := by
    intro e
    have := (mem_pathsOf s.pool h q).2 hq
    rw [e] at this; cases this
  have hpos : 0 < (pathsOf s.pool h).length := List.length_pos_iff.2 hne
  have hemp : (pathsOf s.pool h).isEmpty = false := by
    cases hp : pathsOf s.pool h with
    | nil => exact absurd hp hne
    | cons _ _ => rfl
  simp only [hemp, Bool.false_eq_true, if_false]
  have h1 : s.done.length < (restoreStep s h n).done.length := by rw [restoreStep_done_length]; omega
  generalize restoreStep s h n = s2 at h1
  generalize (pathsOf s.pool h).flatMap (fun p => childrenPaths p n) = kids
  induction kids generalizing s2 with
  | nil => exact h1
  | cons k r ihk =>
    simp only [List.foldl_cons]
    apply ihk
    unfold restoreStored
    split
    · split
      · exact Nat.lt_of_lt_of_le h1 (done_le_restoreNode db f _ _ _)
      · exact h1
    · exact h1

/-- The number of restored positions never exceeds the number of positions of the trie. -/
theorem done_bounded (s : MS) (hi : Inv db root s) (L : List (Hash × Path))
    (hL : ∀ h p, Pos db root h p → (h, p) ∈ L) : s.done.length ≤ L.length :=
  (List.subperm_of_subset hi.doneNodup (fun x hx => hL x.1 x.2 (hi.donePos x hx))).length_le

/-- A fully restored subtree is represented by a collapsed HashNode only. -/
theorem rep_full (D : List (Hash × Path)) :
    ∀ (t : BN) (h : Hash) (p : Path), Rep db D t h p → (∀ y, Below db (h, p) y → y ∈ D) → t = .hash h true := by
  intro t
  -- induction on the size of the billet node through the children list
  suffices hs : ∀ (m : Nat) (t : BN) (h : Hash) (p : Path), sizeOf t ≤ m → Rep db D t h p →
      (∀ y, Below db (h, p) y → y ∈ D) → t = .hash h true from fun h p => hs (sizeOf t) t h p (Nat.le_refl _)
  intro m
  induction m with
  | zero =>
    intro t h p hsz
    cases t <;> simp at hsz
  | succ m ih =>
    intro t h p hsz hrep hfull
    cases t with
    | hash h' c =>
      simp only [Rep] at hrep
      obtain ⟨rfl, h2⟩ := hrep
      cases c with
      | true => rfl
      | false => simp only [Bool.false_eq_true, if_false] at h2; exact absurd (hfull _ (.refl _)) h2
    | node h' kind kids =>
      simp only [Rep] at hrep
      obtain ⟨rfl, _, n, hn, _, _, hks, hcol⟩ := hrep
      exfalso
      have hall : kids.all (fun k => k.2.isCollapsed) = true := by
        rw [List.all_eq_true]
        intro e he
        obtain ⟨k, hk, _, hrk⟩ := repKids_mem' db D p kids n.kids hks e he
        have hsz' : sizeOf e.2 ≤ m := by
          have h1 := List.sizeOf_lt_of_mem he
          have h2 : sizeOf e.2 < sizeOf e := by
            obtain ⟨e1, e2⟩ := e
            simp only [Prod.mk.sizeOf_spec]; omega
          simp only [BN.node.sizeOf_spec] at hsz
          omega
        have := ih e.2 k.2 (p ++ k.1) hsz' hrk
          (fun y hy => hfull y (Below.head db ⟨n, k, hn, hk, rfl⟩ hy))
        rw [this]; rfl
      rw [hall] at hcol; cases hcol

def BEvOk : BEv → Prop
  | .batch items => ∀ it ∈ items, BItemOk db it
  | .restart => True

/-- The invariant of the module over the billet holds along every history of batches (of anything) and
restarts. -/
theorem binv_runEvsB (wf : WF db root) (rk : Hash → Nat) (hrk : Ranked db rk) (sh : Shaped db) (fuel : Nat)
    (hf : ∀ h m, db h = some m → rk h < fuel) (evs : List BEv) :
    ∀ (s : BS), BInv db root s → Clean s.ms → (∀ e ∈ evs, BEvOk db e) →
      BInv db root (runEvsB db fuel root s evs) ∧ Clean (runEvsB db fuel root s evs).ms := by
  unfold runEvsB
  induction evs with
  | nil => intro s hb hcl _; exact ⟨hb, hcl⟩
  | cons e r ih =>
    intro s hb hcl hok
    simp only [List.foldl_cons]
    have hr : ∀ e ∈ r, BEvOk db e := fun e he => hok e (by simp [he])
    cases e with
    | batch items =>
      have hk : ∀ it ∈ items, BItemOk db it := hok (.batch items) (by simp)
      obtain ⟨g1, g2, _, _⟩ := deliverB_inv db root wf rk hrk sh fuel hf items s hb hcl hk
      exact ih _ g1 g2 hr
    | restart =>
      obtain ⟨b, h1, hrep⟩ := rebuildB_refines db root wf rk hrk sh fuel hf (wf.closed root [] Pos.root) s hb.inv hcl
      obtain ⟨he, hn⟩ := rebuild_pool db root wf rk hrk fuel s.ms hb.inv hcl hf
      simp only [runEvB, h1]
      refine ih _ ⟨inv_of_pool_eq db root s.ms _ hb.inv he hn, hrep⟩ ?_ hr
      intro x hx
      exact hcl x ((he x).1 hx)

end NeoModel.StateSync
