/-
CompileSwitch — the `switch` statement of the full simulation: clause bodies with `fallthrough` (`bodyOK_succ`), the
clause chain with its DUP / compare / jump tests (`casesOK_succ`), and the statement itself (`switchOK_succ`): own
scope, the tag (or `true`) stays on the evaluation stack from the first test to the DROP behind the end mark; a
`break` that concerns the switch lands on the end mark with the tag still there, anything that goes further out
(`break L`, `continue`, `return`) has dropped it (codegen.go:959-1032, 1425-1450, 886-894).
-/
import NeoModel.Proofs.CompileLoop
set_option linter.unusedSimpArgs false
namespace NeoModel.CompileProofs
open NeoModel.MiniVm NeoModel.MiniVm.Asm NeoModel.MiniGo NeoModel.Compile

theorem csStR_scopes (cx : Ctx) (lp : LoopCtx) (e1 : Expr) (e2 : Option Expr) (body : Stmt) (st : St) :
    (csStR cx lp e1 e2 body st).scopes = st.scopes := by
  have hb := compS_tail cx body lp (csStB cx lp e1 e2 st) (by simp)
  simp only [csStB_scopes, List.tail_cons] at hb
  simp [csStR, hb]

/-- a clause chain declares nothing at its own level. -/
theorem chain_scopes (cx : Ctx) : ∀ (cl : Stmt) (lp : LoopCtx) (st : St), IsChain cl → (compS cx lp cl st).2.scopes = st.scopes := by
  intro cl
  induction cl with
  | skip => intro lp st _; rfl
  | defaultS body ih =>
    intro lp st _
    rw [compS_default]
    have hb := compS_tail cx body lp (dfStB st) (by simp)
    simp only [dfStB_scopes, List.tail_cons] at hb
    simp [hb]
  | caseS e1 e2 body ft rest ihb ihr =>
    intro lp st h
    rw [compS_case]
    simp only
    rw [ihr lp _ h, csStR_scopes]
  | _ => intro lp st h; exact h.elim

theorem bodyOK_zero (P : Prog) (C : Code) (cx : Ctx) : BodyOK P C cx 0 := by
  intro cl body rest ft lp ls st env σ pc0 ti tv out _ _ _ hex
  simp [execBody] at hex

theorem swctx_pc {C : Code} {lp : LoopCtx} {ls : Sigs} {st : St} {σ : State} {ti : Bool} {tv : Val} {a b : Nat}
    (h : SwCtx C lp ls st σ ti tv a) (e : a = b) : SwCtx C lp ls st σ ti tv b := e ▸ h

set_option maxHeartbeats 1000000 in
theorem bodyOK_succ (P : Prog) (C : Code) (cx : Ctx) (fuel : Nat) (hn : (labelsOf C).Nodup)
    (ih : StmtFOK P C cx fuel) (ihB : BodyOK P C cx fuel) : BodyOK P C cx (fuel + 1) := by
  intro cl body rest ft lp ls st env σ pc0 ti tv out hshape hal hsw hex hp hpc hrel hwf hcnt hdep
  have hdep' : σ.frames.length + fuel < 1024 := by omega
  obtain ⟨ent, lp0, hlp, hisSw, heqn, hscl, hLend⟩ := hsw.ent
  have hEndL : csEndL lp = ent.endL := by rw [hlp]; rfl
  simp only [execBody] at hex
  rcases hshape with ⟨e1, e2, rfl⟩ | ⟨rfl, rfl, rfl⟩
  · -- a `case` clause: tests, start mark, body, (fallthrough jump,) jump to the end mark, end-of-clause mark, the rest
    have hal' : Allowed ls body ∧ AllowedCl ls rest := by simp only [AllowedCl] at hal; exact ⟨hal.1, hal.2.1⟩
    rw [compS_case] at hp hcnt hLend ⊢
    simp only [testsLen] at hpc
    simp only at hp hcnt hLend ⊢
    rw [hEndL] at hp hLend ⊢
    generalize hT : (csTests cx lp e1 e2 st).1 = T at hp hpc hLend
    generalize hcb : (compS cx lp body (csStB cx lp e1 e2 st)).1 = cb at hp hLend
    generalize hcr : (compS cx lp rest (csStR cx lp e1 e2 body st)).1 = cr at hp hLend
    generalize hfall : (if ft then [Item.ins (.jmp (st.sb + 1))] else ([] : Code)) = fall at hp hLend
    have hlen : (T ++ [Item.lbl st.sb] ++ cb ++ fall ++ [Item.ins (.jmp ent.endL), Item.lbl st.nl] ++ cr).length =
        T.length + 1 + cb.length + fall.length + 2 + cr.length := by simp; omega
    rw [hlen] at hLend ⊢
    have hPl : Placed C (pc0 + T.length) [Item.lbl st.sb] := hp.left.left.left.left.right
    have hPb : Placed C (pc0 + T.length + 1) cb := hp.left.left.left.right.cast (by simp [Nat.add_assoc])
    have hPf : Placed C (pc0 + T.length + 1 + cb.length) fall := hp.left.left.right.cast (by simp [Nat.add_assoc]; omega)
    have hPj : Placed C (pc0 + T.length + 1 + cb.length + fall.length) [Item.ins (.jmp ent.endL), Item.lbl st.nl] :=
      hp.left.right.cast (by simp [Nat.add_assoc]; omega)
    have hPr : Placed C (pc0 + T.length + 1 + cb.length + fall.length + 2) cr := hp.right.cast (by simp [Nat.add_assoc]; omega)
    -- compile-time facts
    have hmb := compS_mono cx body lp (csStB cx lp e1 e2 st) (by simp)
    have hRsc : (csStR cx lp e1 e2 body st).scopes = st.scopes := csStR_scopes cx lp e1 e2 body st
    have hmr := compS_mono cx rest lp (csStR cx lp e1 e2 body st) (by rw [hRsc]; exact hwf.nonempty)
    have hcntB : (compS cx lp body (csStB cx lp e1 e2 st)).2.cnt ≤ σ.locals.length := by
      have : (csStR cx lp e1 e2 body st).cnt = (compS cx lp body (csStB cx lp e1 e2 st)).2.cnt := rfl
      omega
    -- the start mark
    have h0 := skip_lbl (σ := σ) (hpc ▸ hPl)
    cases hb : exec fuel P env (.block body) with
    | ok ob =>
      rw [hb] at hex
      have hpostB := ih (.block body) lp ls { st with nl := (csTests cx lp e1 e2 st).2 } env { σ with pc := σ.pc + 1 } ob hal'.1
        ⟨hsw.sig, hsw.noLabel, hsw.stk, hsw.few⟩ (Or.inr ⟨⟨body, rfl⟩, hsw.deep⟩) hb
        (by rw [compS_block]; show Placed C (σ.pc + 1) (compS cx lp body (csStB cx lp e1 e2 st)).1; rw [hcb, hpc]; exact hPb)
        hrel (wf_nl hwf _) (by rw [compS_block]; exact hcntB) hdep'
      rw [compS_block] at hpostB
      have hscB : ((compS cx lp body ({ st with nl := (csTests cx lp e1 e2 st).2 } : St).push).2.pop).scopes = st.scopes := hRsc
      simp only [hscB] at hpostB
      have hpostB' := post_prefix h0 ⟨rfl, rfl, rfl, rfl⟩ hpostB
      cases ob with
      | norm e1' =>
        simp only at hex
        obtain ⟨σ2, hr2, hpc2, hs2, hrel2⟩ := hpostB'
        have hpc2' : σ2.pc = pc0 + T.length + 1 + cb.length := by
          rw [hpc2]; show σ.pc + 1 + (compS cx lp body (csStB cx lp e1 e2 st)).1.length = _; rw [hcb, hpc]
        cases ft with
        | false =>
          simp only [Bool.false_eq_true, if_false] at hex hfall
          cases hex
          subst hfall
          have hj := step_jmp (s := σ2) (by rw [hpc2']; simpa using hPj.head) hLend
          refine ⟨_, hr2.trans (Reach.step hj), ?_, ⟨hs2.stack, hs2.frames, hs2.inited, hs2.len⟩, hrel2⟩
          simp
        | true =>
          simp only [if_true] at hex hfall
          subst hfall
          -- the fallthrough jump lands on the start mark of the next clause
          have hnlR : (csStR cx lp e1 e2 body st).nextLabel = none :=
            compS_noLabel cx body lp (csStB cx lp e1 e2 st) (allowed_labelsOK body ls hal'.1) (Or.inl hsw.noLabel)
          have hwfR : Wf (csStR cx lp e1 e2 body st) := by
            have := compS_wf cx (.block body) lp { st with nl := (csTests cx lp e1 e2 st).2 } (wf_nl hwf _)
            rw [compS_block] at this
            exact wf_mono this rfl (Nat.le_refl _)
          have hswR : ∀ τ : State, Same σ τ →
              SwCtx C lp ls (csStR cx lp e1 e2 body st) τ ti tv
                (pc0 + T.length + 1 + cb.length + 1 + 2 + (compS cx lp rest (csStR cx lp e1 e2 body st)).1.length) := by
            intro τ hτ
            obtain ⟨rs, hrs⟩ := hsw.tag
            refine ⟨hsw.sig, ⟨ent, lp0, hlp, hisSw, heqn, by rw [hRsc]; exact hscl, ?_⟩, ⟨rs, by rw [hτ.stack]; exact hrs⟩, hnlR,
              by rw [hτ.stack]; exact hsw.stk, hsw.few, by rw [hRsc]; exact hsw.deep⟩
            rw [hcr]; simpa [Nat.add_assoc] using hLend
          have hrelR : VarsRel cx (csStR cx lp e1 e2 body st).scopes e1' σ2.locals σ2.args := by rw [hRsc]; exact hrel2
          have hcntR : (compS cx lp rest (csStR cx lp e1 e2 body st)).2.cnt ≤ σ2.locals.length := by rw [hs2.len]; exact hcnt
          have hdepR : σ2.frames.length + fuel < 1024 := by rw [hs2.frames]; exact hdep'
          have hPr' : Placed C (pc0 + T.length + 1 + cb.length + 1 + 2) (compS cx lp rest (csStR cx lp e1 e2 body st)).1 := by
            rw [hcr]; simpa using hPr
          cases rest with
          | caseS e1r e2r br fr rr =>
            simp only at hex
            -- position of the next clause's start mark
            have hPr'' := hPr'
            rw [compS_case] at hPr''
            simp only at hPr''
            have hLn : findLabel C (st.sb + 1) =
                some (pc0 + T.length + 1 + cb.length + 1 + 2 + (csTests cx lp e1r e2r (csStR cx lp e1 e2 body st)).1.length) :=
              (hPr''.left.left.left.left.right).label hn
            have hj := step_jmp (s := σ2) (by rw [hpc2']; simpa using hPf.head) hLn
            have hrec := ihB (.caseS e1r e2r br fr rr) br rr fr lp ls (csStR cx lp e1 e2 body st) e1'
              { σ2 with pc := pc0 + T.length + 1 + cb.length + 1 + 2 + (csTests cx lp e1r e2r (csStR cx lp e1 e2 body st)).1.length }
              (pc0 + T.length + 1 + cb.length + 1 + 2) ti tv out (Or.inl ⟨_, _, rfl⟩) hal'.2
              (hswR _ ⟨hs2.stack, hs2.frames, hs2.inited, hs2.len⟩) hex hPr' rfl hrelR hwfR hcntR hdepR
            rw [hRsc] at hrec
            have := post_prefix (hr2.trans (Reach.step hj)) ⟨hs2.stack, hs2.frames, hs2.inited, hs2.len⟩ hrec
            rw [hcr] at this
            simpa [Nat.add_assoc] using this
          | defaultS br =>
            simp only at hex
            have hPr'' := hPr'
            rw [compS_default] at hPr''
            simp only at hPr''
            have hLn : findLabel C (st.sb + 1) = some (pc0 + T.length + 1 + cb.length + 1 + 2) :=
              (hPr''.left.left).label hn
            have hj := step_jmp (s := σ2) (by rw [hpc2']; simpa using hPf.head) hLn
            have hrec := ihB (.defaultS br) br .skip false lp ls (csStR cx lp e1 e2 body st) e1'
              { σ2 with pc := pc0 + T.length + 1 + cb.length + 1 + 2 }
              (pc0 + T.length + 1 + cb.length + 1 + 2) ti tv out (Or.inr ⟨rfl, rfl, rfl⟩) hal'.2
              (hswR _ ⟨hs2.stack, hs2.frames, hs2.inited, hs2.len⟩) hex hPr' (by simp [testsLen]) hrelR hwfR hcntR hdepR
            rw [hRsc] at hrec
            have := post_prefix (hr2.trans (Reach.step hj)) ⟨hs2.stack, hs2.frames, hs2.inited, hs2.len⟩ hrec
            rw [hcr] at this
            simpa [Nat.add_assoc] using this
          | _ => simp at hex
      | ret v => simp only at hex; cases hex; exact post_ret hpostB'
      | brk l e' => simp only at hex; cases hex; exact hpostB'
      | cont l e' => simp only at hex; cases hex; exact hpostB'
    | panic => rw [hb] at hex; simp at hex
    | overflow => rw [hb] at hex; simp at hex
    | stuck => rw [hb] at hex; simp at hex
    | timeout => rw [hb] at hex; simp at hex
  · -- `default`: start mark, body, jump to the end mark, end-of-clause mark
    have hal' : Allowed ls body := by simpa only [AllowedCl] using hal
    rw [compS_default] at hp hcnt hLend ⊢
    simp only [testsLen, Nat.add_zero] at hpc
    simp only at hp hcnt hLend ⊢
    rw [hEndL] at hp hLend ⊢
    generalize hcb : (compS cx lp body (dfStB st)).1 = cb at hp hLend
    have hlen : ([Item.lbl st.sb] ++ cb ++ [Item.ins (.jmp ent.endL), Item.lbl st.nl]).length = 1 + cb.length + 2 := by simp; omega
    rw [hlen] at hLend ⊢
    have hPl : Placed C pc0 [Item.lbl st.sb] := hp.left.left
    have hPb : Placed C (pc0 + 1) cb := hp.left.right.cast (by simp)
    have hPj : Placed C (pc0 + 1 + cb.length) [Item.ins (.jmp ent.endL), Item.lbl st.nl] := hp.right.cast (by simp [Nat.add_assoc]; omega)
    have hDsc : (compS cx lp body (dfStB st)).2.pop.scopes = st.scopes := by
      have hb := compS_tail cx body lp (dfStB st) (by simp)
      simp only [dfStB_scopes, List.tail_cons] at hb
      simp [hb]
    have h0 := skip_lbl (σ := σ) (hpc ▸ hPl)
    cases hb : exec fuel P env (.block body) with
    | ok ob =>
      rw [hb] at hex
      have hpostB := ih (.block body) lp ls { st with nl := st.nl + 1 } env { σ with pc := σ.pc + 1 } ob hal'
        ⟨hsw.sig, hsw.noLabel, hsw.stk, hsw.few⟩ (Or.inr ⟨⟨body, rfl⟩, hsw.deep⟩) hb
        (by rw [compS_block]; show Placed C (σ.pc + 1) (compS cx lp body (dfStB st)).1; rw [hcb, hpc]; exact hPb)
        hrel (wf_nl hwf _) (by rw [compS_block]; exact hcnt) hdep'
      rw [compS_block] at hpostB
      have hscB : ((compS cx lp body ({ st with nl := st.nl + 1 } : St).push).2.pop).scopes = st.scopes := hDsc
      simp only [hscB] at hpostB
      have hpostB' := post_prefix h0 ⟨rfl, rfl, rfl, rfl⟩ hpostB
      cases ob with
      | norm e1' =>
        simp only [Bool.false_eq_true, if_false] at hex
        cases hex
        obtain ⟨σ2, hr2, hpc2, hs2, hrel2⟩ := hpostB'
        have hpc2' : σ2.pc = pc0 + 1 + cb.length := by
          rw [hpc2]; show σ.pc + 1 + (compS cx lp body (dfStB st)).1.length = _; rw [hcb, hpc]
        have hj := step_jmp (s := σ2) (by rw [hpc2']; exact hPj.head) hLend
        exact ⟨_, hr2.trans (Reach.step hj), rfl, ⟨hs2.stack, hs2.frames, hs2.inited, hs2.len⟩, hrel2⟩
      | ret v => simp only at hex; cases hex; exact post_ret hpostB'
      | brk l e' => simp only at hex; cases hex; exact hpostB'
      | cont l e' => simp only at hex; cases hex; exact hpostB'
    | panic => rw [hb] at hex; simp at hex
    | overflow => rw [hb] at hex; simp at hex
    | stuck => rw [hb] at hex; simp at hex
    | timeout => rw [hb] at hex; simp at hex

theorem csEq_token {lp : LoopCtx} {ent : LEntry} {lp0 : LoopCtx} {ti : Bool} (hlp : lp = ent :: lp0) (he : ent.eqNum = ti) :
    csEq lp = tokenOp (eqOp ti) := by
  subst hlp; subst he
  simp only [csEq, eqOp]
  cases ent.eqNum <;> rfl

theorem eqOp_strict (ti : Bool) : Strict (eqOp ti) := by
  cases ti <;> simp [eqOp, Strict]

/-- one test of a clause: DUP, the case expression, the comparison with the tag. -/
theorem case_test {P : Prog} {C : Code} {cx : Ctx} {sc : Scopes} {env : Env} {fuel : Nat} {e : Expr} {nl : Nat} {σ : State}
    {tv v r : Val} {rs : List Val} {ti : Bool}
    (ihE : ExprFOK P C cx sc env fuel)
    (hp : Placed C σ.pc ([Item.ins .dup] ++ (compE cx sc e .val nl).1 ++ [.ins (tokenOp (eqOp ti))]))
    (hs : σ.stack = tv :: rs) (hev : evalE fuel P env e = .ok v) (hb : evalBin (eqOp ti) tv v = .ok r)
    (hrel : VarsRel cx sc env σ.locals σ.args) (hdep : σ.frames.length + fuel < 1024) :
    Reach C σ { σ with pc := σ.pc + 1 + (compE cx sc e .val nl).1.length + 1, stack := r :: tv :: rs } := by
  have h1 := run_data (C := C) (σ := σ) (op := .dup) (stk := tv :: tv :: rs) (loc := σ.locals) (ar := σ.args)
    hp.left.left.head rfl (by simp [stepData, hs])
  have h2 := ihE e .val nl { σ with pc := σ.pc + 1, stack := tv :: tv :: rs } v hev (by simpa using hp.left.right) hrel hdep
  simp only [Post] at h2
  have hd : isData (tokenOp (eqOp ti)) = true := by cases ti <;> rfl
  have h3 := run_data (C := C)
    (σ := { σ with pc := σ.pc + 1 + (compE cx sc e .val nl).1.length, stack := v :: tv :: tv :: rs })
    (op := tokenOp (eqOp ti)) (stk := r :: tv :: rs) (loc := σ.locals) (ar := σ.args)
    (by simpa [Nat.add_assoc, Nat.add_comm] using hp.right.head) hd (evalBin_token (eqOp_strict ti) hb _ _ _)
  exact h1.trans (h2.trans h3)

theorem casesOK_zero (P : Prog) (C : Code) (cx : Ctx) : CasesOK P C cx 0 := by
  intro cl lp ls st env σ ti tv out _ _ hex
  simp [execCases] at hex

set_option maxHeartbeats 1000000 in
theorem casesOK_succ (P : Prog) (C : Code) (cx : Ctx) (fuel : Nat) (hn : (labelsOf C).Nodup)
    (ihE : ∀ sc env, ExprFOK P C cx sc env fuel) (ihB : BodyOK P C cx fuel) (ihC : CasesOK P C cx fuel) :
    CasesOK P C cx (fuel + 1) := by
  intro cl lp ls st env σ ti tv out hal hsw hex hp hrel hwf hcnt hdep
  have hdep' : σ.frames.length + fuel < 1024 := by omega
  obtain ⟨ent, lp0, hlp, hisSw, heqn, hscl, hLend⟩ := hsw.ent
  obtain ⟨rs, hrs⟩ := hsw.tag
  simp only [execCases] at hex
  cases cl with
  | skip =>
    cases hex
    exact ⟨σ, Reach.refl _ _, by simp [compS], Same.refl _, hrel⟩
  | defaultS body =>
    simp only at hex
    exact ihB (.defaultS body) body .skip false lp ls st env σ σ.pc ti tv out (Or.inr ⟨rfl, rfl, rfl⟩) hal hsw hex hp
      (by simp [testsLen]) hrel hwf hcnt hdep'
  | caseS e1 e2 body ft rest =>
    have hal' : Allowed ls body ∧ AllowedCl ls rest := by simp only [AllowedCl] at hal; exact ⟨hal.1, hal.2.1⟩
    simp only at hex
    -- layout of the clause
    have hp' := hp
    have hLend' := hLend
    rw [compS_case] at hp' hLend'
    simp only at hp' hLend'
    have hEndL : csEndL lp = ent.endL := by rw [hlp]; rfl
    have hTlen : (compS cx lp (.caseS e1 e2 body ft rest) st).1.length =
        (csTests cx lp e1 e2 st).1.length + 1 + (compS cx lp body (csStB cx lp e1 e2 st)).1.length +
          (if ft then 1 else 0) + 2 + (compS cx lp rest (csStR cx lp e1 e2 body st)).1.length := by
      rw [compS_case]; cases ft <;> simp [Nat.add_assoc] <;> omega
    have hPT : Placed C σ.pc (csTests cx lp e1 e2 st).1 := hp'.left.left.left.left.left
    have hPl : Placed C (σ.pc + (csTests cx lp e1 e2 st).1.length) [Item.lbl st.sb] := hp'.left.left.left.left.right
    have hLsb : findLabel C st.sb = some (σ.pc + (csTests cx lp e1 e2 st).1.length) := hPl.label hn
    have hPe : Placed C (σ.pc + ((csTests cx lp e1 e2 st).1.length + 1 + (compS cx lp body (csStB cx lp e1 e2 st)).1.length +
        (if ft then 1 else 0)) + 1) [Item.lbl st.nl] := by
      have := hp'.left.right.tail
      refine this.cast ?_
      cases ft <;> simp [Nat.add_assoc] <;> omega
    have hLnl : findLabel C st.nl = some (σ.pc + ((csTests cx lp e1 e2 st).1.length + 1 + (compS cx lp body (csStB cx lp e1 e2 st)).1.length +
        (if ft then 1 else 0)) + 1) := hPe.label hn
    have hPr : Placed C (σ.pc + ((csTests cx lp e1 e2 st).1.length + 1 + (compS cx lp body (csStB cx lp e1 e2 st)).1.length +
        (if ft then 1 else 0)) + 2) (compS cx lp rest (csStR cx lp e1 e2 body st)).1 := by
      refine hp'.right.cast ?_
      cases ft <;> simp [Nat.add_assoc] <;> omega
    have hRsc : (csStR cx lp e1 e2 body st).scopes = st.scopes := csStR_scopes cx lp e1 e2 body st
    have hceq : csEq lp = tokenOp (eqOp ti) := csEq_token hlp heqn
    -- entering the body (after a successful test): the machine is at the start mark
    have hbody : ∀ τ : State, τ.pc = σ.pc + (csTests cx lp e1 e2 st).1.length → Same σ τ → τ.locals = σ.locals → τ.args = σ.args →
        Reach C σ τ → execBody fuel P env body ft rest = .ok out →
        StmtPostF cx C σ (σ.pc + (compS cx lp (.caseS e1 e2 body ft rest) st).1.length) st.scopes st.scopes lp out := by
      intro τ hτ hsτ hloc har hrτ hexb
      have hswτ : SwCtx C lp ls st τ ti tv (σ.pc + (compS cx lp (.caseS e1 e2 body ft rest) st).1.length) :=
        ⟨hsw.sig, ⟨ent, lp0, hlp, hisSw, heqn, hscl, hLend⟩, ⟨rs, by rw [hsτ.stack]; exact hrs⟩, hsw.noLabel,
          by rw [hsτ.stack]; exact hsw.stk, hsw.few, hsw.deep⟩
      have := ihB (.caseS e1 e2 body ft rest) body rest ft lp ls st env τ σ.pc ti tv out (Or.inl ⟨_, _, rfl⟩) hal hswτ hexb hp
        (by simp [testsLen, hτ]) (by rw [hloc, har]; exact hrel) hwf (by rw [hsτ.len]; exact hcnt) (by rw [hsτ.frames]; exact hdep')
      exact post_prefix hrτ hsτ this
    -- going on with the remaining clauses (after the last test failed): the machine is at the end-of-clause mark
    have hnext : ∀ τ : State, τ.pc = σ.pc + ((csTests cx lp e1 e2 st).1.length + 1 + (compS cx lp body (csStB cx lp e1 e2 st)).1.length +
          (if ft then 1 else 0)) + 1 → Same σ τ → τ.locals = σ.locals → τ.args = σ.args →
        Reach C σ τ → execCases fuel P env tv ti rest = .ok out →
        StmtPostF cx C σ (σ.pc + (compS cx lp (.caseS e1 e2 body ft rest) st).1.length) st.scopes st.scopes lp out := by
      intro τ hτ hsτ hloc har hrτ hexr
      have hl := skip_lbl (σ := τ) (hτ ▸ hPe)
      have hnlR : (csStR cx lp e1 e2 body st).nextLabel = none :=
        compS_noLabel cx body lp (csStB cx lp e1 e2 st) (allowed_labelsOK body ls hal'.1) (Or.inl hsw.noLabel)
      have hwfR : Wf (csStR cx lp e1 e2 body st) := by
        have := compS_wf cx (.block body) lp { st with nl := (csTests cx lp e1 e2 st).2 } (wf_nl hwf _)
        rw [compS_block] at this
        exact wf_mono this rfl (Nat.le_refl _)
      have hpcEq : τ.pc + 1 + (compS cx lp rest (csStR cx lp e1 e2 body st)).1.length =
          σ.pc + (compS cx lp (.caseS e1 e2 body ft rest) st).1.length := by rw [hτ, hTlen]; omega
      have hswR : SwCtx C lp ls (csStR cx lp e1 e2 body st) { τ with pc := τ.pc + 1 } ti tv
          (τ.pc + 1 + (compS cx lp rest (csStR cx lp e1 e2 body st)).1.length) :=
        ⟨hsw.sig, ⟨ent, lp0, hlp, hisSw, heqn, by rw [hRsc]; exact hscl, by rw [hpcEq]; exact hLend⟩,
          ⟨rs, by show τ.stack = _; rw [hsτ.stack]; exact hrs⟩, hnlR,
          by show _ ≤ τ.stack.length; rw [hsτ.stack]; exact hsw.stk, hsw.few, by rw [hRsc]; exact hsw.deep⟩
      have := ihC rest lp ls (csStR cx lp e1 e2 body st) env { τ with pc := τ.pc + 1 } ti tv out hal'.2 hswR hexr
        (by show Placed C (τ.pc + 1) _; rw [hτ]; exact hPr.cast (by omega))
        (by rw [hRsc]; show VarsRel cx st.scopes env τ.locals τ.args; rw [hloc, har]; exact hrel) hwfR
        (by show _ ≤ τ.locals.length; rw [hsτ.len]; rw [compS_case] at hcnt; exact hcnt)
        (by show τ.frames.length + fuel < 1024; rw [hsτ.frames]; exact hdep')
      rw [hRsc] at this
      have h2 := post_prefix (hrτ.trans hl) ⟨hsτ.stack, hsτ.frames, hsτ.inited, hsτ.len⟩ this
      have hpcEq' : ({ τ with pc := τ.pc + 1 } : State).pc + (compS cx lp rest (csStR cx lp e1 e2 body st)).1.length =
          σ.pc + (compS cx lp (.caseS e1 e2 body ft rest) st).1.length := hpcEq
      rw [hpcEq'] at h2
      exact h2
    cases hv1 : evalE fuel P env e1 with
    | ok v1 =>
      rw [hv1] at hex
      simp only at hex
      cases hb1 : evalBin (eqOp ti) tv v1 with
      | ok r1 =>
        rw [hb1] at hex
        cases r1 with
        | bool b1 =>
          cases e2 with
          | none =>
            -- DUP, e1, compare, JMPIFNOT end-of-clause
            have hT : (csTests cx lp e1 none st).1 =
                ([Item.ins .dup] ++ (compE cx st.scopes e1 .val (st.nl + 1)).1 ++ [.ins (tokenOp (eqOp ti))]) ++ [.ins (.jmpIfNot st.nl)] := by
              simp [csTests, hceq]
            rw [hT] at hPT
            generalize hl1 : (compE cx st.scopes e1 .val (st.nl + 1)).1.length = l1 at hPT
            have hTl : (csTests cx lp e1 none st).1.length = 1 + l1 + 1 + 1 := by rw [hT]; simp [hl1]; omega
            have htest := case_test (ihE st.scopes env) (σ := σ) hPT.left hrs hv1 hb1 hrel hdep'
            rw [hl1] at htest
            have hPj : Placed C (σ.pc + 1 + l1 + 1) [Item.ins (.jmpIfNot st.nl)] := hPT.right.cast (by simp [hl1]; omega)
            have hj := step_jmpIfNot (s := { σ with pc := σ.pc + 1 + l1 + 1, stack := .bool b1 :: tv :: rs }) (v := .bool b1) (r := tv :: rs)
              hPj.head hLnl rfl
            cases b1 with
            | true =>
              simp only at hex
              simp only [Val.toBool, if_true] at hj
              exact hbody { σ with pc := σ.pc + 1 + l1 + 1 + 1, stack := tv :: rs } (by simp [hTl]; omega) ⟨by simp [hrs], rfl, rfl, rfl⟩ rfl rfl
                (htest.trans (Reach.step hj)) hex
            | false =>
              simp only at hex
              simp only [Val.toBool, Bool.false_eq_true, if_false] at hj
              exact hnext { σ with pc := σ.pc + ((csTests cx lp e1 none st).1.length + 1 + (compS cx lp body (csStB cx lp e1 none st)).1.length +
                  (if ft then 1 else 0)) + 1, stack := tv :: rs } rfl ⟨by simp [hrs], rfl, rfl, rfl⟩ rfl rfl (htest.trans (Reach.step hj)) hex
          | some e2 =>
            -- DUP, e1, compare, JMPIF start; DUP, e2, compare, JMPIFNOT end-of-clause
            have hT : (csTests cx lp e1 (some e2) st).1 =
                (([Item.ins .dup] ++ (compE cx st.scopes e1 .val (st.nl + 1)).1 ++ [.ins (tokenOp (eqOp ti))]) ++ [.ins (.jmpIf st.sb)]) ++
                (([Item.ins .dup] ++ (compE cx st.scopes e2 .val (compE cx st.scopes e1 .val (st.nl + 1)).2).1 ++ [.ins (tokenOp (eqOp ti))]) ++
                  [.ins (.jmpIfNot st.nl)]) := by
              simp [csTests, hceq]
            rw [hT] at hPT
            generalize hl1 : (compE cx st.scopes e1 .val (st.nl + 1)).1.length = l1 at hPT
            generalize hl2 : (compE cx st.scopes e2 .val (compE cx st.scopes e1 .val (st.nl + 1)).2).1.length = l2 at hPT
            have hTl : (csTests cx lp e1 (some e2) st).1.length = (1 + l1 + 1 + 1) + (1 + l2 + 1 + 1) := by
              rw [hT]; simp [hl1, hl2]; omega
            have htest := case_test (ihE st.scopes env) (σ := σ) hPT.left.left hrs hv1 hb1 hrel hdep'
            rw [hl1] at htest
            have hPj : Placed C (σ.pc + 1 + l1 + 1) [Item.ins (.jmpIf st.sb)] := hPT.left.right.cast (by simp [hl1]; omega)
            have hj := step_jmpIf (s := { σ with pc := σ.pc + 1 + l1 + 1, stack := .bool b1 :: tv :: rs }) (v := .bool b1) (r := tv :: rs)
              hPj.head hLsb rfl
            cases b1 with
            | true =>
              simp only at hex
              simp only [Val.toBool, if_true] at hj
              exact hbody { σ with pc := σ.pc + (csTests cx lp e1 (some e2) st).1.length, stack := tv :: rs } rfl ⟨by simp [hrs], rfl, rfl, rfl⟩ rfl rfl
                (htest.trans (Reach.step hj)) hex
            | false =>
              simp only at hex
              simp only [Val.toBool, Bool.false_eq_true, if_false] at hj
              cases hv2 : evalE fuel P env e2 with
              | ok v2 =>
                rw [hv2] at hex
                simp only at hex
                cases hb2 : evalBin (eqOp ti) tv v2 with
                | ok r2 =>
                  rw [hb2] at hex
                  cases r2 with
                  | bool b2 =>
                    have hP2 : Placed C (σ.pc + 1 + l1 + 1 + 1)
                        (([Item.ins .dup] ++ (compE cx st.scopes e2 .val (compE cx st.scopes e1 .val (st.nl + 1)).2).1 ++ [.ins (tokenOp (eqOp ti))]) ++
                          [.ins (.jmpIfNot st.nl)]) := hPT.right.cast (by simp [hl1, Nat.add_assoc]; omega)
                    have htest2 := case_test (ihE st.scopes env)
                      (σ := { σ with pc := σ.pc + 1 + l1 + 1 + 1, stack := tv :: rs }) hP2.left rfl hv2 hb2 hrel hdep'
                    rw [hl2] at htest2
                    have hPj2 : Placed C (σ.pc + 1 + l1 + 1 + 1 + 1 + l2 + 1) [Item.ins (.jmpIfNot st.nl)] :=
                      hP2.right.cast (by simp [hl2]; omega)
                    have hj2 := step_jmpIfNot (s := { σ with pc := σ.pc + 1 + l1 + 1 + 1 + 1 + l2 + 1, stack := .bool b2 :: tv :: rs })
                      (v := .bool b2) (r := tv :: rs) hPj2.head hLnl rfl
                    have hpre := htest.trans ((Reach.step hj).trans (htest2.trans (Reach.step hj2)))
                    cases b2 with
                    | true =>
                      simp only at hex
                      simp only [Val.toBool, if_true] at hj2 hpre
                      exact hbody { σ with pc := σ.pc + 1 + l1 + 1 + 1 + 1 + l2 + 1 + 1, stack := tv :: rs } (by simp [hTl]; omega)
                        ⟨by simp [hrs], rfl, rfl, rfl⟩ rfl rfl hpre hex
                    | false =>
                      simp only at hex
                      simp only [Val.toBool, Bool.false_eq_true, if_false] at hj2 hpre
                      exact hnext { σ with pc := σ.pc + ((csTests cx lp e1 (some e2) st).1.length + 1 + (compS cx lp body (csStB cx lp e1 (some e2) st)).1.length +
                          (if ft then 1 else 0)) + 1, stack := tv :: rs } rfl ⟨by simp [hrs], rfl, rfl, rfl⟩ rfl rfl hpre hex
                  | int n => simp at hex
                  | null => simp at hex
                | panic => rw [hb2] at hex; simp at hex
                | overflow => rw [hb2] at hex; simp at hex
                | stuck => rw [hb2] at hex; simp at hex
                | timeout => rw [hb2] at hex; simp at hex
              | panic => rw [hv2] at hex; simp at hex
              | overflow => rw [hv2] at hex; simp at hex
              | stuck => rw [hv2] at hex; simp at hex
              | timeout => rw [hv2] at hex; simp at hex
        | int n => simp at hex
        | null => simp at hex
      | panic => rw [hb1] at hex; simp at hex
      | overflow => rw [hb1] at hex; simp at hex
      | stuck => rw [hb1] at hex; simp at hex
      | timeout => rw [hb1] at hex; simp at hex
    | panic => rw [hv1] at hex; simp at hex
    | overflow => rw [hv1] at hex; simp at hex
    | stuck => rw [hv1] at hex; simp at hex
    | timeout => rw [hv1] at hex; simp at hex
  | _ => simp [AllowedCl] at hal

theorem findBrk_acc (l : Option String) (lp : LoopCtx) (acc : Nat) :
    findBrk l lp (acc + 1) = (findBrk l lp acc).map (fun p => (p.1 + 1, p.2)) := by
  induction lp generalizing acc with
  | nil => rfl
  | cons a r ih =>
    have h : acc + 1 + a.sz = (acc + a.sz) + 1 := by omega
    cases l with
    | none => simp [findBrk]
    | some x =>
      simp only [findBrk]
      by_cases hc : (a.name == some x) = true
      · simp [hc]
      · simp [hc, h, ih]

theorem findCont_acc (l : Option String) (lp : LoopCtx) (acc : Nat) :
    findCont l lp (acc + 1) = (findCont l lp acc).map (fun p => (p.1 + 1, p.2)) := by
  induction lp generalizing acc with
  | nil => rfl
  | cons a r ih =>
    have h : acc + 1 + a.sz = (acc + a.sz) + 1 := by omega
    cases l with
    | none =>
      simp only [findCont]
      by_cases hc : a.isFor = true
      · simp [hc]
      · simp [hc, h, ih]
    | some x =>
      simp only [findCont]
      by_cases hc : (a.name == some x) = true
      · simp [hc]
      · simp [hc, h, ih]

theorem switchOK_zero (P : Prog) (C : Code) (cx : Ctx) : SwitchOK P C cx 0 := by
  intro tag ti cl lp ls st env σ out _ _ _ _ _ hex
  simp [execSwitch] at hex

set_option maxHeartbeats 1000000 in
theorem switchOK_succ (P : Prog) (C : Code) (cx : Ctx) (fuel : Nat) (hn : (labelsOf C).Nodup)
    (ihE : ∀ sc env, ExprFOK P C cx sc env fuel) (ihC : CasesOK P C cx fuel) : SwitchOK P C cx (fuel + 1) := by
  intro tag ti cl lp ls st env σ out hsw3 hal hls hstk hdeep hex hp hrel hwf hcnt hdep
  have hch : IsChain cl := allowedCl_chain cl _ hal
  have hdep' : σ.frames.length + fuel < 1024 := by omega
  simp only [execSwitch] at hex
  rw [compS_switch] at hp hcnt ⊢
  simp only at hp hcnt ⊢
  generalize hT : (swTag cx tag st).1 = T at hp
  generalize hcc : (compS cx (swEnt cx tag ti st :: lp) cl (swSt1 cx tag cl st)).1 = cc at hp
  have hPT : Placed C σ.pc T := hp.left.left
  have hPc : Placed C (σ.pc + T.length) cc := hp.left.right
  have hPe : Placed C (σ.pc + T.length + cc.length) [Item.lbl (swTag cx tag st).2, Item.ins .drop] := hp.right.cast (by simp [Nat.add_assoc])
  have hLend : findLabel C (swTag cx tag st).2 = some (σ.pc + T.length + cc.length) := hPe.label hn
  have hfew : totalSz lp + 1 ≤ 3 := by rw [totalSz_sig, hls]; omega
  have hsc1 : (compS cx (swEnt cx tag ti st :: lp) cl (swSt1 cx tag cl st)).2.scopes = [] :: st.scopes := by
    rw [chain_scopes cx cl _ _ hch]; rfl
  have hszE : totalSz (swEnt cx tag ti st :: lp) = totalSz lp + 1 := by simp [totalSz, swEnt, LEntry.sz]; omega
  -- the clause chain, once the tag `tv` is on the stack
  have hrun : ∀ (tv : Val) (σ1 : State), Reach C σ σ1 → σ1.pc = σ.pc + T.length → σ1.stack = tv :: σ.stack → σ1.frames = σ.frames →
      σ1.inited = σ.inited → σ1.locals = σ.locals → σ1.args = σ.args →
      (match execCases fuel P env.push tv ti cl with
        | .ok (.norm e') => .ok (.norm e'.pop)
        | .ok (.brk l e') => if mine l st.nextLabel then .ok (.norm e'.pop) else .ok (.brk l e'.pop)
        | .ok (.cont l e') => .ok (.cont l e'.pop)
        | r => r) = Res.ok out →
      StmtPostF cx C σ (σ.pc + (T ++ cc ++ [Item.lbl (swTag cx tag st).2, Item.ins .drop]).length) st.scopes st.scopes lp out := by
    intro tv σ1 hr1 hpc1 hst1 hfr1 hin1 hloc1 har1 heq
    have hswc : SwCtx C (swEnt cx tag ti st :: lp) ((st.nextLabel, false) :: ls) (swSt1 cx tag cl st) σ1 ti tv
        (σ1.pc + (compS cx (swEnt cx tag ti st :: lp) cl (swSt1 cx tag cl st)).1.length) := by
      refine ⟨by simp [sigOf, swEnt, ← hls], ⟨swEnt cx tag ti st, lp, rfl, rfl, rfl, by simp [swEnt], ?_⟩, ⟨σ.stack, hst1⟩, rfl,
        by rw [hszE, hst1]; simp; exact hstk, by rw [hszE]; exact hfew, ?_⟩
      · rw [hcc, hpc1]; exact hLend
      · intro e he
        rcases List.mem_cons.mp he with rfl | he
        · simp [swEnt]
        · simp only [swSt1_scopes, List.length_cons]; exact Nat.le_succ_of_le (hdeep e he)
    -- after the end mark: DROP
    have hfin : ∀ σ2 : State, σ2.pc = σ.pc + T.length + cc.length → σ2.stack = tv :: σ.stack →
        Reach C σ2 { σ2 with pc := σ.pc + (T ++ cc ++ [Item.lbl (swTag cx tag st).2, Item.ins .drop]).length, stack := σ.stack } := by
      intro σ2 hpc2 hst2
      have h1 := skip_lbl (σ := σ2) (hpc2 ▸ hPe)
      have h2 := run_data (C := C) (σ := { σ2 with pc := σ2.pc + 1 }) (op := .drop) (stk := σ.stack) (loc := σ2.locals) (ar := σ2.args)
        (by show C[σ2.pc + 1]? = _; rw [hpc2]; exact hPe.tail.head) rfl (by simp [stepData, hst2])
      refine h1.trans (h2.trans ?_)
      have : σ2.pc + 1 + 1 = σ.pc + (T ++ cc ++ [Item.lbl (swTag cx tag st).2, Item.ins .drop]).length := by rw [hpc2]; simp; omega
      simp only [this]
      exact Reach.refl _ _
    cases hc : execCases fuel P env.push tv ti cl with
    | ok oc =>
      rw [hc] at heq
      have hpostC := ihC cl (swEnt cx tag ti st :: lp) ((st.nextLabel, false) :: ls) (swSt1 cx tag cl st) env.push σ1 ti tv oc hal hswc hc
        (by rw [hcc, hpc1]; exact hPc) (by rw [hloc1, har1]; exact varsRel_push hrel) (wf_mono (wf_push hwf) rfl (Nat.le_refl _))
        (by rw [hloc1]; simpa using hcnt) (by rw [hfr1]; exact hdep')
      rw [hcc] at hpostC
      cases oc with
      | norm e' =>
        simp only at heq
        cases heq
        obtain ⟨σ2, hr2, hpc2, hs2, hrel2⟩ := hpostC
        have h3 := hfin σ2 (by rw [hpc2, hpc1]) (by rw [hs2.stack, hst1])
        refine ⟨_, hr1.trans (hr2.trans h3), rfl, ⟨rfl, by show σ2.frames = _; rw [hs2.frames, hfr1],
          by show σ2.inited = _; rw [hs2.inited, hin1], by show σ2.locals.length = _; rw [hs2.len, hloc1]⟩, ?_⟩
        exact varsRel_pop hrel2
      | ret v =>
        simp only at heq
        cases heq
        obtain ⟨σ2, hr2, h2, h3, h4⟩ := hpostC
        refine ⟨σ2, hr1.trans hr2, h2, ?_, by rw [h4, hfr1]⟩
        rw [h3, hszE, hst1]; simp
      | brk l e' =>
        simp only at heq
        obtain ⟨dr, en, hfb, hh⟩ := hpostC
        rw [findBrk_cons l (swEnt cx tag ti st) lp 0] at hfb
        have hname : (swEnt cx tag ti st).name = st.nextLabel := rfl
        rw [hname] at hfb
        by_cases hm : mine l st.nextLabel = true
        · -- the break concerns this switch: the end mark, with the tag still on the stack
          rw [if_pos hm] at heq hfb
          cases hfb
          cases heq
          obtain ⟨σ2, hr2, hpc2, hs2, hrel2⟩ := hh _ hLend
          have h3 := hfin σ2 hpc2 (by rw [hs2.stack, hst1]; simp)
          refine ⟨_, hr1.trans (hr2.trans h3), rfl, ⟨rfl, by show σ2.frames = _; rw [hs2.frames, hfr1],
            by show σ2.inited = _; rw [hs2.inited, hin1], by show σ2.locals.length = _; rw [hs2.len, hloc1]⟩, ?_⟩
          have h0 : (swSt1 cx tag cl st).scopes.length - (swEnt cx tag ti st).scLen = 0 := by simp [swEnt]
          rw [h0] at hrel2
          have := varsRel_pop (by simpa [dropEnv] using hrel2 : VarsRel cx ([] :: st.scopes) e' σ2.locals σ2.args)
          simpa using this
        · -- it concerns an enclosing statement: the tag has been dropped on the way
          rw [if_neg hm] at heq hfb
          cases heq
          have hsz1 : (swEnt cx tag ti st).sz = 1 := by simp [swEnt, LEntry.sz]
          rw [hsz1, Nat.zero_add, findBrk_acc l lp 0] at hfb
          cases hf0 : findBrk l lp 0 with
          | none => rw [hf0] at hfb; simp at hfb
          | some p0 =>
            rw [hf0] at hfb
            simp only [Option.map_some, Option.some.injEq, Prod.mk.injEq] at hfb
            obtain ⟨hdr, hen⟩ := hfb
            subst hen
            have hpost1 : StmtPostF cx C σ 0 st.scopes ([] :: st.scopes) lp (.brk l e') := by
              refine ⟨p0.1, p0.2, hf0, fun bp hb => ?_⟩
              obtain ⟨σ2, hr2, hpc2, hs2, hrel2⟩ := hh bp hb
              refine ⟨σ2, hr1.trans hr2, hpc2, ⟨by rw [hs2.stack, hst1, ← hdr]; simp, by rw [hs2.frames, hfr1], by rw [hs2.inited, hin1],
                by rw [hs2.len, hloc1]⟩, ?_⟩
              simpa using hrel2
            exact (post_pop hdeep).1 hpost1
      | cont l e' =>
        simp only at heq
        cases heq
        obtain ⟨dr, en, hfc, hfor, hh⟩ := hpostC
        have hfc' : findCont l lp 1 = some (dr, en) := by
          cases l with
          | none => simpa [findCont, swEnt, LEntry.sz] using hfc
          | some x =>
            simp only [findCont] at hfc
            by_cases hc' : ((swEnt cx tag ti st).name == some x) = true
            · rw [if_pos hc'] at hfc
              cases hfc
              simp [swEnt] at hfor
            · rw [if_neg hc'] at hfc
              simpa [swEnt, LEntry.sz] using hfc
        rw [show (1 : Nat) = 0 + 1 from rfl, findCont_acc l lp 0] at hfc'
        cases hf0 : findCont l lp 0 with
        | none => rw [hf0] at hfc'; simp at hfc'
        | some p0 =>
          rw [hf0] at hfc'
          simp only [Option.map_some, Option.some.injEq, Prod.mk.injEq] at hfc'
          obtain ⟨hdr, hen⟩ := hfc'
          subst hen
          have hpost1 : StmtPostF cx C σ 0 st.scopes ([] :: st.scopes) lp (.cont l e') := by
            refine ⟨p0.1, p0.2, hf0, hfor, fun bp hb => ?_⟩
            obtain ⟨σ2, hr2, hpc2, hs2, hrel2⟩ := hh bp hb
            refine ⟨σ2, hr1.trans hr2, hpc2, ⟨by rw [hs2.stack, hst1, ← hdr]; simp, by rw [hs2.frames, hfr1], by rw [hs2.inited, hin1],
              by rw [hs2.len, hloc1]⟩, ?_⟩
            simpa using hrel2
          exact (post_pop hdeep).2 hpost1
    | panic => rw [hc] at heq; simp at heq
    | overflow => rw [hc] at heq; simp at heq
    | stuck => rw [hc] at heq; simp at heq
    | timeout => rw [hc] at heq; simp at heq
  have hscF : ({ (compS cx (swEnt cx tag ti st :: lp) cl (swSt1 cx tag cl st)).2.pop with sb := st.sb } : St).scopes = st.scopes := by
    simp [hsc1]
  rw [hscF]
  cases tag with
  | none =>
    simp only at hex
    have hTn : T = [Item.ins .pushT] := by rw [← hT]; rfl
    subst hTn
    have h1 := run_data (C := C) (σ := σ) (op := .pushT) (stk := .bool true :: σ.stack) (loc := σ.locals) (ar := σ.args)
      hPT.head rfl (by simp [stepData])
    exact hrun (.bool true) _ h1 (by simp) rfl rfl rfl rfl rfl hex
  | some e =>
    simp only at hex
    cases hv : evalE fuel P env.push e with
    | ok tv =>
      rw [hv] at hex
      simp only at hex
      have hTs : T = (compE cx st.push.scopes e .val st.nl).1 := by rw [← hT]; rfl
      have h1 := (ihE st.push.scopes env.push) e .val st.nl σ tv hv (by rw [← hTs]; exact hPT) (varsRel_push hrel) hdep'
      simp only [Post] at h1
      rw [← hTs] at h1
      exact hrun tv _ h1 rfl rfl rfl rfl rfl rfl hex
    | panic => rw [hv] at hex; simp at hex
    | overflow => rw [hv] at hex; simp at hex
    | stuck => rw [hv] at hex; simp at hex
    | timeout => rw [hv] at hex; simp at hex

end NeoModel.CompileProofs
