/-
Helper lemma for C18 / fixedn: `pow10` as written (table below 17, fresh product above) is 10^n for every n.
-/
import NeoModel.Model.Codec.Pow10
import NeoModel.Generated.CodecConsts
namespace NeoModel.Codec

theorem pow10M_eq (n : Nat) : pow10M n = (10 : Int) ^ n := by
  unfold pow10M
  have hlen : pow10Table.length = 17 := by decide
  have h1 : pow10Table.getD 1 0 = 10 := by decide
  have h16 : pow10Table.getD 16 0 = (10 : Int) ^ 16 := by decide
  simp only [hlen, Nat.add_one_sub_one, h1, h16]
  by_cases c : n ≤ 16
  · simp only [c, if_true]
    have : ∀ k : Fin 17, pow10Table.getD k.val 0 = (10 : Int) ^ k.val := by decide
    exact this ⟨n, by omega⟩
  · simp only [c, if_false]
    have key : ∀ (m : Nat) (a : Int), (List.range m).foldl (fun p _ => p * 10) a = a * (10 : Int) ^ m := by
      intro m
      induction m with
      | zero => intro a; simp
      | succ k ih =>
        intro a
        rw [List.range_succ, List.foldl_append, ih]
        simp [Int.pow_succ, Int.mul_assoc]
    rw [key]
    have : n = 16 + 1 + (n - 17) := by omega
    conv => rhs; rw [this, Int.pow_add, Int.pow_succ]


/-- the table size of the model is the code's `maxAllowedPrecision` (regenerated constant). -/
theorem pow10_table_size : NeoModel.Generated.CodecConsts.fixedn_maxAllowedPrecision = maxAllowedPrecision ∧
    pow10Table.length = maxAllowedPrecision + 1 := by decide

end NeoModel.Codec
