/-
C13 — CONVERT round trips between Integer / ByteString / Buffer / Boolean, and NUMEQUAL versus EQUAL.
-/
import NeoModel.Proofs.VmSpecConv
open NeoModel NeoModel.Vm
namespace NeoModel.Vm.Spec

/-! ### heap: a new object gets the next id and does not disturb the others -/

theorem getBuf_alloc (h : Heap) (b : Bytes) : (h.alloc (.buf b)).1.getBuf h.size = some b := by
  simp [Heap.alloc, Heap.getBuf]

theorem get_alloc_old (h : Heap) (o : HeapObj) (id : Nat) (hid : id < h.size) :
    (h.alloc o).1[id]? = h[id]? := by
  simp [Heap.alloc, Array.getElem?_push, Nat.ne_of_lt hid]

/-! ### CONVERT -/

/-- converting an item to its own type returns the very same item and heap (no copy); the one exception is
Null → Any, which FAULTs. -/
theorem convert_same_type (h : Heap) (x : Item) (hx : x ≠ .null) :
    convert h x x.typeByte = some (h, x) := by
  cases x <;> simp [convert, Item.typeByte, tBoolean, tBuffer, tArray, tStruct, tMap, tPointer, tInterop,
    tByteString, tInteger] at hx ⊢

theorem convert_null (h : Heap) (t : UInt8) :
    convert h .null t = if t == tAny || !typeValid t then none else some (h, .null) := rfl

/-- **convert_int_buffer_int.** Integer → Buffer → Integer gives the Integer back (the Buffer holds the
canonical encoding; the heap grows by that one Buffer). -/
theorem convert_int_buffer_int (n : Int256) (h : Heap) :
    convert h (.int n) tBuffer = some (h.push (.buf (toBytes n.val)), .buffer h.size) ∧
    convert (h.push (.buf (toBytes n.val))) (.buffer h.size) tInteger =
      some (h.push (.buf (toBytes n.val)), .int n) := by
  have hl := toBytes_length n.val n.property
  have hc : checkInt n.val = some n := checkInt_of_inRange n.val n.property
  constructor
  · simp [convert, Item.typeByte, tInteger, tByteString, tBuffer, Item.toBytes, Heap.alloc]
  · simp [convert, tBoolean, tInteger, tByteString, tBuffer, Heap.getBuf, maxIntBytes, fromBytes_toBytes, hc,
      show ¬ 32 < (toBytes n.val).length from by omega]

/-- **convert_bytes_int_bytes.** ByteString → Integer is defined iff the string has at most 32 bytes (it
then reads as `fromBytes b`, always in range); converting back gives the canonical encoding
`toBytes (fromBytes b)` — the identity exactly on canonical strings (`toBytes_canonical`). -/
theorem convert_bytes_int_bytes (b : Bytes) (h : Heap) :
    (b.length > 32 → convert h (.bytes b) tInteger = none) ∧
    (∀ hb : b.length ≤ 32,
      convert h (.bytes b) tInteger = some (h, .int ⟨fromBytes b, fromBytes_inRange b hb⟩) ∧
      convert h (.int ⟨fromBytes b, fromBytes_inRange b hb⟩) tByteString = some (h, .bytes (toBytes (fromBytes b)))) := by
  constructor
  · intro hb
    simp [convert, Item.typeByte, tInteger, tByteString, Item.toInteger, maxIntBytes, hb]
  · intro hb
    have hc := checkInt_of_inRange _ (fromBytes_inRange b hb)
    constructor
    · simp [convert, Item.typeByte, tInteger, tByteString, Item.toInteger, maxIntBytes,
        show ¬ 32 < b.length from by omega, hc]
    · simp [convert, Item.typeByte, tInteger, tByteString, Item.toBytes]

/-- **convert_bytes_buffer.** ByteString → Buffer → ByteString is the identity on the contents (any
length); Buffer → ByteString → Buffer makes a NEW Buffer (next heap id) with the same contents and leaves
the old one alone. -/
theorem convert_bytes_buffer (b : Bytes) (h : Heap) :
    convert h (.bytes b) tBuffer = some (h.push (.buf b), .buffer h.size) ∧
    convert (h.push (.buf b)) (.buffer h.size) tByteString = some (h.push (.buf b), .bytes b) := by
  constructor
  · simp [convert, Item.typeByte, tInteger, tByteString, tBuffer, Item.toBytes, Heap.alloc]
  · simp [convert, tBoolean, tByteString, tBuffer, Heap.getBuf]

theorem convert_buffer_bytes_buffer (id : Nat) (b : Bytes) (h : Heap) (hb : h.getBuf id = some b) :
    convert h (.buffer id) tByteString = some (h, .bytes b) ∧
    convert h (.bytes b) tBuffer = some (h.push (.buf b), .buffer h.size) ∧
    Heap.getBuf (h.push (.buf b)) h.size = some b ∧ Heap.getBuf (h.push (.buf b)) id = some b ∧ id ≠ h.size := by
  have hid : id < h.size := by
    unfold Heap.getBuf at hb
    rcases Nat.lt_or_ge id h.size with hl | hl
    · exact hl
    · simp [Array.getElem?_eq_none hl] at hb
  refine ⟨?_, (convert_bytes_buffer b h).1, ?_, ?_, Nat.ne_of_lt hid⟩
  · simp [convert, tBoolean, tByteString, tBuffer, hb]
  · simp [Heap.getBuf]
  · unfold Heap.getBuf at hb ⊢
    rw [Array.getElem?_push, if_neg (Nat.ne_of_lt hid)]
    exact hb

/-- **convert_bool_int.** Boolean → Integer → Boolean is the identity (true ↦ 1, false ↦ 0); Integer →
Boolean → Integer is `if n = 0 then 0 else 1`; Boolean → ByteString → Boolean is the identity (true ↦ 01,
false ↦ 00). -/
theorem convert_bool_int (p : Bool) (n : Int256) (h : Heap) :
    convert h (.bool p) tInteger = some (h, .int ⟨if p then 1 else 0, by cases p <;> decide⟩) ∧
    convert h (.int ⟨if p then 1 else 0, by cases p <;> decide⟩) tBoolean = some (h, .bool p) ∧
    convert h (.int n) tBoolean = some (h, .bool (n.val != 0)) ∧
    convert h (.bool (n.val != 0)) tInteger =
      some (h, .int ⟨if n.val = 0 then 0 else 1, by split <;> decide⟩) ∧
    convert h (.bool p) tByteString = some (h, .bytes [if p then 1 else 0]) ∧
    convert h (.bytes [if p then 1 else 0]) tBoolean = some (h, .bool p) := by
  have hc1 : checkInt (if p then 1 else 0) = some ⟨if p then 1 else 0, by cases p <;> decide⟩ :=
    checkInt_of_inRange _ _
  have hc2 : checkInt (if n.val = 0 then 0 else 1) = some ⟨if n.val = 0 then 0 else 1, by split <;> decide⟩ :=
    checkInt_of_inRange _ _
  refine ⟨?_, ?_, ?_, ?_, ?_, ?_⟩
  · simp [convert, Item.typeByte, tBoolean, tInteger, Item.toInteger, hc1]
  · cases p <;> simp [convert, Item.typeByte, tBoolean, tInteger, tByteString, tBuffer, Item.toBool]
  · simp [convert, Item.typeByte, tBoolean, tInteger, tByteString, tBuffer, Item.toBool]
  · simp [convert, Item.typeByte, tBoolean, tInteger, Item.toInteger, hc2]
  · simp [convert, Item.typeByte, tBoolean, tInteger, tByteString, Item.toBytes]
  · cases p <;> simp [convert, Item.typeByte, tBoolean, tInteger, tByteString, tBuffer, Item.toBool, maxIntBytes]

/-- ByteString → Boolean → ByteString collapses the string to 01 / 00 by its to-boolean value. -/
theorem convert_bytes_bool_bytes (b : Bytes) (h : Heap) (hb : b.length ≤ 32) :
    convert h (.bytes b) tBoolean = some (h, .bool (fromBytes b != 0)) ∧
    convert h (.bool (fromBytes b != 0)) tByteString = some (h, .bytes [if (fromBytes b != 0) then 1 else 0]) := by
  constructor
  · have := (toBool_spec).2.2.2.1 b hb
    simp [convert, Item.typeByte, tBoolean, tInteger, tByteString, tBuffer, this]
  · exact (convert_bool_int _ ⟨0, by decide⟩ h).2.2.2.2.1

/-- **convert_compound.** Array → Struct (and Struct → Array) makes a NEW object with the same item list
(shallow copy: the elements are shared); every compound / Buffer / Pointer / InteropInterface converts to
Boolean `true`; Map, Pointer, InteropInterface convert to nothing else but their own type. -/
theorem convert_compound (id : Nat) (xs : List Item) (h : Heap) (hx : h.getItems id = some xs) :
    convert h (.array id) tStruct = some (h.push (.items xs), .struct h.size) ∧
    convert h (.struct id) tArray = some (h.push (.items xs), .array h.size) ∧
    convert h (.array id) tBoolean = some (h, .bool true) ∧ convert h (.struct id) tBoolean = some (h, .bool true) ∧
    convert h (.map id) tBoolean = some (h, .bool true) ∧ convert h (.buffer id) tBoolean = some (h, .bool true) ∧
    convert h (.interop id) tBoolean = some (h, .bool true) ∧
    (∀ t, t ≠ tMap → t ≠ tBoolean → convert h (.map id) t = none) ∧
    (∀ t, t ≠ tInterop → t ≠ tBoolean → convert h (.interop id) t = none) ∧
    (∀ t, t ≠ tArray → t ≠ tStruct → t ≠ tBoolean → convert h (.array id) t = none) := by
  refine ⟨?_, ?_, ?_, ?_, ?_, ?_, ?_, ?_, ?_, ?_⟩
  · simp [convert, tArray, tStruct, hx, Heap.alloc]
  · simp [convert, tArray, tStruct, hx, Heap.alloc]
  · simp [convert, tArray, tStruct, tBoolean]
  · simp [convert, tArray, tStruct, tBoolean]
  · simp [convert, tMap, tBoolean]
  · simp [convert, tBoolean]
  · simp [convert, tInterop, tBoolean]
  · intro t h1 h2; simp [convert, h1, h2]
  · intro t h1 h2; simp [convert, h1, h2]
  · intro t h1 h2 h3; simp [convert, h1, h2, h3]

example : (convert #[] (.bytes [0x01, 0x00]) tInteger).bind (fun r => convert r.1 r.2 tByteString) =
    some (#[], .bytes [0x01]) := by decide +kernel

/-! ### EQUAL on primitives, NUMEQUAL versus EQUAL -/

/-- **equal_prim_spec.** EQUAL on Integer / Boolean / ByteString (≤ 65536 bytes) operands: true iff the
operands have the same type and the same value; values of different types are never equal (Integer 1,
Boolean true and ByteString 01 are pairwise different). -/
theorem equal_prim_spec (h : Heap) (m n : Int256) (p q : Bool) (x y : Bytes)
    (hx : x.length ≤ maxComparableSize) (hy : y.length ≤ maxComparableSize) :
    itemEquals h (.int m) (.int n) = some (decide (m.val = n.val)) ∧
    itemEquals h (.bool p) (.bool q) = some (decide (p = q)) ∧
    itemEquals h (.bytes x) (.bytes y) = some (decide (x = y)) ∧
    itemEquals h (.int m) (.bool p) = some false ∧ itemEquals h (.bool p) (.int m) = some false ∧
    itemEquals h (.int m) (.bytes y) = some false ∧ itemEquals h (.bytes x) (.int m) = some false ∧
    itemEquals h (.bool p) (.bytes y) = some false ∧ itemEquals h (.bytes x) (.bool p) = some false := by
  have hx' : ¬ (x.length > maxComparableSize ∨ maxComparableSize = 0) := by
    simp [maxComparableSize] at hx ⊢; omega
  have hy' : ¬ y.length > maxComparableSize := by omega
  refine ⟨?_, ?_, ?_, rfl, rfl, rfl, ?_, rfl, ?_⟩
  · simp only [itemEquals, simpleEquals]
    congr 1
  · simp only [itemEquals, simpleEquals]
    congr 1
  · simp only [itemEquals, bytesEqualsLimited, hx', hy', if_false, Option.map]
    congr 1; rw [Bool.eq_iff_iff]; simp
  · simp [itemEquals, bytesEqualsLimited, hx']
  · simp [itemEquals, bytesEqualsLimited, hx']

theorem equal_exec (a b : Item) (r : Bool) (h : Heap) (st : List Item) (hr : itemEquals h a b = some r) :
    execPure .equal [] (b :: a :: st) h = .ok (.next (.bool r :: st) h) ∧
    execPure .notEqual [] (b :: a :: st) h = .ok (.next (.bool (!r) :: st) h) := by
  constructor
  · simp [execPure, popE, hr, optE, bind, Except.bind, next1]
  · have : (Op.notEqual == Op.equal) = false := by decide
    simp [execPure, popE, hr, optE, bind, Except.bind, next1, this]

/-- **numequal_vs_equal.** NUMEQUAL compares the integer values of the operands. (i) On two Integers, or
two Booleans, EQUAL and NUMEQUAL agree. (ii) On two ByteStrings of at most 32 bytes EQUAL implies
NUMEQUAL; the converse holds iff the two strings have the same length (e.g. both canonical) — 01 and
0100 are NUMEQUAL but not EQUAL. (iii) On operands of different primitive types EQUAL is false whatever
NUMEQUAL says (Integer 1 / Boolean true / ByteString 01 are NUMEQUAL). -/
theorem numequal_vs_equal (h : Heap) (m n : Int256) (p q : Bool) (x y : Bytes)
    (hx : x.length ≤ 32) (hy : y.length ≤ 32) :
    (itemEquals h (.int m) (.int n) = some (m.val == n.val)) ∧
    (itemEquals h (.bool p) (.bool q) = some ((if p then (1:Int) else 0) == (if q then 1 else 0))) ∧
    (itemEquals h (.bytes x) (.bytes y) = some true → (fromBytes x == fromBytes y) = true) ∧
    (x.length = y.length → itemEquals h (.bytes x) (.bytes y) = some (fromBytes x == fromBytes y)) := by
  have hx' : x.length ≤ maxComparableSize := by simp [maxComparableSize]; omega
  have hy' : y.length ≤ maxComparableSize := by simp [maxComparableSize]; omega
  obtain ⟨h1, h2, h3, _⟩ := equal_prim_spec h m n p q x y hx' hy'
  refine ⟨?_, ?_, ?_, ?_⟩
  · rw [h1]; congr 1
  · rw [h2]; cases p <;> cases q <;> decide
  · rw [h3]; intro he; simp at he; simp [he]
  · intro hl
    rw [h3]
    congr 1
    rw [Bool.eq_iff_iff]
    simp only [decide_eq_true_eq, beq_iff_eq]
    exact ⟨fun he => by rw [he], fun he => fromBytes_inj_len x y hl he⟩

example : itemEquals #[] (.bytes [1]) (.bytes [1, 0]) = some false ∧
    execPure .numEqual [] [.bytes [1, 0], .bytes [1]] #[] = .ok (.next [.bool true] #[]) ∧
    execPure .numEqual [] [.bool true, .bytes [1]] #[] = .ok (.next [.bool true] #[]) ∧
    itemEquals #[] (.bool true) (.bytes [1]) = some false := by decide +kernel

/-- **equal_buffer_identity.** EQUAL on two Buffers (and on Arrays, Maps, InteropInterfaces) compares
identity, not contents; a ByteString and a Buffer are never EQUAL, whatever they hold. -/
theorem equal_buffer_identity (h : Heap) (i j : Nat) (x : Bytes) (hx : x.length ≤ maxComparableSize) :
    itemEquals h (.buffer i) (.buffer j) = some (decide (i = j)) ∧
    itemEquals h (.array i) (.array j) = some (decide (i = j)) ∧
    itemEquals h (.map i) (.map j) = some (decide (i = j)) ∧
    itemEquals h (.bytes x) (.buffer j) = some false ∧ itemEquals h (.buffer j) (.bytes x) = some false := by
  have hx' : ¬ (x.length > maxComparableSize ∨ maxComparableSize = 0) := by
    simp [maxComparableSize] at hx ⊢; omega
  refine ⟨?_, ?_, ?_, ?_, rfl⟩
  · simp only [itemEquals, simpleEquals]; congr 1
  · simp only [itemEquals, simpleEquals]; congr 1
  · simp only [itemEquals, simpleEquals]; congr 1
  · simp [itemEquals, bytesEqualsLimited, hx']

example : itemEquals #[.buf [1], .buf [1]] (.buffer 0) (.buffer 1) = some false := by decide +kernel

end NeoModel.Vm.Spec
