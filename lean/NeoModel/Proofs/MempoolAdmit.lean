/-
C08 helper: which well-formedness hypotheses the caller of `Pool.Add` establishes. `Blockchain.verifyAndPoolTx` runs
`verifyTxAttributes` before `pool.Add` (order: theorem `pool_add_after_attributes` over the translated function);
its ConflictsT case (blockchain.go:3160-3172, pinned by the step table `Generated.MempoolAdd.conflictsAttrSteps`)
rejects a transaction that repeats a Conflicts hash. With that check in front of `add`, the hypothesis
`WF.confNodup` is a fact of the model; what remains of `WF` is `HashLike` - the id determines the transaction and
two transactions cannot name each other - i.e. properties of the hash function.
-/
import NeoModel.Proofs.MempoolRun
namespace NeoModel.Mempool

/-- blockchain.go:3165-3172, the inner loop for the attribute with hash `h`: `none` = "duplicate Conflicts attribute" -/
def dupScan (h : Nat) : List Nat → Bool → Option Bool
  | [], dup => some dup
  | c :: cs, dup => if c = h then (if dup then none else dupScan h cs true) else dupScan h cs dup

/-- the ConflictsT case for every Conflicts attribute of the transaction (outer loop, blockchain.go:3103) -/
def conflictsAttrsOk (cs : List Nat) : Bool := cs.all (fun h => (dupScan h cs false).isSome)

theorem dupScan_isSome (h : Nat) : ∀ (cs : List Nat) (dup : Bool),
    (dupScan h cs dup).isSome = true ↔ cs.count h + (if dup then 1 else 0) ≤ 1 := by
  intro cs
  induction cs with
  | nil => intro dup; cases dup <;> simp [dupScan]
  | cons c cs ih =>
    intro dup
    simp only [dupScan]
    by_cases e : c = h
    · subst e
      simp only [if_true, List.count_cons_self]
      cases dup
      · simp only [Bool.false_eq_true, if_false]; rw [ih true]; simp
      · simp
    · have : List.count h (c :: cs) = List.count h cs := by
        rw [List.count_cons]; simp [e]
      rw [if_neg e, ih dup, this]

/-- the attribute check passes exactly for transactions that do not repeat a Conflicts hash -/
theorem conflictsAttrsOk_iff (cs : List Nat) : conflictsAttrsOk cs = true ↔ cs.Nodup := by
  unfold conflictsAttrsOk
  rw [List.all_eq_true, List.nodup_iff_count]
  constructor
  · intro h a
    by_cases ha : a ∈ cs
    · have := (dupScan_isSome a cs false).mp (h a ha)
      simpa using this
    · rw [List.count_eq_zero_of_not_mem ha]; omega
  · intro h a _ha
    exact (dupScan_isSome a cs false).mpr (by simpa using h a)

/-- what remains of `WF` as an assumption: the id behaves like a hash -/
structure HashLike (U : Tx → Prop) : Prop where
  idInj : ∀ a b, U a → U b → a.id = b.id → a = b
  acyclic : ∀ a b, U a → U b → a.id ∈ b.conflicts → b.id ∉ a.conflicts

/-- offered and let through by the attribute check -/
def Admitted (U : Tx → Prop) (t : Tx) : Prop := U t ∧ conflictsAttrsOk t.conflicts = true

theorem wf_admitted {U : Tx → Prop} (h : HashLike U) : WF (Admitted U) where
  idInj := fun a b ha hb => h.idInj a b ha.1 hb.1
  confNodup := fun _ ha => (conflictsAttrsOk_iff _).mp ha.2
  acyclic := fun a b ha hb => h.acyclic a b ha.1 hb.1

/-- an operation as the node performs it: an `Add` only reaches the pool through the attribute check -/
def applyOpC (mp : Pool) : Op → Pool
  | .add t f d => if conflictsAttrsOk t.conflicts then (add mp t f d).1 else mp
  | op => applyOp mp op

def runC (capacity : Nat) (ops : List Op) : Pool := ops.foldl applyOpC (new capacity)

/-- the operations that reach the pool -/
def reaches : Op → Bool
  | .add t _ _ => conflictsAttrsOk t.conflicts
  | _ => true

theorem runC_eq_run (capacity : Nat) (ops : List Op) : runC capacity ops = run capacity (ops.filter reaches) := by
  unfold runC run
  generalize new capacity = mp
  induction ops generalizing mp with
  | nil => rfl
  | cons op ops ih =>
    rw [List.foldl_cons]
    cases op with
    | add t f d =>
      by_cases hc : conflictsAttrsOk t.conflicts = true
      · have hf : (Op.add t f d :: ops).filter reaches = Op.add t f d :: ops.filter reaches := by
          rw [List.filter_cons]; simp [reaches, hc]
        rw [hf, List.foldl_cons]
        have ha : applyOpC mp (.add t f d) = applyOp mp (.add t f d) := by simp [applyOpC, applyOp, hc]
        rw [ha]; exact ih _
      · have hf : (Op.add t f d :: ops).filter reaches = ops.filter reaches := by
          rw [List.filter_cons]; simp [reaches, hc]
        have ha : applyOpC mp (.add t f d) = mp := by simp [applyOpC, hc]
        rw [hf, ha]; exact ih _
    | remove h => rw [List.filter_cons]; simp only [reaches, if_true, List.foldl_cons]; exact ih _
    | removeStale i f => rw [List.filter_cons]; simp only [reaches, if_true, List.foldl_cons]; exact ih _
    | verify t f => rw [List.filter_cons]; simp only [reaches, if_true, List.foldl_cons]; exact ih _
    | setResendThreshold h => rw [List.filter_cons]; simp only [reaches, if_true, List.foldl_cons]; exact ih _
    | setSubs on => rw [List.filter_cons]; simp only [reaches, if_true, List.foldl_cons]; exact ih _

/-- the operations offered: transactions of `U`, balances below 2^255; `Verify` is given admitted transactions
(it is not behind `verifyTxAttributes`; it has no caller in this tree) -/
def OpOfferedOk (U : Tx → Prop) : Op → Prop
  | .add t f _ => U t ∧ FeerOk f
  | .verify t f => Admitted U t ∧ FeerOk f
  | .removeStale _ f => FeerOk f
  | .remove _ => True
  | .setResendThreshold _ => True
  | .setSubs _ => True

theorem opsIn_filter {U : Tx → Prop} (ops : List Op) (ho : ∀ op ∈ ops, OpOfferedOk U op) :
    OpsIn (Admitted U) (ops.filter reaches) := by
  intro op hop
  obtain ⟨hm, hr⟩ := List.mem_filter.mp hop
  have := ho op hm
  cases op with
  | add t f d => exact ⟨⟨this.1, hr⟩, this.2⟩
  | verify t f => exact this
  | removeStale i f => exact this
  | remove h => trivial
  | setResendThreshold h => trivial
  | setSubs on => trivial

/-- C08 invariant with the attribute check in the model: only hash-likeness of ids is assumed of the offered
transactions -/
theorem inv_reachable_admitted {U : Tx → Prop} (h : HashLike U) (c : Nat) (ops : List Op)
    (ho : ∀ op ∈ ops, OpOfferedOk U op) : Inv (Admitted U) (runC c ops) := by
  rw [runC_eq_run]
  exact inv_reachable (wf_admitted h) c _ (opsIn_filter ops ho)

end NeoModel.Mempool
