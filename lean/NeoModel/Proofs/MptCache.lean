import NeoModel.Model.Mpt.Cache
import NeoModel.Proofs.MptLazyWrite
set_option linter.unusedSimpArgs false
namespace NeoModel.Mpt

variable {H : Bytes → Bytes} {S : LStore}

/-! ### erasing the caches gives the operations of Model/Mpt/Lazy.lean -/

theorem lmkExt_eq (p : Path) (n : LNode) : lmkExt p n = lnewSub p n := by cases p <;> rfl

theorem erase_cupd (cs : Nib → CNode) (i : Nib) (n : CNode) :
    (fun j => (cupd cs i n j).erase) = lupd (fun j => (cs j).erase) i n.erase := by
  funext j; unfold cupd lupd; split <;> simp_all [CNode.erase, mkExtC, mkBranchC]

theorem erase_cnewSub (p : Path) (n : CNode) : (cnewSub H p n).erase = lnewSub p n.erase := by
  cases p <;> rfl

theorem erase_cfill (l : LNode) : (cfill H l).erase = l := by
  induction l with
  | empty => rfl
  | hash h => rfl
  | leaf v => rfl
  | ext k n ih => simp [cfill, mkExtC, CNode.erase, ih]
  | branch cs v ihc ihv => simp [cfill, mkBranchC, CNode.erase, ihc, ihv]

theorem erase_cresolve (h : Bytes) : (cresolve H S h).map CNode.erase = resolve S h := by
  unfold cresolve; cases resolve S h <;> simp [erase_cfill]

theorem erase_isEmpty (n : CNode) : n.erase.isEmpty = n.isEmpty := by cases n <;> rfl

theorem ckids_erase (cs : Nib → CNode) : lkids (fun i => (cs i).erase) = ckids cs := by
  unfold lkids ckids; congr 1; funext i; rw [erase_isEmpty]

theorem erase_csingle (i : Nib) (c : CNode) : (csingle H i c).erase = lsingle i c.erase := by
  cases c <;> rfl

theorem cput_erase : ∀ (f : Nat) (n : CNode) (p : Path) (v : Val),
    ((cput H S f n p v).1.erase, (cput H S f n p v).2) = lput S f n.erase p v := by
  intro f
  induction f with
  | zero => intro n p v; rfl
  | succ f ih =>
    intro n p v
    cases n with
    | empty => simp [cput, lput, CNode.erase, erase_cnewSub, mkLeafC]
    | hash h =>
      simp only [cput, lput, CNode.erase, ← erase_cresolve (H := H) (S := S) h]
      cases cresolve H S h with
      | none => rfl
      | some l =>
        have := ih l p v
        simp only [Option.map_some] at this ⊢
        rw [← this]
        split <;> simp_all [CNode.erase, mkExtC, mkBranchC]
    | leaf c w =>
      cases p with
      | nil => simp [cput, lput, CNode.erase, mkLeafC]
      | cons i r =>
        simp only [cput, lput, CNode.erase, mkBranchC, erase_cupd, erase_cnewSub, mkLeafC]
        rfl
    | ext c k m =>
      simp only [cput, lput, CNode.erase]
      rcases lcpSplit k p with ⟨cc, kr, pr⟩
      cases kr with
      | nil =>
        have := ih m pr v
        simp only [← this]
        split <;> simp_all [CNode.erase, mkExtC, mkBranchC]
      | cons kh kt =>
        cases pr with
        | nil => simp only [erase_cnewSub, mkBranchC, CNode.erase, erase_cupd, mkLeafC, lmkExt_eq]; rfl
        | cons ph pt => simp only [erase_cnewSub, mkBranchC, CNode.erase, erase_cupd, mkLeafC, lmkExt_eq]; rfl
    | branch c cs lv =>
      cases p with
      | nil =>
        have := ih lv [] v
        simp only [cput, lput, CNode.erase, ← this]
        split <;> simp_all [CNode.erase, mkExtC, mkBranchC]
      | cons i r =>
        have := ih (cs i) r v
        simp only [cput, lput, CNode.erase, ← this]
        split <;> simp_all [CNode.erase, mkBranchC, erase_cupd]

theorem cstripDel_erase (cs : Nib → CNode) (lv : CNode) :
    ((cstripDel H S cs lv).1.erase, (cstripDel H S cs lv).2) = lstripDel S (fun i => (cs i).erase) lv.erase := by
  unfold cstripDel lstripDel
  rw [ckids_erase, erase_isEmpty]
  cases hk : ckids cs with
  | nil => cases hv : lv.isEmpty <;> rfl
  | cons i rest =>
    cases rest with
    | nil =>
      cases hv : lv.isEmpty with
      | false => rfl
      | true =>
        simp only
        cases hc : cs i with
        | hash h =>
          simp only [CNode.erase, ← erase_cresolve (H := H) (S := S) h]
          cases cresolve H S h with
          | none => simp [mkBranchC, CNode.erase]
          | some c => simp [erase_csingle]
        | empty => simp [CNode.erase, erase_csingle, csingle, mkExtC, lsingle]
        | leaf c w => simp [CNode.erase, csingle, mkExtC, lsingle]
        | ext c k m => simp [CNode.erase, csingle, mkExtC, lsingle]
        | branch c a b => simp [CNode.erase, csingle, mkExtC, lsingle]
    | cons j rest => cases hv : lv.isEmpty <;> rfl

theorem cdel_erase : ∀ (f : Nat) (n : CNode) (p : Path),
    ((cdel H S f n p).1.erase, (cdel H S f n p).2) = ldel S f n.erase p := by
  intro f
  induction f with
  | zero => intro n p; rfl
  | succ f ih =>
    intro n p
    cases n with
    | empty => rfl
    | hash h =>
      simp only [cdel, ldel, CNode.erase, ← erase_cresolve (H := H) (S := S) h]
      cases cresolve H S h with
      | none => rfl
      | some l =>
        have := ih l p
        simp only [Option.map_some] at this ⊢
        rw [← this]
        split <;> simp_all [CNode.erase, mkExtC, mkBranchC]
    | leaf c w => cases p <;> rfl
    | ext c k m =>
      simp only [cdel, ldel, CNode.erase]
      cases stripPre k p with
      | none => rfl
      | some rp =>
        have := ih m rp
        simp only [← this]
        split
        · simp_all [CNode.erase]
        · next h =>
          cases (cdel H S f m rp).1 <;> rfl
    | branch c cs lv =>
      cases p with
      | nil =>
        have := ih lv []
        simp only [cdel, ldel, CNode.erase, ← this]
        split
        · simp_all [CNode.erase]
        · next h =>
          exact cstripDel_erase cs _
      | cons i r =>
        have := ih (cs i) r
        simp only [cdel, ldel, CNode.erase, ← this]
        split
        · simp_all [CNode.erase, erase_cupd]
        · next h =>
          rw [← erase_cupd]; exact cstripDel_erase _ _

/-! ### right caches answer like no caches -/

theorem cok_read : ∀ (n : CNode), COk H n →
    cbytes n = lenc H n.erase ∧ cref H n = lchildRef H n.erase (lenc H n.erase) := by
  intro n
  induction n with
  | empty => intro _; exact ⟨rfl, rfl⟩
  | hash h => intro _; exact ⟨rfl, rfl⟩
  | leaf c v => intro h; simp only [COk] at h; subst h; exact ⟨rfl, rfl⟩
  | ext c k m ih =>
    intro h
    obtain ⟨hc, hm⟩ := h
    have e : c = lenc H (CNode.ext c k m).erase := by
      rw [hc]; simp [encExtC, CNode.erase, lenc, (ih hm).2]
    exact ⟨e, by simp only [cref, CNode.erase, lchildRef]; rw [e]; rfl⟩
  | branch c cs v ihc ihv =>
    intro h
    obtain ⟨hc, hk, hv⟩ := h
    have e : c = lenc H (CNode.branch c cs v).erase := by
      rw [hc]; simp only [encBranchC, CNode.erase, lenc, (ihv hv).2]
      congr 3; funext i; exact (ihc i (hk i)).2
    exact ⟨e, by simp only [cref, CNode.erase, lchildRef]; rw [e]; rfl⟩

/-- with right caches `StateRoot()` is the root computed without caches. -/
theorem croot_ok (n : CNode) (h : COk H n) : croot H n = lrootHash H n.erase := by
  have := (cok_read n h).1
  cases n with
  | empty => rfl
  | hash x => rfl
  | leaf c v => simp only [cbytes] at this; simp [croot, lrootHash, CNode.erase, LNode.isEmpty, lhash, this]
  | ext c k m => simp only [cbytes] at this; exact congrArg H this
  | branch c cs v => simp only [cbytes] at this; exact congrArg H this

theorem cok_cfill (l : LNode) : COk H (cfill H l) := by
  induction l with
  | empty => trivial
  | hash h => trivial
  | leaf v => rfl
  | ext k n ih => exact ⟨rfl, ih⟩
  | branch cs v ihc ihv => exact ⟨rfl, ihc, ihv⟩

theorem cok_cresolve {h : Bytes} {c : CNode} (hr : cresolve H S h = some c) : COk H c := by
  unfold cresolve at hr
  cases hres : resolve S h with
  | none => simp [hres] at hr
  | some l => simp [hres] at hr; subst hr; exact cok_cfill l

theorem cok_mkExtC (k : Path) {n : CNode} (h : COk H n) : COk H (mkExtC H k n) := ⟨rfl, h⟩
theorem cok_mkBranchC {cs : Nib → CNode} {v : CNode} (hk : ∀ i, COk H (cs i)) (hv : COk H v) :
    COk H (mkBranchC H cs v) := ⟨rfl, hk, hv⟩
theorem cok_cnewSub (p : Path) {n : CNode} (h : COk H n) : COk H (cnewSub H p n) := by
  cases p with
  | nil => exact h
  | cons a p => exact cok_mkExtC _ h
theorem cok_cupd {cs : Nib → CNode} (hk : ∀ i, COk H (cs i)) (i : Nib) {n : CNode} (h : COk H n) :
    ∀ j, COk H (cupd cs i n j) := by
  intro j; unfold cupd; split
  · exact h
  · exact hk j
theorem cok_cnoKids : ∀ j, COk H (cnoKids j) := fun _ => trivial
theorem cok_mkLeafC (v : Val) : COk H (mkLeafC v) := rfl

/-- Put: the code invalidates and re-hashes every node it re-links — all caches stay right. -/
theorem cput_ok : ∀ (f : Nat) (n : CNode) (p : Path) (v : Val), COk H n → (cput H S f n p v).2 = false →
    COk H (cput H S f n p v).1 := by
  intro f
  induction f with
  | zero => intro n p v _ he; simp [cput] at he
  | succ f ih =>
    intro n p v hn he
    cases n with
    | empty => exact cok_cnewSub p (cok_mkLeafC v)
    | hash h =>
      simp only [cput] at he ⊢
      cases hres : cresolve H S h with
      | none => simp [hres] at he
      | some l =>
        simp only [hres] at he ⊢
        split at he
        · simp at he
        · next hh => simp only [hh, if_false]; exact ih l p v (cok_cresolve hres) (by simpa using hh)
    | leaf c w =>
      cases p with
      | nil => exact cok_mkLeafC v
      | cons i r => exact cok_mkBranchC (cok_cupd cok_cnoKids i (cok_cnewSub r (cok_mkLeafC v))) hn
    | ext c k m =>
      obtain ⟨_, hm⟩ := hn
      rcases hsp : lcpSplit k p with ⟨cc, kr, pr⟩
      cases kr with
      | nil =>
        simp only [cput, hsp] at he ⊢
        split at he
        · simp at he
        · next hh => simp only [hh, if_false]; exact cok_mkExtC _ (ih m pr v hm (by simpa using hh))
      | cons kh kt =>
        cases pr with
        | nil =>
          simp only [cput, hsp]
          exact cok_cnewSub cc (cok_mkBranchC (cok_cupd cok_cnoKids kh (cok_cnewSub kt hm)) (cok_mkLeafC v))
        | cons ph pt =>
          simp only [cput, hsp]
          exact cok_cnewSub cc (cok_mkBranchC
            (cok_cupd (cok_cupd cok_cnoKids kh (cok_cnewSub kt hm)) ph (cok_cnewSub pt (cok_mkLeafC v))) trivial)
    | branch c cs lv =>
      obtain ⟨_, hk, hv⟩ := hn
      cases p with
      | nil =>
        simp only [cput] at he ⊢
        split at he
        · simp at he
        · next hh => simp only [hh, if_false]; exact cok_mkBranchC hk (ih lv [] v hv (by simpa using hh))
      | cons i r =>
        simp only [cput] at he ⊢
        split at he
        · simp at he
        · next hh =>
          simp only [hh, if_false]
          exact cok_mkBranchC (cok_cupd hk i (ih (cs i) r v (hk i) (by simpa using hh))) hv

theorem cok_csingle (i : Nib) {c : CNode} (h : COk H c) : COk H (csingle H i c) := by
  cases c with
  | ext c k n => exact cok_mkExtC _ h.2
  | empty => exact cok_mkExtC _ h
  | hash x => exact cok_mkExtC _ h
  | leaf c v => exact cok_mkExtC _ h
  | branch c a b => exact cok_mkExtC _ h

/-- the branch itself is re-hashed in every outcome of `deleteFromBranch`, the failing one included. -/
theorem cstripDel_ok {cs : Nib → CNode} {lv : CNode} (hk : ∀ i, COk H (cs i)) (hv : COk H lv) :
    COk H (cstripDel H S cs lv).1 := by
  unfold cstripDel
  cases hkk : ckids cs with
  | nil =>
    cases hl : lv.isEmpty with
    | false => exact hv
    | true => exact cok_mkExtC _ trivial
  | cons i rest =>
    cases rest with
    | nil =>
      cases hl : lv.isEmpty with
      | false => exact cok_mkBranchC hk hv
      | true =>
        simp only
        cases hc : cs i with
        | hash h =>
          simp only
          cases hres : cresolve H S h with
          | none => exact cok_mkBranchC hk hv
          | some c => exact cok_csingle i (cok_cresolve hres)
        | empty => have := hk i; rw [hc] at this; exact cok_csingle i this
        | leaf c w => have := hk i; rw [hc] at this; exact cok_csingle i this
        | ext c k m => have := hk i; rw [hc] at this; exact cok_csingle i this
        | branch c a b => have := hk i; rw [hc] at this; exact cok_csingle i this
    | cons j rest => cases hl : lv.isEmpty <;> exact cok_mkBranchC hk hv

/-- Delete without an error: all caches stay right. -/
theorem cdel_ok : ∀ (f : Nat) (n : CNode) (p : Path), COk H n → (cdel H S f n p).2 = false →
    COk H (cdel H S f n p).1 := by
  intro f
  induction f with
  | zero => intro n p _ he; simp [cdel] at he
  | succ f ih =>
    intro n p hn he
    cases n with
    | empty => trivial
    | hash h =>
      simp only [cdel] at he ⊢
      cases hres : cresolve H S h with
      | none => simp [hres] at he
      | some l =>
        simp only [hres] at he ⊢
        split at he
        · simp at he
        · next hh => simp only [hh, if_false]; exact ih l p (cok_cresolve hres) (by simpa using hh)
    | leaf c w => cases p <;> first | trivial | exact hn
    | ext c k m =>
      obtain ⟨hcc, hm⟩ := hn
      cases hs : stripPre k p with
      | none => simp only [cdel, hs]; exact ⟨hcc, hm⟩
      | some rp =>
        simp only [cdel, hs] at he ⊢
        split at he
        · simp at he
        · next hh =>
          simp only [hh, if_false]
          have := ih m rp hm (by simpa using hh)
          cases hr : (cdel H S f m rp).1 with
          | ext c2 k2 n2 => rw [hr] at this; exact cok_mkExtC _ this.2
          | empty => trivial
          | hash x => exact cok_mkExtC _ trivial
          | leaf c2 w => rw [hr] at this; exact cok_mkExtC _ this
          | branch c2 a b => rw [hr] at this; exact cok_mkExtC _ this
    | branch c cs lv =>
      obtain ⟨_, hk, hv⟩ := hn
      cases p with
      | nil =>
        simp only [cdel] at he ⊢
        split at he
        · simp at he
        · next hh => simp only [hh, if_false]; exact cstripDel_ok hk (ih lv [] hv (by simpa using hh))
      | cons i r =>
        simp only [cdel] at he ⊢
        split at he
        · simp at he
        · next hh =>
          simp only [hh, if_false]
          exact cstripDel_ok (cok_cupd hk i (ih (cs i) r (hk i) (by simpa using hh))) hv

/-- a failed Put has touched no node and no cache. -/
theorem cput_err : ∀ (f : Nat) (n : CNode) (p : Path) (v : Val), (cput H S f n p v).2 = true → (cput H S f n p v).1 = n := by
  intro f
  induction f with
  | zero => intro n p v _; rfl
  | succ f ih =>
    intro n p v he
    cases n with
    | empty => simp [cput] at he
    | hash h =>
      simp only [cput] at he ⊢
      cases hres : cresolve H S h with
      | none => rfl
      | some l =>
        simp only [hres] at he ⊢
        split
        · rfl
        · next hn => simp [hn] at he
    | leaf c w => cases p <;> simp [cput] at he
    | ext c k m =>
      rcases hsp : lcpSplit k p with ⟨cc, kr, pr⟩
      cases kr with
      | nil =>
        simp only [cput, hsp] at he ⊢
        split
        · next hh => simp [ih m pr v hh]
        · next hh => simp [hh] at he
      | cons kh kt => cases pr <;> simp [cput, hsp] at he
    | branch c cs lv =>
      cases p with
      | nil =>
        simp only [cput] at he ⊢
        split
        · next hh => simp [ih lv [] v hh]
        · next hh => simp [hh] at he
      | cons i r =>
        simp only [cput] at he ⊢
        split
        · next hh =>
          rw [ih (cs i) r v hh]
          show CNode.branch c (cupd cs i (cs i)) lv = CNode.branch c cs lv
          congr 1
          funext j; unfold cupd; split
          · next e => rw [e]
          · rfl
        · next hh => simp [hh] at he

end NeoModel.Mpt
