/-
C15 — invariants of the frame machine (Model/Witness/Frames.lean): the invocation stack is a chain of script
contexts, calling hashes are the hashes of the loading scripts, call flags only shrink, returns restore the
caller's context, and the environment of the witness check is the one the chain layer (`Env.ofCalls`) builds
from the frames of the live loads. Core Lean only.
-/
import NeoModel.Model.Witness.Frames
import NeoModel.Proofs.WitnessSpec
namespace NeoModel.Witness

/-! ### Shape of the invocation stack -/

/-- Every context of the invocation stack either shares the script context of the one below it (it was
created by CALL) or its script context has the one below as `callingContext` (it was loaded); the bottom
one has no `callingContext`. -/
def Chain : List SC → Prop
  | [] => True
  | [s] => s.calling? = none
  | s :: p :: rest => (s = p ∨ s.calling? = some p) ∧ Chain (p :: rest)

theorem Chain.tail {s : SC} {rest : List SC} (h : Chain (s :: rest)) : Chain rest := by
  cases rest with
  | nil => trivial
  | cons p r => exact h.2

theorem chain_push_child {p : SC} {rest : List SC} (fr : FrameRec) (h : Chain (p :: rest)) :
    Chain (.child fr p :: p :: rest) := ⟨Or.inr rfl, h⟩

theorem chain_push_same {s : SC} {rest : List SC} (h : Chain (s :: rest)) : Chain (s :: s :: rest) :=
  ⟨Or.inl rfl, h⟩

theorem load_ok {v v' : VM} {h160 caller hash : Hash} {f : Flags} (h : v.load h160 caller hash f = .ok v') :
    v.istack.length < maxInvocationStackSize ∧
    ((v.istack = [] ∧ v'.istack = [.root ⟨resolveHash h160 hash, caller, f⟩]) ∨
     (∃ p rest, v.istack = p :: rest ∧
        v'.istack = .child ⟨resolveHash h160 hash, caller, f⟩ p :: p :: rest)) := by
  unfold VM.load at h
  split at h
  · cases h
  · rename_i hl
    refine ⟨by omega, ?_⟩
    split at h
    · rename_i he; cases h; exact Or.inl ⟨he, rfl⟩
    · rename_i p rest he; cases h; exact Or.inr ⟨p, rest, he, rfl⟩

theorem call_ok {v v' : VM} (h : v.call = .ok v') :
    ∃ s rest, v.istack = s :: rest ∧ v'.istack = s :: s :: rest := by
  unfold VM.call at h
  split at h
  · cases h
  · rename_i s rest he
    split at h
    · cases h
    · cases h; exact ⟨s, rest, he, rfl⟩

theorem pop_ok {v v' : VM} (h : v.pop = .ok v') : ∃ s, v.istack = s :: v'.istack := by
  unfold VM.pop at h
  split at h
  · cases h
  · rename_i s rest he; cases h; exact ⟨s, he⟩

theorem load_chain {v v' : VM} {h160 caller hash : Hash} {f : Flags} (hc : Chain v.istack)
    (h : v.load h160 caller hash f = .ok v') : Chain v'.istack := by
  rcases (load_ok h).2 with ⟨_, h2⟩ | ⟨p, rest, h1, h2⟩
  · rw [h2]; rfl
  · rw [h2]; rw [h1] at hc; exact chain_push_child _ hc

theorem call_chain {v v' : VM} (hc : Chain v.istack) (h : v.call = .ok v') : Chain v'.istack := by
  obtain ⟨s, rest, h1, h2⟩ := call_ok h
  rw [h2]; rw [h1] at hc; exact chain_push_same hc

theorem pop_chain {v v' : VM} (hc : Chain v.istack) (h : v.pop = .ok v') : Chain v'.istack := by
  obtain ⟨s, h1⟩ := pop_ok h
  rw [h1] at hc; exact hc.tail

theorem popN_chain : ∀ (n : Nat) {v v' : VM}, Chain v.istack → v.popN n = .ok v' → Chain v'.istack
  | 0, v, v', hc, h => by simp [VM.popN] at h; cases h; exact hc
  | n+1, v, v', hc, h => by
    simp only [VM.popN] at h
    split at h
    · cases h
    · rename_i v1 h1; exact popN_chain n (pop_chain hc h1) h

theorem loadNEF_chain {v v' : VM} {h160 caller hash : Hash} {f : Flags} {init : Bool} (hc : Chain v.istack)
    (h : v.loadNEF h160 caller hash f init = .ok v') : Chain v'.istack := by
  unfold VM.loadNEF at h
  split at h
  · cases h
  · rename_i v1 h1
    have hc1 := load_chain hc h1
    split at h
    · exact call_chain hc1 h
    · cases h; exact hc1

theorem callEx_chain {v v' : VM} {caller target : Hash} {f : Flags} {init : Bool} (hc : Chain v.istack)
    (h : v.callEx caller target f init = .ok v') : Chain v'.istack := by
  unfold VM.callEx at h
  split at h
  · cases h
  · exact loadNEF_chain hc h

/-- every step keeps the invocation stack a chain. -/
theorem step_chain {v v' : VM} (op : Op) (hc : Chain v.istack) (h : v.step op = .ok v') : Chain v'.istack := by
  cases op with
  | loadWithFlags h160 f => exact load_chain (v := VM.empty) trivial h
  | loadScriptWithFlags h160 f => exact load_chain hc h
  | loadDynamicScript h160 f => exact load_chain hc h
  | loadScriptWithHash h160 hash f => exact load_chain hc h
  | loadNEFMethod h160 caller hash f init => exact loadNEF_chain hc h
  | call => exact call_chain hc h
  | ret => exact pop_chain hc h
  | unwind n => exact popN_chain n hc h
  | contractCall target fs safe init =>
    simp only [VM.step] at h
    split at h
    · cases h
    · split at h
      · cases h
      · split at h
        · cases h
        · exact callEx_chain hc h
  | callT target fs safe init =>
    simp only [VM.step] at h
    split at h
    · cases h
    · split at h
      · cases h
      · exact callEx_chain hc h
  | runtimeLoadScript h160 fs =>
    simp only [VM.step] at h
    split at h
    · cases h
    · split at h
      · cases h
      · split at h
        · cases h
        · exact load_chain hc h
  | nativeCall caller target init => exact callEx_chain hc h
  | verifyScript hash => exact load_chain hc h
  | verifyContract hash init => exact loadNEF_chain hc h
  | invocationScript h160 => exact load_chain hc h

theorem run_chain : ∀ (ops : List Op) {v v' : VM}, Chain v.istack → v.run ops = .ok v' → Chain v'.istack
  | [], v, v', hc, h => by simp [VM.run] at h; cases h; exact hc
  | op :: ops, v, v', hc, h => by
    simp only [VM.run] at h
    split at h
    · cases h
    · rename_i v1 h1; exact run_chain ops (step_chain op hc h1) h

end NeoModel.Witness

namespace NeoModel.Witness

/-! ### The shape of one step: what is pushed, what is popped -/

/-- push a freshly loaded script context (vm.go:484-512). -/
def pushSC (st : List SC) (fr : FrameRec) : List SC :=
  match st with
  | [] => [.root fr]
  | p :: rest => .child fr p :: p :: rest

/-- a CALL: the top context once more. -/
def dupTop (st : List SC) : List SC :=
  match st with
  | [] => []
  | s :: rest => s :: s :: rest

/-- For every loading step: the frame record the new script context gets, and whether a CALL to
`_initialize` follows. `none`: the step loads nothing (CALL, RET, unwinding) or there is no context to take the
flags from. -/
def Op.frame (v : VM) : Op → Option (FrameRec × Bool)
  | .loadWithFlags h f => some (⟨resolveHash h 0, 0, f⟩, false)
  | .loadScriptWithFlags h f => some (⟨resolveHash h 0, v.currentHash, f⟩, false)
  | .loadDynamicScript h f => some (⟨resolveHash h 0, v.currentHash, f⟩, false)
  | .loadScriptWithHash h hash f => some (⟨resolveHash h hash, v.currentHash, f⟩, false)
  | .loadNEFMethod h caller hash f init => some (⟨resolveHash h hash, caller, f⟩, init)
  | .call => none
  | .ret => none
  | .unwind _ => none
  | .contractCall target fs safe init =>
    v.flags.map fun cf => (⟨resolveHash 0 target, v.currentHash, cf &&& safeMask safe (fs % 256)⟩, init)
  | .callT target fs safe init =>
    v.flags.map fun cf => (⟨resolveHash 0 target, v.currentHash, cf &&& safeMask safe fs⟩, init)
  | .runtimeLoadScript h fs =>
    v.flags.map fun cf => (⟨resolveHash h 0, v.currentHash, cf &&& fReadOnly &&& (fs % 256)⟩, false)
  | .nativeCall caller target init =>
    v.flags.map fun cf => (⟨resolveHash 0 target, caller, cf &&& fAll⟩, init)
  | .verifyScript hash => some (⟨resolveHash 0 hash, v.currentHash, fReadOnly⟩, false)
  | .verifyContract hash init => some (⟨resolveHash 0 hash, 0, fReadOnly⟩, init)
  | .invocationScript h => some (⟨resolveHash h 0, v.currentHash, fNone⟩, false)

/-- the stack a loading step starts from (`LoadWithFlags` clears it first). -/
def Op.base (v : VM) : Op → List SC
  | .loadWithFlags _ _ => []
  | _ => v.istack

theorem load_shape {v v' : VM} {h160 caller hash : Hash} {f : Flags} (h : v.load h160 caller hash f = .ok v') :
    v'.istack = pushSC v.istack ⟨resolveHash h160 hash, caller, f⟩ := by
  rcases (load_ok h).2 with ⟨h1, h2⟩ | ⟨p, rest, h1, h2⟩
  · rw [h2, h1]; rfl
  · rw [h2, h1]; rfl

theorem call_shape {v v' : VM} (h : v.call = .ok v') : v'.istack = dupTop v.istack ∧ v.istack ≠ [] := by
  obtain ⟨s, rest, h1, h2⟩ := call_ok h
  rw [h2, h1]; exact ⟨rfl, by simp⟩

theorem loadNEF_shape {v v' : VM} {h160 caller hash : Hash} {f : Flags} {init : Bool}
    (h : v.loadNEF h160 caller hash f init = .ok v') :
    v'.istack = (if init then dupTop (pushSC v.istack ⟨resolveHash h160 hash, caller, f⟩)
      else pushSC v.istack ⟨resolveHash h160 hash, caller, f⟩) := by
  unfold VM.loadNEF at h
  split at h
  · cases h
  · rename_i v1 h1
    have s1 := load_shape h1
    split at h
    · rename_i hi; rw [(call_shape h).1, s1]; simp [hi]
    · rename_i hi; cases h; rw [s1]; simp [hi]

theorem callEx_shape {v v' : VM} {caller target : Hash} {f : Flags} {init : Bool}
    (h : v.callEx caller target f init = .ok v') :
    ∃ cf, v.flags = some cf ∧
      v'.istack = (if init then dupTop (pushSC v.istack ⟨resolveHash 0 target, caller, cf &&& f⟩)
        else pushSC v.istack ⟨resolveHash 0 target, caller, cf &&& f⟩) := by
  unfold VM.callEx at h
  split at h
  · cases h
  · rename_i cf hcf; exact ⟨cf, hcf, loadNEF_shape h⟩

theorem popN_shape : ∀ (n : Nat) {v v' : VM}, v.popN n = .ok v' →
    v'.istack = v.istack.drop n ∧ n ≤ v.istack.length
  | 0, v, v', h => by simp [VM.popN] at h; cases h; simp
  | n+1, v, v', h => by
    simp only [VM.popN] at h
    split at h
    · cases h
    · rename_i v1 h1
      obtain ⟨s, hs⟩ := pop_ok h1
      have := popN_shape n h
      rw [hs]; simp [this.1]; exact this.2

/-- Every successful step either pushes one freshly loaded script context (on the cleared stack for
`LoadWithFlags`), optionally followed by the CALL of `_initialize`, or duplicates the top (CALL), or pops. -/
theorem step_shape {v v' : VM} (op : Op) (h : v.step op = .ok v') :
    (∃ fr init, op.frame v = some (fr, init) ∧
      v'.istack = (if init then dupTop (pushSC (op.base v) fr) else pushSC (op.base v) fr)) ∨
    (op = .call ∧ v'.istack = dupTop v.istack ∧ v.istack ≠ []) ∨
    (∃ n, (op = .ret ∧ n = 1 ∨ op = .unwind n) ∧ v'.istack = v.istack.drop n ∧ n ≤ v.istack.length) := by
  cases op with
  | loadWithFlags h160 f =>
    left; exact ⟨_, false, rfl, load_shape (v := VM.empty) h⟩
  | loadScriptWithFlags h160 f => left; exact ⟨_, false, rfl, load_shape h⟩
  | loadDynamicScript h160 f => left; exact ⟨_, false, rfl, load_shape h⟩
  | loadScriptWithHash h160 hash f => left; exact ⟨_, false, rfl, load_shape h⟩
  | loadNEFMethod h160 caller hash f init => left; exact ⟨_, init, rfl, loadNEF_shape h⟩
  | call => right; left; exact ⟨rfl, call_shape h⟩
  | ret =>
    right; right
    obtain ⟨s, hs⟩ := pop_ok h
    exact ⟨1, Or.inl ⟨rfl, rfl⟩, by simp [hs], by simp [hs]⟩
  | unwind n => right; right; exact ⟨n, Or.inr rfl, popN_shape n h⟩
  | contractCall target fs safe init =>
    left
    simp only [VM.step] at h
    split at h
    · cases h
    · rename_i cf hcf
      split at h
      · cases h
      · split at h
        · cases h
        · obtain ⟨cf', hcf', hs⟩ := callEx_shape h
          rw [hcf] at hcf'; cases hcf'
          exact ⟨⟨resolveHash 0 target, v.currentHash, cf &&& safeMask safe (fs % 256)⟩, init, by simp [Op.frame, hcf], hs⟩
  | callT target fs safe init =>
    left
    simp only [VM.step] at h
    split at h
    · cases h
    · rename_i cf hcf
      split at h
      · cases h
      · obtain ⟨cf', hcf', hs⟩ := callEx_shape h
        rw [hcf] at hcf'; cases hcf'
        exact ⟨⟨resolveHash 0 target, v.currentHash, cf &&& safeMask safe fs⟩, init, by simp [Op.frame, hcf], hs⟩
  | runtimeLoadScript h160 fs =>
    left
    simp only [VM.step] at h
    split at h
    · cases h
    · rename_i cf hcf
      split at h
      · cases h
      · split at h
        · cases h
        · exact ⟨⟨resolveHash h160 0, v.currentHash, cf &&& fReadOnly &&& (fs % 256)⟩, false, by simp [Op.frame, hcf], load_shape h⟩
  | nativeCall caller target init =>
    left
    obtain ⟨cf, hcf, hs⟩ := callEx_shape (v := v) (show v.callEx caller target fAll init = .ok v' from h)
    exact ⟨⟨resolveHash 0 target, caller, cf &&& fAll⟩, init, by simp [Op.frame, hcf], hs⟩
  | verifyScript hash => left; exact ⟨_, false, rfl, load_shape h⟩
  | verifyContract hash init => left; exact ⟨_, init, rfl, loadNEF_shape h⟩
  | invocationScript h160 => left; exact ⟨_, false, rfl, load_shape h⟩

end NeoModel.Witness

namespace NeoModel.Witness

/-! ### Invariants of script contexts: calling hash, call flags -/

/-- the calling hash of every script context of the chain is the script hash of its `callingContext`
(zero for the one without). -/
def SC.linked : SC → Prop
  | .root f => f.caller = 0
  | .child f p => f.caller = p.frame.hash ∧ p.linked

/-- `a ⊆ b` on call flags. -/
def Flags.sub (a b : Flags) : Prop := a &&& b = a

/-- the call flags of every script context of the chain are within those of its `callingContext`. -/
def SC.shrinks : SC → Prop
  | .root _ => True
  | .child f p => Flags.sub f.flags p.frame.flags ∧ p.shrinks

theorem Flags.sub_refl (a : Flags) : Flags.sub a a := Nat.and_self a

theorem Flags.sub_trans {a b c : Flags} (h1 : Flags.sub a b) (h2 : Flags.sub b c) : Flags.sub a c := by
  unfold Flags.sub at *
  rw [← h1, Nat.and_assoc, h2]

theorem Flags.and_sub_left (a x : Flags) : Flags.sub (a &&& x) a := by
  unfold Flags.sub
  rw [Nat.and_comm a x, Nat.and_assoc, Nat.and_self]

theorem Flags.sub_has {a b need : Flags} (h : Flags.sub a b) (ha : a.has need = true) : b.has need = true := by
  unfold Flags.has at *
  unfold Flags.sub at h
  have ha' : a &&& need = need := by simpa using ha
  have : b &&& need = need := by
    rw [← ha', ← h]
    rw [Nat.and_comm a b, ← Nat.and_assoc, ← Nat.and_assoc, Nat.and_self]
  simpa using this

/-- which steps keep "calling hash = hash of the loading script": the loaders that take an explicit caller
must be given the executing script's hash (natives pass their own hash, see the table of call sites), and
witness verification starts on a fresh VM. -/
def Op.honest (v : VM) : Op → Prop
  | .loadNEFMethod _ caller _ _ _ => caller = v.currentHash
  | .nativeCall caller _ _ => caller = v.currentHash
  | .verifyContract _ _ => v.istack = []
  | _ => True

/-- the steps the interop layer performs while a script runs (System.Contract.Call, CALLT,
System.Runtime.LoadScript, native callbacks, the invocation script of a witness, CALL, RET, unwinding): the
new flags are computed from the executing context's flags. -/
def Op.interop : Op → Bool
  | .call | .ret | .unwind _ | .contractCall .. | .callT .. | .runtimeLoadScript .. | .nativeCall ..
  | .invocationScript _ => true
  | _ => false

def LinkedSt (st : List SC) : Prop := ∀ s ∈ st, s.linked
def ShrinksSt (st : List SC) : Prop := ∀ s ∈ st, s.shrinks

theorem currentHash_cons (s : SC) (rest : List SC) : (VM.mk (s :: rest)).currentHash = s.frame.hash := rfl

theorem pushSC_linked {st : List SC} {fr : FrameRec} (h : LinkedSt st)
    (hc : fr.caller = (VM.mk st).currentHash) : LinkedSt (pushSC st fr) := by
  cases st with
  | nil =>
    intro s hs
    simp [pushSC] at hs; subst hs
    exact hc
  | cons p rest =>
    intro s hs
    simp only [pushSC, List.mem_cons] at hs
    rcases hs with rfl | hs
    · exact ⟨hc, h p (by simp)⟩
    · exact h s (by simpa using hs)

theorem pushSC_shrinks {st : List SC} {fr : FrameRec} (h : ShrinksSt st)
    (hc : ∀ p rest, st = p :: rest → Flags.sub fr.flags p.frame.flags) : ShrinksSt (pushSC st fr) := by
  cases st with
  | nil =>
    intro s hs
    simp [pushSC] at hs; subst hs
    trivial
  | cons p rest =>
    intro s hs
    simp only [pushSC, List.mem_cons] at hs
    rcases hs with rfl | hs
    · exact ⟨hc p rest rfl, h p (by simp)⟩
    · exact h s (by simpa using hs)

theorem dupTop_mem {st : List SC} {s : SC} (h : s ∈ dupTop st) : s ∈ st := by
  cases st with
  | nil => simp [dupTop] at h
  | cons p rest =>
    simp only [dupTop, List.mem_cons] at h
    rcases h with rfl | rfl | h <;> simp [*]

theorem honest_caller {v : VM} {op : Op} {fr : FrameRec} {init : Bool} (hh : op.honest v)
    (hf : op.frame v = some (fr, init)) : fr.caller = (VM.mk (op.base v)).currentHash := by
  cases op <;> simp only [Op.frame, Option.map_eq_some_iff, Option.some.injEq, Prod.mk.injEq] at hf <;>
    simp only [Op.base]
  case loadWithFlags => rw [← hf.1]; rfl
  case loadScriptWithFlags => rw [← hf.1]
  case loadDynamicScript => rw [← hf.1]
  case loadScriptWithHash => rw [← hf.1]
  case loadNEFMethod => rw [← hf.1]; exact hh
  case call => cases hf
  case ret => cases hf
  case unwind => cases hf
  case contractCall => obtain ⟨cf, _, h1, _⟩ := hf; rw [← h1]
  case callT => obtain ⟨cf, _, h1, _⟩ := hf; rw [← h1]
  case runtimeLoadScript => obtain ⟨cf, _, h1, _⟩ := hf; rw [← h1]
  case nativeCall => obtain ⟨cf, _, h1, _⟩ := hf; rw [← h1]; exact hh
  case verifyScript => rw [← hf.1]
  case verifyContract =>
    rw [← hf.1]
    have : v.istack = [] := hh
    simp [VM.currentHash, this]
  case invocationScript => rw [← hf.1]

theorem interop_flags {v : VM} {op : Op} {fr : FrameRec} {init : Bool} (hi : op.interop = true)
    (hf : op.frame v = some (fr, init)) :
    ∀ p rest, op.base v = p :: rest → Flags.sub fr.flags p.frame.flags := by
  intro p rest hb
  have hfl : ∀ cf, v.flags = some cf → op.base v = v.istack → cf = p.frame.flags := by
    intro cf hcf hb'
    rw [hb'] at hb
    simp [VM.flags, hb] at hcf
    exact hcf.symm
  cases op <;> simp only [Op.interop] at hi <;>
    simp only [Op.frame, Option.map_eq_some_iff, Option.some.injEq, Prod.mk.injEq] at hf <;>
    try (cases hi; done)
  case call => cases hf
  case ret => cases hf
  case unwind => cases hf
  case contractCall =>
    obtain ⟨cf, hcf, h1, _⟩ := hf
    rw [← h1, ← hfl cf hcf rfl]; exact Flags.and_sub_left _ _
  case callT =>
    obtain ⟨cf, hcf, h1, _⟩ := hf
    rw [← h1, ← hfl cf hcf rfl]; exact Flags.and_sub_left _ _
  case runtimeLoadScript =>
    obtain ⟨cf, hcf, h1, _⟩ := hf
    rw [← h1, ← hfl cf hcf rfl]
    show Flags.sub (cf &&& fReadOnly &&& _) cf
    rw [Nat.and_assoc]; exact Flags.and_sub_left _ _
  case nativeCall =>
    obtain ⟨cf, hcf, h1, _⟩ := hf
    rw [← h1, ← hfl cf hcf rfl]; exact Flags.and_sub_left _ _
  case invocationScript =>
    rw [← hf.1]
    show Flags.sub fNone _
    unfold Flags.sub fNone; simp

theorem drop_mem {α : Type} {l : List α} {n : Nat} {x : α} (h : x ∈ l.drop n) : x ∈ l :=
  List.mem_of_mem_drop h

/-- an honest step keeps every calling hash equal to the hash of the loading script context. -/
theorem step_linked {v v' : VM} (op : Op) (hl : LinkedSt v.istack) (hh : op.honest v)
    (h : v.step op = .ok v') : LinkedSt v'.istack := by
  have hbase : LinkedSt (op.base v) := by
    cases op <;> first | exact hl | (intro s hs; cases hs)
  rcases step_shape op h with ⟨fr, init, hf, hs⟩ | ⟨_, hs, _⟩ | ⟨n, _, hs, _⟩
  · have hp := pushSC_linked hbase (honest_caller hh hf)
    rw [hs]
    split
    · intro s hm; exact hp s (dupTop_mem hm)
    · exact hp
  · rw [hs]; intro s hm; exact hl s (dupTop_mem hm)
  · rw [hs]; intro s hm; exact hl s (drop_mem hm)

/-- an interop-layer step keeps every script context's flags within those of its `callingContext`. -/
theorem step_shrinks {v v' : VM} (op : Op) (hl : ShrinksSt v.istack) (hi : op.interop = true)
    (h : v.step op = .ok v') : ShrinksSt v'.istack := by
  have hbase : ShrinksSt (op.base v) := by
    cases op <;> first | exact hl | (intro s hs; cases hs)
  rcases step_shape op h with ⟨fr, init, hf, hs⟩ | ⟨_, hs, _⟩ | ⟨n, _, hs, _⟩
  · have hp := pushSC_shrinks hbase (interop_flags hi hf)
    rw [hs]
    split
    · intro s hm; exact hp s (dupTop_mem hm)
    · exact hp
  · rw [hs]; intro s hm; exact hl s (dupTop_mem hm)
  · rw [hs]; intro s hm; exact hl s (drop_mem hm)

end NeoModel.Witness

namespace NeoModel.Witness

/-! ### The script-context chain of the executing context is the list of live loads -/

/-- a script context followed by its `callingContext` chain. -/
def SC.chainList : SC → List SC
  | .root f => [.root f]
  | .child f p => .child f p :: p.chainList

/-- the invocation stack without the contexts created by CALL (those share the script context of the one
below): one entry per script load that has not returned yet, innermost first. -/
def live : List SC → List SC
  | [] => []
  | [s] => [s]
  | s :: p :: rest => if s = p then live (p :: rest) else s :: live (p :: rest)

theorem SC.child_ne (f : FrameRec) (p : SC) : SC.child f p ≠ p := by
  intro h
  have := congrArg sizeOf h
  simp at this

/-- On a chain the `callingContext` chain of the executing context is exactly the live loads: nothing that
returned is left in it, nothing live is missing, CALL adds nothing. -/
theorem chain_live : ∀ (s : SC) (rest : List SC), Chain (s :: rest) → live (s :: rest) = s.chainList
  | s, [], h => by
    cases s with
    | root f => rfl
    | child f p => simp [Chain, SC.calling?] at h
  | s, p :: rest, h => by
    obtain ⟨h1, h2⟩ := h
    have ih := chain_live p rest h2
    rcases h1 with rfl | h1
    · simp only [live, if_true]; exact ih
    · cases s with
      | root f => simp [SC.calling?] at h1
      | child f q =>
        simp only [SC.calling?, Option.some.injEq] at h1
        subst h1
        simp only [live, SC.child_ne, if_false, SC.chainList, ih]

/-- the frames of a script-context chain, entry script first. -/
def SC.framesUp : SC → List Frame
  | .root f => [f.toFrame]
  | .child f p => p.framesUp ++ [f.toFrame]

def envSC (k : Hash → Option (List Key)) (s : SC) : Env :=
  { cur := s.frame.toFrame, parents := s.parents, contracts := k }

theorem env_cons (k : Hash → Option (List Key)) (s : SC) (rest : List SC) :
    VM.env k ⟨s :: rest⟩ = some (envSC k s) := rfl

theorem env_of_cons (k : Hash → Option (List Key)) {v : VM} {s : SC} {rest : List SC} (h : v.istack = s :: rest) :
    v.env k = some (envSC k s) := by
  unfold VM.env; rw [h]; rfl

theorem ofCalls_append (k : Hash → Option (List Key)) (f0 : Frame) (fs : List Frame) (f : Frame) :
    Env.ofCalls k f0 (fs ++ [f]) = (Env.ofCalls k f0 fs).push f := by
  simp [Env.ofCalls, List.foldl_append]

/-- The environment the witness check reads is the one the chain layer builds from the frames of the live
loads, entry script first: `Env.ofCalls` is a prediction of the frame machine. -/
theorem envSC_ofCalls (k : Hash → Option (List Key)) : ∀ s : SC,
    ∃ f0 fs, s.framesUp = f0 :: fs ∧ envSC k s = Env.ofCalls k f0 fs
  | .root f => ⟨f.toFrame, [], rfl, rfl⟩
  | .child f p => by
    obtain ⟨f0, fs, h1, h2⟩ := envSC_ofCalls k p
    refine ⟨f0, fs ++ [f.toFrame], by simp [SC.framesUp, h1], ?_⟩
    rw [ofCalls_append, ← h2]
    rfl

theorem framesUp_chainList : ∀ s : SC, s.framesUp = (s.chainList.map (·.frame.toFrame)).reverse
  | .root f => rfl
  | .child f p => by simp [SC.framesUp, SC.chainList, framesUp_chainList p, SC.frame]

theorem parents_length : ∀ s : SC, s.parents.length + 1 = s.chainList.length
  | .root f => rfl
  | .child f p => by simp [SC.parents, SC.chainList, parents_length p]

theorem isCalledByEntry_env (k : Hash → Option (List Key)) : ∀ s : SC,
    (envSC k s).isCalledByEntry = s.isCalledByEntry
  | .root _ => rfl
  | .child _ (.root _) => rfl
  | .child _ (.child _ _) => rfl

/-- the root of a script-context chain. -/
def SC.rootFrame : SC → FrameRec
  | .root f => f
  | .child _ p => p.rootFrame

theorem chainList_getLast : ∀ s : SC, s.chainList.getLast? = some (.root s.rootFrame)
  | .root f => rfl
  | .child f p => by
    have := chainList_getLast p
    cases hp : p.chainList with
    | nil => rw [hp] at this; simp at this
    | cons x xs =>
      rw [hp] at this
      simp only [SC.chainList, hp, SC.rootFrame]
      rw [List.getLast?_cons_cons]; exact this

theorem chain_getLast : ∀ (s : SC) (rest : List SC), Chain (s :: rest) →
    (s :: rest).getLast? = some (.root s.rootFrame)
  | s, [], h => by
    cases s with
    | root f => rfl
    | child f p => simp [Chain, SC.calling?] at h
  | s, p :: rest, h => by
    obtain ⟨h1, h2⟩ := h
    rw [List.getLast?_cons_cons, chain_getLast p rest h2]
    rcases h1 with rfl | h1
    · rfl
    · cases s with
      | root f => simp [SC.calling?] at h1
      | child f q => simp only [SC.calling?, Option.some.injEq] at h1; subst h1; rfl

/-- GetEntryScriptHash (bottom of the invocation stack) is the hash at the root of the executing context's
`callingContext` chain. -/
theorem entryHash_root (s : SC) (rest : List SC) (h : Chain (s :: rest)) :
    (VM.mk (s :: rest)).entryHash = s.rootFrame.hash := by
  simp only [VM.entryHash, chain_getLast s rest h]
  rfl

theorem env_entry_root (k : Hash → Option (List Key)) : ∀ s : SC, (envSC k s).entry = s.rootFrame.hash := by
  intro s
  have key : ∀ s : SC, ((s.frame.toFrame :: s.parents).getLast?.getD s.frame.toFrame).hash = s.rootFrame.hash := by
    intro s
    induction s with
    | root f => rfl
    | child f p ih =>
      show (((f.toFrame :: p.frame.toFrame :: p.parents).getLast?).getD f.toFrame).hash = p.rootFrame.hash
      rw [List.getLast?_cons_cons]
      cases hp : (p.frame.toFrame :: p.parents).getLast? with
      | none => simp at hp
      | some x => rw [hp] at ih; simpa using ih
  exact key s

/-- with linked callers, `GetCallingScriptHash` is the hash of the script context that loaded the executing
one, and zero in the entry script. -/
theorem calling_linked (k : Hash → Option (List Key)) : ∀ s : SC, s.linked →
    (envSC k s).calling = match s with | .root _ => 0 | .child _ p => p.frame.hash
  | .root _, h => h
  | .child _ _, h => h.1

theorem shrinks_root : ∀ s : SC, s.shrinks → Flags.sub s.frame.flags s.rootFrame.flags
  | .root _, _ => Flags.sub_refl _
  | .child _ p, h => Flags.sub_trans h.1 (shrinks_root p h.2)

end NeoModel.Witness

namespace NeoModel.Witness

/-! ### Returns restore the caller's context exactly -/

/-- the run never resets the VM and never pops below height `n`. -/
def StaysAbove (n : Nat) : VM → List Op → Prop
  | _, [] => True
  | v, op :: ops => (∀ h f, op ≠ .loadWithFlags h f) ∧
    match v.step op with
    | .ok v' => n ≤ v'.istack.length ∧ StaysAbove n v' ops
    | .error _ => True

theorem pushSC_cons (st : List SC) (fr : FrameRec) : ∃ x, pushSC st fr = x :: st := by
  cases st with
  | nil => exact ⟨_, rfl⟩
  | cons p rest => exact ⟨_, rfl⟩

theorem dupTop_suffix (st : List SC) : st <:+ dupTop st := by
  cases st with
  | nil => exact List.suffix_refl _
  | cons s rest => exact List.suffix_cons s (s :: rest)

theorem suffix_drop {α : Type} {base l : List α} {n : Nat} (h : base <:+ l)
    (hl : base.length ≤ (l.drop n).length) : base <:+ l.drop n := by
  cases base with
  | nil => exact List.nil_suffix
  | cons b bs =>
    obtain ⟨t, rfl⟩ := h
    have hn : n ≤ t.length := by simp at hl; omega
    rw [List.drop_append_of_le_length hn]
    exact List.suffix_append _ _

theorem step_suffix {v v' : VM} {op : Op} {base : List SC} (hb : base <:+ v.istack)
    (hn : ∀ h f, op ≠ .loadWithFlags h f) (h : v.step op = .ok v') (hl : base.length ≤ v'.istack.length) :
    base <:+ v'.istack := by
  have hbase : op.base v = v.istack := by
    cases op <;> first | rfl | exact absurd rfl (hn _ _)
  rcases step_shape op h with ⟨fr, init, _, hs⟩ | ⟨_, hs, _⟩ | ⟨n, _, hs, _⟩
  · obtain ⟨x, hx⟩ := pushSC_cons v.istack fr
    have h1 : base <:+ pushSC v.istack fr := by rw [hx]; exact List.IsSuffix.trans hb (List.suffix_cons _ _)
    rw [hs, hbase]
    split
    · exact List.IsSuffix.trans h1 (dupTop_suffix _)
    · exact h1
  · rw [hs]; exact List.IsSuffix.trans hb (dupTop_suffix _)
  · rw [hs]; rw [hs] at hl; exact suffix_drop hb hl

theorem run_suffix : ∀ (ops : List Op) {v v' : VM} {base : List SC}, base <:+ v.istack →
    StaysAbove base.length v ops → v.run ops = .ok v' → base <:+ v'.istack
  | [], v, v', base, hb, _, h => by simp [VM.run] at h; cases h; exact hb
  | op :: ops, v, v', base, hb, hs, h => by
    simp only [VM.run] at h
    obtain ⟨hn, hs⟩ := hs
    split at h
    · cases h
    · rename_i v1 h1
      rw [h1] at hs
      exact run_suffix ops (step_suffix hb hn h1 hs.1) hs.2 h

/-- Whatever a script does after a point of its execution — loads, CALLs, returns, caught exceptions, nested
to any depth — as long as its own context is not popped, the contexts below and including it are untouched;
when the height is back, the whole invocation stack (every hash, calling hash and flag set) is as before. -/
theorem returns_restore {v v' : VM} (ops : List Op) (hs : StaysAbove v.istack.length v ops)
    (h : v.run ops = .ok v') (hl : v'.istack.length = v.istack.length) : v' = v := by
  have := run_suffix ops (List.suffix_refl v.istack) hs h
  have := List.IsSuffix.eq_of_length this hl.symm
  cases v; cases v'; simp_all

/-! ### Reachable states -/

/-- the states reached from the empty VM by steps that satisfy `P`. -/
inductive Reach (P : VM → Op → Prop) : VM → Prop
  | empty : Reach P VM.empty
  | step {v v' : VM} {op : Op} : Reach P v → P v op → v.step op = .ok v' → Reach P v'

theorem reach_chain {P : VM → Op → Prop} {v : VM} (h : Reach P v) : Chain v.istack := by
  induction h with
  | empty => trivial
  | step _ _ hs ih => exact step_chain _ ih hs

theorem reach_linked {P : VM → Op → Prop} (hP : ∀ v op, P v op → op.honest v) {v : VM} (h : Reach P v) :
    LinkedSt v.istack := by
  induction h with
  | empty => intro s hs; cases hs
  | step _ hp hs ih => exact step_linked _ ih (hP _ _ hp) hs

/-- an entry point (a load on an empty or cleared stack) or an interop-layer step. -/
def Op.entryOrInterop (v : VM) (op : Op) : Prop := op.base v = [] ∨ op.interop = true

theorem step_shrinks' {v v' : VM} (op : Op) (hl : ShrinksSt v.istack) (hi : op.entryOrInterop v)
    (h : v.step op = .ok v') : ShrinksSt v'.istack := by
  rcases hi with hb | hi
  · rcases step_shape op h with ⟨fr, init, _, hs⟩ | ⟨_, hs, _⟩ | ⟨n, _, hs, _⟩
    · have hp : ShrinksSt (pushSC (op.base v) fr) := by
        rw [hb]; intro s hm; simp [pushSC] at hm; subst hm; trivial
      rw [hs]
      split
      · intro s hm; exact hp s (dupTop_mem hm)
      · exact hp
    · rw [hs]; intro s hm; exact hl s (dupTop_mem hm)
    · rw [hs]; intro s hm; exact hl s (drop_mem hm)
  · exact step_shrinks op hl hi h

theorem reach_shrinks {P : VM → Op → Prop} (hP : ∀ v op, P v op → op.entryOrInterop v) {v : VM}
    (h : Reach P v) : ShrinksSt v.istack := by
  induction h with
  | empty => intro s hs; cases hs
  | step _ hp hs ih => exact step_shrinks' _ ih (hP _ _ hp) hs

end NeoModel.Witness
