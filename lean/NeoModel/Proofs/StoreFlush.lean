/-
C09 helper lemmas: every atomic step of a flush preserves `flatten` and the representation
invariant; schedules of client writes and flush steps refine the ordered map.
-/
import NeoModel.Proofs.StoreFlatten
set_option linter.unusedSimpArgs false
namespace NeoModel.Store

theorem layerSays_congr (L : Layer) (pr : Bool) (nm : Bool) (q : Key) :
    layerSays { priv := pr, mem := L.mem, stor := L.stor, nilMaps := nm } q = layerSays L q := rfl

theorem overlay_same_maps (L : Layer) (pr nm : Bool) (f : SpecMap) :
    overlay { priv := pr, mem := L.mem, stor := L.stor, nilMaps := nm } f = overlay L f :=
  overlay_congr_says _ _ f (fun _ => rfl)

theorem flatten_persist1 (L : Layer) (ps : Store) :
    (Store.cached L ps).persist1.flatten = (Store.cached L ps).flatten := by
  simp only [Store.persist1, Store.flatten]
  rw [overlay_congr_says { L with mem := [], stor := [] } { priv := L.priv, mem := [], stor := [], nilMaps := L.nilMaps } _ (fun _ => rfl)]
  rw [overlay_empty_layer]
  exact overlay_congr_says _ _ _ (fun _ => rfl)

theorem flatten_putChangeSet_layer (s : Store) (T : Layer) (hT : T.WF) :
    (s.putChangeSet T.mem T.stor).flatten = overlay T s.flatten := by
  rw [flatten_putChangeSet s T.mem T.stor hT.1 hT.2.1 hT.2.2]
  exact overlay_congr_says _ _ _ (fun _ => rfl)

theorem flatten_persist2 (F T : Layer) (ps : Store) (hT : T.WF) :
    (Store.cached F (.cached T ps)).persist2.flatten = (Store.cached F (.cached T ps)).flatten := by
  simp only [Store.persist2, Store.flatten]
  rw [flatten_putChangeSet_layer ps T hT, overlay_idem]

theorem covered_after_write (T : Layer) (ps : Store) (hT : T.WF) :
    Covered T (ps.putChangeSet T.mem T.stor) := by
  unfold Covered
  rw [flatten_putChangeSet_layer ps T hT, overlay_idem]

theorem flatten_persist3 (F T : Layer) (ps : Store) (h : Covered T ps) :
    (Store.cached F (.cached T ps)).persist3.flatten = (Store.cached F (.cached T ps)).flatten := by
  simp only [Store.persist3, Store.flatten]
  rw [h]

theorem overlay_copy (T L : Layer) (hL : L.WF) (pr nm : Bool) (f : SpecMap) :
    overlay { priv := pr, mem := mapCopy T.mem L.mem, stor := mapCopy T.stor L.stor, nilMaps := nm } f
      = overlay L (overlay T f) := by
  have := overlay_putCS T L.mem L.stor hL.1 hL.2.1 f
  rw [← overlay_congr_says { priv := false, mem := L.mem, stor := L.stor } L _ (fun _ => rfl)]
  rw [← this]
  exact overlay_congr_says _ _ _ (fun _ => rfl)

theorem layerSays_fill (F T : Layer) (q : Key) :
    layerSays (fillLayer F T) q = match layerSays F q with | some x => some x | none => layerSays T q := by
  unfold layerSays Layer.choose fillLayer
  by_cases hq : isStor q = true
  · simp only [hq, if_true, mapGet_fill]; cases mapGet F.stor q <;> rfl
  · simp only [hq, Bool.false_eq_true, if_false, mapGet_fill]; cases mapGet F.mem q <;> rfl

theorem Layer.WF_fill (F T : Layer) (hF : F.WF) (hT : T.WF) : (fillLayer F T).WF := by
  refine ⟨MapWF_fill _ _ hF.1, MapWF_fill _ _ hF.2.1, ?_, ?_⟩
  · intro e he
    rcases mem_mapFill he with h | h
    · exact hF.2.2.1 e h
    · exact hT.2.2.1 e h
  · intro e he
    rcases mem_mapFill he with h | h
    · exact hF.2.2.2 e h
    · exact hT.2.2.2 e h

theorem overlay_fill (F T : Layer) (f : SpecMap) : overlay (fillLayer F T) f = overlay F (overlay T f) := by
  funext q
  simp only [overlay, layerSays_fill]
  cases layerSays F q with
  | none => rfl
  | some x => cases x <;> rfl

/-- a failed flush leaves readable the union of the new and the swapped-out maps, newer values winning —
exactly what was readable before it. -/
theorem flatten_persist3Fail (F T : Layer) (ps : Store) (_hF : F.WF) :
    (Store.cached F (.cached T ps)).persist3Fail.flatten = (Store.cached F (.cached T ps)).flatten := by
  simp only [Store.persist3Fail, Store.flatten]
  exact overlay_fill F T _

/-- the whole flush of one store (private persist, PersistSync, or Persist with nothing in between). -/
theorem flatten_persist (L : Layer) (ps : Store) (hL : L.WF) :
    (Store.cached L ps).persist.1.flatten = (Store.cached L ps).flatten := by
  unfold Store.persist
  by_cases h0 : (L.count == 0) = true
  · simp [h0]
  · simp only [h0, if_false, Bool.false_eq_true]
    by_cases hp : L.priv = true
    · simp only [hp, if_true, Store.flatten]
      rw [flatten_putChangeSet_layer ps L hL]
      exact overlay_empty_layer _ _ _
    · simp only [hp, if_false, Bool.false_eq_true]
      have h1 := flatten_persist1 L ps
      simp only [Store.persist1] at h1 ⊢
      have hT : ({ L with priv := false } : Layer).WF := hL
      have h2 := flatten_persist2 { L with mem := [], stor := [] } { L with priv := false } ps hT
      have h3 := flatten_persist3 { L with mem := [], stor := [] } { L with priv := false }
        (ps.putChangeSet L.mem L.stor) (covered_after_write { L with priv := false } ps hT)
      simp only [Store.persist2] at h2 h3 ⊢
      rw [h3, h2, h1]

theorem flatten_privateInto (P L : Layer) (ps : Store) (hP : P.WF) :
    (Store.cached { P with mem := [], stor := [], nilMaps := true } (.cached (L.putCS P.mem P.stor) ps)).flatten
      = (Store.cached P (.cached L ps)).flatten := by
  simp only [Store.flatten]
  rw [overlay_congr_says { P with mem := [], stor := [], nilMaps := true } { priv := P.priv, mem := [], stor := [], nilMaps := true } _ (fun _ => rfl)]
  rw [overlay_empty_layer, overlay_putCS L P.mem P.stor hP.1 hP.2.1]
  exact overlay_congr_says _ _ _ (fun _ => rfl)

/-! ### WF is an invariant -/

theorem mem_mapSet {m : GoMap} {k : Key} {v : Option Val} {e : Key × Option Val} (h : e ∈ mapSet m k v) :
    e = (k, v) ∨ e ∈ m := by
  unfold mapSet at h
  rcases List.mem_cons.mp h with h | h
  · exact Or.inl h
  · exact Or.inr (List.mem_filter.mp h).1

theorem mem_mapCopy {dst src : GoMap} {e : Key × Option Val} (h : e ∈ mapCopy dst src) : e ∈ dst ∨ e ∈ src := by
  unfold mapCopy at h
  induction src generalizing dst with
  | nil => exact Or.inl h
  | cons x src ih =>
    rw [List.foldl_cons] at h
    rcases ih h with h1 | h1
    · rcases mem_mapSet h1 with h2 | h2
      · right; rw [h2]; exact List.mem_cons_self
      · exact Or.inl h2
    · exact Or.inr (List.mem_cons_of_mem _ h1)

theorem Layer.WF_set (L : Layer) (k : Key) (v : Option Val) (h : L.WF) : (L.set k v).WF := by
  unfold Layer.set
  by_cases hk : isStor k = true
  · simp only [hk, if_true]
    refine ⟨h.1, MapWF_set _ _ _ h.2.1, h.2.2.1, ?_⟩
    intro e he
    rcases mem_mapSet he with h1 | h1
    · rw [h1]; exact hk
    · exact h.2.2.2 e h1
  · simp only [hk, if_false, Bool.false_eq_true]
    refine ⟨MapWF_set _ _ _ h.1, h.2.1, ?_, h.2.2.2⟩
    intro e he
    rcases mem_mapSet he with h1 | h1
    · rw [h1]; simpa using hk
    · exact h.2.2.1 e h1

theorem Layer.WF_putCS (L : Layer) (p st : GoMap) (h : L.WF) (hpl : Placed p st) : (L.putCS p st).WF := by
  refine ⟨MapWF_copy _ _ h.1, MapWF_copy _ _ h.2.1, ?_, ?_⟩
  · intro e he
    rcases mem_mapCopy he with h1 | h1
    · exact h.2.2.1 e h1
    · exact hpl.1 e h1
  · intro e he
    rcases mem_mapCopy he with h1 | h1
    · exact h.2.2.2 e h1
    · exact hpl.2 e h1

theorem Layer.WF_clear (_L : Layer) (pr nm : Bool) : ({ priv := pr, mem := [], stor := [], nilMaps := nm } : Layer).WF := by
  refine ⟨MapWF_nil, MapWF_nil, ?_, ?_⟩ <;> intro e he <;> cases he

theorem Store.WF_putChangeSet (s : Store) (p st : GoMap) (h : s.WF) (hpl : Placed p st) :
    (s.putChangeSet p st).WF := by
  cases s with
  | memB m s0 => exact ⟨MapWF_copy _ _ h.1, MapWF_copy _ _ h.2⟩
  | level db => exact DbWF_apply _ _ (DbWF_apply _ _ h)
  | bolt db => exact DbWF_apply _ _ (DbWF_apply _ _ h)
  | cached L ps => exact ⟨Layer.WF_putCS L p st h.1 hpl, h.2⟩

theorem flushStep_WF {s s' : Store} (st : FlushStep s s') (h : s.WF) : s'.WF := by
  induction st with
  | «begin» L ps => exact ⟨Layer.WF_clear L _ _, h.1, h.2⟩
  | write F T ps => exact ⟨h.1, h.2.1, Store.WF_putChangeSet ps _ _ h.2.2 h.2.1.2.2⟩
  | finish F T ps _ => exact ⟨h.1, h.2.2⟩
  | fail F T ps =>
    exact ⟨Layer.WF_fill F T h.1 h.2.1, h.2.2⟩
  | whole L ps =>
    unfold Store.persist
    by_cases h0 : (L.count == 0) = true
    · simpa [h0] using h
    · simp only [h0, if_false, Bool.false_eq_true]
      by_cases hp : L.priv = true
      · simp only [hp, if_true]
        exact ⟨Layer.WF_clear L _ _, Store.WF_putChangeSet ps _ _ h.2 h.1.2.2⟩
      · simp only [hp, if_false, Bool.false_eq_true]
        exact ⟨Layer.WF_clear L _ _, Store.WF_putChangeSet ps _ _ h.2 h.1.2.2⟩
  | privateInto P L ps =>
    exact ⟨Layer.WF_clear P _ _, Layer.WF_putCS L _ _ h.2.1 h.1.2.2, h.2.2⟩
  | deeper L ps ps' _ ih => exact ⟨h.1, ih h.2⟩

theorem flushStep_flatten {s s' : Store} (st : FlushStep s s') (h : s.WF) : s'.flatten = s.flatten := by
  induction st with
  | «begin» L ps => exact flatten_persist1 L ps
  | write F T ps => exact flatten_persist2 F T ps h.2.1
  | finish F T ps hc => exact flatten_persist3 F T ps hc
  | fail F T ps => exact flatten_persist3Fail F T ps h.1
  | whole L ps => exact flatten_persist L ps h.1
  | privateInto P L ps => exact flatten_privateInto P L ps h.1
  | deeper L ps ps' _ ih => simp only [Store.flatten, ih h.2]

theorem sysStep_WF {s s' : Store} {e : Ev} (st : SysStep s e s') (h : s.WF) : s'.WF := by
  cases st with
  | put L ps k v => exact ⟨Layer.WF_set L k v h.1, h.2⟩
  | batch L ps p st' hp hs hpl => exact ⟨Layer.WF_putCS L p st' h.1 hpl, h.2⟩
  | flush _ _ f => exact flushStep_WF f h

theorem sysStep_flatten {s s' : Store} {e : Ev} (st : SysStep s e s') (h : s.WF) :
    s'.flatten = specAfter s.flatten [e] := by
  cases st with
  | put L ps k v => exact flatten_put L ps k v
  | batch L ps p st' hp hs hpl =>
    simp only [specAfter, Store.flatten]
    exact overlay_putCS L p st' hp hs _
  | flush _ _ f => exact flushStep_flatten f h

theorem specAfter_append (f : SpecMap) (a b : List Ev) : specAfter f (a ++ b) = specAfter (specAfter f a) b := by
  induction a generalizing f with
  | nil => rfl
  | cons e es ih => cases e <;> simp [specAfter, ih]

theorem run_WF {s s' : Store} {es : List Ev} (r : Run s es s') (h : s.WF) : s'.WF := by
  induction r with
  | nil => exact h
  | cons s s1 s2 e es st _ ih => exact ih (sysStep_WF st h)

theorem run_flatten {s s' : Store} {es : List Ev} (r : Run s es s') (h : s.WF) :
    s'.flatten = specAfter s.flatten es := by
  induction r with
  | nil => rfl
  | cons s s1 s2 e es st _ ih =>
    rw [ih (sysStep_WF st h), sysStep_flatten st h]
    exact (specAfter_append s.flatten [e] es).symm

/-- the guard of `finish` survives whatever the rest of the system does below. -/
theorem covered_stable (T : Layer) {ps ps' : Store} (h : Covered T ps) (hw : ps.WF) (st : FlushStep ps ps') :
    Covered T ps' := by
  unfold Covered at *
  rw [flushStep_flatten st hw]; exact h

end NeoModel.Store
