/-
Helper lemmas for C04 about the specification semantics `sp` alone.
-/
import NeoModel.Model.Exec
namespace NeoModel.Exec

/-- a run that starts without a pending exception and ends normally ends without one. -/
theorem sp_norm_exc (t : Tree) : ∀ (c : Nat) (f : Flags) (S S' : St), S.exc = false → sp t c f S = .norm S' → S'.exc = false := by
  induction t with
  | skip => intro c f S S' h e; simp only [sp] at e; cases e; exact h
  | seq a b iha ihb =>
    intro c f S S' h e
    simp only [sp] at e
    cases ha : sp a c f S with
    | norm s1 => rw [ha] at e; exact ihb c f s1 S' (iha c f S s1 h ha) e
    | thrown s1 => rw [ha] at e; cases e
    | fault s1 => rw [ha] at e; cases e
  | put k v => intro c f S S' h e; simp only [sp] at e; split at e <;> cases e; exact h
  | del k => intro c f S S' h e; simp only [sp] at e; split at e <;> cases e; exact h
  | notify ev =>
    intro c f S S' h e; simp only [sp] at e
    split at e
    · split at e <;> cases e; exact h
    · cases e
  | ifp k body ih =>
    intro c f S S' h e
    simp only [sp] at e
    split at e
    · split at e
      · exact ih c f S S' h e
      · cases e; exact h
    · cases e
  | call c' fl body ih =>
    intro c f S S' h e
    simp only [sp] at e
    split at e
    · cases hb : sp body c' (f.and fl) S with
      | norm s1 => rw [hb] at e; cases e; exact ih _ _ S _ h hb
      | thrown s1 => rw [hb] at e; cases e
      | fault s1 => rw [hb] at e; cases e
    · cases e
  | loc body ih => intro c f S S' h e; simp only [sp] at e; exact ih c f S S' h e
  | try_ body hasC cat hasF fin ihb ihc ihf =>
    intro c f S S' h e
    simp only [sp] at e
    have hend : ∀ s1, s1.exc = false → spEnd hasF (sp fin c f) s1 = .norm S' → S'.exc = false := by
      intro s1 h1 e1
      unfold spEnd at e1
      split at e1
      · cases hf : sp fin c f s1 with
        | norm s3 =>
          rw [hf] at e1
          simp only at e1
          split at e1
          · cases e1
          · cases e1; rename_i hne; simpa using hne
        | thrown s3 => rw [hf] at e1; cases e1
        | fault s3 => rw [hf] at e1; cases e1
      · cases e1; exact h1
    have hfe : ∀ s1, spFinExc (sp fin c f) s1 ≠ .norm S' := by
      intro s1
      unfold spFinExc
      cases sp fin c f s1 <;> simp only <;> (try split) <;> simp
    split at e
    · cases e
    · cases hb : sp body c f S with
      | norm s1 => rw [hb] at e; exact hend s1 (ihb c f S s1 h hb) e
      | thrown s1 =>
        rw [hb] at e
        simp only at e
        split at e
        · cases hc : sp cat c f { s1 with exc := false } with
          | norm s2 => rw [hc] at e; exact hend s2 (ihc c f _ s2 rfl hc) e
          | thrown s2 =>
            rw [hc] at e
            simp only at e
            split at e
            · exact absurd e (hfe s2)
            · cases e
          | fault s2 => rw [hc] at e; cases e
        · exact absurd e (hfe s1)
      | fault s1 => rw [hb] at e; cases e
  | throw => intro c f S S' h e; simp only [sp] at e; cases e
  | abort => intro c f S S' h e; simp only [sp] at e; cases e
  | native inner o fl cb k ih ihk =>
    intro c f S S' h e
    simp only [sp] at e
    split at e
    · generalize (if inner = true then f else f.and fl) = f' at e
      cases hn : natStep o c f' S.σ.get with
      | none => rw [hn] at e; cases e
      | some out =>
        rw [hn] at e
        simp only [spPhase] at e
        by_cases hlim : maxNotifications < (S.ev ++ out.evs).length
        · simp only [hlim, if_true] at e; cases e
        simp only [hlim, if_false] at e
        have tail : ∀ S2 : St, S2.exc = false →
            (match sp k c f' S2 with | .norm s3 => Res.norm s3 | .thrown s3 => .fault s3 | .fault s3 => .fault s3) = .norm S' →
            S'.exc = false := by
          intro S2 h2 e2
          cases hk : sp k c f' S2 with
          | norm s3 => rw [hk] at e2; cases e2; exact ihk _ _ S2 _ h2 hk
          | thrown s3 => rw [hk] at e2; cases e2
          | fault s3 => rw [hk] at e2; cases e2
        cases hcb : out.cb with
        | none => rw [hcb] at e; simp only at e; exact tail { S with σ := out.ws ++ S.σ, ev := S.ev ++ out.evs } h e
        | some to =>
          rw [hcb] at e
          simp only at e
          by_cases hab : out.cbAbort = true
          · simp only [hab, if_true] at e; cases e
          simp only [hab, if_false, Bool.false_eq_true] at e
          cases hb : sp cb to f' { S with σ := out.ws ++ S.σ, ev := S.ev ++ out.evs } with
          | norm s2 =>
            rw [hb] at e
            exact tail s2 (ih _ _ { S with σ := out.ws ++ S.σ, ev := S.ev ++ out.evs } _ h hb) e
          | thrown s2 => rw [hb] at e; cases e
          | fault s2 => rw [hb] at e; cases e
    · cases e


/-- specification level: a try/catch around a call whose callee ends with an exception is the
    catch block alone, run on the state from before the call. -/
theorem sp_try_call_thrown (c1 : Nat) (fl1 : Flags) (body cat : Tree) (c : Nat) (f : Flags) (S S' : St)
    (hf : (f.r && f.c && alive S.σ.get c1) = true) (hexc : S.exc = false) (hthrow : sp body c1 (f.and fl1) S = .thrown S') :
    sp (.try_ (.call c1 fl1 body) true cat false .skip) c f S = sp cat c f S := by
  have hS : ({ S with exc := false } : St) = S := by cases S; simp_all
  simp only [sp, hf, hthrow, if_true, Bool.not_true, Bool.false_and, Bool.false_eq_true, if_false, hS, spEnd]
  cases sp cat c f S <;> rfl

theorem sp_seq_norm {a b : Tree} {c f S Sa} (h : sp a c f S = .norm Sa) : sp (.seq a b) c f S = sp b c f Sa := by
  simp only [sp, h]

theorem sp_seq_congr {t1 t2 d : Tree} {c f S} (h : sp t1 c f S = sp t2 c f S) :
    sp (.seq t1 d) c f S = sp (.seq t2 d) c f S := by
  simp only [sp, h]

theorem sp_call_congr {b1 b2 : Tree} {c' fl c f S} (h : sp b1 c' (f.and fl) S = sp b2 c' (f.and fl) S) :
    sp (.call c' fl b1) c f S = sp (.call c' fl b2) c f S := by
  simp only [sp, h]


theorem sp_call_norm {b : Tree} {c' fl c f S S1} (hf : (f.r && f.c && alive S.σ.get c') = true) (h : sp b c' (f.and fl) S = .norm S1) :
    sp (.call c' fl b) c f S = .norm S1 := by
  simp only [sp, hf, h, if_true]

end NeoModel.Exec
