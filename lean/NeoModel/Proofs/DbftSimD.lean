/- C19 simulation, part D: the network of machines against the guarded-command model. -/
import NeoModel.Proofs.DbftSimC16
namespace NeoModel.Dbft.Mach
open NeoModel.Dbft

/-- the invariant of the network of machines `ms` against the abstract state `as` -/
structure NetInv (e : Env) (ms : MNet) (as : State) : Prop where
  g : G e as
  rn : ∀ i, i < e.n → RN e as i (ms.nodes i)
  net : ∀ to pl, (to, pl) ∈ ms.net → Claims e as pl

theorem mem_sends (e : Env) (i : Nat) (outs : List Out) (to : Nat) (pl : Pl) (h : (to, pl) ∈ sends e i outs) :
    Out.bcast pl ∈ outs := by
  unfold sends at h
  rw [List.mem_flatMap] at h
  obtain ⟨o, ho, h2⟩ := h
  cases o with
  | bcast p =>
    simp only [List.mem_map] at h2
    obtain ⟨j, _, hj⟩ := h2
    simp only [Prod.mk.injEq] at hj
    rw [← hj.2]; exact ho
  | _ => simp at h2

/-- after an event of machine `i` that went from `as` to an extension `as'` with a good world -/
theorem netinv_after {e : Env} {ms : MNet} {as as' : State} {i : Nat} {w' : W} (net0 : List (Nat × Pl))
    (inv : NetInv e ms as) (hnet0 : ∀ x, x ∈ net0 → x ∈ ms.net) (x : SimExt (cfgOf e) i as as') (g : Good e as' i w') :
    NetInv e { nodes := fun j => if j = i then w'.nd else ms.nodes j, net := sends e i w'.out.reverse ++ net0 } as' := by
  refine ⟨g.g, ?_, ?_⟩
  · intro j hj
    by_cases hji : j = i
    · subst hji; simp only [if_true]; exact g.rn
    · simp only [hji, if_false]; exact (inv.rn j hj).other x hji
  · intro to pl hm
    rw [List.mem_append] at hm
    rcases hm with hm | hm
    · exact g.outs pl (by simpa using mem_sends e i _ to pl hm)
    · exact (inv.net to pl (hnet0 _ hm)).ext x

theorem rn_initNode (e : Env) (i : Nat) : RN e init i (initNode e i) := by
  refine ⟨rfl, by simp [initNode, blanks], rfl, rfl, ?_, ?_, ?_, ?_, ?_, ?_, ?_, ?_⟩
  · right; right; exact ⟨rfl, rfl, rfl, rfl, rfl⟩
  · simp [initNode, Env.primary]
  · intro j m hj; simp [initNode, slot_blanks] at hj
  · intro j m hj; simp [initNode, slot_blanks] at hj
  · intro j m hj; simp [initNode, slot_blanks] at hj
  · intro j m hj; simp [initNode, slot_blanks] at hj
  · intro h box hb; simp [initNode] at hb
  · intro y sb hj; simp [initNode, slot_blanks] at hj

theorem netinv_init (e : Env) : NetInv e (minit e) init := by
  refine ⟨⟨Reachable.init, ⟨fun j b hb => by simp [init] at hb, fun j b hb => by simp [init] at hb⟩⟩, fun i _ => rn_initNode e i, ?_⟩
  intro to pl h; simp [minit] at h

/-- a started machine of the network, at the start of an event -/
theorem good_start_of_event {e : Env} {ms : MNet} {as : State} (inv : NetInv e ms as) (i : Nat) (hi : i < e.n)
    (hst : started (ms.nodes i) = true) (inp : Inp) :
    Good e as i { nd := ms.nodes i, now := inp.now, fresh := inp.fresh, hints := inp.hints } :=
  ⟨inv.g, inv.rn i hi, fun pl hp => by simp at hp, fun b s hp => by simp at hp, by simpa [started] using hst, hi⟩

theorem blockAt_eq (nd : Node) (an : NeoModel.Dbft.Node) (h : an.chain = nd.chain) (k : Nat) :
    NeoModel.Dbft.blockAt an k = blockAtH nd k := by
  unfold NeoModel.Dbft.blockAt blockAtH; rw [h]

/-- the world in which machine `i` handles an event -/
def w0 (ms : MNet) (i : Nat) (inp : Inp) : W :=
  { nd := ms.nodes i, now := inp.now, fresh := inp.fresh, hints := inp.hints }

theorem react_eq (e : Env) (s : MNet) (i : Nat) (ev : Event) (inp : Inp) :
    react e s i ev inp =
      { nodes := fun j => if j = i then (syncChain e fuel (handle e (w0 s i inp) inp.gts ev)).nd else s.nodes j,
        net := sends e i (syncChain e fuel (handle e (w0 s i inp) inp.gts ev)).out.reverse ++ s.net } := rfl

/-- an event of machine `i` that is simulated keeps the network invariant -/
theorem netinv_react {e : Env} {ms : MNet} {as : State} (inv : NetInv e ms as) (net0 : List (Nat × Pl))
    (hnet0 : ∀ x, x ∈ net0 → x ∈ ms.net) (i : Nat) (ev : Event) (inp : Inp)
    (hp : Prog e i as (syncChain e fuel (handle e (w0 ms i inp) inp.gts ev))) :
    ∃ as', NetInv e (react e { ms with net := net0 } i ev inp) as' ∧
      ∀ b s, Out.block b s ∈ (reaction e { ms with net := net0 } i ev inp).2.1 → SigsOK e s := by
  obtain ⟨as', x, g⟩ := hp
  refine ⟨as', ?_, ?_⟩
  · rw [react_eq]
    exact netinv_after (ms := ms) net0 inv hnet0 x g
  · intro b s hb
    have : Out.block b s ∈ (syncChain e fuel (handle e (w0 ms i inp) inp.gts ev)).out := by
      have h2 : (reaction e { ms with net := net0 } i ev inp).2.1 =
          (syncChain e fuel (handle e (w0 ms i inp) inp.gts ev)).out.reverse := rfl
      rw [h2] at hb; simpa using hb
    exact g.blk b s this

theorem good_w0 {e : Env} {ms : MNet} {as : State} (inv : NetInv e ms as) (i : Nat) (hi : i < e.n)
    (hst : started (ms.nodes i) = true) (inp : Inp) : Good e as i (w0 ms i inp) :=
  ⟨inv.g, inv.rn i hi, fun pl hp => by simp [w0] at hp, fun b s hp => by simp [w0] at hp, by simpa [started, w0] using hst, hi⟩

/-- `initializeConsensus` when nothing is cached: only the timer is armed -/
theorem initTail_nocache (k : W → Pl → W) (e : Env) (w : W) (view : Nat) (hc : w.nd.cache = []) :
    (initTail k e w view).nd.blockProcessed = w.nd.blockProcessed ∧ (initTail k e w view).nd.prep = w.nd.prep ∧
    (initTail k e w view).nd.pidx = w.nd.pidx ∧ (initTail k e w view).nd.bi = w.nd.bi ∧
    (initTail k e w view).nd.view = w.nd.view ∧ (initTail k e w view).nd.my = w.nd.my ∧
    (initTail k e w view).fresh = w.fresh := by
  unfold initTail
  simp [stopTx, W.upd, W.emit, hc, changeTimer]

theorem find_some_h {l : List Block} {k : Nat} {b : Block} (h : l.find? (fun b => b.h == k) = some b) : b.h = k := by
  have := List.find?_some h
  simpa using this

theorem syncChain_ahead (e : Env) (f : Nat) (w : W) (b : Block) (rest : List Block) (hc : w.nd.chain = b :: rest)
    (hge : b.h ≥ w.nd.bi) :
    syncChain e (f + 1) w = syncChain e f (initConsensus (onReceive e fuel) e (w.upd fun nd => postBlock e nd b) 0
      ((e.prop b.p).ts * 1000000)) := by
  rw [syncChain]
  simp only [hc, hge, if_true]

/-- what the machine concerned does in a network event -/
def evOuts (e : Env) (ms : MNet) (inp : Inp) : NEv → List Out
  | .start i => (reaction e ms i .start inp).2.1
  | .deliver to m => (reaction e { ms with net := ms.net.erase (to, m) } to (.recv m) inp).2.1
  | .tick i => (reaction e ms i .tick inp).2.1
  | .tx i t => (reaction e ms i (.tx t) inp).2.1
  | .relay i j =>
    match blockAtH (ms.nodes j) ((ms.nodes i).height + 1) with
    | some b => (reaction e ms i (.block b) inp).2.1
    | none => []
  | _ => []

/-- every event of the network is matched by an extension of the abstract state, and every block a machine
hands to its ledger in the event carries exactly M signatures, of that block only, in validator order -/
theorem netinv_step {e : Env} {ms : MNet} {as : State} (inv : NetInv e ms as) (ev : NEv) (inp : Inp)
    (hen : NEnabled e ms inp ev) : ∃ as', NetInv e (napply e ms inp ev) as' ∧
      ∀ b s, Out.block b s ∈ evOuts e ms inp ev → SigsOK e s := by
  cases ev with
  | drop to m =>
    exact ⟨as, ⟨inv.g, inv.rn, fun t pl h => inv.net t pl (List.mem_of_mem_erase h)⟩, fun b s h => by simp [evOuts] at h⟩
  | dup to m =>
    refine ⟨as, ⟨inv.g, inv.rn, fun t pl h => ?_⟩, fun b s h => by simp [evOuts] at h⟩
    simp only [napply, List.mem_cons] at h
    rcases h with h | h
    · cases h; exact inv.net to m hen
    · exact inv.net t pl h
  | pool i l =>
    refine ⟨as, ⟨inv.g, ?_, inv.net⟩, fun b s h => by simp [evOuts] at h⟩
    intro j hj
    simp only [napply]
    by_cases hji : j = i
    · subst hji; simp only [if_true]
      exact (inv.rn j hj).congr rfl rfl rfl rfl rfl rfl rfl rfl rfl id rfl
    · simp only [hji, if_false]; exact inv.rn j hj
  | deliver to m =>
    obtain ⟨hm, hto, hst, _⟩ := hen
    have g0 := good_w0 inv to hto hst inp
    have hc := claims_fillPrepHash (ms.nodes to) m (inv.net to m hm)
    apply netinv_react inv (ms.net.erase (to, m)) (fun x hx => List.mem_of_mem_erase hx) to (.recv m) inp
    exact (kok_onReceive e to fuel as _ _ g0 hc).bind (fun as1 g1 => prog_syncChain fuel as1 _ g1)
  | tick i =>
    obtain ⟨hi, hst, hfr⟩ := hen
    have g0 := good_w0 inv i hi hst inp
    apply netinv_react inv ms.net (fun x hx => hx) i .tick inp
    have g0' : Good e as i ((w0 ms i inp).upd fun nd => { nd with timer := { nd.timer with armed := false } }) :=
      good_upd g0 _ rfl rfl rfl rfl rfl rfl rfl rfl rfl id rfl
    exact (prog_onTimeout g0' _ _ (fun h1 h2 => hfr h1 h2)).bind (fun as1 g1 => prog_syncChain fuel as1 _ g1)
  | tx i t =>
    obtain ⟨hi, hst⟩ := hen
    have g0 := good_w0 inv i hi hst inp
    apply netinv_react inv ms.net (fun x hx => hx) i (.tx t) inp
    have mid : Prog e i as (handle e (w0 ms i inp) inp.gts (.tx t)) := by
      show Prog e i as (if (w0 ms i inp).nd.pool.contains t then w0 ms i inp
        else if (w0 ms i inp).nd.wish.contains t then onTransaction e (w0 ms i inp) t else w0 ms i inp)
      split
      · exact Prog.of_good g0
      · split
        · exact prog_onTransaction g0 t
        · exact Prog.of_good g0
    exact mid.bind (fun as1 g1 => prog_syncChain fuel as1 _ g1)
  | start i =>
    obtain ⟨hi, hst, hfr⟩ := hen
    have rn := inv.rn i hi
    have hbi0 : (ms.nodes i).bi = 0 := by simpa [started] using hst
    apply netinv_react inv ms.net (fun x hx => hx) i .start inp
    have hfacts : (as.nodes i).view = 0 ∧ (∀ b, b ∈ (as.nodes i).myPreps → b.h < (as.nodes i).height) ∧
        (∀ b, b ∈ (as.nodes i).myCommits → b.h < (as.nodes i).height) := by
      rcases rn.phase with p1 | p2 | p3
      · have h1 := rn.height; have h2 := p1.1; omega
      · obtain ⟨_, h2, h3, h4, h5⟩ := p2
        refine ⟨h3, ?_, ?_⟩
        · intro b hb; have := h4 b hb; omega
        · intro b hb; have := h5 b hb; omega
      · obtain ⟨_, _, hv0, hp0, hc0⟩ := p3
        refine ⟨hv0, ?_, ?_⟩
        · intro b hb; rw [hp0] at hb; cases hb
        · intro b hb; rw [hc0] at hb; cases hb
    obtain ⟨hv0, hgp0, hgc0⟩ := hfacts
    · 
      obtain ⟨nd0, hnd0⟩ : ∃ nd0 : Node, nd0 = { ms.nodes i with lastTs := inp.gts, cache := [] } := ⟨_, rfl⟩
      have r1 := rn_reset0 (e := e) (as := as) (i := i) nd0 (inp.gts * 1000000)
        (by rw [hnd0]; exact rn.my) (by rw [hnd0]; exact rn.chain) (by rw [hnd0]; exact rn.height) hv0
        hgp0 hgc0 (by rw [hnd0]; intro h box hb; cases hb)
      obtain ⟨r2, r3⟩ := reset0_fields e nd0 (inp.gts * 1000000)
      have hne0 : (reset e nd0 0 (inp.gts * 1000000)).bi ≠ 0 := by rw [r2]; omega
      subst hnd0
      have g1 : Good e as i (((w0 ms i inp).upd fun nd => { nd with lastTs := inp.gts, cache := [] }).upd
          fun nd => reset e nd 0 (inp.gts * 1000000)) :=
        ⟨inv.g, r1, fun pl hp => by simp [W.upd, w0] at hp, fun b s hp => by simp [W.upd, w0] at hp, hne0, hi⟩
      have hstart : handle e (w0 ms i inp) inp.gts .start =
          (if (initTail (onReceive e fuel) e (((w0 ms i inp).upd fun nd => { nd with lastTs := inp.gts, cache := [] }).upd
              fun nd => reset e nd 0 (inp.gts * 1000000)) 0).nd.isPrimary then
            sendPrepareRequest e (initTail (onReceive e fuel) e (((w0 ms i inp).upd fun nd => { nd with lastTs := inp.gts, cache := [] }).upd
              fun nd => reset e nd 0 (inp.gts * 1000000)) 0)
          else initTail (onReceive e fuel) e (((w0 ms i inp).upd fun nd => { nd with lastTs := inp.gts, cache := [] }).upd
              fun nd => reset e nd 0 (inp.gts * 1000000)) 0) := rfl
      rw [hstart]
      obtain ⟨q1, q2, q3, q4, q5, q6, q7⟩ := initTail_nocache (onReceive e fuel) e
        (((w0 ms i inp).upd fun nd => { nd with lastTs := inp.gts, cache := [] }).upd fun nd => reset e nd 0 (inp.gts * 1000000)) 0
        (by simp [W.upd, reset])
      obtain ⟨as2, x2, g2⟩ := prog_initTail (kok_onReceive e i fuel) g1 0
      generalize hw2 : initTail (onReceive e fuel) e (((w0 ms i inp).upd fun nd => { nd with lastTs := inp.gts, cache := [] }).upd
        fun nd => reset e nd 0 (inp.gts * 1000000)) 0 = w2 at *
      have hbp2 : w2.nd.blockProcessed = false := by rw [q1]; exact r3
      by_cases hpr : w2.nd.isPrimary = true
      · rw [if_pos hpr]
        have hnr2 : w2.nd.requestSOR = false := by
          unfold Node.requestSOR; rw [q2]; simp [W.upd, reset, slot_blanks]
        have hbi2 : w2.nd.bi = (ms.nodes i).height + 1 := by rw [q4]; simp [W.upd, reset, Node.height, w0]
        have hv2 : w2.nd.view = 0 := by rw [q5]; simp [W.upd, reset]
        have hmy2 : w2.nd.my = (ms.nodes i).my := by rw [q6]; simp [W.upd, reset, w0]
        have hpi2 : w2.nd.pidx = e.primary ((ms.nodes i).height + 1) 0 := by rw [g2.rn.pidx, hbi2, hv2]
        have htab : TableOK e w2.fresh w2.nd.bi w2.nd.view w2.nd.my := by
          have hpm : w2.nd.my = w2.nd.pidx := by simpa [Node.isPrimary] using hpr
          have := hfr (by rw [← hpi2, ← hpm, hmy2])
          rw [q7, hbi2, hv2, hmy2]
          exact this
        obtain ⟨as3, x3, g3⟩ := prog_sendPrepareRequest g2 hbp2 hpr hnr2 htab
        obtain ⟨as4, x4, g4⟩ := prog_syncChain fuel as3 _ g3
        exact ⟨as4, (x2.trans x3).trans x4, g4⟩
      · rw [if_neg hpr]
        obtain ⟨as3, x3, g3⟩ := prog_syncChain fuel as2 _ g2
        exact ⟨as3, x2.trans x3, g3⟩
  | relay i j =>
    obtain ⟨hi, hj, hst, hsome⟩ := hen
    obtain ⟨b, hb⟩ := Option.isSome_iff_exists.mp hsome
    simp only [napply, evOuts, hb]
    have rn := inv.rn i hi
    have rnj := inv.rn j hj
    have invA := inv_reachable (cfgOf e) as inv.g.1
    have hbh : b.h = (ms.nodes i).height + 1 := find_some_h hb
    have hbA : blockAt (as.nodes j) (as.nodes i).height = some b := by
      rw [blockAt_eq (ms.nodes j) (as.nodes j) rnj.chain, rn.height]; exact hb
    have hen : Enabled (cfgOf e) as (.syncBlock i j) := ⟨hi, hj, by rw [hbA]; rfl⟩
    obtain ⟨x1, hv1, hh1, hc1, hp1, hm1⟩ := ext_syncBlock (cfgOf e) as i j b hen hbA
    apply netinv_react inv ms.net (fun x hx => hx) i (.block b) inp
    have hst' : (ms.nodes i).bi ≠ 0 := by simpa [started] using hst
    have hcond : ((w0 ms i inp).nd.height + 1 == b.h) = true := by simp [w0, hbh]
    have hh : handle e (w0 ms i inp) inp.gts (.block b) = (w0 ms i inp).upd fun nd => addToChain e nd b := by
      show ((w0 ms i inp).upd fun nd => if nd.height + 1 == b.h then addToChain e nd b else nd) = _
      simp only [W.upd, hcond, if_true]
    rw [hh]
    have hge : b.h ≥ ((w0 ms i inp).upd fun nd => addToChain e nd b).nd.bi := by
      show b.h ≥ (ms.nodes i).bi
      rcases rn.phase with p1 | p2 | p3
      · have := p1.1; have := rn.height; simp only [Node.height] at hbh; omega
      · have := p2.2.1; have := rn.height; simp only [Node.height] at hbh; omega
      · exact absurd p3.1 hst'
    have hf : fuel = 63 + 1 := rfl
    rw [hf, syncChain_ahead e 63 _ b (ms.nodes i).chain rfl hge, initConsensus_eq]
    obtain ⟨nd1, hnd1⟩ : ∃ nd1 : Node, nd1 = postBlock e (addToChain e (ms.nodes i) b) b := ⟨_, rfl⟩
    have r1 := rn_reset0 (e := e) (as := apply (cfgOf e) as (.syncBlock i j)) (i := i) nd1 ((e.prop b.p).ts * 1000000)
      (by rw [hnd1]; exact rn.my) (by rw [hnd1, hc1, rn.chain]; rfl)
      (by rw [hnd1, hh1, rn.height]; simp [postBlock, addToChain]) hv1
      (fun b' hb' => by rw [hp1] at hb'; have := invA.prepHeight i b' hb'; omega)
      (fun b' hb' => by rw [hm1] at hb'; have := invA.commitHeight i b' hb'; omega)
      (by rw [hnd1]; intro h box hbx km hkm; exact (rn.cache h box hbx km hkm).ext x1)
    obtain ⟨r2, r3⟩ := reset0_fields e nd1 ((e.prop b.p).ts * 1000000)
    have hne0 : (reset e nd1 0 ((e.prop b.p).ts * 1000000)).bi ≠ 0 := by rw [r2]; omega
    subst hnd1
    have g1 : Good e (apply (cfgOf e) as (.syncBlock i j)) i
        ((((w0 ms i inp).upd fun nd => addToChain e nd b).upd fun nd => postBlock e nd b).upd
          fun nd => reset e nd 0 ((e.prop b.p).ts * 1000000)) :=
      ⟨inv.g.ext x1, r1, fun pl hp => by simp [W.upd, w0] at hp, fun b s hp => by simp [W.upd, w0] at hp, hne0, hi⟩
    obtain ⟨as2, x2, g2⟩ := prog_initTail (kok_onReceive e i fuel) g1 0
    obtain ⟨as3, x3, g3⟩ := prog_syncChain 63 as2 _ g2
    exact ⟨as3, (x1.trans x2).trans x3, g3⟩

end NeoModel.Dbft.Mach
