/-
C12, item sizes in the specification machine, part 3: EVERY instruction of `execPure` (all stack /
splice / arithmetic / compound-type / conversion instructions of Model/Vm/Ops.lean) keeps the size
invariant: from a stack and a heap whose byte strings and buffers are within MaxSize, with an operand
within MaxSize, the outcome (next stack and heap, or the thrown exception with them) is again within
MaxSize. One lemma per opcode, proved by running the weakest-precondition calculus (`wp_auto`) and
closing the leaves (`wp_fin`, `wp_close`); `execPure_ok` puts them together.
-/
import NeoModel.Proofs.VmAcctSpecSizeLemmas
namespace NeoModel.Vm

theorem stackOk_cons_iff {x : Item} {st : List Item} : StackOk (x :: st) ↔ ItemOk x ∧ StackOk st :=
  ⟨fun h => ⟨h.head, h.tail⟩, fun h => StackOk.cons h.1 h.2⟩
theorem stackOk_append_iff {a b : List Item} : StackOk (a ++ b) ↔ StackOk a ∧ StackOk b :=
  ⟨fun h => ⟨h.sub (fun _ hx => List.mem_append_left _ hx), h.sub (fun _ hx => List.mem_append_right _ hx)⟩, fun h => h.1.append h.2⟩
theorem stackOk_reverse_iff {a : List Item} : StackOk a.reverse ↔ StackOk a :=
  ⟨fun h => by simpa using h.reverse, fun h => h.reverse⟩
theorem stackOk_nil_iff : StackOk [] ↔ True := ⟨fun _ => trivial, fun _ => stackOk_nil⟩
theorem itemOk_null : ItemOk .null ↔ True := Iff.rfl
theorem itemOk_bool (b : Bool) : ItemOk (.bool b) ↔ True := Iff.rfl
theorem itemOk_int (n : Int256) : ItemOk (.int n) ↔ True := Iff.rfl
theorem itemOk_buffer (n : Nat) : ItemOk (.buffer n) ↔ True := Iff.rfl
theorem itemOk_array (n : Nat) : ItemOk (.array n) ↔ True := Iff.rfl
theorem itemOk_struct (n : Nat) : ItemOk (.struct n) ↔ True := Iff.rfl
theorem itemOk_map (n : Nat) : ItemOk (.map n) ↔ True := Iff.rfl
theorem itemOk_bytes (b : Bytes) : ItemOk (.bytes b) ↔ b.length ≤ maxItemSize := Iff.rfl
theorem objOk_items (xs : List Item) : ObjOk (.items xs) ↔ StackOk xs := Iff.rfl
theorem objOk_buf (b : Bytes) : ObjOk (.buf b) ↔ b.length ≤ maxItemSize := Iff.rfl
theorem objOk_entries (kv : List (Item × Item)) : ObjOk (.entries kv) ↔ EntriesOk kv := Iff.rfl
theorem outOk_next (st : List Item) (h : Heap) : OutOk (.next st h) ↔ StackOk st ∧ HeapOk h := Iff.rfl
theorem outOk_throw (x : Item) (st : List Item) (h : Heap) : OutOk (.throw x st h) ↔ ItemOk x ∧ StackOk st ∧ HeapOk h := Iff.rfl
theorem entriesOk_nil_iff : EntriesOk [] ↔ True := ⟨fun _ => trivial, fun _ => entriesOk_nil⟩

theorem heapOk_alloc_iff {h : Heap} (hh : HeapOk h) (o : HeapObj) : HeapOk (h.alloc o).1 ↔ ObjOk o := by
  refine ⟨fun g => ?_, fun ho => hh.alloc ho⟩
  exact g h.size o (by simp [Heap.alloc])
theorem heapOk_push_iff {h : Heap} (hh : HeapOk h) (o : HeapObj) : HeapOk (h.push o) ↔ ObjOk o := heapOk_alloc_iff hh o

theorem wp_clone {h : Heap} {x : Item} {msg : String} {Q : Heap × Item → Prop} (hh : HeapOk h) (hx : ItemOk x)
    (k : ∀ h' y, HeapOk h' → ItemOk y → Q (h', y)) : WP (optE msg (cloneIfStruct h x)) Q := by
  apply wp_optE; intro a ha
  obtain ⟨g1, g2⟩ := cloneIfStruct_ok (h' := a.1) (y := a.2) ha hh hx
  exact k a.1 a.2 g1 g2
theorem wp_cloneAll {h : Heap} {xs : List Item} {msg : String} {Q : Heap × List Item → Prop} (hh : HeapOk h) (hx : StackOk xs)
    (k : ∀ h' ys, HeapOk h' → StackOk ys → Q (h', ys)) : WP (optE msg (cloneAll h xs)) Q := by
  apply wp_optE; intro a ha
  obtain ⟨g1, g2⟩ := cloneAll_ok xs h a.1 a.2 ha hh hx
  exact k a.1 a.2 g1 g2
theorem wp_convert {h : Heap} {x : Item} {t : UInt8} {msg : String} {Q : Heap × Item → Prop} (hh : HeapOk h) (hx : ItemOk x)
    (k : ∀ h' y, HeapOk h' → ItemOk y → Q (h', y)) : WP (optE msg (convert h x t)) Q := by
  apply wp_optE; intro a ha
  obtain ⟨g1, g2⟩ := convert_ok (h' := a.1) (y := a.2) ha hh hx
  exact k a.1 a.2 g1 g2
theorem wp_getEntries {h : Heap} {id : Nat} {msg : String} {Q : List (Item × Item) → Prop} (hh : HeapOk h)
    (k : ∀ kv, EntriesOk kv → Q kv) : WP (optE msg (h.getEntries id)) Q := by
  apply wp_optE; intro a ha; exact k a (hh.getEntries ha)
theorem wp_seqItems {h : Heap} {x : Item} {msg : String} {Q : Nat × List Item → Prop} (hh : HeapOk h)
    (k : ∀ id xs, StackOk xs → Q (id, xs)) : WP (optE msg (seqItems h x)) Q := by
  apply wp_optE; intro a ha; exact k a.1 a.2 (hh.seqItems (id := a.1) (xs := a.2) ha)
theorem wp_getBuf {h : Heap} {id : Nat} {msg : String} {Q : Bytes → Prop} (hh : HeapOk h)
    (k : ∀ b, b.length ≤ maxItemSize → Q b) : WP (optE msg (h.getBuf id)) Q := by
  apply wp_optE; intro a ha; exact k a (hh.getBuf ha)
theorem wp_toInt32 {n : Int} {msg : String} {Q : Int → Prop}
    (k : ∀ i, (-(2:Int)^31 ≤ i ∧ i < (2:Int)^31) → Q i) : WP (optE msg (toInt32 n)) Q := by
  apply wp_optE; intro a ha; exact k a (toInt32_range ha)
theorem wp_toBytesO {h : Heap} {x : Item} {msg : String} {Q : Bytes → Prop} (hh : HeapOk h) (hx : ItemOk x)
    (k : ∀ b, b.length ≤ maxItemSize → Q b) : WP (optE msg (x.toBytes h)) Q := by
  apply wp_optE; intro a ha; exact k a (toBytes_ok hh hx ha)

macro "wp_step" : tactic => `(tactic| first
  | (apply wp_pushIntE <;> assumption)
  | (apply wp_unop <;> assumption)
  | (apply wp_binop <;> assumption)
  | (apply wp_cmpop <;> assumption)
  | (apply wp_cmpNull <;> assumption)
  | exact wp_error
  | exact wp_throw
  | (apply wp_next1 (by first | trivial | assumption) <;> assumption)
  | (apply wp_next <;> assumption)
  | (apply wp_popIdx (by assumption); intro _ _ _ _; try dsimp only)
  | (apply wp_popInt (by assumption); intro _ _ _; try dsimp only)
  | (apply wp_popBool (by assumption); intro _ _ _; try dsimp only)
  | (apply wp_popBytes (by assumption) (by assumption); intro _ _ _ _; try dsimp only)
  | (apply wp_popE (by assumption); intro _ _ _ _; try dsimp only)
  | (apply wp_clone (by assumption) (by assumption); intro _ _ _ _; try dsimp only)
  | (apply wp_cloneAll (by assumption) (by assumption); intro _ _ _ _; try dsimp only)
  | (apply wp_convert (by assumption) (by assumption); intro _ _ _ _; try dsimp only)
  | (apply wp_getEntries (by assumption); intro _ _; try dsimp only)
  | (apply wp_seqItems (by assumption); intro _ _ _; try dsimp only)
  | (apply wp_getBuf (by assumption); intro _ _; try dsimp only)
  | (apply wp_toInt32; intro _ _; try dsimp only)
  | (apply wp_toBytesO (by assumption) (by assumption); intro _ _; try dsimp only)
  | (apply wp_optE; intro _ _; try dsimp only)
  | (apply wp_bind)
  | (apply wp_map)
  | split
  | (apply wp_ok; try dsimp only))

macro "wp_auto" : tactic => `(tactic| repeat' wp_step)

macro "wp_fin" : tactic => `(tactic| (
  (try subst_vars)
  (try apply wp_ok)
  simp_all only [stackOk_cons_iff, stackOk_append_iff, stackOk_reverse_iff, stackOk_nil_iff, itemOk_null, itemOk_bool, itemOk_int,
    itemOk_buffer, itemOk_array, itemOk_struct, itemOk_map, itemOk_bytes, objOk_items, objOk_buf, objOk_entries, outOk_next, outOk_throw,
    heapOk_alloc_iff, heapOk_push_iff, entriesOk_nil_iff, StackOk.take, StackOk.drop, StackOk.listRemove, StackOk.dropLast, StackOk.getD,
    HeapOk.put, mapSet_ok, filter_ok, flattenKV_ok, keys_ok, values_ok, fillItem_ok, outOfRangeMsg_ok, keyNotFound_ok,
    stackOk_replicate, StackOk.set, StackOk.reverse, List.length_set, List.length_reverse, and_self, and_true, true_and]))

macro "wp_len" : tactic => `(tactic| (
  simp only [List.length_append, List.length_take, List.length_drop, List.length_replicate, List.length_set, List.length_reverse,
    maxItemSize] at *
  omega))

macro "wp_close" : tactic => `(tactic| first
  | exact keyNotFound_ok
  | exact StackOk.get (by assumption) (by assumption)
  | exact find_ok (by assumption) (by assumption)
  | wp_len
  | (have hsq := HeapOk.seqItems (by assumption) ‹seqItems _ _ = some _›
     have hgl := fun x (hx : _ = some x) => StackOk.getLast hsq hx
     simp_all only [stackOk_cons_iff, stackOk_append_iff, stackOk_reverse_iff, stackOk_nil_iff, objOk_items, HeapOk.put,
       StackOk.listRemove, StackOk.dropLast, StackOk.reverse, and_self, and_true, true_and])
  | (have hgb := HeapOk.getBuf (by assumption) ‹Heap.getBuf _ _ = some _›
     apply HeapOk.put (by assumption)
     show _ ≤ _
     wp_len))


theorem ok_pushInt (k : Nat) (param : Bytes) (st : List Item) (h : Heap) (hp : param.length ≤ maxItemSize) (hs : StackOk st) (hh : HeapOk h) :
    WP (execPure (.pushInt k) param st h) OutOk := by
  simp only [execPure]
  wp_auto
  all_goals (try wp_fin)

theorem ok_pushT  (param : Bytes) (st : List Item) (h : Heap) (hp : param.length ≤ maxItemSize) (hs : StackOk st) (hh : HeapOk h) :
    WP (execPure (.pushT ) param st h) OutOk := by
  simp only [execPure]
  wp_auto
  all_goals (try wp_fin)

theorem ok_pushF  (param : Bytes) (st : List Item) (h : Heap) (hp : param.length ≤ maxItemSize) (hs : StackOk st) (hh : HeapOk h) :
    WP (execPure (.pushF ) param st h) OutOk := by
  simp only [execPure]
  wp_auto
  all_goals (try wp_fin)

theorem ok_pushA  (param : Bytes) (st : List Item) (h : Heap) (hp : param.length ≤ maxItemSize) (hs : StackOk st) (hh : HeapOk h) :
    WP (execPure (.pushA ) param st h) OutOk := by
  simp only [execPure]
  wp_auto
  all_goals (try wp_fin)

theorem ok_pushNull  (param : Bytes) (st : List Item) (h : Heap) (hp : param.length ≤ maxItemSize) (hs : StackOk st) (hh : HeapOk h) :
    WP (execPure (.pushNull ) param st h) OutOk := by
  simp only [execPure]
  wp_auto
  all_goals (try wp_fin)

theorem ok_pushData (k : Nat) (param : Bytes) (st : List Item) (h : Heap) (hp : param.length ≤ maxItemSize) (hs : StackOk st) (hh : HeapOk h) :
    WP (execPure (.pushData k) param st h) OutOk := by
  simp only [execPure]
  wp_auto
  all_goals (try wp_fin)

theorem ok_pushConst (n : Int) (param : Bytes) (st : List Item) (h : Heap) (hp : param.length ≤ maxItemSize) (hs : StackOk st) (hh : HeapOk h) :
    WP (execPure (.pushConst n) param st h) OutOk := by
  simp only [execPure]
  wp_auto
  all_goals (try wp_fin)

theorem ok_nop  (param : Bytes) (st : List Item) (h : Heap) (hp : param.length ≤ maxItemSize) (hs : StackOk st) (hh : HeapOk h) :
    WP (execPure (.nop ) param st h) OutOk := by
  simp only [execPure]
  wp_auto
  all_goals (try wp_fin)

theorem ok_jmp (c : JmpCond) (l : Bool) (param : Bytes) (st : List Item) (h : Heap) (hp : param.length ≤ maxItemSize) (hs : StackOk st) (hh : HeapOk h) :
    WP (execPure (.jmp c l) param st h) OutOk := by
  simp only [execPure]
  wp_auto
  all_goals (try wp_fin)

theorem ok_call (l : Bool) (param : Bytes) (st : List Item) (h : Heap) (hp : param.length ≤ maxItemSize) (hs : StackOk st) (hh : HeapOk h) :
    WP (execPure (.call l) param st h) OutOk := by
  simp only [execPure]
  wp_auto
  all_goals (try wp_fin)

theorem ok_callA  (param : Bytes) (st : List Item) (h : Heap) (hp : param.length ≤ maxItemSize) (hs : StackOk st) (hh : HeapOk h) :
    WP (execPure (.callA ) param st h) OutOk := by
  simp only [execPure]
  wp_auto
  all_goals (try wp_fin)

theorem ok_callT  (param : Bytes) (st : List Item) (h : Heap) (hp : param.length ≤ maxItemSize) (hs : StackOk st) (hh : HeapOk h) :
    WP (execPure (.callT ) param st h) OutOk := by
  simp only [execPure]
  wp_auto
  all_goals (try wp_fin)

theorem ok_abort  (param : Bytes) (st : List Item) (h : Heap) (hp : param.length ≤ maxItemSize) (hs : StackOk st) (hh : HeapOk h) :
    WP (execPure (.abort ) param st h) OutOk := by
  simp only [execPure]
  wp_auto
  all_goals (try wp_fin)

theorem ok_assert  (param : Bytes) (st : List Item) (h : Heap) (hp : param.length ≤ maxItemSize) (hs : StackOk st) (hh : HeapOk h) :
    WP (execPure (.assert ) param st h) OutOk := by
  simp only [execPure]
  wp_auto
  all_goals (try wp_fin)

theorem ok_throw  (param : Bytes) (st : List Item) (h : Heap) (hp : param.length ≤ maxItemSize) (hs : StackOk st) (hh : HeapOk h) :
    WP (execPure (.throw ) param st h) OutOk := by
  simp only [execPure]
  wp_auto
  all_goals (try wp_fin)

theorem ok_try_ (l : Bool) (param : Bytes) (st : List Item) (h : Heap) (hp : param.length ≤ maxItemSize) (hs : StackOk st) (hh : HeapOk h) :
    WP (execPure (.try_ l) param st h) OutOk := by
  simp only [execPure]
  wp_auto
  all_goals (try wp_fin)

theorem ok_endTry (l : Bool) (param : Bytes) (st : List Item) (h : Heap) (hp : param.length ≤ maxItemSize) (hs : StackOk st) (hh : HeapOk h) :
    WP (execPure (.endTry l) param st h) OutOk := by
  simp only [execPure]
  wp_auto
  all_goals (try wp_fin)

theorem ok_endFinally  (param : Bytes) (st : List Item) (h : Heap) (hp : param.length ≤ maxItemSize) (hs : StackOk st) (hh : HeapOk h) :
    WP (execPure (.endFinally ) param st h) OutOk := by
  simp only [execPure]
  wp_auto
  all_goals (try wp_fin)

theorem ok_ret  (param : Bytes) (st : List Item) (h : Heap) (hp : param.length ≤ maxItemSize) (hs : StackOk st) (hh : HeapOk h) :
    WP (execPure (.ret ) param st h) OutOk := by
  simp only [execPure]
  wp_auto
  all_goals (try wp_fin)

theorem ok_syscall  (param : Bytes) (st : List Item) (h : Heap) (hp : param.length ≤ maxItemSize) (hs : StackOk st) (hh : HeapOk h) :
    WP (execPure (.syscall ) param st h) OutOk := by
  simp only [execPure]
  wp_auto
  all_goals (try wp_fin)

theorem ok_depth  (param : Bytes) (st : List Item) (h : Heap) (hp : param.length ≤ maxItemSize) (hs : StackOk st) (hh : HeapOk h) :
    WP (execPure (.depth ) param st h) OutOk := by
  simp only [execPure]
  wp_auto
  all_goals (try wp_fin)

theorem ok_drop  (param : Bytes) (st : List Item) (h : Heap) (hp : param.length ≤ maxItemSize) (hs : StackOk st) (hh : HeapOk h) :
    WP (execPure (.drop ) param st h) OutOk := by
  simp only [execPure]
  wp_auto
  all_goals (try wp_fin)

theorem ok_nip  (param : Bytes) (st : List Item) (h : Heap) (hp : param.length ≤ maxItemSize) (hs : StackOk st) (hh : HeapOk h) :
    WP (execPure (.nip ) param st h) OutOk := by
  simp only [execPure]
  wp_auto
  all_goals (try wp_fin)

theorem ok_xdrop  (param : Bytes) (st : List Item) (h : Heap) (hp : param.length ≤ maxItemSize) (hs : StackOk st) (hh : HeapOk h) :
    WP (execPure (.xdrop ) param st h) OutOk := by
  simp only [execPure]
  wp_auto
  all_goals (try wp_fin)

theorem ok_clear  (param : Bytes) (st : List Item) (h : Heap) (hp : param.length ≤ maxItemSize) (hs : StackOk st) (hh : HeapOk h) :
    WP (execPure (.clear ) param st h) OutOk := by
  simp only [execPure]
  wp_auto
  all_goals (try wp_fin)

theorem ok_dup  (param : Bytes) (st : List Item) (h : Heap) (hp : param.length ≤ maxItemSize) (hs : StackOk st) (hh : HeapOk h) :
    WP (execPure (.dup ) param st h) OutOk := by
  simp only [execPure]
  wp_auto
  all_goals (try wp_fin)

theorem ok_over  (param : Bytes) (st : List Item) (h : Heap) (hp : param.length ≤ maxItemSize) (hs : StackOk st) (hh : HeapOk h) :
    WP (execPure (.over ) param st h) OutOk := by
  simp only [execPure]
  wp_auto
  all_goals (try wp_fin)

theorem ok_pick  (param : Bytes) (st : List Item) (h : Heap) (hp : param.length ≤ maxItemSize) (hs : StackOk st) (hh : HeapOk h) :
    WP (execPure (.pick ) param st h) OutOk := by
  simp only [execPure]
  wp_auto
  all_goals (try wp_fin)
  all_goals wp_close

theorem ok_tuck  (param : Bytes) (st : List Item) (h : Heap) (hp : param.length ≤ maxItemSize) (hs : StackOk st) (hh : HeapOk h) :
    WP (execPure (.tuck ) param st h) OutOk := by
  simp only [execPure]
  wp_auto
  all_goals (try wp_fin)

theorem ok_swap  (param : Bytes) (st : List Item) (h : Heap) (hp : param.length ≤ maxItemSize) (hs : StackOk st) (hh : HeapOk h) :
    WP (execPure (.swap ) param st h) OutOk := by
  simp only [execPure]
  wp_auto
  all_goals (try wp_fin)

theorem ok_rot  (param : Bytes) (st : List Item) (h : Heap) (hp : param.length ≤ maxItemSize) (hs : StackOk st) (hh : HeapOk h) :
    WP (execPure (.rot ) param st h) OutOk := by
  simp only [execPure]
  wp_auto
  all_goals (try wp_fin)

theorem ok_roll  (param : Bytes) (st : List Item) (h : Heap) (hp : param.length ≤ maxItemSize) (hs : StackOk st) (hh : HeapOk h) :
    WP (execPure (.roll ) param st h) OutOk := by
  simp only [execPure]
  wp_auto
  all_goals (try wp_fin)
  all_goals wp_close

theorem ok_reverse3  (param : Bytes) (st : List Item) (h : Heap) (hp : param.length ≤ maxItemSize) (hs : StackOk st) (hh : HeapOk h) :
    WP (execPure (.reverse3 ) param st h) OutOk := by
  simp only [execPure]
  wp_auto
  all_goals (try wp_fin)

theorem ok_reverse4  (param : Bytes) (st : List Item) (h : Heap) (hp : param.length ≤ maxItemSize) (hs : StackOk st) (hh : HeapOk h) :
    WP (execPure (.reverse4 ) param st h) OutOk := by
  simp only [execPure]
  wp_auto
  all_goals (try wp_fin)

theorem ok_reverseN  (param : Bytes) (st : List Item) (h : Heap) (hp : param.length ≤ maxItemSize) (hs : StackOk st) (hh : HeapOk h) :
    WP (execPure (.reverseN ) param st h) OutOk := by
  simp only [execPure]
  wp_auto
  all_goals (try wp_fin)

theorem ok_initSSlot  (param : Bytes) (st : List Item) (h : Heap) (hp : param.length ≤ maxItemSize) (hs : StackOk st) (hh : HeapOk h) :
    WP (execPure (.initSSlot ) param st h) OutOk := by
  simp only [execPure]
  wp_auto
  all_goals (try wp_fin)

theorem ok_initSlot  (param : Bytes) (st : List Item) (h : Heap) (hp : param.length ≤ maxItemSize) (hs : StackOk st) (hh : HeapOk h) :
    WP (execPure (.initSlot ) param st h) OutOk := by
  simp only [execPure]
  wp_auto
  all_goals (try wp_fin)

theorem ok_ld (k : SlotKind) (i : Option Nat) (param : Bytes) (st : List Item) (h : Heap) (hp : param.length ≤ maxItemSize) (hs : StackOk st) (hh : HeapOk h) :
    WP (execPure (.ld k i) param st h) OutOk := by
  simp only [execPure]
  wp_auto
  all_goals (try wp_fin)

theorem ok_st (k : SlotKind) (i : Option Nat) (param : Bytes) (st : List Item) (h : Heap) (hp : param.length ≤ maxItemSize) (hs : StackOk st) (hh : HeapOk h) :
    WP (execPure (.st k i) param st h) OutOk := by
  simp only [execPure]
  wp_auto
  all_goals (try wp_fin)

theorem ok_newBuffer  (param : Bytes) (st : List Item) (h : Heap) (hp : param.length ≤ maxItemSize) (hs : StackOk st) (hh : HeapOk h) :
    WP (execPure (.newBuffer ) param st h) OutOk := by
  simp only [execPure]
  wp_auto
  all_goals (try wp_fin)
  all_goals wp_close

theorem ok_memcpy  (param : Bytes) (st : List Item) (h : Heap) (hp : param.length ≤ maxItemSize) (hs : StackOk st) (hh : HeapOk h) :
    WP (execPure (.memcpy ) param st h) OutOk := by
  simp only [execPure]
  wp_auto
  all_goals (try wp_fin)
  all_goals wp_close

theorem ok_cat  (param : Bytes) (st : List Item) (h : Heap) (hp : param.length ≤ maxItemSize) (hs : StackOk st) (hh : HeapOk h) :
    WP (execPure (.cat ) param st h) OutOk := by
  simp only [execPure]
  wp_auto
  all_goals (try wp_fin)
  all_goals wp_close

theorem ok_substr  (param : Bytes) (st : List Item) (h : Heap) (hp : param.length ≤ maxItemSize) (hs : StackOk st) (hh : HeapOk h) :
    WP (execPure (.substr ) param st h) OutOk := by
  simp only [execPure]
  wp_auto
  all_goals (try wp_fin)
  all_goals wp_close

theorem ok_left  (param : Bytes) (st : List Item) (h : Heap) (hp : param.length ≤ maxItemSize) (hs : StackOk st) (hh : HeapOk h) :
    WP (execPure (.left ) param st h) OutOk := by
  simp only [execPure]
  wp_auto
  all_goals (try wp_fin)
  all_goals wp_close

theorem ok_right  (param : Bytes) (st : List Item) (h : Heap) (hp : param.length ≤ maxItemSize) (hs : StackOk st) (hh : HeapOk h) :
    WP (execPure (.right ) param st h) OutOk := by
  simp only [execPure]
  wp_auto
  all_goals (try wp_fin)
  all_goals wp_close

theorem ok_invert  (param : Bytes) (st : List Item) (h : Heap) (hp : param.length ≤ maxItemSize) (hs : StackOk st) (hh : HeapOk h) :
    WP (execPure (.invert ) param st h) OutOk := by
  simp only [execPure]
  wp_auto
  all_goals (try wp_fin)

theorem ok_and  (param : Bytes) (st : List Item) (h : Heap) (hp : param.length ≤ maxItemSize) (hs : StackOk st) (hh : HeapOk h) :
    WP (execPure (.and ) param st h) OutOk := by
  simp only [execPure]
  wp_auto
  all_goals (try wp_fin)

theorem ok_or  (param : Bytes) (st : List Item) (h : Heap) (hp : param.length ≤ maxItemSize) (hs : StackOk st) (hh : HeapOk h) :
    WP (execPure (.or ) param st h) OutOk := by
  simp only [execPure]
  wp_auto
  all_goals (try wp_fin)

theorem ok_xor  (param : Bytes) (st : List Item) (h : Heap) (hp : param.length ≤ maxItemSize) (hs : StackOk st) (hh : HeapOk h) :
    WP (execPure (.xor ) param st h) OutOk := by
  simp only [execPure]
  wp_auto
  all_goals (try wp_fin)

theorem ok_equal  (param : Bytes) (st : List Item) (h : Heap) (hp : param.length ≤ maxItemSize) (hs : StackOk st) (hh : HeapOk h) :
    WP (execPure (.equal ) param st h) OutOk := by
  simp only [execPure]
  wp_auto
  all_goals (try wp_fin)

theorem ok_notEqual  (param : Bytes) (st : List Item) (h : Heap) (hp : param.length ≤ maxItemSize) (hs : StackOk st) (hh : HeapOk h) :
    WP (execPure (.notEqual ) param st h) OutOk := by
  simp only [execPure]
  wp_auto
  all_goals (try wp_fin)

theorem ok_sign  (param : Bytes) (st : List Item) (h : Heap) (hp : param.length ≤ maxItemSize) (hs : StackOk st) (hh : HeapOk h) :
    WP (execPure (.sign ) param st h) OutOk := by
  simp only [execPure]
  wp_auto
  all_goals (try wp_fin)

theorem ok_abs  (param : Bytes) (st : List Item) (h : Heap) (hp : param.length ≤ maxItemSize) (hs : StackOk st) (hh : HeapOk h) :
    WP (execPure (.abs ) param st h) OutOk := by
  simp only [execPure]
  wp_auto
  all_goals (try wp_fin)

theorem ok_negate  (param : Bytes) (st : List Item) (h : Heap) (hp : param.length ≤ maxItemSize) (hs : StackOk st) (hh : HeapOk h) :
    WP (execPure (.negate ) param st h) OutOk := by
  simp only [execPure]
  wp_auto
  all_goals (try wp_fin)

theorem ok_inc  (param : Bytes) (st : List Item) (h : Heap) (hp : param.length ≤ maxItemSize) (hs : StackOk st) (hh : HeapOk h) :
    WP (execPure (.inc ) param st h) OutOk := by
  simp only [execPure]
  wp_auto
  all_goals (try wp_fin)

theorem ok_dec  (param : Bytes) (st : List Item) (h : Heap) (hp : param.length ≤ maxItemSize) (hs : StackOk st) (hh : HeapOk h) :
    WP (execPure (.dec ) param st h) OutOk := by
  simp only [execPure]
  wp_auto
  all_goals (try wp_fin)

theorem ok_add  (param : Bytes) (st : List Item) (h : Heap) (hp : param.length ≤ maxItemSize) (hs : StackOk st) (hh : HeapOk h) :
    WP (execPure (.add ) param st h) OutOk := by
  simp only [execPure]
  wp_auto
  all_goals (try wp_fin)

theorem ok_sub  (param : Bytes) (st : List Item) (h : Heap) (hp : param.length ≤ maxItemSize) (hs : StackOk st) (hh : HeapOk h) :
    WP (execPure (.sub ) param st h) OutOk := by
  simp only [execPure]
  wp_auto
  all_goals (try wp_fin)

theorem ok_mul  (param : Bytes) (st : List Item) (h : Heap) (hp : param.length ≤ maxItemSize) (hs : StackOk st) (hh : HeapOk h) :
    WP (execPure (.mul ) param st h) OutOk := by
  simp only [execPure]
  wp_auto
  all_goals (try wp_fin)

theorem ok_div  (param : Bytes) (st : List Item) (h : Heap) (hp : param.length ≤ maxItemSize) (hs : StackOk st) (hh : HeapOk h) :
    WP (execPure (.div ) param st h) OutOk := by
  simp only [execPure]
  wp_auto
  all_goals (try wp_fin)

theorem ok_mod  (param : Bytes) (st : List Item) (h : Heap) (hp : param.length ≤ maxItemSize) (hs : StackOk st) (hh : HeapOk h) :
    WP (execPure (.mod ) param st h) OutOk := by
  simp only [execPure]
  wp_auto
  all_goals (try wp_fin)

theorem ok_pow  (param : Bytes) (st : List Item) (h : Heap) (hp : param.length ≤ maxItemSize) (hs : StackOk st) (hh : HeapOk h) :
    WP (execPure (.pow ) param st h) OutOk := by
  simp only [execPure]
  wp_auto
  all_goals (try wp_fin)

theorem ok_sqrt  (param : Bytes) (st : List Item) (h : Heap) (hp : param.length ≤ maxItemSize) (hs : StackOk st) (hh : HeapOk h) :
    WP (execPure (.sqrt ) param st h) OutOk := by
  simp only [execPure]
  wp_auto
  all_goals (try wp_fin)

theorem ok_modMul  (param : Bytes) (st : List Item) (h : Heap) (hp : param.length ≤ maxItemSize) (hs : StackOk st) (hh : HeapOk h) :
    WP (execPure (.modMul ) param st h) OutOk := by
  simp only [execPure]
  wp_auto
  all_goals (try wp_fin)

theorem ok_modPow  (param : Bytes) (st : List Item) (h : Heap) (hp : param.length ≤ maxItemSize) (hs : StackOk st) (hh : HeapOk h) :
    WP (execPure (.modPow ) param st h) OutOk := by
  simp only [execPure]
  wp_auto
  all_goals (try wp_fin)

theorem ok_shl  (param : Bytes) (st : List Item) (h : Heap) (hp : param.length ≤ maxItemSize) (hs : StackOk st) (hh : HeapOk h) :
    WP (execPure (.shl ) param st h) OutOk := by
  simp only [execPure]
  wp_auto
  all_goals (try wp_fin)

theorem ok_shr  (param : Bytes) (st : List Item) (h : Heap) (hp : param.length ≤ maxItemSize) (hs : StackOk st) (hh : HeapOk h) :
    WP (execPure (.shr ) param st h) OutOk := by
  simp only [execPure]
  wp_auto
  all_goals (try wp_fin)

theorem ok_not  (param : Bytes) (st : List Item) (h : Heap) (hp : param.length ≤ maxItemSize) (hs : StackOk st) (hh : HeapOk h) :
    WP (execPure (.not ) param st h) OutOk := by
  simp only [execPure]
  wp_auto
  all_goals (try wp_fin)

theorem ok_boolAnd  (param : Bytes) (st : List Item) (h : Heap) (hp : param.length ≤ maxItemSize) (hs : StackOk st) (hh : HeapOk h) :
    WP (execPure (.boolAnd ) param st h) OutOk := by
  simp only [execPure]
  wp_auto
  all_goals (try wp_fin)

theorem ok_boolOr  (param : Bytes) (st : List Item) (h : Heap) (hp : param.length ≤ maxItemSize) (hs : StackOk st) (hh : HeapOk h) :
    WP (execPure (.boolOr ) param st h) OutOk := by
  simp only [execPure]
  wp_auto
  all_goals (try wp_fin)

theorem ok_nz  (param : Bytes) (st : List Item) (h : Heap) (hp : param.length ≤ maxItemSize) (hs : StackOk st) (hh : HeapOk h) :
    WP (execPure (.nz ) param st h) OutOk := by
  simp only [execPure]
  wp_auto
  all_goals (try wp_fin)

theorem ok_numEqual  (param : Bytes) (st : List Item) (h : Heap) (hp : param.length ≤ maxItemSize) (hs : StackOk st) (hh : HeapOk h) :
    WP (execPure (.numEqual ) param st h) OutOk := by
  simp only [execPure]
  wp_auto
  all_goals (try wp_fin)

theorem ok_numNotEqual  (param : Bytes) (st : List Item) (h : Heap) (hp : param.length ≤ maxItemSize) (hs : StackOk st) (hh : HeapOk h) :
    WP (execPure (.numNotEqual ) param st h) OutOk := by
  simp only [execPure]
  wp_auto
  all_goals (try wp_fin)

theorem ok_lt  (param : Bytes) (st : List Item) (h : Heap) (hp : param.length ≤ maxItemSize) (hs : StackOk st) (hh : HeapOk h) :
    WP (execPure (.lt ) param st h) OutOk := by
  simp only [execPure]
  wp_auto
  all_goals (try wp_fin)

theorem ok_le  (param : Bytes) (st : List Item) (h : Heap) (hp : param.length ≤ maxItemSize) (hs : StackOk st) (hh : HeapOk h) :
    WP (execPure (.le ) param st h) OutOk := by
  simp only [execPure]
  wp_auto
  all_goals (try wp_fin)

theorem ok_gt  (param : Bytes) (st : List Item) (h : Heap) (hp : param.length ≤ maxItemSize) (hs : StackOk st) (hh : HeapOk h) :
    WP (execPure (.gt ) param st h) OutOk := by
  simp only [execPure]
  wp_auto
  all_goals (try wp_fin)

theorem ok_ge  (param : Bytes) (st : List Item) (h : Heap) (hp : param.length ≤ maxItemSize) (hs : StackOk st) (hh : HeapOk h) :
    WP (execPure (.ge ) param st h) OutOk := by
  simp only [execPure]
  wp_auto
  all_goals (try wp_fin)

theorem ok_min  (param : Bytes) (st : List Item) (h : Heap) (hp : param.length ≤ maxItemSize) (hs : StackOk st) (hh : HeapOk h) :
    WP (execPure (.min ) param st h) OutOk := by
  simp only [execPure]
  wp_auto
  all_goals (try wp_fin)

theorem ok_max  (param : Bytes) (st : List Item) (h : Heap) (hp : param.length ≤ maxItemSize) (hs : StackOk st) (hh : HeapOk h) :
    WP (execPure (.max ) param st h) OutOk := by
  simp only [execPure]
  wp_auto
  all_goals (try wp_fin)

theorem ok_within  (param : Bytes) (st : List Item) (h : Heap) (hp : param.length ≤ maxItemSize) (hs : StackOk st) (hh : HeapOk h) :
    WP (execPure (.within ) param st h) OutOk := by
  simp only [execPure]
  wp_auto
  all_goals (try wp_fin)

theorem ok_packMap  (param : Bytes) (st : List Item) (h : Heap) (hp : param.length ≤ maxItemSize) (hs : StackOk st) (hh : HeapOk h) :
    WP (execPure (.packMap ) param st h) OutOk := by
  simp only [execPure]
  wp_auto
  all_goals (try wp_fin)
  apply wp_packMapLoop _ _ _ (by assumption) entriesOk_nil
  intro m' st2 hm hs2
  dsimp only
  wp_fin

theorem ok_packStruct  (param : Bytes) (st : List Item) (h : Heap) (hp : param.length ≤ maxItemSize) (hs : StackOk st) (hh : HeapOk h) :
    WP (execPure (.packStruct ) param st h) OutOk := by
  simp only [execPure]
  wp_auto
  all_goals (try wp_fin)

theorem ok_pack  (param : Bytes) (st : List Item) (h : Heap) (hp : param.length ≤ maxItemSize) (hs : StackOk st) (hh : HeapOk h) :
    WP (execPure (.pack ) param st h) OutOk := by
  simp only [execPure]
  wp_auto
  all_goals (try wp_fin)

theorem ok_unpack  (param : Bytes) (st : List Item) (h : Heap) (hp : param.length ≤ maxItemSize) (hs : StackOk st) (hh : HeapOk h) :
    WP (execPure (.unpack ) param st h) OutOk := by
  simp only [execPure]
  apply wp_bind; apply wp_popE hs; intro x st' hx hs'; try dsimp only
  split
  · apply wp_bind; apply wp_getEntries hh; intro kv hkv; try dsimp only
    exact wp_pushIntE ((flattenKV_ok kv hkv).append hs') hh
  · split
    · rename_i id xs heq
      exact wp_pushIntE ((hh.seqItems heq).append hs') hh
    · exact wp_error

theorem ok_newArray0  (param : Bytes) (st : List Item) (h : Heap) (hp : param.length ≤ maxItemSize) (hs : StackOk st) (hh : HeapOk h) :
    WP (execPure (.newArray0 ) param st h) OutOk := by
  simp only [execPure]
  wp_auto
  all_goals (try wp_fin)

theorem ok_newArray  (param : Bytes) (st : List Item) (h : Heap) (hp : param.length ≤ maxItemSize) (hs : StackOk st) (hh : HeapOk h) :
    WP (execPure (.newArray ) param st h) OutOk := by
  simp only [execPure]
  wp_auto
  all_goals (try wp_fin)

theorem ok_newArrayT  (param : Bytes) (st : List Item) (h : Heap) (hp : param.length ≤ maxItemSize) (hs : StackOk st) (hh : HeapOk h) :
    WP (execPure (.newArrayT ) param st h) OutOk := by
  simp only [execPure]
  wp_auto
  all_goals (try wp_fin)

theorem ok_newStruct0  (param : Bytes) (st : List Item) (h : Heap) (hp : param.length ≤ maxItemSize) (hs : StackOk st) (hh : HeapOk h) :
    WP (execPure (.newStruct0 ) param st h) OutOk := by
  simp only [execPure]
  wp_auto
  all_goals (try wp_fin)

theorem ok_newStruct  (param : Bytes) (st : List Item) (h : Heap) (hp : param.length ≤ maxItemSize) (hs : StackOk st) (hh : HeapOk h) :
    WP (execPure (.newStruct ) param st h) OutOk := by
  simp only [execPure]
  wp_auto
  all_goals (try wp_fin)

theorem ok_newMap  (param : Bytes) (st : List Item) (h : Heap) (hp : param.length ≤ maxItemSize) (hs : StackOk st) (hh : HeapOk h) :
    WP (execPure (.newMap ) param st h) OutOk := by
  simp only [execPure]
  wp_auto
  all_goals (try wp_fin)

theorem ok_size  (param : Bytes) (st : List Item) (h : Heap) (hp : param.length ≤ maxItemSize) (hs : StackOk st) (hh : HeapOk h) :
    WP (execPure (.size ) param st h) OutOk := by
  simp only [execPure]
  wp_auto
  all_goals (try wp_fin)

theorem ok_hasKey  (param : Bytes) (st : List Item) (h : Heap) (hp : param.length ≤ maxItemSize) (hs : StackOk st) (hh : HeapOk h) :
    WP (execPure (.hasKey ) param st h) OutOk := by
  simp only [execPure]
  wp_auto
  all_goals (try wp_fin)

theorem ok_keys  (param : Bytes) (st : List Item) (h : Heap) (hp : param.length ≤ maxItemSize) (hs : StackOk st) (hh : HeapOk h) :
    WP (execPure (.keys ) param st h) OutOk := by
  simp only [execPure]
  wp_auto
  all_goals (try wp_fin)

theorem ok_values  (param : Bytes) (st : List Item) (h : Heap) (hp : param.length ≤ maxItemSize) (hs : StackOk st) (hh : HeapOk h) :
    WP (execPure (.values ) param st h) OutOk := by
  simp only [execPure]
  wp_auto
  all_goals (try wp_fin)
  rename_i hkv a ha
  obtain ⟨g1, g2⟩ := cloneAll_ok _ _ _ _ ha hh (values_ok hkv)
  exact g1.alloc g2

theorem ok_pickItem  (param : Bytes) (st : List Item) (h : Heap) (hp : param.length ≤ maxItemSize) (hs : StackOk st) (hh : HeapOk h) :
    WP (execPure (.pickItem ) param st h) OutOk := by
  simp only [execPure]
  wp_auto
  all_goals (try wp_fin)
  all_goals wp_close

theorem ok_append  (param : Bytes) (st : List Item) (h : Heap) (hp : param.length ≤ maxItemSize) (hs : StackOk st) (hh : HeapOk h) :
    WP (execPure (.append ) param st h) OutOk := by
  simp only [execPure]
  wp_auto
  all_goals (try wp_fin)
  all_goals wp_close

theorem ok_setItem  (param : Bytes) (st : List Item) (h : Heap) (hp : param.length ≤ maxItemSize) (hs : StackOk st) (hh : HeapOk h) :
    WP (execPure (.setItem ) param st h) OutOk := by
  simp only [execPure]
  wp_auto
  all_goals (try wp_fin)
  all_goals wp_close

theorem ok_reverseItems  (param : Bytes) (st : List Item) (h : Heap) (hp : param.length ≤ maxItemSize) (hs : StackOk st) (hh : HeapOk h) :
    WP (execPure (.reverseItems ) param st h) OutOk := by
  simp only [execPure]
  wp_auto
  all_goals (try wp_fin)
  all_goals wp_close

theorem ok_remove  (param : Bytes) (st : List Item) (h : Heap) (hp : param.length ≤ maxItemSize) (hs : StackOk st) (hh : HeapOk h) :
    WP (execPure (.remove ) param st h) OutOk := by
  simp only [execPure]
  wp_auto
  all_goals (try wp_fin)
  all_goals wp_close

theorem ok_clearItems  (param : Bytes) (st : List Item) (h : Heap) (hp : param.length ≤ maxItemSize) (hs : StackOk st) (hh : HeapOk h) :
    WP (execPure (.clearItems ) param st h) OutOk := by
  simp only [execPure]
  wp_auto
  all_goals (try wp_fin)

theorem ok_popItem  (param : Bytes) (st : List Item) (h : Heap) (hp : param.length ≤ maxItemSize) (hs : StackOk st) (hh : HeapOk h) :
    WP (execPure (.popItem ) param st h) OutOk := by
  simp only [execPure]
  wp_auto
  all_goals (try wp_fin)
  all_goals wp_close

theorem ok_isNull  (param : Bytes) (st : List Item) (h : Heap) (hp : param.length ≤ maxItemSize) (hs : StackOk st) (hh : HeapOk h) :
    WP (execPure (.isNull ) param st h) OutOk := by
  simp only [execPure]
  wp_auto
  all_goals (try wp_fin)

theorem ok_isType  (param : Bytes) (st : List Item) (h : Heap) (hp : param.length ≤ maxItemSize) (hs : StackOk st) (hh : HeapOk h) :
    WP (execPure (.isType ) param st h) OutOk := by
  simp only [execPure]
  wp_auto
  all_goals (try wp_fin)

theorem ok_convert  (param : Bytes) (st : List Item) (h : Heap) (hp : param.length ≤ maxItemSize) (hs : StackOk st) (hh : HeapOk h) :
    WP (execPure (.convert ) param st h) OutOk := by
  simp only [execPure]
  wp_auto
  all_goals (try wp_fin)

theorem ok_abortMsg  (param : Bytes) (st : List Item) (h : Heap) (hp : param.length ≤ maxItemSize) (hs : StackOk st) (hh : HeapOk h) :
    WP (execPure (.abortMsg ) param st h) OutOk := by
  simp only [execPure]
  wp_auto
  all_goals (try wp_fin)

theorem ok_assertMsg  (param : Bytes) (st : List Item) (h : Heap) (hp : param.length ≤ maxItemSize) (hs : StackOk st) (hh : HeapOk h) :
    WP (execPure (.assertMsg ) param st h) OutOk := by
  simp only [execPure]
  wp_auto
  all_goals (try wp_fin)

/-- **every stack/heap instruction keeps byte strings and buffers within MaxSize** -/
theorem execPure_ok (op : Op) (param : Bytes) (st : List Item) (h : Heap) (hp : param.length ≤ maxItemSize) (hs : StackOk st)
    (hh : HeapOk h) (out : Outcome) (he : execPure op param st h = .ok out) : OutOk out := by
  have : WP (execPure op param st h) OutOk := by
    cases op with
    | pushInt k => exact ok_pushInt k param st h hp hs hh
    | pushT  => exact ok_pushT  param st h hp hs hh
    | pushF  => exact ok_pushF  param st h hp hs hh
    | pushA  => exact ok_pushA  param st h hp hs hh
    | pushNull  => exact ok_pushNull  param st h hp hs hh
    | pushData k => exact ok_pushData k param st h hp hs hh
    | pushConst n => exact ok_pushConst n param st h hp hs hh
    | nop  => exact ok_nop  param st h hp hs hh
    | jmp c l => exact ok_jmp c l param st h hp hs hh
    | call l => exact ok_call l param st h hp hs hh
    | callA  => exact ok_callA  param st h hp hs hh
    | callT  => exact ok_callT  param st h hp hs hh
    | abort  => exact ok_abort  param st h hp hs hh
    | assert  => exact ok_assert  param st h hp hs hh
    | throw  => exact ok_throw  param st h hp hs hh
    | try_ l => exact ok_try_ l param st h hp hs hh
    | endTry l => exact ok_endTry l param st h hp hs hh
    | endFinally  => exact ok_endFinally  param st h hp hs hh
    | ret  => exact ok_ret  param st h hp hs hh
    | syscall  => exact ok_syscall  param st h hp hs hh
    | depth  => exact ok_depth  param st h hp hs hh
    | drop  => exact ok_drop  param st h hp hs hh
    | nip  => exact ok_nip  param st h hp hs hh
    | xdrop  => exact ok_xdrop  param st h hp hs hh
    | clear  => exact ok_clear  param st h hp hs hh
    | dup  => exact ok_dup  param st h hp hs hh
    | over  => exact ok_over  param st h hp hs hh
    | pick  => exact ok_pick  param st h hp hs hh
    | tuck  => exact ok_tuck  param st h hp hs hh
    | swap  => exact ok_swap  param st h hp hs hh
    | rot  => exact ok_rot  param st h hp hs hh
    | roll  => exact ok_roll  param st h hp hs hh
    | reverse3  => exact ok_reverse3  param st h hp hs hh
    | reverse4  => exact ok_reverse4  param st h hp hs hh
    | reverseN  => exact ok_reverseN  param st h hp hs hh
    | initSSlot  => exact ok_initSSlot  param st h hp hs hh
    | initSlot  => exact ok_initSlot  param st h hp hs hh
    | ld k i => exact ok_ld k i param st h hp hs hh
    | st k i => exact ok_st k i param st h hp hs hh
    | newBuffer  => exact ok_newBuffer  param st h hp hs hh
    | memcpy  => exact ok_memcpy  param st h hp hs hh
    | cat  => exact ok_cat  param st h hp hs hh
    | substr  => exact ok_substr  param st h hp hs hh
    | left  => exact ok_left  param st h hp hs hh
    | right  => exact ok_right  param st h hp hs hh
    | invert  => exact ok_invert  param st h hp hs hh
    | and  => exact ok_and  param st h hp hs hh
    | or  => exact ok_or  param st h hp hs hh
    | xor  => exact ok_xor  param st h hp hs hh
    | equal  => exact ok_equal  param st h hp hs hh
    | notEqual  => exact ok_notEqual  param st h hp hs hh
    | sign  => exact ok_sign  param st h hp hs hh
    | abs  => exact ok_abs  param st h hp hs hh
    | negate  => exact ok_negate  param st h hp hs hh
    | inc  => exact ok_inc  param st h hp hs hh
    | dec  => exact ok_dec  param st h hp hs hh
    | add  => exact ok_add  param st h hp hs hh
    | sub  => exact ok_sub  param st h hp hs hh
    | mul  => exact ok_mul  param st h hp hs hh
    | div  => exact ok_div  param st h hp hs hh
    | mod  => exact ok_mod  param st h hp hs hh
    | pow  => exact ok_pow  param st h hp hs hh
    | sqrt  => exact ok_sqrt  param st h hp hs hh
    | modMul  => exact ok_modMul  param st h hp hs hh
    | modPow  => exact ok_modPow  param st h hp hs hh
    | shl  => exact ok_shl  param st h hp hs hh
    | shr  => exact ok_shr  param st h hp hs hh
    | not  => exact ok_not  param st h hp hs hh
    | boolAnd  => exact ok_boolAnd  param st h hp hs hh
    | boolOr  => exact ok_boolOr  param st h hp hs hh
    | nz  => exact ok_nz  param st h hp hs hh
    | numEqual  => exact ok_numEqual  param st h hp hs hh
    | numNotEqual  => exact ok_numNotEqual  param st h hp hs hh
    | lt  => exact ok_lt  param st h hp hs hh
    | le  => exact ok_le  param st h hp hs hh
    | gt  => exact ok_gt  param st h hp hs hh
    | ge  => exact ok_ge  param st h hp hs hh
    | min  => exact ok_min  param st h hp hs hh
    | max  => exact ok_max  param st h hp hs hh
    | within  => exact ok_within  param st h hp hs hh
    | packMap  => exact ok_packMap  param st h hp hs hh
    | packStruct  => exact ok_packStruct  param st h hp hs hh
    | pack  => exact ok_pack  param st h hp hs hh
    | unpack  => exact ok_unpack  param st h hp hs hh
    | newArray0  => exact ok_newArray0  param st h hp hs hh
    | newArray  => exact ok_newArray  param st h hp hs hh
    | newArrayT  => exact ok_newArrayT  param st h hp hs hh
    | newStruct0  => exact ok_newStruct0  param st h hp hs hh
    | newStruct  => exact ok_newStruct  param st h hp hs hh
    | newMap  => exact ok_newMap  param st h hp hs hh
    | size  => exact ok_size  param st h hp hs hh
    | hasKey  => exact ok_hasKey  param st h hp hs hh
    | keys  => exact ok_keys  param st h hp hs hh
    | values  => exact ok_values  param st h hp hs hh
    | pickItem  => exact ok_pickItem  param st h hp hs hh
    | append  => exact ok_append  param st h hp hs hh
    | setItem  => exact ok_setItem  param st h hp hs hh
    | reverseItems  => exact ok_reverseItems  param st h hp hs hh
    | remove  => exact ok_remove  param st h hp hs hh
    | clearItems  => exact ok_clearItems  param st h hp hs hh
    | popItem  => exact ok_popItem  param st h hp hs hh
    | isNull  => exact ok_isNull  param st h hp hs hh
    | isType  => exact ok_isType  param st h hp hs hh
    | convert  => exact ok_convert  param st h hp hs hh
    | abortMsg  => exact ok_abortMsg  param st h hp hs hh
    | assertMsg  => exact ok_assertMsg  param st h hp hs hh
  exact this.out out he

end NeoModel.Vm
