/-
C12, item sizes in the specification machine `NeoModel.Vm`, part 1: the invariant ("every byte
string and every buffer — on a stack, in a slot, inside a compound, pending as exception — has at
most MaxSize bytes"), a small weakest-precondition calculus for the `Except` programs of
`Model/Vm/Ops.lean`, and the specifications of the helpers (`popE`, `popInt`, `popBytes`, `mkInt`,
`newBuf`, `unop`, `binop`, …) and of the heap accessors.
Integers are within 256 bits by the type of `Item.int` (`Int256` carries the range proof).
-/
import NeoModel.Proofs.VmAcctSpecSize
import NeoModel.Proofs.VmNum
namespace NeoModel.Vm

def ItemOk : Item → Prop
  | .bytes b => b.length ≤ maxItemSize
  | _ => True

def StackOk (st : List Item) : Prop := ∀ x ∈ st, ItemOk x

def ObjOk : HeapObj → Prop
  | .buf b => b.length ≤ maxItemSize
  | .items xs => StackOk xs
  | .entries kv => ∀ e ∈ kv, ItemOk e.1 ∧ ItemOk e.2

def HeapOk (h : Heap) : Prop := ∀ (i : Nat) (o : HeapObj), h[i]? = some o → ObjOk o

def OutOk : Outcome → Prop
  | .next st h => StackOk st ∧ HeapOk h
  | .throw ex st h => ItemOk ex ∧ StackOk st ∧ HeapOk h

/-! ### stacks -/

theorem stackOk_nil : StackOk [] := by intro x hx; cases hx
theorem StackOk.cons {x : Item} {st : List Item} (hx : ItemOk x) (hs : StackOk st) : StackOk (x :: st) := by
  intro y hy
  rcases List.mem_cons.1 hy with rfl | hy
  · exact hx
  · exact hs y hy
theorem StackOk.head {x : Item} {st : List Item} (hs : StackOk (x :: st)) : ItemOk x := hs x (List.mem_cons_self ..)
theorem StackOk.tail {x : Item} {st : List Item} (hs : StackOk (x :: st)) : StackOk st := fun y hy => hs y (List.mem_cons_of_mem _ hy)
theorem StackOk.append {a b : List Item} (ha : StackOk a) (hb : StackOk b) : StackOk (a ++ b) := by
  intro y hy
  rcases List.mem_append.1 hy with h | h
  · exact ha y h
  · exact hb y h
theorem StackOk.sub {a b : List Item} (hb : StackOk b) (h : ∀ x ∈ a, x ∈ b) : StackOk a := fun x hx => hb x (h x hx)
theorem StackOk.take {a : List Item} (ha : StackOk a) (n : Nat) : StackOk (a.take n) := ha.sub fun _ h => List.mem_of_mem_take h
theorem StackOk.drop {a : List Item} (ha : StackOk a) (n : Nat) : StackOk (a.drop n) := ha.sub fun _ h => List.mem_of_mem_drop h
theorem StackOk.reverse {a : List Item} (ha : StackOk a) : StackOk a.reverse := ha.sub fun _ h => List.mem_reverse.1 h
theorem StackOk.dropLast {a : List Item} (ha : StackOk a) : StackOk a.dropLast := ha.sub fun _ h => List.dropLast_subset _ h
theorem StackOk.get {a : List Item} (ha : StackOk a) {i : Nat} {x : Item} (h : a[i]? = some x) : ItemOk x :=
  ha x (List.mem_of_getElem? h)
theorem StackOk.set {a : List Item} (ha : StackOk a) (i : Nat) {x : Item} (hx : ItemOk x) : StackOk (a.set i x) := by
  intro y hy
  rcases List.mem_or_eq_of_mem_set hy with h | h
  · exact ha y h
  · rw [h]; exact hx
theorem StackOk.getD {a : List Item} (ha : StackOk a) (i : Nat) : ItemOk (a.getD i .null) := by
  rw [List.getD_eq_getElem?_getD]
  cases h : a[i]? with
  | none => trivial
  | some x => exact ha.get h
theorem stackOk_replicate {x : Item} (hx : ItemOk x) (n : Nat) : StackOk (List.replicate n x) := by
  intro y hy; rw [(List.mem_replicate.1 hy).2]; exact hx
theorem StackOk.listRemove : ∀ {a : List Item}, StackOk a → ∀ (n : Nat), StackOk (listRemove a n) := by
  intro a
  induction a with
  | nil => intro h n; simpa [Vm.listRemove] using h
  | cons x t ih =>
    intro h n
    cases n with
    | zero => exact h.tail
    | succ n => exact StackOk.cons h.head (ih h.tail n)
theorem StackOk.getLast {a : List Item} (ha : StackOk a) {x : Item} (h : a.getLast? = some x) : ItemOk x :=
  ha x (List.mem_of_getLast? h)

/-! ### the heap -/

theorem heapOk_empty : HeapOk #[] := by intro i o h; simp at h

theorem HeapOk.alloc {h : Heap} (hh : HeapOk h) {o : HeapObj} (ho : ObjOk o) : HeapOk (h.alloc o).1 := by
  intro i x hx
  simp only [Heap.alloc, Array.getElem?_push] at hx
  split at hx
  · simp only [Option.some.injEq] at hx; rw [← hx]; exact ho
  · exact hh i x hx

theorem HeapOk.push {h : Heap} (hh : HeapOk h) {o : HeapObj} (ho : ObjOk o) : HeapOk (h.push o) := hh.alloc ho

theorem HeapOk.put {h : Heap} (hh : HeapOk h) (id : Nat) {o : HeapObj} (ho : ObjOk o) : HeapOk (h.put id o) := by
  intro i x hx
  simp only [Heap.put, Array.getElem?_setIfInBounds] at hx
  split at hx
  · split at hx
    · simp only [Option.some.injEq] at hx; rw [← hx]; exact ho
    · cases hx
  · exact hh i x hx

theorem HeapOk.getBuf {h : Heap} (hh : HeapOk h) {id : Nat} {b : Bytes} (hb : h.getBuf id = some b) : b.length ≤ maxItemSize := by
  simp only [Heap.getBuf] at hb
  split at hb
  · rename_i b' heq
    simp only [Option.some.injEq] at hb; subst hb
    exact hh id _ heq
  · cases hb

theorem HeapOk.getItems {h : Heap} (hh : HeapOk h) {id : Nat} {xs : List Item} (hb : h.getItems id = some xs) : StackOk xs := by
  simp only [Heap.getItems] at hb
  split at hb
  · rename_i b' heq
    simp only [Option.some.injEq] at hb; subst hb
    exact hh id _ heq
  · cases hb

theorem HeapOk.getEntries {h : Heap} (hh : HeapOk h) {id : Nat} {kv : List (Item × Item)} (hb : h.getEntries id = some kv) :
    ∀ e ∈ kv, ItemOk e.1 ∧ ItemOk e.2 := by
  simp only [Heap.getEntries] at hb
  split at hb
  · rename_i b' heq
    simp only [Option.some.injEq] at hb; subst hb
    exact hh id _ heq
  · cases hb

theorem HeapOk.seqItems {h : Heap} (hh : HeapOk h) {x : Item} {id : Nat} {xs : List Item} (hb : seqItems h x = some (id, xs)) :
    StackOk xs := by
  cases x <;> simp only [Vm.seqItems, Option.map_eq_some_iff, Prod.mk.injEq, reduceCtorEq] at hb
  · obtain ⟨ys, hy, _, rfl⟩ := hb; exact hh.getItems hy
  · obtain ⟨ys, hy, _, rfl⟩ := hb; exact hh.getItems hy

/-- what `TryBytes` returns is never longer than MaxSize -/
theorem toBytes_ok {h : Heap} (hh : HeapOk h) {x : Item} (hx : ItemOk x) {b : Bytes} (hb : x.toBytes h = some b) :
    b.length ≤ maxItemSize := by
  cases x <;> simp only [Item.toBytes, Option.some.injEq, reduceCtorEq] at hb
  · subst hb; simp [maxItemSize]
  · rename_i n
    subst hb
    have := toBytes_length n.val n.property
    simp only [maxItemSize]; omega
  · subst hb; exact hx
  · exact hh.getBuf hb

/-! ### weakest preconditions for `E = Except String` -/

structure WP {α} (m : E α) (Q : α → Prop) : Prop where
  out : ∀ a, m = .ok a → Q a

theorem wp_bind {α β} {m : E α} {f : α → E β} {Q : β → Prop} (h : WP m (fun a => WP (f a) Q)) : WP (m >>= f) Q := by
  refine ⟨fun b hb => ?_⟩
  cases m with
  | error e => cases hb
  | ok a => exact (h.out a rfl).out b hb

theorem wp_ok {α} {a : α} {Q : α → Prop} (h : Q a) : WP (.ok a) Q := by
  refine ⟨fun b hb => ?_⟩; cases hb; exact h
theorem wp_pure {α} {a : α} {Q : α → Prop} (h : Q a) : WP (pure a : E α) Q := wp_ok h
theorem wp_error {α} {e : String} {Q : α → Prop} : WP (.error e : E α) Q := ⟨fun b hb => by cases hb⟩
theorem wp_throw {α} {e : String} {Q : α → Prop} : WP (throw e : E α) Q := ⟨fun b hb => by cases hb⟩

theorem wp_map {α β} {m : E α} {f : α → β} {Q : β → Prop} (h : WP m (fun a => Q (f a))) : WP (f <$> m) Q := by
  refine ⟨fun b hb => ?_⟩
  cases m with
  | error e => cases hb
  | ok a =>
    have : f a = b := by simpa [Functor.map, Except.map] using hb
    rw [← this]; exact h.out a rfl

theorem wp_popE {st : List Item} {Q : Item × List Item → Prop} (hs : StackOk st)
    (k : ∀ x st', ItemOk x → StackOk st' → Q (x, st')) : WP (popE st) Q := by
  refine ⟨fun a ha => ?_⟩
  cases st with
  | nil => cases ha
  | cons x r =>
    simp only [popE, Except.ok.injEq] at ha
    subst ha
    exact k x r hs.head hs.tail

theorem wp_optE {α} {msg : String} {o : Option α} {Q : α → Prop} (k : ∀ a, o = some a → Q a) : WP (optE msg o) Q := by
  refine ⟨fun a ha => ?_⟩
  cases o with
  | none => cases ha
  | some b => simp only [optE, Except.ok.injEq] at ha; subst ha; exact k b rfl

theorem wp_popInt {st : List Item} {Q : Int × List Item → Prop} (hs : StackOk st)
    (k : ∀ n st', StackOk st' → Q (n, st')) : WP (popInt st) Q := by
  unfold popInt
  apply wp_bind; apply wp_popE hs; intro x st' _ hs'
  apply wp_bind; apply wp_optE; intro n _
  exact wp_pure (k n st' hs')

theorem wp_popIdx {st : List Item} {Q : Int × List Item → Prop} (hs : StackOk st)
    (k : ∀ n st', StackOk st' → (-(2:Int)^31 ≤ n ∧ n < (2:Int)^31) → Q (n, st')) : WP (popIdx st) Q := by
  unfold popIdx
  apply wp_bind; apply wp_popInt hs; intro n st' hs'
  apply wp_bind; apply wp_optE; intro m hm
  simp only [toInt32] at hm
  split at hm
  · simp only [Option.some.injEq] at hm; subst hm; exact wp_pure (k n st' hs' ‹_›)
  · cases hm

theorem wp_popBool {st : List Item} {Q : Bool × List Item → Prop} (hs : StackOk st)
    (k : ∀ b st', StackOk st' → Q (b, st')) : WP (popBool st) Q := by
  unfold popBool
  apply wp_bind; apply wp_popE hs; intro x st' _ hs'
  apply wp_bind; apply wp_optE; intro n _
  exact wp_pure (k n st' hs')

theorem wp_popBytes {h : Heap} {st : List Item} {Q : Bytes × List Item → Prop} (hh : HeapOk h) (hs : StackOk st)
    (k : ∀ b st', b.length ≤ maxItemSize → StackOk st' → Q (b, st')) : WP (popBytes h st) Q := by
  unfold popBytes
  apply wp_bind; apply wp_popE hs; intro x st' hx hs'
  apply wp_bind; apply wp_optE; intro b hb
  exact wp_pure (k b st' (toBytes_ok hh hx hb) hs')

theorem wp_next1 {x : Item} {st : List Item} {h : Heap} (hx : ItemOk x) (hs : StackOk st) (hh : HeapOk h) :
    WP (next1 x st h) OutOk := wp_ok ⟨StackOk.cons hx hs, hh⟩

theorem wp_next {st : List Item} {h : Heap} (hs : StackOk st) (hh : HeapOk h) :
    WP (.ok (.next st h) : E Outcome) OutOk := wp_ok ⟨hs, hh⟩

theorem wp_throwOut {ex : Item} {st : List Item} {h : Heap} (hx : ItemOk ex) (hs : StackOk st) (hh : HeapOk h) :
    WP (.ok (.throw ex st h) : E Outcome) OutOk := wp_ok ⟨hx, hs, hh⟩

theorem wp_pushIntE {n : Int} {st : List Item} {h : Heap} (hs : StackOk st) (hh : HeapOk h) : WP (pushIntE n st h) OutOk := by
  unfold pushIntE mkInt
  apply wp_bind; apply wp_map; apply wp_optE; intro a _
  exact wp_next1 trivial hs hh

theorem wp_unop {f : Int → E Int} {st : List Item} {h : Heap} (hs : StackOk st) (hh : HeapOk h) : WP (unop f st h) OutOk := by
  unfold unop
  apply wp_bind; apply wp_popInt hs; intro a st' hs'
  refine ⟨fun out ho => ?_⟩
  cases hf : f a with
  | error e => simp [hf, bind, Except.bind] at ho
  | ok r =>
    simp only [hf, bind, Except.bind] at ho
    exact (wp_pushIntE hs' hh).out out ho

theorem wp_binop {f : Int → Int → E Int} {st : List Item} {h : Heap} (hs : StackOk st) (hh : HeapOk h) : WP (binop f st h) OutOk := by
  unfold binop
  apply wp_bind; apply wp_popInt hs; intro b st1 hs1
  apply wp_bind; apply wp_popInt hs1; intro a st2 hs2
  refine ⟨fun out ho => ?_⟩
  cases hf : f a b with
  | error e => simp [hf, bind, Except.bind] at ho
  | ok r =>
    simp only [hf, bind, Except.bind] at ho
    exact (wp_pushIntE hs2 hh).out out ho

theorem wp_cmpop {f : Int → Int → Bool} {st : List Item} {h : Heap} (hs : StackOk st) (hh : HeapOk h) : WP (cmpop f st h) OutOk := by
  unfold cmpop
  apply wp_bind; apply wp_popInt hs; intro b st1 hs1
  apply wp_bind; apply wp_popInt hs1; intro a st2 hs2
  exact wp_next1 trivial hs2 hh

theorem wp_cmpNull {f : Int → Int → Bool} {st : List Item} {h : Heap} (hs : StackOk st) (hh : HeapOk h) : WP (cmpNull f st h) OutOk := by
  unfold cmpNull
  apply wp_bind; apply wp_popE hs; intro b st1 _ hs1
  apply wp_bind; apply wp_popE hs1; intro a st2 _ hs2
  dsimp only
  split
  · exact wp_next1 trivial hs2 hh
  · apply wp_bind; apply wp_optE; intro x _
    apply wp_bind; apply wp_optE; intro y _
    exact wp_next1 trivial hs2 hh

theorem wp_newBuf {b : Bytes} {st : List Item} {h : Heap} (hb : b.length ≤ maxItemSize) (hs : StackOk st) (hh : HeapOk h) :
    WP (newBuf b st h) OutOk := by
  unfold newBuf
  exact wp_ok ⟨StackOk.cons trivial hs, hh.alloc hb⟩

end NeoModel.Vm
