/-
C17: proofs about the message object (Model/Wire/MsgObj.lean): the flag rule, every serialisation decodes, the old
rule writes a plain payload under a Compressed flag.
-/
import NeoModel.Model.Wire.MsgObj
import NeoModel.Proofs.WireP2P
open NeoModel NeoModel.Wire NeoModel.Wire.Codec NeoModel.Generated

namespace NeoModel.Wire

set_option maxRecDepth 1000000 in
theorem u8_flag_all : (List.range 256).all (fun n =>
    ((((UInt8.ofNat n &&& 0xfe) ||| 1) &&& 1 != 0) == true) && (((UInt8.ofNat n &&& 0xfe) &&& 1 != 0) == false)
    && (((UInt8.ofNat n &&& 0xfe) ||| 1) &&& 0xfe == UInt8.ofNat n &&& 0xfe)
    && ((UInt8.ofNat n &&& 0xfe) &&& 0xfe == UInt8.ofNat n &&& 0xfe)) = true := by
  decide

theorem u8_flag (fl : UInt8) : (((fl &&& 0xfe) ||| 1) &&& 1 != 0) = true ∧ ((fl &&& 0xfe) &&& 1 != 0) = false
    ∧ ((fl &&& 0xfe) ||| 1) &&& 0xfe = fl &&& 0xfe ∧ (fl &&& 0xfe) &&& 0xfe = fl &&& 0xfe := by
  have hall := List.all_eq_true.mp u8_flag_all fl.toNat (by simp [List.mem_range]; exact fl.toNat_lt)
  have hs : UInt8.ofNat fl.toNat = fl := by simp
  rw [hs] at hall
  simpa [and_assoc] using hall

/-- the flag rule: bit 0 of the written flags byte is set exactly when the payload bytes written are the compressed
form; otherwise they are the plain payload encoding. -/
theorem MsgObj.frame_flag_rule (compress : Bytes → Bytes) (H : Bytes → Bytes) (cv : Curve) (sr : Bool) (allow : Bool) (o : MsgObj) :
    let f := o.frame compress H cv sr allow
    ((f.flags &&& 1 != 0) = o.compresses H cv sr allow) ∧
    f.raw = (if o.compresses H cv sr allow then compress (payloadEnc H cv sr o.payload) else payloadEnc H cv sr o.payload) ∧
    f.command = o.cmd ∧ f.flags &&& 0xfe = o.flags &&& 0xfe := by
  have h := u8_flag o.flags
  simp only [MsgObj.frame]
  cases hz : o.compresses H cv sr allow <;> simp [h.1, h.2.1, h.2.2.1, h.2.2.2]


/-- what Message.Decode makes of a well-formed frame. -/
theorem messageDec_frame (decompress : Bytes → Option Bytes) (H : Bytes → Bytes) (cv : Curve) (sr : Bool)
    (f : Frame) (r : Bytes) (hf : frameC.wf f) :
    messageDec decompress H cv sr (frameC.enc f ++ r) =
      (if f.raw.isEmpty then some (f.command, .null, r)
       else match (if f.flags &&& 1 != 0 then decompress f.raw else some f.raw) with
         | none => none
         | some buf => (payloadDec H cv sr f.command buf).map fun p => (f.command, p, r)) := by
  simp only [messageDec, frameC_lawful.roundtrip _ r hf]
  rfl

theorem isEmpty_false_of_ne {l : Bytes} (h : l ≠ []) : l.isEmpty = false := by
  cases l with
  | nil => exact absurd rfl h
  | cons _ _ => rfl

/-- any serialisation of a message object — whatever flags its history left in it, with or without compression
allowed — decodes to the same command and payload, and to the object as it is after the serialisation. -/
theorem MsgObj.encode_decodes (compress : Bytes → Bytes) (decompress : Bytes → Option Bytes)
    (hinv : ∀ x, decompress (compress x) = some x) (H : Bytes → Bytes) (cv : Curve) (hs : cv.Sound) (sr : Bool)
    (allow : Bool) (o : MsgObj) (r : Bytes) (hc : cmdOk o.cmd o.payload) (hw : payloadWf H cv sr o.payload)
    (hnull : payloadEnc H cv sr o.payload = [] → o.payload = .null)
    (hsz : (payloadEnc H cv sr o.payload).length ≤ WireLimits.payloadMaxSize)
    (hcz : (compress (payloadEnc H cv sr o.payload)).length ≤ WireLimits.payloadMaxSize ∧ compress (payloadEnc H cv sr o.payload) ≠ []) :
    MsgObj.decode decompress H cv sr ((o.encode compress H cv sr allow).2 ++ r)
      = some ((o.encode compress H cv sr allow).1, r) := by
  have hmax : WireLimits.payloadMaxSize < 2 ^ 64 := by decide
  have hfl := u8_flag o.flags
  obtain ⟨fl, cmd, p⟩ := o
  simp only at hc hw hnull hsz hcz hfl
  simp only [MsgObj.encode, MsgObj.decode]
  cases hcond : MsgObj.compresses H cv sr allow ⟨fl, cmd, p⟩
  · have hfr : MsgObj.frame compress H cv sr allow ⟨fl, cmd, p⟩ = ⟨fl &&& 0xfe, cmd, payloadEnc H cv sr p⟩ := by
      simp [MsgObj.frame, hcond]
    rw [hfr]
    by_cases he : payloadEnc H cv sr p = []
    · have hp := hnull he
      subst hp
      have hfw : frameC.wf ⟨fl &&& 0xfe, cmd, payloadEnc H cv sr .null⟩ := by
        refine ⟨⟨⟨trivial, trivial, by rw [he]; simp, by rw [he]; simp⟩, ?_⟩, rfl⟩
        simp only [cmdOk] at hc
        simp [he, hc]
      rw [messageDec_frame _ _ _ _ _ _ hfw, frameC_lawful.roundtrip _ r hfw]
      simp [he]
    · have hne := isEmpty_false_of_ne he
      have hfw : frameC.wf ⟨fl &&& 0xfe, cmd, payloadEnc H cv sr p⟩ := by
        refine ⟨⟨⟨trivial, trivial, hsz, Nat.lt_of_le_of_lt hsz hmax⟩, ?_⟩, rfl⟩
        simp [hne]
      rw [messageDec_frame _ _ _ _ _ _ hfw, frameC_lawful.roundtrip _ r hfw]
      simp only [hne, Bool.false_eq_true, if_false, hfl.2.1, payloadDec_enc H cv hs sr cmd p hc hw he, Option.map_some]
  · have hfr : MsgObj.frame compress H cv sr allow ⟨fl, cmd, p⟩ = ⟨(fl &&& 0xfe) ||| 1, cmd, compress (payloadEnc H cv sr p)⟩ := by
      simp [MsgObj.frame, hcond]
    rw [hfr]
    have hne := isEmpty_false_of_ne hcz.2
    have hfw : frameC.wf ⟨(fl &&& 0xfe) ||| 1, cmd, compress (payloadEnc H cv sr p)⟩ := by
      refine ⟨⟨⟨trivial, trivial, hcz.1, Nat.lt_of_le_of_lt hcz.1 hmax⟩, ?_⟩, rfl⟩
      simp [hne]
    have hbody : payloadEnc H cv sr p ≠ [] := by
      simp only [MsgObj.compresses, Bool.and_eq_true, decide_eq_true_eq] at hcond
      intro he; rw [he] at hcond; simp at hcond
    rw [messageDec_frame _ _ _ _ _ _ hfw, frameC_lawful.roundtrip _ r hfw]
    simp only [hne, Bool.false_eq_true, if_false, hfl.1, if_true, hinv,
      payloadDec_enc H cv hs sr cmd p hc hw hbody, Option.map_some]

/-- the old rule (before 817a9b3) on an object whose Compressed flag is set — by a previous compressed
serialisation or by decoding a compressed frame: the frame carries the PLAIN payload under a flags byte that says
compressed, whatever `allow` is. -/
theorem MsgObj.frameOld_flag_lies (compress : Bytes → Bytes) (H : Bytes → Bytes) (cv : Curve) (sr : Bool) (allow : Bool)
    (o : MsgObj) (h : o.flags &&& 1 = 1) :
    o.frameOld compress H cv sr allow = ⟨o.flags, o.cmd, payloadEnc H cv sr o.payload⟩ := by
  simp [MsgObj.frameOld, h]


/-- a frame the old rule wrote for an object with the flag set is refused by every decoder whose decompression
refuses the plain payload bytes (they are not an LZ4 block with a length prefix). -/
theorem MsgObj.encodeOld_undecodable (compress : Bytes → Bytes) (decompress : Bytes → Option Bytes)
    (H : Bytes → Bytes) (cv : Curve) (sr : Bool) (allow : Bool) (o : MsgObj) (r : Bytes) (h : o.flags &&& 1 = 1)
    (hne : payloadEnc H cv sr o.payload ≠ [])
    (hsz : (payloadEnc H cv sr o.payload).length ≤ WireLimits.payloadMaxSize)
    (hd : decompress (payloadEnc H cv sr o.payload) = none) :
    MsgObj.decode decompress H cv sr ((o.encodeOld compress H cv sr allow).2 ++ r) = none := by
  have hmax : WireLimits.payloadMaxSize < 2 ^ 64 := by decide
  have hfw : frameC.wf ⟨o.flags, o.cmd, payloadEnc H cv sr o.payload⟩ := by
    refine ⟨⟨⟨trivial, trivial, hsz, Nat.lt_of_le_of_lt hsz hmax⟩, ?_⟩, rfl⟩
    simp [isEmpty_false_of_ne hne]
  simp only [MsgObj.encodeOld, MsgObj.frameOld_flag_lies compress H cv sr allow o h, MsgObj.decode]
  rw [messageDec_frame _ _ _ _ _ _ hfw, frameC_lawful.roundtrip _ r hfw]
  simp [isEmpty_false_of_ne hne, h, hd]

/-- the frames a sequence of serialisations of one object writes (`allow` per serialisation). -/
def MsgObj.encodeSeq (compress : Bytes → Bytes) (H : Bytes → Bytes) (cv : Curve) (sr : Bool) : List Bool → MsgObj → List Bytes
  | [], _ => []
  | a :: as, o => (o.encode compress H cv sr a).2 :: MsgObj.encodeSeq compress H cv sr as (o.encode compress H cv sr a).1

theorem MsgObj.decode_messageDec {decompress : Bytes → Option Bytes} {H : Bytes → Bytes} {cv : Curve} {sr : Bool}
    {b : Bytes} {o : MsgObj} {r : Bytes} (h : MsgObj.decode decompress H cv sr b = some (o, r)) :
    messageDec decompress H cv sr b = some (o.cmd, o.payload, r) := by
  simp only [MsgObj.decode] at h
  cases hf : frameC.dec b with
  | none => simp [hf] at h
  | some fr =>
    obtain ⟨f, r'⟩ := fr
    simp only [hf] at h
    cases hm : messageDec decompress H cv sr b with
    | none => simp [hm] at h
    | some v =>
      obtain ⟨c, p, r''⟩ := v
      have hr : r'' = r' := by
        simp only [messageDec, hf] at hm
        split at hm
        · simp at hm; exact hm.2.2.symm
        · split at hm
          · simp at hm
          · rw [Option.map_eq_some_iff] at hm
            obtain ⟨q, _, hq⟩ := hm
            simp only [Prod.mk.injEq] at hq
            exact hq.2.2.symm
      simp only [hm, Option.map_some, Option.some.injEq, Prod.mk.injEq] at h
      obtain ⟨ho, hr2⟩ := h
      subst ho; subst hr; subst hr2
      rfl

/-- every frame of every sequence of serialisations of one object (compression allowed or not, in any order, from
any starting flags) decodes to the command and payload of the object. -/
theorem MsgObj.encodeSeq_decodes (compress : Bytes → Bytes) (decompress : Bytes → Option Bytes)
    (hinv : ∀ x, decompress (compress x) = some x) (H : Bytes → Bytes) (cv : Curve) (hs : cv.Sound) (sr : Bool)
    (as : List Bool) (o : MsgObj) (hc : cmdOk o.cmd o.payload) (hw : payloadWf H cv sr o.payload)
    (hnull : payloadEnc H cv sr o.payload = [] → o.payload = .null)
    (hsz : (payloadEnc H cv sr o.payload).length ≤ WireLimits.payloadMaxSize)
    (hcz : (compress (payloadEnc H cv sr o.payload)).length ≤ WireLimits.payloadMaxSize ∧ compress (payloadEnc H cv sr o.payload) ≠ []) :
    ∀ b ∈ MsgObj.encodeSeq compress H cv sr as o, messageDec decompress H cv sr b = some (o.cmd, o.payload, []) := by
  induction as generalizing o with
  | nil => intro b hb; simp [MsgObj.encodeSeq] at hb
  | cons a as ih =>
    intro b hb
    simp only [MsgObj.encodeSeq, List.mem_cons] at hb
    rcases hb with hb | hb
    · have := MsgObj.encode_decodes compress decompress hinv H cv hs sr a o [] hc hw hnull hsz hcz
      rw [List.append_nil] at this
      rw [hb]
      have h2 := MsgObj.decode_messageDec this
      simpa [MsgObj.encode] using h2
    · exact ih (o.encode compress H cv sr a).1 hc hw hnull hsz hcz b hb

end NeoModel.Wire
