/-
C20 (b) helper lemmas: positions of the trie, the invariant of the state-sync model and its preservation
by one restoreNode step.
-/
import NeoModel.Proofs.StateSyncPool
namespace NeoModel.StateSync

variable (db : Hash → Option SNode) (root : Hash)

/-- The positions of the trie: `(hash, path)` pairs reachable from the root. -/
inductive Pos : Hash → Path → Prop
  | root : Pos root []
  | kid {h : Hash} {p : Path} {n : SNode} {k : Path × Hash} :
      Pos h p → db h = some n → k ∈ n.kids → Pos k.2 (p ++ k.1)

/-- Shape hypotheses on the source trie (they hold for every MPT: all nodes reachable from the root are
in the table; a position is reached in one way only — extension keys are non-empty, branch children add
a nibble, and the branch's value child is a leaf). -/
structure WF : Prop where
  closed : ∀ h p, Pos db root h p → ∃ n, db h = some n
  rootNotKid : ∀ h p n k, Pos db root h p → db h = some n → k ∈ n.kids → (k.2, p ++ k.1) ≠ (root, [])
  uniqueParent : ∀ h1 p1 n1 k1 h2 p2 n2 k2, Pos db root h1 p1 → Pos db root h2 p2 →
    db h1 = some n1 → db h2 = some n2 → k1 ∈ n1.kids → k2 ∈ n2.kids →
    (k1.2, p1 ++ k1.1) = (k2.2, p2 ++ k2.1) → h1 = h2 ∧ p1 = p2

def IsKidOf (x y : Hash × Path) : Prop :=
  ∃ n k, db y.1 = some n ∧ k ∈ n.kids ∧ x = (k.2, y.2 ++ k.1)

structure Inv (s : MS) : Prop where
  poolPos : ∀ x ∈ s.pool, Pos db root x.1 x.2
  donePos : ∀ x ∈ s.done, Pos db root x.1 x.2
  poolNodup : s.pool.Nodup
  doneNodup : s.done.Nodup
  disj : ∀ x ∈ s.pool, x ∉ s.done
  rootIn : (root, []) ∈ s.pool ∨ (root, []) ∈ s.done
  closed : ∀ x ∈ s.done, ∀ y, IsKidOf db y x → y ∈ s.pool ∨ y ∈ s.done
  poolParent : ∀ x ∈ s.pool, x = (root, []) ∨ ∃ y ∈ s.done, IsKidOf db x y
  doneParent : ∀ x ∈ s.done, x = (root, []) ∨ ∃ y ∈ s.done, IsKidOf db x y
  refsEq : ∀ h, s.refs h = (s.done.filter (fun x => x.1 == h)).length
  tempEq : ∀ p v, (p, v) ∈ s.temp ↔ ∃ h n, (h, p) ∈ s.done ∧ db h = some n ∧ n.val = some v

theorem inv_init : Inv db root (MS.init root) := by
  refine ⟨?_, ?_, ?_, ?_, ?_, ?_, ?_, ?_, ?_, ?_, ?_⟩
  · intro x hx; simp [MS.init] at hx; subst hx; exact Pos.root
  · intro x hx; simp [MS.init] at hx
  · simp [MS.init]
  · simp [MS.init]
  · intro x _ hx; simp [MS.init] at hx
  · left; simp [MS.init]
  · intro x hx; simp [MS.init] at hx
  · intro x hx; simp [MS.init] at hx; exact .inl hx
  · intro x hx; simp [MS.init] at hx
  · intro h; simp [MS.init]
  · intro p v; simp [MS.init]

/-- One `restoreNode` call without the recursion into stored children. -/
def restoreStep (s : MS) (h : Hash) (n : SNode) : MS :=
  let paths := pathsOf s.pool h
  let s1 := restoreAll s h n paths
  { s1 with pool := addAll (removeHash s1.pool h) (paths.flatMap (fun p => childrenPaths p n)) }

theorem inv_restoreStep (wf : WF db root) (s : MS) (h : Hash) (n : SNode) (hi : Inv db root s)
    (hn : db h = some n) : Inv db root (restoreStep s h n) := by
  have hpaths : ∀ q, q ∈ pathsOf s.pool h ↔ (h, q) ∈ s.pool := mem_pathsOf s.pool h
  have hpool' : ∀ y, y ∈ (restoreStep s h n).pool ↔
      (y ∈ s.pool ∧ y.1 ≠ h) ∨ ∃ q, (h, q) ∈ s.pool ∧ ∃ k ∈ n.kids, y = (k.2, q ++ k.1) := by
    intro y
    simp only [restoreStep, restoreAll, mem_addAll, mem_removeHash, mem_kids, hpaths]
  have hdone' : ∀ y, y ∈ (restoreStep s h n).done ↔ y ∈ s.done ∨ (y.1 = h ∧ y ∈ s.pool) := by
    intro y
    simp only [restoreStep, restoreAll, List.mem_append, List.mem_map, hpaths]
    constructor
    · rintro (hy | ⟨q, hq, rfl⟩)
      · exact .inl hy
      · exact .inr ⟨rfl, hq⟩
    · rintro (hy | ⟨h1, h2⟩)
      · exact .inl hy
      · refine .inr ⟨y.2, ?_, ?_⟩
        · rw [← h1]; exact h2
        · rw [← h1]
  -- a kid of a pool position is neither restored nor pending as a restored-to-be position
  have kidFresh : ∀ q, (h, q) ∈ s.pool → ∀ k ∈ n.kids, (k.2, q ++ k.1) ∉ s.done ∧
      ((k.2, q ++ k.1) ∈ s.pool → k.2 ≠ h) := by
    intro q hq k hk
    have hposq := hi.poolPos _ hq
    have key : ∀ y, y ∈ s.done → IsKidOf db (k.2, q ++ k.1) y → False := by
      intro y hy ⟨n', k', hn', hk', he⟩
      have := wf.uniqueParent h q n k y.1 y.2 n' k' hposq (hi.donePos _ hy) hn hn' hk hk' he
      have hyq : y = (h, q) := Prod.ext this.1.symm this.2.symm
      exact hi.disj _ hq (hyq ▸ hy)
    constructor
    · intro hd
      rcases hi.doneParent _ hd with hr | ⟨y, hy, hk'⟩
      · exact wf.rootNotKid h q n k hposq hn hk hr
      · exact key y hy hk'
    · intro hp _
      rcases hi.poolParent _ hp with hr | ⟨y, hy, hk'⟩
      · exact wf.rootNotKid h q n k hposq hn hk hr
      · exact key y hy hk'
  refine ⟨?_, ?_, ?_, ?_, ?_, ?_, ?_, ?_, ?_, ?_, ?_⟩
  · -- poolPos
    intro y hy
    rcases (hpool' y).1 hy with ⟨hy, _⟩ | ⟨q, hq, k, hk, rfl⟩
    · exact hi.poolPos _ hy
    · exact Pos.kid (hi.poolPos _ hq) hn hk
  · -- donePos
    intro y hy
    rcases (hdone' y).1 hy with hy | ⟨_, hy⟩
    · exact hi.donePos _ hy
    · exact hi.poolPos _ hy
  · -- poolNodup
    exact nodup_addAll _ _ (nodup_removeHash _ _ hi.poolNodup)
  · -- doneNodup
    simp only [restoreStep, restoreAll]
    rw [List.nodup_append]
    refine ⟨hi.doneNodup, ?_, ?_⟩
    · exact (nodup_pathsOf _ _ hi.poolNodup).map (fun a b hab => by simpa using hab)
    · intro a ha b hb
      simp only [List.mem_map, hpaths] at hb
      obtain ⟨q, hq, rfl⟩ := hb
      intro e; subst e; exact hi.disj _ hq ha
  · -- disj
    intro y hy hd
    rcases (hpool' y).1 hy with ⟨hy, hne⟩ | ⟨q, hq, k, hk, rfl⟩
    · rcases (hdone' y).1 hd with hd | ⟨he, _⟩
      · exact hi.disj _ hy hd
      · exact hne he
    · have hf := kidFresh q hq k hk
      rcases (hdone' _).1 hd with hd | ⟨he, hp⟩
      · exact hf.1 hd
      · exact hf.2 hp he
  · -- rootIn
    rcases hi.rootIn with hr | hr
    · by_cases he : root = h
      · right; exact (hdone' _).2 (.inr ⟨he, hr⟩)
      · left; exact (hpool' _).2 (.inl ⟨hr, he⟩)
    · right; exact (hdone' _).2 (.inl hr)
  · -- closed
    intro x hx y hk
    have step : y ∈ s.pool ∨ y ∈ s.done → y ∈ (restoreStep s h n).pool ∨ y ∈ (restoreStep s h n).done := by
      rintro (hp | hd)
      · by_cases he : y.1 = h
        · right; exact (hdone' y).2 (.inr ⟨he, hp⟩)
        · left; exact (hpool' y).2 (.inl ⟨hp, he⟩)
      · right; exact (hdone' y).2 (.inl hd)
    rcases (hdone' x).1 hx with hx | ⟨he, hx⟩
    · exact step (hi.closed x hx y hk)
    · obtain ⟨n', k, hn', hk', rfl⟩ := hk
      rw [he, hn] at hn'; cases hn'
      left
      refine (hpool' _).2 (.inr ⟨x.2, ?_, k, hk', rfl⟩)
      rw [← he]; exact hx
  · -- poolParent
    intro y hy
    rcases (hpool' y).1 hy with ⟨hy, _⟩ | ⟨q, hq, k, hk, rfl⟩
    · rcases hi.poolParent y hy with hr | ⟨z, hz, hk⟩
      · exact .inl hr
      · exact .inr ⟨z, (hdone' z).2 (.inl hz), hk⟩
    · exact .inr ⟨(h, q), (hdone' _).2 (.inr ⟨rfl, hq⟩), n, k, hn, hk, rfl⟩
  · -- doneParent
    intro y hy
    rcases (hdone' y).1 hy with hy | ⟨_, hy⟩
    · rcases hi.doneParent y hy with hr | ⟨z, hz, hk⟩
      · exact .inl hr
      · exact .inr ⟨z, (hdone' z).2 (.inl hz), hk⟩
    · rcases hi.poolParent y hy with hr | ⟨z, hz, hk⟩
      · exact .inl hr
      · exact .inr ⟨z, (hdone' z).2 (.inl hz), hk⟩
  · -- refsEq
    intro h'
    simp only [restoreStep, restoreAll, List.filter_append, List.length_append]
    have hcount : ((List.map (fun p => (h, p)) (pathsOf s.pool h)).filter (fun x => x.1 == h')).length =
        if h' = h then (pathsOf s.pool h).length else 0 := by
      by_cases e : h' = h
      · subst e
        rw [if_pos rfl, List.filter_eq_self.2]
        · simp
        · intro a ha; simp at ha; obtain ⟨_, _, rfl⟩ := ha; simp
      · rw [if_neg e, List.filter_eq_nil_iff.2]
        · rfl
        · intro a ha; simp at ha; obtain ⟨_, _, rfl⟩ := ha; simp; exact fun e' => e e'.symm
    rw [hcount]
    by_cases e : h' = h
    · subst e; simp [hi.refsEq]
    · simp [e, hi.refsEq]
  · -- tempEq
    intro p v
    have hold := hi.tempEq p v
    have hnew : (p, v) ∈ (restoreStep s h n).temp ↔ (p, v) ∈ s.temp ∨ ((h, p) ∈ s.pool ∧ n.val = some v) := by
      simp only [restoreStep, restoreAll]
      cases hv : n.val with
      | none => simp
      | some w =>
        simp only [List.mem_append, List.mem_map, hpaths, Prod.mk.injEq, Option.some.injEq]
        constructor
        · rintro (h1 | ⟨q, hq, rfl, rfl⟩)
          · exact .inl h1
          · exact .inr ⟨hq, rfl⟩
        · rintro (h1 | ⟨hq, rfl⟩)
          · exact .inl h1
          · exact .inr ⟨p, hq, rfl, rfl⟩
    rw [hnew, hold]
    constructor
    · rintro (⟨h', n', hd, hn', hv⟩ | ⟨hq, hv⟩)
      · exact ⟨h', n', (hdone' _).2 (.inl hd), hn', hv⟩
      · exact ⟨h, n, (hdone' _).2 (.inr ⟨rfl, hq⟩), hn, hv⟩
    · rintro ⟨h', n', hd, hn', hv⟩
      rcases (hdone' _).1 hd with hd | ⟨he, hq⟩
      · exact .inl ⟨h', n', hd, hn', hv⟩
      · simp only at he; subst he
        rw [hn] at hn'; cases hn'
        exact .inr ⟨hq, hv⟩

end NeoModel.StateSync
