/-
C06 helper lemmas: the transaction loop with reasons (`txLoopE`) refines the loop of the AddBlock model;
first failing transaction; the mempool shortcut does not decide.
-/
import NeoModel.Proofs.AddBlockTx
import NeoModel.Model.AddBlock.TxVerify
namespace NeoModel.AddBlock
variable {L : Type}

/-- `poolAdd` is `poolAddE` without the reason. -/
theorem poolAdd_eq_poolAddE (bal : Nat → Nat) (p : List Tx) (t : Tx) :
    poolAdd bal p t = (match poolAddE bal p t with | .ok p' => some p' | .error _ => none) := by
  unfold poolAdd poolAddE
  split; · rfl
  split; · rfl
  split; · rfl
  split; · rfl
  split; · rfl
  rfl

/-- one turn of the loop of Model/AddBlock (with VerifyTransactions) in terms of `txStepE`. -/
theorem txLoop_cons (env : Env L) (s : Node L) (why : Tx → Option TxErr)
    (hv : s.cfg.verifyTx = true)
    (hwhy : ∀ t, env.txValid s.ledger s.blockHeight t = (why t).isNone)
    (p : List Tx) (t : Tx) (rest : List Tx) :
    txLoop env s p (t :: rest) =
      (match txStepE env s why p t with | .ok p' => txLoop env s p' rest | .error _ => false) := by
  simp only [txLoop, txStepE, poolAdd_eq_poolAddE, hwhy, hv]
  cases hps : pooledSame s t
  · cases hw : why t with
    | some e => simp
    | none =>
      simp only [Option.isNone, if_true, Bool.false_eq_true, if_false]
      cases poolAddE (env.balance s.ledger) p t with
      | error e => simp
      | ok p' =>
        simp only
        split <;> simp
  · simp only [if_true]
    cases poolAddE (env.balance s.ledger) p t with
    | error e => simp
    | ok p' =>
      simp only
      split <;> simp

/-- C06: the loop with reasons refines the loop of the AddBlock model: it reports a refusal exactly when
that loop stops the block. -/
theorem txLoopE_none_iff (env : Env L) (s : Node L) (why : Tx → Option TxErr)
    (hv : s.cfg.verifyTx = true)
    (hwhy : ∀ t, env.txValid s.ledger s.blockHeight t = (why t).isNone)
    (i : Nat) (p ts : List Tx) :
    txLoopE env s why i p ts = none ↔ txLoop env s p ts = true := by
  induction ts generalizing i p with
  | nil => simp [txLoopE, txLoop]
  | cons t rest ih =>
    rw [txLoop_cons env s why hv hwhy]
    simp only [txLoopE]
    cases txStepE env s why p t with
    | error e => simp
    | ok p' => exact ih (i + 1) p'

/-- a successful turn appends exactly this transaction to the scratch pool -/
theorem txStepE_ok (env : Env L) (s : Node L) (why : Tx → Option TxErr) (p p' : List Tx) (t : Tx)
    (h : txStepE env s why p t = .ok p') : p' = p ++ [t] := by
  unfold txStepE at h
  have key : ∀ r : Except TxErr (List Tx),
      (match r with
        | .ok q => if q.length == p.length + 1 then Except.ok q else Except.error TxErr.inBlockConflict
        | .error e => Except.error e) = Except.ok p' →
      r = .ok p' ∧ p'.length = p.length + 1 := by
    intro r hr
    cases r with
    | error e => cases hr
    | ok q =>
      simp only at hr
      split at hr
      · rename_i hl; cases hr; exact ⟨rfl, by simpa using hl⟩
      · cases hr
  obtain ⟨hr, hl⟩ := key _ h
  have hadd : poolAdd (env.balance s.ledger) p t = some p' := by
    rw [poolAdd_eq_poolAddE]
    split at hr
    · rw [hr]
    · split at hr
      · cases hr
      · rw [hr]
  exact (poolAdd_noevict _ p p' t hadd hl).1

/-- C06, first failing transaction: when the loop refuses the block with `(j, e)`, the transactions
before position `j` all passed (verification or mempool shortcut, and the scratch pool), the scratch pool
then held exactly those, and transaction `j` is the one refused, for reason `e`. -/
theorem txLoopE_some (env : Env L) (s : Node L) (why : Tx → Option TxErr) (i : Nat) (p ts : List Tx)
    (j : Nat) (e : TxErr) (h : txLoopE env s why i p ts = some (j, e)) :
    ∃ pre t post, ts = pre ++ t :: post ∧ j = i + pre.length ∧
      txLoopE env s why i p pre = none ∧ txStepE env s why (p ++ pre) t = .error e := by
  induction ts generalizing i p with
  | nil => simp [txLoopE] at h
  | cons x rest ih =>
    simp only [txLoopE] at h
    cases hx : txStepE env s why p x with
    | error e' =>
      rw [hx] at h
      cases h
      exact ⟨[], x, rest, rfl, rfl, rfl, by simpa using hx⟩
    | ok p' =>
      rw [hx] at h
      have hp' := txStepE_ok env s why p p' x hx
      obtain ⟨pre, t, post, h1, h2, h3, h4⟩ := ih (i + 1) p' h
      refine ⟨x :: pre, t, post, by rw [h1]; rfl, by simp [h2]; omega, ?_, ?_⟩
      · simp only [txLoopE, hx]; exact h3
      · rw [hp'] at h4; simpa using h4

/-- C06, the mempool does not decide: if every pooled transaction that a block transaction matches
(same hash and witnesses) passes the stand-alone verification, the loop gives the verdict it gives
with an empty mempool. -/
theorem txLoop_pool_irrelevant (env : Env L) (s : Node L) (p ts : List Tx)
    (h : ∀ t ∈ ts, pooledSame s t = true → env.txValid s.ledger s.blockHeight t = true) :
    txLoop env s p ts = txLoop env { s with pool := [] } p ts := by
  induction ts generalizing p with
  | nil => rfl
  | cons t rest ih =>
    have hrest := fun p' => ih p' (fun x hx => h x (by simp [hx]))
    have ht := h t (by simp)
    have he : pooledSame { s with pool := [] } t = false := by simp [pooledSame]
    simp only [txLoop, he, Bool.false_eq_true, if_false]
    cases hp : pooledSame s t
    · simp only [Bool.false_eq_true, if_false]
      cases (if env.txValid s.ledger s.blockHeight t = true then poolAdd (env.balance s.ledger) p t else none) with
      | none => simp only; split <;> simp [hrest]
      | some p' => simp only [hrest]
    · simp only [if_true, ht hp]
      cases poolAdd (env.balance s.ledger) p t with
      | none => simp only; split <;> simp [hrest]
      | some p' => simp only [hrest]

end NeoModel.AddBlock
